(** models/conversion/delivery_ratio.go : spec only; implementation function is
    applyScaling (scale.go) with parameter [fraction]. *)
From Coq Require Import ZArith List.
From OW Require Import Base.Arith Kernels.Scale.
Import ListNotations.

Section K.
  Context {T : Type} {A : Arith T}.
  Definition delivery_ratio_kernel (params states : list T) (inputs : list (list T))
    : option (list (list T) * list T) :=
    match params, inputs with
    | [fraction], [input] => Some ([apply_scaling fraction input], states)
    | _, _ => None
    end.
End K.
