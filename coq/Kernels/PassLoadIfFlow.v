(** models/generation/pass_load_if_flow.go *)
From Coq Require Import ZArith List.
From OW Require Import Base.Arith Base.Mealy Kernels.C16Common Kernels.UnitConsts.
Import ListNotations.

Section K.
  Context {T : Type} {A : Arith T}.
  Local Open Scope ar_scope.

  Definition pass_load_if_flow_row (scalingFactor : T) (x : T * T) : T :=
    let '(f, l) := x in
    if f >? u_EFFECTIVELY_ZERO then l * scalingFactor else zero.
  Definition pass_load_if_flow_step (k : T) := loop_step (pass_load_if_flow_row k).

  Definition pass_load_if_flow_kernel (params states : list T) (inputs : list (list T))
    : option (list (list T) * list T) :=
    match params, inputs with
    | [scalingFactor], [flow; inputLoad] =>
        let rows := combine flow inputLoad in
        if scalingFactor =? zero then Some ([untouched rows], states)
        else Some ([snd (run (pass_load_if_flow_step scalingFactor) tt rows)], states)
    | _, _ => None
    end.
End K.
