(** models/conversion/var_partition.go *)
From Coq Require Import ZArith List.
From OW Require Import Base.Arith Base.Mealy Kernels.C16Common.
Import ListNotations.

Section K.
  Context {T : Type} {A : Arith T}.
  Local Open Scope ar_scope.

  Definition variable_partition_row (x : T * T) : T * T :=
    let '(incoming, frac) := x in
    (incoming * frac, incoming * (one - frac)).
  Definition variable_partition_step := loop_step variable_partition_row.

  Definition variable_partition_kernel (params states : list T) (inputs : list (list T))
    : option (list (list T) * list T) :=
    match params, inputs with
    | [], [input; fraction] =>
        let os := snd (run variable_partition_step tt (combine input fraction)) in
        Some ([map fst os; map snd os], states)
    | _, _ => None
    end.
End K.
