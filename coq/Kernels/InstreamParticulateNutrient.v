(** models/routing/instream_particulate_nutrient.go : instreamParticulateNutrient.
    Definitions only.  State: (instreamStoredMass, channelStoredMass).  Ghost
    outputs: floodplain deposit and bed exchange in kg per step (the Go output
    loadDeposited is NOT written on a flushed step although the channel store
    has already been updated), and the flushed mass. *)
From Coq Require Import ZArith List.
From OW Require Import Base.Arith Base.Mealy Kernels.C12Common Kernels.LumpedConstituent.
Import ListNotations.

Section K.
  Context {T : Type} {A : Arith T}.
  Local Open Scope ar_scope.

  Record pn_in := mk_pn_in {
    pi_incomingMassUpstream : T; pi_incomingMassLateral : T; pi_reachVolume : T; pi_outflow : T;
    pi_streambankErosion : T; pi_lateralSediment : T;
    pi_floodplainDepositionFraction : T; pi_channelDepositionFraction : T }.

  Record pn_out := mk_pn_out {
    po_loadDeposited : T;       (* kg per step (0 on a flushed step) *)
    po_loadFromStreambank : T;  (* kg/s *)
    po_loadDownstream : T;      (* kg/s *)
    po_loadToFloodplain : T;    (* kg/s *)
    po_floodplainDeposit : T;   (* ghost: kg per step *)
    po_bedExchange : T;         (* ghost: kg per step added to the channel store *)
    po_flushed : T              (* ghost: kg discarded this step *)
  }.

  Definition pn_working_vol (durationInSeconds : T) (x : pn_in) : T :=
    pi_outflow x * durationInSeconds + pi_reachVolume x.

  Definition pn_step (particulateNutrientConcentration soilPercentFine durationInSeconds : T)
      (s : T * T) (x : pn_in) : (T * T) * pn_out :=
    let '(instreamStoredMass, channelStoredMass) := s in
    let incomingUpstream := pi_incomingMassUpstream x * durationInSeconds in
    let incomingLateral := pi_incomingMassLateral x * durationInSeconds in
    let total0 := instreamStoredMass + incomingUpstream + incomingLateral in
    let forDep0 := instreamStoredMass + incomingUpstream in
    let forDep1 := if pi_lateralSediment x >? zero then forDep0 + incomingLateral else forDep0 in
    let forDep2 := if forDep1 <? zero then zero else forDep1 in
    let streamBankRate := pi_streambankErosion x * particulateNutrientConcentration in
    let streamBankParticulate := streamBankRate * durationInSeconds in
    let total1 := total0 + streamBankParticulate in
    let forDep := forDep2 + streamBankParticulate * (soilPercentFine / of_Z 100) in
    let fpDepositionFraction := amin (amax (pi_floodplainDepositionFraction x) zero) one in
    let nutrientDailyDepositedFloodPlain := fpDepositionFraction * forDep in
    let bedDepositSignal := pi_channelDepositionFraction x in
    let '(channelStoredMass', bedExchange) :=
      if bedDepositSignal >=? zero then
        let bedExchange := amin (bedDepositSignal * forDep) (forDep - nutrientDailyDepositedFloodPlain) in
        (channelStoredMass + bedExchange, bedExchange)
      else
        let resuspension := neg bedDepositSignal * forDep in
        (channelStoredMass - resuspension, neg resuspension) in
    let netLoss := nutrientDailyDepositedFloodPlain + bedExchange in
    let amountLeft := total1 - netLoss in
    let outflowRate := pi_outflow x in
    let outflowV := outflowRate * durationInSeconds in
    let storedV := pi_reachVolume x in
    let workingVol := outflowV + storedV in
    if workingVol <? MINIMUM_VOLUME then
      ((zero, channelStoredMass'),
       {| po_loadDeposited := zero; po_loadFromStreambank := streamBankRate; po_loadDownstream := zero;
          po_loadToFloodplain := nutrientDailyDepositedFloodPlain / durationInSeconds;
          po_floodplainDeposit := nutrientDailyDepositedFloodPlain; po_bedExchange := bedExchange;
          po_flushed := amountLeft |})
    else
      let concentration := amountLeft / workingVol in
      ((concentration * storedV, channelStoredMass'),
       {| po_loadDeposited := bedExchange; po_loadFromStreambank := streamBankRate;
          po_loadDownstream := concentration * outflowRate;
          po_loadToFloodplain := nutrientDailyDepositedFloodPlain / durationInSeconds;
          po_floodplainDeposit := nutrientDailyDepositedFloodPlain; po_bedExchange := bedExchange;
          po_flushed := zero |}).

  Definition pn_rows (a b c d e f g h : list T) : list pn_in :=
    map (fun r => let '(a, b, c, d, e, f, g, h) := r in mk_pn_in a b c d e f g h) (zip8 a b c d e f g h).

  (** params particulateNutrientConcentration soilPercentFine durationInSeconds;
      states instreamStoredMass channelStoredMass; inputs incomingMassUpstream
      incomingMassLateral reachVolume outflow streambankErosion lateralSediment
      floodplainDepositionFraction channelDepositionFraction; outputs loadDeposited
      loadFromStreambank loadDownstream loadToFloodplain *)
  Definition instream_particulate_nutrient_kernel (params states : list T) (inputs : list (list T))
    : option (list (list T) * list T) :=
    match params, states, inputs with
    | [pnc; spf; dt], [instream; channel], [up; lat; vol; outflow; sbe; latsed; fpf; cdf] =>
        let '((i', c'), os) := run (pn_step pnc spf dt) (instream, channel)
                                   (pn_rows up lat vol outflow sbe latsed fpf cdf) in
        Some ([map po_loadDeposited os; map po_loadFromStreambank os; map po_loadDownstream os;
               map po_loadToFloodplain os], [i'; c'])
    | _, _, _ => None
    end.
End K.
