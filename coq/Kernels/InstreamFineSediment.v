(** models/routing/instream_fine_sediment.go : instreamFineSediment,
    floodPlainDepositionEmperical, inChannelStorage.  Definitions only.

    State of the machine: (channelStoreFine, totalStoredMass).  Ghost outputs:
    the floodplain deposit in kg per step (the Go output loadToFloodplain is that
    amount divided by the step length), the total water volume of the step, and
    [fo_flushed], the mass discarded when the total volume is not positive. *)
From Coq Require Import ZArith List.
From OW Require Import Base.Arith Base.Mealy Kernels.C12Common Kernels.LumpedConstituent.
Import ListNotations.

Section K.
  Context {T : Type} {A : Arith T}.
  Local Open Scope ar_scope.

  (** conv/units *)
  Definition FS_TONNES_TO_KG : T := of_q 1000 1.
  Definition FS_KG_TO_TONNES : T := of_q 1 1000.
  Definition FS_SECONDS_PER_DAY : T := of_q 86400 1.
  (** the literal 1e-8 in [if bankFullFlow <= 1e-8] *)
  Definition FS_BANKFULL_EPS : T := of_q 1 100000000.

  Record fine_params := mk_fine_params {
    fp_bankFullFlow : T; fp_fineSedSettVelocityFlood : T; fp_floodPlainArea : T;
    fp_linkWidth : T; fp_linkLength : T; fp_linkSlope : T; fp_bankHeight : T;
    fp_propBankHeightForFineDep : T; fp_sedBulkDensity : T; fp_manningsN : T;
    fp_fineSedSettVelocity : T; fp_fineSedReMobVelocity : T; fp_durationInSeconds : T }.

  Record fine_in := mk_fine_in {
    fi_upstreamMass : T; fi_lateralMass : T; fi_reachLocalMass : T; fi_reachVolume : T; fi_outflow : T }.

  Record fine_out := mk_fine_out {
    fo_loadDownstream : T;               (* kg/s *)
    fo_loadToFloodplain : T;             (* kg/s *)
    fo_loadToChannelDeposition : T;      (* kg per step; negative = remobilisation *)
    fo_floodplainDepositionFraction : T;
    fo_channelDepositionFraction : T;
    fo_floodplainDeposit : T;            (* ghost: kg per step *)
    fo_totalVolume : T;                  (* ghost *)
    fo_channelStoreBefore : T;           (* ghost: channelStoreFine at the start of the step *)
    fo_flushed : T                       (* ghost: kg discarded this step *)
  }.

  Definition floodPlainDepositionEmperical (outflow totalDailyConstsituentMass
      bankFullFlow fineSedSettVelocityFlood floodPlainArea : T) : T :=
    if orb (outflow <=? bankFullFlow) (bankFullFlow =? zero) then zero
    else
      let Qf := outflow - bankFullFlow in
      let FloodFlowProp := Qf / outflow in
      let expTerm := of_Z (-1) * ((fineSedSettVelocityFlood * floodPlainArea) / Qf) in
      let dep := totalDailyConstsituentMass * FloodFlowProp * (one - aexp expTerm) in
      if dep >? totalDailyConstsituentMass then totalDailyConstsituentMass else dep.

  (** sediment transport capacity thresholds (t/day) *)
  Definition fine_STC (outflowVal linkSlope linkWidth manningsN velocity : T) : T :=
    (of_q 1 10 * (apow outflowVal (of_q 14 10) * apow linkSlope (of_q 13 10)) /
       (velocity * apow linkWidth (of_q 4 10) * apow manningsN (of_q 6 10))) * FS_SECONDS_PER_DAY.

  Definition inChannelStorage (outflow totalVolume totalDailyConstsituentMass initialChannelStore
      linkWidth linkSlope manningsN fineSedSettVelocity fineSedReMobVelocity maxStorage : T) : T :=
    if totalVolume <=? zero then zero
    else
      let propTotalStreamFootprint := one in
      let loadInStreamBeforeDep_tons := totalDailyConstsituentMass * FS_KG_TO_TONNES in
      let loadInThisSegBeforeDep_tons := propTotalStreamFootprint * loadInStreamBeforeDep_tons in
      let outflowVal := outflow * propTotalStreamFootprint in
      let STC_Dep_t := fine_STC outflowVal linkSlope linkWidth manningsN fineSedSettVelocity in
      let STC_Mob_t := fine_STC outflowVal linkSlope linkWidth manningsN fineSedReMobVelocity in
      if loadInThisSegBeforeDep_tons >? STC_Dep_t then
        let availDepFromStorage := (loadInThisSegBeforeDep_tons - STC_Dep_t) * FS_TONNES_TO_KG in
        amin availDepFromStorage (maxStorage - (propTotalStreamFootprint * initialChannelStore))
      else if loadInThisSegBeforeDep_tons <? STC_Mob_t then
        let availReMob := (STC_Mob_t - loadInThisSegBeforeDep_tons) * FS_TONNES_TO_KG in
        neg (amin availReMob (propTotalStreamFootprint * initialChannelStore))
      else zero.

  Definition fine_maxStorage (p : fine_params) : T :=
    let linkArea := fp_linkWidth p * fp_linkLength p in
    fp_propBankHeightForFineDep p * fp_bankHeight p * linkArea * fp_sedBulkDensity p * FS_TONNES_TO_KG.

  (** [if channelStoreFine < 0.0 { channelStoreFine = math.Abs(channelStoreFine) * maxStorage }]
      executed once, before the time loop *)
  Definition fine_init_store (p : fine_params) (channelStoreFine : T) : T :=
    if channelStoreFine <? zero then aabs channelStoreFine * fine_maxStorage p else channelStoreFine.

  (** one iteration of the time loop (bankFullFlow > 1e-8) *)
  Definition fine_step (p : fine_params) (s : T * T) (x : fine_in) : (T * T) * fine_out :=
    let '(channelStoreFine, totalStoredMass) := s in
    let durationInSeconds := fp_durationInSeconds p in
    let maxStorage := fine_maxStorage p in
    let incomingMassNow := (fi_upstreamMass x + fi_lateralMass x + fi_reachLocalMass x) * durationInSeconds in
    let outflowRate := fi_outflow x in
    let outflowNow := outflowRate * durationInSeconds in
    let reachVolumeNow := fi_reachVolume x in
    let totalMass0 := totalStoredMass + incomingMassNow in
    let totalVolume := reachVolumeNow + outflowNow in
    let combined := totalMass0 in
    let fpDep := floodPlainDepositionEmperical outflowRate totalMass0
                   (fp_bankFullFlow p) (fp_fineSedSettVelocityFlood p) (fp_floodPlainArea p) in
    let totalMass1 := totalMass0 - fpDep in
    let proportionDepositedFloodplain := if combined >? zero then fpDep / combined else zero in
    let net := inChannelStorage outflowRate totalVolume totalMass1 channelStoreFine
                 (fp_linkWidth p) (fp_linkSlope p) (fp_manningsN p)
                 (fp_fineSedSettVelocity p) (fp_fineSedReMobVelocity p) maxStorage in
    let proportionDepositedChannel := if combined >? zero then net / combined else zero in
    let channelStoreFine' := channelStoreFine + net in
    let totalMass2 := totalMass1 - net in
    let '(totalStoredMass', outflowLoad, flushed) :=
      if totalVolume >? zero then
        let concentration := totalMass2 / totalVolume in
        (concentration * reachVolumeNow, concentration * outflowRate, zero)
      else (zero, zero, totalMass2) in
    ((channelStoreFine', totalStoredMass'),
     {| fo_loadDownstream := outflowLoad;
        fo_loadToFloodplain := fpDep / durationInSeconds;
        fo_loadToChannelDeposition := net;
        fo_floodplainDepositionFraction := proportionDepositedFloodplain;
        fo_channelDepositionFraction := proportionDepositedChannel;
        fo_floodplainDeposit := fpDep;
        fo_totalVolume := totalVolume;
        fo_channelStoreBefore := channelStoreFine;
        fo_flushed := flushed |}).

  Definition fine_rows (a b c d e : list T) : list fine_in :=
    map (fun r => let '(a, b, c, d, e) := r in mk_fine_in a b c d e) (zip5 a b c d e).

  (** the bankFullFlow <= 1e-8 path: LumpedConstituentTransport of everything that
      enters the reach: the Go code first builds the series lateralMass[i] +
      reachLocalMass[i] and passes it as the lateral load (no point input, no
      point-source output); the four other outputs are never written.  One loop
      iteration, on the state totalStoredMass: *)
  Definition fine_to_lumped (x : fine_in) : lumped_in :=
    mk_lumped_in (fi_upstreamMass x) (fi_lateralMass x + fi_reachLocalMass x) (fi_outflow x) (fi_reachVolume x).

  Definition fine_lowbank_step (p : fine_params) (totalStoredMass : T) (x : fine_in) : T * lumped_out :=
    lumped_step zero (fp_durationInSeconds p) totalStoredMass (fine_to_lumped x).

  Definition fine_lowbank (p : fine_params) (channelStoreFine totalStoredMass : T)
      (rows : list fine_in) : (T * T) * list lumped_out :=
    let (s', os) := run (fine_lowbank_step p) totalStoredMass rows in
    ((channelStoreFine, s'), os).

  (** params (13, spec order); states channelStoreFine totalStoredMass; inputs
      upstreamMass lateralMass reachLocalMass reachVolume outflow; outputs
      loadDownstream loadToFloodplain loadToChannelDeposition
      floodplainDepositionFraction channelDepositionFraction *)
  Definition instream_fine_sediment_kernel (params states : list T) (inputs : list (list T))
    : option (list (list T) * list T) :=
    match params, states, inputs with
    | [bff; vflood; fpa; lw; ll; ls; bh; pbh; sbd; mn; vs; vr; dt], [channelStoreFine; totalStoredMass],
      [upstreamMass; lateralMass; reachLocalMass; reachVolume; outflow] =>
        let p := mk_fine_params bff vflood fpa lw ll ls bh pbh sbd mn vs vr dt in
        if bff <=? FS_BANKFULL_EPS then
          let '((c', s'), os) := fine_lowbank p channelStoreFine totalStoredMass
                                   (fine_rows upstreamMass lateralMass reachLocalMass reachVolume outflow) in
          Some ([map lo_outflowLoad os; zeros os; zeros os; zeros os; zeros os], [c'; s'])
        else
          let '((c', s'), os) := run (fine_step p) (fine_init_store p channelStoreFine, totalStoredMass)
                                     (fine_rows upstreamMass lateralMass reachLocalMass reachVolume outflow) in
          Some ([map fo_loadDownstream os; map fo_loadToFloodplain os; map fo_loadToChannelDeposition os;
                 map fo_floodplainDepositionFraction os; map fo_channelDepositionFraction os], [c'; s'])
    | _, _, _ => None
    end.
End K.
