(** models/generation/dissolved_nutrients.go (SednetDissolvedNutrientGeneration) *)
From Coq Require Import ZArith List.
From OW Require Import Base.Arith Base.Mealy Kernels.C16Common Kernels.UnitConsts.
Import ListNotations.

Section K.
  Context {T : Type} {A : Arith T}.
  Local Open Scope ar_scope.

  (** (quickflowConstituent, slowflowConstituent, totalLoad) *)
  Definition dissolved_nutrients_row (dissConst_EMC dissConst_DWC : T) (x : T * T) : T * T * T :=
    let '(quickflow, slowflow) := x in
    let emc_mgL := dissConst_EMC in
    let cumecs_to_lpd := u_CUMECS_TO_LITRES_PER_DAY in
    let quick_l := quickflow * cumecs_to_lpd in
    let slow_l := slowflow * cumecs_to_lpd in
    let quick_kg := emc_mgL * quick_l * u_MILLIGRAM_TO_KG in
    let slow_kg := dissConst_DWC * slow_l * u_MILLIGRAM_TO_KG in
    (quick_kg / u_SECONDS_PER_DAY, slow_kg / u_SECONDS_PER_DAY, (quick_kg + slow_kg) / u_SECONDS_PER_DAY).
  Definition dissolved_nutrients_step (e d : T) := loop_step (dissolved_nutrients_row e d).

  Definition dissolved_nutrients_kernel (params states : list T) (inputs : list (list T))
    : option (list (list T) * list T) :=
    match params, inputs with
    | [emc; dwc], [quickflow; slowflow] =>
        let os := snd (run (dissolved_nutrients_step emc dwc) tt (combine quickflow slowflow)) in
        Some ([map (fun o => fst (fst o)) os; map (fun o => snd (fst o)) os; map snd os], states)
    | _, _ => None
    end.
End K.
