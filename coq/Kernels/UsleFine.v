(** models/generation/uslefine.go (USLEFineSedimentGeneration) *)
From Coq Require Import ZArith List Bool.
From OW Require Import Base.Arith Base.Mealy Kernels.C16Common Kernels.UnitConsts.
Import ListNotations.

Section K.
  Context {T : Type} {A : Arith T}.
  Local Open Scope ar_scope.

  Record usle_params := {
    us_S : T; us_P : T; us_rainThreshold : T; us_alpha : T; us_beta : T; us_eta : T;
    us_a1 : T; us_a2 : T; us_a3 : T; us_dwc : T; us_avK : T; us_avLS : T; us_avFines : T;
    us_area : T; us_maxConc : T; us_hsdrFine : T; us_hsdrCoarse : T; us_timeStepInSeconds : T }.

  Record usle_out := {
    us_quickLoadFine : T; us_slowLoadFine : T; us_quickLoadCoarse : T; us_slowLoadCoarse : T;
    us_totalFineLoad : T; us_totalCoarseLoad : T; us_generatedLoadFine : T; us_generatedLoadCoarse : T }.

  (** 2 * math.Pi : an untyped constant, rounded once to binary64 = 884279719003555 / 2^47 *)
  Definition two_pi : T := of_q 884279719003555 140737488355328.

  Definition usle_scanlon (doy : T) : T := acos (two_pi * (doy - of_Z 15) / of_Z 365).

  (** the R factor *)
  Definition usle_R (p : usle_params) (rain doy : T) : T :=
    if rain >? us_rainThreshold p then
      us_alpha p * (one + us_eta p * usle_scanlon doy) * apow rain (us_beta p)
    else zero.

  (** qf * CUMECS->ML/day * ML->L *)
  Definition usle_litres_per_day (qf : T) : T := qf * u_CUMECS_TO_ML_PER_DAY * u_MEGA_LITRES_TO_LITRES.
  Definition usle_mass_kg (p : usle_params) (rate : T) : T :=
    rate * us_area p * u_SQUARE_METRES_TO_HECTARES * u_TONNES_TO_KG.

  (** the three rates (total, fine, coarse) after the maximum-concentration cap;
      only evaluated inside the "event checker" *)
  Definition usle_capped_rates (p : usle_params) (qf total fine coarse : T) : T * T * T :=
    let currentFineSedMassKg := usle_mass_kg p fine in
    let conc := (currentFineSedMassKg * u_KG_TO_MILLIGRAM) / usle_litres_per_day qf in
    if conc >? us_maxConc p then
      let allowedFineSedMassKg := us_maxConc p * usle_litres_per_day qf / u_KG_TO_MILLIGRAM in
      let concPropAdj := allowedFineSedMassKg / currentFineSedMassKg in
      (total * concPropAdj, fine * concPropAdj, coarse * concPropAdj)
    else (total, fine, coarse).

  (** inputs: ((((((quickflow, baseflow), rainfall), KLSC), KLSC_Fine), CovOrCFact), dayOfYear) *)
  Definition usle_row (p : usle_params) (x : T * T * T * T * T * T * T) : usle_out :=
    let '(qf, sf, rain, klsc_in, klscFine_in, cFactor, doy) := x in
    let loadS := us_dwc p * sf * u_MG_PER_LITRE_TO_KG_PER_M3 in
    let useAvModel := false in
    let '(theKLSCval, theKLSCClayval) :=
      if useAvModel then
        let k := us_avK p * us_avLS p * cFactor in (k, k * (us_avFines p / of_Z 100))
      else (klsc_in, klscFine_in) in
    let R := usle_R p rain doy in
    let total := R * theKLSCval in
    let fine := R * theKLSCClayval in
    let coarse := total - fine in
    let '(loadQ, afterCoarse, dailyFine, dailyCoarse) :=
      if (qf >? zero) && (total >? zero) then
        let '(rT, rF, rC) := usle_capped_rates p qf total fine coarse in
        let dailyFine := usle_mass_kg p rF in
        let dailyCoarse := usle_mass_kg p rC in
        let afterFine := dailyFine * (us_hsdrFine p * of_q 1 100) in
        let afterCoarse := dailyCoarse * (us_hsdrCoarse p * of_q 1 100) in
        (afterFine / us_timeStepInSeconds p, afterCoarse, dailyFine, dailyCoarse)
      else (zero, zero, zero, zero) in
    let coarseQuick := afterCoarse / us_timeStepInSeconds p in
    {| us_quickLoadFine := loadQ; us_slowLoadFine := loadS;
       us_quickLoadCoarse := coarseQuick; us_slowLoadCoarse := zero;
       us_totalFineLoad := loadQ + loadS; us_totalCoarseLoad := coarseQuick + zero;
       us_generatedLoadFine := dailyFine / us_timeStepInSeconds p;
       us_generatedLoadCoarse := dailyCoarse / us_timeStepInSeconds p |}.
  Definition usle_step (p : usle_params) := loop_step (usle_row p).

  Definition combine7 (a b c d e f g : list T) : list (T * T * T * T * T * T * T) :=
    combine (combine (combine (combine (combine (combine a b) c) d) e) f) g.

  Definition usle_fine_kernel (params states : list T) (inputs : list (list T))
    : option (list (list T) * list T) :=
    match params, inputs with
    | [s; pp; rt; alpha; beta; eta; a1; a2; a3; dwc; avK; avLS; avFines; area; maxConc; hf; hc; ts],
      [quickflow; baseflow; rainfall; klsc; klscFine; cov; doy] =>
        let p := {| us_S := s; us_P := pp; us_rainThreshold := rt; us_alpha := alpha; us_beta := beta;
                    us_eta := eta; us_a1 := a1; us_a2 := a2; us_a3 := a3; us_dwc := dwc; us_avK := avK;
                    us_avLS := avLS; us_avFines := avFines; us_area := area; us_maxConc := maxConc;
                    us_hsdrFine := hf; us_hsdrCoarse := hc; us_timeStepInSeconds := ts |} in
        let os := snd (run (usle_step p) tt (combine7 quickflow baseflow rainfall klsc klscFine cov doy)) in
        Some ([map us_quickLoadFine os; map us_slowLoadFine os; map us_quickLoadCoarse os;
               map us_slowLoadCoarse os; map us_totalFineLoad os; map us_totalCoarseLoad os;
               map us_generatedLoadFine os; map us_generatedLoadCoarse os], states)
    | _, _ => None
    end.
End K.
