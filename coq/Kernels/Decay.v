(** models/routing/decay.go : constituentDecay (ConstituentDecay).  Definitions only. *)
From Coq Require Import ZArith List.
From OW Require Import Base.Arith Base.Mealy Kernels.C12Common.
Import ListNotations.

Section K.
  Context {T : Type} {A : Arith T}.
  Local Open Scope ar_scope.

  (** const MINIMUM_VOLUME=0.01 (local to constituentDecay) *)
  Definition DECAY_MINIMUM_VOLUME : T := of_q 1 100.

  Record decay_in := mk_decay_in {
    di_inflowLoad : T; di_lateralLoad : T; di_inflow : T; di_outflow : T; di_storage : T }.
  Record decay_out := mk_decay_out {
    do_decayedLoad : T;   (* kg/s : decayedAmount / deltaT *)
    do_outflowLoad : T;   (* kg/s *)
    do_decayedAmount : T; (* ghost: kg decayed this step *)
    do_flushed : T        (* ghost: kg discarded this step *)
  }.

  Definition decay_working_vol (deltaT : T) (x : decay_in) : T :=
    di_outflow x * deltaT + di_storage x.

  (** math.Pow(2.0, -deltaT/halflife) *)
  Definition decay_fraction (halflife deltaT : T) : T := apow (of_Z 2) (neg deltaT / halflife).

  Definition decay_step (halflife deltaT : T) (storedMass : T) (x : decay_in) : T * decay_out :=
    let '(decayedLoadOut, decayedAmount, storedMass1) :=
      if halflife >? zero then
        let fraction := decay_fraction halflife deltaT in
        let decayedAmount := (one - fraction) * storedMass in
        (decayedAmount / deltaT, decayedAmount, storedMass * fraction)
      else (zero, zero, storedMass) in
    let inflowLoad := di_inflowLoad x * deltaT in
    let lateralLoad := di_lateralLoad x * deltaT in
    let workingMass := storedMass1 + inflowLoad + lateralLoad in
    let outflowR := di_outflow x in
    let outflowV := outflowR * deltaT in
    let storedV := di_storage x in
    let workingVol := outflowV + storedV in
    if workingVol <? DECAY_MINIMUM_VOLUME then
      (zero, {| do_decayedLoad := decayedLoadOut; do_outflowLoad := zero;
                do_decayedAmount := decayedAmount; do_flushed := workingMass |})
    else
      let concentration := workingMass / workingVol in
      let outflowLoad := concentration * outflowR in
      (workingMass - outflowLoad * deltaT,
       {| do_decayedLoad := decayedLoadOut; do_outflowLoad := outflowLoad;
          do_decayedAmount := decayedAmount; do_flushed := zero |}).

  Definition decay_rows (a b c d e : list T) : list decay_in :=
    map (fun r => let '(a, b, c, d, e) := r in mk_decay_in a b c d e) (zip5 a b c d e).

  (** params X halfLife DeltaT; state storedMass; inputs inflowLoad lateralLoad
      inflow outflow storage; outputs decayedLoad outflowLoad *)
  Definition constituent_decay_kernel (params states : list T) (inputs : list (list T))
    : option (list (list T) * list T) :=
    match params, states, inputs with
    | [x; halfLife; deltaT], [storedMass], [inflowLoad; lateralLoad; inflow; outflow; storage] =>
        let (s', os) := run (decay_step halfLife deltaT) storedMass
                            (decay_rows inflowLoad lateralLoad inflow outflow storage) in
        Some ([map do_decayedLoad os; map do_outflowLoad os], [s'])
    | _, _, _ => None
    end.
End K.
