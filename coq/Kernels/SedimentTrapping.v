(** models/storage/sediment_trapping.go : storageParticulateTrapping.
    Definitions only.  When the working volume is not positive nothing is
    released and the stored mass is kept (no flush in this model). *)
From Coq Require Import ZArith List.
From OW Require Import Base.Arith Base.Mealy Kernels.C12Common.
Import ListNotations.

Section K.
  Context {T : Type} {A : Arith T}.
  Local Open Scope ar_scope.

  Record trap_params := mk_trap_params {
    tp_deltaT : T; tp_reservoirCapacity : T; tp_reservoirLength : T; tp_subtractor : T;
    tp_multiplier : T; tp_lengthDischargeFactor : T; tp_lengthDischargePower : T }.

  Record trap_in := mk_trap_in { ti_inflowLoad : T; ti_inflow : T; ti_outflow : T; ti_storage : T }.
  Record trap_out := mk_trap_out {
    to_trappedMass : T;   (* kg per step *)
    to_outflowLoad : T    (* kg/s *)
  }.

  (** util/m : [MaxFloat64(a,b) = if a > b then a else b], [MinFloat64(a,b) = if a > b then b else a]
      (not math.Max / math.Min: no NaN propagation) *)
  Definition m_MaxFloat64 (a b : T) : T := if a >? b then a else b.
  Definition m_MinFloat64 (a b : T) : T := if a >? b then b else a.

  Definition trap_working_vol (p : trap_params) (x : trap_in) : T :=
    ti_outflow x * tp_deltaT p + ti_storage x.

  Definition damTrappingPC (p : trap_params) (inflowRate : T) : T :=
    if andb (inflowRate >? zero) (tp_reservoirLength p >? zero) then
      let sedimentationIndex :=
        apow (tp_reservoirCapacity p) (of_Z 2) /
        (tp_lengthDischargeFactor p * tp_reservoirLength p * apow inflowRate (of_Z 2)) in
      let pc := tp_subtractor p - (tp_multiplier p * apow sedimentationIndex (tp_lengthDischargePower p)) in
      m_MinFloat64 (of_Z 100) (m_MaxFloat64 zero pc)
    else zero.

  Definition trap_step (p : trap_params) (storedMass : T) (x : trap_in) : T * trap_out :=
    let deltaT := tp_deltaT p in
    let incomingMass := ti_inflowLoad x * deltaT in
    let pc := damTrappingPC p (ti_inflow x) in
    let dailyTrappedConstituentLoad := incomingMass * pc / of_Z 100 in
    let storedMass1 := storedMass + incomingMass - dailyTrappedConstituentLoad in
    let storageOutflowRate := ti_outflow x in
    let storageWorkingVolume := storageOutflowRate * deltaT + ti_storage x in
    let massOutRate :=
      if storageWorkingVolume >? zero then
        let concentration := storedMass1 / storageWorkingVolume in
        storageOutflowRate * concentration
      else zero in
    (amax (storedMass1 - (massOutRate * deltaT)) zero,
     {| to_trappedMass := dailyTrappedConstituentLoad; to_outflowLoad := massOutRate |}).

  Definition trap_rows (a b c d : list T) : list trap_in :=
    map (fun r => let '(a, b, c, d) := r in mk_trap_in a b c d) (zip4 a b c d).

  (** params DeltaT reservoirCapacity reservoirLength subtractor multiplier
      lengthDischargeFactor lengthDischargePower; state storedMass; inputs inflowLoad
      inflow outflow storage; outputs trappedMass outflowLoad *)
  Definition storage_particulate_trapping_kernel (params states : list T) (inputs : list (list T))
    : option (list (list T) * list T) :=
    match params, states, inputs with
    | [dt; cap; len; sub; mult; ldf; ldp], [storedMass], [inflowLoad; inflow; outflow; storage] =>
        let p := mk_trap_params dt cap len sub mult ldf ldp in
        let (s', os) := run (trap_step p) storedMass (trap_rows inflowLoad inflow outflow storage) in
        Some ([map to_trappedMass os; map to_outflowLoad os], [s'])
    | _, _, _ => None
    end.
End K.
