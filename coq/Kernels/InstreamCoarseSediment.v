(** models/routing/instream_coarse_sediment.go : instreamCoarseSediment.
    Everything that arrives is deposited in the channel store; nothing goes
    downstream.  Definitions only. *)
From Coq Require Import ZArith List.
From OW Require Import Base.Arith Base.Mealy Kernels.C12Common.
Import ListNotations.

Section K.
  Context {T : Type} {A : Arith T}.
  Local Open Scope ar_scope.

  (** state: (channelStore, storedMass); input row: (upstream, lateral, reachLocal) in kg/s;
      output: loadDownstream *)
  Definition coarse_step (deltaT : T) (s : T * T) (x : T * T * T) : (T * T) * T :=
    let '(channelStore, storedMass) := s in
    let '(up, lat, loc) := x in
    let incomingMass := (up + lat + loc) * deltaT in
    let totalDailyConstituentMass := storedMass + incomingMass in
    let dailyCoarseSedDeposited_Kg := totalDailyConstituentMass in
    ((channelStore + dailyCoarseSedDeposited_Kg, zero), zero).

  (** params durationInSeconds; states channelStore totalStoredMass; inputs
      upstreamMass lateralMass reachLocalMass; outputs loadDownstream *)
  Definition instream_coarse_sediment_kernel (params states : list T) (inputs : list (list T))
    : option (list (list T) * list T) :=
    match params, states, inputs with
    | [deltaT], [channelStore; storedMass], [upstreamMass; lateralMass; reachLocalMass] =>
        let '((c', s'), os) := run (coarse_step deltaT) (channelStore, storedMass)
                                   (zip3 upstreamMass lateralMass reachLocalMass) in
        Some ([os], [c'; s'])
    | _, _, _ => None
    end.
End K.
