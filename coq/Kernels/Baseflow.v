(** models/functions/baseflow.go : the loop body is empty; neither output is written. *)
From Coq Require Import ZArith List.
From OW Require Import Base.Arith Base.Mealy Kernels.C16Common.
Import ListNotations.

Section K.
  Context {T : Type} {A : Arith T}.
  Definition baseflow_filter_kernel (params states : list T) (inputs : list (list T))
    : option (list (list T) * list T) :=
    match params, inputs with
    | [], [streamflow] => Some ([untouched streamflow; untouched streamflow], states)
    | _, _ => None
    end.
End K.
