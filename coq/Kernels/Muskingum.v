(** Model of models/routing/muskingum.go (C11), written once over [Arith].
    Definitions only; proofs are in KernelProofs/Muskingum.v.

    Go code modelled:

      kx2 := 2 * k * x
      denom := (2*k*(1-x) + deltaT)
      a1 := (deltaT - kx2) / denom
      a2 := (deltaT + kx2) / denom
      a3 := (2*k*(1-x) - deltaT) / denom
      for i := 0; i < nDays; i++ {
        outflow := a1*(inflow+lateral) + a2*prevInflow + a3*prevOutflow
        prevOutflow = outflow
        prevInflow = inflow + lateral
      }
      return s, prevInflow, prevOutflow

    Order of the parameters (generated wrapper): K, X, DeltaT.  States: S, prevInflow,
    prevOutflow.  Inputs: inflow, lateral.  Output: outflow. *)
From Coq Require Import ZArith List Bool.
From OW Require Import Base.Arith Base.Mealy.
Import ListNotations.

Section K.
  Context {T : Type} {A : Arith T}.
  Local Open Scope ar_scope.

  (** the three routing weights, computed once before the time loop *)
  Record musk_weights := mkW { a1 : T; a2 : T; a3 : T }.

  Definition musk_kx2 (k x : T) : T := of_Z 2 * k * x.
  Definition musk_denom (k x dt : T) : T := of_Z 2 * k * (one - x) + dt.
  Definition musk_setup (k x dt : T) : musk_weights :=
    let kx2 := musk_kx2 k x in
    let denom := musk_denom k x dt in
    mkW ((dt - kx2) / denom) ((dt + kx2) / denom) ((of_Z 2 * k * (one - x) - dt) / denom).

  (** machine state: (prevInflow, prevOutflow); the state S is passed through untouched *)
  Definition musk_state := (T * T)%type.

  (** one loop iteration; input = (inflow, lateral), output = outflow *)
  Definition musk_step (w : musk_weights) (s : musk_state) (i : T * T) : musk_state * T :=
    let '(prev_in, prev_out) := s in
    let '(inflow, lateral) := i in
    let outflow := a1 w * (inflow + lateral) + a2 w * prev_in + a3 w * prev_out in
    ((inflow + lateral, outflow), outflow).

  Definition musk_run (w : musk_weights) (s : musk_state) (xs : list (T * T)) : musk_state * list T :=
    run (musk_step w) s xs.

  (** the kernel as the generated wrapper sees it ([None]: the wrapper indexes
      a missing entry of the parameter, state or input vectors and panics; surplus
      parameters and input series are ignored, surplus states are left untouched) *)
  Definition muskingum_kernel (params : list T) (states : list T) (inputs : list (list T))
    : option (list (list T) * list T) :=
    match params, states, inputs with
    | k :: x :: dt :: _, s :: prev_in :: prev_out :: rest, inflows :: laterals :: _ =>
        let w := musk_setup k x dt in
        let '((pin, pout), outs) := musk_run w (prev_in, prev_out) (combine inflows laterals) in
        Some ([outs], s :: pin :: pout :: rest)
    | _, _, _ => None
    end.
End K.
