(** Lemmas about the index computations of Wrapper/Run.v: row-major ravel,
    and the closed forms of every view the template creates. *)
From Coq Require Import List Arith ZArith Lia Bool.
From OW Require Import Base.Interleave Wrapper.Spec Wrapper.Run.
Import ListNotations.
Local Open Scope nat_scope.

Lemma seq_shift_map : forall n s, map (fun t => s + t) (seq 0 n) = seq s n.
Proof.
  induction n; intros s; simpl; auto.
  rewrite Nat.add_0_r. f_equal. rewrite <- seq_shift, map_map.
  rewrite <- (IHn (S s)). apply map_ext. intros; lia.
Qed.

Lemma seq_shift_map_gen : forall (f : nat -> nat) n s, (forall t, f t = s + t) -> map f (seq 0 n) = seq s n.
Proof. intros f n s H. rewrite <- (seq_shift_map n s). apply map_ext. auto. Qed.

Lemma flat_map_seq_blocks : forall P d s,
  flat_map (fun a => seq (s + a * P) P) (seq 0 d) = seq s (d * P).
Proof.
  intros P. induction d; intros s; [reflexivity|].
  rewrite seq_S, flat_map_app, IHd. cbn [flat_map]. rewrite app_nil_r.
  replace (S d * P) with (d * P + P) by lia. rewrite seq_app. reflexivity.
Qed.

Lemma flat_map_ext_in {A B} (f g : A -> list B) l :
  (forall a, In a l -> f a = g a) -> flat_map f l = flat_map g l.
Proof.
  induction l; simpl; intros H; auto. rewrite H by auto. f_equal. apply IHl. intros; apply H; auto.
Qed.

Lemma map_flat_map {A B C} (f : B -> C) (g : A -> list B) l :
  map f (flat_map g l) = flat_map (fun a => map f (g a)) l.
Proof. induction l; simpl; auto. rewrite map_app, IHl. reflexivity. Qed.

(** Row-major ravel: the offsets of a full block are consecutive. *)
Lemma ravel_offsets : forall ds s,
  map (fun ix => s + dot ix (strides ds)) (indices ds) = seq s (lprod ds).
Proof.
  induction ds as [|d ds IH]; intros s; simpl.
  - f_equal. lia.
  - rewrite map_flat_map.
    rewrite <- flat_map_seq_blocks. apply flat_map_ext_in. intros a _.
    rewrite map_map. simpl. rewrite <- IH. apply map_ext. intros ix. lia.
Qed.

Lemma indices_length : forall ds ix, In ix (indices ds) -> length ix = length ds.
Proof.
  induction ds as [|d ds IH]; simpl; intros ix H.
  - destruct H as [<-|H]; [reflexivity|contradiction].
  - apply in_flat_map in H. destruct H as (a & _ & H). apply in_map_iff in H.
    destruct H as (ix' & <- & H). simpl. f_equal. auto.
Qed.

Lemma indices_one : forall n, indices [n] = map (fun a => [a]) (seq 0 n).
Proof.
  intros n. simpl. induction (seq 0 n) as [|x l IHl]; simpl; [reflexivity | rewrite IHl; reflexivity].
Qed.
Lemma indices_cons1 : forall ds, indices (1 :: ds) = map (cons 0) (indices ds).
Proof. intros. simpl. apply app_nil_r. Qed.

Lemma strides_app_last : forall l n, strides (l ++ [n]) = map (fun x => x * n) (strides l) ++ [1].
Proof.
  induction l as [|d l IH]; intros n; simpl; auto.
  rewrite IH. f_equal.
  clear. induction l; simpl; [lia|]. rewrite IHl. lia.
Qed.
Lemma strides_length : forall l, length (strides l) = length l.
Proof. induction l; simpl; auto. Qed.

Lemma dot_scaled : forall ix ss n, length ix = length ss ->
  dot ix (map (fun x => x * n) ss ++ [1]) = dot ix ss * n.
Proof.
  induction ix as [|x ix IH]; intros [|y ss] n L; simpl in *; try discriminate; auto.
  rewrite IH by lia. lia.
Qed.
Lemma dot_zeros_last : forall {T} (ds : list T) ss c n, length ds = length ss ->
  dot (map (fun _ => 0) ds ++ [c]) (map (fun x => x * n) ss ++ [1]) = c.
Proof.
  induction ds as [|d ds IH]; intros [|y ss] c n L; simpl in *; try discriminate; try lia.
  rewrite IH by lia. lia.
Qed.

Lemma list_nat_eqb_eq : forall a b, list_nat_eqb a b = true <-> a = b.
Proof.
  induction a as [|x a IH]; intros [|y b]; simpl; split; intros H; try discriminate; auto.
  - apply andb_true_iff in H. destruct H as [H1 H2]. apply Nat.eqb_eq in H1. apply IH in H2. congruence.
  - inversion H; subst. rewrite Nat.eqb_refl. simpl. apply IH. reflexivity.
Qed.

Lemma contiguous_iff v : contiguous v = true <-> voffsets v = seq (wstart v) (lprod (wdims v)).
Proof. unfold contiguous. apply list_nat_eqb_eq. Qed.

(** A slice whose strides are the row-major strides of its own extents
    (a full-width block of the parent) reshapes to any shape of the same size. *)
Lemma reshape_block : forall v newshape,
  wstr v = strides (wdims v) -> lprod newshape = lprod (wdims v) ->
  reshape v newshape = Some {| wstart := wstart v; wstr := strides newshape; wdims := newshape |}.
Proof.
  intros v ns Hs Hl. unfold reshape. rewrite Hl, Nat.eqb_refl. simpl.
  assert (C : contiguous v = true).
  { apply contiguous_iff. unfold voffsets. rewrite Hs. apply ravel_offsets. }
  rewrite C. reflexivity.
Qed.

Lemma voffsets_block : forall s ds,
  voffsets {| wstart := s; wstr := strides ds; wdims := ds |} = seq s (lprod ds).
Proof. intros. unfold voffsets. simpl. apply ravel_offsets. Qed.

(** A row: extents [1;..;1;n] and last stride 1. *)
Lemma voffsets_row2 : forall s x n,
  voffsets {| wstart := s; wstr := [x; 1]; wdims := [1; n] |} = seq s n.
Proof.
  intros. unfold voffsets. simpl wdims. rewrite indices_cons1, indices_one, !map_map. simpl.
  apply seq_shift_map_gen. intros; lia.
Qed.
Lemma voffsets_row3 : forall s x y n,
  voffsets {| wstart := s; wstr := [x; y; 1]; wdims := [1; 1; n] |} = seq s n.
Proof.
  intros. unfold voffsets. simpl wdims. rewrite !indices_cons1, indices_one, !map_map. simpl.
  apply seq_shift_map_gen. intros; lia.
Qed.

Lemma reshape_row : forall v n,
  voffsets v = seq (wstart v) n -> lprod (wdims v) = n ->
  reshape v [n] = Some {| wstart := wstart v; wstr := [1]; wdims := [n] |}.
Proof.
  intros v n Ho Hl. unfold reshape. simpl lprod. rewrite Hl.
  replace (n * 1) with n by lia. rewrite Nat.eqb_refl. simpl.
  assert (C : contiguous v = true) by (apply contiguous_iff; rewrite Hl; exact Ho).
  rewrite C. reflexivity.
Qed.
Lemma voffsets_vec : forall s n, voffsets {| wstart := s; wstr := [1]; wdims := [n] |} = seq s n.
Proof. intros. pose proof (voffsets_block s [n]) as H. simpl in H. rewrite Nat.mul_1_r in H. exact H. Qed.

Lemma sequence_map_some {A T} (f : A -> option T) (g : A -> T) l :
  (forall a, In a l -> f a = Some (g a)) -> sequence (map f l) = Some (map g l).
Proof.
  induction l; simpl; intros H; auto. rewrite H by auto. rewrite IHl; auto.
Qed.

(* ------------------------------------------------------------------ *)
(** * The views of the template, in closed form *)
Section TemplateViews.
  Variable sp : spec.
  Variables nIn nI T N S oN oK oT nP nSets : nat.
  Definition mk_shapes : shapes :=
    {| dI := [nIn; nI; T]; dS := [N; S]; dO := [oN; oK; oT]; dP := [nP; nSets] |}.
  Notation sh := mk_shapes.

  Lemma prologue_eq : prologue sh =
    {| numCells := N; numStates := S; numInputSequences := nIn; inputLen := T;
       cellInputsShape := [nI; T]; inputNewShape := [T];
       outputStepSlice := [1; 1; 1]; outputSizeSlice := [1; 1; T];
       statesSizeSlice := [1; S]; inputsSizeSlice := [1; nI; T] |}.
  Proof. reflexivity. Qed.

  Lemma state_view_eq : forall i,
    state_view sh (prologue sh) i = Some {| wstart := i * S; wstr := [1]; wdims := [S] |}.
  Proof.
    intros i. unfold state_view. simpl.
    erewrite reshape_row.
    - simpl. do 2 f_equal. lia.
    - unfold vslice; simpl. rewrite voffsets_row2. reflexivity.
    - simpl. lia.
  Qed.

  Lemma packed_state_view_offsets : forall i L,
    voffsets (packed_state_view sh i L) = seq (i * S) L.
  Proof.
    intros. unfold packed_state_view, vslice, voffsets. cbn [wdims wstart wstr whole dS mk_shapes].
    rewrite indices_cons1, indices_one, !map_map. simpl.
    apply seq_shift_map_gen. intros; lia.
  Qed.

  Lemma input_views_eq : forall ci,
    input_views sp sh (prologue sh) ci =
    Some (map (fun k => {| wstart := (ci * nI + k) * T; wstr := [1]; wdims := [T] |}) (seq 0 (n_in sp))).
  Proof.
    intros ci. unfold input_views. simpl.
    rewrite (reshape_block _ [nI; T]); [| reflexivity | simpl; lia]. simpl.
    apply sequence_map_some. intros k _.
    erewrite reshape_row.
    - simpl. do 2 f_equal. lia.
    - unfold vslice; simpl. rewrite voffsets_row2. reflexivity.
    - simpl. lia.
  Qed.

  Lemma output_views_eq : forall i,
    output_views sp sh (prologue sh) i =
    Some (map (fun k => {| wstart := (i * oK + k) * oT; wstr := [1]; wdims := [T] |}) (seq 0 (n_out sp))).
  Proof.
    intros i. unfold output_views. simpl.
    apply sequence_map_some. intros k _.
    erewrite reshape_row.
    - simpl. do 2 f_equal. lia.
    - unfold vslice; simpl. replace (1 * 1) with 1 by reflexivity. rewrite voffsets_row3. reflexivity.
    - simpl. lia.
  Qed.
End TemplateViews.
