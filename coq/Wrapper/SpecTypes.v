(** Data types shared by the generated files Gen/Specs.v, Gen/CatalogDump.v
    (and their synthetic-corpus twins) and by the model Wrapper/SpecDescribe.v.
    Definitions only. *)
From Coq Require Import ZArith String List Ascii.
Import ListNotations.

(** An exact decimal number  (-1)^neg * mant / 10^scale  (mant >= 0, scale >= 0). *)
Record dec := mkdec { d_neg : bool; d_mant : Z; d_scale : Z }.

(** One entry of the `parameters:` map of an OW-SPEC block.
    [rp_key], [rp_val] are what the translator is TRUSTED for: fmt.Sprint of the
    yaml key and of the yaml value (so an empty value is the text "<nil>").
    The [tk_*] fields are the translator's own tokenisation (Go regexp package,
    strings.Split); the Coq model never uses them to compute [describe]: they
    are compared with the Coq tokenisation of the raw strings as a cross-check. *)
Record spec_param := {
  rp_key : string;
  rp_val : string;
  tk_name : string;
  tk_dims : list string;
  tk_min : string;            (* "" when the regexp group did not take part in the match *)
  tk_max : string;
  tk_default : string;
  tk_units : string;
  tk_desc : string;
  tk_min_dec : option dec;    (* exact value of the token, None for "" *)
  tk_max_dec : option dec;
  tk_default_dec : option dec }.

(** One model of one OW-SPEC block, in yaml order. *)
Record ow_spec := {
  sp_name : string;           (* yaml key of the model, or its `name:` field when given *)
  sp_file : string;           (* source file, informational *)
  sp_params : list spec_param;
  sp_inputs : list string;    (* fmt.Sprint of the keys of `inputs:` *)
  sp_states : list string;
  sp_outputs : list string;
  tk_dimensions : list string (* translator's list of distinct dimension names, first occurrence order (cross-check only) *) }.

(** sim.ParameterDescription / sim.ModelDescription as answered by a running
    binary.  Floats are IEEE-754 binary64 bit patterns (0 <= bits < 2^64). *)
Record param_desc := {
  pd_name : string;
  pd_default : Z;
  pd_desc : string;
  pd_lo : Z;
  pd_hi : Z;
  pd_open : bool * bool;      (* RangeOpen, never set by the generated code *)
  pd_units : string;
  pd_dims : list string }.

Record description := {
  ds_params : list param_desc;
  ds_states : list string;
  ds_inputs : list string;
  ds_outputs : list string;
  ds_dims : list string }.

(** one arbitrary byte as a string (used by the generators for bytes outside printable ASCII) *)
Definition byte_str (n : Z) : string := String (ascii_of_N (Z.to_N n)) EmptyString.
