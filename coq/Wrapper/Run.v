(** Model of the generated vectorised wrapper (pre/ow-specgen/generated_struct.got):
    ApplyParameters, FindDimensions, InitialiseStates (both flavours) and Run.
    Definitions only.

    INTERFACE ASSUMPTION about the array library (properties C01/C02, proved
    elsewhere): [Slice(loc, dims, step)], [MustReshape] of a contiguous view,
    [Get1], [Set1], [Set] and [ApplySlice] address the row-major flat offsets of
    the root buffer that their arguments denote.  A view (record [wview]) is therefore modelled
    as the affine map (start, stride per axis, extents) of the Go struct
    (Start / OffsetStep / Dims) and denotes the list [voffsets] of flat
    offsets in row-major order.  (No longer only an assumption: Arrays/WrapperRefine.v proves
    that the detailed array model of C01-C03 refines this view algebra -- index, Slice,
    Contiguous, MustReshape, Get1/Set1 and the template's three view chains, for Go- and
    C-backed arrays; statements in Properties/C04_views.v.)

    The four arrays (inputs, states, outputs, parameters) are flat row-major
    stores: memory is a function from (buffer, flat offset) to values, shapes
    are carried separately ([shapes]).  Every array access of the wrapper is an
    atomic [Rd]/[Wr] of [Base.Interleave.prog]; the SAME program [cell_prog i] is
    (a) run functionally ([run_cell], [run]) for property C04 and (b) used as
    the thread of goroutine [i] for property C05.

    The kernel is the section variable [K]: it receives the cell's decoded
    parameters, its state row, its input rows and the previous content of its
    output rows, and returns the output rows and the new state row ([None] = the
    kernel panics).  Footprint hypothesis (discharged by construction of
    coq/Kernels/*: they are functions of exactly these lists): the kernel
    touches nothing but the views it is handed. *)
From Coq Require Import List Arith ZArith Lia Bool.
From Coq Require String.
Notation string := String.string.
From OW Require Import Base.Interleave Wrapper.Spec.
Import ListNotations.
Local Open Scope nat_scope.

Inductive buf := BI | BS | BO | BP.   (* inputs, states, outputs, parameters *)
Definition addr := (buf * nat)%type.
Definition buf_eq_dec : forall a b : buf, {a = b} + {a <> b}.
Proof. decide equality. Defined.
Definition addr_eq_dec : forall a b : addr, {a = b} + {a <> b}.
Proof. decide equality; [apply Nat.eq_dec | apply buf_eq_dec]. Defined.

(* ------------------------------------------------------------------ *)
(** * Index computations (data/arrays.go) *)

(** [Offsets(dims)]: row-major strides. *)
Fixpoint strides (dims : list nat) : list nat :=
  match dims with [] => [] | _ :: ds => lprod ds :: strides ds end.
(** [dotProduct] / the loop of [Index]: runs over the shorter vector. *)
Fixpoint dot (xs ys : list nat) : nat :=
  match xs, ys with x :: xs', y :: ys' => x * y + dot xs' ys' | _, _ => 0 end.
(** [Multiply] *)
Fixpoint vmul (xs ys : list nat) : list nat :=
  match xs, ys with x :: xs', y :: ys' => x * y :: vmul xs' ys' | _, _ => [] end.
(** all multi-indices below [size], in row-major order ([Increment]) *)
Fixpoint indices (size : list nat) : list (list nat) :=
  match size with
  | [] => [[]]
  | d :: ds => flat_map (fun a => map (cons a) (indices ds)) (seq 0 d)
  end.
(** [NewIndex(val)] and assignment to one component *)
Definition new_index (dims : list nat) (val : nat) : list nat := map (fun _ => val) dims.
Fixpoint set_idx (l : list nat) (j : nat) (x : nat) : list nat :=
  match l, j with
  | [], _ => []
  | _ :: r, O => x :: r
  | y :: r, S j' => y :: set_idx r j' x
  end.

(** A view: Start, OffsetStep, Dims of the Go struct. *)
Record wview := { wstart : nat; wstr : list nat; wdims : list nat }.
Definition whole (dims : list nat) : wview :=
  {| wstart := 0; wstr := strides dims; wdims := dims |}.
(** [SliceInto]. [size] may be shorter than the rank of the view (the table
    parameter slices of the template are): [dot] then uses the leading strides. *)
Definition vslice (v : wview) (loc size : list nat) (step : option (list nat)) : wview :=
  {| wstart := wstart v + dot loc (wstr v);
     wstr := match step with None => wstr v | Some st => vmul (wstr v) st end;
     wdims := size |}.
(** The flat offsets a view denotes, row-major. *)
Definition voffsets (v : wview) : list nat :=
  map (fun ix => wstart v + dot ix (wstr v)) (indices (wdims v)).
Fixpoint list_nat_eqb (a b : list nat) : bool :=
  match a, b with
  | [], [] => true
  | x :: a', y :: b' => Nat.eqb x y && list_nat_eqb a' b'
  | _, _ => false
  end.
(** The view's elements are consecutive in memory. *)
Definition contiguous (v : wview) : bool :=
  list_nat_eqb (voffsets v) (seq (wstart v) (lprod (wdims v))).
(** [MustReshape] as a live alias: [None] when the sizes differ (panic) or when
    the view is not contiguous (the Go code then returns a detached COPY, which
    the wrapper never relies on: lemma [*_view_ok] in RunProofs show that every
    reshape of the template is of a contiguous wview). *)
Definition reshape (v : wview) (newshape : list nat) : option wview :=
  if Nat.eqb (lprod newshape) (lprod (wdims v)) && contiguous v
  then Some {| wstart := wstart v; wstr := strides newshape; wdims := newshape |}
  else None.
(** [index1] of Get1/Set1: the first axis of extent > 1 (axis 0 for rank 1). *)
Fixpoint index1_go (ds : list nat) (loc : nat) : list nat :=
  match ds with
  | [] => []
  | d :: r => if 1 <? d then loc :: map (fun _ => 0) r else 0 :: index1_go r loc
  end.
Definition index1 (v : wview) (loc : nat) : list nat :=
  match wdims v with [_] => [loc] | ds => index1_go ds loc end.
Definition get1_off (v : wview) (loc : nat) : nat := wstart v + dot (index1 v loc) (wstr v).
Definition len1 (v : wview) : nat := nth 0 (wdims v) 0.

(** Go's [a % b]: panics for b = 0. *)
Definition gomod (a b : nat) : option nat := if Nat.eqb b 0 then None else Some (a mod b).

Record shapes := { dI : list nat; dS : list nat; dO : list nat; dP : list nat }.
Definition bdims (sh : shapes) (b : buf) : list nat :=
  match b with BI => dI sh | BS => dS sh | BO => dO sh | BP => dP sh end.
Definition bsize (sh : shapes) (b : buf) : nat := lprod (bdims sh b).

Fixpoint sequence {T} (l : list (option T)) : option (list T) :=
  match l with
  | [] => Some []
  | Some x :: r => match sequence r with Some xs => Some (x :: xs) | None => None end
  | None :: _ => None
  end.

(* ------------------------------------------------------------------ *)
(** * ApplyParameters *)

Definition param_shape (maxd : denv) (nSets : nat) (p : pspec) : list nat :=
  match p with
  | Table ds => map (dlookup maxd) ds ++ [nSets]
  | _ => [nSets]
  end.

(** One view per parameter: [parameters.Slice({paramIdx,0},{paramSize,nSets},nil).MustReshape(newShape)],
    [paramIdx] running. *)
Fixpoint apply_params_from (maxd : denv) (dP : list nat) (nSets paramIdx : nat) (ps : list pspec)
  : option (list wview) :=
  match ps with
  | [] => Some []
  | p :: r =>
    let paramSize := block_size maxd p in
    match reshape (vslice (whole dP) [paramIdx; 0] [paramSize; nSets] None) (param_shape maxd nSets p) with
    | Some v =>
      match apply_params_from maxd dP nSets (paramIdx + paramSize) r with
      | Some vs => Some (v :: vs)
      | None => None
      end
    | None => None
    end
  end.
Definition apply_parameters (maxd : denv) (dP : list nat) (ps : list pspec) : option (list wview) :=
  apply_params_from maxd dP (nth 1 dP 0) 0 ps.

(** Closed form of what cell [i] (parameter set [c = i mod nSets]) gets: the
    flat offsets in the parameter matrix, one list per parameter.  [pm] is the
    parameter store (needed because a table's extents are the cell's own
    dimension values, which are read from the matrix). *)
Section Decode.
  Variable V : Type.
  Variable toZ : V -> Z.        (* Go int(x) on float64 *)
  Definition to_dim (v : V) : nat := Z.to_nat (toZ v).   (* negative extents: empty *)
  Variable maxd : denv.
  (** rows of the parameter matrix, given the cell's own column [pcol] *)
  Fixpoint param_rows (pcol : nat -> V) (row : nat) (env : denv) (ps : list pspec) : list (list nat) :=
    match ps with
    | [] => []
    | Scalar :: r => [row] :: param_rows pcol (row + 1) env r
    | DimOf d :: r => [row] :: param_rows pcol (row + 1) ((d, to_dim (pcol row)) :: env) r
    | Table ds :: r =>
      map (fun ix => row + dot ix (strides (map (dlookup maxd) ds))) (indices (map (dlookup env) ds))
      :: param_rows pcol (row + block_size maxd (Table ds)) env r
    end.
  (** flat offsets: row [r] of parameter set [c] is element [r * nSets + c] *)
  Definition param_offs (nSets c : nat) (pm : nat -> V) (row : nat) (env : denv) (ps : list pspec)
    : list (list nat) :=
    map (map (fun r => r * nSets + c)) (param_rows (fun r => pm (r * nSets + c)) row env ps).
End Decode.
Arguments to_dim {V} toZ v.
Arguments param_rows {V} toZ maxd pcol row env ps.
Arguments param_offs {V} toZ maxd nSets c pm row env ps.

(* ------------------------------------------------------------------ *)
(** * The wrapper proper *)
Section Run.
  Variable V : Type.
  Variable toZ : V -> Z.
  Variable vzero : V.
  Variable gtb : V -> V -> bool.       (* Go [v > res] *)
  Definition cellparams := list (list V).
  (** kernel: parameters, state row, input rows, previous output rows *)
  Variable K : cellparams -> list V -> list (list V) -> list (list V) -> option (list (list V) * list V).
  (** custom init function of the spec (initGR4J, initLag): the cell's scalar
      parameters to its initial state row *)
  Variable Kinit : list V -> list V.
  Variable sp : spec.

  Notation prog := (prog addr V).
  Notation mem := (mem addr V).

  Definition rd (sh : shapes) (b : buf) (off : nat) : prog V :=
    if off <? bsize sh b then Rd (b, off) (fun v => Ret v) else Fail.
  Definition wr (sh : shapes) (b : buf) (off : nat) (v : V) : prog unit :=
    if off <? bsize sh b then Wr (b, off) v (Ret tt) else Fail.
  Fixpoint rd_list (sh : shapes) (b : buf) (offs : list nat) : prog (list V) :=
    match offs with
    | [] => Ret []
    | o :: r => bind (rd sh b o) (fun v => bind (rd_list sh b r) (fun vs => Ret (v :: vs)))
    end.
  (** [Fail] on a length mismatch: the kernel broke its shape contract. *)
  Fixpoint wr_list (sh : shapes) (b : buf) (offs : list nat) (vals : list V) : prog unit :=
    match offs, vals with
    | [], [] => Ret tt
    | o :: r, v :: vs => bind (wr sh b o v) (fun _ => wr_list sh b r vs)
    | _, _ => Fail
    end.
  Fixpoint rd_rows (sh : shapes) (b : buf) (views : list (list nat)) : prog (list (list V)) :=
    match views with
    | [] => Ret []
    | o :: r => bind (rd_list sh b o) (fun v => bind (rd_rows sh b r) (fun vs => Ret (v :: vs)))
    end.
  Fixpoint wr_rows (sh : shapes) (b : buf) (views : list (list nat)) (rows : list (list V)) : prog unit :=
    match views, rows with
    | [], [] => Ret tt
    | o :: r, v :: vs => bind (wr_list sh b o v) (fun _ => wr_rows sh b r vs)
    | _, _ => Fail
    end.

  (** The parameter part of the goroutine body: per parameter, in spec order,
      [m.X.Get1(i % m.X.Len1())] (scalar; a dimension parameter also binds the
      cell's own extent) or [m.X.Slice({0,..,0,i % nSets}, {d1,..,dk}, nil)]
      (table; all of it is handed to the kernel). *)
  Fixpoint read_params (sh : shapes) (i : nat) (ps : list pspec) (views : list wview) (env : denv)
    : prog cellparams :=
    match ps, views with
    | [], [] => Ret []
    | p :: ps', pv :: views' =>
      match p with
      | Scalar =>
        match gomod i (len1 pv) with
        | Some c => bind (rd sh BP (get1_off pv c)) (fun v =>
                    bind (read_params sh i ps' views' env) (fun rest => Ret ([v] :: rest)))
        | None => Fail
        end
      | DimOf d =>
        match gomod i (len1 pv) with
        | Some c => bind (rd sh BP (get1_off pv c)) (fun v =>
                    bind (read_params sh i ps' views' ((d, to_dim toZ v) :: env)) (fun rest => Ret ([v] :: rest)))
        | None => Fail
        end
      | Table ds =>
        match gomod i (last (wdims pv) 0) with
        | Some c =>
          let from := map (fun _ => 0) ds ++ [c] in
          let shape := map (dlookup env) ds in
          bind (rd_list sh BP (voffsets (vslice pv from shape None))) (fun vals =>
          bind (read_params sh i ps' views' env) (fun rest => Ret (vals :: rest)))
        | None => Fail
        end
      end
    | _, _ => Fail
    end.

  (** The vectors computed once by Run before the goroutines start and shared
      by all of them (read-only). *)
  Record shared := {
    numCells : nat; numStates : nat; numInputSequences : nat; inputLen : nat;
    cellInputsShape : list nat; inputNewShape : list nat;
    outputStepSlice : list nat; outputSizeSlice : list nat;
    statesSizeSlice : list nat; inputsSizeSlice : list nat }.
  Definition prologue (sh : shapes) : shared :=
    let inputDims := dI sh in
    let inputLen := nth 2 inputDims 0 in
    {| numCells := nth 0 (dS sh) 0;
       numStates := nth 1 (dS sh) 0;
       numInputSequences := nth 0 inputDims 0;
       inputLen := inputLen;
       cellInputsShape := tl inputDims;
       inputNewShape := [inputLen];
       outputStepSlice := new_index (dO sh) 1;
       outputSizeSlice := set_idx (new_index (dO sh) 1) 2 inputLen;
       statesSizeSlice := set_idx (new_index (dS sh) 1) 1 (nth 1 (dS sh) 0);
       inputsSizeSlice := set_idx (set_idx (new_index inputDims 1) 1 (nth 1 inputDims 0)) 2 inputLen |}.

  Definition with_view {X} (o : option wview) (k : wview -> prog X) : prog X :=
    match o with Some v => k v | None => Fail end.
  Definition with_views {X} (o : option (list wview)) (k : list wview -> prog X) : prog X :=
    match o with Some v => k v | None => Fail end.

  (** The views of one goroutine. *)
  Definition state_view (sh : shapes) (sv : shared) (i : nat) : option wview :=
    let statesPosSlice := set_idx (new_index (dS sh) 0) 0 i in
    reshape (vslice (whole (dS sh)) statesPosSlice (statesSizeSlice sv) None) [numStates sv].
  Definition input_views (sh : shapes) (sv : shared) (ci : nat) : option (list wview) :=
    let inputsPosSlice := set_idx (new_index (dI sh) 0) 0 ci in
    match reshape (vslice (whole (dI sh)) inputsPosSlice (inputsSizeSlice sv) None) (cellInputsShape sv) with
    | Some cellInputs =>
      sequence (map (fun k => reshape (vslice cellInputs [k; 0] [1; inputLen sv] None) (inputNewShape sv))
                    (seq 0 (n_in sp)))
    | None => None
    end.
  Definition output_views (sh : shapes) (sv : shared) (i : nat) : option (list wview) :=
    let outputPosSlice := set_idx (new_index (dO sh) 0) 0 i in
    sequence (map (fun k => reshape (vslice (whole (dO sh)) (set_idx outputPosSlice 1 k)
                                            (outputSizeSlice sv) (Some (outputStepSlice sv)))
                                    [inputLen sv])
                  (seq 0 (n_out sp))).
  (** target of [states.ApplySlice([]int{i,0}, []int{0,1}, packed)] with packed of shape [1, L] *)
  Definition packed_state_view (sh : shapes) (i L : nat) : wview :=
    vslice (whole (dS sh)) [i; 0] [1; L] (Some [0; 1]).

  (** Writing the kernel's results: the output rows (the kernel writes them
      through the views it was handed) and the state row ([Set1] per state, resp.
      [states.ApplySlice([]int{i,0},[]int{0,1},pack(...))]). *)
  Definition cell_writeback (sh : shapes) (sv : shared) (ovs : list wview) (i : nat)
             (outs : list (list V)) (st' : list V) : prog unit :=
    bind (wr_rows sh BO (map voffsets ovs) outs) (fun _ =>
    match s_states sp with
    | Fixed 0 => match st' with [] => Ret tt | _ => Fail end
    | Fixed k => with_view (state_view sh sv i) (fun iv => wr_list sh BS (map (get1_off iv) (seq 0 k)) st')
    | Custom => wr_list sh BS (voffsets (packed_state_view sh i (length st'))) st'
    end).

  (** The body of [go func(i int){...}(j)], after the parameters have been read. *)
  Definition cell_body (sh : shapes) (sv : shared) (i ci : nat) (cp : cellparams) : prog unit :=
      bind (match s_states sp with
            | Fixed 0 => Ret []
            | Fixed k => with_view (state_view sh sv i) (fun iv => rd_list sh BS (map (get1_off iv) (seq 0 k)))
            | Custom => with_view (state_view sh sv i) (fun iv => rd_list sh BS (voffsets iv))
            end) (fun st =>
      with_views (input_views sh sv ci) (fun ivs =>
      bind (rd_rows sh BI (map voffsets ivs)) (fun ins =>
      with_views (output_views sh sv i) (fun ovs =>
      bind (rd_rows sh BO (map voffsets ovs)) (fun oldouts =>
      match K cp st ins oldouts with
      | None => Fail
      | Some (outs, st') => cell_writeback sh sv ovs i outs st'
      end))))).

  (** The body of [go func(i int){...}(j)]. *)
  Definition cell_prog (sh : shapes) (pviews : list wview) (i : nat) : prog unit :=
    let sv := prologue sh in
    match gomod i (numInputSequences sv) with
    | None => Fail
    | Some ci => bind (read_params sh i (s_params sp) pviews []) (cell_body sh sv i ci)
    end.

  (** Functional run of one cell / of the cells in a given order. *)
  Definition run_cell (sh : shapes) (pviews : list wview) (i : nat) (m : mem) : option mem :=
    let '(r, m', _) := exec addr_eq_dec (cell_prog sh pviews i) m in
    match r with Some _ => Some m' | None => None end.
  Fixpoint run_order (sh : shapes) (pviews : list wview) (order : list nat) (m : mem) : option mem :=
    match order with
    | [] => Some m
    | i :: r => match run_cell sh pviews i m with Some m' => run_order sh pviews r m' | None => None end
    end.
  (** [Run]: all cells [0 .. numCells-1] (the order is immaterial: RunProofs.run_order_perm). *)
  Definition run (sh : shapes) (pviews : list wview) (m : mem) : option mem :=
    run_order sh pviews (seq 0 (numCells (prologue sh))) m.

  (* ---------------------------------------------------------------- *)
  (** * Closed-form footprints (computable; compared with the recorded
        accesses of the real code by tools/c05.py) *)
  Definition tag (b : buf) (l : list nat) : list addr := map (fun o => (b, o)) l.
  Definition state_cols (S : nat) : nat :=
    match s_states sp with Fixed k => k | Custom => S end.
  (** layout abbreviations: dI = [nIn; nI; T], dS = [N; S], dO = [oN; oK; oT], dP = [nP; nSets] *)
  Definition cell_param_reads (sh : shapes) (maxd : denv) (pm : nat -> V) (i : nat) : list addr :=
    let nSets := nth 1 (dP sh) 0 in
    tag BP (concat (param_offs toZ maxd nSets (i mod nSets) pm 0 [] (s_params sp))).
  Definition cell_state_addrs (sh : shapes) (i : nat) : list addr :=
    let S := nth 1 (dS sh) 0 in tag BS (seq (i * S) (state_cols S)).
  Definition cell_input_reads (sh : shapes) (i : nat) : list addr :=
    let nIn := nth 0 (dI sh) 0 in let nI := nth 1 (dI sh) 0 in let T := nth 2 (dI sh) 0 in
    tag BI (flat_map (fun k => seq (((i mod nIn) * nI + k) * T) T) (seq 0 (n_in sp))).
  Definition cell_output_addrs (sh : shapes) (i : nat) : list addr :=
    let oK := nth 1 (dO sh) 0 in let oT := nth 2 (dO sh) 0 in let T := nth 2 (dI sh) 0 in
    tag BO (flat_map (fun k => seq ((i * oK + k) * oT) T) (seq 0 (n_out sp))).
  Definition cell_reads (sh : shapes) (maxd : denv) (pm : nat -> V) (i : nat) : list addr :=
    cell_param_reads sh maxd pm i ++ cell_state_addrs sh i ++ cell_input_reads sh i ++ cell_output_addrs sh i.
  Definition cell_writes (sh : shapes) (i : nat) : list addr :=
    cell_output_addrs sh i ++ cell_state_addrs sh i.

  (* ---------------------------------------------------------------- *)
  (** * FindDimensions *)
  (** [Maximum()] of a view: starts from element [0,..,0] (read even when the
      view is empty), then scans all elements with [v > res]. *)
  Definition maximum (first : V) (vals : list V) : V :=
    fold_left (fun res v => if gtb v res then v else res) vals first.
  Definition pget (sh : shapes) (m : mem) (off : nat) : option V :=
    if off <? bsize sh BP then Some (m (BP, off)) else None.
  Fixpoint find_dims_from (sh : shapes) (m : mem) (nSets paramIdx : nat) (maxValues : denv) (ps : list pspec)
    : option denv :=
    match ps with
    | [] => Some maxValues
    | p :: r =>
      let paramSize := block_size maxValues p in
      let v := vslice (whole (dP sh)) [paramIdx; 0] [paramSize; nSets] None in
      match pget sh m (wstart v), sequence (map (pget sh m) (voffsets v)) with
      | Some first, Some vals =>
        let mx := maximum first vals in
        find_dims_from sh m nSets (paramIdx + paramSize)
          (match p with DimOf d => (d, to_dim toZ mx) :: maxValues | _ => maxValues end) r
      | _, _ => None
      end
    end.
  (** The extents handed to InitialiseDimensions (as an environment; the Go
      slice lists them in the template's map-iteration order). [None]: panic. *)
  Definition find_dimensions (sh : shapes) (m : mem) : option denv :=
    match existsb is_table (s_params sp) with
    | false => Some []            (* no dimensions: [return []int{}] *)
    | true => find_dims_from sh m (nth 1 (dP sh) 0) 0 [] (s_params sp)
    end.

  (* ---------------------------------------------------------------- *)
  (** * InitialiseStates *)
  (** zero flavour: [data.NewArray2DFloat64(n, len(States))] *)
  Definition initialise_states_zero (n k : nat) : list nat * list V := ([n; k], repeat vzero (n * k)).

  Fixpoint write_at (l : list V) (off : nat) (vals : list V) : list V :=
    match off, l with
    | O, _ => match vals, l with
              | [], _ => l
              | v :: vs, _ :: r => v :: write_at r 0 vs
              | _ :: _, [] => []
              end
    | S o, x :: r => x :: write_at r o vals
    | S _, [] => []
    end.
  (** custom flavour.  Cell [i]'s parameters are all read as scalars
      ([m.X.Get1(i % xLen)]); the matrix is allocated when the FIRST cell's
      states are known, with that cell's state length as its width; row [i] is
      then written with [result.ApplySlice([]int{i,0}, []int{1,1}, states)],
      which addresses [L_i] consecutive elements from [i * L_0] and panics only
      when that runs past the end of the matrix. *)
  Definition init_params (nSets : nat) (pm : nat -> V) (i : nat) : list V :=
    map (fun j => pm (j * nSets + i mod nSets)) (seq 0 (length (s_params sp))).
  Fixpoint init_rows (nSets : nat) (pm : nat -> V) (n L0 : nat) (is : list nat) (acc : list V) : option (list V) :=
    match is with
    | [] => Some acc
    | i :: r =>
      let row := Kinit (init_params nSets pm i) in
      if i * L0 + length row <=? n * L0
      then init_rows nSets pm n L0 r (write_at acc (i * L0) row)
      else None
    end.
  Definition initialise_states_custom (nSets : nat) (pm : nat -> V) (n : nat) : option (list nat * list V) :=
    match n with
    | O => None     (* the Go function returns a nil array: every later use panics *)
    | _ =>
      if Nat.eqb nSets 0 then None else    (* i % 0 panics *)
      let L0 := length (Kinit (init_params nSets pm 0)) in
      match init_rows nSets pm n L0 (seq 0 n) (repeat vzero (n * L0)) with
      | Some st => Some ([n; L0], st)
      | None => None
      end
    end.
  Definition initialise_states (nSets : nat) (pm : nat -> V) (n : nat) : option (list nat * list V) :=
    match s_states sp with
    | Fixed k => Some (initialise_states_zero n k)
    | Custom => initialise_states_custom nSets pm n
    end.
End Run.
