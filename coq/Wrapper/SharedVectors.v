(** C05, non-array shared state of the generated Run: the index vectors computed
    before the goroutines start ([outputStepSlice], [outputSizeSlice],
    [statesSizeSlice], [inputsSizeSlice], [cellInputsShape], [inputNewShape] and
    the scalars numCells / numStates / numInputSequences / inputLen) are SHARED by
    all goroutines, the position vectors ([outputPosSlice], [statesPosSlice],
    [inputsPosSlice]) are allocated INSIDE each goroutine.

    Here they are put into memory too: addresses are array elements, elements
    of a shared vector, or elements of the position vectors of ONE cell
    ([XPos cell ..]: a fresh allocation per goroutine is an address no other
    goroutine has); values are floats or ints.  The extended goroutine
    [ext_cell i] reads the shared vectors, writes its own position vectors
    (NewIndex(0), [..][DIM_CELL] = i, [..][DIMO_OUTPUT] = k per output) and then
    performs the array accesses of [cell_prog i].

    Results: [shared_vectors_readonly] (no execution of any goroutine ever
    writes an element of a shared vector), disjointness including the vectors,
    schedule independence of the extended goroutines, and [ext_refines]:
    when the shared cells hold the prologue's values the extended goroutine does
    to the arrays exactly what [cell_prog i] does.

    A position vector hoisted out of the goroutine (one [XPos] block for all
    cells) would make the write sets overlap: the model can express that bug;
    tools/c05.py checks on the Go sources (go/ast) that the generated code
    declares the position vectors inside the goroutine and only reads the rest. *)
From Coq Require Import List Arith ZArith Lia Bool.
From OW Require Import Base.Interleave Wrapper.Spec Wrapper.Run Wrapper.Views Wrapper.CellFacts
  Wrapper.RunProofs Wrapper.Footprint.
Import ListNotations.
Local Open Scope nat_scope.

Inductive svec := SVscalars | SVcellInputsShape | SVinputNewShape | SVoutputStep | SVoutputSize
                | SVstatesSize | SVinputsSize.
Inductive pvec := PVoutput | PVstates | PVinputs.
Inductive xaddr := XArr (a : addr) | XShared (v : svec) (idx : nat) | XPos (cell : nat) (v : pvec) (idx : nat).
Definition svec_eq_dec : forall a b : svec, {a = b} + {a <> b}. Proof. decide equality. Defined.
Definition pvec_eq_dec : forall a b : pvec, {a = b} + {a <> b}. Proof. decide equality. Defined.
Definition xaddr_eq_dec : forall a b : xaddr, {a = b} + {a <> b}.
Proof. decide equality; auto using addr_eq_dec, Nat.eq_dec, svec_eq_dec, pvec_eq_dec. Defined.

Section Ext.
  Variable V : Type.
  Variable toZ : V -> Z.
  Variable K : cellparams V -> list V -> list (list V) -> list (list V) -> option (list (list V) * list V).
  Variable sp : spec.
  Variables nIn nI T N S oN oK oT nP nSets : nat.
  Notation sh := (mk_shapes nIn nI T N S oN oK oT nP nSets).
  Variable maxd : denv.
  Notation pviews := (pviews_from maxd nSets 0 (s_params sp)).

  Inductive xval := XF (x : V) | XN (n : nat).
  Notation xprog := (prog xaddr xval).
  Notation xmem := (mem xaddr xval).

  (** array accesses of the goroutine, in the extended memory *)
  Fixpoint embed {X} (p : prog addr V X) : xprog X :=
    match p with
    | Ret x => Ret x
    | Fail => Fail
    | Rd a k => Rd (XArr a) (fun xv => match xv with XF v => embed (k v) | XN _ => Fail end)
    | Wr a v k => Wr (XArr a) (XF v) (embed k)
    end.

  Definition rdn (a : xaddr) : xprog nat :=
    Rd a (fun xv => match xv with XN n => Ret n | XF _ => Fail end).
  Fixpoint rd_vec (base : nat -> xaddr) (idxs : list nat) : xprog (list nat) :=
    match idxs with
    | [] => Ret []
    | j :: r => bind (rdn (base j)) (fun n => bind (rd_vec base r) (fun ns => Ret (n :: ns)))
    end.
  Fixpoint wr_vec_from (base : nat -> xaddr) (j : nat) (vals : list nat) (k : xprog unit) : xprog unit :=
    match vals with
    | [] => k
    | n :: r => Wr (base j) (XN n) (wr_vec_from base (Datatypes.S j) r k)
    end.

  (** what the shared cells hold after Run's prologue *)
  Definition shared_cells (sv : shared) : list (svec * list nat) :=
    [(SVscalars, [numCells sv; numStates sv; numInputSequences sv; inputLen sv]);
     (SVcellInputsShape, cellInputsShape sv); (SVinputNewShape, inputNewShape sv);
     (SVoutputStep, outputStepSlice sv); (SVoutputSize, outputSizeSlice sv);
     (SVstatesSize, statesSizeSlice sv); (SVinputsSize, inputsSizeSlice sv)].
  Definition holds_shared (m : xmem) : Prop :=
    forall v l j n, In (v, l) (shared_cells (prologue sh)) -> nth_error l j = Some n -> m (XShared v j) = XN n.

  Definition read_shared : xprog (list (list nat)) :=
    bind (rd_vec (XShared SVscalars) (seq 0 4)) (fun a =>
    bind (rd_vec (XShared SVcellInputsShape) (seq 0 2)) (fun b =>
    bind (rd_vec (XShared SVinputNewShape) (seq 0 1)) (fun c =>
    bind (rd_vec (XShared SVoutputStep) (seq 0 3)) (fun d =>
    bind (rd_vec (XShared SVoutputSize) (seq 0 3)) (fun e =>
    bind (rd_vec (XShared SVstatesSize) (seq 0 2)) (fun f =>
    bind (rd_vec (XShared SVinputsSize) (seq 0 3)) (fun g => Ret [a; b; c; d; e; f; g]))))))).
  Definition shared_lists : list (list nat) := map snd (shared_cells (prologue sh)).
  Fixpoint lists_eqb (a b : list (list nat)) : bool :=
    match a, b with
    | [], [] => true
    | x :: a', y :: b' => list_nat_eqb x y && lists_eqb a' b'
    | _, _ => false
    end.

  (** [outputPosSlice[DIMO_OUTPUT] = k] for each output, in turn *)
  Fixpoint set_outputs (i : nat) (ks : list nat) (k : xprog unit) : xprog unit :=
    match ks with
    | [] => k
    | o :: r => Wr (XPos i PVoutput 1) (XN o) (set_outputs i r k)
    end.

  Definition ext_cell (i : nat) : xprog unit :=
    bind read_shared (fun vs =>
    if lists_eqb vs shared_lists then
      wr_vec_from (XPos i PVoutput) 0 (set_idx (new_index (dO sh) 0) 0 i)
      (wr_vec_from (XPos i PVstates) 0 (set_idx (new_index (dS sh) 0) 0 i)
      (wr_vec_from (XPos i PVinputs) 0 (set_idx (new_index (dI sh) 0) 0 (i mod nIn))
      (set_outputs i (seq 0 (n_out sp))
      (embed (cell_prog V toZ K sp sh pviews i)))))
    else Fail).

  (** footprints in the extended address space *)
  Definition Rx (i : nat) (a : xaddr) : bool :=
    match a with
    | XArr a => Rb sp nIn nI T N S oN oK oT nP nSets i a
    | XShared _ _ => true
    | XPos c _ _ => Nat.eqb c i
    end.
  Definition Wx (i : nat) (a : xaddr) : bool :=
    match a with
    | XArr a => Wb sp nIn nI T N S oN oK oT nP nSets i a
    | XShared _ _ => false
    | XPos c _ _ => Nat.eqb c i
    end.

  Lemma fp_embed {X} (R W : addr -> bool) (R' W' : xaddr -> bool) (p : prog addr V X) :
    (forall a, R a = true -> R' (XArr a) = true) -> (forall a, W a = true -> W' (XArr a) = true) ->
    fp R W p -> fp R' W' (embed p).
  Proof.
    intros HR HW. induction p; simpl; auto.
    - intros [Ra F]. split; auto. intros [v|n]; simpl; auto.
    - intros [Wa F]. split; auto.
  Qed.

  Lemma fp_rd_vec (R W : xaddr -> bool) base : forall idxs,
    (forall j, R (base j) = true) -> fp R W (rd_vec base idxs).
  Proof.
    induction idxs as [|j r IH]; intros H; simpl; auto. split; auto.
    intros [v|n]; simpl; auto.
    apply fp_bind with (Q := fun _ => True); [apply IH; auto | apply results_true | simpl; auto].
  Qed.
  Lemma fp_wr_vec_from (R W : xaddr -> bool) base : forall vals j k,
    (forall j, W (base j) = true) -> fp R W k -> fp R W (wr_vec_from base j vals k).
  Proof. induction vals; intros j k H Fk; simpl; auto. Qed.
  Lemma fp_set_outputs (R W : xaddr -> bool) i : forall ks k,
    W (XPos i PVoutput 1) = true -> fp R W k -> fp R W (set_outputs i ks k).
  Proof. induction ks; intros k H Fk; simpl; auto. Qed.

  Theorem fp_ext : K_state_len V K -> forall i, fp (Rx i) (Wx i) (ext_cell i).
  Proof.
    intros KL i. unfold ext_cell.
    apply fp_bind with (Q := fun _ => True); [| apply results_true |].
    - unfold read_shared.
      repeat (apply fp_bind with (Q := fun _ => True);
              [apply fp_rd_vec; intros; reflexivity | apply results_true | intros ? _]).
      simpl. auto.
    - intros vs _. destruct (lists_eqb vs shared_lists); [|simpl; auto].
      repeat (apply fp_wr_vec_from; [intros; simpl; apply Nat.eqb_refl|]).
      apply fp_set_outputs; [simpl; apply Nat.eqb_refl|].
      apply fp_embed with (R := Rb sp nIn nI T N S oN oK oT nP nSets i) (W := Wb sp nIn nI T N S oN oK oT nP nSets i); auto.
      apply fp_cell. exact KL.
  Qed.

  (** shared_vectors_readonly: whatever the memory, whatever the values read,
      no access performed by the goroutine of any cell writes an element of a
      vector shared between the goroutines; the position vectors it writes are
      its own. *)
  Theorem shared_vectors_readonly : K_state_len V K ->
    forall i (m : xmem) e, In e (trace_of (exec xaddr_eq_dec (ext_cell i) m)) -> is_write e = true ->
    (forall v idx, ev_addr e <> XShared v idx) /\
    (forall c v idx, ev_addr e = XPos c v idx -> c = i).
  Proof.
    intros KL i m e Hin Hw.
    pose proof (exec_trace_in_fp xaddr_eq_dec _ _ _ (fp_ext KL i) m e Hin) as H.
    rewrite Hw in H. split.
    - intros v idx E. rewrite E in H. discriminate.
    - intros c v idx E. rewrite E in H. simpl in H. apply Nat.eqb_eq in H. exact H.
  Qed.

  Theorem ext_cells_disjoint : wf_layout sp nIn nI T N S oN oK oT nSets ->
    forall i j a, i <> j -> Wx i a = true -> Rx j a = false /\ Wx j a = false.
  Proof.
    intros WL i j a Hne HW. destruct a as [a|v idx|c v idx]; simpl in *.
    - apply (cells_disjoint sp nIn nI T N S oN oK oT nP nSets WL i j a Hne HW).
    - discriminate.
    - apply Nat.eqb_eq in HW. subst c.
      assert (E : Nat.eqb i j = false) by (apply Nat.eqb_neq; auto). rewrite E. auto.
  Qed.

  Definition ext_threads : list (xprog unit) := map ext_cell (seq 0 N).

  (** Any interleaving of the extended goroutines (array accesses AND index
      vector accesses) ends in the memory of their sequential composition and
      has no conflicting accesses. *)
  Theorem ext_schedule_independent : wf_layout sp nIn nI T N S oN oK oT nSets -> K_state_len V K ->
    forall (m : xmem) s m' ts' tr,
    run_sched xaddr_eq_dec s m ext_threads = (m', ts', tr) -> finished ts' ->
    (forall a, m' a = run_seq xaddr_eq_dec ext_threads m a) /\
    (forall j1 e1 j2 e2, In (j1, e1) tr -> In (j2, e2) tr -> j1 <> j2 ->
       ev_addr e1 = ev_addr e2 -> is_write e1 = false /\ is_write e2 = false).
  Proof.
    intros WL KL m s m' ts' tr Hs Hfin.
    assert (F : footprints_ok Rx Wx ext_threads).
    { intros j p Hp. unfold ext_threads in Hp.
      assert (Hj : j < N).
      { assert (j < length (map ext_cell (seq 0 N))) by (apply nth_error_Some; congruence).
        rewrite map_length, seq_length in H. exact H. }
      rewrite nth_error_map_seq in Hp by assumption. inversion Hp; subst. apply fp_ext. exact KL. }
    assert (D : pairwise_disjoint Rx Wx (length ext_threads)).
    { intros j l a _ _ Hne HW. apply (ext_cells_disjoint WL j l a Hne HW). }
    destruct (disjoint_threads_commute xaddr_eq_dec m F D s Hs Hfin) as (E1 & _ & _).
    split; [exact E1|].
    intros j1 e1 j2 e2 H1 H2 Hne Ha.
    eapply (no_conflicting_accesses xaddr_eq_dec s m F D Hs); eauto.
    - eapply run_sched_event_thread; eauto.
    - eapply run_sched_event_thread; eauto.
  Qed.

  (* ---------------------------------------------------------------- *)
  (** ** The extended goroutine does to the arrays what [cell_prog] does *)
  Variable dv : V.
  Definition proj (m : xmem) : mem addr V := fun a => match m (XArr a) with XF v => v | XN _ => dv end.
  Definition arrays_typed (m : xmem) : Prop := forall a, exists v, m (XArr a) = XF v.

  Lemma embed_exec {X} (p : prog addr V X) : forall m, arrays_typed m ->
    res_of (exec xaddr_eq_dec (embed p) m) = res_of (exec addr_eq_dec p (proj m)) /\
    arrays_typed (mem_of (exec xaddr_eq_dec (embed p) m)) /\
    (forall a, proj (mem_of (exec xaddr_eq_dec (embed p) m)) a = mem_of (exec addr_eq_dec p (proj m)) a) /\
    (forall v j, mem_of (exec xaddr_eq_dec (embed p) m) (XShared v j) = m (XShared v j)).
  Proof.
    induction p; intros m Ht; simpl.
    - repeat split; auto.
    - repeat split; auto.
    - destruct (Ht a) as [v Hv]. rewrite Hv.
      assert (Ep : proj m a = v) by (unfold proj; rewrite Hv; reflexivity). rewrite Ep.
      specialize (H v m Ht).
      destruct (exec xaddr_eq_dec (embed (k v)) m) as [[r1 m1] t1].
      destruct (exec addr_eq_dec (k v) (proj m)) as [[r2 m2] t2].
      unfold res_of, mem_of in *; simpl in *. exact H.
    - assert (Ht' : arrays_typed (upd xaddr_eq_dec m (XArr a) (XF v))).
      { intros b. unfold upd. destruct (xaddr_eq_dec (XArr b) (XArr a)); eauto. }
      specialize (IHp _ Ht').
      assert (Eproj : forall b, proj (upd xaddr_eq_dec m (XArr a) (XF v)) b = upd addr_eq_dec (proj m) a v b).
      { intros b. unfold proj, upd. destruct (xaddr_eq_dec (XArr b) (XArr a)) as [E|E].
        - inversion E; subst. destruct (addr_eq_dec a a); congruence.
        - destruct (addr_eq_dec b a); [subst; congruence | reflexivity]. }
      (* exec depends on the memory only extensionally *)
      assert (Eext : forall (q : prog addr V X) m1 m2, (forall b, m1 b = m2 b) ->
                res_of (exec addr_eq_dec q m1) = res_of (exec addr_eq_dec q m2) /\
                forall b, mem_of (exec addr_eq_dec q m1) b = mem_of (exec addr_eq_dec q m2) b).
      { clear. induction q; intros m1 m2 E; simpl.
        - split; auto. - split; auto.
        - rewrite (E a). specialize (H (m2 a) m1 m2 E).
          destruct (exec addr_eq_dec (k (m2 a)) m1) as [[r1 m1'] t1].
          destruct (exec addr_eq_dec (k (m2 a)) m2) as [[r2 m2'] t2]. exact H.
        - assert (E' : forall b, upd addr_eq_dec m1 a v b = upd addr_eq_dec m2 a v b).
          { intros b. unfold upd. destruct (addr_eq_dec b a); auto. }
          specialize (IHq _ _ E').
          destruct (exec addr_eq_dec q (upd addr_eq_dec m1 a v)) as [[r1 m1'] t1].
          destruct (exec addr_eq_dec q (upd addr_eq_dec m2 a v)) as [[r2 m2'] t2]. exact IHq. }
      destruct (Eext p _ _ Eproj) as [Er Em].
      destruct (exec xaddr_eq_dec (embed p) (upd xaddr_eq_dec m (XArr a) (XF v))) as [[r1 m1] t1].
      destruct (exec addr_eq_dec p (proj (upd xaddr_eq_dec m (XArr a) (XF v)))) as [[r2 m2] t2].
      destruct (exec addr_eq_dec p (upd addr_eq_dec (proj m) a v)) as [[r3 m3] t3].
      unfold res_of, mem_of in *; simpl in *.
      destruct IHp as (I1 & I2 & I3 & I4). split; [congruence|]. split; [exact I2|]. split.
      + intros b. rewrite I3. apply Em.
      + intros w j. rewrite I4. unfold upd. destruct (xaddr_eq_dec (XShared w j) (XArr a)); [discriminate|reflexivity].
  Qed.

  (** the same, as the option-state monad *)
  Definition xrun {X} (p : xprog X) (m : xmem) : option (X * xmem) :=
    match exec xaddr_eq_dec p m with (Some x, m', _) => Some (x, m') | _ => None end.
  Lemma xrun_bind {X Y} (p : xprog X) (f : X -> xprog Y) m :
    xrun (bind p f) m = match xrun p m with Some (x, m') => xrun (f x) m' | None => None end.
  Proof.
    unfold xrun. rewrite exec_bind. destruct (exec xaddr_eq_dec p m) as [[r m'] tr]. destruct r; auto.
    destruct (exec xaddr_eq_dec (f x) m') as [[r' m''] tr']. reflexivity.
  Qed.

  Lemma rd_vec_run base (m : xmem) : forall l s,
    (forall j n, nth_error l j = Some n -> m (base (s + j)) = XN n) ->
    xrun (rd_vec base (seq s (length l))) m = Some (l, m).
  Proof.
    induction l as [|n l IH]; intros s H; [reflexivity|].
    cbn [length seq rd_vec]. rewrite xrun_bind.
    assert (E0 : xrun (rdn (base s)) m = Some (n, m)).
    { unfold xrun, rdn. cbn [exec]. rewrite <- (Nat.add_0_r s). rewrite (H 0 n eq_refl). reflexivity. }
    rewrite E0. rewrite xrun_bind, IH; [reflexivity|].
    intros j k Hj. replace (Datatypes.S s + j) with (s + Datatypes.S j) by lia. apply H. exact Hj.
  Qed.

  Lemma exec_bind_some {X Y} (p : xprog X) (f : X -> xprog Y) m x m1 t :
    exec xaddr_eq_dec p m = (Some x, m1, t) ->
    res_of (exec xaddr_eq_dec (bind p f) m) = res_of (exec xaddr_eq_dec (f x) m1) /\
    mem_of (exec xaddr_eq_dec (bind p f) m) = mem_of (exec xaddr_eq_dec (f x) m1).
  Proof.
    intros E. rewrite exec_bind, E. destruct (exec xaddr_eq_dec (f x) m1) as [[r' m''] tr']. split; reflexivity.
  Qed.

  Lemma lists_eqb_refl : forall l, lists_eqb l l = true.
  Proof.
    induction l as [|x l IH]; simpl; auto. rewrite IH.
    assert (E : list_nat_eqb x x = true) by (apply list_nat_eqb_eq; reflexivity). rewrite E. reflexivity.
  Qed.

  Lemma read_shared_run (m : xmem) : holds_shared m -> xrun read_shared m = Some (shared_lists, m).
  Proof.
    intros H. unfold read_shared.
    assert (G : forall v l, In (v, l) (shared_cells (prologue sh)) ->
                xrun (rd_vec (XShared v) (seq 0 (length l))) m = Some (l, m)).
    { intros v l Hin. apply rd_vec_run. intros j n Hj. simpl. eapply H; eauto. }
    assert (G1 := G SVscalars [N; S; nIn; T] ltac:(simpl; auto)).
    assert (G2 := G SVcellInputsShape [nI; T] ltac:(simpl; auto)).
    assert (G3 := G SVinputNewShape [T] ltac:(simpl; auto)).
    assert (G4 := G SVoutputStep [1; 1; 1] ltac:(simpl; auto 10)).
    assert (G5 := G SVoutputSize [1; 1; T] ltac:(simpl; auto 10)).
    assert (G6 := G SVstatesSize [1; S] ltac:(simpl; auto 10)).
    assert (G7 := G SVinputsSize [1; nI; T] ltac:(simpl; auto 10)).
    cbn [length] in G1, G2, G3, G4, G5, G6, G7.
    rewrite xrun_bind, G1, xrun_bind, G2, xrun_bind, G3, xrun_bind, G4, xrun_bind, G5, xrun_bind, G6,
      xrun_bind, G7.
    reflexivity.
  Qed.

  (** memories that differ only in position-vector cells *)
  Definition same_arrays_shared (m m1 : xmem) : Prop :=
    (forall a, m1 (XArr a) = m (XArr a)) /\ (forall v j, m1 (XShared v j) = m (XShared v j)).
  Lemma wr_vec_from_exec i pv : forall vals j (k : xprog unit) m,
    exists m1, same_arrays_shared m m1 /\
      res_of (exec xaddr_eq_dec (wr_vec_from (XPos i pv) j vals k) m) = res_of (exec xaddr_eq_dec k m1) /\
      mem_of (exec xaddr_eq_dec (wr_vec_from (XPos i pv) j vals k) m) = mem_of (exec xaddr_eq_dec k m1).
  Proof.
    induction vals as [|n vals IH]; intros j k m; simpl.
    - exists m. repeat split; auto.
    - destruct (IH (Datatypes.S j) k (upd xaddr_eq_dec m (XPos i pv j) (XN n))) as (m1 & [A1 A2] & R1 & M1).
      exists m1. split.
      + split; intros; [rewrite A1 | rewrite A2]; unfold upd;
          match goal with |- context [xaddr_eq_dec ?x ?y] => destruct (xaddr_eq_dec x y); [discriminate|reflexivity] end.
      + destruct (exec xaddr_eq_dec (wr_vec_from (XPos i pv) (Datatypes.S j) vals k)
                       (upd xaddr_eq_dec m (XPos i pv j) (XN n))) as [[r m'] t].
        unfold res_of, mem_of in *; simpl in *. auto.
  Qed.
  Lemma set_outputs_exec i : forall ks (k : xprog unit) m,
    exists m1, same_arrays_shared m m1 /\
      res_of (exec xaddr_eq_dec (set_outputs i ks k) m) = res_of (exec xaddr_eq_dec k m1) /\
      mem_of (exec xaddr_eq_dec (set_outputs i ks k) m) = mem_of (exec xaddr_eq_dec k m1).
  Proof.
    induction ks as [|o ks IH]; intros k m; simpl.
    - exists m. repeat split; auto.
    - destruct (IH k (upd xaddr_eq_dec m (XPos i PVoutput 1) (XN o))) as (m1 & [A1 A2] & R1 & M1).
      exists m1. split.
      + split; intros; [rewrite A1 | rewrite A2]; unfold upd;
          match goal with |- context [xaddr_eq_dec ?x ?y] => destruct (xaddr_eq_dec x y); [discriminate|reflexivity] end.
      + destruct (exec xaddr_eq_dec (set_outputs i ks k) (upd xaddr_eq_dec m (XPos i PVoutput 1) (XN o))) as [[r m'] t].
        unfold res_of, mem_of in *; simpl in *. auto.
  Qed.
  Lemma same_arrays_shared_trans m m1 m2 :
    same_arrays_shared m m1 -> same_arrays_shared m1 m2 -> same_arrays_shared m m2.
  Proof. intros [A1 A2] [B1 B2]. split; intros; [rewrite B1, A1 | rewrite B2, A2]; reflexivity. Qed.

  Lemma exec_ext {X} (q : prog addr V X) : forall m1 m2, (forall b, m1 b = m2 b) ->
    res_of (exec addr_eq_dec q m1) = res_of (exec addr_eq_dec q m2) /\
    forall b, mem_of (exec addr_eq_dec q m1) b = mem_of (exec addr_eq_dec q m2) b.
  Proof.
    induction q; intros m1 m2 E; simpl.
    - split; auto.
    - split; auto.
    - rewrite (E a). specialize (H (m2 a) m1 m2 E).
      destruct (exec addr_eq_dec (k (m2 a)) m1) as [[r1 m1'] t1].
      destruct (exec addr_eq_dec (k (m2 a)) m2) as [[r2 m2'] t2]. exact H.
    - assert (E' : forall b, upd addr_eq_dec m1 a v b = upd addr_eq_dec m2 a v b).
      { intros b. unfold upd. destruct (addr_eq_dec b a); auto. }
      specialize (IHq _ _ E').
      destruct (exec addr_eq_dec q (upd addr_eq_dec m1 a v)) as [[r1 m1'] t1].
      destruct (exec addr_eq_dec q (upd addr_eq_dec m2 a v)) as [[r2 m2'] t2]. exact IHq.
  Qed.

  (** ext_refines: with the prologue's values in the shared cells, the extended
      goroutine finishes exactly when [cell_prog i] does, leaves in the arrays
      exactly what [cell_prog i] leaves, and leaves the shared vectors as they were. *)
  Theorem ext_refines : forall i (m : xmem), holds_shared m -> arrays_typed m ->
    res_of (exec xaddr_eq_dec (ext_cell i) m) = res_of (exec addr_eq_dec (cell_prog V toZ K sp sh pviews i) (proj m)) /\
    (forall a, proj (mem_of (exec xaddr_eq_dec (ext_cell i) m)) a =
               mem_of (exec addr_eq_dec (cell_prog V toZ K sp sh pviews i) (proj m)) a) /\
    (forall v j, mem_of (exec xaddr_eq_dec (ext_cell i) m) (XShared v j) = m (XShared v j)).
  Proof.
    intros i m Hs Ht. unfold ext_cell.
    pose proof (read_shared_run m Hs) as Hr. unfold xrun in Hr.
    destruct (exec xaddr_eq_dec read_shared m) as [[r0 m0] t0] eqn:Erd.
    destruct r0 as [vs|]; [|discriminate]. inversion Hr; subst vs m0. clear Hr.
    match goal with |- context [bind read_shared ?f] =>
      destruct (exec_bind_some read_shared f m _ _ _ Erd) as [B1 B2] end.
    rewrite B1, B2. clear B1 B2. rewrite lists_eqb_refl.
    set (body := embed (cell_prog V toZ K sp sh pviews i)).
    destruct (wr_vec_from_exec i PVoutput (set_idx (new_index (dO sh) 0) 0 i) 0
                (wr_vec_from (XPos i PVstates) 0 (set_idx (new_index (dS sh) 0) 0 i)
                (wr_vec_from (XPos i PVinputs) 0 (set_idx (new_index (dI sh) 0) 0 (i mod nIn))
                (set_outputs i (seq 0 (n_out sp)) body))) m) as (m1 & S1 & R1 & M1).
    destruct (wr_vec_from_exec i PVstates (set_idx (new_index (dS sh) 0) 0 i) 0
                (wr_vec_from (XPos i PVinputs) 0 (set_idx (new_index (dI sh) 0) 0 (i mod nIn))
                (set_outputs i (seq 0 (n_out sp)) body)) m1) as (m2 & S2 & R2 & M2).
    destruct (wr_vec_from_exec i PVinputs (set_idx (new_index (dI sh) 0) 0 (i mod nIn)) 0
                (set_outputs i (seq 0 (n_out sp)) body) m2) as (m3 & S3 & R3 & M3).
    destruct (set_outputs_exec i (seq 0 (n_out sp)) body m3) as (m4 & S4 & R4 & M4).
    rewrite R1, R2, R3, R4, M1, M2, M3, M4.
    pose proof (same_arrays_shared_trans _ _ _ (same_arrays_shared_trans _ _ _ (same_arrays_shared_trans _ _ _ S1 S2) S3) S4) as [A1 A2].
    assert (Ht4 : arrays_typed m4) by (intros a; rewrite A1; apply Ht).
    destruct (embed_exec (cell_prog V toZ K sp sh pviews i) m4 Ht4) as (E1 & E2 & E3 & E4).
    assert (Ep : forall b, proj m4 b = proj m b) by (intros b; unfold proj; rewrite A1; reflexivity).
    destruct (exec_ext (cell_prog V toZ K sp sh pviews i) _ _ Ep) as [X1 X2].
    fold body in E1, E2, E3, E4.
    split; [congruence|]. split.
    - intros a. rewrite E3. apply X2.
    - intros v j. rewrite E4. apply A2.
  Qed.
End Ext.
