(** C05: footprints of the cell goroutines, their pairwise disjointness, and
    schedule independence of Run and of one ow-sim generation.

    Model of concurrency: each goroutine [go func(i int){...}(j)] of the
    generated Run is the thread [cell_prog i] of Wrapper/Run.v (every array
    access an atomic read or write of Base/Interleave.v); an execution is the
    run of an arbitrary schedule.  The [doneChan] join is not modelled: Run
    returns when all threads have finished (assumed: channel happens-before of
    the Go memory model). *)
From Coq Require Import List Arith ZArith Lia Bool.
From OW Require Import Base.Interleave Wrapper.Spec Wrapper.Run Wrapper.Views Wrapper.CellFacts Wrapper.RunProofs.
Import ListNotations.
Local Open Scope nat_scope.

Definition addr_eqb (a b : addr) : bool := if addr_eq_dec a b then true else false.
Definition inb (a : addr) (l : list addr) : bool := existsb (addr_eqb a) l.
Lemma inb_true a l : inb a l = true <-> In a l.
Proof.
  unfold inb. rewrite existsb_exists. split.
  - intros (b & Hb & E). unfold addr_eqb in E. destruct (addr_eq_dec a b); [subst; auto | discriminate].
  - intros H. exists a. split; auto. unfold addr_eqb. destruct (addr_eq_dec a a); congruence.
Qed.
Lemma inb_false a l : inb a l = false <-> ~ In a l.
Proof. rewrite <- inb_true. destruct (inb a l); split; congruence. Qed.
Definition is_BP (a : addr) : bool := match fst a with BP => true | _ => false end.

(** Generic footprint lemmas for the program combinators. *)
Section FpGen.
  Variable V : Type.
  Notation prog := (prog addr V).
  Variables R W : addr -> bool.

  Variable sh : shapes.
  Lemma fp_rd b o : R (b, o) = true -> fp R W (rd V sh b o).
  Proof. intros H. unfold rd. destruct (o <? bsize sh b); simpl; auto. Qed.
  Lemma fp_wr b o v : W (b, o) = true -> fp R W (wr V sh b o v).
  Proof. intros H. unfold wr. destruct (o <? bsize sh b); simpl; auto. Qed.

  Lemma fp_rd_list b : forall offs, Forall (fun o => R (b, o) = true) offs -> fp R W (rd_list V sh b offs).
  Proof.
    induction offs as [|o r IH]; intros H; simpl; auto. inversion H; subst.
    apply fp_bind with (Q := fun _ => True); [apply fp_rd; auto | apply results_true |].
    intros v _. apply fp_bind with (Q := fun _ => True); [auto | apply results_true | simpl; auto].
  Qed.
  Lemma results_rd_list b : forall offs, results (rd_list V sh b offs) (fun l => length l = length offs).
  Proof.
    induction offs as [|o r IH]; simpl; auto.
    apply results_bind with (Q := fun _ => True).
    - unfold rd. destruct (o <? bsize sh b); simpl; auto.
    - intros v _. apply results_bind with (Q := fun l => length l = length r); auto.
      intros l Hl. simpl. lia.
  Qed.
  Lemma fp_wr_list b : forall offs vals, Forall (fun o => W (b, o) = true) offs -> fp R W (wr_list V sh b offs vals).
  Proof.
    induction offs as [|o r IH]; intros [|v vs] H; simpl; auto. inversion H; subst.
    apply fp_bind with (Q := fun _ => True); [apply fp_wr; auto | apply results_true | auto].
  Qed.
  Lemma fp_rd_rows b : forall views, Forall (Forall (fun o => R (b, o) = true)) views -> fp R W (rd_rows V sh b views).
  Proof.
    induction views as [|o r IH]; intros H; simpl; auto. inversion H; subst.
    apply fp_bind with (Q := fun _ => True); [apply fp_rd_list; auto | apply results_true |].
    intros v _. apply fp_bind with (Q := fun _ => True); [auto | apply results_true | simpl; auto].
  Qed.
  Lemma fp_wr_rows b : forall views rows, Forall (Forall (fun o => W (b, o) = true)) views -> fp R W (wr_rows V sh b views rows).
  Proof.
    induction views as [|o r IH]; intros [|v vs] H; simpl; auto. inversion H; subst.
    apply fp_bind with (Q := fun _ => True); [apply fp_wr_list; auto | apply results_true | auto].
  Qed.

  (** reading parameters only touches the parameter array *)
  Variable toZ : V -> Z.
  Hypothesis R_BP : forall o, R (BP, o) = true.
  Lemma fp_read_params i : forall ps views env, fp R W (read_params V toZ sh i ps views env).
  Proof.
    induction ps as [|p ps IH]; intros [|pv views] env; simpl; auto.
    destruct p.
    - destruct (gomod i (len1 pv)); simpl; auto.
      apply fp_bind with (Q := fun _ => True); [apply fp_rd; auto | apply results_true |].
      intros v _. apply fp_bind with (Q := fun _ => True); [auto | apply results_true | simpl; auto].
    - destruct (gomod i (len1 pv)); simpl; auto.
      apply fp_bind with (Q := fun _ => True); [apply fp_rd; auto | apply results_true |].
      intros v _. apply fp_bind with (Q := fun _ => True); [auto | apply results_true | simpl; auto].
    - destruct (gomod i (last (wdims pv) 0)); simpl; auto.
      apply fp_bind with (Q := fun _ => True); [apply fp_rd_list | apply results_true |].
      + apply Forall_forall. auto.
      + intros v _. apply fp_bind with (Q := fun _ => True); [auto | apply results_true | simpl; auto].
  Qed.
End FpGen.

(* ------------------------------------------------------------------ *)
(** * Footprint of one goroutine of Run *)
Section CellFp.
  Variable V : Type.
  Variable toZ : V -> Z.
  Variable K : cellparams V -> list V -> list (list V) -> list (list V) -> option (list (list V) * list V).
  Variable sp : spec.
  Variables nIn nI T N S oN oK oT nP nSets : nat.
  Notation sh := (mk_shapes nIn nI T N S oN oK oT nP nSets).
  Variable maxd : denv.
  Notation pviews := (pviews_from maxd nSets 0 (s_params sp)).
  Notation mem := (mem addr V).

  (** Read set of cell [i]: the parameter array (never written by anyone), its
      state row, the rows of its input block, its own output rows.  Write set:
      its output rows and its state row.  (Closed forms of Wrapper/Run.v; the
      exact parameter cells read are [cell_param_reads], a subset of BP.) *)
  Definition Rb (i : nat) (a : addr) : bool :=
    is_BP a || inb a (cell_state_addrs sp sh i ++ cell_input_reads sp sh i ++ cell_output_addrs sp sh i).
  Definition Wb (i : nat) (a : addr) : bool := inb a (cell_writes sp sh i).

  Lemma state_addrs_eq i : cell_state_addrs sp sh i = tag BS (seq (i * S) (state_cols sp S)).
  Proof. reflexivity. Qed.
  Lemma output_addrs_eq i : cell_output_addrs sp sh i = tag BO (concat (out_rows sp T oK oT i)).
  Proof. unfold cell_output_addrs, out_rows. simpl. rewrite flat_map_concat_map. reflexivity. Qed.
  Lemma input_reads_eq i : cell_input_reads sp sh i = tag BI (concat (in_rows sp nIn nI T i)).
  Proof. unfold cell_input_reads, in_rows. simpl. rewrite flat_map_concat_map. reflexivity. Qed.

  Lemma Rb_BP i o : Rb i (BP, o) = true.
  Proof. reflexivity. Qed.
  Lemma Rb_state i o : In o (seq (i * S) (state_cols sp S)) -> Rb i (BS, o) = true.
  Proof.
    intros H. unfold Rb. simpl. apply inb_true. apply in_or_app. left. rewrite state_addrs_eq.
    apply in_tag. auto.
  Qed.
  Lemma Rb_input i o : In o (concat (in_rows sp nIn nI T i)) -> Rb i (BI, o) = true.
  Proof.
    intros H. unfold Rb. simpl. apply inb_true. apply in_or_app. right. apply in_or_app. left.
    rewrite input_reads_eq. apply in_tag. auto.
  Qed.
  Lemma Rb_output i o : In o (concat (out_rows sp T oK oT i)) -> Rb i (BO, o) = true.
  Proof.
    intros H. unfold Rb. simpl. apply inb_true. apply in_or_app. right. apply in_or_app. right.
    rewrite output_addrs_eq. apply in_tag. auto.
  Qed.
  Lemma Wb_output i o : In o (concat (out_rows sp T oK oT i)) -> Wb i (BO, o) = true.
  Proof.
    intros H. unfold Wb, cell_writes. apply inb_true. apply in_or_app. left.
    rewrite output_addrs_eq. apply in_tag. auto.
  Qed.
  Lemma Wb_state i o : In o (seq (i * S) (state_cols sp S)) -> Wb i (BS, o) = true.
  Proof.
    intros H. unfold Wb, cell_writes. apply inb_true. apply in_or_app. right.
    rewrite state_addrs_eq. apply in_tag. auto.
  Qed.

  (** Kernel contract used for the WRITE footprint of custom-state models
      (GR4J, Lag): the packed state is not longer than the state row it was
      extracted from.  (For GR4J this holds for state rows whose stored buffer
      lengths n1, n2 are consistent with the row width; it is the same side
      condition as in the known finding init-states-sized-from-cell0.) *)
  Definition K_state_len : Prop :=
    forall cp st ins oo outs st', K cp st ins oo = Some (outs, st') -> length st' <= length st.

  Lemma rows_in_concat {A} (P : A -> Prop) (ll : list (list A)) :
    (forall x, In x (concat ll) -> P x) -> Forall (Forall P) ll.
  Proof.
    intros H. apply Forall_forall. intros l Hl. apply Forall_forall. intros x Hx. apply H.
    apply in_concat. eauto.
  Qed.

  (** The goroutine body after the parameter reads, for ANY read / write sets
      that contain its state row, input rows and output rows. *)
  Lemma fp_cell_body (R W : addr -> bool) i :
    (forall o, In o (seq (i * S) (state_cols sp S)) -> R (BS, o) = true) ->
    (forall o, In o (concat (in_rows sp nIn nI T i)) -> R (BI, o) = true) ->
    (forall o, In o (concat (out_rows sp T oK oT i)) -> R (BO, o) = true) ->
    (forall o, In o (concat (out_rows sp T oK oT i)) -> W (BO, o) = true) ->
    (forall o, In o (seq (i * S) (state_cols sp S)) -> W (BS, o) = true) ->
    K_state_len -> forall cp, fp R W (cell_body V K sp sh (prologue sh) i (i mod nIn) cp).
  Proof.
    intros Rb_state Rb_input Rb_output Wb_output Wb_state KL cp. unfold cell_body.
    destruct (s_states sp) as [k|] eqn:Es.
    - (* Fixed k *)
      assert (Ec : state_cols sp S = k) by (unfold state_cols; rewrite Es; reflexivity).
      apply fp_bind with (Q := fun st => length st = k).
      { destruct k; [simpl; auto|]. rewrite state_view_eq. cbn [with_view]. rewrite get1_vec.
        apply fp_rd_list. apply Forall_forall. intros o Ho. apply Rb_state. rewrite Ec. exact Ho. }
      { destruct k; [simpl; auto|]. rewrite state_view_eq. cbn [with_view]. rewrite get1_vec.
        pose proof (results_rd_list V sh BS (seq (i * S) (Datatypes.S k))) as Hr.
        rewrite seq_length in Hr. exact Hr. }
      intros st Hst.
      rewrite input_views_eq. cbn [with_views].
      apply fp_bind with (Q := fun _ => True); [|apply results_true|].
      { apply fp_rd_rows. rewrite map_map. apply rows_in_concat. intros o Ho. apply Rb_input.
        unfold in_rows. erewrite map_ext; [exact Ho|]. intros; symmetry; apply voffsets_vec. }
      intros ins _. rewrite output_views_eq. cbn [with_views].
      assert (Eo : map voffsets (map (fun k0 => {| wstart := (i * oK + k0) * oT; wstr := [1]; wdims := [T] |})
                                     (seq 0 (n_out sp))) = out_rows sp T oK oT i).
      { rewrite map_map. unfold out_rows. apply map_ext. intros; apply voffsets_vec. }
      rewrite Eo.
      apply fp_bind with (Q := fun _ => True); [|apply results_true|].
      { apply fp_rd_rows. apply rows_in_concat. intros o Ho. apply Rb_output. exact Ho. }
      intros oo _. destruct (K cp st ins oo) as [[outs st']|]; [|simpl; auto].
      unfold cell_writeback. rewrite Eo.
      apply fp_bind with (Q := fun _ => True); [|apply results_true|].
      { apply fp_wr_rows. apply rows_in_concat. intros o Ho. apply Wb_output. exact Ho. }
      intros _ _. rewrite Es. destruct k.
      + destruct st'; simpl; auto.
      + rewrite state_view_eq. cbn [with_view]. rewrite get1_vec.
        apply fp_wr_list. apply Forall_forall. intros o Ho. apply Wb_state. rewrite Ec. exact Ho.
    - (* Custom *)
      assert (Ec : state_cols sp S = S) by (unfold state_cols; rewrite Es; reflexivity).
      apply fp_bind with (Q := fun st => length st = S).
      { rewrite state_view_eq. cbn [with_view]. rewrite voffsets_vec.
        apply fp_rd_list. apply Forall_forall. intros o Ho. apply Rb_state. rewrite Ec. exact Ho. }
      { rewrite state_view_eq. cbn [with_view]. rewrite voffsets_vec.
        pose proof (results_rd_list V sh BS (seq (i * S) S)) as Hr.
        rewrite seq_length in Hr. exact Hr. }
      intros st Hst.
      rewrite input_views_eq. cbn [with_views].
      apply fp_bind with (Q := fun _ => True); [|apply results_true|].
      { apply fp_rd_rows. rewrite map_map. apply rows_in_concat. intros o Ho. apply Rb_input.
        unfold in_rows. erewrite map_ext; [exact Ho|]. intros; symmetry; apply voffsets_vec. }
      intros ins _. rewrite output_views_eq. cbn [with_views].
      assert (Eo : map voffsets (map (fun k0 => {| wstart := (i * oK + k0) * oT; wstr := [1]; wdims := [T] |})
                                     (seq 0 (n_out sp))) = out_rows sp T oK oT i).
      { rewrite map_map. unfold out_rows. apply map_ext. intros; apply voffsets_vec. }
      rewrite Eo.
      apply fp_bind with (Q := fun _ => True); [|apply results_true|].
      { apply fp_rd_rows. apply rows_in_concat. intros o Ho. apply Rb_output. exact Ho. }
      intros oo _. destruct (K cp st ins oo) as [[outs st']|] eqn:EK; [|simpl; auto].
      unfold cell_writeback. rewrite Eo.
      apply fp_bind with (Q := fun _ => True); [|apply results_true|].
      { apply fp_wr_rows. apply rows_in_concat. intros o Ho. apply Wb_output. exact Ho. }
      intros _ _. rewrite Es. rewrite packed_state_view_offsets.
      apply fp_wr_list. apply Forall_forall. intros o Ho. apply Wb_state. rewrite Ec.
      apply KL in EK. rewrite Hst in EK. apply in_seq in Ho. apply in_seq. lia.
  Qed.

  Theorem fp_cell : K_state_len -> forall i, fp (Rb i) (Wb i) (cell_prog V toZ K sp sh pviews i).
  Proof.
    intros KL i. unfold cell_prog. cbv zeta.
    change (numInputSequences (prologue sh)) with nIn.
    destruct (gomod i nIn) as [ci|] eqn:Eg; [|simpl; auto].
    assert (Eci : ci = i mod nIn).
    { unfold gomod in Eg. destruct (Nat.eqb nIn 0); inversion Eg; auto. }
    subst ci.
    apply fp_bind with (Q := fun _ => True); [apply fp_read_params; apply Rb_BP | apply results_true |].
    intros cp _. apply fp_cell_body; auto using Rb_state, Rb_input, Rb_output, Wb_output, Wb_state.
  Qed.

  (** ** The exact footprint on a given memory.
      The closed-form lists [cell_reads] / [cell_writes] of Wrapper/Run.v (the
      ones extracted and compared with the recorded accesses of the real code)
      contain every access the goroutine performs when started in memory [m]:
      in particular exactly the parameter elements of set [i mod nSets], with
      table extents read from the cell's own dimension parameters. *)
  Lemma exec_rd_mem b o (m : mem) : mem_of (exec addr_eq_dec (rd V sh b o) m) = m /\
    forall x, res_of (exec addr_eq_dec (rd V sh b o) m) = Some x -> x = m (b, o).
  Proof.
    unfold rd. destruct (o <? bsize sh b); simpl; split; auto; intros x H; inversion H; auto.
  Qed.
  Lemma exec_rd_list_mem b : forall offs (m : mem), mem_of (exec addr_eq_dec (rd_list V sh b offs) m) = m.
  Proof.
    induction offs as [|o r IH]; intros m; simpl; auto.
    rewrite exec_bind. destruct (exec_rd_mem b o m) as [Em _].
    destruct (exec addr_eq_dec (rd V sh b o) m) as [[r0 m0] t0]. unfold mem_of in Em; simpl in Em. subst m0.
    destruct r0; auto. rewrite exec_bind. specialize (IH m).
    destruct (exec addr_eq_dec (rd_list V sh b r) m) as [[r1 m1] t1]. unfold mem_of in IH; simpl in IH. subst m1.
    destruct r1; reflexivity.
  Qed.

  Lemma exec_bind_mem {X Y} (q : prog addr V X) (f : X -> prog addr V Y) (m : mem) :
    mem_of (exec addr_eq_dec q m) = m -> (forall x, mem_of (exec addr_eq_dec (f x) m) = m) ->
    mem_of (exec addr_eq_dec (bind q f) m) = m.
  Proof.
    intros Hq Hf. rewrite exec_bind. destruct (exec addr_eq_dec q m) as [[r0 m0] t0].
    unfold mem_of in Hq; simpl in Hq. subst m0. destruct r0; auto.
    specialize (Hf x). destruct (exec addr_eq_dec (f x) m) as [[r1 m1] t1]. exact Hf.
  Qed.
  (** reading the parameters changes nothing *)
  Lemma exec_read_params_mem i (m : mem) : forall ps views env,
    mem_of (exec addr_eq_dec (read_params V toZ sh i ps views env) m) = m.
  Proof.
    induction ps as [|p ps IH]; intros [|pv views] env; simpl; auto.
    destruct p.
    - destruct (gomod i (len1 pv)); [|reflexivity].
      apply exec_bind_mem; [apply exec_rd_mem|]. intros x. apply exec_bind_mem; [apply IH|reflexivity].
    - destruct (gomod i (len1 pv)); [|reflexivity].
      apply exec_bind_mem; [apply exec_rd_mem|]. intros x. apply exec_bind_mem; [apply IH|reflexivity].
    - destruct (gomod i (last (wdims pv) 0)); [|reflexivity].
      apply exec_bind_mem; [apply exec_rd_list_mem|]. intros x. apply exec_bind_mem; [apply IH|reflexivity].
  Qed.

  Lemma fp_on_read_params (R W : addr -> bool) (m : mem) i : 1 <= nSets ->
    forall ps row env,
    (forall o, In o (concat (param_offs toZ maxd nSets (i mod nSets) (fun o => m (BP, o)) row env ps)) -> R (BP, o) = true) ->
    fp_on addr_eq_dec R W (read_params V toZ sh i ps (pviews_from maxd nSets row ps) env) m.
  Proof.
    intros Hn. induction ps as [|p ps IH]; intros row env HR; [simpl; auto|].
    destruct p as [|d|ds]; cbn [read_params pviews_from param_shape block_size];
      unfold param_offs in HR; cbn [param_rows map concat] in HR.
    - unfold len1. cbn [wdims nth strides lprod]. rewrite gomod_ok by exact Hn.
      replace (get1_off {| wstart := row * nSets; wstr := [1]; wdims := [nSets] |} (i mod nSets))
        with (row * nSets + i mod nSets) by (unfold get1_off; simpl; lia).
      destruct (exec_rd_mem BP (row * nSets + i mod nSets) m) as [Em Ex].
      apply fp_on_bind.
      + apply fp_fp_on. apply fp_rd. apply HR. simpl. left. reflexivity.
      + intros x _. rewrite Em. apply fp_on_bind; [|intros; simpl; auto].
        apply IH. intros o Ho. apply HR. simpl. right. exact Ho.
    - unfold len1. cbn [wdims nth strides lprod]. rewrite gomod_ok by exact Hn.
      replace (get1_off {| wstart := row * nSets; wstr := [1]; wdims := [nSets] |} (i mod nSets))
        with (row * nSets + i mod nSets) by (unfold get1_off; simpl; lia).
      destruct (exec_rd_mem BP (row * nSets + i mod nSets) m) as [Em Ex].
      apply fp_on_bind.
      + apply fp_fp_on. apply fp_rd. apply HR. simpl. left. reflexivity.
      + intros x Hx. rewrite Em. apply Ex in Hx. subst x. apply fp_on_bind; [|intros; simpl; auto].
        apply IH. intros o Ho. apply HR. simpl. right. exact Ho.
    - cbn [wdims]. rewrite last_snoc. rewrite gomod_ok by exact Hn.
      rewrite table_slice_offsets.
      apply fp_on_bind.
      + apply fp_fp_on. apply fp_rd_list. apply Forall_forall. intros o Ho. apply HR.
        apply in_or_app. left. exact Ho.
      + intros x _. rewrite exec_rd_list_mem. apply fp_on_bind; [|intros; simpl; auto].
        apply IH. intros o Ho. apply HR. apply in_or_app. right. exact Ho.
  Qed.

  Theorem cell_footprint_exact : K_state_len -> 1 <= nSets ->
    forall i (m : mem) e, In e (trace_of (exec addr_eq_dec (cell_prog V toZ K sp sh pviews i) m)) ->
    if is_write e then In (ev_addr e) (cell_writes sp sh i)
    else In (ev_addr e) (cell_reads V toZ sp sh maxd (fun o => m (BP, o)) i).
  Proof.
    intros KL Hn i m e Hin.
    set (R := fun a => inb a (cell_reads V toZ sp sh maxd (fun o => m (BP, o)) i)).
    assert (F : fp_on addr_eq_dec R (Wb i) (cell_prog V toZ K sp sh pviews i) m).
    { unfold cell_prog. cbv zeta. change (numInputSequences (prologue sh)) with nIn.
      destruct (gomod i nIn) as [ci|] eqn:Eg; [|simpl; auto].
      assert (Eci : ci = i mod nIn).
      { unfold gomod in Eg. destruct (Nat.eqb nIn 0); inversion Eg; auto. }
      subst ci.
      assert (Hin_reads : forall a, In a (cell_state_addrs sp sh i ++ cell_input_reads sp sh i ++ cell_output_addrs sp sh i) -> R a = true).
      { intros a Ha. unfold R. apply inb_true. unfold cell_reads. apply in_or_app. right. exact Ha. }
      apply fp_on_bind.
      - apply fp_on_read_params; auto. intros o Ho. unfold R. apply inb_true. unfold cell_reads.
        apply in_or_app. left. unfold cell_param_reads. apply in_tag. split; auto.
      - intros cp _. apply fp_fp_on. apply fp_cell_body; auto using Wb_output, Wb_state.
        + intros o Ho. apply Hin_reads. apply in_or_app. left. rewrite state_addrs_eq. apply in_tag. auto.
        + intros o Ho. apply Hin_reads. apply in_or_app. right. apply in_or_app. left.
          rewrite input_reads_eq. apply in_tag. auto.
        + intros o Ho. apply Hin_reads. apply in_or_app. right. apply in_or_app. right.
          rewrite output_addrs_eq. apply in_tag. auto. }
    pose proof (exec_trace_in_fp_on addr_eq_dec _ _ _ m F e Hin) as H.
    destruct (is_write e).
    - unfold Wb in H. apply inb_true in H. exact H.
    - unfold R in H. apply inb_true in H. exact H.
  Qed.

  (** ** cells_disjoint: different cells = different rows. *)
  Theorem cells_disjoint : wf_layout sp nIn nI T N S oN oK oT nSets ->
    forall i j a, i <> j -> Wb i a = true -> Rb j a = false /\ Wb j a = false.
  Proof.
    intros WL i j [b o] Hne HW. destruct WL as [w1 w2 w3 wl_oK0 wl_oT0 w6 wl_cols0].
    unfold Wb, cell_writes in HW. apply inb_true in HW. apply in_app_or in HW.
    rewrite output_addrs_eq, state_addrs_eq in HW.
    assert (Hcases : (b = BO /\ In o (concat (out_rows sp T oK oT i))) \/
                     (b = BS /\ In o (seq (i * S) (state_cols sp S)))).
    { destruct HW as [H|H]; apply in_tag in H; auto. }
    clear HW.
    assert (G : ~ In (b, o) (cell_state_addrs sp sh j ++ cell_input_reads sp sh j ++ cell_output_addrs sp sh j)).
    { rewrite output_addrs_eq, state_addrs_eq, input_reads_eq. intros Hin.
      apply in_app_or in Hin. destruct Hin as [H|Hin]; [|apply in_app_or in Hin; destruct Hin as [H|H]];
        apply in_tag in H; destruct H as [Hb H];
        destruct Hcases as [[-> Hc]|[-> Hc]]; try discriminate.
      - exact (st_rows_disjoint S i j o _ _ wl_cols0 wl_cols0 Hne Hc H).
      - exact (out_rows_disjoint sp T oK oT i j o wl_oK0 wl_oT0 Hne Hc H). }
    split.
    - unfold Rb. apply orb_false_iff. split.
      + destruct Hcases as [[-> _]|[-> _]]; reflexivity.
      + apply inb_false. exact G.
    - unfold Wb, cell_writes. apply inb_false. intros Hin. apply G.
      apply in_app_or in Hin. apply in_or_app. destruct Hin as [H|H]; auto.
      right. apply in_or_app. auto.
  Qed.

  Lemma inputs_params_not_written i o : Wb i (BI, o) = false /\ Wb i (BP, o) = false.
  Proof.
    unfold Wb, cell_writes. rewrite output_addrs_eq, state_addrs_eq.
    split; apply inb_false; intros H; apply in_app_or in H; destruct H as [H|H];
      apply in_tag in H; destruct H; discriminate.
  Qed.

  (** ** The goroutines of one Run call *)
  Definition cell_threads : list (prog addr V unit) :=
    map (fun i => cell_prog V toZ K sp sh pviews i) (seq 0 N).

  Lemma cell_threads_nth j p : nth_error cell_threads j = Some p ->
    j < N /\ p = cell_prog V toZ K sp sh pviews j.
  Proof.
    intros H. assert (Hj : j < N).
    { assert (j < length cell_threads) by (apply nth_error_Some; congruence).
      unfold cell_threads in H0. rewrite map_length, seq_length in H0. exact H0. }
    split; auto. unfold cell_threads in H. rewrite nth_error_map_seq in H by assumption. congruence.
  Qed.
  Lemma cell_threads_length : length cell_threads = N.
  Proof. unfold cell_threads. rewrite map_length, seq_length. reflexivity. Qed.

  Lemma cell_footprints_ok : K_state_len -> footprints_ok Rb Wb cell_threads.
  Proof. intros KL j p Hp. apply cell_threads_nth in Hp. destruct Hp as [_ ->]. apply fp_cell. exact KL. Qed.
  Lemma cell_pairwise_disjoint : wf_layout sp nIn nI T N S oN oK oT nSets ->
    pairwise_disjoint Rb Wb (length cell_threads).
  Proof. intros WL j l a _ _ Hne HW. apply (cells_disjoint WL j l a Hne HW). Qed.

  (** The sequential composition of the goroutines is [run]. *)
  Lemma run_order_run_seq : forall order m m',
    run_order V toZ K sp sh pviews order m = Some m' ->
    run_seq addr_eq_dec (map (fun i => cell_prog V toZ K sp sh pviews i) order) m = m'.
  Proof.
    induction order as [|i r IH]; intros m m' H; simpl in *.
    - congruence.
    - destruct (run_cell V toZ K sp sh pviews i m) as [m1|] eqn:E; [|discriminate].
      unfold run_cell in E.
      destruct (exec addr_eq_dec (cell_prog V toZ K sp sh pviews i) m) as [[r0 m1'] tr].
      unfold mem_of. simpl. destruct r0; [|discriminate]. inversion E; subst. apply IH. exact H.
  Qed.

  (** ** run_schedule_independent *)
  Theorem run_schedule_independent : forall (m0 : mem) outs_of st_of,
    wf_layout sp nIn nI T N S oN oK oT nSets ->
    all_ok V toZ K sp nIn nI T N S oK oT nP nSets maxd m0 outs_of st_of ->
    K_state_len ->
    exists m2, run V toZ K sp sh pviews m0 = Some m2 /\
    forall s m' ts' tr,
      run_sched addr_eq_dec s m0 cell_threads = (m', ts', tr) -> finished ts' ->
      (* every interleaving ends in the memory of the sequential cell-by-cell run *)
      (forall a, m' a = m2 a) /\
      (* each goroutine performs exactly the accesses (addresses and values) it performs alone *)
      (forall i, i < N ->
         proj_trace i tr = trace_of (exec addr_eq_dec (cell_prog V toZ K sp sh pviews i) m0)) /\
      (* no two goroutines ever access the same array element unless both read it *)
      (forall j1 e1 j2 e2, In (j1, e1) tr -> In (j2, e2) tr -> j1 <> j2 ->
         ev_addr e1 = ev_addr e2 -> is_write e1 = false /\ is_write e2 = false).
  Proof.
    intros m0 outs_of st_of WL OK KL.
    destruct (run_cellwise V toZ K sp nIn nI T N S oN oK oT nP nSets maxd m0 outs_of st_of WL OK)
      as (m2 & Hr & _).
    exists m2. split; [exact Hr|].
    intros s m' ts' tr Hs Hfin.
    pose proof (cell_footprints_ok KL) as F. pose proof (cell_pairwise_disjoint WL) as D.
    destruct (disjoint_threads_commute addr_eq_dec m0 F D s Hs Hfin) as (E1 & E2 & _).
    split; [|split].
    - intros a. rewrite E1. unfold run in Hr. rewrite numCells_eq in Hr.
      apply run_order_run_seq in Hr. unfold cell_threads. rewrite Hr. reflexivity.
    - intros i Hi. destruct (E2 i (cell_prog V toZ K sp sh pviews i)) as (_ & Ht & _); auto.
      unfold cell_threads. apply nth_error_map_seq. exact Hi.
    - intros j1 e1 j2 e2 H1 H2 Hne Ha.
      eapply (no_conflicting_accesses addr_eq_dec s m0 F D Hs); eauto.
      + eapply run_sched_event_thread; eauto.
      + eapply run_sched_event_thread; eauto.
  Qed.
End CellFp.

(* ------------------------------------------------------------------ *)
(** * One ow-sim generation: a goroutine per model type, each running its
      own Run (hence its own cell goroutines) on its OWN arrays.

    Footprint fact stated by the model: the address space is
    (model type, (array, offset)) — [runGeneration] hands every model type its
    own [g.Inputs], [g.States], freshly allocated [g.Outputs] and its own
    parameter array, so arrays of different model types are different
    buffers.  All cell goroutines of all model types of the generation are
    taken as concurrent threads (the per-model goroutine itself only reads
    array shapes). *)
Section Generation.
  Variable V : Type.
  Variable toZ : V -> Z.
  Record gmodel := {
    g_K : cellparams V -> list V -> list (list V) -> list (list V) -> option (list (list V) * list V);
    g_sp : spec;
    g_nIn : nat; g_nI : nat; g_T : nat; g_N : nat; g_S : nat; g_oN : nat; g_oK : nat; g_oT : nat;
    g_nP : nat; g_nSets : nat; g_maxd : denv }.
  Variable models : nat -> gmodel.
  Definition gaddr := (nat * addr)%type.
  Definition gaddr_eq_dec : forall a b : gaddr, {a = b} + {a <> b}.
  Proof. decide equality; [apply addr_eq_dec | apply Nat.eq_dec]. Defined.

  Definition g_cell_prog (g i : nat) : prog addr V unit :=
    let M := models g in
    cell_prog V toZ (g_K M) (g_sp M)
      (mk_shapes (g_nIn M) (g_nI M) (g_T M) (g_N M) (g_S M) (g_oN M) (g_oK M) (g_oT M) (g_nP M) (g_nSets M))
      (pviews_from (g_maxd M) (g_nSets M) 0 (s_params (g_sp M))) i.
  Definition g_Rb (g i : nat) : addr -> bool :=
    let M := models g in Rb (g_sp M) (g_nIn M) (g_nI M) (g_T M) (g_N M) (g_S M) (g_oN M) (g_oK M) (g_oT M) (g_nP M) (g_nSets M) i.
  Definition g_Wb (g i : nat) : addr -> bool :=
    let M := models g in Wb (g_sp M) (g_nIn M) (g_nI M) (g_T M) (g_N M) (g_S M) (g_oN M) (g_oK M) (g_oT M) (g_nP M) (g_nSets M) i.

  (** the (model type, cell) pairs that run in this generation *)
  Variable tids : list (nat * nat).
  Definition gthread (t : nat * nat) : prog gaddr V unit :=
    map_addr (fun a => (fst t, a)) (g_cell_prog (fst t) (snd t)).
  Definition gthreads : list (prog gaddr V unit) := map gthread tids.
  Definition gR (j : nat) (a : gaddr) : bool :=
    match nth_error tids j with
    | Some (g, i) => Nat.eqb (fst a) g && g_Rb g i (snd a)
    | None => false
    end.
  Definition gW (j : nat) (a : gaddr) : bool :=
    match nth_error tids j with
    | Some (g, i) => Nat.eqb (fst a) g && g_Wb g i (snd a)
    | None => false
    end.

  Hypothesis tids_nodup : NoDup tids.
  Hypothesis models_wf : forall g, let M := models g in
    wf_layout (g_sp M) (g_nIn M) (g_nI M) (g_T M) (g_N M) (g_S M) (g_oN M) (g_oK M) (g_oT M) (g_nSets M).
  Hypothesis models_K : forall g, K_state_len V (g_K (models g)).

  Lemma gthreads_footprints : footprints_ok gR gW gthreads.
  Proof.
    intros j p Hp. unfold gthreads in Hp. rewrite nth_error_map in Hp.
    destruct (nth_error tids j) as [[g i]|] eqn:E; simpl in Hp; [|discriminate].
    inversion Hp; subst p. unfold gthread. simpl fst; simpl snd.
    apply fp_map_addr with (R := g_Rb g i) (W := g_Wb g i).
    - intros a Ha. unfold gR. rewrite E. simpl. rewrite Nat.eqb_refl. exact Ha.
    - intros a Ha. unfold gW. rewrite E. simpl. rewrite Nat.eqb_refl. exact Ha.
    - unfold g_cell_prog, g_Rb, g_Wb. apply fp_cell. apply models_K.
  Qed.

  (** generation_models_disjoint: goroutines of different model types touch
      different arrays; goroutines of the same model type touch different rows. *)
  Theorem generation_models_disjoint : pairwise_disjoint gR gW (length gthreads).
  Proof.
    intros j l [g' a] Hj Hl Hne HW. unfold gthreads in Hj, Hl. rewrite map_length in Hj, Hl.
    unfold gW, gR in *.
    destruct (nth_error tids j) as [[g1 i1]|] eqn:E1; [|discriminate].
    destruct (nth_error tids l) as [[g2 i2]|] eqn:E2; [|apply nth_error_None in E2; lia].
    simpl in *. apply andb_true_iff in HW. destruct HW as [Hg HW]. apply Nat.eqb_eq in Hg. subst g'.
    destruct (Nat.eq_dec g1 g2) as [->|Hg].
    - rewrite Nat.eqb_refl. simpl.
      assert (i1 <> i2).
      { intro; subst. apply Hne. apply (proj1 (NoDup_nth_error tids) tids_nodup); [exact Hj | congruence]. }
      unfold g_Rb, g_Wb in *. apply (cells_disjoint (g_sp (models g2))) with (i := i1); auto.
    - assert (Eb : Nat.eqb g1 g2 = false) by (apply Nat.eqb_neq; auto). rewrite Eb. auto.
  Qed.

  Theorem generation_schedule_independent : forall (m : Interleave.mem gaddr V) s m' ts' tr,
    run_sched gaddr_eq_dec s m gthreads = (m', ts', tr) -> finished ts' ->
    (forall a, m' a = run_seq gaddr_eq_dec gthreads m a) /\
    (forall j p, nth_error gthreads j = Some p -> proj_trace j tr = trace_of (exec gaddr_eq_dec p m)) /\
    (forall j1 e1 j2 e2, In (j1, e1) tr -> In (j2, e2) tr -> j1 <> j2 ->
       ev_addr e1 = ev_addr e2 -> is_write e1 = false /\ is_write e2 = false).
  Proof.
    intros m s m' ts' tr Hs Hfin.
    pose proof gthreads_footprints as F. pose proof generation_models_disjoint as D.
    destruct (disjoint_threads_commute gaddr_eq_dec m F D s Hs Hfin) as (E1 & E2 & _).
    split; [exact E1|]. split.
    - intros j p Hp. destruct (E2 j p Hp) as (_ & Ht & _). exact Ht.
    - intros j1 e1 j2 e2 H1 H2 Hne Ha.
      eapply (no_conflicting_accesses gaddr_eq_dec s m F D Hs); eauto.
      + eapply run_sched_event_thread; eauto.
      + eapply run_sched_event_thread; eauto.
  Qed.
End Generation.
