(** Facts about one goroutine body [cell_prog]: its functional result in closed
    form (used by RunProofs for C04) and its footprint (used by Footprint for
    C05). *)
From Coq Require Import List Arith ZArith Lia Bool.
From OW Require Import Base.Interleave Wrapper.Spec Wrapper.Run Wrapper.Views.
Import ListNotations.
Local Open Scope nat_scope.

Section Facts.
  Variable V : Type.
  Variable toZ : V -> Z.
  Notation prog := (prog addr V).
  Notation mem := (mem addr V).
  Notation exec := (exec addr_eq_dec).
  Notation upd := (upd addr_eq_dec).

  (** ** Programs as the option-state monad *)
  Definition run_prog {X} (p : prog X) (m : mem) : option (X * mem) :=
    match exec p m with (Some x, m', _) => Some (x, m') | _ => None end.

  Lemma run_bind {X Y} (p : prog X) (f : X -> prog Y) m :
    run_prog (bind p f) m =
    match run_prog p m with Some (x, m') => run_prog (f x) m' | None => None end.
  Proof.
    unfold run_prog. rewrite exec_bind. destruct (exec p m) as [[r m'] tr]. destruct r; auto.
    destruct (exec (f x) m') as [[r' m''] tr']. reflexivity.
  Qed.
  Lemma run_ret {X} (x : X) m : run_prog (Ret x) m = Some (x, m).
  Proof. reflexivity. Qed.
  Lemma run_fail {X} m : run_prog (@Fail addr V X) m = None.
  Proof. reflexivity. Qed.

  Definition write_list (m : mem) (l : list (addr * V)) : mem :=
    fold_left (fun m av => upd m (fst av) (snd av)) l m.

  Lemma write_list_app m l1 l2 : write_list m (l1 ++ l2) = write_list (write_list m l1) l2.
  Proof. unfold write_list. apply fold_left_app. Qed.

  Lemma write_list_notin : forall l m a, ~ In a (map fst l) -> write_list m l a = m a.
  Proof.
    induction l as [|[b v] l IH]; intros m a H; simpl; auto.
    rewrite IH. - apply upd_other. intro; subst. apply H. simpl; auto.
    - intro. apply H. simpl; auto.
  Qed.
  Lemma write_list_in : forall l m a v, NoDup (map fst l) -> In (a, v) l -> write_list m l a = v.
  Proof.
    induction l as [|[b w] l IH]; intros m a v ND H; simpl in *; [contradiction|].
    inversion ND; subst. destruct H as [H|H].
    - inversion H; subst. rewrite write_list_notin by assumption. apply upd_same.
    - apply IH; auto.
  Qed.

  Section Sh.
  Variable sh : shapes.

  Lemma run_rd b off m : off < bsize sh b -> run_prog (rd V sh b off) m = Some (m (b, off), m).
  Proof. intros H. unfold rd. apply Nat.ltb_lt in H. rewrite H. reflexivity. Qed.
  Lemma run_wr b off v m : off < bsize sh b -> run_prog (wr V sh b off v) m = Some (tt, upd m (b, off) v).
  Proof. intros H. unfold wr. apply Nat.ltb_lt in H. rewrite H. reflexivity. Qed.

  Lemma run_rd_list b : forall offs m, Forall (fun o => o < bsize sh b) offs ->
    run_prog (rd_list V sh b offs) m = Some (map (fun o => m (b, o)) offs, m).
  Proof.
    induction offs as [|o r IH]; intros m H; simpl; auto.
    inversion H; subst. rewrite run_bind, run_rd by assumption. rewrite run_bind, IH by assumption.
    reflexivity.
  Qed.
  Lemma run_rd_rows b : forall views m, Forall (Forall (fun o => o < bsize sh b)) views ->
    run_prog (rd_rows V sh b views) m = Some (map (map (fun o => m (b, o))) views, m).
  Proof.
    induction views as [|o r IH]; intros m H; simpl; auto.
    inversion H; subst. rewrite run_bind, run_rd_list by assumption. rewrite run_bind, IH by assumption.
    reflexivity.
  Qed.
  Lemma run_wr_list b : forall offs vals m, Forall (fun o => o < bsize sh b) offs ->
    length offs = length vals ->
    run_prog (wr_list V sh b offs vals) m = Some (tt, write_list m (combine (tag b offs) vals)).
  Proof.
    induction offs as [|o r IH]; intros [|v vs] m H L; simpl in *; try discriminate; auto.
    inversion H; subst. rewrite run_bind, run_wr by assumption. rewrite IH by (auto; lia). reflexivity.
  Qed.
  Lemma run_wr_list_mismatch b : forall offs vals m,
    length offs <> length vals -> run_prog (wr_list V sh b offs vals) m = None.
  Proof.
    induction offs as [|o r IH]; intros [|v vs] m L; simpl in *; try congruence; auto.
    rewrite run_bind. destruct (run_prog (wr V sh b o v) m) as [[x m']|]; auto.
  Qed.
  Fixpoint rows_writes (b : buf) (views : list (list nat)) (rows : list (list V)) : list (addr * V) :=
    match views, rows with
    | o :: r, v :: vs => combine (tag b o) v ++ rows_writes b r vs
    | _, _ => []
    end.
  Lemma run_wr_rows b : forall views rows m, Forall (Forall (fun o => o < bsize sh b)) views ->
    Forall2 (fun o v => length o = length v) views rows ->
    run_prog (wr_rows V sh b views rows) m = Some (tt, write_list m (rows_writes b views rows)).
  Proof.
    induction views as [|o r IH]; intros rows m H L; inversion L; subst; simpl; auto.
    inversion H; subst. rewrite run_bind, run_wr_list by assumption. rewrite IH by assumption.
    rewrite write_list_app. reflexivity.
  Qed.
  Lemma run_wr_rows_mismatch b : forall views rows m,
    ~ Forall2 (fun o v => length o = length v) views rows ->
    run_prog (wr_rows V sh b views rows) m = None.
  Proof.
    induction views as [|o r IH]; intros [|v vs] m L; simpl; auto.
    - exfalso. apply L. constructor.
    - rewrite run_bind. destruct (Nat.eq_dec (length o) (length v)) as [E|E].
      + destruct (run_prog (wr_list V sh b o v) m) as [[x m']|]; [|reflexivity].
        apply IH. intro F. apply L. constructor; auto.
      + rewrite run_wr_list_mismatch by assumption. reflexivity.
  Qed.
  End Sh.

  (* ---------------------------------------------------------------- *)
  (** ** ApplyParameters and the per-cell decoding of parameters *)
  Fixpoint pviews_from (maxd : denv) (nSets row : nat) (ps : list pspec) : list wview :=
    match ps with
    | [] => []
    | p :: r =>
      {| wstart := row * nSets; wstr := strides (param_shape maxd nSets p);
         wdims := param_shape maxd nSets p |}
      :: pviews_from maxd nSets (row + block_size maxd p) r
    end.

  Lemma lprod_app l1 l2 : lprod (l1 ++ l2) = lprod l1 * lprod l2.
  Proof. induction l1; simpl; [lia|]. rewrite IHl1. lia. Qed.

  Lemma apply_params_from_eq maxd nP nSets : forall ps row,
    apply_params_from maxd [nP; nSets] nSets row ps = Some (pviews_from maxd nSets row ps).
  Proof.
    induction ps as [|p ps IH]; intros row; simpl; auto.
    rewrite (reshape_block _ (param_shape maxd nSets p)).
    - rewrite IH. do 2 f_equal. unfold vslice; simpl. f_equal. lia.
    - reflexivity.
    - destruct p; simpl; try lia. rewrite lprod_app. simpl. lia.
  Qed.

  Lemma apply_parameters_eq maxd nP nSets ps :
    apply_parameters maxd [nP; nSets] ps = Some (pviews_from maxd nSets 0 ps).
  Proof. apply apply_params_from_eq. Qed.

  Lemma last_snoc {T} (l : list T) a d : last (l ++ [a]) d = a.
  Proof. induction l; simpl; auto. destruct (l ++ [a]) eqn:E; auto. destruct l; discriminate. Qed.

  Lemma table_slice_offsets maxd nSets row c (ds : list String.string) (env : denv) :
    voffsets (vslice {| wstart := row * nSets;
                        wstr := strides (map (dlookup maxd) ds ++ [nSets]);
                        wdims := map (dlookup maxd) ds ++ [nSets] |}
                     (map (fun _ => 0) ds ++ [c]) (map (dlookup env) ds) None)
    = map (fun r => r * nSets + c)
          (map (fun ix => row + dot ix (strides (map (dlookup maxd) ds)))
               (indices (map (dlookup env) ds))).
  Proof.
    rewrite map_map. unfold voffsets, vslice. cbn [wstart wstr wdims]. apply map_ext_in. intros ix Hix.
    apply indices_length in Hix. rewrite map_length in Hix.
    rewrite strides_app_last.
    rewrite dot_zeros_last by (rewrite strides_length, map_length; reflexivity).
    rewrite dot_scaled by (rewrite strides_length, map_length; exact Hix). lia.
  Qed.

  Lemma gomod_ok i n : 1 <= n -> gomod i n = Some (i mod n).
  Proof. intros H. unfold gomod. destruct (Nat.eqb_spec n 0); [lia|reflexivity]. Qed.

  Section Params.
    Variable sh : shapes.
    Variables nP nSets : nat.
    Hypothesis HdP : dP sh = [nP; nSets].
    Hypothesis HnSets : 1 <= nSets.
    Variable maxd : denv.
    Variable m : mem.
    Variable i : nat.
    Let pm := fun o => m (BP, o).

    Lemma bsize_BP : bsize sh BP = nP * nSets.
    Proof. unfold bsize; simpl. rewrite HdP. simpl. lia. Qed.

    Lemma read_params_run : forall ps row env,
      Forall (Forall (fun o => o < nP * nSets)) (param_offs toZ maxd nSets (i mod nSets) pm row env ps) ->
      run_prog (read_params V toZ sh i ps (pviews_from maxd nSets row ps) env) m =
      Some (map (map pm) (param_offs toZ maxd nSets (i mod nSets) pm row env ps), m).
    Proof.
      induction ps as [|p ps IH]; intros row env Hb; [reflexivity|].
      destruct p as [|d|ds]; simpl in Hb; inversion Hb as [|x y Hb1 Hb2]; subst;
        cbn [read_params pviews_from param_shape block_size].
      - (* Scalar *)
        unfold len1. cbn [wdims nth strides lprod]. rewrite gomod_ok by exact HnSets.
        replace (get1_off {| wstart := row * nSets; wstr := [1]; wdims := [nSets] |} (i mod nSets))
          with (row * nSets + i mod nSets) by (unfold get1_off; simpl; lia).
        rewrite run_bind, run_rd by (rewrite bsize_BP; inversion Hb1; auto).
        rewrite run_bind. replace (row + 1) with (row + 1) in * by reflexivity.
        rewrite IH by assumption. reflexivity.
      - (* DimOf *)
        unfold len1. cbn [wdims nth strides lprod]. rewrite gomod_ok by exact HnSets.
        replace (get1_off {| wstart := row * nSets; wstr := [1]; wdims := [nSets] |} (i mod nSets))
          with (row * nSets + i mod nSets) by (unfold get1_off; simpl; lia).
        rewrite run_bind, run_rd by (rewrite bsize_BP; inversion Hb1; auto).
        rewrite run_bind. rewrite IH by assumption. reflexivity.
      - (* Table *)
        cbn [wdims]. rewrite last_snoc. rewrite gomod_ok by exact HnSets.
        set (c := i mod nSets) in *.
        assert (Ho : voffsets (vslice {| wstart := row * nSets;
                                         wstr := strides (map (dlookup maxd) ds ++ [nSets]);
                                         wdims := map (dlookup maxd) ds ++ [nSets] |}
                                      (map (fun _ => 0) ds ++ [c]) (map (dlookup env) ds) None)
                     = map (fun r => r * nSets + c)
                           (map (fun ix => row + dot ix (strides (map (dlookup maxd) ds)))
                                (indices (map (dlookup env) ds)))).
        { rewrite map_map. unfold voffsets, vslice. cbn [wstart wstr wdims]. apply map_ext_in. intros ix Hix.
          apply indices_length in Hix. rewrite map_length in Hix.
          rewrite strides_app_last.
          rewrite dot_zeros_last by (rewrite strides_length, map_length; reflexivity).
          rewrite dot_scaled by (rewrite strides_length, map_length; exact Hix). lia. }
        rewrite Ho. rewrite run_bind, run_rd_list by (rewrite bsize_BP; exact Hb1).
        rewrite run_bind, IH by assumption. reflexivity.
    Qed.
  End Params.

  (* ---------------------------------------------------------------- *)
  (** ** One goroutine body, run alone *)
  Lemma get1_vec s n : forall k, map (get1_off {| wstart := s; wstr := [1]; wdims := [n] |}) (seq 0 k) = seq s k.
  Proof. intros k. apply seq_shift_map_gen. intros t. unfold get1_off. simpl. lia. Qed.

  Lemma NoDup_app_intro {A} (l1 l2 : list A) :
    NoDup l1 -> NoDup l2 -> (forall a, In a l1 -> In a l2 -> False) -> NoDup (l1 ++ l2).
  Proof.
    induction l1 as [|a l1 IH]; simpl; intros N1 N2 D; auto.
    inversion N1 as [|x y Hx Hy]; subst. constructor.
    - intro H. apply in_app_or in H. destruct H; [auto | eapply D; eauto].
    - apply IH; auto. intros b Hb1 Hb2. eapply D; eauto.
  Qed.

  Lemma Forall2_dec_len {A B} (l1 : list (list A)) (l2 : list (list B)) :
    {Forall2 (fun o v => length o = length v) l1 l2} + {~ Forall2 (fun o v => length o = length v) l1 l2}.
  Proof.
    revert l2; induction l1 as [|a l1 IH]; intros [|b l2].
    - left; constructor.
    - right; intro H; inversion H.
    - right; intro H; inversion H.
    - destruct (Nat.eq_dec (length a) (length b)) as [E|E].
      + destruct (IH l2) as [F|F]; [left; constructor; auto | right; intro H; inversion H; auto].
      + right; intro H; inversion H; auto.
  Qed.

  Section Cell.
    Variable K : cellparams V -> list V -> list (list V) -> list (list V) -> option (list (list V) * list V).
    Variable sp : spec.
    Variables nIn nI T N S oN oK oT nP nSets : nat.
    Notation sh := (mk_shapes nIn nI T N S oN oK oT nP nSets).
    Variable maxd : denv.
    Notation pviews := (pviews_from maxd nSets 0 (s_params sp)).

    (** closed forms of what the kernel of cell [i] is given in memory [m] *)
    Definition cell_poffs (m : mem) (i : nat) : list (list nat) :=
      param_offs toZ maxd nSets (i mod nSets) (fun o => m (BP, o)) 0 [] (s_params sp).
    Definition cell_cp (m : mem) (i : nat) : cellparams V := map (map (fun o => m (BP, o))) (cell_poffs m i).
    Definition st_offs (i : nat) : list nat := seq (i * S) (state_cols sp S).
    Definition cell_st (m : mem) (i : nat) : list V := map (fun o => m (BS, o)) (st_offs i).
    Definition in_rows (i : nat) : list (list nat) :=
      map (fun k => seq (((i mod nIn) * nI + k) * T) T) (seq 0 (n_in sp)).
    Definition out_rows (i : nat) : list (list nat) :=
      map (fun k => seq ((i * oK + k) * oT) T) (seq 0 (n_out sp)).
    Definition cell_ins (m : mem) (i : nat) := map (map (fun o => m (BI, o))) (in_rows i).
    Definition cell_oo (m : mem) (i : nat) := map (map (fun o => m (BO, o))) (out_rows i).
    Definition cell_result (m : mem) (i : nat) :=
      K (cell_cp m i) (cell_st m i) (cell_ins m i) (cell_oo m i).
    (** the (address, value) pairs cell [i] writes *)
    Definition cell_updates (i : nat) (outs : list (list V)) (st' : list V) : list (addr * V) :=
      rows_writes BO (out_rows i) outs ++ combine (tag BS (seq (i * S) (length st'))) st'.

    Record wf_cell (m : mem) (i : nat) : Prop := {
      wf_nIn : 1 <= nIn; wf_nSets : 1 <= nSets; wf_i : i < N; wf_oN : N <= oN;
      wf_oK : n_out sp <= oK; wf_oT : T <= oT; wf_nI : n_in sp <= nI;
      wf_cols : state_cols sp S <= S;
      wf_params : Forall (Forall (fun o => o < nP * nSets)) (cell_poffs m i) }.

    Definition outs_shape_ok (i : nat) (outs : list (list V)) : Prop :=
      Forall2 (fun o v => length o = length v) (out_rows i) outs.
    (** what makes the state write-back succeed (in bounds); it stays inside
        row [i] iff moreover [length st' <= S] *)
    Definition st_shape_ok (i : nat) (st' : list V) : Prop :=
      match s_states sp with
      | Fixed k => length st' = k
      | Custom => i * S + length st' <= N * S
      end.

    Lemma mod_lt_ge1 a b : 1 <= b -> a mod b < b.
    Proof. intros. apply Nat.mod_upper_bound. lia. Qed.

    Lemma in_rows_bounds m i : wf_cell m i -> Forall (Forall (fun o => o < bsize sh BI)) (in_rows i).
    Proof.
      intros W. destruct W. unfold in_rows. apply Forall_forall. intros row Hr.
      apply in_map_iff in Hr. destruct Hr as (k & <- & Hk). apply in_seq in Hk.
      apply Forall_forall. intros o Ho. apply in_seq in Ho.
      pose proof (mod_lt_ge1 i nIn wf_nIn0) as Hc. unfold bsize; simpl.
      set (c := i mod nIn) in *.
      assert ((c * nI + k) * T + T <= nIn * nI * T).
      { assert (c * nI + k + 1 <= nIn * nI) by nia. nia. }
      lia.
    Qed.
    Lemma out_rows_bounds m i : wf_cell m i -> Forall (Forall (fun o => o < bsize sh BO)) (out_rows i).
    Proof.
      intros W. destruct W. unfold out_rows. apply Forall_forall. intros row Hr.
      apply in_map_iff in Hr. destruct Hr as (k & <- & Hk). apply in_seq in Hk.
      apply Forall_forall. intros o Ho. apply in_seq in Ho. unfold bsize; simpl.
      assert ((i * oK + k) * oT + oT <= oN * oK * oT).
      { assert (i * oK + k + 1 <= oN * oK) by nia. nia. }
      lia.
    Qed.
    Lemma st_offs_bounds m i : wf_cell m i -> Forall (fun o => o < bsize sh BS) (st_offs i).
    Proof.
      intros W. destruct W. unfold st_offs. apply Forall_forall. intros o Ho. apply in_seq in Ho.
      unfold bsize; simpl. assert (i * S + S <= N * S) by nia. lia.
    Qed.

    Definition ovs_closed (i : nat) : list wview :=
      map (fun k => {| wstart := (i * oK + k) * oT; wstr := [1]; wdims := [T] |}) (seq 0 (n_out sp)).
    Lemma ovs_closed_offsets i : map voffsets (ovs_closed i) = out_rows i.
    Proof.
      unfold ovs_closed, out_rows. rewrite map_map. apply map_ext. intros. apply voffsets_vec.
    Qed.

    (** Up to the kernel call, the goroutine only reads. *)
    Lemma cell_prog_run m i :
      wf_cell m i ->
      run_prog (cell_prog V toZ K sp sh pviews i) m =
      match cell_result m i with
      | None => None
      | Some (outs, st') => run_prog (cell_writeback V sp sh (prologue sh) (ovs_closed i) i outs st') m
      end.
    Proof.
      intros W. pose proof W as W'. destruct W'.
      unfold cell_prog. cbv zeta.
      change (numInputSequences (prologue sh)) with nIn.
      rewrite (gomod_ok i) by assumption.
      rewrite run_bind.
      rewrite (read_params_run sh nP nSets eq_refl wf_nSets0 maxd m i (s_params sp) 0 []) by exact wf_params0.
      fold (cell_poffs m i). fold (cell_cp m i).
      unfold cell_body. rewrite run_bind.
      (* reading the states *)
      assert (Hst : run_prog
        match s_states sp with
        | Fixed 0 => Ret []
        | Fixed (Datatypes.S _ as k) =>
            with_view V (state_view sh (prologue sh) i)
              (fun iv => rd_list V sh BS (map (get1_off iv) (seq 0 k)))
        | Custom => with_view V (state_view sh (prologue sh) i)
              (fun iv => rd_list V sh BS (voffsets iv))
        end m = Some (cell_st m i, m)).
      { pose proof (st_offs_bounds m i W) as Hb. unfold cell_st, st_offs, state_cols in *.
        destruct (s_states sp) as [k|].
        - destruct k; [reflexivity|]. rewrite state_view_eq. cbn [with_view].
          rewrite get1_vec. apply run_rd_list. exact Hb.
        - rewrite state_view_eq. cbn [with_view]. rewrite voffsets_vec. apply run_rd_list. exact Hb. }
      rewrite Hst. clear Hst.
      (* inputs *)
      rewrite input_views_eq. cbn [with_views].
      rewrite map_map.
      replace (map (fun x => voffsets {| wstart := (i mod nIn * nI + x) * T; wstr := [1]; wdims := [T] |})
                   (seq 0 (n_in sp))) with (in_rows i)
        by (unfold in_rows; apply map_ext; intros; rewrite voffsets_vec; reflexivity).
      rewrite run_bind, (run_rd_rows sh BI) by (eapply in_rows_bounds; eauto).
      fold (cell_ins m i).
      (* outputs *)
      rewrite output_views_eq. cbn [with_views]. fold (ovs_closed i). rewrite ovs_closed_offsets.
      rewrite run_bind, (run_rd_rows sh BO) by (eapply out_rows_bounds; eauto).
      fold (cell_oo m i). fold (cell_result m i).
      destruct (cell_result m i) as [[outs st']|]; reflexivity.
    Qed.

    Lemma cell_writeback_run_ok m i outs st' :
      wf_cell m i -> outs_shape_ok i outs -> st_shape_ok i st' ->
      run_prog (cell_writeback V sp sh (prologue sh) (ovs_closed i) i outs st') m =
      Some (tt, write_list m (cell_updates i outs st')).
    Proof.
      intros W Ho Hs. pose proof W as W'. destruct W'.
      unfold cell_writeback. rewrite ovs_closed_offsets.
      rewrite run_bind, (run_wr_rows sh BO) by (try (eapply out_rows_bounds; eauto); exact Ho).
      unfold cell_updates. rewrite write_list_app.
      unfold st_shape_ok in Hs. pose proof (st_offs_bounds m i W) as Hb.
      unfold st_offs, state_cols in Hb.
      destruct (s_states sp) as [k|].
      - destruct k.
        + destruct st'; [reflexivity|discriminate].
        + rewrite state_view_eq. cbn [with_view]. rewrite get1_vec.
          rewrite (run_wr_list sh BS) by (auto; rewrite seq_length; lia). rewrite Hs. reflexivity.
      - rewrite packed_state_view_offsets.
        rewrite (run_wr_list sh BS); [reflexivity| |rewrite seq_length; reflexivity].
        apply Forall_forall. intros o Hin. apply in_seq in Hin. unfold bsize; simpl. lia.
    Qed.

    Lemma cell_prog_run_ok m i outs st' :
      wf_cell m i -> cell_result m i = Some (outs, st') ->
      outs_shape_ok i outs -> st_shape_ok i st' ->
      run_prog (cell_prog V toZ K sp sh pviews i) m = Some (tt, write_list m (cell_updates i outs st')).
    Proof.
      intros W HK Ho Hs. rewrite cell_prog_run, HK by assumption. apply cell_writeback_run_ok; auto.
    Qed.

    Lemma cell_prog_run_none m i :
      wf_cell m i -> cell_result m i = None -> run_prog (cell_prog V toZ K sp sh pviews i) m = None.
    Proof. intros W HK. rewrite cell_prog_run, HK by assumption. reflexivity. Qed.

    (** A successful run of the goroutine body means the kernel succeeded and
        returned one row of the series length per output. *)
    Lemma cell_prog_run_some m i x m' :
      wf_cell m i -> run_prog (cell_prog V toZ K sp sh pviews i) m = Some (x, m') ->
      exists outs st', cell_result m i = Some (outs, st') /\ outs_shape_ok i outs.
    Proof.
      intros W H. rewrite cell_prog_run in H by assumption.
      destruct (cell_result m i) as [[outs st']|]; [|discriminate].
      exists outs, st'. split; auto.
      unfold cell_writeback in H. rewrite ovs_closed_offsets, run_bind in H.
      destruct (run_prog (wr_rows V sh BO (out_rows i) outs) m) as [[u m1]|] eqn:E; [|discriminate].
      unfold outs_shape_ok.
      destruct (Forall2_dec_len (out_rows i) outs) as [F|F]; auto.
      rewrite run_wr_rows_mismatch in E by assumption. discriminate.
    Qed.

    (* -------------------------------------------------------------- *)
    (** ** Where a cell reads and writes: different cells = different rows *)
    Lemma mixed_radix_inj b x y t t' : t < b -> t' < b -> x * b + t = y * b + t' -> x = y /\ t = t'.
    Proof. intros. destruct (lt_eq_lt_dec x y) as [[H2|H2]|H2]; nia. Qed.

    Lemma in_out_rows i o : In o (concat (out_rows i)) <->
      exists k t, k < n_out sp /\ t < T /\ o = (i * oK + k) * oT + t.
    Proof.
      unfold out_rows. rewrite <- flat_map_concat_map, in_flat_map. split.
      - intros (k & Hk & Ho). apply in_seq in Hk. apply in_seq in Ho.
        exists k, (o - (i * oK + k) * oT). repeat split; lia.
      - intros (k & t & Hk & Ht & ->). exists k. split; apply in_seq; lia.
    Qed.
    Lemma in_in_rows i o : In o (concat (in_rows i)) <->
      exists k t, k < n_in sp /\ t < T /\ o = ((i mod nIn) * nI + k) * T + t.
    Proof.
      unfold in_rows. rewrite <- flat_map_concat_map, in_flat_map. split.
      - intros (k & Hk & Ho). apply in_seq in Hk. apply in_seq in Ho.
        exists k, (o - ((i mod nIn) * nI + k) * T). repeat split; lia.
      - intros (k & t & Hk & Ht & ->). exists k. split; apply in_seq; lia.
    Qed.

    Lemma out_rows_disjoint i j o : n_out sp <= oK -> T <= oT -> i <> j ->
      In o (concat (out_rows i)) -> ~ In o (concat (out_rows j)).
    Proof.
      intros HK HT Hne H1 H2. apply in_out_rows in H1. apply in_out_rows in H2.
      destruct H1 as (k & t & Hk & Ht & ->). destruct H2 as (k' & t' & Hk' & Ht' & E).
      apply mixed_radix_inj in E; try lia. destruct E as [E _].
      apply mixed_radix_inj in E; try lia.
    Qed.
    Lemma st_rows_disjoint i j o c c' : c <= S -> c' <= S -> i <> j ->
      In o (seq (i * S) c) -> ~ In o (seq (j * S) c').
    Proof. intros Hc Hc' Hne H1 H2. apply in_seq in H1. apply in_seq in H2. nia. Qed.

    Lemma rows_writes_addrs b : forall views rows,
      Forall2 (fun o v => length o = length v) views rows ->
      map fst (rows_writes b views rows) = tag b (concat views).
    Proof.
      induction 1; simpl; auto. rewrite map_app, IHForall2. unfold tag. rewrite map_app. f_equal.
      clear -H. revert y H. induction x; intros [|v y] H; simpl in *; try discriminate; auto.
      f_equal. apply IHx. lia.
    Qed.
    Lemma combine_tag_addrs b : forall offs (vals : list V), length offs = length vals ->
      map fst (combine (tag b offs) vals) = tag b offs.
    Proof.
      induction offs; intros [|v vals] H; simpl in *; try discriminate; auto. f_equal. apply IHoffs. lia.
    Qed.

    (** The addresses a cell writes ([outs] well-shaped). *)
    Lemma cell_updates_addrs i outs st' : outs_shape_ok i outs ->
      map fst (cell_updates i outs st') = tag BO (concat (out_rows i)) ++ tag BS (seq (i * S) (length st')).
    Proof.
      intros Ho. unfold cell_updates. rewrite map_app, rows_writes_addrs by assumption.
      rewrite combine_tag_addrs by (rewrite seq_length; reflexivity). reflexivity.
    Qed.

    Lemma in_tag b b' o l : In (b', o) (tag b l) <-> b' = b /\ In o l.
    Proof.
      unfold tag. rewrite in_map_iff. split.
      - intros (x & E & H). inversion E; subst. auto.
      - intros [-> H]. exists o. auto.
    Qed.

    Lemma NoDup_tag b l : NoDup l -> NoDup (tag b l).
    Proof.
      induction 1; simpl; constructor; auto.
      intro Hin. apply in_map_iff in Hin. destruct Hin as (y & E & Hy). inversion E; subst. auto.
    Qed.

    Lemma NoDup_concat_out_rows i : n_out sp <= oK -> T <= oT -> NoDup (concat (out_rows i)).
    Proof.
      intros HK HT. unfold out_rows.
      assert (G : forall ks, NoDup ks -> Forall (fun k => k < oK) ks ->
                  NoDup (concat (map (fun k => seq ((i * oK + k) * oT) T) ks))).
      { induction ks as [|k ks IH]; intros ND F; simpl; [constructor|].
        inversion ND as [|x y Hnin ND']; subst. inversion F as [|x y Hk F']; subst.
        apply NoDup_app_intro; [apply seq_NoDup | apply IH; auto |].
        intros o Ho1 Ho2. apply in_seq in Ho1. rewrite <- flat_map_concat_map in Ho2.
        apply in_flat_map in Ho2. destruct Ho2 as (k' & Hk' & Ho). apply in_seq in Ho.
        assert (k' < oK) by (rewrite Forall_forall in F'; auto).
        assert (k <> k') by (intro; subst; auto).
        assert (E : (i * oK + k) * oT + (o - (i * oK + k) * oT) = (i * oK + k') * oT + (o - (i * oK + k') * oT)) by lia.
        apply mixed_radix_inj in E; lia. }
      apply G; [apply seq_NoDup|]. apply Forall_forall. intros k Hk. apply in_seq in Hk. lia.
    Qed.

    Lemma cell_updates_NoDup i outs st' : n_out sp <= oK -> T <= oT -> outs_shape_ok i outs ->
      NoDup (map fst (cell_updates i outs st')).
    Proof.
      intros HK HT Ho. rewrite cell_updates_addrs by assumption.
      apply NoDup_app_intro.
      - apply NoDup_tag, NoDup_concat_out_rows; auto.
      - apply NoDup_tag, seq_NoDup.
      - intros [b o] H1 H2. apply in_tag in H1. apply in_tag in H2. destruct H1, H2. congruence.
    Qed.
  End Cell.
End Facts.
