(** When are all parameter reads of a cell inside the parameter matrix?
    Natural sufficient condition: the matrix has at least [total_rows] rows
    (blocks sized by the max extents) and every table is sliced with own
    extents not larger than the max extents (which is what
    InitialiseDimensions(FindDimensions(P)) guarantees for NaN-free matrices). *)
From Coq Require Import List Arith ZArith Lia Bool.
From OW Require Import Base.Interleave Wrapper.Spec Wrapper.Run Wrapper.Views Wrapper.CellFacts Wrapper.RunProofs.
Import ListNotations.
Local Open Scope nat_scope.

Lemma ravel_bound : forall dvals maxs ix,
  Forall2 le dvals maxs -> In ix (indices dvals) -> dot ix (strides maxs) < lprod maxs.
Proof.
  induction dvals as [|d dvals IH]; intros maxs ix F Hin; inversion F; subst; simpl in *.
  - destruct Hin as [<-|[]]. simpl. lia.
  - apply in_flat_map in Hin. destruct Hin as (a & Ha & Hin). apply in_seq in Ha.
    apply in_map_iff in Hin. destruct Hin as (ix' & <- & Hix'). simpl.
    specialize (IH _ _ H3 Hix'). nia.
Qed.

Section Bounds.
  Variable V : Type.
  Variable toZ : V -> Z.
  Variable maxd : denv.
  Variable pcol : nat -> V.

  (** every table is sliced with extents within the max extents *)
  Fixpoint own_dims_ok (row : nat) (env : denv) (ps : list pspec) : Prop :=
    match ps with
    | [] => True
    | Scalar :: r => own_dims_ok (row + 1) env r
    | DimOf d :: r => own_dims_ok (row + 1) ((d, to_dim toZ (pcol row)) :: env) r
    | Table ds :: r =>
      Forall2 le (map (dlookup env) ds) (map (dlookup maxd) ds) /\
      own_dims_ok (row + block_size maxd (Table ds)) env r
    end.

  Lemma row_of_all : forall ps, row_of maxd ps (length ps) = fold_right (fun p acc => block_size maxd p + acc) 0 ps.
  Proof. induction ps; simpl; auto. Qed.

  Lemma param_rows_bounded : forall ps row env, own_dims_ok row env ps ->
    Forall (Forall (fun r => r < row + total_rows maxd ps)) (param_rows toZ maxd pcol row env ps).
  Proof.
    unfold total_rows. induction ps as [|p ps IH]; intros row env H; simpl; [constructor|].
    destruct p as [|d|ds]; simpl in H.
    - constructor; [constructor; [simpl; lia | constructor]|].
      eapply Forall_impl; [|apply IH; exact H]. intros l Hl. eapply Forall_impl; [|exact Hl].
      simpl. intros; lia.
    - constructor; [constructor; [simpl; lia | constructor]|].
      eapply Forall_impl; [|apply IH; exact H]. intros l Hl. eapply Forall_impl; [|exact Hl].
      simpl. intros; lia.
    - destruct H as [HF H]. constructor.
      + apply Forall_forall. intros r Hr. apply in_map_iff in Hr. destruct Hr as (ix & <- & Hix).
        pose proof (ravel_bound _ _ _ HF Hix). simpl. lia.
      + eapply Forall_impl; [|apply IH; exact H]. intros l Hl. eapply Forall_impl; [|exact Hl].
        simpl. intros; lia.
  Qed.
End Bounds.

(** params_in_bounds from the natural conditions. *)
Theorem params_in_bounds_intro : forall (V : Type) (toZ : V -> Z) (sp : spec) nP nSets maxd (m : mem addr V) i,
  1 <= nSets -> total_rows maxd (s_params sp) <= nP ->
  own_dims_ok V toZ maxd (fun r => m (BP, r * nSets + i mod nSets)) 0 [] (s_params sp) ->
  params_in_bounds V toZ sp nP nSets maxd m i.
Proof.
  intros V toZ sp nP nSets maxd m i Hn Ht Hok. unfold params_in_bounds, cell_poffs, param_offs.
  pose proof (param_rows_bounded V toZ maxd _ _ _ _ Hok) as HB.
  assert (Hc : i mod nSets < nSets) by (apply Nat.mod_upper_bound; lia).
  apply Forall_forall. intros l Hl. apply in_map_iff in Hl. destruct Hl as (l0 & <- & Hl0).
  rewrite Forall_forall in HB. specialize (HB _ Hl0). rewrite Forall_forall in *.
  intros o Ho. apply in_map_iff in Ho. destruct Ho as (r & <- & Hr). specialize (HB _ Hr). simpl in HB. nia.
Qed.
