(** C04: the vectorised Run equals independent single-cell runs and touches
    nothing else.  Proofs about Wrapper/Run.v. *)
From Coq Require Import List Arith ZArith Lia Bool Permutation.
From OW Require Import Base.Interleave Wrapper.Spec Wrapper.Run Wrapper.Views Wrapper.CellFacts.
Import ListNotations.
Local Open Scope nat_scope.

Lemma nth_error_map_seq {T} (f : nat -> T) n k : k < n -> nth_error (map f (seq 0 n)) k = Some (f k).
Proof.
  intros H. rewrite nth_error_map.
  assert (E : nth_error (seq 0 n) k = Some k).
  { rewrite (nth_error_nth' _ 0) by (rewrite seq_length; auto). rewrite seq_nth by auto. reflexivity. }
  rewrite E. reflexivity.
Qed.
Lemma nth_error_seq s n t : t < n -> nth_error (seq s n) t = Some (s + t).
Proof.
  intros H. rewrite (nth_error_nth' _ 0) by (rewrite seq_length; auto). rewrite seq_nth by auto. reflexivity.
Qed.

Section RunProofs.
  Variable V : Type.
  Variable toZ : V -> Z.
  Variable K : cellparams V -> list V -> list (list V) -> list (list V) -> option (list (list V) * list V).
  Variable sp : spec.
  Notation mem := (mem addr V).

  Lemma param_rows_ext maxd (p1 p2 : nat -> V) : (forall r, p1 r = p2 r) ->
    forall ps row env, param_rows toZ maxd p1 row env ps = param_rows toZ maxd p2 row env ps.
  Proof.
    intros E. induction ps as [|p ps IH]; intros row env; simpl; auto.
    destruct p; rewrite ?E, IH; reflexivity.
  Qed.

  (* ---------------------------------------------------------------- *)
  (** ** apply_parameters_decode *)

  (** ApplyParameters always yields one live view per parameter (closed form
      [pviews_from]); reading cell [i]'s parameters through those views gives,
      per parameter, the values at the flat offsets [param_offs]:
      [row * nSets + i mod nSets] for the rows [param_rows] of the cell's own
      column. *)
  Theorem apply_parameters_decode : forall nIn nI T N S oN oK oT nP nSets maxd (m : mem) i,
    1 <= nSets ->
    let sh := mk_shapes nIn nI T N S oN oK oT nP nSets in
    let c := i mod nSets in
    let pcol := fun r => m (BP, r * nSets + c) in
    let rows := param_rows toZ maxd pcol 0 [] (s_params sp) in
    Forall (Forall (fun r => r < nP)) rows ->
    exists pviews,
      apply_parameters maxd (dP sh) (s_params sp) = Some pviews /\
      run_prog V (read_params V toZ sh i (s_params sp) pviews []) m = Some (map (map pcol) rows, m).
  Proof.
    intros nIn nI T N S oN oK oT nP nSets maxd m i Hn sh c pcol rows Hb.
    exists (pviews_from maxd nSets 0 (s_params sp)). split.
    - apply apply_parameters_eq.
    - assert (Hc : c < nSets) by (apply Nat.mod_upper_bound; lia).
      rewrite (read_params_run V toZ sh nP nSets eq_refl Hn maxd m i (s_params sp) 0 []).
      + unfold param_offs. fold c. fold pcol. fold rows. rewrite map_map. do 2 f_equal.
        apply map_ext. intros l. rewrite map_map. reflexivity.
      + unfold param_offs. fold c. fold pcol. fold rows.
        apply Forall_forall. intros l Hl. apply in_map_iff in Hl. destruct Hl as (l0 & <- & Hl0).
        rewrite Forall_forall in Hb. specialize (Hb _ Hl0). rewrite Forall_forall in *.
        intros o Ho. apply in_map_iff in Ho. destruct Ho as (r & <- & Hr). specialize (Hb _ Hr). nia.
  Qed.

  (** The rows: parameter [j] starts at row [row_of maxd ps j] (running sum of
      the block sizes, tables counting [lprod (max extents)] rows); a scalar or
      dimension parameter is that single row, a table is the rows
      [row_of + ravel_max(ix)] for the multi-indices [ix] below the cell's OWN
      extents (the truncated values of its dimension parameters, in [env]). *)
  Lemma param_rows_nth maxd pcol : forall ps j row env p,
    nth_error ps j = Some p ->
    exists env',
      nth_error (param_rows toZ maxd pcol row env ps) j =
      Some match p with
           | Table ds => map (fun ix => row + row_of maxd ps j + dot ix (strides (map (dlookup maxd) ds)))
                             (indices (map (dlookup env') ds))
           | _ => [row + row_of maxd ps j]
           end.
  Proof.
    induction ps as [|q ps IH]; intros j row env p Hj; [destruct j; discriminate|].
    destruct j as [|j].
    - simpl in Hj. inversion Hj; subst p. exists env.
      destruct q; simpl; rewrite ?Nat.add_0_r; reflexivity.
    - simpl in Hj. cbn [row_of].
      destruct q as [|d|ds0]; cbn [param_rows nth_error block_size].
      + destruct (IH j (row + 1) env p Hj) as (env' & E). exists env'. rewrite E.
        destruct p; [do 2 f_equal; lia | do 2 f_equal; lia | f_equal; apply map_ext; intros; lia].
      + destruct (IH j (row + 1) ((d, to_dim toZ (pcol row)) :: env) p Hj) as (env' & E). exists env'. rewrite E.
        destruct p; [do 2 f_equal; lia | do 2 f_equal; lia | f_equal; apply map_ext; intros; lia].
      + destruct (IH j (row + lprod (map (dlookup maxd) ds0)) env p Hj) as (env' & E). exists env'. rewrite E.
        destruct p; [do 2 f_equal; lia | do 2 f_equal; lia | f_equal; apply map_ext; intros; lia].
  Qed.

  Section Layout.
  Variables nIn nI T N S oN oK oT nP nSets : nat.
  Notation sh := (mk_shapes nIn nI T N S oN oK oT nP nSets).
  Variable maxd : denv.
  Notation pviews := (pviews_from maxd nSets 0 (s_params sp)).
  Notation cell_result := (cell_result V toZ K sp nIn nI T S oK oT nSets maxd).
  Notation cell_updates := (cell_updates V sp T S oK oT).
  Notation cell_poffs := (cell_poffs V toZ sp nSets maxd).
  Notation out_rows := (out_rows sp T oK oT).
  Notation in_rows := (in_rows sp nIn nI T).
  Notation st_offs := (st_offs sp S).
  Notation outs_shape_ok := (outs_shape_ok V sp T oK oT).
  Notation wf_cell := (wf_cell V toZ sp nIn nI T N S oN oK oT nP nSets maxd).

  Record wf_layout : Prop := {
    wl_nIn : 1 <= nIn; wl_nSets : 1 <= nSets; wl_oN : N <= oN; wl_oK : n_out sp <= oK;
    wl_oT : T <= oT; wl_nI : n_in sp <= nI; wl_cols : state_cols sp S <= S }.
  Definition params_in_bounds (m : mem) (i : nat) : Prop :=
    Forall (Forall (fun o => o < nP * nSets)) (cell_poffs m i).

  Lemma wf_cell_intro m i : wf_layout -> i < N -> params_in_bounds m i -> wf_cell m i.
  Proof. intros [] Hi Hp. constructor; auto. Qed.

  (** the new state row fits the cell's own row *)
  Definition st_len_ok (st' : list V) : Prop :=
    match s_states sp with Fixed k => length st' = k | Custom => length st' <= S end.
  (** cell [i]'s kernel, on the data of [m], succeeds with well-shaped results *)
  Definition cell_ok (m : mem) (i : nat) (outs : list (list V)) (st' : list V) : Prop :=
    cell_result m i = Some (outs, st') /\ outs_shape_ok i outs /\ st_len_ok st'.

  Lemma st_len_ok_shape i st' : wf_layout -> i < N -> st_len_ok st' ->
    st_shape_ok V sp N S i st'.
  Proof.
    intros [] Hi H. unfold st_len_ok, st_shape_ok in *. destruct (s_states sp); auto. nia.
  Qed.

  (** the addresses cell [i] reads *)
  Definition readaddr (i : nat) (a : addr) : Prop :=
    fst a = BP \/ In a (tag BS (st_offs i)) \/ In a (tag BI (concat (in_rows i))) \/
    In a (tag BO (concat (out_rows i))).

  Lemma map_ext_tag (m1 m2 : mem) b l :
    (forall a, In a (tag b l) -> m1 a = m2 a) -> map (fun o => m1 (b, o)) l = map (fun o => m2 (b, o)) l.
  Proof. intros H. apply map_ext_in. intros o Ho. apply H. apply in_tag. auto. Qed.
  Lemma map_map_ext_tag (m1 m2 : mem) b ll :
    (forall a, In a (tag b (concat ll)) -> m1 a = m2 a) ->
    map (map (fun o => m1 (b, o))) ll = map (map (fun o => m2 (b, o))) ll.
  Proof.
    intros H. apply map_ext_in. intros l Hl. apply map_ext_in. intros o Ho. apply H.
    apply in_tag. split; auto. apply in_concat. eauto.
  Qed.

  Lemma cell_poffs_ext m1 m2 i : (forall o, m1 (BP, o) = m2 (BP, o)) -> cell_poffs m1 i = cell_poffs m2 i.
  Proof.
    intros E. unfold CellFacts.cell_poffs, param_offs. f_equal. apply param_rows_ext. intros; apply E.
  Qed.

  Lemma cell_result_ext m1 m2 i : (forall a, readaddr i a -> m1 a = m2 a) -> cell_result m1 i = cell_result m2 i.
  Proof.
    intros E. unfold CellFacts.cell_result.
    assert (Ep : forall o, m1 (BP, o) = m2 (BP, o)) by (intros; apply E; left; reflexivity).
    f_equal.
    - unfold cell_cp. rewrite (cell_poffs_ext m1 m2 i Ep). apply map_ext. intros l. apply map_ext. auto.
    - unfold cell_st. apply map_ext_tag. intros a Ha. apply E. right; left; auto.
    - unfold cell_ins. apply map_map_ext_tag. intros a Ha. apply E. right; right; left; auto.
    - unfold cell_oo. apply map_map_ext_tag. intros a Ha. apply E. right; right; right; auto.
  Qed.

  (** a cell's writes miss everything another cell reads or writes *)
  Lemma updates_miss_reads i j outs st' a :
    wf_layout -> i <> j -> outs_shape_ok i outs -> length st' <= S ->
    In a (map fst (cell_updates i outs st')) -> ~ readaddr j a.
  Proof.
    intros [] Hne Ho Hl Hin. rewrite cell_updates_addrs in Hin by assumption.
    destruct a as [b o]. apply in_app_or in Hin. unfold readaddr. simpl fst.
    destruct Hin as [Hin|Hin]; apply in_tag in Hin; destruct Hin as [-> Hin];
      intros [H|[H|[H|H]]]; try discriminate; apply in_tag in H; destruct H as [Hb H]; try discriminate.
    - exact (out_rows_disjoint sp T oK oT i j o wl_oK0 wl_oT0 Hne Hin H).
    - unfold CellFacts.st_offs in H. exact (st_rows_disjoint S i j o _ _ Hl wl_cols0 Hne Hin H).
  Qed.
  Lemma updates_miss_updates i j outs st' outs2 st2 a :
    wf_layout -> i <> j -> outs_shape_ok i outs -> length st' <= S ->
    outs_shape_ok j outs2 -> length st2 <= S ->
    In a (map fst (cell_updates i outs st')) -> ~ In a (map fst (cell_updates j outs2 st2)).
  Proof.
    intros [] Hne Ho Hl Ho2 Hl2 Hin Hin2. rewrite cell_updates_addrs in Hin, Hin2 by assumption.
    destruct a as [b o]. apply in_app_or in Hin. apply in_app_or in Hin2.
    destruct Hin as [Hin|Hin]; apply in_tag in Hin; destruct Hin as [-> Hin];
      destruct Hin2 as [H|H]; apply in_tag in H; destruct H as [Hb H]; try discriminate.
    - exact (out_rows_disjoint sp T oK oT i j o wl_oK0 wl_oT0 Hne Hin H).
    - exact (st_rows_disjoint S i j o _ _ Hl Hl2 Hne Hin H).
  Qed.

  Lemma st_len_ok_le st' : wf_layout -> st_len_ok st' -> length st' <= S.
  Proof. intros [] H. unfold st_len_ok, state_cols in *. destruct (s_states sp); lia. Qed.

  Lemma run_cell_run_prog i m :
    run_cell V toZ K sp sh pviews i m =
    match run_prog V (cell_prog V toZ K sp sh pviews i) m with Some (_, m') => Some m' | None => None end.
  Proof.
    unfold run_cell, run_prog. destruct (exec _ _ _) as [[r m'] tr]. destruct r; reflexivity.
  Qed.

  (** *** The cell-by-cell invariant, for ANY order of distinct cells. *)
  Variable m0 : mem.
  Variable outs_of : nat -> list (list V).
  Variable st_of : nat -> list V.

  Lemma run_order_inv : wf_layout ->
    forall order m, NoDup order ->
    (forall i, In i order -> i < N /\ params_in_bounds m0 i /\ cell_ok m0 i (outs_of i) (st_of i)) ->
    (forall i a, In i order -> readaddr i a -> m a = m0 a) ->
    exists m', run_order V toZ K sp sh pviews order m = Some m' /\
      (forall i a v, In i order -> In (a, v) (cell_updates i (outs_of i) (st_of i)) -> m' a = v) /\
      (forall a, (forall i, In i order -> ~ In a (map fst (cell_updates i (outs_of i) (st_of i)))) -> m' a = m a).
  Proof.
    intros WL. induction order as [|i r IH]; intros m ND Hok Hag.
    - exists m. simpl. repeat split; auto. intros; contradiction.
    - inversion ND as [|x y Hnin ND']; subst.
      destruct (Hok i (or_introl eq_refl)) as (Hi & Hpb & HK & Ho & Hs).
      assert (Er : cell_result m i = cell_result m0 i).
      { apply cell_result_ext. intros a Ha. apply (Hag i); simpl; auto. }
      assert (Wm : wf_cell m i).
      { apply wf_cell_intro; auto. unfold params_in_bounds in *.
        rewrite (cell_poffs_ext m m0 i); auto. intros o. apply (Hag i); [simpl; auto | left; reflexivity]. }
      pose proof (st_len_ok_le _ WL Hs) as Hl.
      assert (Hrun : run_prog V (cell_prog V toZ K sp sh pviews i) m =
                     Some (tt, write_list V m (cell_updates i (outs_of i) (st_of i)))).
      { apply cell_prog_run_ok; auto. - rewrite Er; exact HK. - apply st_len_ok_shape; auto. }
      set (m1 := write_list V m (cell_updates i (outs_of i) (st_of i))) in *.
      destruct (IH m1 ND') as (m' & Hr & Hw & Hf).
      { intros j Hj. apply Hok. simpl; auto. }
      { intros j a Hj Ha. unfold m1. rewrite write_list_notin.
        - apply (Hag j); simpl; auto.
        - intro Hin. assert (i <> j) by (intro; subst; auto).
          eapply updates_miss_reads; eauto. }
      exists m'. split; [|split].
      + simpl. rewrite run_cell_run_prog, Hrun. exact Hr.
      + intros j a v [<-|Hj] Hin.
        * rewrite Hf.
          -- unfold m1. apply write_list_in; auto.
             destruct WL. apply cell_updates_NoDup; auto.
          -- intros j Hj Hin2. assert (i <> j) by (intro; subst; auto).
             destruct (Hok j (or_intror Hj)) as (_ & _ & _ & Ho2 & Hs2).
             apply (updates_miss_updates i j (outs_of i) (st_of i) (outs_of j) (st_of j) a); auto.
             ++ eapply st_len_ok_le; eauto.
             ++ apply in_map_iff. exists (a, v). auto.
        * eapply Hw; eauto.
      + intros a Ha. rewrite Hf.
        * unfold m1. apply write_list_notin. apply Ha. simpl; auto.
        * intros j Hj. apply Ha. simpl; auto.
  Qed.

  (* ---------------------------------------------------------------- *)
  (** ** run_cellwise *)
  Lemma numCells_eq : numCells (prologue sh) = N.
  Proof. reflexivity. Qed.

  Lemma rows_writes_in b : forall views rows k offs row t o (v : V),
    nth_error views k = Some offs -> nth_error rows k = Some row ->
    nth_error offs t = Some o -> nth_error row t = Some v ->
    In ((b, o), v) (rows_writes V b views rows).
  Proof.
    induction views as [|o1 views IH]; intros [|r1 rows] k offs row t o v Hv Hr Ho Hw;
      destruct k; simpl in *; try discriminate.
    - inversion Hv; inversion Hr; subst. apply in_or_app. left.
      clear -Ho Hw. revert row t Ho Hw. induction offs as [|x offs IHo]; intros [|y row] [|t] Ho Hw;
        simpl in *; try discriminate.
      + inversion Ho; inversion Hw; subst. auto.
      + right. eapply IHo; eauto.
    - apply in_or_app. right. eapply IH; eauto.
  Qed.

  (** the array elements Run is allowed to write: output rows / series steps
      and state columns of the cells it runs *)
  Definition cell_written (a : addr) : Prop :=
    exists i, i < N /\
      ((exists k t, k < n_out sp /\ t < T /\ a = (BO, (i * oK + k) * oT + t)) \/
       (exists j, j < length (st_of i) /\ a = (BS, i * S + j))).

  Lemma in_updates_written i a : outs_shape_ok i (outs_of i) -> i < N ->
    In a (map fst (cell_updates i (outs_of i) (st_of i))) -> cell_written a.
  Proof.
    intros Ho Hi Hin. rewrite cell_updates_addrs in Hin by assumption.
    destruct a as [b o]. apply in_app_or in Hin. exists i. split; auto.
    destruct Hin as [H|H]; apply in_tag in H; destruct H as [-> H].
    - left. apply in_out_rows in H. destruct H as (k & t & Hk & Ht & ->). eauto.
    - right. apply in_seq in H. exists (o - i * S). split; [lia|]. f_equal. lia.
  Qed.

  Definition all_ok : Prop :=
    forall i, i < N -> params_in_bounds m0 i /\ cell_ok m0 i (outs_of i) (st_of i).

  Lemma outs_shape_len i outs : outs_shape_ok i outs ->
    length outs = n_out sp /\ Forall (fun r => length r = T) outs.
  Proof.
    unfold CellFacts.outs_shape_ok, CellFacts.out_rows. intros H. split.
    - assert (L : forall (A B : Type) (R : A -> B -> Prop) l1 l2, Forall2 R l1 l2 -> length l1 = length l2)
        by (induction 1; simpl; auto).
      apply L in H. rewrite map_length, seq_length in H. lia.
    - remember (map _ _) as rows eqn:E.
      assert (F : Forall (fun r => length r = T) rows).
      { subst rows. apply Forall_forall. intros r Hr. apply in_map_iff in Hr.
        destruct Hr as (k & <- & _). apply seq_length. }
      clear E. induction H; constructor; inversion F; subst; auto; lia.
  Qed.

  Theorem run_order_cellwise : wf_layout -> all_ok ->
    forall order, NoDup order -> (forall i, In i order <-> i < N) ->
    exists m', run_order V toZ K sp sh pviews order m0 = Some m' /\
      (* output rows (i, k, 0..T-1) hold what the kernel returned for cell i *)
      (forall i k t row v, i < N -> nth_error (outs_of i) k = Some row -> nth_error row t = Some v ->
         m' (BO, (i * oK + k) * oT + t) = v) /\
      (* state row i holds the new states of cell i *)
      (forall i j v, i < N -> nth_error (st_of i) j = Some v -> m' (BS, i * S + j) = v) /\
      (* everything else is unchanged *)
      (forall a, ~ cell_written a -> m' a = m0 a).
  Proof.
    intros WL OK order ND Hin.
    destruct (run_order_inv WL order m0 ND) as (m' & Hr & Hw & Hf).
    { intros i Hi. apply Hin in Hi. destruct (OK i Hi). auto. }
    { auto. }
    exists m'. split; [exact Hr|]. split; [|split].
    - intros i k t row v Hi Hk Ht. destruct (OK i Hi) as (_ & _ & Ho & _).
      destruct (outs_shape_len _ _ Ho) as [Hlen Hrows].
      assert (Hk' : k < n_out sp) by (rewrite <- Hlen; apply nth_error_Some; congruence).
      assert (Ht' : t < T).
      { rewrite Forall_forall in Hrows. rewrite <- (Hrows row) by (eapply nth_error_In; eauto).
        apply nth_error_Some. congruence. }
      apply (Hw i); [apply Hin; auto|]. unfold CellFacts.cell_updates. apply in_or_app. left.
      eapply rows_writes_in; eauto.
      + unfold CellFacts.out_rows. apply nth_error_map_seq. exact Hk'.
      + apply nth_error_seq. exact Ht'.
    - intros i j v Hi Hj. apply (Hw i); [apply Hin; auto|]. unfold CellFacts.cell_updates.
      apply in_or_app. right.
      assert (Hj' : j < length (st_of i)) by (apply nth_error_Some; congruence).
      clear -Hj Hj'. unfold tag.
      apply (nth_error_In _ j). rewrite <- (firstn_skipn j (st_of i)) in Hj |- *.
      revert Hj Hj'. generalize (st_of i) as l. intros l. clear.
      intros Hj Hj'. rewrite firstn_skipn in *.
      revert j Hj Hj'. generalize (i * S) as base.
      induction l as [|x l IH]; intros base [|j] Hj Hj'; simpl in *; try discriminate; try lia.
      + inversion Hj; subst. rewrite Nat.add_0_r. reflexivity.
      + replace (base + Datatypes.S j) with (Datatypes.S base + j) by lia. apply IH; auto. lia.
    - intros a Ha. apply Hf. intros i Hi Hin2. apply Ha.
      apply Hin in Hi. destruct (OK i Hi) as (_ & _ & Ho & _). eapply in_updates_written; eauto.
  Qed.

  (** [Run] (cells 0 .. N-1 in order). *)
  Theorem run_cellwise : wf_layout -> all_ok ->
    exists m', run V toZ K sp sh pviews m0 = Some m' /\
      (forall i k t row v, i < N -> nth_error (outs_of i) k = Some row -> nth_error row t = Some v ->
         m' (BO, (i * oK + k) * oT + t) = v) /\
      (forall i j v, i < N -> nth_error (st_of i) j = Some v -> m' (BS, i * S + j) = v) /\
      (forall a, ~ cell_written a -> m' a = m0 a) /\
      (* in particular the inputs and the parameters are not modified *)
      (forall o, m' (BI, o) = m0 (BI, o)) /\ (forall o, m' (BP, o) = m0 (BP, o)).
  Proof.
    intros WL OK. unfold run. rewrite numCells_eq.
    destruct (run_order_cellwise WL OK (seq 0 N) (seq_NoDup N 0)) as (m' & Hr & H1 & H2 & H3).
    { intros i. rewrite in_seq. lia. }
    exists m'. repeat split; auto; intros o; apply H3;
      intros (i & _ & [(k & t & _ & _ & E)|(j & _ & E)]); discriminate.
  Qed.

  (** The order in which the cells are run is immaterial. *)
  Theorem run_order_perm : wf_layout -> all_ok ->
    forall order, Permutation order (seq 0 N) ->
    exists m1 m2, run_order V toZ K sp sh pviews order m0 = Some m1 /\
                  run V toZ K sp sh pviews m0 = Some m2 /\ forall a, m1 a = m2 a.
  Proof.
    intros WL OK order P.
    assert (ND : NoDup order) by (eapply Permutation_NoDup; [apply Permutation_sym; eauto | apply seq_NoDup]).
    assert (Hin : forall i, In i order <-> i < N).
    { intros i. split; intros H.
      - eapply Permutation_in in H; eauto. apply in_seq in H. lia.
      - eapply Permutation_in; [apply Permutation_sym; eauto|]. apply in_seq. lia. }
    destruct (run_order_inv WL order m0 ND) as (m1 & Hr1 & Hw1 & Hf1); auto.
    { intros i Hi. apply Hin in Hi. destruct (OK i Hi). auto. }
    destruct (run_order_inv WL (seq 0 N) m0 (seq_NoDup N 0)) as (m2 & Hr2 & Hw2 & Hf2); auto.
    { intros i Hi. apply in_seq in Hi. assert (Hi' : i < N) by lia. destruct (OK i Hi'). auto. }
    exists m1, m2. split; [exact Hr1|]. split; [unfold run; rewrite numCells_eq; exact Hr2|].
    intros a.
    set (allu := flat_map (fun i => cell_updates i (outs_of i) (st_of i)) (seq 0 N)).
    destruct (in_dec addr_eq_dec a (map fst allu)) as [Hi|Hn].
    - apply in_map_iff in Hi. destruct Hi as ([a' v] & <- & Hi). unfold allu in Hi.
      apply in_flat_map in Hi. destruct Hi as (i & Hi & Hu). apply in_seq in Hi.
      simpl. rewrite (Hw1 i a' v), (Hw2 i a' v); auto; [apply in_seq; lia | apply Hin; lia].
    - rewrite Hf1, Hf2; auto.
      + intros i Hi Hu. apply Hn. apply in_map_iff in Hu. destruct Hu as ([a' v] & <- & Hu).
        apply in_map_iff. exists (a', v). split; auto. apply in_flat_map. eauto.
      + intros i Hi Hu. apply Hn. apply in_map_iff in Hu. destruct Hu as ([a' v] & <- & Hu).
        apply in_map_iff. exists (a', v). split; auto. apply in_flat_map. exists i. split; auto.
        apply in_seq. apply Hin in Hi. lia.
  Qed.
  End Layout.

  (* ---------------------------------------------------------------- *)
  (** ** run_equals_singles *)
  Lemma seq_add_map base : forall n s, seq (base + s) n = map (fun t => base + t) (seq s n).
  Proof. induction n; intros s; simpl; auto. f_equal. rewrite <- IHn. f_equal. lia. Qed.

  Section Singles.
  Variables nIn nI T N S oN oK oT nP nSets : nat.
  Variable maxd : denv.
  Variable m0 : mem.
  Variable i : nat.
  (** the data of cell [i], extracted: its parameter column, its state row,
      its input block, its slab of the output array *)
  Definition extract_cell : mem := fun a =>
    match a with
    | (BP, r) => m0 (BP, r * nSets + i mod nSets)
    | (BS, j) => m0 (BS, i * S + j)
    | (BI, x) => m0 (BI, (i mod nIn) * nI * T + x)
    | (BO, y) => m0 (BO, i * oK * oT + y)
    end.

  Lemma cell_result_single :
    cell_result V toZ K sp 1 nI T S oK oT 1 maxd extract_cell 0 =
    cell_result V toZ K sp nIn nI T S oK oT nSets maxd m0 i.
  Proof.
    unfold cell_result. f_equal.
    - unfold cell_cp, cell_poffs, param_offs. rewrite Nat.mod_1_r. rewrite !map_map.
      rewrite (param_rows_ext maxd (fun r => extract_cell (BP, r * 1 + 0))
                              (fun r => m0 (BP, r * nSets + i mod nSets))).
      + apply map_ext. intros l. rewrite !map_map. apply map_ext. intros r. simpl.
        f_equal. f_equal. lia.
      + intros r. simpl. f_equal. f_equal. lia.
    - unfold cell_st, st_offs. replace (i * S) with (i * S + 0) by lia. rewrite seq_add_map, map_map.
      simpl. reflexivity.
    - unfold cell_ins, in_rows. rewrite !map_map. apply map_ext. intros k.
      rewrite Nat.mod_1_r.
      replace ((i mod nIn * nI + k) * T) with ((i mod nIn) * nI * T + (0 * nI + k) * T) by lia.
      rewrite seq_add_map, map_map. reflexivity.
    - unfold cell_oo, out_rows. rewrite !map_map. apply map_ext. intros k.
      replace ((i * oK + k) * oT) with (i * oK * oT + (0 * oK + k) * oT) by lia.
      rewrite seq_add_map, map_map. reflexivity.
  Qed.

  Variable outs : list (list V).
  Variable st' : list V.

  (** Cell [i] run ALONE (one cell, one parameter set, one input block) on its
      extracted data yields exactly the output rows and state row that the
      vectorised run leaves for cell [i]. *)
  Theorem single_cell_run :
    wf_layout nIn nI T N S oN oK oT nSets -> i < N ->
    params_in_bounds nP nSets maxd m0 i ->
    cell_ok nIn nI T S oK oT nSets maxd m0 i outs st' ->
    exists m1,
      run V toZ K sp (mk_shapes 1 nI T 1 S 1 oK oT nP 1) (pviews_from maxd 1 0 (s_params sp)) extract_cell = Some m1 /\
      (forall k t row v, nth_error outs k = Some row -> nth_error row t = Some v -> m1 (BO, k * oT + t) = v) /\
      (forall j v, nth_error st' j = Some v -> m1 (BS, j) = v).
  Proof.
    intros WL Hi Hp (HK & Ho & Hs).
    assert (WL1 : wf_layout 1 nI T 1 S 1 oK oT 1) by (destruct WL; constructor; auto).
    destruct (run_cellwise 1 nI T 1 S 1 oK oT nP 1 maxd extract_cell (fun _ => outs) (fun _ => st') WL1)
      as (m1 & Hr & H1 & H2 & _).
    { intros j Hj. assert (j = 0) by lia. subst j. split.
      - unfold params_in_bounds in *. unfold cell_poffs, param_offs in *.
        rewrite Nat.mod_1_r.
        rewrite (param_rows_ext maxd (fun r => extract_cell (BP, r * 1 + 0))
                                (fun r => m0 (BP, r * nSets + i mod nSets)))
          by (intros r; simpl; f_equal; f_equal; lia).
        assert (Hc : i mod nSets < nSets) by (destruct WL; apply Nat.mod_upper_bound; lia).
        rewrite Forall_forall in *. intros l Hl. apply in_map_iff in Hl. destruct Hl as (l0 & <- & Hl0).
        specialize (Hp (map (fun r => r * nSets + i mod nSets) l0) (in_map _ _ _ Hl0)).
        rewrite Forall_forall in *. intros o Ho'. apply in_map_iff in Ho'. destruct Ho' as (r & <- & Hr).
        specialize (Hp (r * nSets + i mod nSets) (in_map _ _ _ Hr)). nia.
      - split; [|split].
        + rewrite cell_result_single. exact HK.
        + unfold outs_shape_ok, out_rows in *.
          replace (map (fun k => seq ((0 * oK + k) * oT) T) (seq 0 (n_out sp)))
            with (map (fun k => seq ((0 * oK + k) * oT) T) (seq 0 (n_out sp))) by reflexivity.
          clear -Ho. remember (seq 0 (n_out sp)) as ks. clear Heqks.
          revert outs Ho. induction ks; intros outs Ho; inversion Ho; subst; constructor; auto.
          rewrite seq_length in *. auto.
        + exact Hs. }
    exists m1. split; [exact Hr|]. split.
    - intros k t row v Hk Ht. specialize (H1 0 k t row v (le_n 1) Hk Ht). simpl in H1. exact H1.
    - intros j v Hj. specialize (H2 0 j v (le_n 1) Hj). simpl in H2. exact H2.
  Qed.
  End Singles.

  (** Corollary: the N-cell run equals N one-cell runs on the extracted
      column / row / block. *)
  Theorem run_equals_singles : forall nIn nI T N S oN oK oT nP nSets maxd (m0 : mem) outs_of st_of,
    wf_layout nIn nI T N S oN oK oT nSets ->
    all_ok nIn nI T N S oK oT nP nSets maxd m0 outs_of st_of ->
    exists m', run V toZ K sp (mk_shapes nIn nI T N S oN oK oT nP nSets) (pviews_from maxd nSets 0 (s_params sp)) m0 = Some m' /\
    forall i, i < N ->
    exists m1, run V toZ K sp (mk_shapes 1 nI T 1 S 1 oK oT nP 1) (pviews_from maxd 1 0 (s_params sp))
                   (extract_cell nIn nI T S oK oT nSets m0 i) = Some m1 /\
      (forall k t, k < n_out sp -> t < T -> m' (BO, (i * oK + k) * oT + t) = m1 (BO, k * oT + t)) /\
      (forall j, j < length (st_of i) -> m' (BS, i * S + j) = m1 (BS, j)).
  Proof.
    intros nIn nI T N S oN oK oT nP nSets maxd m0 outs_of st_of WL OK.
    destruct (run_cellwise nIn nI T N S oN oK oT nP nSets maxd m0 outs_of st_of WL OK) as (m' & Hr & H1 & H2 & _).
    exists m'. split; [exact Hr|]. intros i Hi.
    destruct (OK i Hi) as [Hp Hc].
    destruct (single_cell_run nIn nI T N S oN oK oT nP nSets maxd m0 i (outs_of i) (st_of i) WL Hi Hp Hc)
      as (m1 & Hr1 & S1 & S2).
    exists m1. split; [exact Hr1|]. destruct Hc as (_ & Ho & _).
    destruct (outs_shape_len T oK oT i (outs_of i) Ho) as [Hlen Hrows].
    split.
    - intros k t Hk Ht.
      destruct (nth_error (outs_of i) k) as [row|] eqn:Ek; [|apply nth_error_None in Ek; lia].
      assert (Hrl : length row = T) by (rewrite Forall_forall in Hrows; apply Hrows; eapply nth_error_In; eauto).
      destruct (nth_error row t) as [v|] eqn:Et; [|apply nth_error_None in Et; lia].
      rewrite (H1 i k t row v Hi Ek Et), (S1 k t row v Ek Et). reflexivity.
    - intros j Hj.
      destruct (nth_error (st_of i) j) as [v|] eqn:Ej; [|apply nth_error_None in Ej; lia].
      rewrite (H2 i j v Hi Ej), (S2 j v Ej). reflexivity.
  Qed.

  (** A successful run of one goroutine body means its kernel succeeded and
      returned well-shaped output rows (no successful run lies outside
      [run_cellwise] for that reason). *)
  Theorem run_cell_some_kernel_ok : forall nIn nI T N S oN oK oT nP nSets maxd (m m' : mem) i,
    wf_layout nIn nI T N S oN oK oT nSets -> i < N -> params_in_bounds nP nSets maxd m i ->
    run_cell V toZ K sp (mk_shapes nIn nI T N S oN oK oT nP nSets) (pviews_from maxd nSets 0 (s_params sp)) i m = Some m' ->
    exists outs st', cell_result V toZ K sp nIn nI T S oK oT nSets maxd m i = Some (outs, st') /\
                     outs_shape_ok V sp T oK oT i outs.
  Proof.
    intros nIn nI T N S oN oK oT nP nSets maxd m m' i WL Hi Hp H.
    rewrite run_cell_run_prog in H.
    destruct (run_prog V _ m) as [[u m1]|] eqn:E; [|discriminate].
    eapply cell_prog_run_some; eauto. apply wf_cell_intro; eauto.
  Qed.
End RunProofs.
