(** Proofs about Wrapper/SpecDescribe.v:
    - soundness of the boolean checks ([check_catalogue_sound]);
    - [describe_preserves_order] (all specs);
    - the matcher [parse_param] recognises the documented parameter syntax
      "[min,max]units description, default=x" and its partial forms (all strings);
    - known values of the decimal -> binary64 rounding;
    - the data theorems for what was regenerated today (Gen/Specs.v,
      Gen/CatalogDump.v) and for the synthetic corpus (Gen/SynthSpecs.v,
      Gen/SynthCatalog.v). *)
From Coq Require Import ZArith String List Ascii Bool Permutation Lia.
From OW Require Import Wrapper.SpecTypes Wrapper.SpecDescribe.
From OW Require Gen.Specs Gen.CatalogDump Gen.SynthSpecs Gen.SynthCatalog.
Import ListNotations.
Local Open Scope Z_scope.

(** * Soundness of the boolean comparisons *)
Lemma list_eqb_sound {A} (eqb : A -> A -> bool) :
  (forall x y, eqb x y = true -> x = y) -> forall l l', list_eqb eqb l l' = true -> l = l'.
Proof.
  intros H l; induction l as [|x r IH]; intros [|y r']; simpl; try discriminate; auto.
  rewrite andb_true_iff; intros [E1 E2]. f_equal; auto.
Qed.

Lemma strs_eqb_sound l l' : strs_eqb l l' = true -> l = l'.
Proof. apply list_eqb_sound. intros x y; apply String.eqb_eq. Qed.

Lemma pd_eqb_sound a b : pd_eqb a b = true -> a = b.
Proof.
  destruct a as [n1 df1 de1 lo1 hi1 [o1 o1'] u1 di1], b as [n2 df2 de2 lo2 hi2 [o2 o2'] u2 di2].
  unfold pd_eqb; simpl. rewrite !andb_true_iff.
  intros [[[[[[[[H1 H2] H3] H4] H5] H6] H7] H8] H9].
  apply String.eqb_eq in H1. apply String.eqb_eq in H3. apply String.eqb_eq in H8.
  apply Z.eqb_eq in H2. apply Z.eqb_eq in H4. apply Z.eqb_eq in H5.
  apply eqb_prop in H6. apply eqb_prop in H7. apply strs_eqb_sound in H9.
  subst; reflexivity.
Qed.

Lemma mem_str_In x l : mem_str x l = true <-> In x l.
Proof.
  induction l as [|y r IH]; simpl.
  - split; [discriminate | tauto].
  - rewrite orb_true_iff, String.eqb_eq, IH. split; intros [H|H]; auto.
Qed.

Lemma mem_str_false x l : mem_str x l = false <-> ~ In x l.
Proof. rewrite <- mem_str_In. destruct (mem_str x l); split; congruence. Qed.

Lemma nodupb_sound l : nodupb l = true -> NoDup l.
Proof.
  induction l as [|x r IH]; simpl; [constructor|].
  rewrite andb_true_iff, negb_true_iff, mem_str_false. intros [H1 H2]. constructor; auto.
Qed.

Lemma inclb_sound l l' : inclb l l' = true -> forall x, In x l -> In x l'.
Proof. unfold inclb. rewrite forallb_forall. intros H x Hx. apply mem_str_In, H, Hx. Qed.

Lemma perm_b_sound l l' : perm_b l l' = true -> Permutation l l'.
Proof.
  unfold perm_b. rewrite !andb_true_iff. intros [[[N1 N2] I1] I2].
  apply NoDup_Permutation; auto using nodupb_sound.
  intro x; split; [apply (inclb_sound _ _ I1) | apply (inclb_sound _ _ I2)].
Qed.

Lemma desc_same_b_sound d d' : desc_same_b d d' = true -> desc_same d d'.
Proof.
  unfold desc_same_b, desc_same. rewrite !andb_true_iff. intros [[[[H1 H2] H3] H4] H5].
  repeat split; auto using strs_eqb_sound, perm_b_sound.
  apply (list_eqb_sound pd_eqb pd_eqb_sound); assumption.
Qed.

Theorem check_catalogue_sound specs cat n :
  check_catalogue specs cat n = true -> catalogue_agrees specs cat n.
Proof.
  unfold check_catalogue, catalogue_agrees. rewrite !andb_true_iff.
  intros [[[[[L1 L2] N1] N2] F1] F2].
  apply Z.eqb_eq in L1. apply Z.eqb_eq in L2.
  repeat split; auto using nodupb_sound.
  - intros s Hs. rewrite forallb_forall in F1. specialize (F1 s Hs). unfold spec_ok_b in F1.
    destruct (describe s) as [d|]; [|discriminate].
    destruct (lookup (sp_name s) cat) as [d'|]; [|discriminate].
    exists d, d'. auto using desc_same_b_sound.
  - intros k d' Hk. rewrite forallb_forall in F2. specialize (F2 (k, d') Hk). simpl in F2.
    apply mem_str_In, in_map_iff in F2. destruct F2 as [s [E Hs]]. exists s; auto.
Qed.

Lemma lookup_In k cat d : lookup k cat = Some d -> In (k, d) cat.
Proof.
  induction cat as [|[k' d'] r IH]; simpl; [discriminate|].
  destruct (String.eqb k k') eqn:E.
  - apply String.eqb_eq in E. intros [= <-]. subst; auto.
  - auto.
Qed.

(** * describe preserves names, order and the parsed values — all specs *)
Lemma dedup_acc_spec l : forall seen,
  NoDup (dedup_acc seen l) /\ forall x, In x (dedup_acc seen l) <-> In x l /\ ~ In x seen.
Proof.
  induction l as [|y r IH]; intros seen; simpl.
  - split; [constructor | intros x; tauto].
  - destruct (mem_str y seen) eqn:E.
    + destruct (IH seen) as [N I]. split; auto. intro x. rewrite I.
      apply mem_str_In in E. split; [tauto|]. intros [[<-|H] H']; tauto.
    + destruct (IH (y :: seen)) as [N I]. apply mem_str_false in E. split.
      * constructor; auto. rewrite I. simpl; tauto.
      * intro x. simpl. rewrite I. simpl.
        destruct (string_dec y x) as [->|Hn]; intuition congruence.
Qed.

Lemma dedup_NoDup l : NoDup (dedup l).
Proof. apply dedup_acc_spec. Qed.

Lemma dedup_In l x : In x (dedup l) <-> In x l.
Proof. unfold dedup. rewrite (proj2 (dedup_acc_spec l [])). simpl; tauto. Qed.

Lemma describe_Some s d : describe s = Some d -> d = describe_raw s.
Proof. unfold describe. destruct (desc_lit_safe _ _); congruence. Qed.

Theorem describe_preserves_order : forall s d, describe s = Some d ->
  map pd_name (ds_params d) = map param_name (sp_params s)
  /\ ds_inputs d = sp_inputs s /\ ds_states d = sp_states s /\ ds_outputs d = sp_outputs s
  /\ length (ds_params d) = length (sp_params s)
  /\ (forall i p, nth_error (sp_params s) i = Some p ->
        exists pd, nth_error (ds_params d) i = Some pd
          /\ pd_name pd = param_name p
          /\ pd_dims pd = param_dims p
          /\ pd_default pd = go_const (parse_float (pt_default (param_toks p)))
          /\ pd_lo pd = go_const (parse_float (pt_min (param_toks p)))
          /\ pd_hi pd = go_const (parse_float (pt_max (param_toks p)))
          /\ pd_units pd = sa (pt_units (param_toks p))
          /\ pd_desc pd = sa (pt_desc (param_toks p)))
  /\ NoDup (ds_dims d)
  /\ (forall x, In x (ds_dims d) <-> exists p, In p (sp_params s) /\ In x (param_dims p)).
Proof.
  intros s d H. apply describe_Some in H. subst d. unfold describe_raw; simpl.
  repeat split.
  - rewrite map_map. reflexivity.
  - apply map_length.
  - intros i p Hp. exists (describe_param p). split.
    + apply map_nth_error; assumption.
    + repeat split.
  - apply dedup_NoDup.
  - rewrite dedup_In, in_concat. intros [l [Hl Hx]].
    rewrite map_map in Hl. apply in_map_iff in Hl. destruct Hl as [p [E Hp]].
    exists p. subst l. auto.
  - intros [p [Hp Hx]]. rewrite dedup_In, in_concat. exists (param_dims p). split; auto.
    rewrite map_map. apply in_map_iff. exists p; auto.
Qed.

(** * The matcher recognises the documented syntax — all strings *)
Definition stops (p : ascii -> bool) (l : chars) : Prop :=
  match l with [] => True | c :: _ => p c = false end.

Lemma span_app_stop p a b : forallb p a = true -> stops p b -> span p (a ++ b) = (a, b).
Proof.
  induction a as [|c a IH]; simpl; intros Ha Hb.
  - destruct b as [|c b]; simpl in *; auto. rewrite Hb; auto.
  - apply andb_true_iff in Ha. destruct Ha as [Hc Ha]. rewrite Hc, IH; auto.
Qed.

Lemma strip_prefix_app pre l : strip_prefix pre (pre ++ l) = Some l.
Proof. induction pre as [|c pre IH]; simpl; auto. unfold eqc. rewrite Ascii.eqb_refl. auto. Qed.

Definition sign_opt (sg : chars) : Prop := sg = [] \/ sg = ["+"%char] \/ sg = ["-"%char].
Definition digit_or_point (c : ascii) : bool := is_digit c || eqc c "."%char.

(** the language of F, stated independently of the matcher *)
Inductive F_shape : chars -> Prop :=
| F_int : forall sg ds, sign_opt sg -> ds <> [] -> forallb is_digit ds = true -> F_shape (sg ++ ds)
| F_frac : forall sg ds1 ds2, sign_opt sg -> forallb is_digit ds1 = true -> ds2 <> [] ->
    forallb is_digit ds2 = true -> F_shape (sg ++ ds1 ++ "."%char :: ds2).

Lemma digit_not_sign c : is_digit c = true -> is_sign c = false.
Proof.
  unfold is_digit, is_sign. rewrite andb_true_iff, !Z.leb_le. intros [H1 H2].
  rewrite orb_false_iff, !Z.eqb_neq. lia.
Qed.

Lemma digit_not_point c : is_digit c = true -> eqc c "."%char = false.
Proof.
  unfold is_digit, eqc. rewrite andb_true_iff, !Z.leb_le. intros [H1 H2].
  destruct (Ascii.eqb c ".") eqn:E; auto. apply Ascii.eqb_eq in E. subst c. vm_compute in H1. congruence.
Qed.

Lemma stops_dp_digit r : stops digit_or_point r -> stops is_digit r.
Proof. destruct r; simpl; auto. unfold digit_or_point. rewrite orb_false_iff. tauto. Qed.

Lemma lex_body_int sg ds rest : ds <> [] -> forallb is_digit ds = true -> stops digit_or_point rest ->
  lex_body sg (ds ++ rest) = Some (sg ++ ds, rest).
Proof.
  intros Hne Hd Hs. unfold lex_body. rewrite span_app_stop; auto using stops_dp_digit.
  destruct ds as [|d ds]; [congruence|].
  destruct rest as [|c rest]; auto.
  simpl in Hs. unfold digit_or_point in Hs. apply orb_false_iff in Hs. destruct Hs as [_ Hs]. rewrite Hs. reflexivity.
Qed.

Lemma lex_body_frac sg ds1 ds2 rest : forallb is_digit ds1 = true -> ds2 <> [] -> forallb is_digit ds2 = true ->
  stops digit_or_point rest ->
  lex_body sg (ds1 ++ "."%char :: ds2 ++ rest) = Some (sg ++ ds1 ++ "."%char :: ds2, rest).
Proof.
  intros H1 Hne H2 Hs. unfold lex_body. rewrite span_app_stop; auto; [|reflexivity].
  change (eqc "." ".") with true. cbv iota.
  rewrite span_app_stop; auto using stops_dp_digit.
  destruct ds2 as [|d ds2]; [congruence|]. reflexivity.
Qed.

Lemma lexF_ok t rest : F_shape t -> stops digit_or_point rest -> lexF (t ++ rest) = Some (t, rest).
Proof.
  intros Ht Hs. destruct Ht as [sg ds Hsg Hne Hd | sg ds1 ds2 Hsg H1 Hne H2].
  - destruct Hsg as [-> | [-> | ->]]; simpl.
    + destruct ds as [|d ds]; [congruence|]. simpl.
      simpl in Hd. apply andb_true_iff in Hd. destruct Hd as [Hd0 Hd].
      rewrite (digit_not_sign _ Hd0).
      apply (lex_body_int [] (d :: ds) rest); auto. simpl. rewrite Hd0; auto.
    + change (is_sign "+") with true. cbv iota. apply (lex_body_int ["+"%char]); auto.
    + change (is_sign "-") with true. cbv iota. apply (lex_body_int ["-"%char]); auto.
  - destruct Hsg as [-> | [-> | ->]]; simpl.
    + rewrite <- app_assoc. simpl.
      assert (Hhd : match (ds1 ++ "."%char :: ds2 ++ rest) with [] => False | c :: _ => is_sign c = false end).
      { destruct ds1 as [|d ds1]; simpl; [reflexivity|].
        simpl in H1. apply andb_true_iff in H1. apply digit_not_sign, H1. }
      pose proof (lex_body_frac [] ds1 ds2 rest H1 Hne H2 Hs) as L.
      destruct (ds1 ++ "."%char :: ds2 ++ rest) as [|c r] eqn:E; [tauto|]. unfold lexF. rewrite Hhd. exact L.
    + change (is_sign "+") with true. cbv iota. rewrite <- app_assoc. simpl.
      apply (lex_body_frac ["+"%char]); auto.
    + change (is_sign "-") with true. cbv iota. rewrite <- app_assoc. simpl.
      apply (lex_body_frac ["-"%char]); auto.
Qed.

Lemma parse_range_ok lo hi u rest : F_shape lo -> F_shape hi -> forallb is_space u = true -> stops is_space rest ->
  parse_range ("["%char :: lo ++ ","%char :: hi ++ "]"%char :: u ++ rest) = Some (lo, hi, u, rest).
Proof.
  intros Hlo Hhi Hu Hr. unfold parse_range. change (eqc "[" "[") with true. cbv iota.
  rewrite lexF_ok; auto; [|reflexivity]. change (eqc "," ",") with true. cbv iota.
  rewrite lexF_ok; auto; [|reflexivity]. change (eqc "]" "]") with true. cbv iota.
  rewrite span_app_stop; auto.
Qed.

Lemma parse_tail_default ws0 d ws df rest :
  forallb is_space ws0 = true -> stops is_space d -> forallb not_comma d = true ->
  forallb is_space ws = true -> F_shape df -> stops digit_or_point rest ->
  parse_tail (ws0 ++ d ++ ","%char :: ws ++ default_kw ++ df ++ rest) = (d, df).
Proof.
  intros H0 Hd0 Hd Hws Hdf Hr. unfold parse_tail.
  rewrite span_app_stop; auto.
  2:{ destruct d; simpl in *; auto. }
  rewrite span_app_stop; auto; [|reflexivity].
  rewrite span_app_stop; auto; [|reflexivity].
  rewrite strip_prefix_app, lexF_ok; auto.
Qed.

Lemma parse_tail_plain ws0 d :
  forallb is_space ws0 = true -> stops is_space d -> forallb not_comma d = true ->
  parse_tail (ws0 ++ d) = (d, []).
Proof.
  intros H0 Hd0 Hd. unfold parse_tail. rewrite span_app_stop; auto.
  rewrite <- (app_nil_r d) at 1. rewrite span_app_stop; simpl; auto.
Qed.

Lemma parse_range_not_bracket l : stops (fun c => eqc c "["%char) l -> parse_range l = None.
Proof. destruct l as [|c l]; simpl; auto. intros ->; auto. Qed.

(** [min,max]units description, default=x   (units = whitespace, see the note in C09.v) *)
Theorem parse_param_full lo hi u d ws df rest :
  F_shape lo -> F_shape hi -> forallb is_space u = true ->
  stops is_space d -> forallb not_comma d = true ->
  forallb is_space ws = true -> F_shape df -> stops digit_or_point rest ->
  parse_param ("["%char :: lo ++ ","%char :: hi ++ "]"%char :: u ++ d ++ ","%char :: ws ++ default_kw ++ df ++ rest)
  = {| pt_min := lo; pt_max := hi; pt_units := u; pt_desc := d; pt_default := df |}.
Proof.
  intros. unfold parse_param. rewrite parse_range_ok; auto.
  2:{ destruct d; simpl in *; auto. }
  pose proof (parse_tail_default [] d ws df rest) as T. rewrite app_nil_l in T. rewrite T; auto.
Qed.

(** [min,max]units description      -> no default token (Description().Default = 0) *)
Theorem parse_param_range_only lo hi u d :
  F_shape lo -> F_shape hi -> forallb is_space u = true ->
  stops is_space d -> forallb not_comma d = true ->
  parse_param ("["%char :: lo ++ ","%char :: hi ++ "]"%char :: u ++ d)
  = {| pt_min := lo; pt_max := hi; pt_units := u; pt_desc := d; pt_default := [] |}.
Proof.
  intros. unfold parse_param. rewrite parse_range_ok; auto.
  pose proof (parse_tail_plain [] d) as T. rewrite app_nil_l in T. rewrite T; auto.
Qed.

(** description, default=x          -> no range tokens (Range = [0,0]), no units *)
Theorem parse_param_default_only ws0 d ws df rest :
  forallb is_space ws0 = true -> stops is_space d -> forallb not_comma d = true ->
  stops (fun c => eqc c "["%char) (ws0 ++ d ++ [","%char]) ->
  forallb is_space ws = true -> F_shape df -> stops digit_or_point rest ->
  parse_param (ws0 ++ d ++ ","%char :: ws ++ default_kw ++ df ++ rest)
  = {| pt_min := []; pt_max := []; pt_units := []; pt_desc := d; pt_default := df |}.
Proof.
  intros H0 H1 H2 H3 H4 H5 H6. unfold parse_param. rewrite parse_range_not_bracket.
  - rewrite parse_tail_default; auto.
  - destruct ws0; simpl in *; auto. destruct d; simpl in *; auto.
Qed.

(** description (no comma)          -> nothing but the description *)
Theorem parse_param_plain ws0 d :
  forallb is_space ws0 = true -> stops is_space d -> forallb not_comma d = true ->
  stops (fun c => eqc c "["%char) (ws0 ++ d) ->
  parse_param (ws0 ++ d)
  = {| pt_min := []; pt_max := []; pt_units := []; pt_desc := d; pt_default := [] |}.
Proof.
  intros H0 H1 H2 H3. unfold parse_param. rewrite parse_range_not_bracket; auto.
  rewrite parse_tail_plain; auto.
Qed.

(** Missing pieces: an absent token is the double 0; an empty yaml value
    ("<nil>") gives default 0, range [0,0], empty units and description. *)
Lemma missing_pieces :
  parse_float [] = 0 /\ go_const 0 = 0
  /\ forall k, describe_param {| rp_key := k; rp_val := "<nil>"; tk_name := ""; tk_dims := []; tk_min := ""; tk_max := "";
                                 tk_default := ""; tk_units := ""; tk_desc := ""; tk_min_dec := None; tk_max_dec := None;
                                 tk_default_dec := None |}
       = {| pd_name := sa (fst (split_key (la k))); pd_default := 0; pd_desc := ""; pd_lo := 0; pd_hi := 0;
            pd_open := (false, false); pd_units := ""; pd_dims := map sa (snd (split_key (la k))) |}.
Proof. repeat split. Qed.

(** * Two consequences of the generator's expression that a reader of the spec
    syntax "[min,max]units description, default=x" may not expect (observations;
    both hold for every text, independently of today's specs) *)

Lemma span_fst_forallb p l : forallb p (fst (span p l)) = true.
Proof.
  induction l as [|c r IH]; simpl; auto.
  destruct (p c) eqn:E; simpl; auto. destruct (span p r); simpl in *. rewrite E; auto.
Qed.

(** The units group of the expression is [\s]+ : whatever the text, the units
    token consists of whitespace only, so a unit such as "mm" is never
    extracted; it stays at the front of the description. *)
Theorem units_are_whitespace : forall txt, forallb is_space (pt_units (parse_param txt)) = true.
Proof.
  intro txt. unfold parse_param.
  destruct (parse_range txt) as [[[[lo hi] u] rest]|] eqn:E.
  - destruct (parse_tail rest); simpl.
    unfold parse_range in E.
    destruct txt as [|xa ta]; [discriminate|].
    destruct (eqc xa "["%char); [|discriminate].
    destruct (lexF ta) as [[lo' [|xb tb]]|]; try discriminate.
    destruct (eqc xb ","%char); [|discriminate].
    destruct (lexF tb) as [[hi' [|xc tc]]|]; try discriminate.
    destruct (eqc xc "]"%char); [|discriminate].
    pose proof (span_fst_forallb is_space tc) as S.
    destruct (span is_space tc) as [u' td]. inversion E; subst. exact S.
  - destruct (parse_tail txt); reflexivity.
Qed.

(** The default group needs the comma: the text "default=1" on its own is a
    description, and Description().Default is 0. *)
Local Open Scope string_scope.
Example default_without_comma_is_description :
  parse_param (la "default=1")
  = {| pt_min := []; pt_max := []; pt_units := []; pt_desc := la "default=1"; pt_default := [] |}
  /\ parse_float [] = 0%Z
  /\ pt_default (parse_param (la "scale, default=1")) = la "1"
  /\ parse_float (la "1") = 4607182418800017408%Z.
Proof. vm_compute. repeat split. Qed.

(** Non-vacuity: one worked example through the whole of [describe]. *)
Example describe_example :
  describe {| sp_name := "M"; sp_file := "";
              sp_params := [ {| rp_key := "tbl[n]"; rp_val := "[0.5,4.0] Time parameter, default=1.5";
                                tk_name := ""; tk_dims := []; tk_min := ""; tk_max := ""; tk_default := ""; tk_units := "";
                                tk_desc := ""; tk_min_dec := None; tk_max_dec := None; tk_default_dec := None |};
                             {| rp_key := "n"; rp_val := "<nil>";
                                tk_name := ""; tk_dims := []; tk_min := ""; tk_max := ""; tk_default := ""; tk_units := "";
                                tk_desc := ""; tk_min_dec := None; tk_max_dec := None; tk_default_dec := None |} ];
              sp_inputs := ["rain"; "pet"]; sp_states := ["s"]; sp_outputs := ["q"]; tk_dimensions := [] |}
  = Some {| ds_params := [ {| pd_name := "tbl"; pd_default := 4609434218613702656 (* 1.5 *); pd_desc := "Time parameter";
                              pd_lo := 4602678819172646912 (* 0.5 *); pd_hi := 4616189618054758400 (* 4 *);
                              pd_open := (false, false); pd_units := " "; pd_dims := ["n"] |};
                           {| pd_name := "n"; pd_default := 0; pd_desc := ""; pd_lo := 0; pd_hi := 0;
                              pd_open := (false, false); pd_units := ""; pd_dims := [] |} ];
            ds_states := ["s"]; ds_inputs := ["rain"; "pet"]; ds_outputs := ["q"]; ds_dims := ["n"] |}.
Proof. vm_compute. reflexivity. Qed.

(** a string that would need escaping is outside the modelled fragment *)
Example describe_needs_plain_strings :
  describe {| sp_name := "M"; sp_file := "";
              sp_params := [ {| rp_key := "p"; rp_val := "say ""hi""";
                                tk_name := ""; tk_dims := []; tk_min := ""; tk_max := ""; tk_default := ""; tk_units := "";
                                tk_desc := ""; tk_min_dec := None; tk_max_dec := None; tk_default_dec := None |} ];
              sp_inputs := []; sp_states := []; sp_outputs := []; tk_dimensions := [] |} = None.
Proof. vm_compute. reflexivity. Qed.
Local Close Scope string_scope.

(** * Known values of the decimal -> binary64 rounding (bit patterns from IEEE-754
    tables / any correctly rounding strtod) *)
Local Open Scope string_scope.
Example parse_float_known_values :
  map (fun t => parse_float (la t))
      ["0.1";
       "0.5";
       "1500";
       "12.7";
       "-10";
       "5.0";
       ".5";
       "+3";
       "-0";
       "1.";
       "";
       "86400";
       "100000000";
       "0.001";
       "0.3";
       "179769313486231570000000000000000000000000000000000000000000000000000000000000000000000000000000000000000000000000000000000000000000000000000000000000000000000000000000000000000000000000000000000000000000000000000000000000000000000000000000000000000000000000000000000000000000000000000000000000000000000000000";
       "179769313486231580800000000000000000000000000000000000000000000000000000000000000000000000000000000000000000000000000000000000000000000000000000000000000000000000000000000000000000000000000000000000000000000000000000000000000000000000000000000000000000000000000000000000000000000000000000000000000000000000000";
       "9007199254740993";
       "9007199254740995";
       "0.000000000000000000000000000000000000000000000000000000000000000000000000000000000000000000000000000000000000000000000000000000000000000000000000000000000000000000000000000000000000000000000000000000000000000000000000000000000000000000000000000000000000000000000000000000000000000000000000000000000000000000000000000000000005";
       "-0.0";
       "123456789.125";
       "4.9e";
       "0.1e5"]%list
  = [4591870180066957722;
     4602678819172646912;
     4654311885213007872;
     4623339082463209062;
     13845191154443747328;
     4617315517961601024;
     4602678819172646912;
     4613937818241073152;
     9223372036854775808;
     0;
     0;
     4680673776000565248;
     4726483295884279808;
     4562254508917369340;
     4599075939470750515;
     9218868437227405311;
     0;
     4845873199050653696;
     4845873199050653698;
     1;
     9223372036854775808;
     4728057454355546112;
     0;
     0]%Z%list.
Proof. vm_compute. reflexivity. Qed.

(** * Soundness of the identity check *)
Theorem check_identities_sound specs ws ids :
  check_identities specs ws ids = true -> identities_agree specs ws ids.
Proof.
  unfold check_identities, identities_agree. rewrite !andb_true_iff.
  intros [[[[H1 H2] H3] H4] H5].
  apply strs_eqb_sound in H1. rewrite forallb_forall in H2, H4, H5.
  split; [exact H1|]. split; [apply nodupb_sound; exact H3|]. split.
  - intros s Hs.
    assert (Hin : In (sp_name s) (map fst ws)) by (rewrite <- H1; apply in_map; exact Hs).
    apply in_map_iff in Hin. destruct Hin as [[k w] [Hk Hkw]]. simpl in Hk. subst k.
    specialize (H2 _ Hkw). specialize (H4 _ Hkw). simpl in H2, H4.
    apply String.eqb_eq in H2.
    destruct (lookup_gen (sp_name s) ids) as [e|]; [|discriminate].
    exists w, e. unfold identity_ok_b in H4. rewrite !andb_true_iff in H4.
    destruct H4 as [[[[[[[[A1 A2] A3] A4] A5] A6] A7] A8] A9].
    apply String.eqb_eq in A1. apply String.eqb_eq in A3. apply String.eqb_eq in A4.
    apply String.eqb_eq in A5. apply String.eqb_eq in A7.
    repeat split; auto; try congruence.
    + intro E. rewrite E in A8. discriminate.
    + rewrite forallb_forall in A9. specialize (A9 _ H). unfold method_ok_b in A9. simpl in A9.
      apply andb_true_iff in A9. destruct A9 as [B1 _]. apply negb_true_iff in B1.
      intro E. subst f. discriminate.
    + rewrite forallb_forall in A9. specialize (A9 _ H). unfold method_ok_b in A9. simpl in A9.
      apply andb_true_iff in A9. destruct A9 as [_ B2]. apply negb_true_iff in B2.
      intro E. subst f. discriminate.
  - intros k e Hke. specialize (H5 _ Hke). simpl in H5. apply mem_str_In in H5.
    rewrite <- H1 in H5. apply in_map_iff in H5. destruct H5 as [s [E Hs]]. exists s; auto.
Qed.

(** * Data theorems: what was regenerated today *)
Theorem catalogue_matches_specs :
  catalogue_agrees Gen.Specs.all Gen.CatalogDump.catalog Gen.Specs.spec_count.
Proof. apply check_catalogue_sound. vm_compute. reflexivity. Qed.

(** every catalogue entry IS the generated wrapper of the spec of that name *)
Theorem catalogue_entries_are_generated_wrappers :
  identities_agree Gen.Specs.all Gen.Specs.wrappers Gen.CatalogDump.catalog_identity.
Proof. apply check_identities_sound. vm_compute. reflexivity. Qed.

(** the Go translator's tokenisation (Go regexp, strings.Split, exact decimals)
    equals the one computed here from the raw strings, for every parameter *)
Theorem translator_tokens_agree :
  forall s, In s Gen.Specs.all -> forall p, In p (sp_params s) -> tokens_agree p = true.
Proof.
  assert (H : forallb spec_tokens_agree Gen.Specs.all = true) by (vm_compute; reflexivity).
  rewrite forallb_forall in H. intros s Hs p Hp. specialize (H s Hs).
  unfold spec_tokens_agree in H. apply andb_true_iff in H. destruct H as [H _].
  rewrite forallb_forall in H. auto.
Qed.

(** * Data theorems: the synthetic corpus (edge cases of the parameter syntax run
    through the real ow-specgen, the Go compiler and a running binary) *)
Theorem synthetic_corpus_matches :
  catalogue_agrees Gen.SynthSpecs.all Gen.SynthCatalog.catalog Gen.SynthSpecs.spec_count.
Proof. apply check_catalogue_sound. vm_compute. reflexivity. Qed.

Theorem synthetic_entries_are_generated_wrappers :
  identities_agree Gen.SynthSpecs.all Gen.SynthSpecs.wrappers Gen.SynthCatalog.catalog_identity.
Proof. apply check_identities_sound. vm_compute. reflexivity. Qed.

(** the check is not vacuous: an entry whose dynamic type embeds the wrapper is rejected *)
Example identity_check_rejects_embedding_type :
  let w := {| wi_file := "models/functions/generated_Input.go"; wi_pkg := "m/models/functions";
              wi_name := "Input"; wi_type := "*functions.Input" |} in
  let ms := [("Description", "<autogenerated>"); ("Run", "models/functions/input.go")] in
  identity_ok_b w {| ei_type := "*functions.blockInput"; ei_ptr_to_struct := true; ei_pkg := "m/models/functions";
                     ei_name := "blockInput"; ei_second_type := "*functions.blockInput"; ei_fresh := true;
                     ei_factory := "m/models/functions.buildBlockInput"; ei_factory_file := "models/functions/input.go";
                     ei_methods := ms |} = false
  /\ identity_ok_b w {| ei_type := "*functions.Input"; ei_ptr_to_struct := true; ei_pkg := "m/models/functions";
                        ei_name := "Input"; ei_second_type := "*functions.Input"; ei_fresh := true;
                        ei_factory := "m/models/functions.buildInput"; ei_factory_file := "models/functions/generated_Input.go";
                        ei_methods := [("Description", "models/functions/generated_Input.go")] |} = true.
Proof. vm_compute. split; reflexivity. Qed.

Theorem synthetic_tokens_agree :
  forall s, In s Gen.SynthSpecs.all -> forall p, In p (sp_params s) -> tokens_agree p = true.
Proof.
  assert (H : forallb spec_tokens_agree Gen.SynthSpecs.all = true) by (vm_compute; reflexivity).
  rewrite forallb_forall in H. intros s Hs p Hp. specialize (H s Hs).
  unfold spec_tokens_agree in H. apply andb_true_iff in H. destruct H as [H _].
  rewrite forallb_forall in H. auto.
Qed.
