(** Model of how /repo/pre/ow-specgen (main.go [transform] + the template
    generated_struct.got) and the Go compiler turn one OW-SPEC model into the
    value that the generated [Description()] returns at run time.

    Division of labour (see also harness/cmd/specdump/main.go):
    - TRUSTED, done by the Go translator specdump: locating the comment blocks,
      tabs -> two spaces, yaml.v2, [fmt.Sprint] of the keys of inputs / states /
      outputs and of the key and the value of every parameter
      ([rp_key], [rp_val], [sp_inputs], [sp_states], [sp_outputs], [sp_name]).
    - MODELLED HERE, from those raw strings:
      * main.go's split of a parameter key  name[d1,d2]  ([split_key]:
        strings.Replace "[" -> "," once, strings.Replace "]" -> "" once,
        strings.Split ",");
      * the "<nil>" -> "" replacement ([value_text]);
      * the leftmost-first (Perl/RE2) match of
          (\[(F),(F)\](([\s]+))?)?\s{0,}([^,]{0,})(,\s{0,}default=(F))?   F = [+-]?([0-9]{0,}[.])?[0-9]+
        (written with {0,} for the Kleene star, which cannot be typed inside a Coq comment)
        at position 0 ([parse_param], hand-written matcher; the argument why it
        is that match is in the comments of [lexF] / [parse_range] / [parse_tail]);
      * strconv.ParseFloat of the min / max / default tokens with "error -> 0"
        ([parse_float]: correctly rounded binary64 by exact integer arithmetic,
        range error -> 0, missing token -> 0);
      * text/template printing the float64 with %v into Go source and the Go
        compiler reading it back as a constant ([go_const]: identity except
        that -0 becomes +0, because the source text "-0" is the integer
        constant 0);
      * the template emitting every string between double quotes without
        escaping ([lit_safe]: a string with a double quote, a backslash, a
        control byte or DEL is outside the modelled fragment -> [describe] = None);
      * the set of dimension names ([ds_dims], first-occurrence order here; Go
        ranges over a map, so any permutation can be generated — the comparison
        with the catalogue is up to permutation of this one list).
    The translator's own tokenisation (Go regexp) is compared with the one made
    here for every parameter ([tokens_agree]); [describe] never reads it.
    Definitions only; proofs are in SpecDescribeProofs.v. *)
From Coq Require Import ZArith String List Ascii Bool Permutation.
From OW Require Import Wrapper.SpecTypes.
Import ListNotations.
Local Open Scope Z_scope.

Definition chars := list ascii.
Definition la (s : string) : chars := list_ascii_of_string s.
Definition sa (l : chars) : string := string_of_list_ascii l.

(** * Character classes *)
Definition code (c : ascii) : Z := Z.of_N (N_of_ascii c).
Definition is_digit (c : ascii) : bool := (48 <=? code c) && (code c <=? 57).
(** RE2 [\s] = [\t\n\f\r ] *)
Definition is_space (c : ascii) : bool :=
  let n := code c in (n =? 32) || (n =? 9) || (n =? 10) || (n =? 12) || (n =? 13).
Definition is_sign (c : ascii) : bool := (code c =? 43) || (code c =? 45).
Definition eqc (a b : ascii) : bool := Ascii.eqb a b.
Definition not_comma (c : ascii) : bool := negb (eqc c ","%char).

(** longest prefix whose characters satisfy [p], and the rest *)
Fixpoint span (p : ascii -> bool) (l : chars) : chars * chars :=
  match l with
  | [] => ([], [])
  | c :: r => if p c then let (a, b) := span p r in (c :: a, b) else ([], l)
  end.

Fixpoint strip_prefix (pre l : chars) : option chars :=
  match pre with
  | [] => Some l
  | p :: pre' => match l with
                 | c :: l' => if eqc p c then strip_prefix pre' l' else None
                 | [] => None
                 end
  end.

(** * The float sub-expression  F = [+-]?([0-9]{0,}[.])?[0-9]+
    [lexF l] is the highest-priority (leftmost-first, greedy) match of F at the
    start of [l], with the rest.  Priority order of the regexp: take the sign
    if there is one; take the group "digits* ." with as many digits as
    possible; then one or more digits, as many as possible.  If the group was
    taken but no digit follows the point, the engine backtracks: giving back
    digits inside the group cannot help (the point must follow), so the group
    is skipped and [0-9]+ takes the maximal digit run; dropping the sign cannot
    help either (a sign character starts neither alternative).
    Because the alphabet of F is [+-.0-9], "some match of F followed by the
    character c" with c outside that alphabet is the same as "[lexF] returns a
    rest starting with c" (both force the token to be the maximal run). *)
Definition lex_body (sg l1 : chars) : option (chars * chars) :=
  let '(ds1, l2) := span is_digit l1 in
  let no_point := match ds1 with [] => None | _ :: _ => Some (sg ++ ds1, l2) end in
  match l2 with
  | c :: l3 =>
      if eqc c "."%char then
        let '(ds2, l4) := span is_digit l3 in
        match ds2 with
        | _ :: _ => Some (sg ++ ds1 ++ c :: ds2, l4)
        | [] => no_point
        end
      else no_point
  | [] => no_point
  end.

Definition lexF (l : chars) : option (chars * chars) :=
  match l with
  | c :: r => if is_sign c then lex_body [c] r else lex_body [] l
  | [] => None
  end.

(** * The parameter text *)
Record ptoks := { pt_min : chars; pt_max : chars; pt_units : chars; pt_desc : chars; pt_default : chars }.

(** Group 1  \[(F),(F)\](([\s]+))?  at position 0.  It is optional and greedy, and
    whatever it consumes the remainder of the expression can always match
    (everything there is optional), so it takes part in the match iff it can
    match at all.  Units = the maximal whitespace run after "]" ("" if none). *)
Definition parse_range (l : chars) : option (chars * chars * chars * chars) :=
  match l with
  | c0 :: l1 =>
      if eqc c0 "["%char then
        match lexF l1 with
        | Some (lo, c1 :: l2) =>
            if eqc c1 ","%char then
              match lexF l2 with
              | Some (hi, c2 :: l3) =>
                  if eqc c2 "]"%char then
                    let '(u, l4) := span is_space l3 in Some (lo, hi, u, l4)
                  else None
              | _ => None
              end
            else None
        | _ => None
        end
      else None
  | [] => None
  end.

Definition default_kw : chars := la "default=".

(** \s{0,}([^,]{0,})(,\s{0,}default=(F))?  : whitespace, then the description up to the
    first comma (greedy; a shorter description cannot be followed by the
    comma that the last group needs), then the optional default. *)
Definition parse_tail (l : chars) : chars * chars :=
  let '(_, l1) := span is_space l in
  let '(d, l2) := span not_comma l1 in
  match l2 with
  | _ :: l3 =>   (* the comma *)
      let '(_, l4) := span is_space l3 in
      match strip_prefix default_kw l4 with
      | Some l5 => match lexF l5 with
                   | Some (tok, _) => (d, tok)
                   | None => (d, [])
                   end
      | None => (d, [])
      end
  | [] => (d, [])
  end.

Definition parse_param (txt : chars) : ptoks :=
  match parse_range txt with
  | Some (lo, hi, u, rest) =>
      let '(d, df) := parse_tail rest in
      {| pt_min := lo; pt_max := hi; pt_units := u; pt_desc := d; pt_default := df |}
  | None =>
      let '(d, df) := parse_tail txt in
      {| pt_min := []; pt_max := []; pt_units := []; pt_desc := d; pt_default := df |}
  end.

(** main.go:  txt := fmt.Sprint(v.Value); if txt == `<nil>` { txt = "" } *)
Definition value_text (raw : string) : chars :=
  if String.eqb raw "<nil>" then [] else la raw.

(** * The parameter key  name[d1,d2,...] *)
Fixpoint replace_first (a b : ascii) (l : chars) : chars :=
  match l with
  | [] => []
  | c :: r => if eqc c a then b :: r else c :: replace_first a b r
  end.

Fixpoint remove_first (a : ascii) (l : chars) : chars :=
  match l with
  | [] => []
  | c :: r => if eqc c a then r else c :: remove_first a r
  end.

(** strings.Split(s, sep) for a one-character separator: always at least one piece *)
Fixpoint split_on (sep : ascii) (l : chars) : list chars :=
  match l with
  | [] => [[]]
  | c :: r =>
      if eqc c sep then [] :: split_on sep r
      else match split_on sep r with
           | h :: t => (c :: h) :: t
           | [] => [[c]]
           end
  end.

Definition split_key (k : chars) : chars * list chars :=
  if existsb (eqc "["%char) k then
    match split_on ","%char (remove_first "]"%char (replace_first "["%char ","%char k)) with
    | n :: ds => (n, ds)
    | [] => (k, [])
    end
  else (k, []).

(** * Numbers *)
Definition digit_val (c : ascii) : Z := code c - 48.
Definition digits_val (l : chars) : Z := fold_left (fun a c => a * 10 + digit_val c) l 0.

(** exact value of a token of the language of F; None for anything else (in
    particular for "", the unmatched group) *)
Definition dec_of_token (t : chars) : option dec :=
  let '(neg, body) := match t with
                      | c :: r => if is_sign c then (eqc c "-"%char, r) else (false, t)
                      | [] => (false, [])
                      end in
  let '(ip, rest) := span is_digit body in
  match rest with
  | [] => match ip with
          | [] => None
          | _ :: _ => Some (mkdec neg (digits_val ip) 0)
          end
  | c :: fp =>
      if eqc c "."%char && forallb is_digit fp && negb (Nat.eqb (length fp) 0) then
        Some (mkdec neg (digits_val (ip ++ fp)) (Z.of_nat (length fp)))
      else None
  end.

Definition scale2 (num den e : Z) : Z * Z :=
  if 0 <=? e then (num, den * 2 ^ e) else (num * 2 ^ (- e), den).

(** IEEE-754 binary64 bit pattern of the double nearest (ties to even) to
    num/den, for num, den > 0.  None when the rounded value exceeds the largest
    finite double (strconv.ParseFloat then returns ±Inf and a range error).
    e is chosen so that floor(num/den * 2^-e) has exactly 53 bits, but never
    below the subnormal exponent -1074. *)
Definition b64_round (num den : Z) : option Z :=
  let e0 := Z.log2 num - Z.log2 den - 52 in
  let '(n0, d0) := scale2 num den e0 in
  let e1 := if n0 / d0 <? 2 ^ 52 then e0 - 1 else e0 in
  let e := Z.max e1 (-1074) in
  let '(n, d) := scale2 num den e in
  let q := n / d in
  let r := n mod d in
  let m := if (d <? 2 * r) || ((2 * r =? d) && Z.odd q) then q + 1 else q in
  let '(m', e') := if m =? 2 ^ 53 then (2 ^ 52, e + 1) else (m, e) in
  if 1023 <? e' + 52 then None
  else Some (if m' <? 2 ^ 52 then m' else (e' + 1075) * 2 ^ 52 + (m' - 2 ^ 52)).

Definition sign_bit (neg : bool) : Z := if neg then 2 ^ 63 else 0.

Definition b64_of_dec (d : dec) : option Z :=
  if d_mant d =? 0 then Some (sign_bit (d_neg d))
  else match b64_round (d_mant d) (10 ^ d_scale d) with
       | Some b => Some (b + sign_bit (d_neg d))
       | None => None
       end.

(** main.go:  v, err := strconv.ParseFloat(tok, 64); if err != nil { v = 0.0 } *)
Definition parse_float (tok : chars) : Z :=
  match dec_of_token tok with
  | None => 0                       (* syntax error, in particular the empty token *)
  | Some d => match b64_of_dec d with
              | Some b => b
              | None => 0           (* range error *)
              end
  end.

(** {{$v.Default}} prints the float64 with %v (shortest decimal that reads back
    to the same double); the Go compiler converts that constant to float64.
    The only double that does not survive is -0: its text "-0" is an integer
    constant expression with value 0. *)
Definition go_const (bits : Z) : Z := if bits =? 2 ^ 63 then 0 else bits.

(** * Description *)
Definition param_key (p : spec_param) : chars * list chars := split_key (la (rp_key p)).
Definition param_name (p : spec_param) : string := sa (fst (param_key p)).
Definition param_dims (p : spec_param) : list string := map sa (snd (param_key p)).
Definition param_toks (p : spec_param) : ptoks := parse_param (value_text (rp_val p)).

Definition describe_param (p : spec_param) : param_desc :=
  let t := param_toks p in
  {| pd_name := param_name p;
     pd_default := go_const (parse_float (pt_default t));
     pd_desc := sa (pt_desc t);
     pd_lo := go_const (parse_float (pt_min t));
     pd_hi := go_const (parse_float (pt_max t));
     pd_open := (false, false);
     pd_units := sa (pt_units t);
     pd_dims := param_dims p |}.

Fixpoint mem_str (x : string) (l : list string) : bool :=
  match l with
  | [] => false
  | y :: r => String.eqb x y || mem_str x r
  end.

(** distinct elements, first occurrence order *)
Fixpoint dedup_acc (seen l : list string) : list string :=
  match l with
  | [] => []
  | x :: r => if mem_str x seen then dedup_acc seen r else x :: dedup_acc (x :: seen) r
  end.
Definition dedup (l : list string) : list string := dedup_acc [] l.

Definition describe_raw (s : ow_spec) : description :=
  let ps := map describe_param (sp_params s) in
  {| ds_params := ps;
     ds_states := sp_states s;
     ds_inputs := sp_inputs s;
     ds_outputs := sp_outputs s;
     ds_dims := dedup (concat (map pd_dims ps)) |}.

(** a string that the template can put between double quotes unchanged *)
Definition lit_char_ok (c : ascii) : bool :=
  let n := code c in (32 <=? n) && negb (n =? 34) && negb (n =? 92) && negb (n =? 127).
Definition lit_safe (s : string) : bool := forallb lit_char_ok (la s).

Definition param_lit_safe (p : param_desc) : bool :=
  lit_safe (pd_name p) && lit_safe (pd_desc p) && lit_safe (pd_units p) && forallb lit_safe (pd_dims p).

Definition desc_lit_safe (name : string) (d : description) : bool :=
  lit_safe name && forallb param_lit_safe (ds_params d) && forallb lit_safe (ds_states d)
  && forallb lit_safe (ds_inputs d) && forallb lit_safe (ds_outputs d) && forallb lit_safe (ds_dims d).

(** What Description() of the generated wrapper returns; None = the spec is
    outside the modelled fragment (a string would need escaping). *)
Definition describe (s : ow_spec) : option description :=
  let d := describe_raw s in
  if desc_lit_safe (sp_name s) d then Some d else None.

(** * Boolean comparison (for the checks by computation) *)
Fixpoint list_eqb {A} (eqb : A -> A -> bool) (l l' : list A) : bool :=
  match l, l' with
  | [], [] => true
  | x :: r, y :: r' => eqb x y && list_eqb eqb r r'
  | _, _ => false
  end.

Definition strs_eqb := list_eqb String.eqb.

Definition pd_eqb (a b : param_desc) : bool :=
  String.eqb (pd_name a) (pd_name b) && (pd_default a =? pd_default b) && String.eqb (pd_desc a) (pd_desc b)
  && (pd_lo a =? pd_lo b) && (pd_hi a =? pd_hi b)
  && Bool.eqb (fst (pd_open a)) (fst (pd_open b)) && Bool.eqb (snd (pd_open a)) (snd (pd_open b))
  && String.eqb (pd_units a) (pd_units b) && strs_eqb (pd_dims a) (pd_dims b).

Fixpoint nodupb (l : list string) : bool :=
  match l with
  | [] => true
  | x :: r => negb (mem_str x r) && nodupb r
  end.

Definition inclb (l l' : list string) : bool := forallb (fun x => mem_str x l') l.

(** same elements, no repetition on either side *)
Definition perm_b (l l' : list string) : bool := nodupb l && nodupb l' && inclb l l' && inclb l' l.

(** equality of descriptions, the dimension-name list up to permutation *)
Definition desc_same_b (d d' : description) : bool :=
  list_eqb pd_eqb (ds_params d) (ds_params d') && strs_eqb (ds_states d) (ds_states d')
  && strs_eqb (ds_inputs d) (ds_inputs d') && strs_eqb (ds_outputs d) (ds_outputs d')
  && perm_b (ds_dims d) (ds_dims d').

Fixpoint lookup (k : string) (cat : list (string * description)) : option description :=
  match cat with
  | [] => None
  | (k', d) :: r => if String.eqb k k' then Some d else lookup k r
  end.

Definition spec_ok_b (cat : list (string * description)) (s : ow_spec) : bool :=
  match describe s, lookup (sp_name s) cat with
  | Some d, Some d' => desc_same_b d d'
  | _, _ => false
  end.

(** the whole comparison catalogue <-> specs, as one boolean *)
Definition check_catalogue (specs : list ow_spec) (cat : list (string * description)) (n : Z) : bool :=
  (Z.of_nat (length specs) =? n) && (Z.of_nat (length cat) =? n)
  && nodupb (map sp_name specs) && nodupb (map fst cat)
  && forallb (spec_ok_b cat) specs
  && forallb (fun kd => mem_str (fst kd) (map sp_name specs)) cat.

(** * Cross-check of the translator's tokenisation against the one made here *)
Definition dec_eqb (a b : dec) : bool :=
  Bool.eqb (d_neg a) (d_neg b) && (d_mant a =? d_mant b) && (d_scale a =? d_scale b).
Definition odec_eqb (a b : option dec) : bool :=
  match a, b with
  | Some x, Some y => dec_eqb x y
  | None, None => true
  | _, _ => false
  end.

Definition tokens_agree (p : spec_param) : bool :=
  let t := param_toks p in
  String.eqb (param_name p) (tk_name p) && strs_eqb (param_dims p) (tk_dims p)
  && String.eqb (sa (pt_min t)) (tk_min p) && String.eqb (sa (pt_max t)) (tk_max p)
  && String.eqb (sa (pt_default t)) (tk_default p)
  && String.eqb (sa (pt_units t)) (tk_units p) && String.eqb (sa (pt_desc t)) (tk_desc p)
  && odec_eqb (dec_of_token (pt_min t)) (tk_min_dec p)
  && odec_eqb (dec_of_token (pt_max t)) (tk_max_dec p)
  && odec_eqb (dec_of_token (pt_default t)) (tk_default_dec p).

Definition spec_tokens_agree (s : ow_spec) : bool :=
  forallb tokens_agree (sp_params s)
  && strs_eqb (dedup (concat (map param_dims (sp_params s)))) (tk_dimensions s).

(** * The statements that the boolean checks decide *)
Definition desc_same (d d' : description) : Prop :=
  ds_params d = ds_params d' /\ ds_states d = ds_states d' /\ ds_inputs d = ds_inputs d'
  /\ ds_outputs d = ds_outputs d' /\ Permutation (ds_dims d) (ds_dims d').

Definition catalogue_agrees (specs : list ow_spec) (cat : list (string * description)) (n : Z) : Prop :=
  Z.of_nat (length specs) = n /\ Z.of_nat (length cat) = n
  /\ NoDup (map sp_name specs) /\ NoDup (map fst cat)
  /\ (forall s, In s specs ->
        exists d d', describe s = Some d /\ lookup (sp_name s) cat = Some d' /\ desc_same d d')
  /\ (forall k d', In (k, d') cat -> exists s, In s specs /\ sp_name s = k).

(** * Identity of the catalogue entries: WHAT is registered under each spec name.
    The Description comparison above cannot see a hand-written registration
    that replaces the generated one by a type embedding the wrapper (same
    Description(), different Run).  So the running binary also reports, for
    every key, the dynamic type of what the registered factory returns, the
    source file of the registered function and of every interface method
    ([entry_id], from reflect / runtime.FuncForPC), and the translator reports
    where ow-specgen puts the wrapper of each spec ([wrapper_id]). *)
Fixpoint lookup_gen {A} (k : string) (l : list (string * A)) : option A :=
  match l with
  | [] => None
  | (k', a) :: r => if String.eqb k k' then Some a else lookup_gen k r
  end.

Definition autogenerated : string := "<autogenerated>"%string.

(** the method is code declared for the type itself: not absent, not promoted from an embedded type *)
Definition method_ok_b (mf : string * string) : bool :=
  negb (String.eqb (snd mf) EmptyString) && negb (String.eqb (snd mf) autogenerated).

Definition identity_ok_b (w : wrapper_id) (e : entry_id) : bool :=
  String.eqb (ei_type e) (wi_type w) && ei_ptr_to_struct e
  && String.eqb (ei_pkg e) (wi_pkg w) && String.eqb (ei_name e) (wi_name w)
  && String.eqb (ei_second_type e) (wi_type w) && ei_fresh e
  && String.eqb (ei_factory_file e) (wi_file w)
  && negb (Nat.eqb (length (ei_methods e)) 0) && forallb method_ok_b (ei_methods e).

Definition check_identities (specs : list ow_spec) (ws : list (string * wrapper_id))
           (ids : list (string * entry_id)) : bool :=
  strs_eqb (map sp_name specs) (map fst ws)
  && forallb (fun kw => String.eqb (fst kw) (wi_name (snd kw))) ws
  && nodupb (map fst ids)
  && forallb (fun kw => match lookup_gen (fst kw) ids with
                        | Some e => identity_ok_b (snd kw) e
                        | None => false
                        end) ws
  && forallb (fun ke => mem_str (fst ke) (map fst ws)) ids.

Definition identities_agree (specs : list ow_spec) (ws : list (string * wrapper_id))
           (ids : list (string * entry_id)) : Prop :=
  map sp_name specs = map fst ws /\ NoDup (map fst ids)
  /\ (forall s, In s specs ->
        exists w e, In (sp_name s, w) ws /\ wi_name w = sp_name s
          /\ lookup_gen (sp_name s) ids = Some e
          /\ ei_type e = wi_type w /\ ei_ptr_to_struct e = true
          /\ ei_pkg e = wi_pkg w /\ ei_name e = sp_name s
          /\ ei_second_type e = ei_type e /\ ei_fresh e = true
          /\ ei_factory_file e = wi_file w
          /\ ei_methods e <> []
          /\ (forall m f, In (m, f) (ei_methods e) -> f <> EmptyString /\ f <> autogenerated))
  /\ (forall k e, In (k, e) ids -> exists s, In s specs /\ sp_name s = k).
