(** Concrete instances (non-vacuity) for C04 / C05 and the check of the
    generated spec records. *)
From Coq Require Import List Arith ZArith Lia Bool String.
From OW Require Import Base.Interleave Wrapper.Spec Wrapper.Run Wrapper.Views Wrapper.CellFacts
  Wrapper.RunProofs Wrapper.Footprint Wrapper.ParamBounds Wrapper.FindDims Gen.WrapperSpecs.
Import ListNotations.
Local Open Scope nat_scope.

Lemma C04_specs_check :
  wrapper_specs_unsupported = [] /\ forallb spec_supported wrapper_specs = true /\ List.length wrapper_specs = 41.
Proof. repeat split; vm_compute; reflexivity. Qed.

Lemma C04_specs_dim_names_nodup : Forall (fun s => NoDup (dim_names (s_params s))) wrapper_specs.
Proof. repeat constructor; simpl; intuition (try discriminate). Qed.

(** A one-input, one-output, one-state model with one scalar parameter:
    out[t] = in[t] + p, state' = state + sum(in). *)
Definition demo_spec : spec :=
  {| s_name := "demo"; n_in := 1; n_out := 1; s_states := Fixed 1; s_params := [Scalar]; out_as_params := true |}.
Definition demo_K (cp : cellparams Z) (st : list Z) (ins oo : list (list Z)) : option (list (list Z) * list Z) :=
  match cp, st, ins with
  | [[p]], [s], [xs] => Some ([map (fun x => (x + p)%Z) xs], [fold_left Z.add xs s])
  | _, _, _ => None
  end.
(** 3 cells, 2 parameter sets, 2 input blocks, 2 steps; outputs padded to [4;2;3] *)
Definition demo_m0 : mem addr Z := fun a =>
  match a with
  | (BP, o) => (10 * Z.of_nat (o + 1))%Z
  | (BS, o) => (100 + Z.of_nat o)%Z
  | (BI, o) => Z.of_nat (o + 1)
  | (BO, _) => 0%Z
  end.
Definition demo_sh := mk_shapes 2 1 2 3 1 4 2 3 1 2.
Definition demo_pviews := pviews_from [] 2 0 (s_params demo_spec).
Definition demo_outs (i : nat) : list (list Z) :=
  match i with 0 => [[11; 12]]%Z | 1 => [[23; 24]]%Z | _ => [[11; 12]]%Z end.
Definition demo_st (i : nat) : list Z :=
  match i with 0 => [103]%Z | 1 => [108]%Z | _ => [105]%Z end.
Definition demo_probe (m : mem addr Z) : list Z :=
  map m [(BO, 0); (BO, 1); (BO, 2); (BO, 3); (BO, 6); (BO, 7); (BO, 12); (BO, 13); (BO, 18);
         (BS, 0); (BS, 1); (BS, 2); (BI, 0); (BP, 1)].

Definition C04_demo_statement : Prop :=
  wf_layout demo_spec 2 1 2 3 1 4 2 3 2 /\
  all_ok Z (fun z => z) demo_K demo_spec 2 1 2 3 1 2 3 1 2 [] demo_m0 demo_outs demo_st /\
  match run Z (fun z => z) demo_K demo_spec demo_sh demo_pviews demo_m0 with
  | Some m' => demo_probe m' = [11; 12; 0; 0; 23; 24; 11; 12; 0; 103; 108; 105; 1; 20]%Z
  | None => False
  end.
Lemma C04_demo : C04_demo_statement.
Proof.
  split; [|split].
  - constructor; cbv; lia.
  - intros i Hi. destruct i as [|[|[|i]]]; try lia;
      (split; [vm_compute; repeat constructor
              | split; [vm_compute; reflexivity | split; [vm_compute; repeat constructor | reflexivity]]]).
  - vm_compute. reflexivity.
Qed.

(** C05 non-vacuity: the three goroutines of the demo run under a genuinely
    interleaved schedule (round-robin over the threads) finish and leave the
    same memory as the sequential run. *)
Definition demo_threads := cell_threads Z (fun z => z) demo_K demo_spec 2 1 2 3 1 4 2 3 1 2 [].
Definition demo_round_robin : list nat := List.concat (repeat [0; 1; 2] 12).
Definition C05_demo_statement : Prop :=
  K_state_len Z demo_K /\
  let '(m', ts', tr) := run_sched addr_eq_dec demo_round_robin demo_m0 demo_threads in
  forallb (fun p => terminal p) ts' = true /\
  demo_probe m' = [11; 12; 0; 0; 23; 24; 11; 12; 0; 103; 108; 105; 1; 20]%Z /\
  List.length tr = 27 /\
  (* the first six scheduled accesses come from three different goroutines *)
  map fst (firstn 6 tr) = [0; 1; 2; 0; 1; 2].
Lemma C05_demo : C05_demo_statement.
Proof.
  split.
  - intros cp st ins oo outs st' H. unfold demo_K in H.
    destruct cp as [|[|p [|]] [|]]; try discriminate.
    destruct st as [|s [|]]; try discriminate.
    destruct ins as [|xs [|]]; try discriminate. inversion H; subst. simpl. lia.
  - vm_compute. repeat split; reflexivity.
Qed.
