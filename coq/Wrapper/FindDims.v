(** FindDimensions: the extents it returns cover every cell's own extents, so
    that with maxd := FindDimensions(P) every table slice of every cell stays
    inside the table's own block ([own_dims_ok]), which (ParamBounds) puts all
    parameter reads inside the matrix.  Needs a NaN-free parameter matrix:
    stated as the two order hypotheses on Go's [>] and [int(.)]. *)
From Coq Require Import List Arith ZArith Lia Bool.
From Coq Require String.
From OW Require Import Base.Interleave Wrapper.Spec Wrapper.Run Wrapper.Views Wrapper.CellFacts
  Wrapper.RunProofs Wrapper.ParamBounds.
Import ListNotations.
Local Open Scope nat_scope.

Fixpoint dim_names (ps : list pspec) : list String.string :=
  match ps with
  | [] => []
  | DimOf d :: r => d :: dim_names r
  | _ :: r => dim_names r
  end.

Section FindDims.
  Variable V : Type.
  Variable toZ : V -> Z.
  Variable gtb : V -> V -> bool.
  (** Go's [v > res] and [int(v)] on NaN-free data *)
  Hypothesis gtb_true : forall a b, gtb a b = true -> (toZ b <= toZ a)%Z.
  Hypothesis gtb_false : forall a b, gtb a b = false -> (toZ a <= toZ b)%Z.
  Variable sp : spec.
  Variables nIn nI T N S oN oK oT nP nSets : nat.
  Notation sh := (mk_shapes nIn nI T N S oN oK oT nP nSets).
  Variable m : mem addr V.

  Lemma maximum_ge : forall vals first v, In v vals -> (toZ v <= toZ (maximum V gtb first vals))%Z.
  Proof.
    unfold maximum.
    assert (G : forall vals res, (toZ res <= toZ (fold_left (fun res v => if gtb v res then v else res) vals res))%Z).
    { induction vals as [|x vals IH]; intros res; simpl; [lia|].
      destruct (gtb x res) eqn:E.
      - apply gtb_true in E. specialize (IH x). lia.
      - apply IH. }
    induction vals as [|x vals IH]; intros first v Hin; simpl in *; [contradiction|].
    destruct Hin as [<-|Hin].
    - destruct (gtb x first) eqn:E.
      + apply G.
      + apply gtb_false in E. specialize (G vals first). lia.
    - apply IH. exact Hin.
  Qed.

  Lemma sequence_map_pget : forall offs vals,
    sequence (map (pget V sh m) offs) = Some vals -> vals = map (fun o => m (BP, o)) offs.
  Proof.
    induction offs as [|o offs IH]; intros vals H; simpl in *.
    - inversion H; reflexivity.
    - unfold pget at 1 in H. destruct (o <? bsize sh BP); [|discriminate].
      destruct (sequence (map (pget V sh m) offs)) as [vs|] eqn:E; [|discriminate].
      inversion H; subst. f_equal. apply IH. reflexivity.
  Qed.

  Lemma dlookup_cons_other (e : denv) d v d' : d <> d' -> dlookup ((d, v) :: e) d' = dlookup e d'.
  Proof. intros H. simpl. destruct (String.string_dec d d'); congruence. Qed.

  (** FindDimensions only adds entries for the dimension parameters it meets *)
  Lemma find_dims_stable : forall ps row envF maxd seen,
    find_dims_from V toZ gtb sh m nSets row envF ps = Some maxd ->
    (forall d, In d (dim_names ps) -> ~ In d seen) ->
    forall d, In d seen -> dlookup maxd d = dlookup envF d.
  Proof.
    induction ps as [|p ps IH]; intros row envF maxd seen H Hd d Hin; simpl in H.
    - inversion H; reflexivity.
    - destruct (pget V sh m _) as [first|]; [|discriminate].
      destruct (sequence _) as [vals|]; [|discriminate].
      destruct p as [|d0|ds]; simpl in Hd.
      + eapply IH; eauto.
      + rewrite (IH _ _ _ seen H) by (auto; intros; apply Hd; auto).
        apply dlookup_cons_other. intro; subst. apply (Hd d); auto.
      + eapply IH; eauto.
  Qed.

  Lemma declared_in seen ds :
    forallb (fun d => existsb (fun s => if String.string_dec s d then true else false) seen) ds = true ->
    forall d, In d ds -> In d seen.
  Proof.
    intros H d Hd. rewrite forallb_forall in H. specialize (H d Hd). apply existsb_exists in H.
    destruct H as (s & Hs & E). destruct (String.string_dec s d); [subst; auto | discriminate].
  Qed.

  Variable c : nat.
  Hypothesis Hc : c < nSets.
  Let pcol := fun r => m (BP, r * nSets + c).

  Lemma find_dims_covers : forall ps row envF envC seen maxd,
    dims_declared seen ps = true ->
    NoDup (dim_names ps) -> (forall d, In d (dim_names ps) -> ~ In d seen) ->
    find_dims_from V toZ gtb sh m nSets row envF ps = Some maxd ->
    (forall d, In d seen -> dlookup envC d <= dlookup envF d) ->
    own_dims_ok V toZ maxd pcol row envC ps.
  Proof.
    induction ps as [|p ps IH]; intros row envF envC seen maxd Hdecl ND Hfresh H Hle; simpl; auto.
    simpl in H.
    destruct (pget V sh m _) as [first|] eqn:Ef; [|discriminate].
    destruct (sequence _) as [vals|] eqn:Es; [|discriminate].
    destruct p as [|d|ds]; simpl in Hdecl, ND, Hfresh.
    - eapply IH; eauto.
    - inversion ND as [|x y Hnin ND']; subst.
      eapply (IH _ _ _ (d :: seen) maxd Hdecl ND'); [ | exact H | ].
      + intros d' Hd' [->|Hs]; [auto | apply (Hfresh d'); auto].
      + intros d' [<-|Hs].
        * simpl. destruct (String.string_dec d d); [|congruence].
          (* the cell's value is one of the scanned values *)
          apply sequence_map_pget in Es. subst vals.
          assert (Hin : In (pcol row) (map (fun o => m (BP, o))
                           (voffsets (vslice (whole (dP sh)) [row; 0] [block_size envF (DimOf d); nSets] None)))).
          { apply in_map_iff. exists (row * nSets + c). split; [reflexivity|].
            replace (voffsets (vslice (whole (dP sh)) [row; 0] [block_size envF (DimOf d); nSets] None))
              with (seq (row * nSets) nSets).
            - apply in_seq. lia.
            - symmetry. unfold vslice. simpl.
              pose proof (voffsets_block (0 + (row * (nSets * 1) + (0 * 1 + 0))) [1; nSets]) as Hb.
              simpl in Hb. rewrite Hb. f_equal; lia. }
          pose proof (maximum_ge _ first _ Hin) as Hm. change (dP sh) with [nP; nSets] in Hm. unfold to_dim. lia.
        * rewrite dlookup_cons_other by (intro; subst; apply (Hfresh d'); auto).
          rewrite dlookup_cons_other by (intro; subst; apply (Hfresh d'); auto).
          apply Hle. exact Hs.
    - apply andb_true_iff in Hdecl. destruct Hdecl as [Hds Hdecl].
      pose proof (declared_in _ _ Hds) as Hin.
      assert (Estab : forall d, In d ds -> dlookup maxd d = dlookup envF d).
      { intros d Hd. eapply find_dims_stable; eauto. }
      assert (Emap : map (dlookup maxd) ds = map (dlookup envF) ds) by (apply map_ext_in; auto).
      split.
      + rewrite Emap. clear -Hin Hle. induction ds as [|d ds IHd]; simpl; constructor.
        * apply Hle. apply Hin. simpl; auto.
        * apply IHd. intros d' Hd'. apply Hin. simpl; auto.
      + simpl block_size. rewrite Emap. eapply IH; eauto.
  Qed.
End FindDims.

(** With the extents FindDimensions returns, every cell's parameter reads lie
    inside a matrix of [total_rows] rows. *)
Theorem find_dimensions_covers : forall (V : Type) (toZ : V -> Z) (gtb : V -> V -> bool),
  (forall a b, gtb a b = true -> (toZ b <= toZ a)%Z) ->
  (forall a b, gtb a b = false -> (toZ a <= toZ b)%Z) ->
  forall (sp : spec) nIn nI T N S oN oK oT nP nSets (m : mem addr V) maxd i,
  1 <= nSets -> dims_declared [] (s_params sp) = true -> NoDup (dim_names (s_params sp)) ->
  find_dims_from V toZ gtb (mk_shapes nIn nI T N S oN oK oT nP nSets) m nSets 0 [] (s_params sp) = Some maxd ->
  total_rows maxd (s_params sp) <= nP ->
  params_in_bounds V toZ sp nP nSets maxd m i.
Proof.
  intros V toZ gtb G1 G2 sp nIn nI T N S oN oK oT nP nSets m maxd i Hn Hd ND Hf Ht.
  apply params_in_bounds_intro; auto.
  assert (Hc : i mod nSets < nSets) by (apply Nat.mod_upper_bound; lia).
  eapply (find_dims_covers V toZ gtb G1 G2 nIn nI T N S oN oK oT nP nSets m (i mod nSets) Hc
                           (s_params sp) 0 [] [] [] maxd); eauto.
Qed.
