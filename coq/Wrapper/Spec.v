(** What the ow-specgen template (pre/ow-specgen/generated_struct.got)
    distinguishes about a model when it generates the vectorised wrapper.
    Definitions only.  [coq/Gen/WrapperSpecs.v] (regenerated from the OW-SPEC
    blocks of /repo/models on every check) instantiates [spec] for the 41
    catalogued models. *)
From Coq Require Import List String Arith.
Import ListNotations.

(** A parameter of the OW-SPEC block.
    - [Scalar]: one row of the parameter matrix;
    - [DimOf d]: one row, and its (truncated) value is the cell's own extent of
      dimension [d] (the template's [IsDimension]: the parameter's name is used
      as a dimension by some table parameter);
    - [Table ds]: a block of [lprod (max extents of ds)] rows, declared
      [name[d1,..,dk]] in the OW-SPEC block. *)
Inductive pspec := Scalar | DimOf (name : string) | Table (dims : list string).

(** State handling of the generated Run:
    - [Fixed k]: [k] named states, zero-initialised ([init: zero: true]), read
      with [Get1(j)] and written back with [Set1(j, .)] (template flag
      [GenerateExtractStates]);
    - [Custom]: hand-written [init] / [extractstates] / [packfunc] functions
      (GR4J, Lag): the whole state row is handed to the extract function and
      the packed states are written back with [ApplySlice]. *)
Inductive sspec := Fixed (k : nat) | Custom.

Record spec := {
  s_name : string;
  n_in : nat;                 (* number of inputs  *)
  n_out : nat;                (* number of outputs *)
  s_states : sspec;
  s_params : list pspec;
  (** [implementation: outputs: params] — the kernel receives the output rows
      as views to write into.  True for every catalogued model; the other
      flavour of the template is dead code and is not modelled. *)
  out_as_params : bool
}.

Definition is_table (p : pspec) : bool := match p with Table _ => true | _ => false end.

(** Environment of dimension extents: the wrapper struct's [max<d>] fields
    (set by InitialiseDimensions), resp. a cell's own extents. *)
Definition denv := list (string * nat).
Fixpoint dlookup (e : denv) (d : string) : nat :=
  match e with
  | [] => 0
  | (n, v) :: r => if string_dec n d then v else dlookup r d
  end.

Fixpoint lprod (l : list nat) : nat :=
  match l with [] => 1 | d :: r => d * lprod r end.

(** Number of parameter-matrix rows of one parameter ([paramSize]). *)
Definition block_size (maxd : denv) (p : pspec) : nat :=
  match p with
  | Table ds => lprod (map (dlookup maxd) ds)
  | _ => 1
  end.

(** First row of the [j]-th parameter ([paramIdx] when it is reached): the
    running sum of the block sizes before it. *)
Fixpoint row_of (maxd : denv) (ps : list pspec) (j : nat) : nat :=
  match ps, j with
  | p :: r, S j' => block_size maxd p + row_of maxd r j'
  | _, _ => 0
  end.
Definition total_rows (maxd : denv) (ps : list pspec) : nat := row_of maxd ps (List.length ps).

(** Well-formed parameter list: every dimension used by a table is the name of
    a [DimOf] parameter that comes earlier (otherwise the generated Go does not
    compile: the table's slice shape refers to the dimension variable). *)
Fixpoint dims_declared (seen : list string) (ps : list pspec) : bool :=
  match ps with
  | [] => true
  | Scalar :: r => dims_declared seen r
  | DimOf d :: r => dims_declared (d :: seen) r
  | Table ds :: r =>
    forallb (fun d => existsb (fun s => if string_dec s d then true else false) seen) ds
    && dims_declared seen r
  end.

Definition spec_supported (s : spec) : bool :=
  out_as_params s && dims_declared [] (s_params s) &&
  match s_states s with Custom => true | Fixed _ => true end.
