(** InitialiseStates: zero flavour and custom flavour.  The custom flavour
    sizes the state matrix from cell 0 (known finding
    init-states-sized-from-cell0): the cellwise statement holds when all cells
    have the same state length and is refuted otherwise. *)
From Coq Require Import List Arith ZArith Lia Bool.
From OW Require Import Base.Interleave Wrapper.Spec Wrapper.Run.
Import ListNotations.
Local Open Scope nat_scope.

Section Init.
  Variable V : Type.
  Variable vzero : V.
  Variable Kinit : list V -> list V.
  Variable sp : spec.

  Lemma write_at_length : forall (l : list V) off vals, length (write_at V l off vals) = length l.
  Proof.
    induction l as [|x l IH]; intros off vals.
    - destruct off; simpl; destruct vals; reflexivity.
    - destruct off; simpl.
      + destruct vals; simpl; auto.
      + rewrite IH. reflexivity.
  Qed.

  Lemma write_at_nth : forall (l : list V) off vals p, off + length vals <= length l ->
    nth_error (write_at V l off vals) p =
    if (off <=? p) && (p <? off + length vals) then nth_error vals (p - off) else nth_error l p.
  Proof.
    induction l as [|x l IH]; intros off vals p H.
    - destruct vals; simpl in H; [|lia]. assert (off = 0) by lia. subst. simpl.
      destruct p; simpl; auto.
    - destruct off.
      + destruct vals as [|v vals].
        * simpl. destruct p; reflexivity.
        * simpl in H. simpl write_at. destruct p; simpl; auto.
          rewrite IH by lia. simpl. rewrite Nat.sub_0_r. reflexivity.
      + simpl write_at. destruct p; simpl; auto. rewrite IH by (simpl in H; lia). reflexivity.
  Qed.

  Notation row_of_cell nSets pm i := (Kinit (init_params V sp nSets pm i)).

  (** Zero flavour: every row is [k] zeros, as for a single cell. *)
  Theorem initialise_states_zero_cellwise : forall n k i j, i < n -> j < k ->
    nth_error (snd (initialise_states_zero V vzero n k)) (i * k + j) = Some vzero /\
    nth_error (snd (initialise_states_zero V vzero 1 k)) j = Some vzero.
  Proof.
    intros n k i j Hi Hj. unfold initialise_states_zero. simpl snd.
    split; apply nth_error_repeat; nia.
  Qed.

  Lemma init_rows_spec nSets pm n L : forall is acc,
    NoDup is -> (forall i, In i is -> i < n /\ length (row_of_cell nSets pm i) = L) ->
    length acc = n * L ->
    exists st, init_rows V Kinit sp nSets pm n L is acc = Some st /\ length st = n * L /\
      (forall i j, In i is -> j < L -> nth_error st (i * L + j) = nth_error (row_of_cell nSets pm i) j) /\
      (forall p, (forall i, In i is -> ~ (i * L <= p < i * L + L)) -> nth_error st p = nth_error acc p).
  Proof.
    induction is as [|i r IH]; intros acc ND Hall Hlen.
    - exists acc. simpl. repeat split; auto. intros; contradiction.
    - inversion ND as [|x y Hnin ND']; subst.
      destruct (Hall i (or_introl eq_refl)) as [Hi HL].
      simpl. rewrite HL.
      assert (Hfit : i * L + L <= n * L) by nia.
      apply Nat.leb_le in Hfit. rewrite Hfit. apply Nat.leb_le in Hfit.
      destruct (IH (write_at V acc (i * L) (row_of_cell nSets pm i)) ND') as (st & Hr & Hl & Hrow & Hfr).
      { intros j Hj. apply Hall. simpl; auto. }
      { rewrite write_at_length. exact Hlen. }
      exists st. split; [exact Hr|]. split; [exact Hl|]. split.
      + intros j c [<-|Hj] Hc.
        * rewrite Hfr.
          -- rewrite write_at_nth by (rewrite HL; lia). rewrite HL.
             replace ((i * L <=? i * L + c) && (i * L + c <? i * L + L)) with true.
             ++ f_equal. lia.
             ++ symmetry. apply andb_true_iff. split; [apply Nat.leb_le | apply Nat.ltb_lt]; lia.
          -- intros j Hj Hr2. assert (i <> j) by (intro; subst; auto). nia.
        * apply Hrow; auto.
      + intros p Hp. rewrite Hfr by (intros j Hj; apply Hp; simpl; auto).
        rewrite write_at_nth by (rewrite HL; lia). rewrite HL.
        replace ((i * L <=? p) && (p <? i * L + L)) with false; auto.
        symmetry. apply andb_false_iff.
        destruct (Nat.leb_spec (i * L) p); auto. right. apply Nat.ltb_ge.
        specialize (Hp i (or_introl eq_refl)). lia.
  Qed.

  (** Custom flavour, under the side condition "all cells have the same state
      length": row [i] of [InitialiseStates(n)] is the state row the init
      function gives for cell [i]'s parameters, i.e. the single-cell
      [InitialiseStates(1)] of that cell's parameter column.
      PARTIAL: the side condition is needed (see the refutation below). *)
  Theorem initialise_states_cellwise_partial : forall nSets pm n L,
    1 <= nSets -> 1 <= n ->
    (forall i, i < n -> length (row_of_cell nSets pm i) = L) ->
    exists st, initialise_states_custom V vzero Kinit sp nSets pm n = Some ([n; L], st) /\
      length st = n * L /\
      forall i, i < n ->
        (* row i of the matrix ... *)
        (forall j, j < L -> nth_error st (i * L + j) = nth_error (row_of_cell nSets pm i) j) /\
        (* ... is the one-cell initialisation on the cell's own parameter column *)
        initialise_states_custom V vzero Kinit sp 1 (fun r => pm (r * nSets + i mod nSets)) 1
          = Some ([1; L], row_of_cell nSets pm i).
  Proof.
    intros nSets pm n L Hs Hn Hall.
    unfold initialise_states_custom.
    destruct n as [|n']; [lia|]. set (n := Datatypes.S n') in *.
    destruct (Nat.eqb_spec nSets 0) as [E|_]; [lia|].
    rewrite (Hall 0) by lia.
    destruct (init_rows_spec nSets pm n L (seq 0 n) (repeat vzero (n * L)) (seq_NoDup n 0))
      as (st & Hr & Hl & Hrow & _).
    { intros i Hi. apply in_seq in Hi. split; [lia|]. apply Hall. lia. }
    { apply repeat_length. }
    rewrite Hr. exists st. split; [reflexivity|]. split; [exact Hl|].
    intros i Hi. split.
    - intros j Hj. apply Hrow; auto. apply in_seq. lia.
    - simpl Nat.eqb. cbv iota.
      assert (Ep : init_params V sp 1 (fun r => pm (r * nSets + i mod nSets)) 0 = init_params V sp nSets pm i).
      { unfold init_params. apply map_ext. intros j. rewrite Nat.mod_1_r. f_equal. lia. }
      rewrite Ep. rewrite (Hall i Hi). simpl init_rows.
      rewrite Ep, (Hall i Hi). rewrite Nat.add_0_r.
      assert (LL : L <=? L = true) by (apply Nat.leb_le; lia). rewrite LL.
      f_equal. f_equal.
      (* writing a full row over a row of zeros gives the row *)
      assert (G : forall (row z : list V), length row = length z -> write_at V z 0 row = row).
      { induction row as [|x row IHr]; intros [|y z] Hlen; simpl in *; try discriminate; auto.
        f_equal. apply IHr. lia. }
      apply G. rewrite repeat_length. rewrite (Hall i Hi). lia.
  Qed.
End Init.

(** ** Refutation of the general statement (no side condition).
    A Lag-like model: one scalar parameter [lag], custom init returning
    [lag] copies of [lag].  With lags (1, 2) the second cell's row runs past
    the end of the matrix sized from cell 0: the Go code panics
    ("slice bounds out of range"); with lags (2, 1) nothing panics but the
    matrix row of cell 1 is not cell 1's single-cell initial state. *)
Definition lagspec : spec :=
  {| s_name := String.EmptyString; n_in := 1; n_out := 1; s_states := Custom;
     s_params := [Scalar]; out_as_params := true |}.
Definition lag_init (ps : list Z) : list Z :=
  match ps with p :: _ => repeat p (Z.to_nat p) | [] => [] end.
Definition pm_of (l : list Z) : nat -> Z := fun o => nth o l 0%Z.

Theorem initialise_states_cellwise_refuted :
  (* (a) panic on the last row *)
  initialise_states Z 0%Z lag_init lagspec 2 (pm_of [1; 2]%Z) 2 = None /\
  (* although each cell alone initialises fine *)
  initialise_states Z 0%Z lag_init lagspec 1 (pm_of [2]%Z) 1 = Some ([1; 2], [2; 2]%Z) /\
  (* (b) silent: the matrix is [2;2] wide, row 1 is (1, 0), but cell 1 alone has the state (1) *)
  initialise_states Z 0%Z lag_init lagspec 2 (pm_of [2; 1]%Z) 2 = Some ([2; 2], [2; 2; 1; 0]%Z) /\
  initialise_states Z 0%Z lag_init lagspec 1 (pm_of [1]%Z) 1 = Some ([1; 1], [1]%Z).
Proof. repeat split; vm_compute; reflexivity. Qed.
