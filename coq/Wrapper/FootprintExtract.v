(** Executable entry points of the wrapper model for the OCaml driver
    (definitions only): the closed-form footprint of cell [i] and the model's
    FindDimensions / InitialiseStates, instantiated by the driver at binary64. *)
From Coq Require Import List ZArith String.
From OW Require Import Base.Arith Base.Interleave Wrapper.Spec Wrapper.Run Gen.WrapperSpecs.
Import ListNotations.

Section Extract.
  Context {T : Type} {A : Arith T}.
  Definition pm_of_list (p : list T) : nat -> T := fun o => nth o p zero.
  Definition mem_of_plist (p : list T) : Interleave.mem addr T :=
    fun a => match a with (BP, o) => nth o p zero | _ => zero end.

  (** (reads, writes) of cell [i], as (buffer, flat offset) lists *)
  Definition wrapper_footprint (sp : spec) (sh : shapes) (maxd : denv) (p : list T) (i : nat)
    : list addr * list addr :=
    (cell_reads T truncZ sp sh maxd (pm_of_list p) i, cell_writes sp sh i).

  (** FindDimensions on the parameter matrix [p] *)
  Definition wrapper_find_dimensions (sp : spec) (sh : shapes) (p : list T) : option denv :=
    find_dimensions T truncZ (fun a b => ltb b a) sp sh (mem_of_plist p).

  (** InitialiseStates(n) of the wrapper for an init function [Kinit] (the driver supplies, as
      [Kinit], the table "parameter column -> state row of the model's own init function" measured
      on single cells): sized from cell 0, cell i gets set i mod nSets, rows written at i * L0. *)
  Definition wrapper_initialise_states (Kinit : list T -> list T) (sp : spec) (nSets : nat) (p : list T) (n : nat)
    : option (list nat * list T) :=
    initialise_states T zero Kinit sp nSets (pm_of_list p) n.

  Definition wrapper_spec (name : string) : option spec := wrapper_spec_of name wrapper_specs.
End Extract.
