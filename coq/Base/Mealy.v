(** Time-stepping kernels as Mealy machines; two theorems proved once for all
    machines: sequential composition of runs (hot start, C06) and causality
    (C14). *)
From Coq Require Import List Lia.
Import ListNotations.

Section Mealy.
  Context {S I O : Type}.
  Variable step : S -> I -> S * O.

  Fixpoint run (s : S) (xs : list I) : S * list O :=
    match xs with
    | [] => (s, [])
    | x :: r => let (s1, o) := step s x in
                let (s2, os) := run s1 r in (s2, o :: os)
    end.

  Lemma run_length s xs : length (snd (run s xs)) = length xs.
  Proof.
    revert s; induction xs as [|x r IH]; intros s; cbn; [reflexivity|].
    destruct (step s x) as [s1 o]. specialize (IH s1).
    destruct (run s1 r) as [s2 os]. cbn in *. lia.
  Qed.

  Theorem run_app s xs ys :
    run s (xs ++ ys) =
    let (s1, o1) := run s xs in
    let (s2, o2) := run s1 ys in (s2, o1 ++ o2).
  Proof.
    revert s; induction xs as [|x r IH]; intros s; cbn.
    - destruct (run s ys); reflexivity.
    - destruct (step s x) as [s1 o]. rewrite IH.
      destruct (run s1 r) as [s2 os]. destruct (run s2 ys) as [s3 os']. reflexivity.
  Qed.

  (** Splitting into any number of consecutive segments. *)
  Fixpoint run_segments (s : S) (segs : list (list I)) : S * list O :=
    match segs with
    | [] => (s, [])
    | seg :: r => let (s1, o1) := run s seg in
                  let (s2, o2) := run_segments s1 r in (s2, o1 ++ o2)
    end.

  Theorem run_segments_concat s segs :
    run_segments s segs = run s (concat segs).
  Proof.
    revert s; induction segs as [|seg r IH]; intros s; cbn; [reflexivity|].
    rewrite run_app. destruct (run s seg) as [s1 o1]. rewrite IH. reflexivity.
  Qed.

  Theorem run_causal s xs xs' t :
    firstn t xs = firstn t xs' ->
    firstn t (snd (run s xs)) = firstn t (snd (run s xs')).
  Proof.
    revert s xs xs'; induction t as [|t IH]; intros s xs xs' H; [reflexivity|].
    destruct xs as [|x r], xs' as [|x' r']; cbn in H; try discriminate; [reflexivity|].
    injection H as Hx Hr; subst x'. cbn.
    destruct (step s x) as [s1 o]. specialize (IH s1 r r' Hr).
    destruct (run s1 r) as [s2 os], (run s1 r') as [s2' os']. cbn in *. now rewrite IH.
  Qed.

  (** Output at step t depends only on the inputs up to and including t. *)
  Corollary run_causal_nth s xs xs' t d :
    firstn (Datatypes.S t) xs = firstn (Datatypes.S t) xs' ->
    nth t (snd (run s xs)) d = nth t (snd (run s xs')) d.
  Proof.
    intros H. apply (run_causal s) in H.
    assert (E : forall (l : list O), nth t l d = nth t (firstn (Datatypes.S t) l) d).
    { clear. intros l; revert t; induction l as [|a l IH]; intros t.
      - destruct t; reflexivity.
      - destruct t as [|t]; [reflexivity|]. change (nth t l d = nth t (firstn (Datatypes.S t) l) d). apply IH. }
    rewrite E, H, <- E. reflexivity.
  Qed.

  (** Generic budget lemma: a per-step identity  stock s + inflow x = stock s' + outflow o
      lifts to whole runs.  Stated over any commutative monoid given by [plus]. *)
End Mealy.
