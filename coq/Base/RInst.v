(** Real-number instance of [Arith]: what the theorems are about. *)
From Coq Require Import ZArith Reals Lra List.
From OW Require Import Base.Arith.
Local Open Scope R_scope.

Definition Rltb (a b : R) : bool := if Rlt_dec a b then true else false.
Definition Rleb (a b : R) : bool := if Rle_dec a b then true else false.
Definition Reqb (a b : R) : bool := if Req_EM_T a b then true else false.

Lemma Rltb_true a b : Rltb a b = true <-> a < b.
Proof. unfold Rltb; destruct (Rlt_dec a b); split; intros; auto; discriminate. Qed.
Lemma Rltb_false a b : Rltb a b = false <-> b <= a.
Proof. unfold Rltb; destruct (Rlt_dec a b); split; intros; auto; try discriminate; lra. Qed.
Lemma Rleb_true a b : Rleb a b = true <-> a <= b.
Proof. unfold Rleb; destruct (Rle_dec a b); split; intros; auto; discriminate. Qed.
Lemma Rleb_false a b : Rleb a b = false <-> b < a.
Proof. unfold Rleb; destruct (Rle_dec a b); split; intros; auto; try discriminate; lra. Qed.
Lemma Reqb_true a b : Reqb a b = true <-> a = b.
Proof. unfold Reqb; destruct (Req_EM_T a b); split; intros; auto; discriminate. Qed.
Lemma Reqb_false a b : Reqb a b = false <-> a <> b.
Proof. unfold Reqb; destruct (Req_EM_T a b); split; intros; auto; try discriminate; contradiction. Qed.

(** [int(x)]: truncation toward zero. *)
Definition Rtrunc (x : R) : Z :=
  if Rle_dec 0 x then Int_part x else (- Int_part (- x))%Z.
Definition Rfloor (x : R) : R := IZR (Int_part x).
Definition Rceil (x : R) : R := (- IZR (Int_part (- x))).

(** x^y as Go's math.Pow on the cases the kernels use: non-negative base. *)
Definition Rpow (x y : R) : R :=
  if Req_EM_T y 0 then 1
  else if Req_EM_T x 0 then 0
  else Rpower x y.

Definition Rlog10 (x : R) : R := ln x / ln 10.

#[export] Instance RArith : Arith R := {|
  zero := 0; one := 1;
  add := Rplus; sub := Rminus; mul := Rmult; div := Rdiv; neg := Ropp;
  ltb := Rltb; leb := Rleb; eqb := Reqb;
  amin := Rmin; amax := Rmax; aabs := Rabs;
  of_q := fun p q => IZR p / IZR (Zpos q);
  of_Z := IZR;
  truncZ := Rtrunc;
  afloor := Rfloor; aceil := Rceil;
  asqrt := sqrt; aexp := exp; aln := ln; alog10 := Rlog10;
  atanh := tanh; acos := cos;
  apow := Rpow;
  is_nan := fun _ => false
|}.

(** Tactic support: turn the boolean tests of a kernel into real hypotheses. *)
Ltac rcase_bool b :=
  let H := fresh "Hc" in
  destruct b eqn:H;
  [ first [ apply Rltb_true in H | apply Rleb_true in H | apply Reqb_true in H | idtac ]
  | first [ apply Rltb_false in H | apply Rleb_false in H | apply Reqb_false in H | idtac ] ].

Ltac runfold :=
  cbn [zero one add sub mul div neg ltb leb eqb amin amax aabs of_q of_Z
       asqrt aexp aln alog10 atanh acos apow is_nan RArith gtb geb neqb two] in *.
