(** Interleaving semantics of threads that access a shared memory by atomic
    reads and writes, and the commutation theorem used by C05 (and, for the
    sequential cell-by-cell order, by C04).

    A thread is a *resumption*: [Rd a k] reads address [a] and continues with
    [k v] where [v] is the value read, so later accesses and written values may
    depend on everything read so far; [Wr a v k] writes; [Ret x] finishes with a
    result; [Fail] is a Go panic (the thread stops).

    An execution of a list of threads is driven by a *schedule* (a list of
    thread numbers): at each step the named thread performs its next atomic
    access.  Every goroutine interleaving is the run of some schedule, and the
    global event trace of a run is an element of the inductive shuffle
    [interleavings] of the per-thread traces.

    Main results (section [Commute]), for ANY number of threads:
    - [disjoint_threads_commute]: if the write set of each thread is disjoint
      from the read and write sets of every other thread, then every complete
      schedule ends in the memory of the sequential composition
      [run_seq], every thread finishes with the result it has when run alone,
      and the accesses it performs (addresses and values read/written) are
      exactly those it performs alone;
    - [schedule_trace_interleaving]: the global trace is a shuffle of the
      solo traces;
    - [no_conflicting_accesses]: no two accesses of different threads to the
      same address include a write (no data race on the modelled memory). *)
From Coq Require Import List Arith Lia Bool.
Import ListNotations.

Set Implicit Arguments.

Section Prog.
  Variables A V : Type.
  Variable A_eq_dec : forall a b : A, {a = b} + {a <> b}.

  Definition mem := A -> V.
  Definition upd (m : mem) (a : A) (v : V) : mem :=
    fun b => if A_eq_dec b a then v else m b.

  Inductive prog (X : Type) : Type :=
  | Ret (x : X)
  | Fail
  | Rd (a : A) (k : V -> prog X)
  | Wr (a : A) (v : V) (k : prog X).
  Arguments Fail {X}.

  Fixpoint bind {X Y} (p : prog X) (f : X -> prog Y) : prog Y :=
    match p with
    | Ret x => f x
    | Fail => Fail
    | Rd a k => Rd a (fun v => bind (k v) f)
    | Wr a v k => Wr a v (bind k f)
    end.

  Inductive event := ERd (a : A) (v : V) | EWr (a : A) (v : V).
  Definition ev_addr (e : event) : A := match e with ERd a _ => a | EWr a _ => a end.
  Definition is_write (e : event) : bool := match e with EWr _ _ => true | _ => false end.

  (** Running one thread alone, to completion. *)
  Fixpoint exec {X} (p : prog X) (m : mem) : option X * mem * list event :=
    match p with
    | Ret x => (Some x, m, [])
    | Fail => (None, m, [])
    | Rd a k => let '(r, m', tr) := exec (k (m a)) m in (r, m', ERd a (m a) :: tr)
    | Wr a v k => let '(r, m', tr) := exec k (upd m a v) in (r, m', EWr a v :: tr)
    end.
  Definition res_of {X} (t : option X * mem * list event) : option X := fst (fst t).
  Definition mem_of {X} (t : option X * mem * list event) : mem := snd (fst t).
  Definition trace_of {X} (t : option X * mem * list event) : list event := snd t.

  (** One atomic step. *)
  Definition step1 {X} (p : prog X) (m : mem) : option (prog X * mem * event) :=
    match p with
    | Rd a k => Some (k (m a), m, ERd a (m a))
    | Wr a v k => Some (k, upd m a v, EWr a v)
    | _ => None
    end.
  Definition terminal {X} (p : prog X) : bool :=
    match p with Ret _ => true | Fail => true | _ => false end.

  Fixpoint set_nth {T} (l : list T) (j : nat) (x : T) : list T :=
    match l, j with
    | [], _ => []
    | _ :: r, O => x :: r
    | y :: r, S j' => y :: set_nth r j' x
    end.

  (** Running a schedule.  Naming a finished (or non-existent) thread is a
      no-op, so the set of all schedules covers all interleavings. *)
  Fixpoint run_sched {X} (s : list nat) (m : mem) (ts : list (prog X))
    : mem * list (prog X) * list (nat * event) :=
    match s with
    | [] => (m, ts, [])
    | j :: s' =>
      match nth_error ts j with
      | Some p =>
        match step1 p m with
        | Some (p', m', e) =>
          let '(m'', ts'', tr) := run_sched s' m' (set_nth ts j p') in (m'', ts'', (j, e) :: tr)
        | None => run_sched s' m ts
        end
      | None => run_sched s' m ts
      end
    end.
  Definition finished {X} (ts : list (prog X)) : Prop := forall j p, nth_error ts j = Some p -> terminal p = true.

  (** Sequential composition: thread 0 to completion, then thread 1, ... *)
  Fixpoint run_seq {X} (ts : list (prog X)) (m : mem) : mem :=
    match ts with
    | [] => m
    | p :: r => run_seq r (mem_of (exec p m))
    end.

  (** Footprint of a thread: every address it can ever read is in [R], every
      address it can ever write is in [W] (whatever values it reads). *)
  Fixpoint fp {X} (R W : A -> bool) (p : prog X) : Prop :=
    match p with
    | Ret _ => True
    | Fail => True
    | Rd a k => R a = true /\ forall v, fp R W (k v)
    | Wr a _ k => W a = true /\ fp R W k
    end.

  (** The inductive n-ary shuffle: [interleavings ls tr] iff [tr] is an
      interleaving of the lists [ls] (each kept in its own order). *)
  Inductive interleavings {E} : list (list E) -> list E -> Prop :=
  | il_nil : forall ls, (forall j l, nth_error ls j = Some l -> l = []) -> interleavings ls []
  | il_cons : forall ls j e l tr,
      nth_error ls j = Some (e :: l) -> interleavings (set_nth ls j l) tr -> interleavings ls (e :: tr).

  (** Projection of a global trace on one thread. *)
  Fixpoint proj_trace (j : nat) (tr : list (nat * event)) : list event :=
    match tr with
    | [] => []
    | (l, e) :: r => if Nat.eqb l j then e :: proj_trace j r else proj_trace j r
    end.

  (* ------------------------------------------------------------------ *)
  (** ** Basic facts *)

  Lemma upd_same m a v : upd m a v a = v.
  Proof. unfold upd. destruct (A_eq_dec a a); congruence. Qed.
  Lemma upd_other m a v b : b <> a -> upd m a v b = m b.
  Proof. unfold upd. destruct (A_eq_dec b a); congruence. Qed.

  Lemma exec_bind {X Y} (p : prog X) (f : X -> prog Y) m :
    exec (bind p f) m =
    let '(r, m', tr) := exec p m in
    match r with
    | Some x => let '(r', m'', tr') := exec (f x) m' in (r', m'', tr ++ tr')
    | None => (None, m', tr)
    end.
  Proof.
    revert m. induction p; intros m; simpl.
    - destruct (exec (f x) m) as [[r' m''] tr']. reflexivity.
    - reflexivity.
    - rewrite H. destruct (exec (k (m a)) m) as [[r m'] tr]. destruct r.
      + destruct (exec (f x) m') as [[r' m''] tr']. reflexivity.
      + reflexivity.
    - rewrite IHp. destruct (exec p (upd m a v)) as [[r m'] tr]. destruct r.
      + destruct (exec (f x) m') as [[r' m''] tr']. reflexivity.
      + reflexivity.
  Qed.

  Lemma set_nth_length {T} (l : list T) j x : length (set_nth l j x) = length l.
  Proof. revert j; induction l; destruct j; simpl; auto. Qed.
  Lemma nth_error_set_nth_same {T} (l : list T) j x :
    j < length l -> nth_error (set_nth l j x) j = Some x.
  Proof. revert j; induction l; destruct j; simpl; intros; try lia; auto. apply IHl; lia. Qed.
  Lemma nth_error_set_nth_other {T} (l : list T) j i x :
    i <> j -> nth_error (set_nth l j x) i = nth_error l i.
  Proof.
    revert j i; induction l; destruct j, i; simpl; intros; try congruence; auto.
  Qed.
  Lemma set_nth_map {T U} (f : T -> U) (l : list T) j x :
    map f (set_nth l j x) = set_nth (map f l) j (f x).
  Proof. revert j; induction l; destruct j; simpl; congruence. Qed.
  Lemma nth_error_ext_eq {T} (l1 l2 : list T) :
    (forall i, nth_error l1 i = nth_error l2 i) -> l1 = l2.
  Proof.
    revert l2; induction l1 as [|a l1 IH]; intros [|b l2] H; auto.
    - specialize (H 0); discriminate.
    - specialize (H 0); discriminate.
    - f_equal.
      + specialize (H 0). simpl in H. congruence.
      + apply IH. intros i. apply (H (S i)).
  Qed.
  Lemma set_nth_ext {T} (l1 l2 : list T) j x :
    length l1 = length l2 ->
    (forall i, i <> j -> nth_error l1 i = nth_error l2 i) ->
    set_nth l1 j x = set_nth l2 j x.
  Proof.
    revert l2 j; induction l1 as [|a l1 IH]; intros [|b l2] j L E; simpl in *; try discriminate; auto.
    destruct j.
    - f_equal. apply nth_error_ext_eq. intros i. apply (E (S i)). lia.
    - f_equal.
      + assert (H : 0 <> S j) by lia. apply E in H. simpl in H. congruence.
      + apply IH; [lia|]. intros i Hi. apply (E (S i)). lia.
  Qed.

  (** Frame: a thread's behaviour depends only on the memory inside its
      footprint, and it changes memory only inside its write set. *)
  Lemma exec_frame {X} (R W : A -> bool) (p : prog X) :
    fp R W p -> forall m1 m2,
    (forall a, R a || W a = true -> m1 a = m2 a) ->
    res_of (exec p m1) = res_of (exec p m2) /\
    trace_of (exec p m1) = trace_of (exec p m2) /\
    (forall a, R a || W a = true -> mem_of (exec p m1) a = mem_of (exec p m2) a).
  Proof.
    induction p; simpl; intros F m1 m2 E.
    - repeat split; auto.
    - repeat split; auto.
    - destruct F as [Ra F].
      assert (Ea : m1 a = m2 a) by (apply E; rewrite Ra; reflexivity).
      rewrite Ea.
      specialize (H (m2 a) (F (m2 a)) m1 m2 E).
      destruct (exec (k (m2 a)) m1) as [[r1 m1'] t1].
      destruct (exec (k (m2 a)) m2) as [[r2 m2'] t2].
      unfold res_of, trace_of, mem_of in *; simpl in *.
      destruct H as (H1 & H2 & H3). repeat split; auto. congruence.
    - destruct F as [Wa F].
      assert (E' : forall b, R b || W b = true -> upd m1 a v b = upd m2 a v b).
      { intros b Hb. unfold upd. destruct (A_eq_dec b a); auto. }
      specialize (IHp F _ _ E').
      destruct (exec p (upd m1 a v)) as [[r1 m1'] t1].
      destruct (exec p (upd m2 a v)) as [[r2 m2'] t2].
      unfold res_of, trace_of, mem_of in *; simpl in *.
      destruct IHp as (H1 & H2 & H3). repeat split; auto. congruence.
  Qed.

  Lemma exec_writes_only_W {X} (R W : A -> bool) (p : prog X) :
    fp R W p -> forall m a, W a = false -> mem_of (exec p m) a = m a.
  Proof.
    induction p; simpl; intros F m b Hb; auto.
    - destruct F as [_ F]. specialize (H (m a) (F (m a)) m b Hb).
      destruct (exec (k (m a)) m) as [[r m'] t]. exact H.
    - destruct F as [Wa F]. specialize (IHp F (upd m a v) b Hb).
      destruct (exec p (upd m a v)) as [[r m'] t]. unfold mem_of in *; simpl in *.
      rewrite IHp. apply upd_other. intro; subst. congruence.
  Qed.

  (** Every event of the solo trace lies in the footprint. *)
  Lemma exec_trace_in_fp {X} (R W : A -> bool) (p : prog X) :
    fp R W p -> forall m e, In e (trace_of (exec p m)) ->
    if is_write e then W (ev_addr e) = true else R (ev_addr e) = true.
  Proof.
    induction p; simpl; intros F m e Hin; try contradiction.
    - destruct F as [Ra F]. specialize (H (m a) (F (m a)) m e).
      destruct (exec (k (m a)) m) as [[r m'] t]. unfold trace_of in *; simpl in *.
      destruct Hin as [<- | Hin]; [simpl; auto | apply H; exact Hin].
    - destruct F as [Wa F]. specialize (IHp F (upd m a v) e).
      destruct (exec p (upd m a v)) as [[r m'] t]. unfold trace_of in *; simpl in *.
      destruct Hin as [<- | Hin]; [simpl; auto | apply IHp; exact Hin].
  Qed.

  Lemma fp_step1 {X} (R W : A -> bool) (p p' : prog X) m m' e :
    fp R W p -> step1 p m = Some (p', m', e) ->
    fp R W p' /\ (if is_write e then W (ev_addr e) = true else R (ev_addr e) = true) /\
    (forall b, W b = false -> m' b = m b).
  Proof.
    destruct p; simpl; intros F S; try discriminate; inversion S; subst; clear S; simpl.
    - destruct F as [Ra F]. auto.
    - destruct F as [Wa F]. repeat split; auto.
      intros b Hb. apply upd_other. intro; subst; congruence.
  Qed.

  Lemma exec_step1 {X} (p p' : prog X) m m' e :
    step1 p m = Some (p', m', e) ->
    exec p m = (res_of (exec p' m'), mem_of (exec p' m'), e :: trace_of (exec p' m')).
  Proof.
    destruct p; simpl; intros S; try discriminate; inversion S; subst; clear S.
    - destruct (exec (k (m' a)) m') as [[r m''] t]. reflexivity.
    - destruct (exec p' (upd m a v)) as [[r m''] t]. reflexivity.
  Qed.

  Lemma exec_terminal {X} (p : prog X) m :
    terminal p = true -> mem_of (exec p m) = m /\ trace_of (exec p m) = [].
  Proof. destruct p; simpl; intros; try discriminate; auto. Qed.


  (** Footprints compose along [bind]; [results p Q]: every result [p] can
      return (whatever it reads) satisfies [Q]. *)
  Fixpoint results {X} (p : prog X) (Q : X -> Prop) : Prop :=
    match p with
    | Ret x => Q x
    | Fail => True
    | Rd a k => forall v, results (k v) Q
    | Wr a v k => results k Q
    end.
  Lemma fp_bind {X Y} (R W : A -> bool) (p : prog X) (f : X -> prog Y) (Q : X -> Prop) :
    fp R W p -> results p Q -> (forall x, Q x -> fp R W (f x)) -> fp R W (bind p f).
  Proof.
    induction p; simpl; intros F Rs Hf; auto.
    - destruct F as [Ra F]. split; auto.
    - destruct F as [Wa F]. split; auto.
  Qed.
  Lemma results_bind {X Y} (p : prog X) (f : X -> prog Y) (Q : X -> Prop) (Q' : Y -> Prop) :
    results p Q -> (forall x, Q x -> results (f x) Q') -> results (bind p f) Q'.
  Proof. induction p; simpl; intros Rs Hf; auto. Qed.
  Lemma results_true {X} (p : prog X) : results p (fun _ => True).
  Proof. induction p; simpl; auto. Qed.


  (** Footprint along ONE execution: the accesses the thread performs when it
      runs from memory [m] (values read are those of [m] as updated by its own
      writes). *)
  Fixpoint fp_on {X} (R W : A -> bool) (p : prog X) (m : mem) : Prop :=
    match p with
    | Ret _ => True
    | Fail => True
    | Rd a k => R a = true /\ fp_on R W (k (m a)) m
    | Wr a v k => W a = true /\ fp_on R W k (upd m a v)
    end.
  Lemma fp_fp_on {X} (R W : A -> bool) (p : prog X) : fp R W p -> forall m, fp_on R W p m.
  Proof. induction p; simpl; intros F m; auto; destruct F; split; auto. Qed.
  Lemma fp_on_bind {X Y} (R W : A -> bool) (p : prog X) (f : X -> prog Y) : forall m,
    fp_on R W p m ->
    (forall x, res_of (exec p m) = Some x -> fp_on R W (f x) (mem_of (exec p m))) ->
    fp_on R W (bind p f) m.
  Proof.
    induction p; simpl; intros m F Hf.
    - apply Hf. reflexivity.
    - exact I.
    - destruct F as [Ra F]. split; auto. apply H; auto.
      intros x Hx. specialize (Hf x). destruct (exec (k (m a)) m) as [[r m'] t]. apply Hf. exact Hx.
    - destruct F as [Wa F]. split; auto. apply IHp; auto.
      intros x Hx. specialize (Hf x). destruct (exec p (upd m a v)) as [[r m'] t]. apply Hf. exact Hx.
  Qed.
  Lemma exec_trace_in_fp_on {X} (R W : A -> bool) (p : prog X) : forall m,
    fp_on R W p m -> forall e, In e (trace_of (exec p m)) ->
    if is_write e then W (ev_addr e) = true else R (ev_addr e) = true.
  Proof.
    induction p; simpl; intros m F e Hin; try contradiction.
    - destruct F as [Ra F]. specialize (H (m a) m F e).
      destruct (exec (k (m a)) m) as [[r m'] t]. unfold trace_of in *; simpl in *.
      destruct Hin as [<- | Hin]; [simpl; auto | apply H; exact Hin].
    - destruct F as [Wa F]. specialize (IHp (upd m a v) F e).
      destruct (exec p (upd m a v)) as [[r m'] t]. unfold trace_of in *; simpl in *.
      destruct Hin as [<- | Hin]; [simpl; auto | apply IHp; exact Hin].
  Qed.

  (* ------------------------------------------------------------------ *)
  (** ** Commutation *)
  Section Commute.
    Variable X : Type.
    (** footprints, indexed by thread number *)
    Variables R W : nat -> A -> bool.
    Definition footprints_ok (ts : list (prog X)) : Prop :=
      forall j p, nth_error ts j = Some p -> fp (R j) (W j) p.
    (** the write set of each thread is disjoint from the read and write sets
        of every other thread *)
    Definition pairwise_disjoint (n : nat) : Prop :=
      forall j l a, j < n -> l < n -> j <> l -> W j a = true -> R l a = false /\ W l a = false.

    Lemma footprints_ok_set ts j p' :
      footprints_ok ts -> fp (R j) (W j) p' -> footprints_ok (set_nth ts j p').
    Proof.
      intros F Fp i q Hq. destruct (Nat.eq_dec i j) as [->|Hne].
      - assert (j < length ts).
        { rewrite <- (set_nth_length ts j p'). apply nth_error_Some. congruence. }
        rewrite nth_error_set_nth_same in Hq by assumption. inversion Hq; subst; auto.
      - rewrite nth_error_set_nth_other in Hq by assumption. apply F in Hq. auto.
    Qed.

    (** The invariant, stated as the result of running any schedule from any
        configuration whose threads respect pairwise-disjoint footprints. *)
    Lemma run_sched_inv : forall s m ts,
      footprints_ok ts -> pairwise_disjoint (length ts) ->
      forall m' ts' tr, run_sched s m ts = (m', ts', tr) ->
      length ts' = length ts /\ footprints_ok ts' /\
      (forall a, (forall j, j < length ts -> W j a = false) -> m' a = m a) /\
      (forall j p, nth_error ts j = Some p ->
         exists p', nth_error ts' j = Some p' /\
           res_of (exec p' m') = res_of (exec p m) /\
           proj_trace j tr ++ trace_of (exec p' m') = trace_of (exec p m) /\
           (forall a, R j a || W j a = true -> mem_of (exec p' m') a = mem_of (exec p m) a)).
    Proof.
      induction s as [|l s IH]; intros m ts F D m' ts' tr Hrun; simpl in Hrun.
      - inversion Hrun; subst. repeat split; auto.
        intros j p Hp. exists p. repeat split; auto.
      - destruct (nth_error ts l) as [pl|] eqn:Hl; [|eapply IH; eauto].
        destruct (step1 pl m) as [[[pl' m1] e]|] eqn:Hst; [|eapply IH; eauto].
        destruct (run_sched s m1 (set_nth ts l pl')) as [[m2 ts2] tr2] eqn:Hrec.
        inversion Hrun; subst; clear Hrun.
        assert (Hll : l < length ts) by (apply nth_error_Some; congruence).
        destruct (fp_step1 _ _ _ _ (F _ _ Hl) Hst) as (Fpl' & Hev & Hfr).
        assert (F1 : footprints_ok (set_nth ts l pl')) by (apply footprints_ok_set; auto).
        assert (D1 : pairwise_disjoint (length (set_nth ts l pl'))) by (rewrite set_nth_length; auto).
        specialize (IH _ _ F1 D1 _ _ _ Hrec).
        rewrite set_nth_length in IH. destruct IH as (L & F2 & Fr & Th).
        repeat split; auto.
        + intros a Ha. rewrite Fr by assumption. apply Hfr. apply Ha; auto.
        + intros j p Hp. destruct (Nat.eq_dec j l) as [->|Hne].
          * assert (p = pl) by congruence. subst p.
            destruct (Th l pl') as (p' & Hp' & Hr & Ht & Hm).
            { apply nth_error_set_nth_same; auto. }
            exists p'. rewrite (exec_step1 _ _ Hst). unfold res_of, trace_of, mem_of in *; simpl.
            rewrite Nat.eqb_refl. simpl. repeat split; auto. congruence.
          * destruct (Th j p) as (p' & Hp' & Hr & Ht & Hm).
            { rewrite nth_error_set_nth_other; auto. }
            exists p'.
            (* thread j is not affected by the step of thread l *)
            assert (Hjl : j < length ts) by (apply nth_error_Some; congruence).
            assert (Eq : forall a, R j a || W j a = true -> m1 a = m a).
            { intros a Ha. destruct (W l a) eqn:Wl.
              - destruct (D l j a Hll Hjl (not_eq_sym Hne) Wl) as [Rj Wj].
                rewrite Rj, Wj in Ha. discriminate.
              - apply Hfr; auto. }
            destruct (exec_frame _ _ _ (F _ _ Hp) m1 m Eq) as (E1 & E2 & E3).
            simpl. assert (Hb : Nat.eqb l j = false) by (apply Nat.eqb_neq; auto).
            rewrite Hb. repeat split; auto; try congruence.
            intros a Ha. rewrite Hm by assumption. apply E3; auto.
    Qed.

    (** Sequential composition has the same characterisation. *)
    Lemma run_seq_char : forall ts m,
      footprints_ok ts -> pairwise_disjoint (length ts) ->
      (forall a, (forall j, j < length ts -> W j a = false) -> run_seq ts m a = m a) /\
      (forall j p, nth_error ts j = Some p ->
         forall a, R j a || W j a = true -> run_seq ts m a = mem_of (exec p m) a).
    Proof.
      intros ts. remember (length ts) as n eqn:Hn.
      assert (Hgen : forall k (ts : list (prog X)) m,
        (forall j p, nth_error ts j = Some p -> fp (R (k + j)) (W (k + j)) p) ->
        (forall j l a, j < k + length ts -> l < k + length ts -> j <> l -> W j a = true ->
                       R l a = false /\ W l a = false) ->
        (forall a, (forall j, j < length ts -> W (k + j) a = false) -> run_seq ts m a = m a) /\
        (forall j p, nth_error ts j = Some p ->
           forall a, R (k + j) a || W (k + j) a = true -> run_seq ts m a = mem_of (exec p m) a)).
      { clear. intros k ts; revert k. induction ts as [|q ts IH]; intros k m F D; simpl.
        - split; auto. intros j p Hp. destruct j; discriminate.
        - assert (Fq : fp (R (k + 0)) (W (k + 0)) q) by (apply F; reflexivity).
          specialize (IH (S k) (mem_of (exec q m))).
          destruct IH as [IH1 IH2].
          { intros j p Hp. replace (S k + j) with (k + S j) by lia. apply F. exact Hp. }
          { intros j l a Hj Hl. apply D; simpl; lia. }
          split.
          + intros a Ha. rewrite IH1.
            * eapply exec_writes_only_W; eauto. apply Ha. lia.
            * intros j Hj. replace (S k + j) with (k + S j) by lia. apply Ha. lia.
          + intros j p Hp a Ha. destruct j as [|j]; simpl in Hp.
            * inversion Hp; subst p. rewrite IH1; auto.
              intros j Hj. replace (S k + j) with (k + S j) by lia.
              destruct (W (k + S j) a) eqn:Wj; auto.
              destruct (D (k + S j) (k + 0) a) as [Ra Wa]; simpl; try lia; auto.
              rewrite Ra, Wa in Ha. discriminate.
            * replace (k + S j) with (S k + j) in Ha by lia.
              rewrite (IH2 j p Hp a Ha).
              assert (Fp : fp (R (S k + j)) (W (S k + j)) p).
              { replace (S k + j) with (k + S j) by lia. apply F. exact Hp. }
              assert (Hj : j < length ts) by (apply nth_error_Some; congruence).
              apply (exec_frame _ _ _ Fp (mem_of (exec q m)) m); auto.
              intros b Hb. eapply exec_writes_only_W; eauto.
              destruct (W (k + 0) b) eqn:Wb; auto.
              destruct (D (k + 0) (S k + j) b) as [Rb' Wb']; simpl; try lia; auto.
              rewrite Rb', Wb' in Hb. discriminate. }
      intros m F D. subst n. specialize (Hgen 0 ts m). simpl in Hgen. apply Hgen; auto.
    Qed.

    Fixpoint any_W (n : nat) (a : A) : option nat :=
      match n with
      | O => None
      | S k => if W k a then Some k else any_W k a
      end.
    Lemma any_W_spec n a :
      match any_W n a with
      | Some j => j < n /\ W j a = true
      | None => forall j, j < n -> W j a = false
      end.
    Proof.
      induction n; simpl.
      - intros; lia.
      - destruct (W n a) eqn:E.
        + split; auto.
        + destruct (any_W n a).
          * destruct IHn; split; auto.
          * intros j Hj. destruct (Nat.eq_dec j n); subst; auto. apply IHn; lia.
    Qed.

    (** Main theorem. *)
    Theorem disjoint_threads_commute : forall (ts : list (prog X)) (m : mem),
      footprints_ok ts -> pairwise_disjoint (length ts) ->
      forall s m' ts' tr, run_sched s m ts = (m', ts', tr) -> finished ts' ->
      (* the final memory is that of the sequential composition *)
      (forall a, m' a = run_seq ts m a) /\
      (* each thread finishes with its solo result, performs exactly its solo
         accesses (same addresses, same values read and written), *)
      (forall j p, nth_error ts j = Some p ->
         (exists p', nth_error ts' j = Some p' /\ res_of (exec p' m') = res_of (exec p m)) /\
         proj_trace j tr = trace_of (exec p m) /\
         (* and leaves in its footprint what it leaves when run alone *)
         (forall a, R j a || W j a = true -> m' a = mem_of (exec p m) a)) /\
      (* addresses outside every write set are unchanged *)
      (forall a, (forall j, j < length ts -> W j a = false) -> m' a = m a).
    Proof.
      intros ts m F D s m' ts' tr Hrun Hfin.
      destruct (run_sched_inv s m F D Hrun) as (L & F' & Fr & Th).
      destruct (run_seq_char m F D) as [S1 S2].
      assert (Th' : forall j p, nth_error ts j = Some p ->
         (exists p', nth_error ts' j = Some p' /\ res_of (exec p' m') = res_of (exec p m)) /\
         proj_trace j tr = trace_of (exec p m) /\
         (forall a, R j a || W j a = true -> m' a = mem_of (exec p m) a)).
      { intros j p Hp. destruct (Th j p Hp) as (p' & Hp' & Hr & Ht & Hm).
        destruct (exec_terminal p' m' (Hfin _ _ Hp')) as [Em Et].
        rewrite Et, app_nil_r in Ht. split; [eauto|]. split; auto.
        intros a Ha. rewrite <- Hm by assumption. rewrite Em. reflexivity. }
      split; [|split; auto].
      intros a. pose proof (any_W_spec (length ts) a) as Hw.
      destruct (any_W (length ts) a) as [j|].
      - destruct Hw as [Hj Wj].
        destruct (nth_error ts j) as [p|] eqn:Hp; [|apply nth_error_None in Hp; lia].
        destruct (Th' j p Hp) as (_ & _ & Hm).
        rewrite Hm by (rewrite Wj; apply orb_true_r).
        symmetry. apply (S2 j p Hp). rewrite Wj; apply orb_true_r.
      - rewrite Fr by assumption. symmetry. apply S1; assumption.
    Qed.

    (** Any two complete schedules end in the same memory. *)
    Corollary schedule_independent : forall (ts : list (prog X)) (m : mem),
      footprints_ok ts -> pairwise_disjoint (length ts) ->
      forall s1 m1 ts1 tr1 s2 m2 ts2 tr2,
      run_sched s1 m ts = (m1, ts1, tr1) -> finished ts1 ->
      run_sched s2 m ts = (m2, ts2, tr2) -> finished ts2 ->
      forall a, m1 a = m2 a.
    Proof.
      intros ts m F D s1 m1 ts1 tr1 s2 m2 ts2 tr2 H1 F1 H2 F2 a.
      destruct (disjoint_threads_commute m F D s1 H1 F1) as [E1 _].
      destruct (disjoint_threads_commute m F D s2 H2 F2) as [E2 _].
      rewrite E1, E2. reflexivity.
    Qed.

    (** The global trace of a complete schedule is a shuffle of the solo traces. *)
    Theorem schedule_trace_interleaving : forall s (ts : list (prog X)) (m : mem),
      footprints_ok ts -> pairwise_disjoint (length ts) ->
      forall m' ts' tr, run_sched s m ts = (m', ts', tr) -> finished ts' ->
      interleavings (map (fun p => trace_of (exec p m)) ts) (map snd tr).
    Proof.
      induction s as [|l s IH]; intros ts m F D m' ts' tr Hrun Hfin; simpl in Hrun.
      - inversion Hrun; subst. simpl. apply il_nil. intros j t Hj.
        rewrite nth_error_map in Hj. destruct (nth_error ts' j) as [p|] eqn:Hp; simpl in Hj; [|discriminate].
        inversion Hj; subst. apply exec_terminal. eapply Hfin; eauto.
      - destruct (nth_error ts l) as [pl|] eqn:Hl; [|eapply IH; eauto].
        destruct (step1 pl m) as [[[pl' m1] e]|] eqn:Hst; [|eapply IH; eauto].
        destruct (run_sched s m1 (set_nth ts l pl')) as [[m2 ts2] tr2] eqn:Hrec.
        inversion Hrun; subst; clear Hrun. simpl.
        assert (Hll : l < length ts) by (apply nth_error_Some; congruence).
        destruct (fp_step1 _ _ _ _ (F _ _ Hl) Hst) as (Fpl' & Hev & Hfr).
        assert (F1 : footprints_ok (set_nth ts l pl')) by (apply footprints_ok_set; auto).
        assert (D1 : pairwise_disjoint (length (set_nth ts l pl'))) by (rewrite set_nth_length; auto).
        specialize (IH _ _ F1 D1 _ _ _ Hrec Hfin).
        eapply il_cons with (j := l) (l := trace_of (exec pl' m1)).
        + rewrite nth_error_map, Hl. simpl. rewrite (exec_step1 _ _ Hst). reflexivity.
        + (* the other threads' solo traces are the same from m and from m1 *)
          replace (set_nth (map (fun p => trace_of (exec p m)) ts) l (trace_of (exec pl' m1)))
            with (map (fun p => trace_of (exec p m1)) (set_nth ts l pl')); auto.
          rewrite set_nth_map.
          apply set_nth_ext; [rewrite !map_length; reflexivity|].
          intros j Hne. rewrite !nth_error_map.
          destruct (nth_error ts j) as [p|] eqn:Hp; simpl; auto. f_equal.
          assert (Hjl : j < length ts) by (apply nth_error_Some; congruence).
          apply (exec_frame _ _ _ (F _ _ Hp) m1 m).
          intros a Ha. destruct (W l a) eqn:Wl.
          * destruct (D l j a Hll Hjl (not_eq_sym Hne) Wl) as [Rj Wj].
            rewrite Rj, Wj in Ha. discriminate.
          * apply Hfr; auto.
    Qed.

    (** Race freedom on the modelled memory: in any run, two accesses of
        different threads to the same address are both reads. *)
    Lemma run_sched_events_in_fp : forall s (ts : list (prog X)) (m : mem),
      footprints_ok ts ->
      forall m' ts' tr, run_sched s m ts = (m', ts', tr) ->
      forall j e, In (j, e) tr ->
      if is_write e then W j (ev_addr e) = true else R j (ev_addr e) = true.
    Proof.
      induction s as [|l s IH]; intros ts m F m' ts' tr Hrun j e Hin; simpl in Hrun.
      - inversion Hrun; subst. contradiction.
      - destruct (nth_error ts l) as [pl|] eqn:Hl; [|eapply IH; eauto].
        destruct (step1 pl m) as [[[pl' m1] e1]|] eqn:Hst; [|eapply IH; eauto].
        destruct (run_sched s m1 (set_nth ts l pl')) as [[m2 ts2] tr2] eqn:Hrec.
        inversion Hrun; subst; clear Hrun.
        destruct (fp_step1 _ _ _ _ (F _ _ Hl) Hst) as (Fpl' & Hev & Hfr).
        destruct Hin as [Heq | Hin].
        + inversion Heq; subst. exact Hev.
        + eapply IH; [| exact Hrec | exact Hin]. apply footprints_ok_set; auto.
    Qed.

    Theorem no_conflicting_accesses : forall s (ts : list (prog X)) (m : mem),
      footprints_ok ts -> pairwise_disjoint (length ts) ->
      forall m' ts' tr, run_sched s m ts = (m', ts', tr) ->
      forall j1 e1 j2 e2, In (j1, e1) tr -> In (j2, e2) tr ->
      j1 < length ts -> j2 < length ts ->
      j1 <> j2 -> ev_addr e1 = ev_addr e2 -> is_write e1 = false /\ is_write e2 = false.
    Proof.
      intros s ts m F D m' ts' tr Hrun j1 e1 j2 e2 H1 H2 L1 L2 Hne Ha.
      pose proof (run_sched_events_in_fp s m F Hrun _ _ H1) as P1.
      pose proof (run_sched_events_in_fp s m F Hrun _ _ H2) as P2.
      destruct (is_write e1) eqn:W1.
      - destruct (D j1 j2 _ L1 L2 Hne P1) as [Rb Wb]. rewrite Ha in Rb, Wb.
        destruct (is_write e2); congruence.
      - destruct (is_write e2) eqn:W2; auto.
        destruct (D j2 j1 _ L2 L1 (not_eq_sym Hne) P2) as [Rb Wb]. rewrite <- Ha in Rb, Wb. congruence.
    Qed.

    (** Events named in a run belong to existing threads. *)
    Lemma run_sched_event_thread : forall s (ts : list (prog X)) (m : mem) m' ts' tr,
      run_sched s m ts = (m', ts', tr) -> forall j e, In (j, e) tr -> j < length ts.
    Proof.
      induction s as [|l s IH]; intros ts m m' ts' tr Hrun j e Hin; simpl in Hrun.
      - inversion Hrun; subst. contradiction.
      - destruct (nth_error ts l) as [pl|] eqn:Hl; [|eapply IH; eauto].
        destruct (step1 pl m) as [[[pl' m1] e1]|] eqn:Hst; [|eapply IH; eauto].
        destruct (run_sched s m1 (set_nth ts l pl')) as [[m2 ts2] tr2] eqn:Hrec.
        inversion Hrun; subst; clear Hrun.
        destruct Hin as [Heq | Hin].
        + inversion Heq; subst. apply nth_error_Some. congruence.
        + specialize (IH _ _ _ _ _ Hrec _ _ Hin). rewrite set_nth_length in IH. exact IH.
    Qed.
  End Commute.

  (** A complete schedule always exists (run the threads one after another), so
      the theorems above are not vacuous. *)
  Fixpoint steps_of {X} (p : prog X) (m : mem) : nat :=
    match p with
    | Rd a k => S (steps_of (k (m a)) m)
    | Wr a v k => S (steps_of k (upd m a v))
    | _ => 0
    end.

  Lemma run_sched_app {X} : forall s1 s2 m (ts : list (prog X)),
    run_sched (s1 ++ s2) m ts =
    let '(m1, ts1, tr1) := run_sched s1 m ts in
    let '(m2, ts2, tr2) := run_sched s2 m1 ts1 in (m2, ts2, tr1 ++ tr2).
  Proof.
    induction s1 as [|j s1 IH]; intros s2 m ts; simpl.
    - destruct (run_sched s2 m ts) as [[m2 ts2] tr2]. reflexivity.
    - destruct (nth_error ts j) as [p|]; [|apply IH].
      destruct (step1 p m) as [[[p' m1] e]|]; [|apply IH].
      rewrite IH. destruct (run_sched s1 m1 (set_nth ts j p')) as [[m1' ts1] tr1].
      destruct (run_sched s2 m1' ts1) as [[m2 ts2] tr2]. reflexivity.
  Qed.

  Lemma set_nth_id {T} (l : list T) j x : nth_error l j = Some x -> set_nth l j x = l.
  Proof. revert j; induction l; destruct j; simpl; intros H; try discriminate; [congruence|f_equal; auto]. Qed.
  Lemma set_nth_set_nth {T} (l : list T) j x y : set_nth (set_nth l j x) j y = set_nth l j y.
  Proof. revert j; induction l; destruct j; simpl; auto. f_equal; auto. Qed.

  Lemma run_thread_to_end {X} : forall (p : prog X) j ts m,
    nth_error ts j = Some p ->
    exists p' tr, run_sched (repeat j (steps_of p m)) m ts = (mem_of (exec p m), set_nth ts j p', tr)
                  /\ terminal p' = true.
  Proof.
    induction p; intros j ts m Hj; simpl.
    - exists (Ret x), []. rewrite set_nth_id by assumption. auto.
    - exists Fail, []. rewrite set_nth_id by assumption. auto.
    - rewrite Hj. simpl.
      assert (Hl : j < length ts) by (apply nth_error_Some; congruence).
      destruct (H (m a) j (set_nth ts j (k (m a))) m) as (p' & tr & Hr & Ht).
      { apply nth_error_set_nth_same; auto. }
      rewrite Hr. rewrite set_nth_set_nth. exists p', ((j, ERd a (m a)) :: tr).
      destruct (exec (k (m a)) m) as [[r m'] t]. auto.
    - rewrite Hj. simpl.
      assert (Hl : j < length ts) by (apply nth_error_Some; congruence).
      destruct (IHp j (set_nth ts j p) (upd m a v)) as (p' & tr & Hr & Ht).
      { apply nth_error_set_nth_same; auto. }
      rewrite Hr. rewrite set_nth_set_nth. exists p', ((j, EWr a v) :: tr).
      destruct (exec p (upd m a v)) as [[r m'] t]. auto.
  Qed.

  Theorem complete_schedule_exists {X} : forall (ts : list (prog X)) m,
    exists s m' ts' tr, run_sched s m ts = (m', ts', tr) /\ finished ts'.
  Proof.
    intros ts m.
    assert (H : forall k, k <= length ts -> exists s m' ts' tr,
      run_sched s m ts = (m', ts', tr) /\ length ts' = length ts /\
      (forall j p, j < k -> nth_error ts' j = Some p -> terminal p = true)).
    { induction k; intros Hk.
      - exists [], m, ts, []. simpl. repeat split; auto. intros; lia.
      - destruct IHk as (s & m1 & ts1 & tr1 & Hr & Hl & Ht); [lia|].
        destruct (nth_error ts1 k) as [p|] eqn:Hp; [|apply nth_error_None in Hp; lia].
        destruct (run_thread_to_end k ts1 m1 Hp) as (p' & tr2 & Hr2 & Hterm).
        exists (s ++ repeat k (steps_of p m1)), (mem_of (exec p m1)), (set_nth ts1 k p'), (tr1 ++ tr2).
        rewrite run_sched_app, Hr, Hr2. rewrite set_nth_length. repeat split; auto.
        intros j q Hj Hq. destruct (Nat.eq_dec j k) as [->|Hne].
        + rewrite nth_error_set_nth_same in Hq by lia. congruence.
        + rewrite nth_error_set_nth_other in Hq by assumption. apply (Ht j q); auto; lia. }
    destruct (H (length ts) (le_n _)) as (s & m' & ts' & tr & Hr & Hl & Ht).
    exists s, m', ts', tr. split; auto. intros j p Hp. apply (Ht j p); auto.
    rewrite <- Hl. apply nth_error_Some. congruence.
  Qed.
End Prog.

Arguments Fail {A V X}.
Arguments Ret {A V X} x.
Arguments Rd {A V X} a k.
Arguments Wr {A V X} a v k.

(** Renaming of addresses (used to give each model type of an ow-sim generation
    its own arrays). *)
Section MapAddr.
  Variables A B V : Type.
  Variable f : A -> B.
  Fixpoint map_addr {X} (p : prog A V X) : prog B V X :=
    match p with
    | Ret x => Ret x
    | Fail => Fail
    | Rd a k => Rd (f a) (fun v => map_addr (k v))
    | Wr a v k => Wr (f a) v (map_addr k)
    end.
  Lemma fp_map_addr {X} (R W : A -> bool) (R' W' : B -> bool) (p : prog A V X) :
    (forall a, R a = true -> R' (f a) = true) -> (forall a, W a = true -> W' (f a) = true) ->
    fp R W p -> fp R' W' (map_addr p).
  Proof.
    intros HR HW. induction p; simpl; auto.
    - intros [Ra F]. split; auto.
    - intros [Wa F]. split; auto.
  Qed.
End MapAddr.
