(** Binary64 instance of [Arith] on Coq's primitive floats: what is executed
    against the Go code.  Transcendental functions come from a [LibM] record
    supplied by the OCaml driver (OCaml's libm stands in for Go's; results are
    compared to a tolerance wherever one of them is used). *)
From Coq Require Import ZArith Floats Uint63 List.
From OW Require Import Base.Arith.

Record LibM := {
  l_exp : float -> float; l_ln : float -> float; l_log10 : float -> float;
  l_tanh : float -> float; l_cos : float -> float; l_pow : float -> float -> float
}.

Local Open Scope float_scope.

Definition f_is_nan (x : float) : bool := negb (PrimFloat.eqb x x).

Definition f_of_Z (z : Z) : float :=
  match z with
  | Z0 => 0
  | Zpos _ => PrimFloat.of_uint63 (Uint63.of_Z z)
  | Zneg p => PrimFloat.opp (PrimFloat.of_uint63 (Uint63.of_Z (Zpos p)))
  end.

(** value of a finite float as an integer, truncated toward zero *)
Definition f_truncZ (x : float) : Z :=
  match Prim2SF x with
  | S754_finite s m e =>
      let mag := if (0 <=? e)%Z then (Zpos m * 2 ^ e)%Z else (Zpos m / 2 ^ (- e))%Z in
      if s then (- mag)%Z else mag
  | _ => 0%Z
  end.

Definition two53 : float := 9007199254740992.

(** floor/ceil via truncation; values of magnitude >= 2^52 are already integers *)
Definition f_floor (x : float) : float :=
  if f_is_nan x then x else
  if (PrimFloat.leb two53 (PrimFloat.abs x)) then x else
  let t := f_of_Z (f_truncZ x) in
  if PrimFloat.ltb x t then t - 1 else
  (* preserve the sign of zero results the way Go does: floor(-0)= -0 *)
  if PrimFloat.eqb t 0 then (if PrimFloat.ltb x 0 then t else x * 0 + t) else t.
Definition f_ceil (x : float) : float := PrimFloat.opp (f_floor (PrimFloat.opp x)).

(** Go math.Min / math.Max: NaN if either is NaN; otherwise the usual one *)
Definition f_min (a b : float) : float :=
  if f_is_nan a then a else if f_is_nan b then b else
  if PrimFloat.ltb a b then a else if PrimFloat.ltb b a then b else
  (* equal: prefer -0 *) if PrimFloat.ltb (1 / a) (1 / b) then a else b.
Definition f_max (a b : float) : float :=
  if f_is_nan a then a else if f_is_nan b then b else
  if PrimFloat.ltb a b then b else if PrimFloat.ltb b a then a else
  if PrimFloat.ltb (1 / a) (1 / b) then b else a.

Definition FArith (l : LibM) : Arith float := {|
  zero := 0; one := 1;
  add := PrimFloat.add; sub := PrimFloat.sub; mul := PrimFloat.mul; div := PrimFloat.div;
  neg := PrimFloat.opp;
  ltb := PrimFloat.ltb; leb := PrimFloat.leb; eqb := PrimFloat.eqb;
  amin := f_min; amax := f_max; aabs := PrimFloat.abs;
  of_q := fun p q => PrimFloat.div (f_of_Z p) (f_of_Z (Zpos q));
  of_Z := f_of_Z;
  truncZ := f_truncZ;
  afloor := f_floor; aceil := f_ceil;
  asqrt := PrimFloat.sqrt; aexp := l_exp l; aln := l_ln l; alog10 := l_log10 l;
  atanh := l_tanh l; acos := l_cos l;
  apow := l_pow l;
  is_nan := f_is_nan
|}.
