(** Abstract arithmetic: every numerical kernel is written once over [Arith T]
    and instantiated at [R] (theorems) and at primitive binary64 (execution
    against the Go code).  See DESIGN.md section 2.2(a). *)
From Coq Require Import ZArith List.
Import ListNotations.

Class Arith (T : Type) := {
  zero : T; one : T;
  add : T -> T -> T; sub : T -> T -> T; mul : T -> T -> T; div : T -> T -> T;
  neg : T -> T;
  ltb : T -> T -> bool; leb : T -> T -> bool; eqb : T -> T -> bool;
  amin : T -> T -> T; amax : T -> T -> T; aabs : T -> T;
  (** Go untyped constant p/q, rounded once *)
  of_q : Z -> positive -> T;
  of_Z : Z -> T;
  (** Go [int(x)] : truncation toward zero *)
  truncZ : T -> Z;
  afloor : T -> T; aceil : T -> T;
  asqrt : T -> T; aexp : T -> T; aln : T -> T; alog10 : T -> T;
  atanh : T -> T; acos : T -> T;
  apow : T -> T -> T;
  is_nan : T -> bool
}.

Declare Scope ar_scope.
Delimit Scope ar_scope with ar.
Infix "+" := add : ar_scope.
Infix "-" := sub : ar_scope.
Infix "*" := mul : ar_scope.
Infix "/" := div : ar_scope.
Notation "- x" := (neg x) : ar_scope.
Infix "<?" := ltb (at level 70) : ar_scope.
Infix "<=?" := leb (at level 70) : ar_scope.
Infix "=?" := eqb (at level 70) : ar_scope.

Section Derived.
  Context {T : Type} {A : Arith T}.
  Local Open Scope ar_scope.
  Definition gtb (a b : T) : bool := b <? a.
  Definition geb (a b : T) : bool := b <=? a.
  Definition neqb (a b : T) : bool := negb (a =? b).
  (** small decimal constants: [dec n k] is n / 10^k *)
  Definition dec (n : Z) (k : nat) : T := of_q n (Z.to_pos (10 ^ Z.of_nat k)).
  Definition two : T := of_Z 2.
  Fixpoint sum_list (l : list T) : T :=
    match l with [] => zero | x :: r => x + sum_list r end.
  (** Go-style left-to-right accumulation [acc += x] *)
  Definition sum_left (l : list T) : T := fold_left add l zero.
End Derived.
Infix ">?" := gtb (at level 70) : ar_scope.
Infix ">=?" := geb (at level 70) : ar_scope.
