From Coq Require Import List Arith Lia Bool ZArith.
From OW Require Import Base.Arith Base.Mealy Kernels.Muskingum.
Import ListNotations.
Section S.
  Context {T : Type} {A : Arith T}.
Goal forall k x dt e s a b c i1 i2 , muskingum_kernel [k;x;dt;e] (s::a::b::c) [i1;i2] = None.
intros. unfold muskingum_kernel. cbn. Show.
Abort.
End S.
