From OW Require Import Sim.ProtocolProofs.
Print Assumptions writes_once_in_order.
Print Assumptions written_le_spawned.
Print Assumptions token_unique.
Print Assumptions token_unique_exact.
Print Assumptions purge_safe.
Print Assumptions write_after_run.
Print Assumptions exit_implies_all_written.
Print Assumptions done_implies_all_written.
Print Assumptions exit_main_complete.
Print Assumptions no_stuck_state.
Print Assumptions stuck_when_no_generations.
Print Assumptions protocol_schedule_legal.
Print Assumptions protocol_exit_schedule_complete.
Print Assumptions reachable_exit_exists.
Print Assumptions trace_straight_accepted.
Print Assumptions trace_putback_accepted.
Print Assumptions write_out_of_order_rejected.
Print Assumptions purge_before_links_rejected.
Check writes_once_in_order. Check written_le_spawned. Check token_unique. Check token_unique_exact.
Check purge_safe. Check write_after_run. Check exit_implies_all_written. Check done_implies_all_written.
Check exit_main_complete. Check no_stuck_state. Check stuck_when_no_generations.
Check protocol_schedule_legal. Check protocol_exit_schedule_complete. Check reachable_exit_exists.
Print Assumptions exit_writers_done.
