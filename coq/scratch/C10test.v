(** C10 — rainfall-runoff models never create water and keep stores within bounds.
    Only statements, each closed by [exact <lemma>]; models in Kernels/*.v, proofs in
    KernelProofs/{Gr4jMath,Gr4jUH,Gr4j,Simhyd,Surm,Coeff,Sacramento}.v.  All statements are
    over exact reals (instance RArith) and hold for series of ANY length.  The parameter-range
    predicates are boolean and written out here. *)
From Coq Require Import Reals List Bool ZArith.
From OW Require Import Base.Arith Base.RInst Base.Mealy
  Kernels.Gr4j Kernels.Simhyd Kernels.Surm Kernels.Coeff Num.Gr4jSpec
  KernelProofs.RRCommon KernelProofs.Gr4jUH KernelProofs.Gr4j
  KernelProofs.Simhyd KernelProofs.Surm KernelProofs.Coeff.
Import ListNotations.
Local Open Scope R_scope.

(** ** GR4J *)
(** x1 >= 1 mm, x3 >= 1 mm, 0.5 <= x4 <= 4 days (documented ranges [1,1500], [1,500], [0.5,4]);
    the exchange coefficient x2 is constrained only where a clause needs it *)
Definition C10_gr4j_ok (x1 x3 x4 : R) : bool :=
  Rleb 1 x1 && Rleb 1 x3 && Rleb (1 / 2) x4 && Rleb x4 4.

(** store invariant: 0 <= S <= x1, 0 <= R, unit-hydrograph stores non-negative, of lengths n2, n1 *)
Definition C10_gr4j_inv (x1 : R) (n1 n2 : nat) (st : gr4j_st (T:=R)) : Prop :=
  0 <= g_s st <= x1 /\ 0 <= g_r st /\
  Forall (fun x => 0 <= x) (g_q1 st) /\ Forall (fun x => 0 <= x) (g_q9 st) /\
  length (g_q1 st) = n2 /\ length (g_q9 st) = n1.
Definition C10_gr4j_stock (st : gr4j_st (T:=R)) : R :=
  g_s st + g_r st + rr_sum (g_q1 st) + rr_sum (g_q9 st).

(** both unit hydrographs: 1..4 resp. 1..8 non-negative ordinates summing to one *)
Theorem C10_gr4j_uh_sums_to_one :
  forall x4 n1 n2, 1 / 2 <= x4 <= 4 -> is_ceil x4 n1 -> is_ceil (2 * x4) n2 ->
  (1 <= n1 <= 4)%nat /\ (1 <= n2 <= 8)%nat /\
  Forall (fun u => 0 <= u) (gr4j_uh1 x4 n1) /\ rr_sum (gr4j_uh1 x4 n1) = 1 /\ length (gr4j_uh1 x4 n1) = n1 /\
  Forall (fun u => 0 <= u) (gr4j_uh2 x4 n2) /\ rr_sum (gr4j_uh2 x4 n2) = 1 /\ length (gr4j_uh2 x4 n2) = n2.
Proof. exact gr4j_uh_c10. Qed.
Print Assumptions C10_gr4j_uh_sums_to_one.

(** stores bounded, runoff non-negative, R < x3; for x2 <= 0 no water created (whole run and
    every prefix); for x2 = 0 and PET = 0 the balance closes exactly:
    sum P = sum Q + change in (S + R + sum q1 + sum q9) *)
Theorem C10_gr4j :
  forall x1 x2 x3 x4 n1 n2 st io,
  C10_gr4j_ok x1 x3 x4 = true -> is_ceil x4 n1 -> is_ceil (2 * x4) n2 ->
  C10_gr4j_inv x1 n1 n2 st -> io_nonneg io ->
  let r := gr4j_run x1 x2 x3 x4 n1 n2 st io in
  C10_gr4j_inv x1 n1 n2 (fst r) /\ Forall (fun q => 0 <= q) (snd r) /\
  (g_r st < x3 -> g_r (fst r) < x3) /\
  (x2 <= 0 ->
     C10_gr4j_stock (fst r) + rr_sum (snd r) <= C10_gr4j_stock st + rr_sum (map fst io) /\
     forall t, rr_sum (firstn t (snd r)) <= rr_sum (firstn t (map fst io)) + C10_gr4j_stock st) /\
  (x2 = 0 -> Forall (fun x => snd x = 0) io ->
     rr_sum (map fst io) = rr_sum (snd r) + (C10_gr4j_stock (fst r) - C10_gr4j_stock st)).
Proof. exact gr4j_c10. Qed.
Print Assumptions C10_gr4j.

(** the model's own initial state (InitialiseStates: zeros, n1 = ceil x4, n2 = ceil 2 x4)
    satisfies the invariant and holds no water *)
Theorem C10_gr4j_zero_state : forall x1 n1 n2, 0 < x1 ->
  C10_gr4j_inv x1 n1 n2 {| g_s := 0; g_r := 0; g_q1 := repeat 0 n2; g_q9 := repeat 0 n1 |} /\
  C10_gr4j_stock {| g_s := 0; g_r := 0; g_q1 := repeat 0 n2; g_q9 := repeat 0 n1 |} = 0.
Proof. exact gr4j_zero_state_inv. Qed.
Print Assumptions C10_gr4j_zero_state.

Example C10_gr4j_ok_satisfiable :
  C10_gr4j_ok 350 90 (17 / 10) = true /\ is_ceil (17 / 10) 2 /\ is_ceil (2 * (17 / 10)) 4.
Proof. exact gr4j_ok_satisfiable. Qed.

(** ** Simhyd *)
Definition C10_simhyd_ok (p : simhyd_par (T:=R)) : bool :=
  Rleb 0 (sh_baseflowCoefficient p) && Rleb (sh_baseflowCoefficient p) 1 &&
  Rleb 0 (sh_imperviousThreshold p) && Rleb 0 (sh_infiltrationCoefficient p) &&
  Rleb 0 (sh_interflowCoefficient p) && Rleb (sh_interflowCoefficient p) 1 &&
  Rleb 0 (sh_perviousFraction p) && Rleb (sh_perviousFraction p) 1 &&
  Rleb 0 (sh_risc p) &&
  Rleb 0 (sh_rechargeCoefficient p) && Rleb (sh_rechargeCoefficient p) 1 &&
  Rltb 0 (sh_smsc p).
Definition C10_simhyd_inv (p : simhyd_par (T:=R)) (st : simhyd_st (T:=R)) : Prop :=
  0 <= sh_sms st <= sh_smsc p /\ 0 <= sh_gw st.
Definition C10_simhyd_stock (p : simhyd_par (T:=R)) (st : simhyd_st (T:=R)) : R :=
  sh_perviousFraction p * (sh_sms st + sh_gw st).
Definition C10_simhyd_out_ok (p : simhyd_par (T:=R)) (o : simhyd_out (T:=R)) : Prop :=
  0 <= sh_runoff o /\ 0 <= sh_quickflow o /\ 0 <= sh_baseflow o /\
  0 <= sh_store o <= sh_smsc p /\ sh_runoff o = sh_quickflow o + sh_baseflow o.

Theorem C10_simhyd : forall p st io, C10_simhyd_ok p = true -> C10_simhyd_inv p st -> io_nonneg io ->
  C10_simhyd_inv p (fst (simhyd_run p st io)) /\
  Forall (C10_simhyd_out_ok p) (snd (simhyd_run p st io)) /\
  rr_sum (map sh_runoff (snd (simhyd_run p st io))) + C10_simhyd_stock p (fst (simhyd_run p st io))
    <= rr_sum (map fst io) + C10_simhyd_stock p st /\
  (forall t, rr_sum (firstn t (map sh_runoff (snd (simhyd_run p st io))))
             <= rr_sum (firstn t (map fst io)) + C10_simhyd_stock p st).
Proof. exact simhyd_c10. Qed.
Print Assumptions C10_simhyd.

(** per-step exact budget with the (unreported) actual ET: rain = runoff + ET + change in stores *)
Theorem C10_simhyd_step_budget : forall p st io, C10_simhyd_ok p = true -> C10_simhyd_inv p st ->
  0 <= fst io -> 0 <= snd io ->
  exists et, 0 <= et /\
    fst io + C10_simhyd_stock p st =
    sh_runoff (snd (simhyd_step p st io)) + et + C10_simhyd_stock p (fst (simhyd_step p st io)).
Proof. exact simhyd_step_budget. Qed.
Print Assumptions C10_simhyd_step_budget.

Example C10_simhyd_ok_satisfiable : exists p, C10_simhyd_ok p = true.
Proof. exact simhyd_ok_satisfiable. Qed.

(** ** Surm *)
Definition C10_surm_ok (p : surm_par (T:=R)) : bool :=
  Rleb 0 (su_bfac p) && Rleb (su_bfac p) 1 && Rleb 0 (su_coeff p) &&
  Rleb 0 (su_dseep p) && Rleb (su_dseep p) 1 && Rleb 0 (su_fcFrac p) && Rleb (su_fcFrac p) 1 &&
  Rleb 0 (su_fimp p) && Rleb (su_fimp p) 1 && Rleb 0 (su_rfac p) && Rleb (su_rfac p) 1 &&
  Rleb 10 (su_smax p) && Rleb 0 (su_thres p).
Definition C10_surm_inv (p : surm_par (T:=R)) (st : surm_st (T:=R)) : Prop :=
  0 <= su_sms st <= su_smax p /\ 0 <= su_gw st.
Definition C10_surm_stock (p : surm_par (T:=R)) (st : surm_st (T:=R)) : R :=
  (1 - su_fimp p) * (su_sms st + su_gw st).
Definition C10_surm_out_ok (o : surm_out (T:=R)) : Prop :=
  0 <= su_runoff o /\ 0 <= su_quickflow o /\ 0 <= su_baseflow o /\ 0 <= su_store o /\
  su_runoff o = su_quickflow o + su_baseflow o.

Theorem C10_surm : forall p st io, C10_surm_ok p = true -> C10_surm_inv p st -> io_nonneg io ->
  C10_surm_inv p (fst (surm_run p st io)) /\
  Forall C10_surm_out_ok (snd (surm_run p st io)) /\
  rr_sum (map su_runoff (snd (surm_run p st io))) + C10_surm_stock p (fst (surm_run p st io))
    <= rr_sum (map fst io) + C10_surm_stock p st /\
  (forall t, rr_sum (firstn t (map su_runoff (snd (surm_run p st io))))
             <= rr_sum (firstn t (map fst io)) + C10_surm_stock p st).
Proof. exact surm_c10. Qed.
Print Assumptions C10_surm.

Theorem C10_surm_step_budget : forall p st io, C10_surm_ok p = true -> C10_surm_inv p st ->
  0 <= fst io -> 0 <= snd io ->
  exists loss, 0 <= loss /\
    fst io + C10_surm_stock p st =
    su_runoff (snd (surm_step p st io)) + loss + C10_surm_stock p (fst (surm_step p st io)).
Proof. exact surm_step_budget. Qed.
Print Assumptions C10_surm_step_budget.

Example C10_surm_ok_satisfiable : exists p, C10_surm_ok p = true.
Proof. exact surm_ok_satisfiable. Qed.

(** the bound smax >= 10 is needed: below it min(10*S/smax, pet) can exceed S and the soil
    store goes negative *)
Example C10_surm_smax_bound_needed : exists p st io,
  0 <= su_bfac p <= 1 /\ 0 <= su_coeff p /\ 0 <= su_dseep p <= 1 /\ 0 <= su_fcFrac p <= 1 /\
  0 <= su_fimp p <= 1 /\ 0 <= su_rfac p <= 1 /\ 0 < su_smax p < 10 /\ 0 <= su_thres p /\
  C10_surm_inv p st /\ 0 <= fst io /\ 0 <= snd io /\ su_sms (fst (surm_step p st io)) < 0.
Proof. exact surm_smax_bound_needed. Qed.

(** ** RunoffCoefficient *)
Theorem C10_runoff_coefficient : forall c rain, 0 <= c <= 1 -> Forall (fun r => 0 <= r) rain ->
  length (coeff_run c rain) = length rain /\
  coeff_run c rain = map (fun r => c * r) rain /\
  Forall (fun q => 0 <= q) (coeff_run c rain) /\
  (forall t, rr_sum (firstn t (coeff_run c rain)) <= rr_sum (firstn t rain)).
Proof. exact coeff_c10. Qed.
Print Assumptions C10_runoff_coefficient.
