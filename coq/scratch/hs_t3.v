(** C06 / C14 for the Storage reservoir kernel (models/storage/storage.go),
    for ANY [Arith] instance.

    The only state that is read is currentVolume; level and area are
    recomputed from the volume at the end of every call (and a failure of that
    table lookup is a Go panic).

    [storage_kernel_causal]: full.
    [storage_kernel_split_partial]: if the first segment returns (no panic in
      its time steps NOR in the level / area lookup at the cut volume), the
      whole run equals the split run, outputs, final states and later panics
      included.  What is missing for the unconditional statement: that a panic
      of the level/area lookup at the cut volume implies a panic of the whole
      run (true for well-formed tables, where neither panics; not proved for
      arbitrary ones, e.g. a one-point table).
    With a configuration error (nLVA = 0 or no positive volume) the kernel
      returns without touching outputs and with states (0,0,0) in every call:
      whole and split runs agree trivially (covered by the theorem). *)
From Coq Require Import List Arith Lia Bool ZArith.
From OW Require Import Base.Arith Base.Mealy KernelProofs.HotStart Kernels.Storage.
Import ListNotations.

Section AllSomeSt.
  Context {T X : Type}.
  Variable F : list X -> list (list T).
  Hypothesis HF : rows_laws F.

  Lemma st_all_some_app : forall (a b : list (option X)),
    all_some (a ++ b) = match all_some a, all_some b with Some x, Some y => Some (x ++ y) | _, _ => None end.
  Proof.
    induction a as [|[x|] a IH]; intros b; cbn.
    - destruct (all_some b); reflexivity.
    - rewrite IH. destruct (all_some a), (all_some b); reflexivity.
    - reflexivity.
  Qed.
  Lemma st_all_some_firstn t : forall (os : list (option X)) l,
    all_some os = Some l -> all_some (firstn t os) = Some (firstn t l).
  Proof.
    induction t as [|t IH]; intros os l H; [reflexivity|].
    destruct os as [|[x|] os]; cbn in H |- *.
    - injection H as <-. reflexivity.
    - destruct (all_some os) as [l'|] eqn:E; [|discriminate]. injection H as <-.
      now rewrite (IH os l' E).
    - discriminate.
  Qed.
  Lemma st_all_some_outs_laws : outs_laws (fun os => option_map F (all_some os)).
  Proof.
    constructor.
    - intros a b. rewrite st_all_some_app. destruct (all_some a), (all_some b); cbn; try reflexivity.
      now rewrite (rl_app F HF).
    - intros t os o H. destruct (all_some os) as [l|] eqn:E; [|discriminate]. injection H as <-.
      rewrite (st_all_some_firstn t os l E). cbn. now rewrite (rl_firstn F HF).
  Qed.
End AllSomeSt.

Section S.
  Context {T : Type} {A : Arith T}.
  Local Open Scope ar_scope.

  Definition st_zip (ins : list (list T)) : option (list (tsin (T := T))) :=
    match ins with
    | [r; p; i; d; tv; tc] => Some (zip_inputs r p i d tv tc)
    | _ => None
    end.

  Lemma firstn_zip_inputs n : forall (r p i d tv tc : list T),
    firstn n (zip_inputs r p i d tv tc) =
    zip_inputs (firstn n r) (firstn n p) (firstn n i) (firstn n d) (firstn n tv) (firstn n tc).
  Proof.
    induction n as [|n IH]; intros r p i d tv tc; [reflexivity|].
    destruct r as [|? r]; [reflexivity|]. destruct p as [|? p]; [reflexivity|].
    destruct i as [|? i]; [reflexivity|]. destruct d as [|? d]; [reflexivity|].
    destruct tv as [|? tv]; [reflexivity|]. destruct tc as [|? tc]; [reflexivity|].
    cbn. now rewrite IH.
  Qed.
  Lemma zip_inputs_nil_any (r p i d tv tc : list T) :
    r = [] \/ p = [] \/ i = [] \/ d = [] \/ tv = [] \/ tc = [] -> zip_inputs r p i d tv tc = [].
  Proof.
    intros H. destruct r; [reflexivity|]. destruct p; [reflexivity|]. destruct i; [reflexivity|].
    destruct d; [reflexivity|]. destruct tv; [reflexivity|]. destruct tc; [reflexivity|].
    destruct H as [H|[H|[H|[H|[H|H]]]]]; discriminate.
  Qed.
  Ltac nil_disj := repeat match goal with |- _ \/ _ => first [left; reflexivity | right] end; reflexivity.
  Lemma skipn_zip_inputs n : forall (r p i d tv tc : list T),
    skipn n (zip_inputs r p i d tv tc) =
    zip_inputs (skipn n r) (skipn n p) (skipn n i) (skipn n d) (skipn n tv) (skipn n tc).
  Proof.
    induction n as [|n IH]; intros r p i d tv tc; [reflexivity|].
    destruct r as [|? r]; [reflexivity|].
    destruct p as [|? p]. cbn [skipn]. Show.
Abort.
End S.
