From Coq Require Import Reals Lra Lia List ZArith Bool.
From OW Require Import Base.Arith Base.RInst Base.Mealy Kernels.Gr4j Num.Gr4jSpec
  KernelProofs.RRCommon KernelProofs.Gr4jMath KernelProofs.Gr4jUH.
Local Open Scope R_scope.
Lemma sum_upto_shift f n : sum_upto f (S n) = f O + sum_upto (fun k => f (S k)) n.
Proof.
  induction n as [|n IH]; [cbn; lra|].
  change (sum_upto f (S (S n))) with (sum_upto f (S n) + f (S n)). rewrite IH. cbn. lra.
Qed.
Goal forall (c:R) (uh:nat->R) b pr prs t, 
 nth (S t) b 0 + c * pr * uh (S (S t)) +
 sum_upto (fun k : nat => c * nth k prs 0 * uh (t - k + 1)%nat) (S t) = 
    nth (S t) b 0 + sum_upto (fun k => c * nth k (pr :: prs) 0 * uh (S t - k + 1)%nat) (S (S t)).
Proof.
 intros.
    rewrite (sum_upto_shift _ (S t)). cbn [nth Nat.sub].
Show.
Abort.
Goal forall (c:R) (uh:nat->R) b pr prs T i, 
 nth (S (T+i)) b 0 + c * pr * uh (S (S (T+i))) +
 sum_upto (fun k : nat => c * nth k prs 0 * uh (T - k + i + 1)%nat) T = 
    nth (S T + i) b 0 + sum_upto (fun k => c * nth k (pr :: prs) 0 * uh (S T - k + i + 1)%nat) (S T).
Proof.
 intros.
    rewrite (sum_upto_shift _ T). cbn [nth Nat.sub Nat.add].
Show.
Abort.
