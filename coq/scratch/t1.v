From Coq Require Import Reals Lra Lia ZArith List.
From Coquelicot Require Import Coquelicot.
From Interval Require Import Tactic.
From OW Require Import Base.Arith Base.RInst Num.Climate.
Local Open Scope R_scope.

Lemma Rpow10 x : Rpow 10 x = exp (x * ln 10).
Proof.
  unfold Rpow. destruct (Req_EM_T x 0) as [->|].
  - now rewrite Rmult_0_l, exp_0.
  - destruct (Req_EM_T 10 0); [lra|reflexivity].
Qed.

Goal forall t : R, gg_exponent_above t = 0.
intros. unfold gg_exponent_above, ten. runfold. rewrite !Rpow10. unfold Rlog10.
Show.
Abort.
Goal forall t : R, calc_vapor_pressure t = 0.
intros. unfold calc_vapor_pressure, ten. runfold. 
Show.
Abort.
