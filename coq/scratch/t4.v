From Coq Require Import Reals Lra Lia ZArith List.
From Coquelicot Require Import Coquelicot.
From Interval Require Import Tactic.
Local Open Scope R_scope.

Definition pA (t : R) : R :=
  (37316 / 100 / (t + 27316 / 100) - 1) * (-790298 / 100000) +
  ln (37316 / 100 / (t + 27316 / 100)) / ln 10 * (502808 / 100000) +
  (exp ((1 - 1 / (37316 / 100 / (t + 27316 / 100))) * (11344 / 1000) * ln 10) - 1) * (-13816 / 100000000000) +
  (exp (-349149 / 100000 * (37316 / 100 / (t + 27316 / 100) - 1) * ln 10) - 1) * (81328 / 10000000).

Lemma key100_above t : 0 <= t <= 55 ->
  ln (101325/1000 * 100 / 100 / (6108/10000)) + pA t * ln 10 <= 1727/100 * (t+1/100) / (2373/10 + (t+1/100)).
Proof. intros. apply Rminus_le_0. unfold pA. Time interval with (i_bisect t, i_prec 50). Qed.
Lemma key100_above' t : 0 <= t <= 55 ->
  ln (101325/1000 * 100 / 100 / (6108/10000)) + pA t * ln 10 <= 1727/100 * (t+1/100) / (2373/10 + (t+1/100)).
Proof. intros. apply Rminus_le_0. unfold pA. Time interval with (i_bisect t, i_taylor t, i_prec 50). Qed.
