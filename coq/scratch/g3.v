
Section Equal.
  Variables x1 x2 x3 x4 : R.
  Variables n1 n2 : nat.
  Hypothesis Hx1 : 0 < x1.
  Hypothesis Hx3 : 0 < x3.
  Hypothesis Hx4 : 0 < x4.
  Hypothesis Hn1 : is_ceil x4 n1.
  Hypothesis Hn2 : is_ceil (2 * x4) n2.

  Lemma spec_run_cons S0 Rs q1 q9 P E io : length q1 = n2 -> length q9 = n1 ->
    spec_run x1 x2 x3 x4 n1 n2 S0 Rs q1 q9 ((P, E) :: io) =
    let (S1, Pr) := spec_production x1 S0 P E in
    let q9a := uh_add (Pr * (9 / 10)) q9 (gr4j_uh1 x4 n1) in
    let q1a := uh_add (Pr * (1 / 10)) q1 (gr4j_uh2 x4 n2) in
    let (R1, Q) := spec_routing x2 x3 Rs (nth 0 q9a 0) (nth 0 q1a 0) in
    let sp := spec_run x1 x2 x3 x4 n1 n2 S1 R1 (uh_shift q1a) (uh_shift q9a) io in
    {| sp_S := sp_S sp; sp_R := sp_R sp; sp_q1 := sp_q1 sp; sp_q9 := sp_q9 sp; sp_Q := Q :: sp_Q sp |}.
  Proof.
    intros Hl1 Hl9.
    destruct (gr4j_uh1_sums_to_one x4 n1 Hx4 Hn1) as [_ [_ Hlu1]].
    destruct (gr4j_uh2_sums_to_one x4 n2 Hx4 Hn2) as [_ [_ Hlu2]].
    assert (Hu1 : forall i, nth i (gr4j_uh1 x4 n1) 0 = UH1 x4 (S i)) by (intros; apply uh1_nth; auto).
    assert (Hu2 : forall i, nth i (gr4j_uh2 x4 n2) 0 = UH2 x4 (S i)) by (intros; apply uh2_nth; auto).
    assert (Hb9 : length q9 = length (gr4j_uh1 x4 n1)) by congruence.
    assert (Hb1 : length q1 = length (gr4j_uh2 x4 n2)) by congruence.
    unfold spec_run. cbn [spec_production_run].
    destruct (spec_production x1 S0 P E) as [S1 Pr].
    destruct (spec_production_run x1 S1 io) as [ST prs].
    cbn [length seq map]. rewrite <- !seq_shift, !map_map.
    rewrite (map_ext _ _ (fun t => conv_out_cons (9 / 10) (UH1 x4) (gr4j_uh1 x4 n1) Hu1 q9 Pr prs t Hb9)).
    rewrite (map_ext _ _ (fun t => conv_out_cons (1 / 10) (UH2 x4) (gr4j_uh2 x4 n2) Hu2 q1 Pr prs t Hb1)).
    rewrite (map_ext _ _ (fun i => conv_carry_cons (9 / 10) (UH1 x4) (gr4j_uh1 x4 n1) Hu1 q9 Pr prs (length io) i Hb9)).
    rewrite (map_ext _ _ (fun i => conv_carry_cons (1 / 10) (UH2 x4) (gr4j_uh2 x4 n2) Hu2 q1 Pr prs (length io) i Hb1)).
    rewrite (conv_out_head (9 / 10) (UH1 x4) q9 Pr prs), (conv_out_head (1 / 10) (UH2 x4) q1 Pr prs).
    rewrite <- (buffer_step_out (9 / 10) (UH1 x4) (gr4j_uh1 x4 n1) Hu1 q9 Pr Hb9).
    rewrite <- (buffer_step_out (1 / 10) (UH2 x4) (gr4j_uh2 x4 n2) Hu2 q1 Pr Hb1).
    cbn [combine spec_routing_run].
    destruct (spec_routing x2 x3 Rs _ _) as [R1 Q].
    destruct (spec_routing_run x2 x3 R1 _) as [RT Qs]. reflexivity.
  Qed.

  Lemma gr4j_run_cons st P E io :
    gr4j_run x1 x2 x3 x4 n1 n2 st ((P, E) :: io) =
    let '(S2, Pr) := gr4j_production x1 (g_s st) P E in
    let q9a := uh_add (Pr * (9 / 10)) (g_q9 st) (gr4j_uh1 x4 n1) in
    let q1a := uh_add (Pr * (1 / 10)) (g_q1 st) (gr4j_uh2 x4 n2) in
    let '(R3, qtot) := gr4j_routing x2 x3 (g_r st) (nth 0 q9a 0) (nth 0 q1a 0) in
    let r := gr4j_run x1 x2 x3 x4 n1 n2
               {| g_s := S2; g_r := R3; g_q1 := uh_shift q1a; g_q9 := uh_shift q9a |} io in
    (fst r, qtot :: snd r).
  Proof.
    unfold gr4j_run. cbn [run]. unfold gr4j_step at 1.
    cbn [gr4j_mkpar g_x1 g_x2 g_x3 g_x4 g_uh1 g_uh2].
    destruct (gr4j_production x1 (g_s st) P E) as [S2 Pr]. runfold. cbv zeta.
    destruct (gr4j_routing x2 x3 (g_r st) _ _) as [R3 qtot].
    destruct (run _ _ io) as [s2 os]. reflexivity.
  Qed.

  Definition cap_ok (io : list (R * R)) : Prop :=
    Forall (fun x => Rabs (fst x - snd x) <= 13 * x1) io.

  (** C15 [core]: run of the code = run of the published model, for every series and all
      initial stores with 0 <= S <= x1, 0 <= R and unit-hydrograph stores of the right lengths
      (their contents are arbitrary).  Side condition: |P - E| <= 13 x1 every day, because the
      code caps the argument of tanh at 13 and the published equations do not. *)
  Theorem gr4j_equals_published io : forall st,
    0 <= g_s st <= x1 -> 0 <= g_r st -> length (g_q1 st) = n2 -> length (g_q9 st) = n1 ->
    io_nonneg io -> cap_ok io ->
    let r := gr4j_run x1 x2 x3 x4 n1 n2 st io in
    let sp := spec_run x1 x2 x3 x4 n1 n2 (g_s st) (g_r st) (g_q1 st) (g_q9 st) io in
    g_s (fst r) = sp_S sp /\ g_r (fst r) = sp_R sp /\ g_q1 (fst r) = sp_q1 sp /\
    g_q9 (fst r) = sp_q9 sp /\ snd r = sp_Q sp.
  Proof.
    destruct (gr4j_uh1_sums_to_one x4 n1 Hx4 Hn1) as [_ [_ Hlu1]].
    destruct (gr4j_uh2_sums_to_one x4 n2 Hx4 Hn2) as [_ [_ Hlu2]].
    pose proof (is_ceil_pos x4 n1 Hx4 Hn1) as Hn1p.
    pose proof (is_ceil_pos (2 * x4) n2 ltac:(lra) Hn2) as Hn2p.
    induction io as [|[P E] io IH]; intros st HS HR Hl1 Hl9 Hio Hcap.
    - cbn. unfold spec_run. cbn.
      rewrite (map_ext _ _ (conv_carry_nil (1 / 10) (UH2 x4) (g_q1 st))).
      rewrite (map_ext _ _ (conv_carry_nil (9 / 10) (UH1 x4) (g_q9 st))).
      rewrite <- Hl1 at 1. rewrite <- Hl9 at 1. rewrite !map_nth_seq. auto.
    - apply Forall_cons_iff in Hio. destruct Hio as [[HP HE] Hio'].
      apply Forall_cons_iff in Hcap. destruct Hcap as [Hc Hcap'].
      cbn [fst snd] in *.
      cbv zeta. rewrite spec_run_cons by auto. rewrite gr4j_run_cons.
      rewrite gr4j_production_spec by auto.
      pose proof (gr4j_production_facts x1 (g_s st) P E Hx1 HS HP HE) as Hpf. cbv zeta in Hpf.
      rewrite gr4j_production_spec in Hpf by auto.
      destruct (spec_production x1 (g_s st) P E) as [S1 Pr]. cbn [fst snd] in Hpf.
      destruct Hpf as [HS1 _]. cbv zeta.
      set (q9a := uh_add (Pr * (9 / 10)) (g_q9 st) (gr4j_uh1 x4 n1)).
      set (q1a := uh_add (Pr * (1 / 10)) (g_q1 st) (gr4j_uh2 x4 n2)).
      destruct (gr4j_routing_spec x2 x3 (g_r st) (nth 0 q9a 0) (nth 0 q1a 0) Hx3 HR) as [Hrt HR1].
      rewrite Hrt in *. destruct (spec_routing x2 x3 (g_r st) (nth 0 q9a 0) (nth 0 q1a 0)) as [R1 Q].
      cbn [fst] in HR1.
      assert (Hl9a : length q9a = n1) by (unfold q9a; rewrite uh_add_length; congruence).
      assert (Hl1a : length q1a = n2) by (unfold q1a; rewrite uh_add_length; congruence).
      assert (Hne9 : q9a <> []) by (intros E0; rewrite E0 in Hl9a; cbn in Hl9a; lia).
      assert (Hne1 : q1a <> []) by (intros E0; rewrite E0 in Hl1a; cbn in Hl1a; lia).
      specialize (IH {| g_s := S1; g_r := R1; g_q1 := uh_shift q1a; g_q9 := uh_shift q9a |}).
      cbn [g_s g_r g_q1 g_q9] in IH.
      specialize (IH HS1 HR1 ltac:(rewrite uh_shift_length; auto) ltac:(rewrite uh_shift_length; auto) Hio' Hcap').
      cbv zeta in IH.
      cbn [fst snd sp_S sp_R sp_q1 sp_q9 sp_Q].
      destruct IH as [A [B [C [D F]]]]. repeat split; auto. now rewrite F.
  Qed.
End Equal.
