From OW Require Import KernelProofs.Gr4j.
Check gr4j_step_facts.
