From Coq Require Import Reals Lra Lia ZArith List.
From Coquelicot Require Import Coquelicot.
From Interval Require Import Tactic.
From OW Require Import Base.Arith Base.RInst Num.Climate.
Local Open Scope R_scope.

Definition pA (t : R) : R :=
  (37316 / 100 / (t + 27316 / 100) - 1) * (-790298 / 100000) +
  ln (37316 / 100 / (t + 27316 / 100)) / ln 10 * (502808 / 100000) +
  (exp ((1 - 1 / (37316 / 100 / (t + 27316 / 100))) * (11344 / 1000) * ln 10) - 1) * (-13816 / 100000000000) +
  (exp (-349149 / 100000 * (37316 / 100 / (t + 27316 / 100) - 1) * ln 10) - 1) * (81328 / 10000000).

Lemma pA_derive_pos t : -40 <= t <= 56 -> exists d, is_derive pA t d /\ 0 < d.
Proof.
  intros H. eexists. split.
  - unfold pA. auto_derive. 2: reflexivity.
    Show.
    repeat split; try interval.
  - Show. Time interval with (i_bisect t, i_prec 40).
Qed.
