From Coq Require Import Reals Lra Lia ZArith List.
From Coquelicot Require Import Coquelicot.
From Interval Require Import Tactic.
From OW Require Import Base.Arith Base.RInst Num.Climate.
Local Open Scope R_scope.

Definition pA (t : R) : R :=
  (37316 / 100 / (t + 27316 / 100) - 1) * (-790298 / 100000) +
  ln (37316 / 100 / (t + 27316 / 100)) / ln 10 * (502808 / 100000) +
  (exp ((1 - 1 / (37316 / 100 / (t + 27316 / 100))) * (11344 / 1000) * ln 10) - 1) * (-13816 / 100000000000) +
  (exp (-349149 / 100000 * (37316 / 100 / (t + 27316 / 100) - 1) * ln 10) - 1) * (81328 / 10000000).

Definition pB (t : R) : R :=
  -909718 / 100000 * (27316 / 100 / (t + 27316 / 100) - 1) +
  -356654 / 100000 * (ln (27316 / 100 / (t + 27316 / 100)) / ln 10) +
  876793 / 1000000 * (1 - 1 / (27316 / 100 / (t + 27316 / 100))) +
  ln (60273 / 10000000) / ln 10.

Goal forall t, gg_exponent_below t = pB t.
intros. unfold gg_exponent_below, ten. runfold. unfold Rlog10. Show. reflexivity. Qed.

Lemma pB_derive_pos t : -238 <= t <= 1 -> exists d, is_derive pB t d /\ 0 < d.
Proof.
  intros H. eexists. split.
  - unfold pB. auto_derive. 2: reflexivity.
    repeat split; try interval.
  - Time interval with (i_bisect t, i_prec 40).
Qed.

Lemma pA_derive_pos t : -238 <= t <= 56 -> exists d, is_derive pA t d /\ 0 < d.
Proof.
  intros H. eexists. split.
  - unfold pA. auto_derive. 2: reflexivity.
    repeat split; try interval.
  - Time interval with (i_bisect t, i_prec 40).
Qed.

Lemma jump : pB 0 < pA 0.
Proof. apply Rminus_lt_0. unfold pA, pB. Time interval with (i_prec 60). Qed.

(* dew <= dry at 99 *)
Lemma key99_above t : 0 <= t <= 55 ->
  ln (101325/1000 * exp (pA t * ln 10) * 99 / 100 / (6108/10000)) <= 1727/100 * t / (2373/10 + t).
Proof. intros. apply Rminus_le_0. unfold pA. Time interval with (i_bisect t, i_prec 50). Qed.
Lemma key99_below t : -40 <= t <= 0 ->
  ln (101325/1000 * exp (pB t * ln 10) * 99 / 100 / (6108/10000)) <= 1727/100 * t / (2373/10 + t).
Proof. intros. apply Rminus_le_0. unfold pB. Time interval with (i_bisect t, i_prec 50). Qed.
Lemma key100_above t : 0 <= t <= 55 ->
  ln (101325/1000 * exp (pA t * ln 10) * 100 / 100 / (6108/10000)) <= 1727/100 * (t+1/100) / (2373/10 + (t+1/100)).
Proof. intros. apply Rminus_le_0. unfold pA. Time interval with (i_bisect t, i_prec 50). Qed.
Lemma wit : 4419/100 < 2373/10 * ln (101325/1000 * exp (pA (4419/100) * ln 10) * 100 / 100 / (6108/10000)) / (1727/100 - ln (101325/1000 * exp (pA (4419/100) * ln 10) * 100 / 100 / (6108/10000))).
Proof. apply Rminus_lt_0. unfold pA. Time interval with (i_prec 60). Qed.
Lemma pa_lo e : 0 <= e <= 10000 -> 27 < 1013/10 * exp (526/100 * ln ((293 - 65/10000*e)/293)).
Proof. intros. Time interval with (i_bisect e, i_prec 40). Qed.
