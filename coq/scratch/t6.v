From Coq Require Import Reals Lra ZArith.
Search exp pow.
Search IZR Z.pow.
Check pow_lt_compat. 
