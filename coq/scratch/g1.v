From Coq Require Import Reals Lra Lia List ZArith Bool.
From OW Require Import Base.Arith Base.RInst Base.Mealy Kernels.Gr4j Num.Gr4jSpec
  KernelProofs.RRCommon KernelProofs.Gr4jMath KernelProofs.Gr4jUH.
Import ListNotations.
Local Open Scope R_scope.

Lemma test x1 S P E : 0 < x1 -> gr4j_production x1 S P E = (0,0).
Proof.
  intros. unfold gr4j_production. runfold. unfold cap13. runfold.
  destruct (Rltb E P) eqn:Hc.
  - cbv beta iota zeta.
Show.
Abort.
