(** GR4J (C10, C15): store bounds, non-negative runoff, per-step water balance
    and its exact closure, and equality of the code's run with the published
    formulation (Num/Gr4jSpec.v).  Unit-hydrograph facts are in Gr4jUH.v. *)
From Coq Require Import Reals Lra Lia List ZArith Bool.
From Interval Require Import Tactic.
From OW Require Import Base.Arith Base.RInst Base.Mealy Kernels.Gr4j Num.Gr4jSpec
  KernelProofs.RRCommon KernelProofs.Gr4jMath KernelProofs.Gr4jUH.
Import ListNotations.
Local Open Scope R_scope.

(** * Production store *)
Definition percS (x1 S1 : R) : R :=
  S1 * (1 - Rpow (1 + Rpow (4 / 9 * (S1 / x1)) 4) (-1 / 4)).
Definition wetPs (x1 S t : R) : R := x1 * (1 - Rpow (S / x1) 2) * t / (1 + S / x1 * t).
Definition dryEs (x1 S t : R) : R := S * (2 - S / x1) * t / (1 + (1 - S / x1) * t).

Lemma production_wet x1 S P E : Rltb E P = true ->
  gr4j_production x1 S P E =
  let Ps := wetPs x1 S (tanh (cap13 ((P - E) / x1))) in
  let S1 := S - 0 + Ps in (S1 - percS x1 S1, percS x1 S1 + (P - E - Ps)).
Proof. intros H. unfold gr4j_production. runfold. rewrite H. reflexivity. Qed.

Lemma production_dry x1 S P E : Rltb E P = false ->
  gr4j_production x1 S P E =
  let Es := dryEs x1 S (tanh (cap13 ((E - P) / x1))) in
  let S1 := S - Es + 0 in (S1 - percS x1 S1, percS x1 S1 + 0).
Proof. intros H. unfold gr4j_production. runfold. rewrite H. reflexivity. Qed.

Lemma cap13_facts w : 0 <= w -> 0 <= cap13 w <= w /\ cap13 w <= 13.
Proof.
  intros H. unfold cap13. runfold. destruct (Rltb 13 w) eqn:Hc.
  - apply Rltb_true in Hc. lra.
  - apply Rltb_false in Hc. lra.
Qed.

Lemma cap13_id w : w <= 13 -> cap13 w = w.
Proof.
  intros H. unfold cap13. runfold. destruct (Rltb 13 w) eqn:Hc; auto. apply Rltb_true in Hc. lra.
Qed.

Lemma tanh_cap w : 0 <= w -> 0 <= tanh (cap13 w) < 1 /\ tanh (cap13 w) <= w.
Proof.
  intros H. destruct (cap13_facts w H) as [[H1 H2] _]. repeat split.
  - now apply tanh_nonneg.
  - apply tanh_lt_1.
  - pose proof (tanh_le_id _ H1). lra.
Qed.

Lemma unit_frac x1 S : 0 < x1 -> 0 <= S <= x1 -> 0 <= S / x1 <= 1.
Proof. intros. apply frac_bounds; auto. Qed.

Lemma percS_facts x1 S1 : 0 < x1 -> 0 <= S1 ->
  percS x1 S1 = S1 * (1 - inv_root4 (1 + (4 / 9 * (S1 / x1)) ^ 4)) /\ 0 <= percS x1 S1 <= S1.
Proof.
  intros Hx HS.
  assert (Hz : 0 <= 4 / 9 * (S1 / x1)).
  { apply Rmult_le_pos; [lra|]. unfold Rdiv. apply Rmult_le_pos; auto. left. now apply Rinv_0_lt_compat. }
  unfold percS. rewrite Rpow_4 by auto.
  assert (0 < 1 + (4 / 9 * (S1 / x1)) ^ 4) by (pose proof (pow_le _ 4 Hz); lra).
  rewrite Rpow_neg_quarter by auto. split; auto.
  pose proof (inv_root4_bounds _ Hz). nra.
Qed.

Lemma wetPs_facts x1 S t w : 0 < x1 -> 0 <= S <= x1 -> 0 <= t < 1 -> t <= w / x1 ->
  wetPs x1 S t = x1 * (1 - (S / x1) ^ 2) * t / (1 + S / x1 * t) /\
  0 <= wetPs x1 S t <= w /\ S + wetPs x1 S t <= x1.
Proof.
  intros Hx HS Ht Hw. pose proof (unit_frac x1 S Hx HS) as Hu.
  unfold wetPs. rewrite Rpow_2 by lra. split; auto.
  set (u := S / x1) in *.
  assert (HS' : S = x1 * u) by (unfold u; field; lra).
  assert (HD : 1 <= 1 + u * t) by nra.
  set (D := 1 + u * t) in *.
  set (N := x1 * (1 - u ^ 2) * t).
  assert (HN0 : 0 <= N). { unfold N. apply Rmult_le_pos; [apply Rmult_le_pos|]; try lra. nra. }
  assert (HN1 : N <= x1 * t). { unfold N. assert (0 <= x1 * t) by nra. nra. }
  assert (Hq : N / D * D = N) by (field; lra).
  assert (Hq0 : 0 <= N / D). { unfold Rdiv. apply Rmult_le_pos; auto. left. apply Rinv_0_lt_compat. lra. }
  assert (Hwx : x1 * t <= w).
  { apply Rmult_le_compat_l with (r := x1) in Hw; [|lra]. replace (x1 * (w / x1)) with w in Hw by (field; lra). lra. }
  repeat split; auto.
  - nra.
  - (* S + N/D <= x1  <=>  (u + t) <= 1 + u t *)
    assert (x1 * u * D + N <= x1 * D).
    { unfold N, D. assert (0 <= x1 * ((1 - u) * (1 - t))) by (apply Rmult_le_pos; nra). nra. }
    rewrite HS'. nra.
Qed.

Lemma dryEs_facts x1 S t : 0 < x1 -> 0 <= S <= x1 -> 0 <= t < 1 -> 0 <= dryEs x1 S t <= S.
Proof.
  intros Hx HS Ht. pose proof (unit_frac x1 S Hx HS) as Hu. unfold dryEs.
  set (u := S / x1) in *.
  assert (HD : 1 <= 1 + (1 - u) * t) by nra.
  set (D := 1 + (1 - u) * t) in *.
  set (N := S * (2 - u) * t).
  assert (HN0 : 0 <= N). { unfold N. apply Rmult_le_pos; [apply Rmult_le_pos|]; lra. }
  assert (Hq : N / D * D = N) by (field; lra).
  assert (Hq0 : 0 <= N / D). { unfold Rdiv. apply Rmult_le_pos; auto. left. apply Rinv_0_lt_compat. lra. }
  split; auto.
  assert (N <= S * D). { unfold N, D. assert (0 <= S * (1 - t)) by nra. nra. }
  nra.
Qed.

Lemma dryEs_0 x1 S : dryEs x1 S 0 = 0.
Proof. unfold dryEs. unfold Rdiv. rewrite !Rmult_0_r. lra. Qed.

(** the production step: bounds, and water balance with the evaporated amount explicit *)
Lemma gr4j_production_facts x1 S P E : 0 < x1 -> 0 <= S <= x1 -> 0 <= P -> 0 <= E ->
  let r := gr4j_production x1 S P E in
  0 <= fst r <= x1 /\ 0 <= snd r /\
  (exists aet, 0 <= aet /\ fst r + snd r + aet = S + P) /\
  (E = 0 -> fst r + snd r = S + P).
Proof.
  intros Hx HS HP HE. destruct (Rltb E P) eqn:Hc.
  - apply Rltb_true in Hc. rewrite production_wet by (apply Rltb_true; auto).
    assert (Hw : 0 <= (P - E) / x1).
    { unfold Rdiv. apply Rmult_le_pos; [lra|]. left. now apply Rinv_0_lt_compat. }
    destruct (tanh_cap _ Hw) as [Ht1 Ht2].
    destruct (wetPs_facts x1 S _ (P - E) Hx HS Ht1 Ht2) as [_ [HPs HSP]].
    set (Ps := wetPs x1 S (tanh (cap13 ((P - E) / x1)))) in *. cbv zeta.
    set (S1 := S - 0 + Ps). assert (HS1 : 0 <= S1 <= x1) by (unfold S1; lra).
    destruct (percS_facts x1 S1 Hx ltac:(lra)) as [_ Hp]. cbn [fst snd].
    repeat split; try lra.
    + exists E. unfold S1. lra.
    + intros ->. unfold S1. lra.
  - apply Rltb_false in Hc. rewrite production_dry by (apply Rltb_false; auto).
    assert (Hw : 0 <= (E - P) / x1).
    { unfold Rdiv. apply Rmult_le_pos; [lra|]. left. now apply Rinv_0_lt_compat. }
    destruct (tanh_cap _ Hw) as [Ht1 Ht2].
    pose proof (dryEs_facts x1 S _ Hx HS Ht1) as HEs.
    cbv zeta. set (Es := dryEs x1 S (tanh (cap13 ((E - P) / x1)))) in *.
    set (S1 := S - Es + 0). assert (HS1 : 0 <= S1 <= x1) by (unfold S1; lra).
    destruct (percS_facts x1 S1 Hx ltac:(lra)) as [_ Hp]. cbn [fst snd].
    repeat split; try lra.
    + exists (Es + P). unfold S1. lra.
    + intros ->. assert (P = 0) by lra. subst P.
      assert (Es = 0).
      { unfold Es. replace ((0 - 0) / x1) with 0 by (unfold Rdiv; lra).
        rewrite cap13_id by lra. rewrite tanh_0. apply dryEs_0. }
      unfold S1. lra.
Qed.

(** * Routing store, exchange and direct branch *)
Definition qr_of (x3 R2 : R) : R := R2 - R2 / Rpow (1 + Rpow (R2 / x3) 4) (1 / 4).

Lemma routing_unfold x2 x3 Rs Q9 Q1 :
  gr4j_routing x2 x3 Rs Q9 Q1 =
  let ech := x2 * Rpow (Rs / x3) (7 / 2) in
  let R2 := Rmax 0 (Rs + Q9 + ech) in
  (R2 - qr_of x3 R2, qr_of x3 R2 + Rmax 0 (Q1 + ech)).
Proof.
  unfold gr4j_routing. runfold. cbv zeta.
  assert (E1 : (if Rltb (Rs + Q9 + x2 * Rpow (Rs / x3) (7 / 2)) 0 then 0
                else Rs + Q9 + x2 * Rpow (Rs / x3) (7 / 2))
               = Rmax 0 (Rs + Q9 + x2 * Rpow (Rs / x3) (7 / 2))).
  { destruct (Rltb _ 0) eqn:Hc.
    - apply Rltb_true in Hc. rewrite Rmax_left; lra.
    - apply Rltb_false in Hc. rewrite Rmax_right; lra. }
  assert (E2 : (if Rltb 0 (Q1 + x2 * Rpow (Rs / x3) (7 / 2)) then Q1 + x2 * Rpow (Rs / x3) (7 / 2) else 0)
               = Rmax 0 (Q1 + x2 * Rpow (Rs / x3) (7 / 2))).
  { destruct (Rltb 0 _) eqn:Hc.
    - apply Rltb_true in Hc. rewrite Rmax_right; lra.
    - apply Rltb_false in Hc. rewrite Rmax_left; lra. }
  rewrite E1, E2. reflexivity.
Qed.

Lemma qr_of_facts x3 R2 : 0 < x3 -> 0 <= R2 ->
  qr_of x3 R2 = R2 * (1 - inv_root4 (1 + (R2 / x3) ^ 4)) /\
  0 <= qr_of x3 R2 <= R2 /\ R2 - qr_of x3 R2 < x3.
Proof.
  intros Hx HR.
  assert (Hz : 0 <= R2 / x3).
  { unfold Rdiv. apply Rmult_le_pos; auto. left. now apply Rinv_0_lt_compat. }
  unfold qr_of. rewrite Rpow_4 by auto.
  assert (Hb : 0 < 1 + (R2 / x3) ^ 4) by (pose proof (pow_le _ 4 Hz); lra).
  rewrite Rpow_quarter by auto.
  destruct (root4_facts _ Hz) as [Hd [_ Hzd]]. unfold inv_root4.
  set (d := sqrt (sqrt (1 + (R2 / x3) ^ 4))) in *.
  assert (Hi : 0 < / d <= 1).
  { split; [apply Rinv_0_lt_compat; lra|]. rewrite <- Rinv_1. apply Rinv_le_contravar; lra. }
  split; [unfold Rdiv; ring|]. split; [unfold Rdiv; nra|].
  replace (R2 - (R2 - R2 / d)) with (R2 / d) by ring.
  assert (R2 = x3 * (R2 / x3)) by (field; lra).
  apply Rmult_lt_reg_r with d; [lra|]. unfold Rdiv at 1. rewrite Rmult_assoc, Rinv_l by lra. nra.
Qed.

Lemma gr4j_routing_facts x2 x3 Rs Q9 Q1 : 0 < x3 -> 0 <= Rs -> 0 <= Q9 -> 0 <= Q1 ->
  let r := gr4j_routing x2 x3 Rs Q9 Q1 in
  0 <= fst r < x3 /\ 0 <= snd r /\
  (x2 <= 0 -> fst r + snd r <= Rs + Q9 + Q1) /\
  (x2 = 0 -> fst r + snd r = Rs + Q9 + Q1).
Proof.
  intros Hx HR H9 H1. rewrite routing_unfold. cbv zeta.
  assert (Hp : 0 <= Rpow (Rs / x3) (7 / 2)).
  { change (7 / 2) with (IZR 7 / IZR 2). rewrite Rpow_72; [apply pow72_nonneg|].
    unfold Rdiv. apply Rmult_le_pos; auto. left. now apply Rinv_0_lt_compat. }
  set (ech := x2 * Rpow (Rs / x3) (7 / 2)).
  set (R2 := Rmax 0 (Rs + Q9 + ech)).
  assert (HR2 : 0 <= R2) by apply Rmax_l.
  destruct (qr_of_facts x3 R2 Hx HR2) as [_ [Hq Hlt]]. cbn [fst snd].
  pose proof (Rmax_l 0 (Q1 + ech)).
  repeat split; try lra.
  - intros Hx2. assert (ech <= 0) by (unfold ech; nra).
    assert (R2 <= Rs + Q9) by (unfold R2; apply Rmax_lub; lra).
    assert (Rmax 0 (Q1 + ech) <= Q1) by (apply Rmax_lub; lra). lra.
  - intros Hx2. assert (ech = 0) by (unfold ech; rewrite Hx2; lra).
    assert (R2 = Rs + Q9) by (unfold R2; rewrite H0, Rmax_right; lra).
    assert (Rmax 0 (Q1 + ech) = Q1) by (rewrite H0, Rmax_right; lra). lra.
Qed.

(** * Unit-hydrograph stores (shift registers) *)
Lemma uh_add_length c q uh : length q = length uh -> length (uh_add c q uh) = length q.
Proof.
  revert uh; induction q as [|a q IH]; intros [|u uh] H; cbn in *; try discriminate; auto.
Qed.

Lemma uh_add_nth c q uh i : length q = length uh ->
  nth i (uh_add c q uh) 0 = nth i q 0 + c * nth i uh 0.
Proof.
  revert uh i; induction q as [|a q IH]; intros [|u uh] i H; cbn in *; try discriminate.
  - destruct i; lra.
  - destruct i; runfold; [lra|]. apply IH. lia.
Qed.

Lemma uh_add_sum c q uh : length q = length uh ->
  rr_sum (uh_add c q uh) = rr_sum q + c * rr_sum uh.
Proof.
  revert uh; induction q as [|a q IH]; intros [|u uh] H; cbn in *; try discriminate; [lra|].
  runfold. rewrite IH by lia. lra.
Qed.

Lemma uh_add_nonneg c q uh : 0 <= c -> Forall (fun x => 0 <= x) q -> Forall (fun x => 0 <= x) uh ->
  Forall (fun x => 0 <= x) (uh_add c q uh).
Proof.
  intros Hc Hq. revert uh; induction Hq as [|a q Ha Hq IH]; intros uh Hu; cbn; [constructor|].
  destruct uh as [|u uh]; [constructor|]. inversion Hu; subst. constructor; auto. runfold. nra.
Qed.

Lemma uh_shift_nth q i : nth i (uh_shift q) 0 = nth (S i) q 0.
Proof.
  unfold uh_shift. runfold. destruct q as [|a q]; cbn [tl].
  - destruct i as [|[|i]]; reflexivity.
  - destruct (Nat.lt_ge_cases i (length q)).
    + rewrite app_nth1 by auto. reflexivity.
    + rewrite app_nth2 by auto. cbn [nth]. rewrite (nth_overflow q) by auto.
      destruct (i - length q)%nat as [|[|k]]; reflexivity.
Qed.

Lemma uh_shift_sum q : q <> [] -> rr_sum (uh_shift q) + nth 0 q 0 = rr_sum q.
Proof.
  destruct q as [|a q]; [congruence|]. intros _. unfold uh_shift. runfold. cbn [tl nth].
  rewrite rr_sum_app. cbn. lra.
Qed.

Lemma uh_shift_length q : q <> [] -> length (uh_shift q) = length q.
Proof.
  destruct q as [|a q]; [congruence|]. intros _. unfold uh_shift. cbn [tl]. rewrite app_length. cbn. lia.
Qed.

Lemma uh_shift_nonneg q : Forall (fun x => 0 <= x) q -> Forall (fun x => 0 <= x) (uh_shift q).
Proof.
  intros H. unfold uh_shift. runfold. apply Forall_app. split.
  - destruct q; cbn; auto. now inversion H.
  - constructor; [lra|constructor].
Qed.

Lemma nth0_nonneg q : Forall (fun x => 0 <= x) q -> 0 <= nth 0 q 0.
Proof. intros H. destruct q; cbn; [lra|]. now inversion H. Qed.

(** * One day: invariant, runoff >= 0, water balance *)
Section Step.
  Variables x1 x2 x3 x4 : R.
  Variables n1 n2 : nat.
  Hypothesis Hx1 : 0 < x1.
  Hypothesis Hx3 : 0 < x3.
  Hypothesis Hx4 : 0 < x4.
  Hypothesis Hn1 : is_ceil x4 n1.
  Hypothesis Hn2 : is_ceil (2 * x4) n2.

  Let p := gr4j_mkpar x1 x2 x3 x4 n1 n2.

  Definition gr4j_inv (st : gr4j_st (T:=R)) : Prop :=
    0 <= g_s st <= x1 /\ 0 <= g_r st /\
    Forall (fun x => 0 <= x) (g_q1 st) /\ Forall (fun x => 0 <= x) (g_q9 st) /\
    length (g_q1 st) = n2 /\ length (g_q9 st) = n1.

  Definition gr4j_stock (st : gr4j_st (T:=R)) : R :=
    g_s st + g_r st + rr_sum (g_q1 st) + rr_sum (g_q9 st).

  Lemma gr4j_step_facts st P E : gr4j_inv st -> 0 <= P -> 0 <= E ->
    let r := gr4j_step p st (P, E) in
    gr4j_inv (fst r) /\ g_r (fst r) < x3 /\ 0 <= snd r /\
    (x2 <= 0 -> gr4j_stock (fst r) + snd r <= gr4j_stock st + P) /\
    (x2 = 0 -> E = 0 -> gr4j_stock (fst r) + snd r = gr4j_stock st + P).
  Proof.
    intros [HS [HR [Hq1 [Hq9 [Hl1 Hl9]]]]] HP HE.
    destruct (gr4j_uh1_sums_to_one x4 n1 Hx4 Hn1) as [Hu1 [Hs1 Hlu1]].
    destruct (gr4j_uh2_sums_to_one x4 n2 Hx4 Hn2) as [Hu2 [Hs2 Hlu2]].
    pose proof (is_ceil_pos x4 n1 Hx4 Hn1) as Hn1p.
    pose proof (is_ceil_pos (2 * x4) n2 ltac:(lra) Hn2) as Hn2p.
    unfold gr4j_step. cbn [p gr4j_mkpar g_x1 g_x2 g_x3 g_x4 g_uh1 g_uh2].
    pose proof (gr4j_production_facts x1 (g_s st) P E Hx1 HS HP HE) as Hprod. cbv zeta in Hprod.
    destruct (gr4j_production x1 (g_s st) P E) as [S2 Pr]. cbn [fst snd] in Hprod.
    destruct Hprod as [HS2 [HPr [Haet Hclose]]].
    runfold.
    set (q9a := uh_add (Pr * (9 / 10)) (g_q9 st) (gr4j_uh1 x4 n1)).
    set (q1a := uh_add (Pr * (1 / 10)) (g_q1 st) (gr4j_uh2 x4 n2)).
    assert (Hq9a : Forall (fun x => 0 <= x) q9a) by (apply uh_add_nonneg; auto; nra).
    assert (Hq1a : Forall (fun x => 0 <= x) q1a) by (apply uh_add_nonneg; auto; nra).
    assert (Hl9a : length q9a = n1) by (unfold q9a; rewrite uh_add_length; congruence).
    assert (Hl1a : length q1a = n2) by (unfold q1a; rewrite uh_add_length; congruence).
    assert (Hne9 : q9a <> []) by (intros E0; rewrite E0 in Hl9a; cbn in Hl9a; lia).
    assert (Hne1 : q1a <> []) by (intros E0; rewrite E0 in Hl1a; cbn in Hl1a; lia).
    pose proof (nth0_nonneg _ Hq9a) as HQ9. pose proof (nth0_nonneg _ Hq1a) as HQ1.
    pose proof (gr4j_routing_facts x2 x3 (g_r st) (nth 0 q9a 0) (nth 0 q1a 0) Hx3 HR HQ9 HQ1) as Hrt.
    cbv zeta in Hrt.
    destruct (gr4j_routing x2 x3 (g_r st) (nth 0 q9a 0) (nth 0 q1a 0)) as [R3 qtot].
    cbn [fst snd] in *. destruct Hrt as [HR3 [Hqt [Hle Heq]]].
    assert (Hsum9 : rr_sum (uh_shift q9a) + nth 0 q9a 0 = rr_sum (g_q9 st) + Pr * (9 / 10)).
    { rewrite uh_shift_sum by auto. unfold q9a. rewrite uh_add_sum by congruence. rewrite Hs1. lra. }
    assert (Hsum1 : rr_sum (uh_shift q1a) + nth 0 q1a 0 = rr_sum (g_q1 st) + Pr * (1 / 10)).
    { rewrite uh_shift_sum by auto. unfold q1a. rewrite uh_add_sum by congruence. rewrite Hs2. lra. }
    split; [|split; [|split; [|split]]].
    - unfold gr4j_inv. cbn [g_s g_r g_q1 g_q9].
      repeat split; try lra; try (apply uh_shift_nonneg; auto);
        rewrite uh_shift_length by auto; auto.
    - cbn [g_r]. lra.
    - lra.
    - intros Hx2. specialize (Hle Hx2). destruct Haet as [aet [Ha0 Ha]].
      unfold gr4j_stock. cbn [g_s g_r g_q1 g_q9]. lra.
    - intros Hx2 HE0. specialize (Heq Hx2). specialize (Hclose HE0).
      unfold gr4j_stock. cbn [g_s g_r g_q1 g_q9]. lra.
  Qed.
End Step.

(** * Whole runs: C10 for GR4J *)
Section Run.
  Variables x1 x2 x3 x4 : R.
  Variables n1 n2 : nat.
  Hypothesis Hx1 : 0 < x1.
  Hypothesis Hx3 : 0 < x3.
  Hypothesis Hx4 : 0 < x4.
  Hypothesis Hn1 : is_ceil x4 n1.
  Hypothesis Hn2 : is_ceil (2 * x4) n2.

  Let step := gr4j_step (gr4j_mkpar x1 x2 x3 x4 n1 n2).
  Let Inv := gr4j_inv x1 n1 n2.
  Let Qio := fun io : R * R => 0 <= fst io /\ 0 <= snd io.

  Lemma step_inv s x : Inv s -> Qio x -> Inv (fst (step s x)).
  Proof.
    intros Hs [HP HE]. destruct x as [P E].
    apply (gr4j_step_facts x1 x2 x3 x4 n1 n2 Hx1 Hx3 Hx4 Hn1 Hn2 s P E Hs HP HE).
  Qed.

  (** stores stay within bounds and every runoff value is non-negative *)
  Theorem gr4j_stores_bounded st io : Inv st -> io_nonneg io ->
    Inv (fst (gr4j_run x1 x2 x3 x4 n1 n2 st io)) /\
    Forall (fun q => 0 <= q) (snd (gr4j_run x1 x2 x3 x4 n1 n2 st io)).
  Proof.
    intros Hs Hio. unfold gr4j_run.
    apply (run_inv_forall step Inv Qio (fun q => 0 <= q)); auto.
    intros s [P E] Hi [HP HE]. cbn [fst snd] in *.
    destruct (gr4j_step_facts x1 x2 x3 x4 n1 n2 Hx1 Hx3 Hx4 Hn1 Hn2 s P E Hi HP HE) as [A [_ [B _]]].
    split; auto.
  Qed.

  (** the routing store stays strictly below its capacity x3 *)
  Theorem gr4j_routing_store_below_capacity st io : Inv st -> g_r st < x3 -> io_nonneg io ->
    g_r (fst (gr4j_run x1 x2 x3 x4 n1 n2 st io)) < x3.
  Proof.
    intros Hs Hr Hio. unfold gr4j_run.
    assert (Hstep : forall s x, (Inv s /\ g_r s < x3) -> Qio x ->
              (Inv (fst (step s x)) /\ g_r (fst (step s x)) < x3) /\ True).
    { intros s [P E] [Hi _] [HP HE]. cbn [fst snd] in *.
      destruct (gr4j_step_facts x1 x2 x3 x4 n1 n2 Hx1 Hx3 Hx4 Hn1 Hn2 s P E Hi HP HE) as [A [B _]].
      split; [split; [exact A | exact B] | exact I]. }
    pose proof (run_inv_forall step (fun s => Inv s /\ g_r s < x3) Qio (fun _ => True) Hstep io st
                  (conj Hs Hr) Hio) as [[_ H] _].
    exact H.
  Qed.

  (** no water is created when the exchange coefficient is not positive: for the whole run
      (with the final stores on the left) and for every prefix of the run *)
  Theorem gr4j_no_water_created st io : x2 <= 0 -> Inv st -> io_nonneg io ->
    gr4j_stock (fst (gr4j_run x1 x2 x3 x4 n1 n2 st io)) + rr_sum (snd (gr4j_run x1 x2 x3 x4 n1 n2 st io))
      <= gr4j_stock st + rr_sum (map fst io) /\
    (forall t, rr_sum (firstn t (snd (gr4j_run x1 x2 x3 x4 n1 n2 st io)))
               <= rr_sum (firstn t (map fst io)) + gr4j_stock st).
  Proof.
    intros Hx2 Hs Hio. unfold gr4j_run.
    assert (Hb : forall s x, Inv s -> Qio x ->
              gr4j_stock (fst (step s x)) + (fun q : R => q) (snd (step s x)) <= gr4j_stock s + fst x).
    { intros s [P E] Hi [HP HE]. cbn [fst snd] in *.
      destruct (gr4j_step_facts x1 x2 x3 x4 n1 n2 Hx1 Hx3 Hx4 Hn1 Hn2 s P E Hi HP HE) as [_ [_ [_ [B _]]]].
      apply B; auto. }
    split.
    - pose proof (run_budget_le step Inv Qio gr4j_stock fst (fun q => q) step_inv Hb io st Hs Hio) as H.
      rewrite map_id in H. exact H.
    - intros t.
      pose proof (run_cumulative_le step Inv Qio gr4j_stock fst (fun q => q)) as H.
      specialize (H ltac:(intros s [[A _] [B [C [D _]]]]; unfold gr4j_stock;
                          pose proof (rr_sum_nonneg _ C); pose proof (rr_sum_nonneg _ D); lra)
                    step_inv Hb io st t Hs Hio).
      rewrite map_id in H. exact H.
  Qed.

  (** exact closure: with x2 = 0 and PET = 0, rainfall = runoff + change in
      (production + routing + unit-hydrograph stores) *)
  Theorem gr4j_balance_exact st io : x2 = 0 -> Inv st -> io_nonneg io ->
    Forall (fun x => snd x = 0) io ->
    rr_sum (map fst io) =
    rr_sum (snd (gr4j_run x1 x2 x3 x4 n1 n2 st io)) +
    (gr4j_stock (fst (gr4j_run x1 x2 x3 x4 n1 n2 st io)) - gr4j_stock st).
  Proof.
    intros Hx2 Hs Hio Hpet. unfold gr4j_run.
    pose proof (run_budget_eq step Inv (fun x => Qio x /\ snd x = 0) gr4j_stock fst (fun q => q)) as H.
    assert (Hq : Forall (fun x => Qio x /\ snd x = 0) io).
    { clear -Hio Hpet. induction io; constructor; inversion Hio; inversion Hpet; subst; auto. }
    specialize (H ltac:(intros s x Hi [Hq0 _]; apply step_inv; auto)).
    assert (Hb : forall s x, Inv s -> Qio x /\ snd x = 0 ->
              gr4j_stock (fst (step s x)) + (fun q : R => q) (snd (step s x)) = gr4j_stock s + fst x).
    { intros s [P E] Hi [[HP HE] HE0]. cbn [fst snd] in *.
      destruct (gr4j_step_facts x1 x2 x3 x4 n1 n2 Hx1 Hx3 Hx4 Hn1 Hn2 s P E Hi HP HE) as [_ [_ [_ [_ B]]]].
      apply B; auto. }
    specialize (H Hb io st Hs Hq). rewrite map_id in H. unfold step in H. lra.
  Qed.
End Run.

(** the state produced by InitialiseStates (zeros with the right lengths) satisfies the invariant *)
Lemma gr4j_zero_state_inv x1 n1 n2 : 0 < x1 ->
  gr4j_inv x1 n1 n2 {| g_s := 0; g_r := 0; g_q1 := repeat 0 n2; g_q9 := repeat 0 n1 |} /\
  gr4j_stock {| g_s := 0; g_r := 0; g_q1 := repeat 0 n2; g_q9 := repeat 0 n1 |} = 0.
Proof.
  intros H. unfold gr4j_inv, gr4j_stock. cbn [g_s g_r g_q1 g_q9]. rewrite !repeat_length, !rr_sum_repeat0.
  repeat split; try lra; apply Forall_forall; intros x Hx; apply repeat_spec in Hx; lra.
Qed.

(** * C15: the code's run equals the published formulation *)

(** ** one day of the production store *)
Lemma Rdiv_0_l x : 0 / x = 0.
Proof. unfold Rdiv. lra. Qed.

Lemma gr4j_production_spec x1 S P E : 0 < x1 -> 0 <= S <= x1 -> 0 <= P -> 0 <= E ->
  Rabs (P - E) <= 13 * x1 ->
  gr4j_production x1 S P E = spec_production x1 S P E.
Proof.
  intros Hx HS HP HE Hcap. unfold spec_production. destruct (Rltb E P) eqn:Hc.
  - apply Rltb_true in Hc. rewrite production_wet by (apply Rltb_true; auto).
    rewrite Rabs_right in Hcap by lra.
    rewrite (Rmax_left (P - E) 0) by lra. rewrite (Rmax_right (E - P) 0) by lra.
    rewrite Rdiv_0_l, tanh_0.
    assert (Hw : 0 <= (P - E) / x1 <= 13).
    { split; [unfold Rdiv; apply Rmult_le_pos; [lra|left; now apply Rinv_0_lt_compat]|].
      apply Rmult_le_reg_r with x1; auto. unfold Rdiv. rewrite Rmult_assoc, Rinv_l; lra. }
    rewrite cap13_id by lra.
    assert (Ht : 0 <= tanh ((P - E) / x1) < 1) by (split; [apply tanh_nonneg; lra|apply tanh_lt_1]).
    pose proof (tanh_le_id ((P - E) / x1) ltac:(lra)) as Htl.
    destruct (wetPs_facts x1 S _ (P - E) Hx HS Ht Htl) as [HPs [HPs1 HPs2]].
    rewrite <- HPs. set (Ps := wetPs x1 S (tanh ((P - E) / x1))) in *. cbv zeta.
    replace (S * (2 - S / x1) * 0 / (1 + (1 - S / x1) * 0)) with 0 by (unfold Rdiv; rewrite !Rmult_0_r; lra).
    destruct (percS_facts x1 (S - 0 + Ps) Hx ltac:(lra)) as [Hpe _]. rewrite Hpe. reflexivity.
  - apply Rltb_false in Hc. rewrite production_dry by (apply Rltb_false; auto).
    rewrite Rabs_left1 in Hcap by lra.
    rewrite (Rmax_right (P - E) 0) by lra. rewrite (Rmax_left (E - P) 0) by lra.
    rewrite Rdiv_0_l, tanh_0.
    assert (Hw : 0 <= (E - P) / x1 <= 13).
    { split; [unfold Rdiv; apply Rmult_le_pos; [lra|left; now apply Rinv_0_lt_compat]|].
      apply Rmult_le_reg_r with x1; auto. unfold Rdiv. rewrite Rmult_assoc, Rinv_l; lra. }
    rewrite cap13_id by lra.
    assert (Ht : 0 <= tanh ((E - P) / x1) < 1) by (split; [apply tanh_nonneg; lra|apply tanh_lt_1]).
    pose proof (dryEs_facts x1 S _ Hx HS Ht) as HEs.
    change (S * (2 - S / x1) * tanh ((E - P) / x1) / (1 + (1 - S / x1) * tanh ((E - P) / x1)))
      with (dryEs x1 S (tanh ((E - P) / x1))).
    set (Es := dryEs x1 S (tanh ((E - P) / x1))) in *. cbv zeta.
    replace (x1 * (1 - (S / x1) ^ 2) * 0 / (1 + S / x1 * 0)) with 0 by (unfold Rdiv; rewrite !Rmult_0_r; lra).
    destruct (percS_facts x1 (S - Es + 0) Hx ltac:(lra)) as [Hpe _]. rewrite Hpe.
    f_equal. lra.
Qed.

(** ** exchange, routing store and direct branch *)
Lemma gr4j_routing_spec x2 x3 Rs Q9 Q1 : 0 < x3 -> 0 <= Rs ->
  gr4j_routing x2 x3 Rs Q9 Q1 = spec_routing x2 x3 Rs Q9 Q1 /\
  0 <= fst (gr4j_routing x2 x3 Rs Q9 Q1).
Proof.
  intros Hx HR. rewrite routing_unfold. unfold spec_routing. cbv zeta.
  change (7 / 2) with (IZR 7 / IZR 2).
  rewrite Rpow_72 by (unfold Rdiv; apply Rmult_le_pos; auto; left; now apply Rinv_0_lt_compat).
  set (F := x2 * pow72 (Rs / x3)).
  set (R2 := Rmax 0 (Rs + Q9 + F)).
  assert (HR2 : 0 <= R2) by apply Rmax_l.
  destruct (qr_of_facts x3 R2 Hx HR2) as [Hq [Hq2 _]]. rewrite <- Hq. cbn [fst]. split; [reflexivity|lra].
Qed.

(** ** shift register = convolution *)
Lemma sum_upto_ext f g n : (forall k, (k < n)%nat -> f k = g k) -> sum_upto f n = sum_upto g n.
Proof.
  induction n as [|n IH]; intros H; cbn; auto. rewrite IH by (intros; apply H; lia). rewrite H by lia. reflexivity.
Qed.

Lemma sum_upto_shift f n : sum_upto f (S n) = f O + sum_upto (fun k => f (S k)) n.
Proof.
  induction n as [|n IH]; [cbn; lra|].
  change (sum_upto f (S (S n))) with (sum_upto f (S n) + f (S n)). rewrite IH. cbn. lra.
Qed.

Section Conv.
  Variable c : R.
  Variable uh : nat -> R.          (* published ordinates, 1-based *)
  Variable uhl : list R.           (* the code's array *)
  Hypothesis Huhl : forall i, nth i uhl 0 = uh (S i).

  (** contents of the code's store after one day, as a function of the position *)
  Lemma buffer_step_nth b pr i : length b = length uhl ->
    nth i (uh_shift (uh_add (pr * c) b uhl)) 0 = nth (S i) b 0 + c * pr * uh (S (S i)).
  Proof. intros H. rewrite uh_shift_nth, uh_add_nth, Huhl by auto. ring. Qed.

  Lemma buffer_step_out b pr : length b = length uhl ->
    nth 0 (uh_add (pr * c) b uhl) 0 = conv_out c uh b (pr :: nil) 0.
  Proof. intros H. rewrite uh_add_nth, Huhl by auto. unfold conv_out. cbn. ring. Qed.

  Lemma conv_out_head b pr prs : conv_out c uh b (pr :: prs) 0 = conv_out c uh b (pr :: nil) 0.
  Proof. unfold conv_out. cbn. reflexivity. Qed.

  Lemma conv_out_cons b pr prs t : length b = length uhl ->
    conv_out c uh b (pr :: prs) (S t) = conv_out c uh (uh_shift (uh_add (pr * c) b uhl)) prs t.
  Proof.
    intros H. unfold conv_out. rewrite buffer_step_nth by auto.
    rewrite (sum_upto_shift _ (S t)). cbn [nth Nat.sub].
    replace (S t + 1)%nat with (S (S t)) by lia. lra.
  Qed.

  Lemma conv_carry_cons b pr prs T i : length b = length uhl ->
    conv_carry c uh b (pr :: prs) (S T) i = conv_carry c uh (uh_shift (uh_add (pr * c) b uhl)) prs T i.
  Proof.
    intros H. unfold conv_carry. rewrite buffer_step_nth by auto.
    rewrite (sum_upto_shift _ T). cbn [nth Nat.sub Nat.add].
    replace (S (T + i + 1))%nat with (S (S (T + i))) by lia. lra.
  Qed.

  Lemma conv_carry_nil b i : conv_carry c uh b nil 0 i = nth i b 0.
  Proof. unfold conv_carry. cbn. lra. Qed.
End Conv.

Lemma map_nth_seq (l : list R) : map (fun i => nth i l 0) (seq 0 (length l)) = l.
Proof.
  induction l as [|a l IH]; cbn; auto. f_equal. rewrite <- seq_shift, map_map. exact IH.
Qed.

Section Equal.
  Variables x1 x2 x3 x4 : R.
  Variables n1 n2 : nat.
  Hypothesis Hx1 : 0 < x1.
  Hypothesis Hx3 : 0 < x3.
  Hypothesis Hx4 : 0 < x4.
  Hypothesis Hn1 : is_ceil x4 n1.
  Hypothesis Hn2 : is_ceil (2 * x4) n2.

  Lemma spec_run_cons S0 Rs q1 q9 P E io : length q1 = n2 -> length q9 = n1 ->
    spec_run x1 x2 x3 x4 n1 n2 S0 Rs q1 q9 ((P, E) :: io) =
    let (S1, Pr) := spec_production x1 S0 P E in
    let q9a := uh_add (Pr * (9 / 10)) q9 (gr4j_uh1 x4 n1) in
    let q1a := uh_add (Pr * (1 / 10)) q1 (gr4j_uh2 x4 n2) in
    let (R1, Q) := spec_routing x2 x3 Rs (nth 0 q9a 0) (nth 0 q1a 0) in
    let sp := spec_run x1 x2 x3 x4 n1 n2 S1 R1 (uh_shift q1a) (uh_shift q9a) io in
    {| sp_S := sp_S sp; sp_R := sp_R sp; sp_q1 := sp_q1 sp; sp_q9 := sp_q9 sp; sp_Q := Q :: sp_Q sp |}.
  Proof.
    intros Hl1 Hl9.
    destruct (gr4j_uh1_sums_to_one x4 n1 Hx4 Hn1) as [_ [_ Hlu1]].
    destruct (gr4j_uh2_sums_to_one x4 n2 Hx4 Hn2) as [_ [_ Hlu2]].
    assert (Hu1 : forall i, nth i (gr4j_uh1 x4 n1) 0 = UH1 x4 (S i)) by (intros; apply uh1_nth; auto).
    assert (Hu2 : forall i, nth i (gr4j_uh2 x4 n2) 0 = UH2 x4 (S i)) by (intros; apply uh2_nth; auto).
    assert (Hb9 : length q9 = length (gr4j_uh1 x4 n1)) by congruence.
    assert (Hb1 : length q1 = length (gr4j_uh2 x4 n2)) by congruence.
    unfold spec_run. cbn [spec_production_run].
    destruct (spec_production x1 S0 P E) as [S1 Pr].
    destruct (spec_production_run x1 S1 io) as [ST prs].
    cbn [length seq map]. rewrite <- !seq_shift, !map_map.
    rewrite (map_ext _ _ (fun t => conv_out_cons (9 / 10) (UH1 x4) (gr4j_uh1 x4 n1) Hu1 q9 Pr prs t Hb9)).
    rewrite (map_ext _ _ (fun t => conv_out_cons (1 / 10) (UH2 x4) (gr4j_uh2 x4 n2) Hu2 q1 Pr prs t Hb1)).
    rewrite (map_ext _ _ (fun i => conv_carry_cons (9 / 10) (UH1 x4) (gr4j_uh1 x4 n1) Hu1 q9 Pr prs (length io) i Hb9)).
    rewrite (map_ext _ _ (fun i => conv_carry_cons (1 / 10) (UH2 x4) (gr4j_uh2 x4 n2) Hu2 q1 Pr prs (length io) i Hb1)).
    rewrite (conv_out_head (9 / 10) (UH1 x4) q9 Pr prs), (conv_out_head (1 / 10) (UH2 x4) q1 Pr prs).
    rewrite <- (buffer_step_out (9 / 10) (UH1 x4) (gr4j_uh1 x4 n1) Hu1 q9 Pr Hb9).
    rewrite <- (buffer_step_out (1 / 10) (UH2 x4) (gr4j_uh2 x4 n2) Hu2 q1 Pr Hb1).
    cbn [combine spec_routing_run].
    destruct (spec_routing x2 x3 Rs _ _) as [R1 Q].
    destruct (spec_routing_run x2 x3 R1 _) as [RT Qs]. reflexivity.
  Qed.

  Lemma gr4j_run_cons st P E io :
    gr4j_run x1 x2 x3 x4 n1 n2 st ((P, E) :: io) =
    let '(S2, Pr) := gr4j_production x1 (g_s st) P E in
    let q9a := uh_add (Pr * (9 / 10)) (g_q9 st) (gr4j_uh1 x4 n1) in
    let q1a := uh_add (Pr * (1 / 10)) (g_q1 st) (gr4j_uh2 x4 n2) in
    let '(R3, qtot) := gr4j_routing x2 x3 (g_r st) (nth 0 q9a 0) (nth 0 q1a 0) in
    let r := gr4j_run x1 x2 x3 x4 n1 n2
               {| g_s := S2; g_r := R3; g_q1 := uh_shift q1a; g_q9 := uh_shift q9a |} io in
    (fst r, qtot :: snd r).
  Proof.
    unfold gr4j_run. cbn [run]. unfold gr4j_step at 1.
    cbn [gr4j_mkpar g_x1 g_x2 g_x3 g_x4 g_uh1 g_uh2].
    destruct (gr4j_production x1 (g_s st) P E) as [S2 Pr]. runfold. cbv zeta.
    destruct (gr4j_routing x2 x3 (g_r st) _ _) as [R3 qtot].
    destruct (run _ _ io) as [s2 os]. reflexivity.
  Qed.

  Definition cap_ok (io : list (R * R)) : Prop :=
    Forall (fun x => Rabs (fst x - snd x) <= 13 * x1) io.

  (** C15 [core]: run of the code = run of the published model, for every series and all
      initial stores with 0 <= S <= x1, 0 <= R and unit-hydrograph stores of the right lengths
      (their contents are arbitrary).  Side condition: |P - E| <= 13 x1 every day, because the
      code caps the argument of tanh at 13 and the published equations do not. *)
  Theorem gr4j_equals_published io : forall st,
    0 <= g_s st <= x1 -> 0 <= g_r st -> length (g_q1 st) = n2 -> length (g_q9 st) = n1 ->
    io_nonneg io -> cap_ok io ->
    let r := gr4j_run x1 x2 x3 x4 n1 n2 st io in
    let sp := spec_run x1 x2 x3 x4 n1 n2 (g_s st) (g_r st) (g_q1 st) (g_q9 st) io in
    g_s (fst r) = sp_S sp /\ g_r (fst r) = sp_R sp /\ g_q1 (fst r) = sp_q1 sp /\
    g_q9 (fst r) = sp_q9 sp /\ snd r = sp_Q sp.
  Proof.
    destruct (gr4j_uh1_sums_to_one x4 n1 Hx4 Hn1) as [_ [_ Hlu1]].
    destruct (gr4j_uh2_sums_to_one x4 n2 Hx4 Hn2) as [_ [_ Hlu2]].
    pose proof (is_ceil_pos x4 n1 Hx4 Hn1) as Hn1p.
    pose proof (is_ceil_pos (2 * x4) n2 ltac:(lra) Hn2) as Hn2p.
    induction io as [|[P E] io IH]; intros st HS HR Hl1 Hl9 Hio Hcap.
    - cbn. unfold spec_run. cbn.
      rewrite (map_ext _ _ (conv_carry_nil (1 / 10) (UH2 x4) (g_q1 st))).
      rewrite (map_ext _ _ (conv_carry_nil (9 / 10) (UH1 x4) (g_q9 st))).
      rewrite <- Hl1 at 1. rewrite <- Hl9 at 1. rewrite !map_nth_seq. auto.
    - apply Forall_cons_iff in Hio. destruct Hio as [[HP HE] Hio'].
      apply Forall_cons_iff in Hcap. destruct Hcap as [Hc Hcap'].
      cbn [fst snd] in *.
      cbv zeta. rewrite spec_run_cons by auto. rewrite gr4j_run_cons.
      rewrite gr4j_production_spec by auto.
      pose proof (gr4j_production_facts x1 (g_s st) P E Hx1 HS HP HE) as Hpf. cbv zeta in Hpf.
      rewrite gr4j_production_spec in Hpf by auto.
      destruct (spec_production x1 (g_s st) P E) as [S1 Pr]. cbn [fst snd] in Hpf.
      destruct Hpf as [HS1 _]. cbv zeta.
      set (q9a := uh_add (Pr * (9 / 10)) (g_q9 st) (gr4j_uh1 x4 n1)).
      set (q1a := uh_add (Pr * (1 / 10)) (g_q1 st) (gr4j_uh2 x4 n2)).
      destruct (gr4j_routing_spec x2 x3 (g_r st) (nth 0 q9a 0) (nth 0 q1a 0) Hx3 HR) as [Hrt HR1].
      rewrite Hrt in *. destruct (spec_routing x2 x3 (g_r st) (nth 0 q9a 0) (nth 0 q1a 0)) as [R1 Q].
      cbn [fst] in HR1.
      assert (Hl9a : length q9a = n1) by (unfold q9a; rewrite uh_add_length; congruence).
      assert (Hl1a : length q1a = n2) by (unfold q1a; rewrite uh_add_length; congruence).
      assert (Hne9 : q9a <> []) by (intros E0; rewrite E0 in Hl9a; cbn in Hl9a; lia).
      assert (Hne1 : q1a <> []) by (intros E0; rewrite E0 in Hl1a; cbn in Hl1a; lia).
      specialize (IH {| g_s := S1; g_r := R1; g_q1 := uh_shift q1a; g_q9 := uh_shift q9a |}).
      cbn [g_s g_r g_q1 g_q9] in IH.
      specialize (IH HS1 HR1 ltac:(rewrite uh_shift_length; auto) ltac:(rewrite uh_shift_length; auto) Hio' Hcap').
      cbv zeta in IH.
      cbn [fst snd sp_S sp_R sp_q1 sp_q9 sp_Q].
      destruct IH as [A [B [C [D F]]]]. repeat split; auto. now rewrite F.
  Qed.
End Equal.

(** ** the shift register of the code is a convolution (stand-alone form) *)
Fixpoint sr_run (c : R) (uhl b prs : list R) : list R * list R :=
  match prs with
  | [] => (b, [])
  | pr :: r => let a := uh_add (pr * c) b uhl in
               let (bf, os) := sr_run c uhl (uh_shift a) r in (bf, nth 0 a 0 :: os)
  end.

Theorem gr4j_buffer_is_convolution c uh uhl : (forall i, nth i uhl 0 = uh (S i)) -> uhl <> [] ->
  forall prs b, length b = length uhl ->
  sr_run c uhl b prs =
  (map (conv_carry c uh b prs (length prs)) (seq 0 (length b)),
   map (conv_out c uh b prs) (seq 0 (length prs))).
Proof.
  intros Hu Hne. induction prs as [|pr prs IH]; intros b Hb.
  - cbn. rewrite (map_ext _ _ (conv_carry_nil c uh b)), map_nth_seq. reflexivity.
  - cbn [sr_run length]. 
    assert (Hla : length (uh_add (pr * c) b uhl) = length b) by (apply uh_add_length; auto).
    assert (Hnea : uh_add (pr * c) b uhl <> []).
    { intros E0. rewrite E0 in Hla. cbn in Hla. destruct uhl; [congruence|]. rewrite Hb in Hla. cbn in Hla. lia. }
    rewrite IH by (rewrite uh_shift_length; auto; congruence).
    rewrite uh_shift_length, Hla by auto. f_equal.
    + apply map_ext. intros i. symmetry. apply (conv_carry_cons c uh uhl Hu); auto.
    + cbn [seq map]. rewrite <- seq_shift, map_map. f_equal.
      * rewrite (conv_out_head c uh b pr prs). apply (buffer_step_out c uh uhl Hu); auto.
      * apply map_ext. intros t. symmetry. apply (conv_out_cons c uh uhl Hu); auto.
Qed.

(** * Packaged statements under the boolean range predicate (restated in Properties/C10.v, C15.v) *)
Definition gr4j_ok (x1 x3 x4 : R) : bool :=
  Rleb 1 x1 && Rleb 1 x3 && Rleb (1 / 2) x4 && Rleb x4 4.

Lemma gr4j_ok_spec x1 x3 x4 : gr4j_ok x1 x3 x4 = true -> 1 <= x1 /\ 1 <= x3 /\ 1 / 2 <= x4 <= 4.
Proof.
  unfold gr4j_ok. rewrite !andb_true_iff. intros [[[A B] C] D].
  apply Rleb_true in A, B, C, D. lra.
Qed.

Example gr4j_ok_satisfiable : gr4j_ok 350 90 (17 / 10) = true /\ is_ceil (17 / 10) 2 /\ is_ceil (2 * (17 / 10)) 4.
Proof.
  split; [|split].
  - unfold gr4j_ok. rewrite !andb_true_iff. repeat split; apply Rleb_true; lra.
  - unfold is_ceil. simpl. lra.
  - unfold is_ceil. simpl. lra.
Qed.

Theorem gr4j_uh_c10 : forall x4 n1 n2, 1 / 2 <= x4 <= 4 -> is_ceil x4 n1 -> is_ceil (2 * x4) n2 ->
  (1 <= n1 <= 4)%nat /\ (1 <= n2 <= 8)%nat /\
  Forall (fun u => 0 <= u) (gr4j_uh1 x4 n1) /\ rr_sum (gr4j_uh1 x4 n1) = 1 /\ length (gr4j_uh1 x4 n1) = n1 /\
  Forall (fun u => 0 <= u) (gr4j_uh2 x4 n2) /\ rr_sum (gr4j_uh2 x4 n2) = 1 /\ length (gr4j_uh2 x4 n2) = n2.
Proof.
  intros x4 n1 n2 Hx H1 H2.
  destruct (is_ceil_range x4 n1 n2 Hx H1 H2) as [A B].
  destruct (gr4j_uh1_sums_to_one x4 n1 ltac:(lra) H1) as [C [D E]].
  destruct (gr4j_uh2_sums_to_one x4 n2 ltac:(lra) H2) as [F [G H]].
  repeat split; auto; lia.
Qed.

Theorem gr4j_uh_c15 : forall x4 n1 n2, 1 / 2 <= x4 <= 4 -> is_ceil x4 n1 -> is_ceil (2 * x4) n2 ->
  gr4j_uh1 x4 n1 = map (fun i => UH1 x4 (S i)) (seq 0 n1) /\
  gr4j_uh2 x4 n2 = map (fun i => UH2 x4 (S i)) (seq 0 n2) /\
  (forall j, (n1 < j)%nat -> UH1 x4 j = 0) /\ (forall j, (n2 < j)%nat -> UH2 x4 j = 0).
Proof.
  intros x4 n1 n2 Hx H1 H2. repeat split.
  - apply gr4j_uh1_is_scurve_difference; auto; lra.
  - apply gr4j_uh2_is_scurve_difference; auto; lra.
  - intros j Hj. apply (UH1_beyond x4 n1); auto; lra.
  - intros j Hj. apply (UH2_beyond x4 n2); auto; lra.
Qed.

Theorem gr4j_c10 : forall x1 x2 x3 x4 n1 n2 st io,
  gr4j_ok x1 x3 x4 = true -> is_ceil x4 n1 -> is_ceil (2 * x4) n2 ->
  gr4j_inv x1 n1 n2 st -> io_nonneg io ->
  let r := gr4j_run x1 x2 x3 x4 n1 n2 st io in
  gr4j_inv x1 n1 n2 (fst r) /\ Forall (fun q => 0 <= q) (snd r) /\
  (g_r st < x3 -> g_r (fst r) < x3) /\
  (x2 <= 0 ->
     gr4j_stock (fst r) + rr_sum (snd r) <= gr4j_stock st + rr_sum (map fst io) /\
     forall t, rr_sum (firstn t (snd r)) <= rr_sum (firstn t (map fst io)) + gr4j_stock st) /\
  (x2 = 0 -> Forall (fun x => snd x = 0) io ->
     rr_sum (map fst io) = rr_sum (snd r) + (gr4j_stock (fst r) - gr4j_stock st)).
Proof.
  intros x1 x2 x3 x4 n1 n2 st io Hok H1 H2 Hinv Hio.
  destruct (gr4j_ok_spec _ _ _ Hok) as [A [B C]].
  assert (Hx1 : 0 < x1) by lra. assert (Hx3 : 0 < x3) by lra. assert (Hx4 : 0 < x4) by lra.
  cbv zeta.
  destruct (gr4j_stores_bounded x1 x2 x3 x4 n1 n2 Hx1 Hx3 Hx4 H1 H2 st io Hinv Hio) as [I1 I2].
  split; [exact I1|]. split; [exact I2|]. split; [|split].
  - intros Hr. apply gr4j_routing_store_below_capacity; auto.
  - intros Hx2. apply gr4j_no_water_created; auto.
  - intros Hx2 Hpet. apply gr4j_balance_exact; auto.
Qed.

Theorem gr4j_c15 : forall x1 x2 x3 x4 n1 n2 st io,
  gr4j_ok x1 x3 x4 = true -> is_ceil x4 n1 -> is_ceil (2 * x4) n2 ->
  0 <= g_s st <= x1 -> 0 <= g_r st -> length (g_q1 st) = n2 -> length (g_q9 st) = n1 ->
  io_nonneg io -> cap_ok x1 io ->
  let r := gr4j_run x1 x2 x3 x4 n1 n2 st io in
  let sp := spec_run x1 x2 x3 x4 n1 n2 (g_s st) (g_r st) (g_q1 st) (g_q9 st) io in
  g_s (fst r) = sp_S sp /\ g_r (fst r) = sp_R sp /\ g_q1 (fst r) = sp_q1 sp /\
  g_q9 (fst r) = sp_q9 sp /\ snd r = sp_Q sp.
Proof.
  intros x1 x2 x3 x4 n1 n2 st io Hok H1 H2.
  destruct (gr4j_ok_spec _ _ _ Hok) as [A [B C]].
  apply gr4j_equals_published; auto; lra.
Qed.

(** the cap on the tanh argument is immaterial: for w >= 13, tanh w is within 2e-11 of 1,
    so the capped and the published values differ by less than 2e-11 *)
Lemma exp26_big : 100000000000 < exp 26.
Proof. interval. Qed.

Lemma one_minus_tanh_small w : 13 <= w -> 0 < 1 - tanh w < 2 / 100000000000.
Proof.
  intros Hw. pose proof (tanh_lt_1 w). split; [lra|].
  assert (Hp := exp_pos w). assert (Hn := exp_pos (- w)).
  assert (Hprod : exp w * exp (- w) = 1) by (rewrite <- exp_plus; replace (w + - w) with 0 by lra; apply exp_0).
  assert (H13 : exp 13 <= exp w) by (destruct Hw as [Hw| <-]; [left; apply exp_increasing; auto|lra]).
  assert (H26 : exp 26 = exp 13 * exp 13) by (rewrite <- exp_plus; f_equal; lra).
  pose proof exp26_big as Hbig. assert (Hp13 := exp_pos 13).
  assert (Hsq : 100000000000 < exp w * exp w) by nra.
  unfold tanh, sinh, cosh.
  replace (1 - (exp w - exp (- w)) / 2 / ((exp w + exp (- w)) / 2))
    with (2 * exp (- w) / (exp w + exp (- w))) by (field; lra).
  apply Rmult_lt_reg_r with (exp w + exp (- w)); [lra|].
  unfold Rdiv at 1. rewrite Rmult_assoc, Rinv_l by lra.
  assert (exp (- w) * 100000000000 < exp w).
  { replace (exp w) with (exp w * exp w * exp (- w)) at 2 by (rewrite Rmult_assoc, Hprod; lra). nra. }
  nra.
Qed.

Lemma tanh_cap_error w : 13 <= w -> Rabs (tanh w - tanh (cap13 w)) < 2 / 100000000000.
Proof.
  intros Hw.
  assert (Hc : cap13 w = 13).
  { unfold cap13. runfold. destruct (Rltb 13 w) eqn:E; auto. apply Rltb_false in E. lra. }
  rewrite Hc. pose proof (one_minus_tanh_small w Hw). pose proof (one_minus_tanh_small 13 ltac:(lra)).
  apply Rabs_def1; lra.
Qed.

(** * The state vector: InitialiseStates and the kernel wrapper *)
Lemma Rtrunc_INR n : Rtrunc (INR n) = Z.of_nat n.
Proof.
  unfold Rtrunc. destruct (Rle_dec 0 (INR n)) as [_|H]; [apply Int_part_INR|].
  exfalso. apply H. apply pos_INR.
Qed.

Lemma Rtrunc_Rceil x : 0 < x -> exists n : nat, Rtrunc (Rceil x) = Z.of_nat n /\ is_ceil x n.
Proof.
  intros Hx. unfold Rceil.
  destruct (base_Int_part (- x)) as [H1 H2].
  set (k := (- Int_part (- x))%Z).
  assert (Hk : - IZR (Int_part (- x)) = IZR k) by (unfold k; rewrite opp_IZR; reflexivity).
  rewrite Hk. assert (Hk1 : x <= IZR k < x + 1) by lra.
  assert (Hk0 : (0 <= k)%Z). { apply le_IZR. lra. }
  exists (Z.to_nat k).
  assert (Hn : INR (Z.to_nat k) = IZR k) by (rewrite INR_IZR_INZ, Z2Nat.id; auto).
  split.
  - rewrite <- Hn, Rtrunc_INR, Z2Nat.id; auto.
  - unfold is_ceil. rewrite Hn. lra.
Qed.

(** initGR4J produces [0, 0, n1, n2, zeros] with n1 = ceil(x4), n2 = ceil(2 x4) *)
Theorem gr4j_init_states x4 : 0 < x4 ->
  exists n1 n2, is_ceil x4 n1 /\ is_ceil (2 * x4) n2 /\
    gr4j_init x4 = [0; 0; INR n1; INR n2] ++ repeat 0 n2 ++ repeat 0 n1.
Proof.
  intros Hx. destruct (Rtrunc_Rceil x4 Hx) as [n1 [E1 C1]].
  destruct (Rtrunc_Rceil (2 * x4) ltac:(lra)) as [n2 [E2 C2]].
  exists n1, n2. split; auto. split; auto.
  unfold gr4j_init. runfold. cbn [truncZ aceil RArith]. rewrite E1, E2, !Nat2Z.id, <- !INR_IZR_INZ. reflexivity.
Qed.

(** on a well-formed state vector the kernel wrapper is unpack; run; pack *)
Theorem gr4j_kernel_run x1 x2 x3 x4 n1 n2 s r q1 q9 rain pet :
  (1 <= n1)%nat -> (1 <= n2)%nat -> length q1 = n2 -> length q9 = n1 ->
  gr4j_kernel [x1; x2; x3; x4] (s :: r :: INR n1 :: INR n2 :: q1 ++ q9) [rain; pet] =
  let res := gr4j_run x1 x2 x3 x4 n1 n2 {| g_s := s; g_r := r; g_q1 := q1; g_q9 := q9 |} (combine rain pet) in
  Some ([snd res], g_s (fst res) :: g_r (fst res) :: INR n1 :: INR n2 :: g_q1 (fst res) ++ g_q9 (fst res) ++ []).
Proof.
  intros H1 H2 Hl1 Hl9. subst n1 n2. unfold gr4j_kernel. cbn [truncZ RArith]. rewrite !Rtrunc_INR, !Nat2Z.id.
  assert (Hc : ((1 <=? Z.of_nat (length q9)) && (1 <=? Z.of_nat (length q1)) &&
                (Z.of_nat (length q9) + Z.of_nat (length q1) <=? Z.of_nat (length (q1 ++ q9))))%Z = true).
  { rewrite app_length. rewrite !andb_true_iff. repeat split; apply Z.leb_le; lia. }
  rewrite Hc.
  rewrite firstn_app, Nat.sub_diag, firstn_O, app_nil_r, firstn_all.
  rewrite skipn_app, Nat.sub_diag, skipn_all. cbn [skipn app]. rewrite firstn_all.
  replace (skipn (length q1 + length q9) (q1 ++ q9)) with (@nil R)
    by (symmetry; apply skipn_all2; rewrite app_length; lia).
  cbv zeta. destruct (gr4j_run _ _ _ _ _ _ _ _) as [st' qs]. cbn [fst snd of_Z RArith].
  rewrite <- !INR_IZR_INZ. reflexivity.
Qed.
