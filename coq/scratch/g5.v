
(** * The state vector: InitialiseStates and the kernel wrapper *)
Lemma Rtrunc_INR n : Rtrunc (INR n) = Z.of_nat n.
Proof.
  unfold Rtrunc. destruct (Rle_dec 0 (INR n)) as [_|H]; [apply Int_part_INR|].
  exfalso. apply H. apply pos_INR.
Qed.

Lemma Rtrunc_Rceil x : 0 < x -> exists n : nat, Rtrunc (Rceil x) = Z.of_nat n /\ is_ceil x n.
Proof.
  intros Hx. unfold Rceil.
  destruct (base_Int_part (- x)) as [H1 H2].
  set (k := (- Int_part (- x))%Z).
  assert (Hk : - IZR (Int_part (- x)) = IZR k) by (unfold k; rewrite opp_IZR; reflexivity).
  rewrite Hk. assert (Hk1 : x <= IZR k < x + 1) by lra.
  assert (Hk0 : (0 <= k)%Z). { apply le_IZR. lra. }
  exists (Z.to_nat k).
  assert (Hn : INR (Z.to_nat k) = IZR k) by (rewrite INR_IZR_INZ, Z2Nat.id; auto).
  split.
  - rewrite <- Hn, Rtrunc_INR, Z2Nat.id; auto.
  - unfold is_ceil. rewrite Hn. lra.
Qed.

(** initGR4J produces [0, 0, n1, n2, zeros] with n1 = ceil(x4), n2 = ceil(2 x4) *)
Theorem gr4j_init_states x4 : 0 < x4 ->
  exists n1 n2, is_ceil x4 n1 /\ is_ceil (2 * x4) n2 /\
    gr4j_init x4 = [0; 0; INR n1; INR n2] ++ repeat 0 n2 ++ repeat 0 n1.
Proof.
  intros Hx. destruct (Rtrunc_Rceil x4 Hx) as [n1 [E1 C1]].
  destruct (Rtrunc_Rceil (2 * x4) ltac:(lra)) as [n2 [E2 C2]].
  exists n1, n2. split; auto. split; auto.
  unfold gr4j_init. runfold. cbn [truncZ aceil RArith]. rewrite E1, E2, !Nat2Z.id, <- !INR_IZR_INZ. reflexivity.
Qed.

(** on a well-formed state vector the kernel wrapper is unpack; run; pack *)
Theorem gr4j_kernel_run x1 x2 x3 x4 n1 n2 s r q1 q9 rain pet :
  (1 <= n1)%nat -> (1 <= n2)%nat -> length q1 = n2 -> length q9 = n1 ->
  gr4j_kernel [x1; x2; x3; x4] (s :: r :: INR n1 :: INR n2 :: q1 ++ q9) [rain; pet] =
  let res := gr4j_run x1 x2 x3 x4 n1 n2 {| g_s := s; g_r := r; g_q1 := q1; g_q9 := q9 |} (combine rain pet) in
  Some ([snd res], g_s (fst res) :: g_r (fst res) :: INR n1 :: INR n2 :: g_q1 (fst res) ++ g_q9 (fst res) ++ []).
Proof.
  intros H1 H2 Hl1 Hl9. subst n1 n2. unfold gr4j_kernel. cbn [truncZ RArith]. rewrite !Rtrunc_INR, !Nat2Z.id.
  assert (Hc : ((1 <=? Z.of_nat (length q9)) && (1 <=? Z.of_nat (length q1)) &&
                (Z.of_nat (length q9) + Z.of_nat (length q1) <=? Z.of_nat (length (q1 ++ q9))))%Z = true).
  { rewrite app_length. rewrite !andb_true_iff. repeat split; apply Z.leb_le; lia. }
  rewrite Hc.
  rewrite firstn_app, Nat.sub_diag, firstn_O, app_nil_r, firstn_all.
  rewrite skipn_app, Nat.sub_diag, skipn_all. cbn [skipn app]. rewrite firstn_all.
  replace (skipn (length q1 + length q9) (q1 ++ q9)) with (@nil R)
    by (symmetry; apply skipn_all2; rewrite app_length; lia).
  cbv zeta. destruct (gr4j_run _ _ _ _ _ _ _ _) as [st' qs]. cbn [fst snd of_Z RArith].
  rewrite <- !INR_IZR_INZ. reflexivity.
Qed.
