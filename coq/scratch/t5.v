From Coq Require Import Reals Lra ZArith.
Search Int_part.
Search up IZR.
