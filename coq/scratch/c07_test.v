From Coq Require Import List Arith Bool String.
From OW Require Import Sim.SimAux Sim.Graph Sim.RefSim Sim.ImplSim.
Import ListNotations.
Open Scope nat_scope.

Definition Ser := list nat.
Definition s_zero (n : nat) : Ser := repeat 0 n.
Fixpoint s_add (a b : Ser) : Ser := match a, b with x :: a', y :: b' => (x + y) :: s_add a' b' | _, _ => [] end.
(* names: 0 = Input (0 in, 1 out: param value const), 1 = Sum (2 in, 1 out), 2 = Acc (1 in, 1 out, 1 state) *)
Definition cat : catalogue nat := Build_catalogue (fun n => n <? 3) (fun n => match n with 0 => 1 | 1 => 2 | _ => 1 end) (fun _ => 1).
Definition K (nm : nat) (p s : list nat) (i : list Ser) : option (list Ser * list nat) :=
  match nm, i with
  | 0, [a] => Some ([map (fun x => x + hd 0 p) a], s)
  | 1, [a; b] => Some ([s_add a b], s)
  | 2, [a] => Some ([map (fun x => x * 2) a], [fold_left Nat.add a (hd 0 s)])
  | _, _ => None
  end.
Definition mk (a b c d e f g h i j : nat) := Build_link a b c d e f g h i j.
Definition gr : graph nat nat Ser := {|
  g_models := [
    {| md_name := 0; md_batches := [2; 2; 2]; md_params := [[10]; [20]]; md_states := [[]; []];
       md_inputs := Some (3, [[[1;2;3]]; [[4;5;6]]]) |};
    {| md_name := 1; md_batches := [0; 1; 2]; md_params := [[]; []]; md_states := [[]; []]; md_inputs := None |};
    {| md_name := 2; md_batches := [0; 1; 2]; md_params := [[]; []]; md_states := [[7]; [8]]; md_inputs := None |} ];
  g_links := [ mk 0 0 0 0 0 1 1 0 0 0; mk 0 0 1 1 0 1 1 0 0 1; mk 0 0 1 1 0 1 1 0 0 0; mk 0 0 0 0 0 2 2 1 0 0;
               mk 0 0 0 0 0 1 2 0 0 0;
               mk 1 1 0 0 0 2 1 1 0 0; mk 1 2 0 0 0 2 1 1 0 1; mk 1 1 0 0 0 2 2 1 0 0 ] |}.
Definition sel : selection nat := {| sel_outfile := true; sel_outputs_for := []; sel_no_outputs_for := []; sel_inputs_for := []; sel_no_inputs_for := []; sel_split := [] |}.
Compute valid_graph cat Nat.eqb gr.
Compute impl_sim s_zero s_add cat K Nat.eqb gr sel.
Compute ref_sim s_zero s_add cat K Nat.eqb gr sel.
