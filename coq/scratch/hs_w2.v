From Coq Require Import List ZArith Floats Bool.
From OW Require Import Base.Arith Base.FInst Base.Mealy KernelProofs.HotStart.
From OW Require Import Kernels.StorageRouting.
Import ListNotations.
Local Open Scope float_scope.
Definition stub_libm : LibM := {|
  l_exp := fun x => 1 + x; l_ln := fun x => x - 1; l_log10 := fun x => x - 1;
  l_tanh := fun x => x; l_cos := fun x => 1;
  l_pow := fun x y => if PrimFloat.eqb y 0 then 1 else x |}.
Definition SA := FArith stub_libm.
Definition sr_p : list float := [0; 86400; 1; 0; 0; 86400].
Definition sr_ins : list (list float) := [repeat 10 40; repeat 0 40; repeat 0 40; repeat 0 40].
Definition lastk {X} k (l : list X) := skipn (length l - k) l.
Definition show (r : option (list (list float) * list float)) := match r with Some (o, s) => Some (map (lastk 8) o, s) | None => None end.
Eval vm_compute in show (storage_routing_paths_kernel (A := SA) sr_p [0;0;0] sr_ins).
Eval vm_compute in show (split_then (storage_routing_paths_kernel (A := SA) sr_p) [0;0;0] sr_ins 35).
Eval vm_compute in show (split_then (storage_routing_paths_kernel (A := SA) sr_p) [0;0;0] sr_ins 38).
