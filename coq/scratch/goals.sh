#!/bin/bash
# usage: goals.sh <file.v> <line>   -- shows the goals after line <line>
f=$1; n=$2
head -n $n /verif/coq/$f > /verif/coq/scratch/_goals.v
echo 'Show. Abort. End Proofs.' >> /verif/coq/scratch/_goals.v
cd /verif/coq && timeout 300 coqc -Q . OW scratch/_goals.v 2>&1 | head -${3:-80}
