(** The external-writer mode: when the model's last batch is non-empty the
    process exits only after the child has written every message; when the last
    batch is empty it can exit with messages still unwritten (refutation). *)
From Coq Require Import List Arith Bool Lia.
From OW Require Import Sim.SimAux Sim.SimAuxProofs Sim.SplitProtocol.
Import ListNotations.

Section P.
  Variable counts : list nat.
  Local Notation G := (xG counts).

  Lemma nonempty_gens_S n :
    nonempty_gens counts (S n) = nonempty_gens counts n ++ (if 0 <? xcount counts n then [n] else []).
  Proof.
    unfold nonempty_gens. rewrite seq_S, filter_app. cbn. destruct (0 <? xcount counts n); reflexivity.
  Qed.

  Definition xinv (s : xstate) : Prop :=
    x_file s ++ x_queue s = nonempty_gens counts (x_next s) ++ (if x_waiting s then [x_next s] else []) /\
    x_next s <= G /\
    (x_waiting s = true -> S (x_next s) = G /\ 0 < xcount counts (x_next s)) /\
    (x_next s = G -> 0 < xcount counts (G - 1) -> x_queue s = [] /\ x_waiting s = false) /\
    (x_exited s = true -> x_next s = G).

  Lemma xinv_init : xinv (xinit).
  Proof. unfold xinv, xinit; cbn. repeat split; auto; try lia; try discriminate. Qed.

  Lemma xinv_step s l s' : xinv s -> xnext counts s l = Some s' -> xinv s'.
  Proof.
    intros (I1 & I2 & I3 & I4 & I5) H. unfold xnext in H.
    destruct (x_exited s) eqn:Ex; [discriminate|].
    destruct l as [g|g| |g|].
    - (* XSkip *)
      destruct ((g =? x_next s) && (g <? G) && (xcount counts g =? 0) && negb (x_waiting s)) eqn:C; [|discriminate].
      inversion H; subst s'; clear H.
      repeat (apply andb_true_iff in C; destruct C as [C ?]).
      apply Nat.eqb_eq in C. apply Nat.ltb_lt in H1. apply Nat.eqb_eq in H0. apply negb_true_iff in H.
      subst g. unfold xinv; cbn [x_next x_waiting x_queue x_file x_exited]. rewrite H in I1. rewrite nonempty_gens_S.
      replace (0 <? xcount counts (x_next s)) with false by (symmetry; apply Nat.ltb_ge; lia).
      rewrite !app_nil_r in *. repeat split; auto; try lia; try discriminate.
 Show. Abort. End P.
