From Coq Require Import List Arith Lia Bool ZArith.
From OW Require Import Base.Arith Base.Mealy KernelProofs.HotStart Kernels.C16Common Kernels.Scale Kernels.EmcDwc Kernels.UsleFine.
Import ListNotations.

Definition hc_spec {T} (K : kern T) := split_spec K /\ causal_spec K.
Lemma hc_none {T} : hc_spec (fun (_ : list T) (_ : list (list T)) => @None (list (list T) * list T)).
Proof. split; [apply split_spec_none|apply causal_spec_none]. Qed.
Lemma hc_ext {T} (K K' : kern T) : (forall s i, K s i = K' s i) -> hc_spec K' -> hc_spec K.
Proof. intros E [A B]; split; [eapply split_spec_ext|eapply causal_spec_ext]; eauto. Qed.
Lemma hc_rows {T In} (zip : list (list T) -> option (list In)) F : zip_laws zip -> rows_laws F -> hc_spec (kernel_of_rows zip F).
Proof. intros; split; [apply kernel_of_rows_split|apply kernel_of_rows_causal]; assumption. Qed.

Lemma run_loop_step {I O} (f : I -> O) xs : run (loop_step f) tt xs = (tt, map f xs).
Proof. apply run_unit_state. Qed.

Ltac shape p n :=
  match n with
  | O => destruct p as [|? ?]; [|exact hc_none]
  | S ?m => destruct p as [|? p]; [exact hc_none | shape p m]
  end.

Ltac rows_tac :=
  constructor; intros; cbv zeta;
  repeat match goal with |- context [if ?b then _ else _] => destruct b end;
  unfold untouched; rewrite ?run_loop_step; cbn [snd fst app_series firsts map];
  rewrite ?map_app, ?firstn_map_comm; reflexivity.

Ltac inst_tac := let s := fresh "s" in let i := fresh "ins" in intros s i; cbn;
  repeat (destruct i as [|? i]; try reflexivity).

Section S.
  Context {T : Type} {A : Arith T}.
  Theorem apply_scaling_factor_kernel_hc p : hc_spec (apply_scaling_factor_kernel p).
  Proof.
    shape p 1%nat.
    eapply hc_ext; [|apply (hc_rows lz1 (fun input => [apply_scaling t input])); [apply lz1_laws|]].
    - inst_tac.
    - unfold apply_scaling, apply_scaling_step. rows_tac.
  Qed.
  Theorem emc_dwc_kernel_hc p : hc_spec (emc_dwc_kernel p).
  Proof.
    shape p 2%nat.
    eapply hc_ext; [|apply (hc_rows lz2 (fun rows =>
        if (t =? zero)%ar && (t0 =? zero)%ar then
          [untouched rows; untouched rows; untouched rows]
        else
          let os := snd (run (emc_dwc_step t t0) tt rows) in
          [map (fun o => fst (fst o)) os; map (fun o => snd (fst o)) os; map snd os])); [apply lz2_laws|]].
    - inst_tac. destruct (_ && _); reflexivity.
    - unfold emc_dwc_step. rows_tac.
  Qed.
End S.
