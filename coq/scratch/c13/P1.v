From Coq Require Import ZArith Reals Lra Lia List Bool Sorted.
From OW Require Import Base.Arith Base.RInst Base.Mealy Kernels.Storage.
Import ListNotations.
Local Open Scope R_scope.

(** * Part 0: binary-fuel iteration is bounded iteration *)
Section IterFacts.
  Context {S R : Type} (f : S -> S + R).
  Lemma iter_nat_add a b s :
    iter_nat f (a + b) s = match iter_nat f a s with inl s' => iter_nat f b s' | inr r => inr r end.
  Proof.
    revert s; induction a as [|a IH]; intros s; cbn; [reflexivity|].
    destruct (f s) as [s'|r]; [apply IH|reflexivity].
  Qed.
  Lemma iter_pos_nat p s : iter_pos f p s = iter_nat f (Pos.to_nat p) s.
  Proof.
    revert s; induction p as [q IH|q IH|]; intros s.
    - rewrite Pos2Nat.inj_xI. cbn [iter_pos iter_nat]. destruct (f s) as [s1|r]; [|reflexivity].
      replace (2 * Pos.to_nat q)%nat with (Pos.to_nat q + Pos.to_nat q)%nat by lia.
      rewrite iter_nat_add, <- IH. destruct (iter_pos f q s1); [apply IH|reflexivity].
    - rewrite Pos2Nat.inj_xO. cbn [iter_pos].
      replace (2 * Pos.to_nat q)%nat with (Pos.to_nat q + Pos.to_nat q)%nat by lia.
      rewrite iter_nat_add, <- IH. destruct (iter_pos f q s); [apply IH|reflexivity].
    - rewrite Pos2Nat.inj_1. cbn. destruct (f s); reflexivity.
  Qed.

  (** invariants along a bounded iteration *)
  Lemma iter_nat_inv (P : S -> Prop) :
    (forall s s', P s -> f s = inl s' -> P s') ->
    forall n s0, P s0 ->
      (forall s', iter_nat f n s0 = inl s' -> P s') /\
      (forall r, iter_nat f n s0 = inr r -> exists s, P s /\ f s = inr r).
  Proof.
    intros Hstep n; induction n as [|n IH]; intros s0 H0; cbn.
    - split; [intros s' E; injection E as <-; exact H0 | intros r E; discriminate].
    - destruct (f s0) as [s1|r0] eqn:E0.
      + apply IH. eapply Hstep; eauto.
      + split; [intros s' E; discriminate|]. intros r E; injection E as <-. eauto.
  Qed.
End IterFacts.
