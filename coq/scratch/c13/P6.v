From Coq Require Import ZArith Reals Lra Lia List Bool Sorted.
From OW Require Import Base.Arith Base.RInst Base.Mealy Kernels.Storage KernelProofs.Storage.
Import ListNotations.
Local Open Scope R_scope.

(** * Part 5: termination - the fuel computed from deltaT is never exhausted (over R) *)

Lemma Rtrunc_bounds dt : 0 <= dt -> IZR (Rtrunc dt) <= dt < IZR (Rtrunc dt) + 1.
Proof.
  intros H. unfold Rtrunc. destruct (Rle_dec 0 dt); [|contradiction].
  pose proof (base_Int_part dt) as [A B]. lra.
Qed.

Lemma Rtrunc_nonneg dt : 0 <= dt -> (0 <= Rtrunc dt)%Z.
Proof.
  intros H. pose proof (Rtrunc_bounds dt H) as [A B].
  assert (-1 < Rtrunc dt)%Z by (apply lt_IZR; lra). lia.
Qed.

Lemma log2_up_ge a : (0 < a)%Z -> (a <= 2 ^ Z.log2_up a)%Z.
Proof.
  intros H. destruct (Z.eq_dec a 1) as [->|Hne]; [cbn; lia|].
  apply (Z.log2_up_spec a). lia.
Qed.

Lemma inner_fuel_enough dt h : 0 <= dt -> h <= dt ->
  exists f, @inner_fuel R RArith dt = S f /\ h <= 6 * 2 ^ f.
Proof.
  intros Hdt Hh. unfold inner_fuel. cbn [truncZ RArith].
  set (a := (Rtrunc dt + 1)%Z).
  exists (S (Z.to_nat (Z.log2_up a))). split; [reflexivity|].
  pose proof (Rtrunc_bounds dt Hdt) as [A B]. pose proof (Rtrunc_nonneg dt Hdt) as N.
  assert (Ha : (0 < a)%Z) by (unfold a; lia).
  pose proof (log2_up_ge a Ha) as L.
  assert (E : 2 ^ Z.to_nat (Z.log2_up a) = IZR (2 ^ Z.log2_up a)).
  { rewrite pow_IZR. rewrite Z2Nat.id by apply Z.log2_up_nonneg. reflexivity. }
  apply IZR_le in L. unfold a in L at 1. rewrite plus_IZR in L.
  cbn [pow]. rewrite E. lra.
Qed.

Lemma outer_fuel_enough dt : 0 <= dt ->
  exists n, Pos.to_nat (@outer_fuel R RArith dt) = S n /\ dt <= 6 * INR n.
Proof.
  intros Hdt. unfold outer_fuel. cbn [truncZ RArith].
  pose proof (Rtrunc_bounds dt Hdt) as [A B]. pose proof (Rtrunc_nonneg dt Hdt) as N.
  set (z := Rtrunc dt) in *.
  assert (Q : (0 <= z / 6)%Z) by (apply Z.div_pos; lia).
  exists (Z.to_nat (z / 6 + 1)). split.
  - lia.
  - rewrite INR_IZR_INZ, Z2Nat.id by lia.
    pose proof (Z.mul_succ_div_gt z 6 ltac:(lia)) as G.
    assert (G' : (z + 1 <= 6 * (z / 6 + 1))%Z) by lia.
    apply IZR_le in G'. rewrite plus_IZR, mult_IZR, plus_IZR in G'. rewrite plus_IZR. lra.
Qed.

Lemma outer_progress cv c dt V s s' ss : ts_inv cv c dt V s -> outer_link cv c s s' ss ->
  o_timeRemaining s' = 0 \/ o_timeRemaining s' <= o_timeRemaining s - 6.
Proof.
  intros (_ & Htr & Hsub & Hsix & _) (Htr0 & _ & _ & _ & Etr & _ & _ & _ & _ & _ & Hh).
  rewrite Etr. destruct Hh as [E|(H6 & _ & _)]; [|right; lra].
  unfold Rmin in E. destruct (Rle_dec _ _) as [L|L]; [left; lra|].
  destruct Hsix as [H6|Hle]; [right; lra|lra].
Qed.

Lemma outer_step_fuel fuel cv c s : outer_step fuel cv c s = inr OFuel ->
  exists p, inner_loop fuel cv p (Rmin (o_timeRemaining s) (o_subtimestep s * 2)) = IFuel.
Proof.
  unfold outer_step, gtb. cbn [autoAdjustDemand andb]. runfold. intros H.
  destruct (Rltb 0 (o_timeRemaining s)); [|discriminate].
  destruct (release_rate _ _ _); [|discriminate].
  destruct (capped_piecewise _ _ _); [|discriminate].
  destruct (inner_loop _ _ _ _) eqn:E; try discriminate.
  - destruct (Rltb _ 0); [discriminate|]. destruct (Rltb (volCurveMax cv) _); discriminate.
  - eexists. exact E.
Qed.

Lemma outer_terminates cv c dt V : net_ok c ->
  forall n s, ts_inv cv c dt V s -> o_timeRemaining s <= 6 * INR n ->
  exists r, iter_nat (outer_step (inner_fuel dt) cv c) (S n) s = inr r.
Proof.
  intros Hnet. induction n as [|n IH]; intros s Hi Hn.
  - cbn [iter_nat]. destruct (outer_step _ cv c s) as [s'|r] eqn:E; [|eauto].
    apply outer_step_inl in E. destruct E as (ss & H0 & _). cbn in Hn. lra.
  - cbn [iter_nat]. destruct (outer_step _ cv c s) as [s'|r] eqn:E; [|eauto].
    apply outer_step_inl in E. destruct E as (ss & L).
    pose proof (ts_inv_step _ _ _ _ _ _ _ Hnet Hi L) as Hi'.
    apply IH; [exact Hi'|].
    rewrite S_INR in Hn. pose proof (pos_INR n).
    destruct (outer_progress _ _ _ _ _ _ _ Hi L); lra.
Qed.

(** the loop of one time step never reports fuel exhaustion *)
Theorem ts_loop_terminates cv dt x V : ts_loop cv dt (ts_context cv dt x) V <> OFuel.
Proof.
  set (c := ts_context cv dt x). unfold ts_loop. rewrite iter_pos_nat.
  destruct (Rlt_dec 0 dt) as [Hdt|Hdt].
  - destruct (outer_fuel_enough dt ltac:(lra)) as (n & -> & Hn).
    destruct (outer_terminates cv c dt V (ts_context_net cv dt x) n (ts_initial dt V)) as [r Hr].
    { apply ts_inv_initial; exact Hdt. }
    { cbn. exact Hn. }
    rewrite Hr. intros ->.
    destruct (iter_nat_inv (outer_step (inner_fuel dt) cv c) (ts_inv cv c dt V)) with (n := S n) (s0 := ts_initial dt V)
      as [_ G].
    { intros s s' Hs Hst. apply outer_step_inl in Hst. destruct Hst as [ss L].
      eapply ts_inv_step; eauto. apply ts_context_net. }
    { apply ts_inv_initial; exact Hdt. }
    destruct (G _ Hr) as (s & Hs & Hf). apply outer_step_fuel in Hf. destruct Hf as [p Hf].
    destruct Hs as (_ & Htr & _).
    destruct (inner_fuel_enough dt (Rmin (o_timeRemaining s) (o_subtimestep s * 2))) as (f & Ef & Hb).
    { lra. } { eapply Rle_trans; [apply Rmin_l|]. lra. }
    rewrite Ef in Hf. eapply inner_no_fuel; eauto.
  - (* deltaT <= 0: the loop body is never entered *)
    destruct (Pos2Nat.is_succ (outer_fuel dt)) as [n ->]. cbn [iter_nat].
    unfold outer_step at 1. unfold gtb. runfold. cbn [ts_initial o_timeRemaining].
    rewrite (proj2 (Rltb_false _ _)) by lra. discriminate.
Qed.

Theorem storage_step_terminates cv dt s x : fst (storage_step cv dt s x) = SFuel -> s = SFuel.
Proof.
  unfold storage_step. destruct s as [V| |]; cbn; try discriminate; [|reflexivity].
  pose proof (ts_loop_terminates cv dt x V) as H.
  destruct (ts_loop _ _ _ _); cbn; try discriminate. congruence.
Qed.
