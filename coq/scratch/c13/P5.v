From Coq Require Import ZArith Reals Lra Lia List Bool Sorted.
From OW Require Import Base.Arith Base.RInst Base.Mealy Kernels.Storage KernelProofs.Storage.
Import ListNotations.
Local Open Scope R_scope.

(** ** the accepted sub-steps of a time step (ghost output) *)
Definition release_volume (o : tsout) : R := sumf (fun ss => ss_out ss * ss_h ss) (r_substeps o).
Definition spill_volume (o : tsout) : R := sumf ss_spill (r_substeps o).

Lemma sumf_plus {X} (f g : X -> R) l : sumf (fun x => f x + g x) l = sumf f l + sumf g l.
Proof. unfold sumf. induction l as [|a l IH]; simpl; [lra|]. rewrite IH. lra. Qed.

Lemma Forall_rev' {X} (P : X -> Prop) l : Forall P l -> Forall P (rev l).
Proof. intros H. apply Forall_forall. intros x Hx. rewrite Forall_forall in H. apply H. apply in_rev. exact Hx. Qed.

Theorem storage_step_trace cv dt V x V' o : 0 < dt ->
  storage_step cv dt (SOk V) x = (SOk V', Some o) ->
  let c := ts_context cv dt x in
  Forall (substep_ok cv c) (r_substeps o) /\
  Forall (fun ss => 0 < ss_h ss) (r_substeps o) /\
  sumf ss_h (r_substeps o) = dt /\
  r_outflow o * dt = release_volume o + spill_volume o /\
  linked V (r_substeps o) (r_volume o).
Proof.
  intros Hdt H c. apply storage_step_ok in H.
  destruct H as (f & Hl & -> & Hv & Ho & _ & _ & Hs).
  apply ts_loop_inv in Hl; [|exact Hdt|apply ts_context_net].
  destruct Hl as ((_ & _ & _ & _ & Hok & Hpos & Hsum & Hout & Hlink) & Htr0).
  unfold release_volume, spill_volume. rewrite Hs, Hv, Ho.
  repeat split.
  - apply Forall_rev'. exact Hok.
  - apply Forall_rev'. exact Hpos.
  - rewrite sumf_rev. lra.
  - rewrite !sumf_rev, Hout, sumf_plus. field. lra.
  - apply linked_rev_linked. exact Hlink.
Qed.

(** ** volume never negative (unless the step fails) *)
Theorem storage_step_volume_nonneg cv dt V x V' o : 0 < dt -> 0 <= volCurveMax cv -> 0 <= V ->
  storage_step cv dt (SOk V) x = (SOk V', Some o) ->
  0 <= r_volume o /\ Forall (fun ss => 0 <= ss_v0 ss /\ 0 <= ss_vmid ss /\ 0 <= ss_v1 ss) (r_substeps o).
Proof.
  intros Hdt Hvm HV H. apply storage_step_ok in H.
  destruct H as (f & Hl & -> & Hv & _ & _ & _ & Hs).
  apply ts_loop_done in Hl. destruct Hl as [_ Hl].
  rewrite Hv, Hs.
  assert (G : 0 <= o_volume f /\ Forall (fun ss => 0 <= ss_v0 ss /\ 0 <= ss_vmid ss /\ 0 <= ss_v1 ss) (o_trace f)).
  { apply Hl; [cbn; split; [exact HV|constructor]|].
    intros s s' ss [H0 HF] (_ & Etrace & Ev0 & Ev1 & _ & _ & _ & _ & _ & Sok & _).
    destruct Sok as (_ & _ & _ & _ & _ & Hmid & E1 & Hsp).
    assert (0 <= ss_v1 ss) by (destruct Hsp as [[_ Hz]|(Hgt & [Hs0 Hs1] & _)]; lra).
    rewrite Ev1, Etrace. split; [assumption|]. constructor; [|exact HF]. rewrite Ev0. auto. }
  destruct G as [G1 G2]. split; [exact G1|apply Forall_rev'; exact G2].
Qed.

(** ** spill only above the full-supply volume, never below it *)
Theorem substep_spill cv c ss : substep_ok cv c ss ->
  0 <= ss_spill ss /\
  (ss_spill ss <> 0 -> volCurveMax cv < ss_vmid ss /\ volCurveMax cv <= ss_v1 ss /\
                        ss_spill ss <= ss_vmid ss - volCurveMax cv).
Proof.
  intros (_ & _ & _ & _ & _ & _ & E1 & Hsp).
  destruct Hsp as [[_ Hz]|(Hgt & [Hs0 Hs1] & _)].
  - split; [lra|]. intros; lra.
  - split; [lra|]. intros _. repeat split; lra.
Qed.

(** ** release between the curves (at the volumes where the scheme evaluates them:
    the start volume and the predicted end volume of the sub-step) *)
Theorem substep_release cv c ss mn0 mx0 mn1 mx1 : substep_ok cv c ss ->
  capped_piecewise cv (ss_v0 ss) (t_minRelease (tb cv)) = Some mn0 ->
  capped_piecewise cv (ss_v0 ss) (t_maxRelease (tb cv)) = Some mx0 ->
  capped_piecewise cv (ss_vp ss) (t_minRelease (tb cv)) = Some mn1 ->
  capped_piecewise cv (ss_vp ss) (t_maxRelease (tb cv)) = Some mx1 ->
  mn0 <= mx0 -> mn1 <= mx1 ->
  Rmin mn0 mn1 <= ss_out ss <= Rmax mx0 mx1 /\
  (mn0 <= c_origDemand c <= mx0 -> mn1 <= c_origDemand c <= mx1 -> ss_out ss = c_origDemand c).
Proof.
  intros (He & Ha & Ho & _) A0 B0 A1 B1 L0 L1.
  destruct (release_rate_between _ _ _ _ _ _ He A0 B0 L0) as [R0 D0].
  destruct (release_rate_between _ _ _ _ _ _ Ha A1 B1 L1) as [R1 D1].
  rewrite Ho. split.
  - pose proof (Rmin_l mn0 mn1). pose proof (Rmin_r mn0 mn1).
    pose proof (Rmax_l mx0 mx1). pose proof (Rmax_r mx0 mx1). split; lra.
  - intros I0 I1. rewrite (D0 I0), (D1 I1). lra.
Qed.

(** curves ordered point by point: minRelease[i] <= maxRelease[i] *)
Definition curves_ordered (cv : curves) : Prop := Forall2 Rle (t_minRelease (tb cv)) (t_maxRelease (tb cv)).


Lemma capped_piecewise_lower cv vol ys y lo : wf_curves cv -> length ys = nlva (tb cv) ->
  capped_piecewise cv vol ys = Some y -> Forall (fun v => lo <= v) ys -> lo <= y.
Proof.
  intros W Hl E HF. rewrite Forall_forall in HF.
  destruct (capped_piecewise_cases cv vol W) as [[_ H]|[[_ H]|[_ (i & xi & xj & _ & _ & Hb & Hlt & H)]]].
  - destruct (H ys Hl) as (y0 & Hn & E'). rewrite E in E'; injection E' as ->.
    apply HF. eapply nth_error_In; eauto.
  - destruct (H ys Hl) as (y0 & Hn & E'). rewrite E in E'; injection E' as ->.
    apply HF. eapply nth_error_In; eauto.
  - destruct (H ys Hl) as (yi & yj & Hyi & Hyj & E'). rewrite E in E'; injection E' as ->.
    pose proof (frac_bounds vol xi xj Hb Hlt) as Hf.
    pose proof (HF yi (nth_error_In _ _ Hyi)). pose proof (HF yj (nth_error_In _ _ Hyj)).
    set (f := (vol - xi) / (xj - xi)) in *. nra.
Qed.

Lemma capped_piecewise_upper cv vol ys y hi : wf_curves cv -> length ys = nlva (tb cv) ->
  capped_piecewise cv vol ys = Some y -> Forall (fun v => v <= hi) ys -> y <= hi.
Proof.
  intros W Hl E HF. rewrite Forall_forall in HF.
  destruct (capped_piecewise_cases cv vol W) as [[_ H]|[[_ H]|[_ (i & xi & xj & _ & _ & Hb & Hlt & H)]]].
  - destruct (H ys Hl) as (y0 & Hn & E'). rewrite E in E'; injection E' as ->.
    apply HF. eapply nth_error_In; eauto.
  - destruct (H ys Hl) as (y0 & Hn & E'). rewrite E in E'; injection E' as ->.
    apply HF. eapply nth_error_In; eauto.
  - destruct (H ys Hl) as (yi & yj & Hyi & Hyj & E'). rewrite E in E'; injection E' as ->.
    pose proof (frac_bounds vol xi xj Hb Hlt) as Hf.
    pose proof (HF yi (nth_error_In _ _ Hyi)). pose proof (HF yj (nth_error_In _ _ Hyj)).
    set (f := (vol - xi) / (xj - xi)) in *. nra.
Qed.

Lemma sumf_weighted_bounds (l : list substep) lo hi :
  Forall (fun ss => 0 < ss_h ss /\ lo <= ss_out ss <= hi) l ->
  lo * sumf ss_h l <= sumf (fun ss => ss_out ss * ss_h ss) l <= hi * sumf ss_h l.
Proof.
  unfold sumf. induction 1 as [|ss l (Hh & Hlo & Hhi) _ IH]; simpl; [lra|].
  destruct IH. split; nra.
Qed.

Lemma sumf_weighted_const (l : list substep) d :
  Forall (fun ss => ss_out ss = d) l ->
  sumf (fun ss => ss_out ss * ss_h ss) l = d * sumf ss_h l.
Proof.
  unfold sumf. induction 1 as [|ss l Hd _ IH]; simpl; [lra|]. rewrite IH, Hd. ring.
Qed.

(** the two curve values at a volume, when the curves are ordered point by point *)
Lemma curves_at cv v : wf_curves cv -> curves_ordered cv ->
  exists mn mx, capped_piecewise cv v (t_minRelease (tb cv)) = Some mn /\
                capped_piecewise cv v (t_maxRelease (tb cv)) = Some mx /\ mn <= mx.
Proof.
  intros W O.
  destruct (capped_piecewise_total cv v _ W (wf_len_minRelease cv W)) as [mn Hmn].
  destruct (capped_piecewise_total cv v _ W (wf_len_maxRelease cv W)) as [mx Hmx].
  exists mn, mx. repeat split; try assumption.
  eapply (capped_piecewise_mono cv v _ _ mn mx W (wf_len_minRelease cv W) (wf_len_maxRelease cv W) Hmn Hmx). exact O.
Qed.

(** ** release of one time step between the curves over the volumes at which the scheme
    evaluates them (start volume and predicted end volume of every accepted sub-step) *)
Theorem storage_step_release_between cv dt V x V' o lo hi : 0 < dt ->
  wf_curves cv -> curves_ordered cv ->
  storage_step cv dt (SOk V) x = (SOk V', Some o) ->
  (forall ss v mn mx, In ss (r_substeps o) -> v = ss_v0 ss \/ v = ss_vp ss ->
     capped_piecewise cv v (t_minRelease (tb cv)) = Some mn ->
     capped_piecewise cv v (t_maxRelease (tb cv)) = Some mx -> lo <= mn /\ mx <= hi) ->
  lo * dt <= release_volume o <= hi * dt /\
  r_outflow o * dt = release_volume o + spill_volume o /\ 0 <= spill_volume o.
Proof.
  intros Hdt W O H Henv.
  destruct (storage_step_trace _ _ _ _ _ _ Hdt H) as (Hok & Hpos & Hsum & Hout & _).
  assert (Hsp : 0 <= spill_volume o).
  { unfold spill_volume, sumf. clear - Hok. induction Hok as [|ss l Hs _ IH]; simpl; [lra|].
    pose proof (proj1 (substep_spill _ _ _ Hs)). lra. }
  split; [|split; assumption].
  unfold release_volume. rewrite <- Hsum. apply sumf_weighted_bounds.
  rewrite Forall_forall in *. intros ss Hin. split; [apply Hpos; exact Hin|].
  destruct (curves_at cv (ss_v0 ss) W O) as (mn0 & mx0 & A0 & B0 & L0).
  destruct (curves_at cv (ss_vp ss) W O) as (mn1 & mx1 & A1 & B1 & L1).
  destruct (substep_release _ _ _ _ _ _ _ (Hok ss Hin) A0 B0 A1 B1 L0 L1) as [[R1 R2] _].
  destruct (Henv ss _ _ _ Hin (or_introl eq_refl) A0 B0).
  destruct (Henv ss _ _ _ Hin (or_intror eq_refl) A1 B1).
  split.
  - eapply Rle_trans; [|exact R1]. apply Rmin_glb; assumption.
  - eapply Rle_trans; [exact R2|]. apply Rmax_lub; assumption.
Qed.

(** global form: between the smallest minimum release and the largest maximum release of the table *)
Theorem storage_step_release_envelope cv dt V x V' o lo hi : 0 < dt ->
  wf_curves cv -> curves_ordered cv ->
  Forall (fun y => lo <= y) (t_minRelease (tb cv)) ->
  Forall (fun y => y <= hi) (t_maxRelease (tb cv)) ->
  storage_step cv dt (SOk V) x = (SOk V', Some o) ->
  lo * dt <= release_volume o <= hi * dt.
Proof.
  intros Hdt W O Flo Fhi H.
  apply (storage_step_release_between cv dt V x V' o lo hi Hdt W O H).
  intros ss v mn mx _ _ A B. split.
  - eapply capped_piecewise_lower; eauto using wf_len_minRelease.
  - eapply capped_piecewise_upper; eauto using wf_len_maxRelease.
Qed.

(** the release equals the demand when the demand lies between the curves at both
    evaluation volumes of every accepted sub-step; the reported outflow is then the
    demand plus the spill *)
Theorem storage_step_release_demand cv dt V x V' o : 0 < dt ->
  wf_curves cv -> curves_ordered cv ->
  storage_step cv dt (SOk V) x = (SOk V', Some o) ->
  (forall ss v mn mx, In ss (r_substeps o) -> v = ss_v0 ss \/ v = ss_vp ss ->
     capped_piecewise cv v (t_minRelease (tb cv)) = Some mn ->
     capped_piecewise cv v (t_maxRelease (tb cv)) = Some mx -> mn <= i_demand x <= mx) ->
  release_volume o = i_demand x * dt /\
  r_outflow o = i_demand x + spill_volume o / dt /\
  (spill_volume o = 0 -> r_outflow o = i_demand x).
Proof.
  intros Hdt W O H Henv.
  destruct (storage_step_trace _ _ _ _ _ _ Hdt H) as (Hok & Hpos & Hsum & Hout & _).
  assert (E : release_volume o = i_demand x * dt).
  { unfold release_volume. rewrite <- Hsum. apply sumf_weighted_const.
    rewrite Forall_forall in *. intros ss Hin.
    destruct (curves_at cv (ss_v0 ss) W O) as (mn0 & mx0 & A0 & B0 & L0).
    destruct (curves_at cv (ss_vp ss) W O) as (mn1 & mx1 & A1 & B1 & L1).
    destruct (substep_release _ _ _ _ _ _ _ (Hok ss Hin) A0 B0 A1 B1 L0 L1) as [_ D].
    apply D.
    - apply (Henv ss _ _ _ Hin (or_introl eq_refl) A0 B0).
    - apply (Henv ss _ _ _ Hin (or_intror eq_refl) A1 B1). }
  split; [exact E|].
  assert (E2 : r_outflow o = i_demand x + spill_volume o / dt).
  { rewrite E in Hout. apply Rmult_eq_reg_r with dt; [|lra]. rewrite Hout. field. lra. }
  split; [exact E2|]. intros Z. rewrite E2, Z. unfold Rdiv. ring.
Qed.
