From Coq Require Import ZArith Reals Lra Lia List Bool Sorted.
From OW Require Import Base.Arith Base.RInst Base.Mealy Kernels.Storage KernelProofs.Storage.
Import ListNotations.
Local Open Scope R_scope.

(** * Part 6: whole runs of storageWaterBalance *)

Lemma run_cons {S I O} (step : S -> I -> S * O) s x r :
  run step s (x :: r) = let (s1, o) := step s x in let (s2, os) := run step s1 r in (s2, o :: os).
Proof. reflexivity. Qed.

Lemma run_sticky_panic cv dt xs : fst (run (storage_step cv dt) SPanic xs) = SPanic.
Proof.
  induction xs as [|x r IH]; cbn; [reflexivity|].
  destruct (run (storage_step cv dt) SPanic r) as [s2 os]. cbn in *. exact IH.
Qed.
Lemma run_sticky_fuel cv dt xs : fst (run (storage_step cv dt) SFuel xs) = SFuel.
Proof.
  induction xs as [|x r IH]; cbn; [reflexivity|].
  destruct (run (storage_step cv dt) SFuel r) as [s2 os]. cbn in *. exact IH.
Qed.

(** a run that ends well is a chain of successful time steps *)
Inductive steps_chain (cv : curves) (dt : R) : R -> list tsin -> list tsout -> R -> Prop :=
| sc_nil V : steps_chain cv dt V [] [] V
| sc_cons V x xs o os v :
    storage_step cv dt (SOk V) x = (SOk (r_volume o), Some o) ->
    steps_chain cv dt (r_volume o) xs os v ->
    steps_chain cv dt V (x :: xs) (o :: os) v.

Lemma run_ok cv dt : forall xs V v outs,
  run (storage_step cv dt) (SOk V) xs = (SOk v, outs) ->
  exists os, all_some outs = Some os /\ steps_chain cv dt V xs os v.
Proof.
  induction xs as [|x r IH]; intros V v outs H.
  - cbn in H. injection H as <- <-. exists []. split; [reflexivity|constructor].
  - rewrite run_cons in H. destruct (storage_step cv dt (SOk V) x) as [s1 oo] eqn:E1.
    destruct (run (storage_step cv dt) s1 r) as [s2 os'] eqn:E2.
    injection H as -> <-.
    destruct s1 as [V1| |].
    + destruct (IH _ _ _ E2) as (os & Hall & Hch).
      assert (exists o, oo = Some o /\ V1 = r_volume o) as (o & -> & ->).
      { unfold storage_step in E1. destruct (ts_loop _ _ _ _); try discriminate.
        injection E1 as <- <-. eexists. split; reflexivity. }
      exists (o :: os). split; [cbn; rewrite Hall; reflexivity|]. econstructor; eauto.
    + pose proof (run_sticky_panic cv dt r) as S. rewrite E2 in S. discriminate.
    + pose proof (run_sticky_fuel cv dt r) as S. rewrite E2 in S. discriminate.
Qed.

(** the volume before time step t is the t-th element of (V0 :: reported volumes) *)
Lemma steps_chain_nth cv dt V xs os v : steps_chain cv dt V xs os v ->
  forall t x o, nth_error xs t = Some x -> nth_error os t = Some o ->
  exists Vp, nth_error (V :: map r_volume os) t = Some Vp /\
             storage_step cv dt (SOk Vp) x = (SOk (r_volume o), Some o).
Proof.
  induction 1 as [V|V x0 xs o0 os v Hs Hc IH]; intros t x o Hx Ho.
  - destruct t; discriminate.
  - destruct t as [|t]; cbn in Hx, Ho.
    + injection Hx as <-; injection Ho as <-. exists V. split; [reflexivity|exact Hs].
    + destruct (IH t x o Hx Ho) as (Vp & Hn & Hst). exists Vp. split; [exact Hn|exact Hst].
Qed.

Lemma last_indep (l : list R) d d' : l <> [] -> last l d = last l d'.
Proof.
  induction l as [|a l IH]; [congruence|]. intros _. destruct l as [|b l]; [reflexivity|].
  change (last (a :: b :: l) d) with (last (b :: l) d). change (last (a :: b :: l) d') with (last (b :: l) d').
  apply IH. congruence.
Qed.

Lemma steps_chain_final cv dt V xs os v : steps_chain cv dt V xs os v ->
  v = last (V :: map r_volume os) V /\ length os = length xs.
Proof.
  induction 1 as [V|V x0 xs o0 os v Hs Hc [IH1 IH2]]; [split; reflexivity|].
  split; [|cbn; lia]. rewrite IH1. cbn [map].
  change (last (V :: r_volume o0 :: map r_volume os) V) with (last (r_volume o0 :: map r_volume os) V).
  apply last_indep. congruence.
Qed.

(** ** well-formed tables: >= 2 rows, equal lengths, strictly increasing volumes *)
Record wf_tables (tbl : tables) : Prop := {
  wt_n : (2 <= nlva tbl)%nat;
  wt_levels : length (t_levels tbl) = nlva tbl;
  wt_volumes : length (t_volumes tbl) = nlva tbl;
  wt_areas : length (t_areas tbl) = nlva tbl;
  wt_minRelease : length (t_minRelease tbl) = nlva tbl;
  wt_maxRelease : length (t_maxRelease tbl) = nlva tbl;
  wt_sorted : StronglySorted Rlt (t_volumes tbl)
}.

Lemma make_curves_wf tbl cv : wf_tables tbl -> make_curves tbl = Some cv -> wf_curves cv /\ tb cv = tbl.
Proof.
  intros W. unfold make_curves.
  destruct (nth_error (t_volumes tbl) 0) as [v0|] eqn:E0; [|discriminate].
  destruct (nth_error (t_volumes tbl) (nlva tbl - 1)) as [vN|] eqn:EN; [|discriminate].
  destruct (nth_error (t_minRelease tbl) (nlva tbl - 1)) as [ms|] eqn:EM; [|discriminate].
  destruct (Nat.eqb (nlva tbl) 0); [discriminate|]. intros H; injection H as <-.
  split; [|reflexivity]. destruct W. constructor; cbn; assumption.
Qed.

Lemma make_curves_total tbl : wf_tables tbl -> exists cv, make_curves tbl = Some cv.
Proof.
  intros W. unfold make_curves. pose proof (wt_n tbl W).
  destruct (nth_error (t_volumes tbl) 0) eqn:E0;
    [|apply nth_error_None in E0; rewrite (wt_volumes tbl W) in E0; lia].
  destruct (nth_error (t_volumes tbl) (nlva tbl - 1)) eqn:EN;
    [|apply nth_error_None in EN; rewrite (wt_volumes tbl W) in EN; lia].
  destruct (nth_error (t_minRelease tbl) (nlva tbl - 1)) eqn:EM;
    [|apply nth_error_None in EM; rewrite (wt_minRelease tbl W) in EM; lia].
  destruct (Nat.eqb (nlva tbl) 0) eqn:En; [apply Nat.eqb_eq in En; lia|]. eauto.
Qed.

(** Maximum() of a strictly increasing table is its last row *)
Lemma fold_max_sorted : forall xs res, StronglySorted Rlt xs -> Forall (fun v => res <= v) xs ->
  fold_left (fun res v : R => if (v >? res)%ar then v else res) xs res = last xs res.
Proof.
  induction xs as [|a r IH]; intros res Hs Hf; [reflexivity|].
  inversion Hs as [|? ? Hs' Hall]; subst. inversion Hf as [|? ? Ha Hf']; subst.
  cbn [fold_left]. unfold gtb. runfold.
  assert (E : (if Rltb res a then a else res) = a).
  { destruct (Rltb res a) eqn:E; [reflexivity|]. apply Rltb_false in E. lra. }
  rewrite E. rewrite IH; [|exact Hs'|].
  - destruct r as [|b r']; [reflexivity|].
    change (last (a :: b :: r') res) with (last (b :: r') res). apply last_indep. congruence.
  - eapply Forall_impl; [|exact Hall]. cbn. intros; lra.
Qed.

Lemma config_ok_vmax cv : wf_curves cv ->
  storage_configuration_error (nlva (tb cv)) (t_volumes (tb cv)) = Some false -> 0 < volCurveMax cv.
Proof.
  intros W. unfold storage_configuration_error, maximum.
  destruct (Nat.eqb _ 0); [discriminate|].
  destruct (t_volumes (tb cv)) as [|x0 r] eqn:Ev.
  { discriminate. }
  rewrite fold_max_sorted.
  - runfold. destruct (Rleb _ 0) eqn:E; [discriminate|]. apply Rleb_false in E. intros _.
    rewrite (wf_vmax_last cv W), Ev. rewrite (last_indep _ 0 x0) by congruence. exact E.
  - rewrite <- Ev. apply (wf_sorted cv W).
  - pose proof (wf_sorted cv W) as Hs. rewrite Ev in Hs. inversion Hs as [|? ? _ Hall]; subst.
    constructor; [lra|]. eapply Forall_impl; [|exact Hall]. cbn; intros; lra.
Qed.

(** what a normal result of [storage_water_balance] means *)
Theorem storage_water_balance_ok tbl dt V0 xs os v l a : wf_tables tbl ->
  storage_water_balance tbl dt V0 xs = ROk os v l a ->
  exists cv, make_curves tbl = Some cv /\ wf_curves cv /\ tb cv = tbl /\ 0 < volCurveMax cv /\
    steps_chain cv dt V0 xs os v /\
    capped_piecewise cv v (t_levels tbl) = Some l /\
    capped_piecewise cv v (t_areas tbl) = Some a.
Proof.
  intros W. unfold storage_water_balance.
  destruct (make_curves tbl) as [cv|] eqn:Ec; [|discriminate].
  destruct (make_curves_wf _ _ W Ec) as [Wc Etb].
  destruct (storage_configuration_error _ _) as [[|]|] eqn:Ee; try discriminate.
  destruct (run _ _ _) as [s outs] eqn:Er. destruct s as [v'| |]; try discriminate.
  destruct (run_ok _ _ _ _ _ _ Er) as (os' & Hall & Hch). rewrite Hall.
  destruct (capped_piecewise cv v' (t_levels tbl)) as [l'|] eqn:El; [|discriminate].
  destruct (capped_piecewise cv v' (t_areas tbl)) as [a'|] eqn:Ea; [|discriminate].
  intros H; injection H as <- <- <- <-.
  exists cv. split; [reflexivity|]. split; [exact Wc|]. split; [exact Etb|].
  split; [|repeat split; assumption].
  apply config_ok_vmax; [exact Wc|]. rewrite Etb. exact Ee.
Qed.

(** ** C13 statements over whole runs *)

Theorem storage_timestep_balance tbl dt V0 xs os v l a : wf_tables tbl -> 0 < dt ->
  storage_water_balance tbl dt V0 xs = ROk os v l a ->
  forall t x o, nth_error xs t = Some x -> nth_error os t = Some o ->
  exists Vp, nth_error (V0 :: map r_volume os) t = Some Vp /\
    r_volume o - Vp = (i_inflow x - r_outflow o) * dt
                      + (r_rainfallVolume o - r_evaporationVolume o) * dt.
Proof.
  intros W Hdt H t x o Hx Ho.
  destruct (storage_water_balance_ok _ _ _ _ _ _ _ _ W H) as (cv & _ & _ & _ & _ & Hch & _).
  destruct (steps_chain_nth _ _ _ _ _ _ Hch t x o Hx Ho) as (Vp & Hn & Hst).
  exists Vp. split; [exact Hn|]. apply (storage_step_balance _ _ _ _ _ _ Hdt Hst).
Qed.

Lemma steps_chain_nonneg cv dt V xs os v : 0 < dt -> 0 <= volCurveMax cv ->
  steps_chain cv dt V xs os v -> 0 <= V ->
  Forall (fun o => 0 <= r_volume o) os /\ 0 <= v.
Proof.
  intros Hdt Hvm. induction 1 as [V|V x0 xs o0 os v Hs Hc IH]; intros HV.
  - split; [constructor|exact HV].
  - destruct (storage_step_volume_nonneg _ _ _ _ _ _ Hdt Hvm HV Hs) as [H0 _].
    destruct (IH H0) as [IH1 IH2]. split; [constructor; assumption|exact IH2].
Qed.

Theorem storage_volume_nonneg tbl dt V0 xs os v l a : wf_tables tbl -> 0 < dt -> 0 <= V0 ->
  storage_water_balance tbl dt V0 xs = ROk os v l a ->
  Forall (fun o => 0 <= r_volume o) os /\ 0 <= v.
Proof.
  intros W Hdt HV H.
  destruct (storage_water_balance_ok _ _ _ _ _ _ _ _ W H) as (cv & _ & _ & _ & Hvm & Hch & _).
  apply (steps_chain_nonneg cv dt V0 xs os v Hdt (Rlt_le _ _ Hvm) Hch HV).
Qed.

Theorem storage_final_level_area tbl dt V0 xs os v l a : wf_tables tbl ->
  storage_water_balance tbl dt V0 xs = ROk os v l a ->
  v = last (V0 :: map r_volume os) V0 /\
  table_value (t_volumes tbl) (t_levels tbl) v l /\
  table_value (t_volumes tbl) (t_areas tbl) v a.
Proof.
  intros W H.
  destruct (storage_water_balance_ok _ _ _ _ _ _ _ _ W H) as (cv & _ & Wc & Etb & _ & Hch & Hl & Ha).
  split; [apply (steps_chain_final _ _ _ _ _ _ Hch)|].
  rewrite <- Etb in *. split; eapply capped_piecewise_table_value; eauto using wf_len_levels, wf_len_areas.
Qed.

Theorem storage_terminates tbl dt V0 xs : storage_water_balance tbl dt V0 xs <> RFuel.
Proof.
  unfold storage_water_balance.
  destruct (make_curves tbl) as [cv|]; [|discriminate].
  destruct (storage_configuration_error _ _) as [[|]|]; try discriminate.
  destruct (run _ _ _) as [s outs] eqn:Er.
  destruct s as [v| |]; try discriminate.
  - destruct (all_some outs); [|discriminate].
    destruct (capped_piecewise _ _ _); [|discriminate]. destruct (capped_piecewise _ _ _); discriminate.
  - exfalso. revert V0 outs Er. induction xs as [|x r IH]; intros V0 outs Er; [cbn in Er; discriminate|].
    rewrite run_cons in Er. destruct (storage_step cv dt (SOk V0) x) as [s1 oo] eqn:E1.
    destruct (run (storage_step cv dt) s1 r) as [s2 os'] eqn:E2. injection Er as -> <-.
    destruct s1 as [V1| |].
    + eapply IH; eauto.
    + pose proof (run_sticky_panic cv dt r) as S. rewrite E2 in S. discriminate.
    + pose proof (storage_step_terminates cv dt (SOk V0) x) as T. rewrite E1 in T. cbn in T.
      specialize (T eq_refl). discriminate.
Qed.

(** every accepted sub-step of every time step: volume change, chaining, sub-steps fill deltaT *)
Theorem storage_substep_balance tbl dt V0 xs os v l a : wf_tables tbl -> 0 < dt ->
  storage_water_balance tbl dt V0 xs = ROk os v l a ->
  forall t x o, nth_error xs t = Some x -> nth_error os t = Some o ->
  let net := (i_rainfall x / dt - i_pet x / dt) * (1 / 1000) in
  (forall ss, In ss (r_substeps o) ->
     ss_v1 ss - ss_v0 ss = (i_inflow x - ss_out ss + net * ss_area ss) * ss_h ss - ss_spill ss /\
     0 < ss_h ss) /\
  sumf ss_h (r_substeps o) = dt /\
  exists Vp, nth_error (V0 :: map r_volume os) t = Some Vp /\ linked Vp (r_substeps o) (r_volume o).
Proof.
  intros W Hdt H t x o Hx Ho net.
  destruct (storage_water_balance_ok _ _ _ _ _ _ _ _ W H) as (cv & _ & _ & _ & _ & Hch & _).
  destruct (steps_chain_nth _ _ _ _ _ _ Hch t x o Hx Ho) as (Vp & Hn & Hst).
  destruct (storage_step_trace _ _ _ _ _ _ Hdt Hst) as (Hok & Hpos & Hsum & _ & Hlink).
  split; [|split; [exact Hsum|exists Vp; split; assumption]].
  intros ss Hin. rewrite Forall_forall in Hok, Hpos. split; [|apply Hpos; exact Hin].
  pose proof (substep_balance _ _ _ (Hok ss Hin)) as B.
  cbn [ts_context c_inflow c_net c_rainfallPerSecond c_petPerSecond] in B.
  unfold MILLIMETRES_TO_METRES in B. runfold. exact B.
Qed.

Theorem storage_release_between_curves tbl dt V0 xs os v l a : wf_tables tbl ->
  Forall2 Rle (t_minRelease tbl) (t_maxRelease tbl) -> 0 < dt ->
  storage_water_balance tbl dt V0 xs = ROk os v l a ->
  forall cv, make_curves tbl = Some cv ->
  forall t x o, nth_error xs t = Some x -> nth_error os t = Some o ->
  r_outflow o * dt = release_volume o + spill_volume o /\ 0 <= spill_volume o /\
  (forall lo hi,
     (forall ss v mn mx, In ss (r_substeps o) -> v = ss_v0 ss \/ v = ss_vp ss ->
        capped_piecewise cv v (t_minRelease tbl) = Some mn ->
        capped_piecewise cv v (t_maxRelease tbl) = Some mx -> lo <= mn /\ mx <= hi) ->
     lo * dt <= release_volume o <= hi * dt) /\
  ((forall ss v mn mx, In ss (r_substeps o) -> v = ss_v0 ss \/ v = ss_vp ss ->
        capped_piecewise cv v (t_minRelease tbl) = Some mn ->
        capped_piecewise cv v (t_maxRelease tbl) = Some mx -> mn <= i_demand x <= mx) ->
   release_volume o = i_demand x * dt /\ (spill_volume o = 0 -> r_outflow o = i_demand x)).
Proof.
  intros W O Hdt H cv Ecv t x o Hx Ho.
  destruct (storage_water_balance_ok _ _ _ _ _ _ _ _ W H) as (cv' & Ecv' & Wc & Etb & _ & Hch & _).
  rewrite Ecv in Ecv'. injection Ecv' as <-.
  destruct (steps_chain_nth _ _ _ _ _ _ Hch t x o Hx Ho) as (Vp & Hn & Hst).
  assert (Oc : curves_ordered cv) by (unfold curves_ordered; rewrite Etb; exact O).
  rewrite <- Etb.
  assert (triv : forall ss v mn mx, In ss (r_substeps o) -> v = ss_v0 ss \/ v = ss_vp ss ->
        capped_piecewise cv v (t_minRelease (tb cv)) = Some mn ->
        capped_piecewise cv v (t_maxRelease (tb cv)) = Some mx -> mn <= mn /\ mx <= mx) by (intros; lra).
  split; [|split; [|split]].
  - destruct (storage_step_trace _ _ _ _ _ _ Hdt Hst) as (_ & _ & _ & Hout & _). exact Hout.
  - destruct (storage_step_trace _ _ _ _ _ _ Hdt Hst) as (Hok & _ & _ & _ & _).
    unfold spill_volume, sumf. clear - Hok. induction Hok as [|ss l0 Hs _ IH]; simpl; [lra|].
    pose proof (proj1 (substep_spill _ _ _ Hs)). lra.
  - intros lo hi Henv.
    apply (storage_step_release_between cv dt Vp x _ o lo hi Hdt Wc Oc Hst Henv).
  - intros Henv.
    destruct (storage_step_release_demand cv dt Vp x _ o Hdt Wc Oc Hst Henv) as (E1 & _ & E3).
    split; assumption.
Qed.

Theorem storage_release_envelope tbl dt V0 xs os v l a lo hi : wf_tables tbl ->
  Forall2 Rle (t_minRelease tbl) (t_maxRelease tbl) -> 0 < dt ->
  Forall (fun y => lo <= y) (t_minRelease tbl) -> Forall (fun y => y <= hi) (t_maxRelease tbl) ->
  storage_water_balance tbl dt V0 xs = ROk os v l a ->
  forall t o, nth_error os t = Some o ->
  lo * dt <= release_volume o <= hi * dt /\
  r_outflow o * dt = release_volume o + spill_volume o.
Proof.
  intros W O Hdt Flo Fhi H t o Ho.
  destruct (storage_water_balance_ok _ _ _ _ _ _ _ _ W H) as (cv & Ecv & Wc & Etb & _ & Hch & _).
  assert (Hx : exists x, nth_error xs t = Some x).
  { destruct (steps_chain_final _ _ _ _ _ _ Hch) as [_ Hlen].
    destruct (nth_error xs t) eqn:E; [eauto|]. apply nth_error_None in E.
    assert (nth_error os t <> None) by congruence. apply nth_error_Some in H0. lia. }
  destruct Hx as [x Hx].
  destruct (steps_chain_nth _ _ _ _ _ _ Hch t x o Hx Ho) as (Vp & Hn & Hst).
  assert (Oc : curves_ordered cv) by (unfold curves_ordered; rewrite Etb; exact O).
  rewrite <- Etb in Flo, Fhi. split.
  - apply (storage_step_release_envelope cv dt Vp x _ o lo hi Hdt Wc Oc Flo Fhi Hst).
  - destruct (storage_step_trace _ _ _ _ _ _ Hdt Hst) as (_ & _ & _ & Hout & _). exact Hout.
Qed.

Theorem storage_spill_only_above_fsv tbl dt V0 xs os v l a : wf_tables tbl -> 0 < dt ->
  storage_water_balance tbl dt V0 xs = ROk os v l a ->
  forall cv, make_curves tbl = Some cv ->
  forall t o ss, nth_error os t = Some o -> In ss (r_substeps o) ->
  0 <= ss_spill ss /\
  (ss_spill ss <> 0 -> volCurveMax cv < ss_vmid ss /\ volCurveMax cv <= ss_v1 ss /\
                        ss_spill ss <= ss_vmid ss - volCurveMax cv) /\
  ss_v1 ss = ss_vmid ss - ss_spill ss.
Proof.
  intros W Hdt H cv Ecv t o ss Ho Hin.
  destruct (storage_water_balance_ok _ _ _ _ _ _ _ _ W H) as (cv' & Ecv' & Wc & Etb & _ & Hch & _).
  rewrite Ecv in Ecv'. injection Ecv' as <-.
  assert (Hx : exists x, nth_error xs t = Some x).
  { destruct (steps_chain_final _ _ _ _ _ _ Hch) as [_ Hlen].
    destruct (nth_error xs t) eqn:E; [eauto|]. apply nth_error_None in E.
    assert (nth_error os t <> None) by congruence. apply nth_error_Some in H0. lia. }
  destruct Hx as [x Hx].
  destruct (steps_chain_nth _ _ _ _ _ _ Hch t x o Hx Ho) as (Vp & Hn & Hst).
  destruct (storage_step_trace _ _ _ _ _ _ Hdt Hst) as (Hok & _).
  rewrite Forall_forall in Hok. pose proof (Hok ss Hin) as S.
  destruct (substep_spill _ _ _ S) as [A B]. split; [exact A|]. split; [exact B|].
  destruct S as (_ & _ & _ & _ & _ & _ & E1 & _). exact E1.
Qed.

(** the driver-facing kernel is the projection of the ghost result *)
Lemma storage_kernel_ok params states inputs os v l a :
  storage_run params states inputs = ROk os v l a ->
  storage_kernel params states inputs =
    Some ([map r_volume os; map r_outflow os; map r_rainfallVolume os; map r_evaporationVolume os], [v; l; a]).
Proof. unfold storage_kernel. intros ->. reflexivity. Qed.
