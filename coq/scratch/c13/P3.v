From Coq Require Import ZArith Reals Lra Lia List Bool Sorted.
From OW Require Import Base.Arith Base.RInst Base.Mealy Kernels.Storage KernelProofs.Storage.
Import ListNotations.
Local Open Scope R_scope.

(** * Part 3: one accepted sub-step *)

Definition substep_ok (cv : curves) (c : tsctx) (ss : substep) : Prop :=
  release_rate cv (c_origDemand c) (ss_v0 ss) = Some (ss_est ss) /\
  release_rate cv (c_origDemand c) (ss_vp ss) = Some (ss_after ss) /\
  ss_out ss = (ss_after ss + ss_est ss) / 2 /\
  ss_vp ss = ss_v0 ss + ((c_inflow c - ss_est ss) + c_net c * ss_area ss) * ss_h ss /\
  ss_vmid ss = ss_v0 ss + ((c_inflow c + c_net c * ss_area ss) - ss_out ss) * ss_h ss /\
  0 <= ss_vmid ss /\
  ss_v1 ss = ss_vmid ss - ss_spill ss /\
  ((ss_vmid ss <= volCurveMax cv /\ ss_spill ss = 0) \/
   (volCurveMax cv < ss_vmid ss /\ 0 <= ss_spill ss <= ss_vmid ss - volCurveMax cv /\
    ss_spill ss <= Rmax (Rmax (Rmin (ss_vmid ss / volCurveMax cv) 2 * maxSpill cv - ss_out ss) 0 * ss_h ss) 0)).

Definition outer_link (cv : curves) (c : tsctx) (s s' : ostate) (ss : substep) : Prop :=
  0 < o_timeRemaining s /\
  o_trace s' = ss :: o_trace s /\
  ss_v0 ss = o_volume s /\ o_volume s' = ss_v1 ss /\
  o_timeRemaining s' = o_timeRemaining s - ss_h ss /\
  o_subtimestep s' = ss_h ss /\
  o_outflowVolume s' = o_outflowVolume s + ss_out ss * ss_h ss + ss_spill ss /\
  o_rainfallVol s' = o_rainfallVol s + c_rainfallPerSecond c * (1 / 1000) * ss_area ss * ss_h ss /\
  o_evaporationVol s' = o_evaporationVol s + c_petPerSecond c * (1 / 1000) * ss_area ss * ss_h ss /\
  substep_ok cv c ss /\
  (ss_h ss = Rmin (o_timeRemaining s) (o_subtimestep s * 2) \/
   (6 <= ss_h ss /\ ss_h ss <= Rmin (o_timeRemaining s) (o_subtimestep s * 2) /\
    6 < Rmin (o_timeRemaining s) (o_subtimestep s * 2))).

Lemma outer_step_inl fuel cv c s s' : outer_step fuel cv c s = inl s' ->
  exists ss, outer_link cv c s s' ss.
Proof.
  unfold outer_step, gtb. cbn [autoAdjustDemand andb]. runfold. intros H.
  destruct (Rltb 0 (o_timeRemaining s)) eqn:Etr; [apply Rltb_true in Etr|discriminate].
  destruct (release_rate cv (c_origDemand c) (o_volume s)) as [est|] eqn:Eest; [|discriminate].
  destruct (capped_piecewise cv (o_volume s) (t_areas (tb cv))) as [area|] eqn:Earea; [|discriminate].
  destruct (inner_loop _ _ _ _) as [h vp ea ao aa| |] eqn:Ein; [|discriminate|discriminate].
  apply inner_accept in Ein. destruct Ein as (HT & Hh). apply trial_accept in HT.
  cbn [p_volume p_inflow p_demand p_net p_estOutflow p_area] in HT.
  destruct HT as (Hvp & Hafter & Hao & Htv).
  destruct (Rltb _ 0) eqn:Eneg; [discriminate|]. apply Rltb_false in Eneg.
  destruct (Rltb (volCurveMax cv) _) eqn:Espill.
  - apply Rltb_true in Espill. injection H as <-.
    eexists. unfold outer_link. split; [exact Etr|]. split; [cbn; reflexivity|].
    unfold substep_ok. cbn. unfold MILLIMETRES_TO_METRES. runfold.
    repeat split; try reflexivity; try assumption; try lra.
    right. split; [exact Espill|]. split.
    + split; [apply Rmax_r|]. apply Rmax_lub; [apply Rmin_r|lra].
    + apply Rmax_lub; [|apply Rmax_r].
      eapply Rle_trans; [apply Rmin_l|]. apply Rmax_l.
  - apply Rltb_false in Espill. injection H as <-.
    eexists. unfold outer_link. split; [exact Etr|]. split; [cbn; reflexivity|].
    unfold substep_ok. cbn. unfold MILLIMETRES_TO_METRES. runfold.
    repeat split; try reflexivity; try assumption; try lra.
Qed.
