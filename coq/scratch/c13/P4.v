From Coq Require Import ZArith Reals Lra Lia List Bool Sorted.
From OW Require Import Base.Arith Base.RInst Base.Mealy Kernels.Storage KernelProofs.Storage.
Import ListNotations.
Local Open Scope R_scope.

(** * Part 4: one time step *)

Theorem substep_balance cv c ss : substep_ok cv c ss ->
  ss_v1 ss - ss_v0 ss = (c_inflow c - ss_out ss + c_net c * ss_area ss) * ss_h ss - ss_spill ss.
Proof. intros (_ & _ & _ & _ & Hm & _ & H1 & _). rewrite H1, Hm. ring. Qed.

Definition sumf {X} (f : X -> R) (l : list X) : R := fold_right (fun x a => f x + a) 0 l.
Lemma sumf_app {X} (f : X -> R) l l' : sumf f (l ++ l') = sumf f l + sumf f l'.
Proof. unfold sumf. induction l as [|a l IH]; simpl; [lra|]. rewrite IH. lra. Qed.
Lemma sumf_rev {X} (f : X -> R) l : sumf f (rev l) = sumf f l.
Proof. induction l as [|a l IH]; simpl; [reflexivity|]. rewrite sumf_app, IH. unfold sumf; simpl. lra. Qed.

(** consecutive sub-steps: each starts at the volume the previous one ended with *)
Fixpoint linked (V : R) (l : list substep) (vend : R) : Prop :=
  match l with
  | [] => vend = V
  | ss :: r => ss_v0 ss = V /\ linked (ss_v1 ss) r vend
  end.
Fixpoint linked_rev (V : R) (l : list substep) (vend : R) : Prop :=
  match l with
  | [] => vend = V
  | ss :: r => ss_v1 ss = vend /\ linked_rev V r (ss_v0 ss)
  end.
Lemma linked_snoc : forall l V ss vend, linked V l (ss_v0 ss) -> ss_v1 ss = vend -> linked V (l ++ [ss]) vend.
Proof.
  induction l as [|a l IH]; intros V ss vend H1 H2; cbn in *.
  - split; [exact H1|symmetry; exact H2].
  - destruct H1 as [Ha Hl]. split; [exact Ha|]. apply IH; assumption.
Qed.
Lemma linked_rev_linked : forall l V vend, linked_rev V l vend -> linked V (rev l) vend.
Proof.
  induction l as [|a l IH]; intros V vend H; cbn in *; [exact H|].
  destruct H as [H1 H2]. apply linked_snoc; [apply IH; exact H2|exact H1].
Qed.

Lemma outer_step_done fuel cv c s f : outer_step fuel cv c s = inr (ODone f) ->
  f = s /\ o_timeRemaining s <= 0.
Proof.
  unfold outer_step, gtb. runfold. intros H.
  destruct (Rltb 0 (o_timeRemaining s)) eqn:E.
  - exfalso.
    destruct (release_rate _ _ _); [|discriminate].
    destruct (capped_piecewise _ _ _); [|discriminate].
    destruct (inner_loop _ _ _ _); try discriminate.
    destruct (Rltb _ 0); [discriminate|].
    destruct (Rltb (volCurveMax cv) _); discriminate.
  - apply Rltb_false in E. injection H as <-. auto.
Qed.

(** induction principle for a completed time step: anything that holds initially and is
    preserved by every accepted sub-step holds of the final loop state; and the loop
    ends with no time remaining *)
Lemma ts_loop_done cv dt c V f : ts_loop cv dt c V = ODone f ->
  o_timeRemaining f <= 0 /\
  forall P : ostate -> Prop, P (ts_initial dt V) ->
    (forall s s' ss, P s -> outer_link cv c s s' ss -> P s') -> P f.
Proof.
  unfold ts_loop. rewrite iter_pos_nat. intros H.
  destruct (iter_nat _ _ _) as [s'|r] eqn:E; [discriminate|]. subst r.
  assert (G : forall P : ostate -> Prop, P (ts_initial dt V) ->
              (forall s s' ss, P s -> outer_link cv c s s' ss -> P s') ->
              exists s, P s /\ outer_step (inner_fuel dt) cv c s = inr (ODone f)).
  { intros P H0 Hstep.
    eapply (iter_nat_inv (outer_step (inner_fuel dt) cv c) P); [|exact H0|exact E].
    intros s s' Hs Hst. apply outer_step_inl in Hst. destruct Hst as [ss Hl]. eapply Hstep; eauto. }
  split.
  - destruct (G (fun _ => True) I) as (s & _ & Hs); [auto|]. apply outer_step_done in Hs. destruct Hs as [-> Hs]. exact Hs.
  - intros P H0 Hstep. destruct (G P H0 Hstep) as (s & Hp & Hs). apply outer_step_done in Hs. destruct Hs as [-> _]. exact Hp.
Qed.

Definition net_ok (c : tsctx) : Prop :=
  c_net c = (c_rainfallPerSecond c - c_petPerSecond c) * (1 / 1000).

Lemma ts_context_net cv dt x : net_ok (ts_context cv dt x).
Proof. unfold net_ok, ts_context, MILLIMETRES_TO_METRES. cbn. runfold. reflexivity. Qed.

(** the loop invariant of one time step *)
Definition ts_inv (cv : curves) (c : tsctx) (dt V : R) (s : ostate) : Prop :=
  o_volume s - V = c_inflow c * (dt - o_timeRemaining s)
                   + (o_rainfallVol s - o_evaporationVol s) - o_outflowVolume s /\
  0 <= o_timeRemaining s <= dt /\
  0 < o_subtimestep s <= dt /\
  (6 <= o_subtimestep s \/ o_timeRemaining s <= o_subtimestep s) /\
  Forall (substep_ok cv c) (o_trace s) /\
  Forall (fun ss => 0 < ss_h ss) (o_trace s) /\
  o_timeRemaining s = dt - sumf ss_h (o_trace s) /\
  o_outflowVolume s = sumf (fun ss => ss_out ss * ss_h ss + ss_spill ss) (o_trace s) /\
  linked_rev V (o_trace s) (o_volume s).

Lemma ts_inv_initial cv c dt V : 0 < dt -> ts_inv cv c dt V (ts_initial dt V).
Proof.
  intros Hdt. unfold ts_inv, ts_initial. cbn. runfold.
  repeat split; try lra; try constructor.
Qed.

Lemma link_h_bounds cv c s s' ss : outer_link cv c s s' ss -> 0 < o_subtimestep s ->
  0 < ss_h ss /\ ss_h ss <= o_timeRemaining s /\ ss_h ss <= o_subtimestep s * 2.
Proof.
  intros (Htr & _ & _ & _ & _ & _ & _ & _ & _ & _ & Hh) Hs.
  pose proof (Rmin_l (o_timeRemaining s) (o_subtimestep s * 2)).
  pose proof (Rmin_r (o_timeRemaining s) (o_subtimestep s * 2)).
  destruct Hh as [->|(H6 & Hle & _)].
  - repeat split; try assumption. apply Rmin_glb_lt; lra.
  - repeat split; lra.
Qed.

Lemma ts_inv_step cv c dt V s s' ss : net_ok c ->
  ts_inv cv c dt V s -> outer_link cv c s s' ss -> ts_inv cv c dt V s'.
Proof.
  intros Hnet (Hbal & Htr & Hsub & Hsix & Hok & Hpos & Hsum & Hout & Hlink) L.
  pose proof (link_h_bounds _ _ _ _ _ L (proj1 Hsub)) as (Hh0 & Hh1 & Hh2).
  destruct L as (Htr0 & Etrace & Ev0 & Ev1 & Etr & Esub & Eout & Erain & Eevap & Sok & Hh).
  pose proof (substep_balance _ _ _ Sok) as Hsb.
  unfold ts_inv. rewrite Etrace, Ev1, Etr, Esub, Eout, Erain, Eevap.
  split; [|split; [split|split; [split|split; [|split; [|split; [|split; [|split]]]]]]].
  - rewrite Ev0 in Hsb. unfold net_ok in Hnet. rewrite Hnet in Hsb.
    assert (E : ss_v1 ss - V = (ss_v1 ss - o_volume s) + (o_volume s - V)) by ring.
    rewrite E, Hsb, Hbal. ring.
  - lra.
  - lra.
  - exact Hh0.
  - destruct Hh as [->|(H6 & Hle & _)].
    + eapply Rle_trans; [apply Rmin_l|]. lra.
    + pose proof (Rmin_l (o_timeRemaining s) (o_subtimestep s * 2)). lra.
  - destruct Hh as [E|(H6 & _ & _)]; [|left; exact H6].
    destruct Hsix as [H6|Hle].
    + unfold Rmin in E. destruct (Rle_dec _ _); [right; lra|left; lra].
    + right. unfold Rmin in E. destruct (Rle_dec _ _); lra.
  - constructor; assumption.
  - constructor; assumption.
  - cbn. fold (sumf ss_h (o_trace s)). lra.
  - cbn. fold (sumf (fun ss => ss_out ss * ss_h ss + ss_spill ss) (o_trace s)). lra.
  - cbn. split; [reflexivity|]. rewrite Ev0. exact Hlink.
Qed.

Lemma ts_loop_inv cv dt c V f : 0 < dt -> net_ok c -> ts_loop cv dt c V = ODone f ->
  ts_inv cv c dt V f /\ o_timeRemaining f = 0.
Proof.
  intros Hdt Hnet H. apply ts_loop_done in H. destruct H as [Hle H].
  assert (Hi : ts_inv cv c dt V f).
  { apply H; [apply ts_inv_initial; exact Hdt|]. intros; eapply ts_inv_step; eauto. }
  split; [exact Hi|]. destruct Hi as (_ & Htr & _). lra.
Qed.

(** what [storage_step] returns when it does not fail *)
Lemma storage_step_ok cv dt V x V' o : storage_step cv dt (SOk V) x = (SOk V', Some o) ->
  exists f, ts_loop cv dt (ts_context cv dt x) V = ODone f /\
    V' = o_volume f /\ r_volume o = o_volume f /\
    r_outflow o = o_outflowVolume f / dt /\
    r_rainfallVolume o = o_rainfallVol f / dt /\
    r_evaporationVolume o = o_evaporationVol f / dt /\
    r_substeps o = rev (o_trace f).
Proof.
  unfold storage_step. destruct (ts_loop _ _ _ _) as [f| |]; intros H; try discriminate.
  injection H as <- <-. exists f. cbn. runfold. repeat split; reflexivity.
Qed.

(** ** the water balance of one time step, with the REPORTED quantities.
    Over the reals the accepted sub-steps add up to deltaT exactly ([timeRemaining] reaches 0);
    in binary64 this holds to round-off only. *)
Theorem storage_step_balance cv dt V x V' o : 0 < dt ->
  storage_step cv dt (SOk V) x = (SOk V', Some o) ->
  V' = r_volume o /\
  r_volume o - V = (i_inflow x - r_outflow o) * dt
                   + (r_rainfallVolume o - r_evaporationVolume o) * dt.
Proof.
  intros Hdt H. apply storage_step_ok in H.
  destruct H as (f & Hl & -> & Hv & Ho & Hr & He & _).
  apply ts_loop_inv in Hl; [|exact Hdt|apply ts_context_net].
  destruct Hl as ((Hbal & _) & Htr0). split; [symmetry; exact Hv|].
  rewrite Hv, Ho, Hr, He, Hbal, Htr0. cbn [ts_context c_inflow]. field. lra.
Qed.
