From Coq Require Import Reals Lra Lia ZArith.
Local Open Scope R_scope.
Lemma exp_nat_mul n x : exp (INR n * x) = exp x ^ n.
Proof.
  induction n as [|n IH]; [simpl; rewrite Rmult_0_l; apply exp_0|].
  rewrite S_INR, Rmult_plus_distr_r, Rmult_1_l, exp_plus, IH. simpl. ring.
Qed.

Lemma exp26_big : 40000000000 < exp 26.
Proof.
  assert (H : 9 / 8 < exp (1 / 8)) by (pose proof (exp_ineq1 (1 / 8) ltac:(lra)); lra).
  replace 26 with (INR 208 * (1 / 8)) by (rewrite INR_IZR_INZ; simpl; lra).
  rewrite exp_nat_mul.
  apply Rlt_le_trans with ((9 / 8) ^ 208); [|apply pow_incr; lra].
  unfold Rdiv. rewrite Rpow_mult_distr, pow_inv, !pow_IZR.
  apply Rmult_lt_reg_r with (IZR (8 ^ Z.of_nat 208)).
  - apply IZR_lt. vm_compute. reflexivity.
  - rewrite Rmult_assoc, Rinv_l by (apply not_0_IZR; vm_compute; discriminate).
    rewrite Rmult_1_r, <- mult_IZR. apply IZR_lt. vm_compute. reflexivity.
Qed.
Print Assumptions exp26_big.
