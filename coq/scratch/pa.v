From OW Require Import KernelProofs.Gr4j KernelProofs.Gr4jUH.
Print Assumptions gr4j_equals_published.
Check gr4j_equals_published.
Check gr4j_balance_exact.
