From Coq Require Import List ZArith Floats Bool.
From OW Require Import Base.Arith Base.FInst Base.Mealy KernelProofs.HotStart.
From OW Require Import Kernels.Sacramento Kernels.InstreamDissolvedNutrient Kernels.StorageRouting Kernels.TrapAll.
Import ListNotations.
Local Open Scope float_scope.

Definition stub_libm : LibM := {|
  l_exp := fun x => 1 + x; l_ln := fun x => x - 1; l_log10 := fun x => x - 1;
  l_tanh := fun x => x; l_cos := fun x => 1;
  l_pow := fun x y => if PrimFloat.eqb y 0 then 1 else x |}.
Definition SA := FArith stub_libm.

Definition sac_p : list float := [0.01; 0.05; 0.3; 50; 40; 130; 25; 60; 0.06; 1; 40; 0; 0; 0.01; 0; 0; 0.3; 0.8; 0.1; 0.05; 0.03; 0.02].
Definition sac_ins : list (list float) := [[10; 0; 0]; [0; 0; 0]].
Eval vm_compute in sacramento_kernel (A := SA) sac_p [0;0;0;0;0;0] sac_ins.
Eval vm_compute in split_then (sacramento_kernel (A := SA) sac_p) [0;0;0;0;0;0] sac_ins 1.

Definition dn_p : list float := [1; 0; 10; 10; 1000000; 0; 86400].
Definition dn_ins : list (list float) := [[1;1]; [0;0]; [1000000; 4000000]; [10;10]; [0;0]].
Eval vm_compute in instream_dissolved_nutrient_decay_kernel (A := SA) dn_p [100] dn_ins.
Eval vm_compute in split_then (instream_dissolved_nutrient_decay_kernel (A := SA) dn_p) [100] dn_ins 1.

Definition sr_p : list float := [0; 86400; 1; 0; 0; 86400].
Definition sr_ins : list (list float) := [[10;10;10;10]; [0;0;0;0]; [0;0;0;0]; [0;0;0;0]].
Eval vm_compute in storage_routing_paths_kernel (A := SA) sr_p [0;0;0] sr_ins.
Eval vm_compute in split_then (storage_routing_paths_kernel (A := SA) sr_p) [0;0;0] sr_ins 2.
