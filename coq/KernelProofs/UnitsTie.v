(** The unit factors used by the C16 kernels (Kernels/UnitConsts.v) equal the
    constants regenerated from /repo/conv/units, /repo/conv/rough (and
    generation.EFFECTIVELY_ZERO) into Gen/Units.v by harness/cmd/unitsgen on
    every run of the check: a change of a unit constant in the Go source breaks
    one of these proof obligations. *)
From Coq Require Import ZArith QArith Qreals Reals Lra.
From OW Require Import Base.Arith Base.RInst Kernels.UnitConsts.
From OW Require Gen.Units.
Local Open Scope R_scope.

Lemma of_qp_Q2R (c : Z * positive) : of_qp (A := RArith) c = Q2R (fst c # snd c).
Proof. reflexivity. Qed.

Definition qp (c : Z * positive) : Q := fst c # snd c.

(** rational equalities against the regenerated file *)
Theorem unit_constants_match_source :
  (qp q_MG_PER_LITRE_TO_KG_PER_M3 == Units.MG_PER_LITRE_TO_KG_PER_M3
   /\ qp q_MILLIGRAM_TO_KG == Units.MILLIGRAM_TO_KG
   /\ qp q_KG_TO_MILLIGRAM == Units.KG_TO_MILLIGRAM
   /\ qp q_TONNES_TO_KG == Units.TONNES_TO_KG
   /\ qp q_MILLIMETRES_TO_METRES == Units.MILLIMETRES_TO_METRES
   /\ qp q_METRES_TO_MILLIMETRES == Units.METRES_TO_MILLIMETRES
   /\ qp q_PERCENT_TO_PROPORTION == Units.PERCENT_TO_PROPORTION
   /\ qp q_SECONDS_PER_DAY == Units.SECONDS_PER_DAY
   /\ qp q_CUBIC_METRES_TO_LITRES == Units.CUBIC_METRES_TO_LITRES
   /\ qp q_MEGA_LITRES_TO_LITRES == Units.MEGA_LITRES_TO_LITRES
   /\ qp q_SQUARE_METRES_TO_HECTARES == Units.SQUARE_METRES_TO_HECTARES
   /\ qp q_CUMECS_TO_ML_PER_DAY == Units.CUBIC_METRES_PER_SECOND_TO_MEGA_LITRES_PER_DAY
   /\ qp q_DAYS_PER_YEAR == Units.DAYS_PER_YEAR
   /\ qp q_EFFECTIVELY_ZERO == Units.pass_load_if_flow__EFFECTIVELY_ZERO
   /\ qp q_CUMECS_TO_LITRES_PER_DAY == Units.SECONDS_PER_DAY * Units.CUBIC_METRES_TO_LITRES
   /\ (100 # 36525) == / Units.DAYS_PER_YEAR)%Q.
Proof. repeat split; vm_compute; reflexivity. Qed.

(** the same, for the real values the theorems are about *)

Theorem unit_factors_real :
  u_MG_PER_LITRE_TO_KG_PER_M3 (A := RArith) = Q2R Units.MG_PER_LITRE_TO_KG_PER_M3
  /\ u_MILLIGRAM_TO_KG (A := RArith) = Q2R Units.MILLIGRAM_TO_KG
  /\ u_KG_TO_MILLIGRAM (A := RArith) = Q2R Units.KG_TO_MILLIGRAM
  /\ u_TONNES_TO_KG (A := RArith) = Q2R Units.TONNES_TO_KG
  /\ u_MILLIMETRES_TO_METRES (A := RArith) = Q2R Units.MILLIMETRES_TO_METRES
  /\ u_METRES_TO_MILLIMETRES (A := RArith) = Q2R Units.METRES_TO_MILLIMETRES
  /\ u_PERCENT_TO_PROPORTION (A := RArith) = Q2R Units.PERCENT_TO_PROPORTION
  /\ u_SECONDS_PER_DAY (A := RArith) = Q2R Units.SECONDS_PER_DAY
  /\ u_CUBIC_METRES_TO_LITRES (A := RArith) = Q2R Units.CUBIC_METRES_TO_LITRES
  /\ u_MEGA_LITRES_TO_LITRES (A := RArith) = Q2R Units.MEGA_LITRES_TO_LITRES
  /\ u_SQUARE_METRES_TO_HECTARES (A := RArith) = Q2R Units.SQUARE_METRES_TO_HECTARES
  /\ u_CUMECS_TO_ML_PER_DAY (A := RArith) = Q2R Units.CUBIC_METRES_PER_SECOND_TO_MEGA_LITRES_PER_DAY
  /\ u_DAYS_PER_YEAR (A := RArith) = Q2R Units.DAYS_PER_YEAR
  /\ u_EFFECTIVELY_ZERO (A := RArith) = Q2R Units.pass_load_if_flow__EFFECTIVELY_ZERO
  /\ u_CUMECS_TO_LITRES_PER_DAY (A := RArith) = Q2R Units.SECONDS_PER_DAY * Q2R Units.CUBIC_METRES_TO_LITRES.
Proof.
  pose proof unit_constants_match_source as
    (H1 & H2 & H3 & H4 & H5 & H6 & H7 & H8 & H9 & H10 & H11 & H12 & H13 & H14 & H15 & _).
  unfold u_MG_PER_LITRE_TO_KG_PER_M3, u_MILLIGRAM_TO_KG, u_KG_TO_MILLIGRAM, u_TONNES_TO_KG,
    u_MILLIMETRES_TO_METRES, u_METRES_TO_MILLIMETRES, u_PERCENT_TO_PROPORTION, u_SECONDS_PER_DAY,
    u_CUBIC_METRES_TO_LITRES, u_MEGA_LITRES_TO_LITRES, u_SQUARE_METRES_TO_HECTARES, u_CUMECS_TO_ML_PER_DAY,
    u_DAYS_PER_YEAR, u_EFFECTIVELY_ZERO, u_CUMECS_TO_LITRES_PER_DAY.
  repeat split; try (rewrite of_qp_Q2R; apply Qeq_eqR; assumption).
  rewrite of_qp_Q2R, <- Q2R_mult. apply Qeq_eqR. exact H15.
Qed.

(** the documented values: mg/L -> kg/m3 = 1/1000, m3/s -> ML/day = 86.4, mm -> m = 1/1000, ... *)
Theorem unit_factors_documented :
  Q2R Units.MG_PER_LITRE_TO_KG_PER_M3 = 1 / 1000
  /\ Q2R Units.CUBIC_METRES_PER_SECOND_TO_MEGA_LITRES_PER_DAY = 864 / 10
  /\ Q2R Units.MILLIMETRES_TO_METRES = 1 / 1000
  /\ Q2R Units.PERCENT_TO_PROPORTION = 1 / 100
  /\ Q2R Units.SECONDS_PER_DAY = 86400
  /\ Q2R Units.TONNES_TO_KG = 1000
  /\ Q2R Units.DAYS_PER_YEAR = 36525 / 100
  /\ Q2R Units.KG_TO_TONNES = 1 / 1000
  /\ Q2R Units.KG_TO_MILLIGRAM = 1000000
  /\ Q2R Units.MILLIGRAM_TO_KG = 1 / 1000000
  /\ Q2R Units.LITRES_TO_CUBIC_METRES = 1 / 1000
  /\ Q2R Units.CUBIC_METRES_TO_LITRES = 1000
  /\ Q2R Units.MEGA_LITRES_TO_LITRES = 1000000
  /\ Q2R Units.METRES_TO_MILLIMETRES = 1000
  /\ Q2R Units.PROPORTION_TO_PERCENT = 100
  /\ Q2R Units.SQUARE_METRES_TO_HECTARES = 1 / 10000
  /\ Q2R Units.pass_load_if_flow__EFFECTIVELY_ZERO = 1 / 100000000.
Proof. unfold Q2R. cbn. repeat split; lra. Qed.
