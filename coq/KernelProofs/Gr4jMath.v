(** Real-analysis facts used by the GR4J proofs: tanh, and the fractional
    powers of the code ([Rpow] = math.Pow at the real instance) against the
    square-root forms of the published formulation. *)
From Coq Require Import Reals Lra Lia ZArith.
From OW Require Import Base.Arith Base.RInst Num.Gr4jSpec.
Local Open Scope R_scope.

(** ** tanh *)
Lemma cosh_pos x : 0 < cosh x.
Proof. unfold cosh. pose proof (exp_pos x). pose proof (exp_pos (- x)). lra. Qed.

Lemma sinh_nonneg x : 0 <= x -> 0 <= sinh x.
Proof.
  intros H. unfold sinh.
  assert (exp (- x) <= exp x).
  { destruct (Req_dec x 0) as [->|Hn]; [rewrite Ropp_0; lra|]. left. apply exp_increasing. lra. }
  lra.
Qed.

Lemma tanh_0 : tanh 0 = 0.
Proof. unfold tanh, sinh. rewrite Ropp_0. unfold Rdiv. rewrite Rminus_diag_eq by reflexivity. lra. Qed.

Lemma tanh_nonneg x : 0 <= x -> 0 <= tanh x.
Proof.
  intros H. unfold tanh. apply Rmult_le_pos; [apply sinh_nonneg; auto|].
  left. apply Rinv_0_lt_compat, cosh_pos.
Qed.

Lemma tanh_lt_1 x : tanh x < 1.
Proof.
  unfold tanh. apply Rmult_lt_reg_r with (cosh x); [apply cosh_pos|].
  unfold Rdiv. rewrite Rmult_assoc, Rinv_l by (pose proof (cosh_pos x); lra).
  unfold sinh, cosh. pose proof (exp_pos (- x)). lra.
Qed.

(** tanh x <= x for x >= 0: g(x) = x cosh x - sinh x has g(0) = 0, g' = x sinh x >= 0 *)
Lemma tanh_le_id x : 0 <= x -> tanh x <= x.
Proof.
  intros [Hx|<-]; [|rewrite tanh_0; lra].
  set (g := fun t => t * cosh t - sinh t).
  set (g' := fun t => (1 * cosh t + t * sinh t) - cosh t).
  destruct (MVT_cor2 g g' 0 x Hx) as [c [Hc [Hc1 Hc2]]].
  { intros t _. unfold g, g'. apply derivable_pt_lim_minus.
    - apply derivable_pt_lim_mult; [apply derivable_pt_lim_id | apply derivable_pt_lim_cosh].
    - apply derivable_pt_lim_sinh. }
  assert (Hg0 : g 0 = 0). { unfold g, sinh. rewrite Ropp_0. lra. }
  assert (Hg' : 0 <= g' c). { unfold g'. pose proof (sinh_nonneg c ltac:(lra)). nra. }
  assert (Hgx : 0 <= g x). { rewrite Hg0 in Hc. nra. }
  unfold g in Hgx. unfold tanh.
  pose proof (cosh_pos x) as Hcp.
  apply Rmult_le_reg_r with (cosh x); auto.
  unfold Rdiv. rewrite Rmult_assoc, Rinv_l by lra. lra.
Qed.

(** ** powers *)
Lemma Rpower_52 x : 0 < x -> Rpower x (5 / 2) = pow52 x.
Proof.
  intros H. unfold pow52.
  rewrite <- Rpower_sqrt by (apply pow_lt; auto).
  rewrite <- (Rpower_pow 5 x H). rewrite Rpower_mult. f_equal. simpl. lra.
Qed.

Lemma Rpower_72 x : 0 < x -> Rpower x (7 / 2) = pow72 x.
Proof.
  intros H. unfold pow72.
  rewrite <- Rpower_sqrt by (apply pow_lt; auto).
  rewrite <- (Rpower_pow 7 x H). rewrite Rpower_mult. f_equal. simpl. lra.
Qed.

Lemma pow52_0 : pow52 0 = 0.
Proof. unfold pow52. replace (0 ^ 5) with 0 by (simpl; lra). apply sqrt_0. Qed.
Lemma pow72_0 : pow72 0 = 0.
Proof. unfold pow72. replace (0 ^ 7) with 0 by (simpl; lra). apply sqrt_0. Qed.

(** the code's math.Pow(x, 5.0/2.0) for x >= 0 *)
Lemma Rpow_52 x : 0 <= x -> Rpow x (IZR 5 / IZR 2) = pow52 x.
Proof.
  intros [H|<-]; unfold Rpow.
  - destruct (Req_EM_T (5 / 2) 0); [lra|]. destruct (Req_EM_T x 0); [lra|]. apply Rpower_52; auto.
  - destruct (Req_EM_T (5 / 2) 0); [lra|]. destruct (Req_EM_T 0 0); [|lra]. symmetry; apply pow52_0.
Qed.
Lemma Rpow_72 x : 0 <= x -> Rpow x (IZR 7 / IZR 2) = pow72 x.
Proof.
  intros [H|<-]; unfold Rpow.
  - destruct (Req_EM_T (7 / 2) 0); [lra|]. destruct (Req_EM_T x 0); [lra|]. apply Rpower_72; auto.
  - destruct (Req_EM_T (7 / 2) 0); [lra|]. destruct (Req_EM_T 0 0); [|lra]. symmetry; apply pow72_0.
Qed.

Lemma Rpow_nat (n : nat) x : (0 < n)%nat -> 0 <= x -> Rpow x (INR n) = x ^ n.
Proof.
  intros Hn [H|<-]; unfold Rpow.
  - assert (INR n <> 0) by (apply not_0_INR; lia).
    destruct (Req_EM_T (INR n) 0); [lra|]. destruct (Req_EM_T x 0); [lra|]. apply Rpower_pow; auto.
  - assert (INR n <> 0) by (apply not_0_INR; lia).
    destruct (Req_EM_T (INR n) 0); [lra|]. destruct (Req_EM_T 0 0); [|lra].
    symmetry. apply pow_i. lia.
Qed.
Lemma Rpow_2 x : 0 <= x -> Rpow x (IZR 2) = x ^ 2.
Proof. intros. change (IZR 2) with (INR 2). apply Rpow_nat; auto. Qed.
Lemma Rpow_4 x : 0 <= x -> Rpow x (IZR 4) = x ^ 4.
Proof.
  intros. replace (IZR 4) with (INR 4) by (simpl; lra). apply Rpow_nat; auto.
Qed.

Lemma Rpower_quarter b : 0 < b -> Rpower b (1 / 4) = sqrt (sqrt b).
Proof.
  intros H. rewrite <- (Rpower_sqrt (sqrt b)) by (apply sqrt_lt_R0; auto).
  rewrite <- (Rpower_sqrt b H). rewrite Rpower_mult. f_equal. lra.
Qed.

Lemma Rpow_quarter b : 0 < b -> Rpow b (IZR 1 / IZR 4) = sqrt (sqrt b).
Proof.
  intros H. unfold Rpow. destruct (Req_EM_T (1 / 4) 0); [lra|]. destruct (Req_EM_T b 0); [lra|].
  apply Rpower_quarter; auto.
Qed.
Lemma Rpow_neg_quarter b : 0 < b -> Rpow b (IZR (-1) / IZR 4) = inv_root4 b.
Proof.
  intros H. unfold Rpow, inv_root4. destruct (Req_EM_T (-1 / 4) 0); [lra|]. destruct (Req_EM_T b 0); [lra|].
  replace (-1 / 4) with (- (1 / 4)) by lra. rewrite Rpower_Ropp, Rpower_quarter; auto.
Qed.

(** d = (1 + z^4)^(1/4): d >= 1, d^4 = 1 + z^4, and z < d for z >= 0 *)
Lemma root4_facts z : 0 <= z ->
  let d := sqrt (sqrt (1 + z ^ 4)) in 1 <= d /\ d ^ 4 = 1 + z ^ 4 /\ z < d.
Proof.
  intros Hz d.
  assert (Hb : 1 <= 1 + z ^ 4) by (pose proof (pow_le z 4 Hz); lra).
  assert (Hs : 1 <= sqrt (1 + z ^ 4)).
  { apply Rle_trans with (sqrt 1); [rewrite sqrt_1; lra | apply sqrt_le_1; lra]. }
  assert (Hd : 1 <= d).
  { unfold d. apply Rle_trans with (sqrt 1); [rewrite sqrt_1; lra | apply sqrt_le_1; lra]. }
  assert (Hd4 : d ^ 4 = 1 + z ^ 4).
  { unfold d. replace (sqrt (sqrt (1 + z ^ 4)) ^ 4) with ((sqrt (sqrt (1 + z ^ 4)) ^ 2) ^ 2) by ring.
    rewrite pow2_sqrt by lra. rewrite pow2_sqrt by lra. reflexivity. }
  repeat split; auto.
  destruct (Rlt_dec z d) as [|Hn]; auto. exfalso.
  assert (d <= z) by lra.
  assert (d ^ 4 <= z ^ 4) by (apply pow_incr; lra). lra.
Qed.

Lemma inv_root4_bounds z : 0 <= z -> 0 < inv_root4 (1 + z ^ 4) <= 1.
Proof.
  intros Hz. destruct (root4_facts z Hz) as [Hd _]. unfold inv_root4.
  set (d := sqrt (sqrt (1 + z ^ 4))) in *. split.
  - apply Rinv_0_lt_compat; lra.
  - rewrite <- Rinv_1. apply Rinv_le_contravar; lra.
Qed.

(** pow52 is non-negative and monotone on x >= 0, and pow52 x <= 1 for x <= 1 *)
Lemma pow52_nonneg x : 0 <= pow52 x.
Proof. apply sqrt_pos. Qed.
Lemma pow52_mono x y : 0 <= x <= y -> pow52 x <= pow52 y.
Proof. intros H. unfold pow52. apply sqrt_le_1_alt. apply pow_incr; auto. Qed.
Lemma pow52_1 : pow52 1 = 1.
Proof. unfold pow52. rewrite pow1. apply sqrt_1. Qed.
Lemma pow52_le_1 x : 0 <= x <= 1 -> pow52 x <= 1.
Proof. intros H. rewrite <- pow52_1. apply pow52_mono; lra. Qed.
Lemma pow72_nonneg x : 0 <= pow72 x.
Proof. apply sqrt_pos. Qed.
