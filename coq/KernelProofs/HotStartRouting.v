(** C06 / C14 for Lag and StorageRouting (models/routing), for ANY [Arith]
    instance.

    Lag: full theorems.  The kernel is not a [run step] (index loops over the
      whole series); the proofs go through the closed form of
      KernelProofs/Lag.v (outflow = first T entries of buffer ++ inflow, new
      buffer = its last L entries) plus [lag_body_short]: a state vector shorter
      than the lag panics whatever the series.

    StorageRouting: causal.  NOT exactly hot-startable: the index-flow guess
      [qi] carried from one time step to the next inside a run is not among the
      three states; a call starts again from qi = 0.  The guess only matters on
      the exit paths 5-7 of calcOutflow (it is the first trial point, accepted
      as it is when it balances within massBalanceLimit), so
        [storage_routing_kernel_split_partial]: the cut is exact whenever the
          first time step after the cut gives the same result from the carried
          qi and from qi = 0;
        [sr_calc_outflow_early_exit_indep] + [storage_routing_kernel_split_early_exit]:
          in particular whenever that step leaves calcOutflow through the exit
          paths 1-4 in the uninterrupted run;
      the refutation with a concrete run (both answers within the solver's
      tolerance of each other, but different) is in HotStartWitness.v.
      Missing for a full theorem: a fourth state slot for qi. *)
From Coq Require Import List Arith Lia Bool ZArith.
From OW Require Import Base.Arith Base.Mealy KernelProofs.HotStart.
From OW Require Import Kernels.Lag KernelProofs.Lag Kernels.StorageRoutingRoot Kernels.StorageRouting.
Import ListNotations.

(* ------------------------------------------------------------------ Lag *)
Section ForUp.
  Context {St : Type}.
  (** a loop whose body must fail at iteration [j] (on every state satisfying an
      invariant of the loop) fails *)
  Lemma for_up_fail_at (P : St -> Prop) (body : nat -> St -> option St) :
    (forall i s s', P s -> body i s = Some s' -> P s') ->
    forall j n i0 s, j < n -> P s -> (forall s', P s' -> body (i0 + j) s' = None) ->
    for_up n i0 body s = None.
  Proof.
    intros Hpres. induction j as [|j IH]; intros n i0 s Hj Hp Hfail.
    - destruct n as [|n]; [lia|]. cbn. rewrite Nat.add_0_r in Hfail. now rewrite (Hfail s Hp).
    - destruct n as [|n]; [lia|]. cbn. destruct (body i0 s) as [s'|] eqn:E; [|reflexivity].
      apply IH; [lia|eapply Hpres; eassumption|].
      intros s'' Hp''. replace (S i0 + j) with (i0 + S j) by lia. now apply Hfail.
  Qed.
End ForUp.

Lemma set_nth_length {X : Type} : forall (l : list X) i v l', set_nth l i v = Some l' -> length l' = length l.
Proof.
  induction l as [|a r IH]; intros i v l' H; cbn in H; [discriminate|].
  destruct i as [|i]; [injection H as <-; reflexivity|].
  destruct (set_nth r i v) as [r'|] eqn:E; [|discriminate]. injection H as <-. cbn. f_equal. eapply IH, E.
Qed.

Section LagHS.
  Context {T : Type} {A : Arith T}.

  Lemma copy_elem_length (src dst dst' : list T) si di :
    copy_elem src si dst di = Some dst' -> length dst' = length dst.
  Proof.
    unfold copy_elem. destruct (nth_error src si); [|discriminate]. apply set_nth_length.
  Qed.

  Lemma copy_self_length m Tn : forall i (s s' : list T),
    length s = m -> copy_elem s i s (i - Tn) = Some s' -> length s' = m.
  Proof. intros i s s' Hl Hc. rewrite (copy_elem_length _ _ _ _ _ Hc). exact Hl. Qed.

  (** a state vector shorter than the lag panics (index out of range) whatever the inflow *)
  Theorem lag_body_short (L : nat) (inflow lagged : list T) :
    length lagged < L -> lag_body L inflow lagged = None.
  Proof.
    intros Hs. unfold lag_body. set (Tn := length inflow). set (m := length lagged) in *.
    destruct (Nat.le_gt_cases (Nat.min L Tn) m) as [Hmin|Hmin].
    2:{ (* L1 reads lagged[m] *)
        rewrite (for_up_fail_at (fun _ => True) _ ltac:(intros; exact I) m); [reflexivity|lia|exact I|].
        intros s' _. unfold copy_elem. cbn [Nat.add].
        replace (nth_error lagged m) with (@None T) by (symmetry; apply nth_error_None; unfold m; lia).
        reflexivity. }
    assert (HT : Tn <= m) by lia.
    destruct (for_up (Nat.min L Tn) 0 _ _) as [out1|]; [|reflexivity].
    destruct (for_up (Tn - L) L _ out1) as [out2|]; [|reflexivity].
    replace (Nat.ltb Tn L) with true by (symmetry; apply Nat.ltb_lt; lia).
    (* L3 reads lg[m] *)
    rewrite (for_up_fail_at (fun lg : list T => length lg = m)
               (fun i lg => copy_elem lg i lg (i - Tn))
               (copy_self_length m Tn) (m - Tn));
      [reflexivity|lia|reflexivity|].
    intros s' Hl. unfold copy_elem.
    replace (nth_error s' (Tn + (m - Tn))) with (@None T) by (symmetry; apply nth_error_None; lia).
    reflexivity.
  Qed.

  (** [lag_body] on a long enough state vector, through the buffer part only *)
  Lemma lag_body_via_buffer (L : nat) (inflow lagged : list T) : L <= length lagged ->
    lag_body L inflow lagged =
    Some (firstn (length inflow) (firstn L lagged ++ inflow),
          lastn L (firstn L lagged ++ inflow) ++ skipn L lagged).
  Proof. intros H. apply lag_body_spec, H. Qed.

  Lemma lastn_length {X} (L : nat) (l : list X) : L <= length l -> length (lastn L l) = L.
  Proof. intros H. unfold lastn. rewrite skipn_length. lia. Qed.

  Lemma firstn_app_exact' {X} k (a b : list X) : length a = k -> firstn k (a ++ b) = a.
  Proof. intros <-. now rewrite firstn_app, Nat.sub_diag, firstn_all, firstn_O, app_nil_r. Qed.
  Lemma skipn_app_exact' {X} k (a b : list X) : length a = k -> skipn k (a ++ b) = b.
  Proof. intros <-. now rewrite skipn_app, Nat.sub_diag, skipn_all. Qed.

  (** hot start on the index loops, for any state vector *)
  Lemma lag_body_split (L : nat) (x1 x2 lagged : list T) :
    lag_body L (x1 ++ x2) lagged =
    match lag_body L x1 lagged with
    | Some (o1, l1) => match lag_body L x2 l1 with
                       | Some (o2, l2) => Some (o1 ++ o2, l2)
                       | None => None
                       end
    | None => None
    end.
  Proof.
    destruct (Nat.le_gt_cases L (length lagged)) as [H|H].
    2:{ now rewrite !lag_body_short by exact H. }
    set (B := firstn L lagged). set (R := skipn L lagged).
    assert (LB : length B = L) by (unfold B; rewrite firstn_length; lia).
    rewrite (lag_body_via_buffer L (x1 ++ x2) lagged H), (lag_body_via_buffer L x1 lagged H).
    fold B R. set (B1 := lastn L (B ++ x1)).
    assert (LB1 : length B1 = L) by (unfold B1; apply lastn_length; rewrite app_length; lia).
    rewrite (lag_body_via_buffer L x2 (B1 ++ R)) by (rewrite app_length; lia).
    rewrite (firstn_app_exact' L B1 R LB1), (skipn_app_exact' L B1 R LB1).
    destruct (lag_compose L x1 x2 B LB) as (o1 & b1 & o2 & b2 & E1 & E2 & E3).
    rewrite (lag_spec L x1 B LB) in E1. injection E1 as <- <-.
    fold B1 in E2. rewrite (lag_spec L x2 B1 LB1) in E2. injection E2 as <- <-.
    rewrite (lag_spec L (x1 ++ x2) B LB) in E3. injection E3 as E3a E3b.
    now rewrite E3a, E3b.
  Qed.

  Theorem lag_kernel_split (p : list T) : split_spec (lag_kernel p).
  Proof.
    destruct p as [|timeLag ?]; [exact split_spec_none|].
    intros s0 ins n. unfold split_at, split_then, lag_kernel.
    destruct ins as [|inflow rest]; [reflexivity|]. cbn [firsts lasts map].
    unfold lag_fn.
    destruct (Z.eqb (truncZ timeLag) 0).
    { cbn. now rewrite firstn_skipn. }
    destruct (Z.ltb (truncZ timeLag) 0); [reflexivity|].
    rewrite <- (firstn_skipn n inflow) at 1. rewrite lag_body_split.
    destruct (lag_body _ (firstn n inflow) s0) as [[o1 l1]|]; [|reflexivity].
    destruct (lag_body _ (skipn n inflow) l1) as [[o2 l2]|]; reflexivity.
  Qed.

  Lemma firstn_prefix_app {X} t (l a b : list X) :
    firstn t a = firstn t b -> firstn t (l ++ a) = firstn t (l ++ b).
  Proof.
    intros H. rewrite !firstn_app. f_equal.
    assert (E : forall c : list X, firstn (t - length l) c = firstn (t - length l) (firstn t c))
      by (intros c; rewrite firstn_firstn; f_equal; lia).
    rewrite (E a), (E b), H. reflexivity.
  Qed.

  Theorem lag_kernel_causal (p : list T) : causal_spec (lag_kernel p).
  Proof.
    destruct p as [|timeLag ?]; [exact causal_spec_none|].
    intros s0 ins ins' t o sT o' sT' Hf E1 E2. unfold lag_kernel in E1, E2.
    destruct ins as [|x rest]; [discriminate|]. destruct ins' as [|x' rest']; [discriminate|].
    cbn [firsts map] in Hf. injection Hf as Hx _.
    unfold lag_fn in E1, E2.
    destruct (Z.eqb (truncZ timeLag) 0).
    { injection E1 as <- _. injection E2 as <- _. cbn. now rewrite Hx. }
    destruct (Z.ltb (truncZ timeLag) 0); [discriminate|].
    set (L := Z.to_nat (truncZ timeLag)) in *.
    destruct (Nat.le_gt_cases L (length s0)) as [H|H].
    2:{ rewrite lag_body_short in E1 by exact H. discriminate. }
    rewrite (lag_body_via_buffer L x s0 H) in E1. rewrite (lag_body_via_buffer L x' s0 H) in E2.
    injection E1 as <- _. injection E2 as <- _. cbn [firsts map]. f_equal.
    rewrite !firstn_firstn. rewrite (firstn_eq_length t x x' Hx).
    set (k := Nat.min t (length x')).
    apply firstn_prefix_app.
    replace (firstn k x) with (firstn k (firstn t x)) by (rewrite firstn_firstn; f_equal; unfold k; lia).
    replace (firstn k x') with (firstn k (firstn t x')) by (rewrite firstn_firstn; f_equal; unfold k; lia).
    now rewrite Hx.
  Qed.
End LagHS.

(* ------------------------------------------------------------------ StorageRouting *)
Section AllSome.
  Context {T X : Type}.
  Variable F : list X -> list (list T).
  Hypothesis HF : rows_laws F.

  Lemma all_some_app : forall (a b : list (option X)),
    all_some (a ++ b) = match all_some a, all_some b with Some x, Some y => Some (x ++ y) | _, _ => None end.
  Proof.
    induction a as [|[x|] a IH]; intros b; cbn.
    - destruct (all_some b); reflexivity.
    - rewrite IH. destruct (all_some a), (all_some b); reflexivity.
    - reflexivity.
  Qed.
  Lemma all_some_firstn t : forall (os : list (option X)) l,
    all_some os = Some l -> all_some (firstn t os) = Some (firstn t l).
  Proof.
    induction t as [|t IH]; intros os l H; [reflexivity|].
    destruct os as [|[x|] os]; cbn in H |- *.
    - injection H as <-. reflexivity.
    - destruct (all_some os) as [l'|] eqn:E; [|discriminate]. injection H as <-.
      now rewrite (IH os l' E).
    - discriminate.
  Qed.

  Lemma all_some_outs_laws : outs_laws (fun os => option_map F (all_some os)).
  Proof.
    constructor.
    - intros a b. rewrite all_some_app. destruct (all_some a), (all_some b); cbn; try reflexivity.
      now rewrite (rl_app F HF).
    - intros t os o H. destruct (all_some os) as [l|] eqn:E; [|discriminate]. injection H as <-.
      rewrite (all_some_firstn t os l E). cbn. now rewrite (rl_firstn F HF).
  Qed.
End AllSome.

Section SRHS.
  Context {T : Type} {A : Arith T}.
  Local Open Scope ar_scope.

  Definition sr_zip (ins : list (list T)) : option (list (sr_input (T := T))) :=
    match ins with a :: b :: c :: d :: _ => Some (zip4 a b c d) | _ => None end.

  Lemma firstn_zip4 n : forall (a b c d : list T),
    firstn n (zip4 a b c d) = zip4 (firstn n a) (firstn n b) (firstn n c) (firstn n d).
  Proof.
    induction n as [|n IH]; intros a b c d; [reflexivity|].
    destruct a as [|x a]; [reflexivity|]. destruct b as [|y b]; [reflexivity|].
    destruct c as [|z c]; [reflexivity|]. destruct d as [|w d]; [reflexivity|].
    cbn. now rewrite IH.
  Qed.
  Lemma skipn_zip4 n : forall (a b c d : list T),
    skipn n (zip4 a b c d) = zip4 (skipn n a) (skipn n b) (skipn n c) (skipn n d).
  Proof.
    induction n as [|n IH]; intros a b c d; [reflexivity|].
    destruct a as [|x a]; [reflexivity|].
    destruct b as [|y b]; [cbn; destruct (skipn n a); reflexivity|].
    destruct c as [|z c]; [cbn; destruct (skipn n a); [|destruct (skipn n b)]; reflexivity|].
    destruct d as [|w d]; [cbn; destruct (skipn n a); [|destruct (skipn n b); [|destruct (skipn n c)]]; reflexivity|].
    cbn. apply IH.
  Qed.
  Lemma sr_zip_laws : zip_laws sr_zip.
  Proof.
    constructor; intros ins n; [intros xs H|intros xs H|intros H];
      destruct ins as [|a [|b [|c [|d r]]]]; cbn in *; try discriminate; try (left; reflexivity);
      injection H as <-; rewrite ?firstn_zip4, ?skipn_zip4; reflexivity.
  Qed.

  Definition sr_unpack (st : list T) : option (list T * option (sr_state (T := T))) :=
    match st with
    | s :: pin :: pout :: rest => Some (rest, Some (sr_init s pin pout))
    | _ => None
    end.
  Definition sr_good (s : option (sr_state (T := T))) : bool := match s with Some _ => true | None => false end.
  Definition sr_pack (rest : list T) (s : option (sr_state (T := T))) : list T :=
    match s with
    | Some sT => st_storage sT :: st_inflow sT :: st_outflow sT :: rest
    | None => rest
    end.
  Definition sr_series (os : list (sr_output (T := T))) : list (list T) :=
    [map (fun o => let '(q, _, _) := o in q) os; map (fun o => let '(_, s, _) := o in s) os].
  Definition sr_series_paths (os : list (sr_output (T := T))) : list (list T) :=
    [map (fun o => let '(q, _, _) := o in q) os; map (fun o => let '(_, s, _) := o in s) os;
     map (fun o => let '(_, _, n) := o in of_Z (Z.of_nat n)) os].
  Lemma sr_series_laws : rows_laws sr_series.
  Proof.
    unfold sr_series. constructor; intros; cbn [app_series firsts map];
      rewrite ?map_app, ?firstn_map_comm; reflexivity.
  Qed.
  Lemma sr_series_paths_laws : rows_laws sr_series_paths.
  Proof.
    unfold sr_series_paths. constructor; intros; cbn [app_series firsts map];
      rewrite ?map_app, ?firstn_map_comm; reflexivity.
  Qed.

  Definition sr_params_of (p : list T) : option (sr_params (T := T)) :=
    match p with
    | bias :: k :: x :: area :: dead :: dt :: _ => Some (sr_setup bias k x area dead dt)
    | _ => None
    end.

  Definition sr_machine (F : list (sr_output (T := T)) -> list (list T)) (pr : sr_params) : kern T :=
    kernel_of_machine sr_unpack sr_zip (fun _ => sr_mstep pr) sr_good sr_pack
      (fun os => option_map F (all_some os)).

  Lemma storage_routing_run_eq (p : list T) F : forall s ins,
    match storage_routing_run p s ins with Some (os, sts) => Some (F os, sts) | None => None end =
    match sr_params_of p with Some pr => sr_machine F pr s ins | None => None end.
  Proof.
    intros s ins. unfold storage_routing_run, sr_params_of.
    destruct p as [|bias [|k [|x [|area [|dead [|dt ?]]]]]]; try reflexivity.
    unfold sr_machine, kernel_of_machine, sr_unpack, sr_zip, sr_run.
    destruct s as [|s [|pin [|pout rest]]]; try reflexivity;
    destruct ins as [|a [|b [|c [|d ?]]]]; try reflexivity.
    destruct (run _ _ _) as [[sT|] os]; cbn [sr_good]; [|reflexivity].
    destruct (all_some os); reflexivity.
  Qed.

  Lemma storage_routing_kernel_eq (p : list T) : forall s ins,
    storage_routing_kernel p s ins =
    match sr_params_of p with Some pr => sr_machine sr_series pr s ins | None => None end.
  Proof. intros s ins. rewrite <- storage_routing_run_eq. reflexivity. Qed.
  Lemma storage_routing_paths_kernel_eq (p : list T) : forall s ins,
    storage_routing_paths_kernel p s ins =
    match sr_params_of p with Some pr => sr_machine sr_series_paths pr s ins | None => None end.
  Proof. intros s ins. rewrite <- storage_routing_run_eq. reflexivity. Qed.

  Theorem storage_routing_kernel_causal (p : list T) : causal_spec (storage_routing_kernel p).
  Proof.
    eapply causal_spec_ext; [apply storage_routing_kernel_eq|].
    destruct (sr_params_of p); [|apply causal_spec_none].
    apply kernel_of_machine_causal; [apply sr_zip_laws|apply all_some_outs_laws, sr_series_laws].
  Qed.
  Theorem storage_routing_paths_kernel_causal (p : list T) : causal_spec (storage_routing_paths_kernel p).
  Proof.
    eapply causal_spec_ext; [apply storage_routing_paths_kernel_eq|].
    destruct (sr_params_of p); [|apply causal_spec_none].
    apply kernel_of_machine_causal; [apply sr_zip_laws|apply all_some_outs_laws, sr_series_paths_laws].
  Qed.

  (** the loop state a new call reconstructs from the three packed states: the
      index-flow guess restarts at zero *)
  Definition sr_forget_qi (s : sr_state (T := T)) : sr_state :=
    mkS zero (st_outflow s) (st_storage s) (st_inflow s).

  (** the first step after the cut cannot tell the carried guess from zero *)
  Definition sr_cut_insensitive (pr : sr_params) (s1 : sr_state) (rest : list (sr_input (T := T))) : Prop :=
    match rest with
    | [] => True
    | x :: _ => sr_step pr s1 x = sr_step pr (sr_forget_qi s1) x
    end.

  Lemma sr_machine_split_at F (HF : rows_laws F) pr s0 ins n :
    (forall aux st xs s1, sr_unpack s0 = Some (aux, st) -> sr_zip ins = Some xs ->
       fst (run (sr_mstep pr) st (firstn n xs)) = Some s1 ->
       sr_cut_insensitive pr s1 (skipn n xs)) ->
    split_at (sr_machine F pr) s0 ins n.
  Proof.
    intros Hc.
    apply (kernel_of_machine_split_at_run sr_unpack sr_zip (fun _ => sr_mstep pr) sr_good sr_pack _
             sr_zip_laws (all_some_outs_laws F HF)).
    - intros aux [s|] x H; [discriminate|reflexivity].
    - intros aux st xs Eu Ez. cbv zeta. intros G.
      destruct (fst (run (sr_mstep pr) st (firstn n xs))) as [s1|] eqn:Es1; [|discriminate].
      specialize (Hc aux st xs s1 Eu Ez Es1).
      exists (Some (sr_forget_qi s1)). split; [reflexivity|].
      destruct (skipn n xs) as [|x r]; [cbn; repeat split; reflexivity|].
      cbn [sr_cut_insensitive] in Hc. cbn [run sr_mstep]. rewrite Hc.
      destruct (sr_step pr (sr_forget_qi s1) x) as [[s2 o]|]; repeat split; reflexivity.
  Qed.

  Theorem storage_routing_kernel_split_partial (p s0 : list T) ins n :
    (forall pr s pin pout rest a b c d tl s1,
       sr_params_of p = Some pr -> s0 = s :: pin :: pout :: rest -> ins = a :: b :: c :: d :: tl ->
       fst (sr_run pr (sr_init s pin pout) (firstn n (zip4 a b c d))) = Some s1 ->
       sr_cut_insensitive pr s1 (skipn n (zip4 a b c d))) ->
    split_at (storage_routing_kernel p) s0 ins n.
  Proof.
    intros Hc. apply (split_at_ext _ _ s0 ins n (storage_routing_kernel_eq p)).
    destruct (sr_params_of p) as [pr|] eqn:Ep; [|reflexivity].
    apply (sr_machine_split_at sr_series sr_series_laws).
    intros aux st xs s1 Eu Ez E1. unfold sr_unpack in Eu. unfold sr_zip in Ez.
    destruct s0 as [|s [|pin [|pout rest]]]; try discriminate. injection Eu as <- <-.
    destruct ins as [|a [|b [|c [|d tl]]]]; try discriminate. injection Ez as <-.
    eapply Hc; try reflexivity. exact E1.
  Qed.

  (** calcOutflow reads the carried guess only after the four early exits *)
  Lemma sr_calc_outflow_early_exit_indep pr inflow lateral q S rate qi out sto path :
    calc_outflow pr inflow lateral q S rate = Some (qi, out, sto, path) -> path <= 4 ->
    forall q', calc_outflow pr inflow lateral q' S rate = Some (qi, out, sto, path).
  Proof.
    intros H Hp q'. revert H. unfold calc_outflow. cbv zeta.
    destruct (is_nan (p_bias pr) || is_nan inflow || is_nan lateral); [discriminate|].
    destruct (run_routing _ _ _ _ _ _ (p_bias pr * (inflow + lateral))) as [[[d0 o0] s0']|]; [|discriminate].
    destruct (d0 >=? massBalanceLimit); [trivial|].
    destruct (d0 >=? negMassBalanceLimit); [trivial|].
    destruct (_ <=? _); [trivial|].
    destruct (run_routing _ _ _ _ _ _ (p_bias pr * (inflow + lateral) + _)) as [[[d1 o1] s1']|]; [|discriminate].
    destruct (d1 <? massBalanceLimit); [trivial|].
    intros H. exfalso.
    destruct (run_routing _ _ _ _ _ _ _) as [[[d2 o2] s2']|] in H; [|discriminate].
    destruct (aabs d2 <? massBalanceLimit) in H; [injection H as _ _ _ <-; lia|].
    destruct (sr_find_root _ _ _ _ _ _ _ _) as [[q3 d3]|] in H; [|discriminate].
    destruct (is_nan d3) in H; [discriminate|].
    destruct (run_routing _ _ _ _ _ _ q3) as [[[d4 o4] s4']|] in H; [|discriminate].
    injection H as _ _ _ <-. destruct (aabs d4 <? massBalanceLimit); lia.
  Qed.

  Theorem storage_routing_kernel_split_early_exit (p s0 : list T) ins n :
    (forall pr s pin pout rest a b c d tl s1 x r,
       sr_params_of p = Some pr -> s0 = s :: pin :: pout :: rest -> ins = a :: b :: c :: d :: tl ->
       fst (sr_run pr (sr_init s pin pout) (firstn n (zip4 a b c d))) = Some s1 ->
       skipn n (zip4 a b c d) = x :: r ->
       match sr_step pr s1 x with Some (_, (_, _, path)) => path <= 4 | None => False end) ->
    split_at (storage_routing_kernel p) s0 ins n.
  Proof.
    intros Hc. apply storage_routing_kernel_split_partial.
    intros pr s pin pout rest a b c d tl s1 Ep Es Ei E1.
    unfold sr_cut_insensitive. destruct (skipn n (zip4 a b c d)) as [|x r] eqn:Er; [exact I|].
    specialize (Hc pr s pin pout rest a b c d tl s1 x r Ep Es Ei E1 Er).
    unfold sr_step in *. destruct x as [[[i l] rn] ev]. cbn [sr_forget_qi st_qi st_storage].
    destruct (calc_outflow pr i l (st_qi s1) (st_storage s1) (evap_rate pr rn ev)) as [[[[qi o] st] path]|] eqn:E;
      [|contradiction].
    now rewrite (sr_calc_outflow_early_exit_indep _ _ _ _ _ _ _ _ _ _ E Hc zero).
  Qed.
End SRHS.
