(** C06 / C14: uniform names.  For every kernel proved as [hc_spec] (= split_spec /\ causal_spec) in
    HotStartStateless / HotStartConstituent / HotStartRR, the two halves under the names
    [<kernel>_split] and [<kernel>_causal].  The other kernels already have theorems of these names
    (or [..._split_partial] / [..._split_gen] / [..._split_refuted], see the headers of the HotStart*.v files):
      lag_kernel_split/_causal, storage_routing_kernel_causal (+ _split_partial, _split_early_exit, _split_refuted),
      storage_kernel_causal (+ _split_partial), gr4j_kernel_causal (+ _split_gen, _split_R),
      sacramento_kernel_causal (+ _split_partial, _split_refuted), instream_fine_sediment_kernel_causal
      (+ _split_partial, _split_R, lowbank_split), storage_trap_all_kernel_causal (+ _split_partial, _split_R,
      _split_float_refuted), instream_dissolved_nutrient_decay_kernel_causal (+ nodecay_split_partial,
      _split_refuted, _split_refuted_R), date_generator_kernel_causal (+ _split_refuted: no state). *)
From Coq Require Import List.
From OW Require Import Base.Arith KernelProofs.HotStart KernelProofs.HotStartStateless KernelProofs.HotStartConstituent
  KernelProofs.HotStartRR.
From OW Require Import Kernels.Muskingum Kernels.LumpedConstituent Kernels.Decay Kernels.InstreamCoarseSediment
  Kernels.InstreamParticulateNutrient Kernels.SedimentTrapping Kernels.DissolvedDecay Kernels.Simhyd Kernels.Surm
  Kernels.Coeff Kernels.Scale Kernels.DeliveryRatio Kernels.DepthToRate Kernels.FixedPartition Kernels.VarPartition
  Kernels.RatingPartition Kernels.Baseflow Kernels.ComputeProportion Kernels.Gate Kernels.Input
  Kernels.PartitionDemand Kernels.Sum Kernels.EmcDwc Kernels.FixedConcentration Kernels.PassLoadIfFlow
  Kernels.DissolvedNutrients Kernels.ParticulateNutrients Kernels.BankErosion Kernels.UsleFine
  Kernels.SednetGully Kernels.SednetGullyAlt Num.Climate.

Section S.
  Context {T : Type} {A : Arith T}.
  Theorem muskingum_kernel_split (p : list T) : split_spec (muskingum_kernel p).
  Proof. exact (proj1 (muskingum_kernel_hc p)). Qed.
  Theorem muskingum_kernel_causal (p : list T) : causal_spec (muskingum_kernel p).
  Proof. exact (proj2 (muskingum_kernel_hc p)). Qed.
  Theorem lumped_constituent_routing_kernel_split (p : list T) : split_spec (lumped_constituent_routing_kernel p).
  Proof. exact (proj1 (lumped_constituent_routing_kernel_hc p)). Qed.
  Theorem lumped_constituent_routing_kernel_causal (p : list T) : causal_spec (lumped_constituent_routing_kernel p).
  Proof. exact (proj2 (lumped_constituent_routing_kernel_hc p)). Qed.
  Theorem constituent_decay_kernel_split (p : list T) : split_spec (constituent_decay_kernel p).
  Proof. exact (proj1 (constituent_decay_kernel_hc p)). Qed.
  Theorem constituent_decay_kernel_causal (p : list T) : causal_spec (constituent_decay_kernel p).
  Proof. exact (proj2 (constituent_decay_kernel_hc p)). Qed.
  Theorem instream_coarse_sediment_kernel_split (p : list T) : split_spec (instream_coarse_sediment_kernel p).
  Proof. exact (proj1 (instream_coarse_sediment_kernel_hc p)). Qed.
  Theorem instream_coarse_sediment_kernel_causal (p : list T) : causal_spec (instream_coarse_sediment_kernel p).
  Proof. exact (proj2 (instream_coarse_sediment_kernel_hc p)). Qed.
  Theorem instream_particulate_nutrient_kernel_split (p : list T) : split_spec (instream_particulate_nutrient_kernel p).
  Proof. exact (proj1 (instream_particulate_nutrient_kernel_hc p)). Qed.
  Theorem instream_particulate_nutrient_kernel_causal (p : list T) : causal_spec (instream_particulate_nutrient_kernel p).
  Proof. exact (proj2 (instream_particulate_nutrient_kernel_hc p)). Qed.
  Theorem storage_particulate_trapping_kernel_split (p : list T) : split_spec (storage_particulate_trapping_kernel p).
  Proof. exact (proj1 (storage_particulate_trapping_kernel_hc p)). Qed.
  Theorem storage_particulate_trapping_kernel_causal (p : list T) : causal_spec (storage_particulate_trapping_kernel p).
  Proof. exact (proj2 (storage_particulate_trapping_kernel_hc p)). Qed.
  Theorem storage_dissolved_decay_kernel_split (p : list T) : split_spec (storage_dissolved_decay_kernel p).
  Proof. exact (proj1 (storage_dissolved_decay_kernel_hc p)). Qed.
  Theorem storage_dissolved_decay_kernel_causal (p : list T) : causal_spec (storage_dissolved_decay_kernel p).
  Proof. exact (proj2 (storage_dissolved_decay_kernel_hc p)). Qed.
  Theorem simhyd_kernel_split (p : list T) : split_spec (simhyd_kernel p).
  Proof. exact (proj1 (simhyd_kernel_hc p)). Qed.
  Theorem simhyd_kernel_causal (p : list T) : causal_spec (simhyd_kernel p).
  Proof. exact (proj2 (simhyd_kernel_hc p)). Qed.
  Theorem surm_kernel_split (p : list T) : split_spec (surm_kernel p).
  Proof. exact (proj1 (surm_kernel_hc p)). Qed.
  Theorem surm_kernel_causal (p : list T) : causal_spec (surm_kernel p).
  Proof. exact (proj2 (surm_kernel_hc p)). Qed.
  Theorem apply_scaling_factor_kernel_split (p : list T) : split_spec (apply_scaling_factor_kernel p).
  Proof. exact (proj1 (apply_scaling_factor_kernel_hc p)). Qed.
  Theorem apply_scaling_factor_kernel_causal (p : list T) : causal_spec (apply_scaling_factor_kernel p).
  Proof. exact (proj2 (apply_scaling_factor_kernel_hc p)). Qed.
  Theorem delivery_ratio_kernel_split (p : list T) : split_spec (delivery_ratio_kernel p).
  Proof. exact (proj1 (delivery_ratio_kernel_hc p)). Qed.
  Theorem delivery_ratio_kernel_causal (p : list T) : causal_spec (delivery_ratio_kernel p).
  Proof. exact (proj2 (delivery_ratio_kernel_hc p)). Qed.
  Theorem depth_to_rate_kernel_split (p : list T) : split_spec (depth_to_rate_kernel p).
  Proof. exact (proj1 (depth_to_rate_kernel_hc p)). Qed.
  Theorem depth_to_rate_kernel_causal (p : list T) : causal_spec (depth_to_rate_kernel p).
  Proof. exact (proj2 (depth_to_rate_kernel_hc p)). Qed.
  Theorem fixed_partition_kernel_split (p : list T) : split_spec (fixed_partition_kernel p).
  Proof. exact (proj1 (fixed_partition_kernel_hc p)). Qed.
  Theorem fixed_partition_kernel_causal (p : list T) : causal_spec (fixed_partition_kernel p).
  Proof. exact (proj2 (fixed_partition_kernel_hc p)). Qed.
  Theorem variable_partition_kernel_split (p : list T) : split_spec (variable_partition_kernel p).
  Proof. exact (proj1 (variable_partition_kernel_hc p)). Qed.
  Theorem variable_partition_kernel_causal (p : list T) : causal_spec (variable_partition_kernel p).
  Proof. exact (proj2 (variable_partition_kernel_hc p)). Qed.
  Theorem rating_curve_partition_kernel_split (p : list T) : split_spec (rating_curve_partition_kernel p).
  Proof. exact (proj1 (rating_curve_partition_kernel_hc p)). Qed.
  Theorem rating_curve_partition_kernel_causal (p : list T) : causal_spec (rating_curve_partition_kernel p).
  Proof. exact (proj2 (rating_curve_partition_kernel_hc p)). Qed.
  Theorem baseflow_filter_kernel_split (p : list T) : split_spec (baseflow_filter_kernel p).
  Proof. exact (proj1 (baseflow_filter_kernel_hc p)). Qed.
  Theorem baseflow_filter_kernel_causal (p : list T) : causal_spec (baseflow_filter_kernel p).
  Proof. exact (proj2 (baseflow_filter_kernel_hc p)). Qed.
  Theorem compute_proportion_kernel_split (p : list T) : split_spec (compute_proportion_kernel p).
  Proof. exact (proj1 (compute_proportion_kernel_hc p)). Qed.
  Theorem compute_proportion_kernel_causal (p : list T) : causal_spec (compute_proportion_kernel p).
  Proof. exact (proj2 (compute_proportion_kernel_hc p)). Qed.
  Theorem gate_kernel_split (p : list T) : split_spec (gate_kernel p).
  Proof. exact (proj1 (gate_kernel_hc p)). Qed.
  Theorem gate_kernel_causal (p : list T) : causal_spec (gate_kernel p).
  Proof. exact (proj2 (gate_kernel_hc p)). Qed.
  Theorem input_kernel_split (p : list T) : split_spec (input_kernel p).
  Proof. exact (proj1 (input_kernel_hc p)). Qed.
  Theorem input_kernel_causal (p : list T) : causal_spec (input_kernel p).
  Proof. exact (proj2 (input_kernel_hc p)). Qed.
  Theorem partition_demand_kernel_split (p : list T) : split_spec (partition_demand_kernel p).
  Proof. exact (proj1 (partition_demand_kernel_hc p)). Qed.
  Theorem partition_demand_kernel_causal (p : list T) : causal_spec (partition_demand_kernel p).
  Proof. exact (proj2 (partition_demand_kernel_hc p)). Qed.
  Theorem sum_kernel_split (p : list T) : split_spec (sum_kernel p).
  Proof. exact (proj1 (sum_kernel_hc p)). Qed.
  Theorem sum_kernel_causal (p : list T) : causal_spec (sum_kernel p).
  Proof. exact (proj2 (sum_kernel_hc p)). Qed.
  Theorem emc_dwc_kernel_split (p : list T) : split_spec (emc_dwc_kernel p).
  Proof. exact (proj1 (emc_dwc_kernel_hc p)). Qed.
  Theorem emc_dwc_kernel_causal (p : list T) : causal_spec (emc_dwc_kernel p).
  Proof. exact (proj2 (emc_dwc_kernel_hc p)). Qed.
  Theorem fixed_concentration_kernel_split (p : list T) : split_spec (fixed_concentration_kernel p).
  Proof. exact (proj1 (fixed_concentration_kernel_hc p)). Qed.
  Theorem fixed_concentration_kernel_causal (p : list T) : causal_spec (fixed_concentration_kernel p).
  Proof. exact (proj2 (fixed_concentration_kernel_hc p)). Qed.
  Theorem pass_load_if_flow_kernel_split (p : list T) : split_spec (pass_load_if_flow_kernel p).
  Proof. exact (proj1 (pass_load_if_flow_kernel_hc p)). Qed.
  Theorem pass_load_if_flow_kernel_causal (p : list T) : causal_spec (pass_load_if_flow_kernel p).
  Proof. exact (proj2 (pass_load_if_flow_kernel_hc p)). Qed.
  Theorem dissolved_nutrients_kernel_split (p : list T) : split_spec (dissolved_nutrients_kernel p).
  Proof. exact (proj1 (dissolved_nutrients_kernel_hc p)). Qed.
  Theorem dissolved_nutrients_kernel_causal (p : list T) : causal_spec (dissolved_nutrients_kernel p).
  Proof. exact (proj2 (dissolved_nutrients_kernel_hc p)). Qed.
  Theorem particulate_nutrients_kernel_split (p : list T) : split_spec (particulate_nutrients_kernel p).
  Proof. exact (proj1 (particulate_nutrients_kernel_hc p)). Qed.
  Theorem particulate_nutrients_kernel_causal (p : list T) : causal_spec (particulate_nutrients_kernel p).
  Proof. exact (proj2 (particulate_nutrients_kernel_hc p)). Qed.
  Theorem bank_erosion_kernel_split (p : list T) : split_spec (bank_erosion_kernel p).
  Proof. exact (proj1 (bank_erosion_kernel_hc p)). Qed.
  Theorem bank_erosion_kernel_causal (p : list T) : causal_spec (bank_erosion_kernel p).
  Proof. exact (proj2 (bank_erosion_kernel_hc p)). Qed.
  Theorem usle_fine_kernel_split (p : list T) : split_spec (usle_fine_kernel p).
  Proof. exact (proj1 (usle_fine_kernel_hc p)). Qed.
  Theorem usle_fine_kernel_causal (p : list T) : causal_spec (usle_fine_kernel p).
  Proof. exact (proj2 (usle_fine_kernel_hc p)). Qed.
  Theorem dynamic_sednet_gully_kernel_split (p : list T) : split_spec (dynamic_sednet_gully_kernel p).
  Proof. exact (proj1 (dynamic_sednet_gully_kernel_hc p)). Qed.
  Theorem dynamic_sednet_gully_kernel_causal (p : list T) : causal_spec (dynamic_sednet_gully_kernel p).
  Proof. exact (proj2 (dynamic_sednet_gully_kernel_hc p)). Qed.
  Theorem dynamic_sednet_gully_alt_kernel_split (p : list T) : split_spec (dynamic_sednet_gully_alt_kernel p).
  Proof. exact (proj1 (dynamic_sednet_gully_alt_kernel_hc p)). Qed.
  Theorem dynamic_sednet_gully_alt_kernel_causal (p : list T) : causal_spec (dynamic_sednet_gully_alt_kernel p).
  Proof. exact (proj2 (dynamic_sednet_gully_alt_kernel_hc p)). Qed.
  Theorem climate_variables_kernel_split (p : list T) : split_spec (climate_variables_kernel p).
  Proof. exact (proj1 (climate_variables_kernel_hc p)). Qed.
  Theorem climate_variables_kernel_causal (p : list T) : causal_spec (climate_variables_kernel p).
  Proof. exact (proj2 (climate_variables_kernel_hc p)). Qed.
  Theorem runoff_coefficient_kernel_split (p : list T) : split_spec (runoff_coefficient_kernel p).
  Proof. exact (proj1 (runoff_coefficient_kernel_hc p)). Qed.
  Theorem runoff_coefficient_kernel_causal (p : list T) : causal_spec (runoff_coefficient_kernel p).
  Proof. exact (proj2 (runoff_coefficient_kernel_hc p)). Qed.
End S.
