(** Proofs about Kernels/StorageRouting.v (C11) over the real-number instance.

    Contents
      calc_outflow_inv            what each of the seven exits returns and which tests led there
      sr_balance_per_path         the water-balance error of a step, written out exactly per exit
      sr_outflow_nonneg           outflow >= 0, any parameters and inputs
      sr_path3_unreachable        exit 3 cannot be taken (storage >= 0, lateral >= 0, S(q) >= 0)
      sr_step_closed              closed per-step statement (error 0 when outflow > 0; < massBalanceLimit
                                  unless the solver left on exit 7)
      sr_constitutive(_maxflow)   storage-discharge relation with zero bias on the converged exits
      sr_setup_sindex_nonneg      S(q) >= 0 for the parameters sr_setup derives in the stable region
      sr_run_trace_ok, sr_balance_closed_partial, sr_constitutive_closed_partial, sr_kernel_closed_partial
      sr_highbias_balance_refuted, sr_maxflow_lateral_refuted     witnesses of the remaining defects
    Axioms: only those of Coq.Reals.  Nothing here depends on what FindRoot
    returns except that it stays inside its bracket (KernelProofs/StorageRoutingRoot.v). *)
From Coq Require Import ZArith Reals Lra List Bool Lia.
From OW Require Import Base.Arith Base.RInst Base.Mealy Kernels.StorageRoutingRoot Kernels.StorageRouting KernelProofs.StorageRoutingRoot.
Import ListNotations.
Local Open Scope R_scope.

Definition limit : R := 1 / 1000.

Section Step.
  Variable p : @sr_params R.
  Variables i l pq S rate : R.

  Definition ifm : R := Rmax 0 S / p_dt p + i.
  Definition ev : R := Rmin ifm (p_area p * rate).
  Definition raw : R := S + (i + l - ev) * p_dt p.
  Definition ns : R := Rmax raw 0.
  Definition minQI : R := p_bias p * (i + l).
  Definition maxQI : R := minQI + (1 - p_bias p) * Rmax 0 (ifm - ev + l).
  Definition mbal (q : R) : R :=
    if Rltb (p_bias p) (999 / 1000)
    then (q - p_bias p * (i + l)) * p_dt p / (1 - p_bias p) + s_index p q - ns else 0.
  Definition outf (q : R) : R := Rmax 0 (ns - s_index p q) / p_dt p.

  Lemma run_routing_R q : run_routing p i l ifm S rate q = Some (mbal q, outf q, s_index p q).
  Proof. reflexivity. Qed.


  (** what each exit path of calcOutflow returns and the tests that led there *)
  Definition path_facts (qi out sto : R) (path : nat) : Prop :=
    match path with
    | 1%nat => limit <= mbal minQI /\ qi = minQI /\ out = 0 /\ sto = ns
    | 2%nat => - limit <= mbal minQI < limit /\ qi = minQI /\ out = outf minQI /\ sto = s_index p minQI
    | 3%nat => mbal minQI < - limit /\ maxQI <= minQI /\ qi = minQI /\ out = 0 /\ sto = s_index p minQI
    | 4%nat => mbal minQI < - limit /\ minQI < maxQI /\ mbal maxQI < limit /\ qi = maxQI /\
               out = Rmax 0 (ifm - ev) /\ sto = Rmax (S + (i + l - ev - out) * p_dt p) 0
    | 5%nat => mbal minQI < - limit /\ minQI < maxQI /\ limit <= mbal maxQI /\ minQI < qi < maxQI /\
               Rabs (mbal qi) < limit /\ out = outf qi /\ sto = s_index p qi
    | 6%nat => mbal minQI < - limit /\ minQI < maxQI /\ limit <= mbal maxQI /\ minQI <= qi <= maxQI /\
               Rabs (mbal qi) < limit /\ out = outf qi /\ sto = s_index p qi
    | 7%nat => mbal minQI < - limit /\ minQI < maxQI /\ limit <= mbal maxQI /\ minQI <= qi <= maxQI /\
               limit <= Rabs (mbal qi) /\ out = outf qi /\ sto = s_index p qi
    | _ => False
    end.

  Theorem calc_outflow_inv qi out sto path :
    calc_outflow p i l pq S rate = Some (qi, out, sto, path) -> path_facts qi out sto path.
  Proof.
    intros H. unfold calc_outflow in H. cbv zeta in H.
    change (amax zero S / p_dt p + i)%ar with ifm in H.
    rewrite !run_routing_R in H.
    change (amin ifm (p_area p * rate))%ar with ev in H.
    change (p_bias p * (i + l))%ar with minQI in H.
    change (minQI + (one - p_bias p) * amax zero (ifm - ev + l))%ar with maxQI in H.
    change (is_nan (p_bias p) || is_nan i || is_nan l) with false in H. cbv iota in H.
    change massBalanceLimit with limit in H.
    change negMassBalanceLimit with (-1 / 1000) in H.
    unfold geb in H. runfold.
    destruct (Rleb limit (mbal minQI)) eqn:E1.
    { apply Rleb_true in E1. injection H as <- <- <- <-. cbn. repeat split; try assumption; reflexivity. }
    apply Rleb_false in E1.
    destruct (Rleb (-1 / 1000) (mbal minQI)) eqn:E2.
    { apply Rleb_true in E2. injection H as <- <- <- <-. cbn. unfold limit in *. repeat split; try lra. }
    apply Rleb_false in E2.
    destruct (Rleb maxQI minQI) eqn:E3.
    { apply Rleb_true in E3. injection H as <- <- <- <-. cbn. unfold limit in *. repeat split; try lra. }
    apply Rleb_false in E3.
    destruct (Rltb (mbal maxQI) limit) eqn:E4.
    { apply Rltb_true in E4. injection H as <- <- <- <-. cbn. unfold limit in *. repeat split; try lra. }
    apply Rltb_false in E4.
    set (q0 := if Rleb pq minQI || Rleb maxQI pq then (minQI + maxQI) * (1 / 2) else pq) in H.
    assert (Hq0 : minQI < q0 < maxQI).
    { unfold q0. destruct (Rleb pq minQI || Rleb maxQI pq) eqn:E; [lra|].
      apply orb_false_elim in E. destruct E as [Ea Eb].
      apply Rleb_false in Ea. apply Rleb_false in Eb. lra. }
    destruct (Rltb (Rabs (mbal q0)) limit) eqn:E5.
    { apply Rltb_true in E5. injection H as <- <- <- <-. cbn. unfold limit in *. repeat split; try lra. }
    apply Rltb_false in E5.
    destruct (sr_find_root _ _ _ _ _ _ _ _) as [[qf df]|] eqn:EF; [|discriminate].
    apply sr_find_root_in_bracket in EF; [|lra|lra].
    rewrite run_routing_R in H.
    destruct (Rltb (Rabs (mbal qf)) limit) eqn:E6.
    - apply Rltb_true in E6. injection H as <- <- <- <-. cbn. unfold limit in *. repeat split; try lra.
    - apply Rltb_false in E6. injection H as <- <- <- <-. cbn. unfold limit in *. repeat split; try lra.
  Qed.

  (** forward versions for the exits that do not involve FindRoot *)
  Ltac co_unfold :=
    unfold calc_outflow; cbv zeta;
    change (amax zero S / p_dt p + i)%ar with ifm;
    rewrite !run_routing_R;
    change (amin ifm (p_area p * rate))%ar with ev;
    change (p_bias p * (i + l))%ar with minQI;
    change (minQI + (one - p_bias p) * amax zero (ifm - ev + l))%ar with maxQI;
    change (is_nan (p_bias p) || is_nan i || is_nan l) with false; cbv iota;
    change massBalanceLimit with limit;
    change negMassBalanceLimit with (-1 / 1000);
    unfold geb; runfold.

  Lemma calc_outflow_path1 :
    limit <= mbal minQI -> calc_outflow p i l pq S rate = Some (minQI, 0, ns, 1%nat).
  Proof.
    intros H. co_unfold.
    replace (Rleb limit (mbal minQI)) with true by (symmetry; apply Rleb_true; exact H). reflexivity.
  Qed.

  Lemma calc_outflow_path2 :
    - limit <= mbal minQI < limit ->
    calc_outflow p i l pq S rate = Some (minQI, outf minQI, s_index p minQI, 2%nat).
  Proof.
    intros H. co_unfold. unfold limit in *.
    replace (Rleb (1 / 1000) (mbal minQI)) with false by (symmetry; apply Rleb_false; lra).
    replace (Rleb (-1 / 1000) (mbal minQI)) with true by (symmetry; apply Rleb_true; lra). reflexivity.
  Qed.

  Lemma calc_outflow_path4 :
    mbal minQI < - limit -> minQI < maxQI -> mbal maxQI < limit ->
    calc_outflow p i l pq S rate
    = Some (maxQI, Rmax 0 (ifm - ev), Rmax (S + (i + l - ev - Rmax 0 (ifm - ev)) * p_dt p) 0, 4%nat).
  Proof.
    intros H1 H2 H3. co_unfold. unfold limit in *.
    replace (Rleb (1 / 1000) (mbal minQI)) with false by (symmetry; apply Rleb_false; lra).
    replace (Rleb (-1 / 1000) (mbal minQI)) with false by (symmetry; apply Rleb_false; lra).
    replace (Rleb maxQI minQI) with false by (symmetry; apply Rleb_false; lra).
    replace (Rltb (mbal maxQI) (1 / 1000)) with true by (symmetry; apply Rltb_true; lra). reflexivity.
  Qed.

  Lemma calc_outflow_path5 :
    mbal minQI < - limit -> minQI < maxQI -> limit <= mbal maxQI -> minQI < pq < maxQI ->
    Rabs (mbal pq) < limit ->
    calc_outflow p i l pq S rate = Some (pq, outf pq, s_index p pq, 5%nat).
  Proof.
    intros H1 H2 H3 H4 H5. co_unfold. unfold limit in *.
    replace (Rleb (1 / 1000) (mbal minQI)) with false by (symmetry; apply Rleb_false; lra).
    replace (Rleb (-1 / 1000) (mbal minQI)) with false by (symmetry; apply Rleb_false; lra).
    replace (Rleb maxQI minQI) with false by (symmetry; apply Rleb_false; lra).
    replace (Rltb (mbal maxQI) (1 / 1000)) with false by (symmetry; apply Rltb_false; lra).
    replace (Rleb pq minQI) with false by (symmetry; apply Rleb_false; lra).
    replace (Rleb maxQI pq) with false by (symmetry; apply Rleb_false; lra).
    cbn [orb].
    replace (Rltb (Rabs (mbal pq)) (1 / 1000)) with true by (symmetry; apply Rltb_true; lra). reflexivity.
  Qed.

  (** ------------------------------------------------------------------ *)
  (** Consequences.  [berr] is the water-balance error of the step:
        storage' - storage = (inflow + lateral - outflow - evapflux) * dt + berr
      with the net evaporation flux [ev] as the code defines it. *)
  Definition berr (out sto : R) : R := sto - S - (i + l - out - ev) * p_dt p.

  Hypothesis Hdt : 0 < p_dt p.

  Lemma outf_nonneg q : 0 <= outf q.
  Proof.
    unfold outf. apply Rmult_le_pos; [apply Rmax_l|]. apply Rlt_le, Rinv_0_lt_compat, Hdt.
  Qed.

  Lemma outf_dt q : outf q * p_dt p = Rmax 0 (ns - s_index p q).
  Proof. unfold outf. field. lra. Qed.

  Lemma outf_pos q : 0 < outf q -> s_index p q < ns.
  Proof.
    intros H. assert (0 < outf q * p_dt p) by (apply Rmult_lt_0_compat; assumption).
    rewrite outf_dt in H0. unfold Rmax in H0. destruct (Rle_dec 0 (ns - s_index p q)); lra.
  Qed.

  Lemma ev_le_ifm : ev <= ifm.
  Proof. apply Rmin_l. Qed.

  Lemma raw_eq : raw = S - Rmax 0 S + l * p_dt p + (ifm - ev) * p_dt p.
  Proof. unfold raw, ifm. field. lra. Qed.

  (** the clamps at zero never act when the reach holds a non-negative volume and lateral inflow is non-negative *)
  Lemma raw_nonneg : 0 <= S -> 0 <= l -> 0 <= raw.
  Proof.
    intros HS Hl. rewrite raw_eq. rewrite Rmax_right by lra.
    pose proof ev_le_ifm.
    assert (0 <= l * p_dt p) by (apply Rmult_le_pos; lra).
    assert (0 <= (ifm - ev) * p_dt p) by (apply Rmult_le_pos; lra). lra.
  Qed.

  (** The balance identity, exactly, on every exit path. *)
  Theorem sr_balance_per_path qi out sto path :
    calc_outflow p i l pq S rate = Some (qi, out, sto, path) ->
    berr out sto =
    match path with
    | 1%nat => Rmax 0 (- raw)
    | 3%nat => (sto - ns) + Rmax 0 (- raw)
    | 4%nat => Rmax 0 (- (raw - out * p_dt p))
    | _ => Rmax 0 (sto - ns) + Rmax 0 (- raw)
    end.
  Proof.
    intros H. apply calc_outflow_inv in H. unfold berr.
    assert (Hev : forall q, s_index p q - S - (i + l - outf q - ev) * p_dt p
                            = Rmax 0 (s_index p q - ns) + Rmax 0 (- raw)).
    { intros q. replace ((i + l - outf q - ev) * p_dt p) with ((i + l - ev) * p_dt p - outf q * p_dt p) by ring.
      rewrite outf_dt. unfold ns, raw, Rmax.
      repeat match goal with |- context [Rle_dec ?a ?b] => destruct (Rle_dec a b) end; lra. }
    destruct path as [|[|[|[|[|[|[|[|n]]]]]]]]; cbn in H; try contradiction.
    - destruct H as (_ & _ & -> & ->). unfold ns, raw, Rmax.
      repeat match goal with |- context [Rle_dec ?a ?b] => destruct (Rle_dec a b) end; lra.
    - destruct H as (_ & _ & -> & ->). apply Hev.
    - destruct H as (_ & _ & _ & -> & ->). unfold ns, raw, Rmax.
      repeat match goal with |- context [Rle_dec ?a ?b] => destruct (Rle_dec a b) end; lra.
    - destruct H as (_ & _ & _ & _ & Ho & ->). unfold raw, Rmax.
      repeat match goal with |- context [Rle_dec ?a ?b] => destruct (Rle_dec a b) end; lra.
    - destruct H as (_ & _ & _ & _ & _ & -> & ->). apply Hev.
    - destruct H as (_ & _ & _ & _ & _ & -> & ->). apply Hev.
    - destruct H as (_ & _ & _ & _ & _ & -> & ->). apply Hev.
  Qed.

  (** outflow is never negative (any parameters, any inputs) *)
  Theorem sr_outflow_nonneg qi out sto path :
    calc_outflow p i l pq S rate = Some (qi, out, sto, path) -> 0 <= out.
  Proof.
    intros H. apply calc_outflow_inv in H.
    destruct path as [|[|[|[|[|[|[|[|n]]]]]]]]; cbn in H; try contradiction.
    - destruct H as (_ & _ & -> & _). lra.
    - destruct H as (_ & _ & -> & _). apply outf_nonneg.
    - destruct H as (_ & _ & _ & -> & _). lra.
    - destruct H as (_ & _ & _ & _ & -> & _). apply Rmax_l.
    - destruct H as (_ & _ & _ & _ & _ & -> & _). apply outf_nonneg.
    - destruct H as (_ & _ & _ & _ & _ & -> & _). apply outf_nonneg.
    - destruct H as (_ & _ & _ & _ & _ & -> & _). apply outf_nonneg.
  Qed.

  (** ------------------------------------------------------------------ *)
  (** Closed per-step statement under the domain hypotheses. *)
  Hypothesis HS : 0 <= S.
  Hypothesis Hl : 0 <= l.
  Hypothesis Hsi : forall q, 0 <= s_index p q.

  Lemma mbal_low_bias q :
    p_bias p < 999 / 1000 ->
    mbal q = (q - minQI) * p_dt p / (1 - p_bias p) + s_index p q - ns.
  Proof.
    intros Hb. unfold mbal, minQI.
    replace (Rltb (p_bias p) (999 / 1000)) with true by (symmetry; apply Rltb_true; exact Hb). reflexivity.
  Qed.

  Lemma mbal_high_bias q : 999 / 1000 <= p_bias p -> mbal q = 0.
  Proof.
    intros Hb. unfold mbal.
    replace (Rltb (p_bias p) (999 / 1000)) with false by (symmetry; apply Rltb_false; exact Hb). reflexivity.
  Qed.

  (** exit 3 ("fluxes exceed inflow and storage") cannot be taken *)
  Theorem sr_path3_unreachable qi out sto :
    calc_outflow p i l pq S rate <> Some (qi, out, sto, 3%nat).
  Proof.
    intros H. apply calc_outflow_inv in H. cbn in H. destruct H as (H1 & H2 & _).
    destruct (Rlt_dec (p_bias p) (999 / 1000)) as [Hb|Hb].
    2:{ rewrite mbal_high_bias in H1 by lra. unfold limit in H1. lra. }
    rewrite mbal_low_bias in H1 by exact Hb.
    unfold maxQI in H2.
    assert (Hm : (1 - p_bias p) * Rmax 0 (ifm - ev + l) <= 0) by lra.
    assert (Hz : Rmax 0 (ifm - ev + l) <= 0).
    { destruct (Rle_dec (Rmax 0 (ifm - ev + l)) 0) as [|N]; [assumption|].
      assert (0 < (1 - p_bias p) * Rmax 0 (ifm - ev + l)) by (apply Rmult_lt_0_compat; lra). lra. }
    pose proof (Rmax_r 0 (ifm - ev + l)). pose proof ev_le_ifm.
    assert (Hraw : raw = 0).
    { rewrite raw_eq, (Rmax_right 0 S) by lra.
      replace l with 0 by lra. replace (ifm - ev) with 0 by lra. ring. }
    unfold ns in H1. rewrite Hraw, Rmax_left in H1 by lra.
    replace ((minQI - minQI) * p_dt p / (1 - p_bias p)) with 0 in H1 by (unfold Rdiv; ring).
    pose proof (Hsi minQI). unfold limit in H1. lra.
  Qed.

  (** the closed per-step statement; the only thing assumed about the solver is
      in the last clause: the bound on the error needs exit path <> 7 *)
  Theorem sr_step_closed qi out sto path :
    p_bias p < 999 / 1000 ->
    calc_outflow p i l pq S rate = Some (qi, out, sto, path) ->
    0 <= out /\ 0 <= sto /\ path <> 3%nat /\
    0 <= berr out sto /\ (0 < out -> berr out sto = 0) /\ (path <> 7%nat -> berr out sto < limit).
  Proof.
    intros Hb H.
    pose proof (sr_outflow_nonneg _ _ _ _ H) as Ho.
    pose proof (sr_balance_per_path _ _ _ _ H) as He.
    assert (H3 : path <> 3%nat) by (intros ->; exact (sr_path3_unreachable _ _ _ H)).
    pose proof (raw_nonneg HS Hl) as Hraw.
    assert (Hc : Rmax 0 (- raw) = 0) by (apply Rmax_left; lra).
    apply calc_outflow_inv in H.
    destruct path as [|[|[|[|[|[|[|[|n]]]]]]]]; cbn in H; try contradiction; try (exfalso; apply H3; reflexivity).
    - (* 1 *) destruct H as (_ & _ & -> & ->). rewrite He, Hc.
      repeat split; try lra; try congruence; try (unfold limit; lra). unfold ns. apply Rmax_r.
    - (* 2 *) destruct H as (Hd & _ & -> & ->). rewrite He, Hc. rewrite mbal_low_bias in Hd by exact Hb.
      replace ((minQI - minQI) * p_dt p / (1 - p_bias p)) with 0 in Hd by (unfold Rdiv; ring).
      repeat split; try apply outf_nonneg; try apply Hsi; try congruence.
      + pose proof (Rmax_l 0 (s_index p minQI - ns)). lra.
      + intros Hp. apply outf_pos in Hp. rewrite Rmax_left by lra. ring.
      + intros _. unfold Rmax. destruct (Rle_dec 0 (s_index p minQI - ns)); unfold limit in *; lra.
    - (* 4 *) destruct H as (_ & _ & _ & _ & Hout & Hsto). rewrite He.
      assert (Hq : raw - out * p_dt p = S - Rmax 0 S + l * p_dt p).
      { rewrite raw_eq, Hout, (Rmax_right 0 (ifm - ev)) by (pose proof ev_le_ifm; lra). ring. }
      rewrite Hq, (Rmax_right 0 S) by lra.
      assert (0 <= l * p_dt p) by (apply Rmult_le_pos; lra).
      rewrite Rmax_left by lra.
      repeat split; try lra; try congruence; try (unfold limit; lra).
      rewrite Hsto. apply Rmax_r.
    - (* 5 *) destruct H as (_ & _ & _ & Hq & Hd & -> & ->). rewrite He, Hc.
      rewrite mbal_low_bias in Hd by exact Hb.
      assert (0 <= (qi - minQI) * p_dt p / (1 - p_bias p)).
      { apply Rmult_le_pos; [apply Rmult_le_pos; lra|]. apply Rlt_le, Rinv_0_lt_compat. lra. }
      apply Rabs_def2 in Hd.
      repeat split; try apply outf_nonneg; try apply Hsi; try congruence.
      + pose proof (Rmax_l 0 (s_index p qi - ns)). lra.
      + intros Hp. apply outf_pos in Hp. rewrite Rmax_left by lra. ring.
      + intros _. unfold Rmax. destruct (Rle_dec 0 (s_index p qi - ns)); unfold limit in *; lra.
    - (* 6 *) destruct H as (_ & _ & _ & Hq & Hd & -> & ->). rewrite He, Hc.
      rewrite mbal_low_bias in Hd by exact Hb.
      assert (0 <= (qi - minQI) * p_dt p / (1 - p_bias p)).
      { apply Rmult_le_pos; [apply Rmult_le_pos; lra|]. apply Rlt_le, Rinv_0_lt_compat. lra. }
      apply Rabs_def2 in Hd.
      repeat split; try apply outf_nonneg; try apply Hsi; try congruence.
      + pose proof (Rmax_l 0 (s_index p qi - ns)). lra.
      + intros Hp. apply outf_pos in Hp. rewrite Rmax_left by lra. ring.
      + intros _. unfold Rmax. destruct (Rle_dec 0 (s_index p qi - ns)); unfold limit in *; lra.
    - (* 7 *) destruct H as (_ & _ & _ & Hq & Hd & -> & ->). rewrite He, Hc.
      repeat split; try apply outf_nonneg; try apply Hsi; try congruence.
      + pose proof (Rmax_l 0 (s_index p qi - ns)). lra.
      + intros Hp. apply outf_pos in Hp. rewrite Rmax_left by lra. ring.
  Qed.

  (** Constitutive relation, zero inflow bias: on the converged exits the
      reported storage is the storage law at an index flow that differs from
      the reported outflow by less than massBalanceLimit / dt. *)
  Theorem sr_constitutive qi out sto path :
    p_bias p = 0 ->
    calc_outflow p i l pq S rate = Some (qi, out, sto, path) ->
    0 < out -> (path = 2 \/ path = 5 \/ path = 6)%nat ->
    0 <= qi /\ sto = s_index p qi /\ Rabs (qi - out) * p_dt p <= limit.
  Proof.
    intros Hb H Hout Hp.
    assert (Hb' : p_bias p < 999 / 1000) by lra.
    assert (Hmin : minQI = 0) by (unfold minQI; rewrite Hb; ring).
    assert (Hm : forall q, mbal q = q * p_dt p + s_index p q - ns).
    { intros q. rewrite mbal_low_bias by exact Hb'. rewrite Hmin, Hb. field. }
    assert (Hkey : forall q, 0 < outf q -> Rabs (mbal q) <= limit -> Rabs (q - outf q) * p_dt p <= limit).
    { intros q Hq Hd. pose proof (outf_pos q Hq) as Hlt.
      pose proof (outf_dt q) as Hod. rewrite Rmax_right in Hod by lra.
      rewrite Hm in Hd. replace (q * p_dt p + s_index p q - ns) with ((q - outf q) * p_dt p) in Hd by lra.
      rewrite Rabs_mult, (Rabs_right (p_dt p)) in Hd by lra. exact Hd. }
    apply calc_outflow_inv in H.
    destruct Hp as [->|[->| ->]]; cbn in H.
    - destruct H as (Hd & -> & -> & ->). rewrite Hmin in *. repeat split; [lra|].
      apply Hkey; [exact Hout|]. apply Rabs_le; lra.
    - destruct H as (_ & _ & _ & Hq & Hd & -> & ->). repeat split; [lra|]. apply Hkey; [assumption|lra].
    - destruct H as (_ & _ & _ & Hq & Hd & -> & ->). repeat split; [lra|]. apply Hkey; [assumption|lra].
  Qed.

  (** ... and on the "maximum possible index flow" exit, when there is no
      lateral inflow, the reach is emptied and the storage law at the reported
      outflow is itself below massBalanceLimit. *)
  Theorem sr_constitutive_maxflow qi out sto :
    p_bias p = 0 -> l = 0 ->
    calc_outflow p i l pq S rate = Some (qi, out, sto, 4%nat) ->
    sto = 0 /\ 0 <= s_index p out < limit.
  Proof.
    intros Hb Hl0 H.
    assert (Hb' : p_bias p < 999 / 1000) by lra.
    apply calc_outflow_inv in H. cbn in H. destruct H as (_ & _ & Hd & _ & Hout & Hsto).
    pose proof ev_le_ifm as Hev.
    assert (Hmin : minQI = 0) by (unfold minQI; rewrite Hb; ring).
    assert (Hmax : maxQI = out).
    { unfold maxQI. rewrite Hmin, Hb, Hl0, Hout. ring_simplify (ifm - ev + 0). ring. }
    assert (Hraw : raw = out * p_dt p).
    { rewrite raw_eq, Hout, (Rmax_right 0 (ifm - ev)), (Rmax_right 0 S), Hl0 by lra. ring. }
    split.
    - rewrite Hsto. replace (S + (i + l - ev - out) * p_dt p) with (raw - out * p_dt p) by (unfold raw; ring).
      rewrite Hraw. replace (out * p_dt p - out * p_dt p) with 0 by ring. apply Rmax_left. lra.
    - split; [apply Hsi|].
      rewrite mbal_low_bias, Hmax, Hmin, Hb in Hd by exact Hb'.
      assert (0 <= out) by (rewrite Hout; apply Rmax_l).
      assert (0 <= out * p_dt p) by (apply Rmult_le_pos; lra).
      unfold ns in Hd. rewrite Hraw, Rmax_left in Hd by lra.
      replace ((out - 0) * p_dt p / (1 - 0)) with (out * p_dt p) in Hd by field. lra.
  Qed.
End Step.

(** ------------------------------------------------------------------ *)
(** The parameters computed by [sr_setup] in the stable region. *)

Lemma Rpow_nonneg x y : 0 <= Rpow x y.
Proof.
  unfold Rpow. destruct (Req_EM_T y 0); [lra|]. destruct (Req_EM_T x 0); [lra|].
  unfold Rpower. apply Rlt_le, exp_pos.
Qed.

Lemma Rpow_pos_base x y : 0 < x -> y <> 0 -> Rpow x y = Rpower x y.
Proof.
  intros Hx Hy. unfold Rpow. destruct (Req_EM_T y 0); [contradiction|].
  destruct (Req_EM_T x 0); [lra|]. reflexivity.
Qed.

Lemma Rpow_one x : 0 < x -> Rpow x 1 = x.
Proof. intros Hx. rewrite Rpow_pos_base by lra. apply Rpower_1, Hx. Qed.

Lemma Rpow_zero_base y : y <> 0 -> Rpow 0 y = 0.
Proof.
  intros Hy. unfold Rpow. destruct (Req_EM_T y 0); [contradiction|].
  destruct (Req_EM_T 0 0); [reflexivity|lra].
Qed.

(** the stated domain of the routing parameters *)
Definition sr_stable (bias k m dead dt : R) : Prop :=
  0 < dt /\ 0 <= k /\ 0 < m <= 1 /\ 0 <= dead /\ 0 <= bias /\ 2 * k * bias <= dt /\
  (1 / 1000 <= bias -> 0 < k).

Lemma sr_setup_fields bias k m area dead dt :
  let p := sr_setup bias k m area dead dt in
  p_dt p = dt /\ p_area p = area /\ p_dead p = dead /\ p_k p = k /\
  p_bias p = (if Rltb (Rabs bias) (1 / 1000) then 0 else bias).
Proof.
  unfold sr_setup. runfold.
  destruct (Rltb (Rabs bias) (1 / 1000)); [cbn; repeat split; reflexivity|].
  destruct (Rltb (Rabs (m - 1)) (1 / 1000)); cbn; repeat split; reflexivity.
Qed.

(** zero (or snapped-to-zero) inflow bias and m <= 1: the storage law is S = k q^m + dead *)
Lemma sr_setup_bias0 bias k m area dead dt :
  Rabs bias < 1 / 1000 -> m <= 1 ->
  sr_setup bias k m area dead dt = mkP 0 k m area dead dt 0 k 0.
Proof.
  intros Hb Hm. unfold sr_setup. runfold.
  replace (Rltb (Rabs bias) (1 / 1000)) with true by (symmetry; apply Rltb_true; exact Hb).
  unfold gtb. runfold.
  replace (Rltb 1 m) with false by (symmetry; apply Rltb_false; exact Hm). reflexivity.
Qed.

Lemma s_index_bias0 k m area dead dt q :
  m <= 1 -> m <> 0 -> 0 <= q ->
  s_index (mkP 0 k m area dead dt 0 k 0) q = k * Rpow q m + dead.
Proof.
  intros Hm Hm0 Hq. unfold s_index, linear_branch. cbn [p_dead p_x p_Qlimit p_Klimit p_k p_Koffset]. runfold.
  destruct (Rleb q 0) eqn:E.
  - apply Rleb_true in E. replace q with 0 by lra. rewrite Rpow_zero_base by exact Hm0. ring.
  - apply Rleb_false in E. unfold gtb. runfold.
    replace (Rltb q 0) with false by (symmetry; apply Rltb_false; lra).
    replace (Rltb 1 m) with false by (symmetry; apply Rltb_false; lra).
    rewrite andb_false_r. cbn [orb andb]. ring.
Qed.

Theorem sr_setup_sindex_nonneg bias k m area dead dt :
  sr_stable bias k m dead dt ->
  forall q, 0 <= s_index (sr_setup bias k m area dead dt) q.
Proof.
  intros (Hdt & Hk & Hm & Hd & Hb & _ & Hkpos) q.
  unfold sr_setup. runfold.
  destruct (Rltb (Rabs bias) (1 / 1000)) eqn:E1.
  { (* bias snapped to zero *)
    unfold gtb. runfold.
    replace (Rltb 1 m) with false by (symmetry; apply Rltb_false; lra).
    unfold s_index, linear_branch. cbn [p_dead p_x p_Qlimit p_Klimit p_k p_Koffset]. runfold. unfold gtb. runfold.
    destruct (Rleb q 0) eqn:Eq; [exact Hd|]. apply Rleb_false in Eq.
    replace (Rltb q 0) with false by (symmetry; apply Rltb_false; lra).
    replace (Rltb 1 m) with false by (symmetry; apply Rltb_false; lra).
    rewrite andb_false_r. cbn [orb andb]. pose proof (Rpow_nonneg q m).
    assert (0 <= k * Rpow q m) by (apply Rmult_le_pos; assumption). lra. }
  apply Rltb_false in E1.
  assert (Hb1 : 1 / 1000 <= bias) by (rewrite Rabs_right in E1; lra).
  specialize (Hkpos Hb1).
  destruct (Rltb (Rabs (m - 1)) (1 / 1000)) eqn:E2.
  { (* power snapped to one *)
    unfold s_index, linear_branch. cbn [p_dead p_x p_Qlimit p_Klimit p_k p_Koffset]. runfold. unfold gtb. runfold.
    destruct (Rleb q 0) eqn:Eq; [exact Hd|]. apply Rleb_false in Eq.
    replace (Rltb q 0) with false by (symmetry; apply Rltb_false; lra).
    replace (Rltb 1 1) with false by (symmetry; apply Rltb_false; lra).
    rewrite andb_false_r. cbn [orb andb].
    rewrite Rpow_one by lra.
    assert (0 <= k * q) by (apply Rmult_le_pos; lra). lra. }
  apply Rltb_false in E2.
  assert (Hm1 : m < 1).
  { destruct (Rle_dec 0 (m - 1)); [rewrite Rabs_right in E2; lra|rewrite Rabs_left in E2; lra]. }
  (* general case *)
  set (Kl := dt / bias).
  assert (HKl : 0 < Kl) by (unfold Kl; apply Rdiv_lt_0_compat; lra).
  set (base := Kl / (m * k)).
  assert (Hmk : 0 < m * k) by (apply Rmult_lt_0_compat; lra).
  assert (Hbase : 0 < base) by (unfold base; apply Rdiv_lt_0_compat; assumption).
  set (e := 1 / (m - 1)).
  assert (He : e <> 0).
  { unfold e, Rdiv. rewrite Rmult_1_l. apply Rinv_neq_0_compat. lra. }
  assert (HQ : Rpow base e = Rpower base e) by (apply Rpow_pos_base; assumption).
  set (Ql := Rpow base e).
  assert (HQl : 0 < Ql) by (unfold Ql; rewrite HQ; unfold Rpower; apply exp_pos).
  replace (Rltb m 1) with true by (symmetry; apply Rltb_true; exact Hm1).
  unfold s_index, linear_branch. cbn [p_dead p_x p_Qlimit p_Klimit p_k p_Koffset]. runfold. unfold gtb. runfold.
  fold Kl. fold base. fold e. fold Ql.
  destruct (Rleb q 0) eqn:Eq; [exact Hd|]. apply Rleb_false in Eq.
  replace (Rleb m 1) with true by (symmetry; apply Rleb_true; lra).
  replace (Rltb 1 m) with false by (symmetry; apply Rltb_false; lra).
  cbn [andb orb]. rewrite orb_false_r.
  destruct (Rltb q Ql) eqn:EQ.
  - assert (0 <= Kl * q) by (apply Rmult_le_pos; lra). lra.
  - apply Rltb_false in EQ.
    rewrite (Rpow_pos_base q m) by lra.
    (* k * Ql^m = Ql * Kl / m *)
    assert (HQm : k * Rpower Ql m = Ql * Kl / m).
    { replace m with (1 + (m - 1)) at 1 by ring.
      rewrite Rpower_plus, Rpower_1 by exact HQl.
      unfold Ql at 2. rewrite HQ, Rpower_mult.
      replace (e * (m - 1)) with 1 by (unfold e; field; lra).
      rewrite Rpower_1 by exact Hbase. unfold base. field. lra. }
    assert (Hmono : Rpower Ql m <= Rpower q m) by (apply Rle_Rpower_l; lra).
    assert (k * Rpower Ql m <= k * Rpower q m) by (apply Rmult_le_compat_l; lra).
    assert (Hoff : Ql * Kl / m - Ql * Kl * (1 - m) / m = Ql * Kl) by (field; lra).
    assert (0 <= Ql * Kl) by (apply Rmult_le_pos; lra).
    lra.
Qed.

(** ------------------------------------------------------------------ *)
(** Lifting to whole runs (every timestep of every series). *)

(** what the property says about one timestep: [s] the state before, [x] the
    inputs, [o] = (outflow, storage, exit path) *)
Definition step_ok (p : @sr_params R) (s : sr_state) (x : sr_input) (o : sr_output) : Prop :=
  let '(i, l, rain, evp) := x in
  let '(out, sto, path) := o in
  let e := berr p i l (st_storage s) (evap_rate p rain evp) out sto in
  0 <= out /\ 0 <= sto /\ path <> 3%nat /\
  0 <= e /\ (0 < out -> e = 0) /\ (path <> 7%nat -> e < limit).

Inductive trace_ok (p : @sr_params R) : sr_state -> list sr_input -> list sr_output -> Prop :=
| trace_nil s : trace_ok p s [] []
| trace_cons s x r s' o os :
    sr_step p s x = Some (s', o) -> step_ok p s x o -> st_storage s' = snd (fst o) ->
    trace_ok p s' r os -> trace_ok p s (x :: r) (o :: os).

Lemma sr_run_cons p s x r :
  sr_run p s (x :: r) =
  match sr_step p s x with
  | Some (s', o) => let '(sT, os) := sr_run p s' r in (sT, Some o :: os)
  | None => let '(sT, os) := run (sr_mstep p) None r in (sT, None :: os)
  end.
Proof.
  unfold sr_run. cbn [run sr_mstep]. destruct (sr_step p s x) as [[s' o]|]; reflexivity.
Qed.

Section Run.
  Variable p : @sr_params R.
  Hypothesis Hdt : 0 < p_dt p.
  Hypothesis Hb : p_bias p < 999 / 1000.
  Hypothesis Hsi : forall q, 0 <= s_index p q.

  Definition lateral_nonneg (x : sr_input) : Prop := let '(_, l, _, _) := x in 0 <= l.

  Lemma sr_step_ok s x s' o :
    0 <= st_storage s -> lateral_nonneg x ->
    sr_step p s x = Some (s', o) ->
    step_ok p s x o /\ st_storage s' = snd (fst o) /\ 0 <= st_storage s'.
  Proof.
    intros HS Hl H. destruct x as [[[i l] rain] evp]. cbn in Hl. unfold sr_step in H.
    destruct (calc_outflow p i l (st_qi s) (st_storage s) (evap_rate p rain evp)) as [[[[qi out] sto] path]|] eqn:E;
      [|discriminate].
    injection H as <- <-.
    pose proof (sr_step_closed p i l (st_qi s) (st_storage s) (evap_rate p rain evp) Hdt HS Hl Hsi qi out sto path Hb E)
      as (A1 & A2 & A3 & A4 & A5 & A6).
    split; [|split; [reflexivity|exact A2]].
    unfold step_ok. repeat split; assumption.
  Qed.

  (** every timestep of every run satisfies the per-step statement *)
  Theorem sr_run_trace_ok xs : forall s sT outs os,
    0 <= st_storage s -> Forall lateral_nonneg xs ->
    sr_run p s xs = (Some sT, outs) -> all_some outs = Some os ->
    trace_ok p s xs os.
  Proof.
    induction xs as [|x r IH]; intros s sT outs os HS Hx Hr Ha.
    - cbn in Hr. injection Hr as _ Ho. subst outs. cbn in Ha. injection Ha as <-. constructor.
    - inversion Hx as [|x' r' Hx1 Hx2]; subst.
      rewrite sr_run_cons in Hr.
      destruct (sr_step p s x) as [[s' o]|] eqn:E.
      + destruct (sr_run p s' r) as [sT' os'] eqn:Er. injection Hr as Hs Ho. subst sT' outs.
        cbn [all_some] in Ha. destruct (all_some os') as [os''|] eqn:Ea; [|discriminate].
        injection Ha as <-.
        destruct (sr_step_ok s x s' o HS Hx1 E) as (B1 & B2 & B3).
        econstructor; try eassumption. eapply IH; eassumption.
      + destruct (run (sr_mstep p) None r) as [sT' os']. injection Hr as _ Ho. subst outs. cbn in Ha. discriminate.
  Qed.
End Run.

(** The closed statement for the parameters the code derives ([sr_setup]) in
    the stated domain.  PARTIAL: (a) the bound  e < massBalanceLimit  is stated
    for exit paths other than 7, i.e. it assumes that FindRoot returned a
    balanced index flow (|delta| < massBalanceLimit after re-evaluation);
    (b) the inflow bias (after the code's snapping of |bias| < 0.001 to 0) is
    below 0.999 -- for bias >= 0.999 the statement is false, see
    [sr_highbias_balance_refuted]. *)
Theorem sr_balance_closed_partial bias k m area dead dt :
  sr_stable bias k m dead dt -> bias < 999 / 1000 ->
  forall xs s sT outs os,
    0 <= st_storage s -> Forall lateral_nonneg xs ->
    sr_run (sr_setup bias k m area dead dt) s xs = (Some sT, outs) -> all_some outs = Some os ->
    trace_ok (sr_setup bias k m area dead dt) s xs os.
Proof.
  intros Hst Hb xs s sT outs os HS Hx Hr Ha.
  pose proof Hst as (Hdt & _ & _ & _ & Hb0 & _).
  destruct (sr_setup_fields bias k m area dead dt) as (F1 & _ & _ & _ & F5).
  eapply sr_run_trace_ok; try eassumption.
  - rewrite F1. exact Hdt.
  - rewrite F5. destruct (Rltb (Rabs bias) (1 / 1000)); lra.
  - apply sr_setup_sindex_nonneg. exact Hst.
Qed.

(** Constitutive relation for the parameters the code derives, zero (or
    snapped-to-zero) bias.  PARTIAL: exits 2, 5, 6 (converged) and exit 4 without
    lateral inflow; exit 7 is the non-converged solver, exit 4 with lateral
    inflow is refuted by [sr_maxflow_lateral_refuted]. *)
Theorem sr_constitutive_closed_partial bias k m area dead dt i l pq S rate qi out sto path :
  sr_stable bias k m dead dt -> Rabs bias < 1 / 1000 ->
  0 <= S -> 0 <= l ->
  calc_outflow (sr_setup bias k m area dead dt) i l pq S rate = Some (qi, out, sto, path) ->
  0 < out ->
  ((path = 2 \/ path = 5 \/ path = 6)%nat ->
     exists q, 0 <= q /\ sto = k * Rpow q m + dead /\ Rabs (q - out) * dt <= limit) /\
  (path = 4%nat -> l = 0 -> sto = 0 /\ 0 <= k * Rpow out m + dead < limit).
Proof.
  intros Hst Hb HS Hl H Hout.
  pose proof Hst as (Hdt & Hk & Hm & Hd & _).
  pose proof (sr_setup_sindex_nonneg bias k m area dead dt Hst) as Hsi.
  rewrite sr_setup_bias0 in * by lra.
  set (p0 := mkP 0 k m area dead dt 0 k 0) in *.
  split.
  - intros Hp.
    destruct (sr_constitutive p0 i l pq S rate Hdt qi out sto path eq_refl H Hout Hp) as (A1 & A2 & A3).
    exists qi. split; [exact A1|]. split; [|exact A3].
    rewrite A2. apply s_index_bias0; lra.
  - intros -> Hl0.
    destruct (sr_constitutive_maxflow p0 i l pq S rate Hdt HS Hsi qi out sto eq_refl Hl0 H) as (A1 & A2).
    split; [exact A1|]. unfold p0 in A2. rewrite s_index_bias0 in A2 by lra. exact A2.
Qed.

(** ------------------------------------------------------------------ *)
(** Concrete evaluations: witnesses of the two defects that remain in the
    code, and non-vacuity examples. *)

Ltac rmm :=
  repeat match goal with
         | |- context [Rmax ?a ?b] =>
             first [rewrite (Rmax_left a b) by lra | rewrite (Rmax_right a b) by lra]
         | |- context [Rmin ?a ?b] =>
             first [rewrite (Rmin_left a b) by lra | rewrite (Rmin_right a b) by lra]
         end.

Lemma sr_setup_bias0_m1 k area dead dt :
  sr_setup 0 k 1 area dead dt = mkP 0 k 1 area dead dt 0 k 0.
Proof. apply sr_setup_bias0; [rewrite Rabs_R0; lra|lra]. Qed.

Lemma s_index_m1 bias k area dead dt q :
  0 < q -> s_index (mkP bias k 1 area dead dt 0 k 0) q = k * q + dead.
Proof.
  intros Hq. unfold s_index, linear_branch. cbn [p_dead p_x p_Qlimit p_Klimit p_k p_Koffset]. runfold. unfold gtb. runfold.
  replace (Rleb q 0) with false by (symmetry; apply Rleb_false; lra).
  replace (Rltb q 0) with false by (symmetry; apply Rltb_false; lra).
  replace (Rltb 1 1) with false by (symmetry; apply Rltb_false; lra).
  rewrite andb_false_r. cbn [orb andb]. rewrite Rpow_one by exact Hq. ring.
Qed.

Lemma s_index_at0 p : s_index p 0 = p_dead p.
Proof.
  unfold s_index. runfold.
  replace (Rleb 0 0) with true by (symmetry; apply Rleb_true; lra). reflexivity.
Qed.

(** Finding A (key sr-highbias-index-storage).  Inflow bias >= 0.999 is inside
    the stated domain whenever 2*k*bias <= dt, but then runRouting returns
    massBalance = 0, calcOutflow always leaves on exit 2 and reports the index
    storage with zero outflow even when that is more water than there is:
    bias = 1, k = 43200, m = 1, dead storage 1000, dt = 86400, empty reach,
    inflow 0.001 m3/s: 86.4 m3 enter, the model reports storage 1043.2 m3 and
    outflow 0 -- 956.8 m3 created. *)
Theorem sr_highbias_balance_refuted :
  exists bias k m area dead dt S i l rain evp pq,
    sr_stable bias k m dead dt /\ 0 <= S /\ 0 <= i /\ 0 <= l /\ 0 <= rain /\ 0 <= evp /\
    let p := sr_setup bias k m area dead dt in
    let rate := evap_rate p rain evp in
    exists qi out sto,
      calc_outflow p i l pq S rate = Some (qi, out, sto, 2%nat) /\
      out = 0 /\ berr p i l S rate out sto = 9568 / 10 /\ ~ (berr p i l S rate out sto < limit).
Proof.
  exists 1, 43200, 1, 0, 1000, 86400, 0, (1 / 1000), 0, 0, 0, 0.
  split; [unfold sr_stable; lra|]. repeat (split; [lra|]).
  assert (Hp : sr_setup 1 43200 1 0 1000 86400 = mkP 1 43200 1 0 1000 86400 0 43200 0).
  { unfold sr_setup. runfold. rewrite Rabs_R1.
    replace (Rltb 1 (1 / 1000)) with false by (symmetry; apply Rltb_false; lra).
    replace (1 - 1) with 0 by ring. rewrite Rabs_R0.
    replace (Rltb 0 (1 / 1000)) with true by (symmetry; apply Rltb_true; lra). reflexivity. }
  cbv zeta. rewrite Hp. set (p := mkP 1 43200 1 0 1000 86400 0 43200 0).
  assert (Hr : evap_rate p 0 0 = 0) by (unfold evap_rate; cbn; unfold Rdiv; ring).
  rewrite Hr.
  assert (Hmin : minQI p (1 / 1000) 0 = 1 / 1000) by (unfold minQI; cbn; ring).
  assert (Hsi : s_index p (1 / 1000) = 10432 / 10) by (unfold p; rewrite s_index_m1 by lra; lra).
  assert (Hifm : ifm p (1 / 1000) 0 = 1 / 1000) by (unfold ifm; cbn [p_dt p]; rmm; unfold Rdiv; ring).
  assert (Hev : ev p (1 / 1000) 0 0 = 0) by (unfold ev; rewrite Hifm; cbn [p_area p]; rmm; ring).
  assert (Hraw : raw p (1 / 1000) 0 0 0 = 864 / 10) by (unfold raw; rewrite Hev; cbn [p_dt p]; lra).
  assert (Hns : ns p (1 / 1000) 0 0 0 = 864 / 10) by (unfold ns; rewrite Hraw; rmm; reflexivity).
  assert (Hout : outf p (1 / 1000) 0 0 0 (1 / 1000) = 0).
  { unfold outf. rewrite Hns, Hsi. rmm. unfold Rdiv. ring. }
  exists (1 / 1000), 0, (10432 / 10).
  split.
  - rewrite calc_outflow_path2.
    + rewrite Hmin, Hout, Hsi. reflexivity.
    + rewrite mbal_high_bias by (cbn; lra). unfold limit. lra.
  - split; [reflexivity|].
    assert (Hb : berr p (1 / 1000) 0 0 0 0 (10432 / 10) = 9568 / 10).
    { unfold berr. rewrite Hev. cbn [p_dt p]. lra. }
    rewrite Hb. unfold limit. split; lra.
Qed.

(** Finding B (key sr-maxflow-lateral-held).  On the "maximum possible index
    flow" exit the outflow is initialFluxMax - netEvaporationFlux, which does
    not contain the lateral inflow; the lateral volume is held in storage
    although the storage law allows (almost) none: bias 0, k = 1e-5, m = 1,
    dead 0, dt = 86400, empty reach, inflow 5, lateral 3: outflow 5 and
    storage 259200 m3, while k*Q^m + dead = 5e-5 m3. *)
Theorem sr_maxflow_lateral_refuted :
  exists bias k m area dead dt S i l rain evp pq,
    sr_stable bias k m dead dt /\ Rabs bias < 1 / 1000 /\
    0 <= S /\ 0 <= i /\ 0 <= l /\ 0 <= rain /\ 0 <= evp /\
    let p := sr_setup bias k m area dead dt in
    let rate := evap_rate p rain evp in
    exists qi out sto,
      calc_outflow p i l pq S rate = Some (qi, out, sto, 4%nat) /\
      0 < out /\ berr p i l S rate out sto = 0 /\
      sto - (k * Rpow out m + dead) > 259199.
Proof.
  exists 0, (1 / 100000), 1, 0, 0, 86400, 0, 5, 3, 0, 0, 0.
  split; [unfold sr_stable; lra|]. split; [rewrite Rabs_R0; lra|]. repeat (split; [lra|]).
  cbv zeta. rewrite sr_setup_bias0_m1. set (p := mkP 0 (1 / 100000) 1 0 0 86400 0 (1 / 100000) 0).
  assert (Hr : evap_rate p 0 0 = 0) by (unfold evap_rate; cbn; unfold Rdiv; ring).
  rewrite Hr.
  assert (Hmin : minQI p 5 3 = 0) by (unfold minQI; cbn; ring).
  assert (Hifm : ifm p 5 0 = 5) by (unfold ifm; cbn [p_dt p]; rmm; unfold Rdiv; ring).
  assert (Hev : ev p 5 0 0 = 0) by (unfold ev; rewrite Hifm; cbn [p_area p]; rmm; ring).
  assert (Hmax : maxQI p 5 3 0 0 = 8) by (unfold maxQI; rewrite Hmin, Hifm, Hev; cbn [p_bias p]; rmm; ring).
  assert (Hraw : raw p 5 3 0 0 = 691200) by (unfold raw; rewrite Hev; cbn [p_dt p]; lra).
  assert (Hns : ns p 5 3 0 0 = 691200) by (unfold ns; rewrite Hraw; rmm; reflexivity).
  assert (Hlow : p_bias p < 999 / 1000) by (cbn; lra).
  assert (Hm0 : mbal p 5 3 0 0 0 = -691200).
  { unfold mbal. replace (Rltb (p_bias p) (999 / 1000)) with true by (symmetry; apply Rltb_true; exact Hlow).
    rewrite s_index_at0, Hns. cbn [p_bias p_dt p_dead p]. unfold Rdiv. ring. }
  assert (Hs8 : s_index p 8 = 8 / 100000) by (unfold p; rewrite s_index_m1 by lra; field).
  assert (Hm8 : mbal p 5 3 0 0 8 = 8 / 100000).
  { unfold mbal. replace (Rltb (p_bias p) (999 / 1000)) with true by (symmetry; apply Rltb_true; exact Hlow).
    rewrite Hs8, Hns. cbn [p_bias p_dt p]. field. }
  exists 8, 5, 259200.
  split.
  - rewrite calc_outflow_path4; rewrite ?Hmin, ?Hmax, ?Hm0, ?Hm8; unfold limit; try lra.
    rewrite Hifm, Hev. cbn [p_dt p].
    replace (Rmax 0 (5 - 0)) with 5 by (rmm; ring).
    replace (Rmax (0 + (5 + 3 - 0 - 5) * 86400) 0) with 259200 by (rmm; ring). reflexivity.
  - split; [lra|]. split.
    + unfold berr. rewrite Hev. cbn [p_dt p]. ring.
    + rewrite Rpow_one by lra. lra.
Qed.

(** Non-vacuity 1: the "too little water" exit reports the mass-balance
    storage (86.4 m3), not the dead storage (1000 m3). *)
Example sr_example_too_little_water :
  let p := sr_setup 0 43200 1 0 1000 86400 in
  calc_outflow p (1 / 1000) 0 0 0 0 = Some (0, 0, 864 / 10, 1%nat) /\
  berr p (1 / 1000) 0 0 0 0 (864 / 10) = 0.
Proof.
  cbv zeta. rewrite sr_setup_bias0_m1. set (p := mkP 0 43200 1 0 1000 86400 0 43200 0).
  assert (Hmin : minQI p (1 / 1000) 0 = 0) by (unfold minQI; cbn; ring).
  assert (Hifm : ifm p (1 / 1000) 0 = 1 / 1000) by (unfold ifm; cbn [p_dt p]; rmm; unfold Rdiv; ring).
  assert (Hev : ev p (1 / 1000) 0 0 = 0) by (unfold ev; rewrite Hifm; cbn [p_area p]; rmm; ring).
  assert (Hraw : raw p (1 / 1000) 0 0 0 = 864 / 10) by (unfold raw; rewrite Hev; cbn [p_dt p]; lra).
  assert (Hns : ns p (1 / 1000) 0 0 0 = 864 / 10) by (unfold ns; rewrite Hraw; rmm; reflexivity).
  assert (Hm0 : mbal p (1 / 1000) 0 0 0 0 = 1000 - 864 / 10).
  { unfold mbal. replace (Rltb (p_bias p) (999 / 1000)) with true by (symmetry; apply Rltb_true; cbn; lra).
    rewrite s_index_at0, Hns. cbn [p_bias p_dt p_dead p]. unfold Rdiv. ring. }
  split.
  - rewrite calc_outflow_path1; rewrite ?Hmin, ?Hm0, ?Hns; [reflexivity|unfold limit; lra].
  - unfold berr. rewrite Hev. cbn [p_dt p]. lra.
Qed.

(** Non-vacuity 2: a converged step with positive outflow: k = 43200 s (half a
    day), m = 1, 3 m3/s entering an empty reach, carried index flow 2: outflow
    2 m3/s, storage 86400 m3 = k*Q, balance exact. *)
Example sr_example_converged :
  let p := sr_setup 0 43200 1 0 0 86400 in
  calc_outflow p 3 0 2 0 0 = Some (2, 2, 86400, 5%nat) /\
  berr p 3 0 0 0 2 86400 = 0 /\ 86400 = 43200 * Rpow 2 1 + 0.
Proof.
  cbv zeta. rewrite sr_setup_bias0_m1. set (p := mkP 0 43200 1 0 0 86400 0 43200 0).
  assert (Hmin : minQI p 3 0 = 0) by (unfold minQI; cbn; ring).
  assert (Hifm : ifm p 3 0 = 3) by (unfold ifm; cbn [p_dt p]; rmm; unfold Rdiv; ring).
  assert (Hev : ev p 3 0 0 = 0) by (unfold ev; rewrite Hifm; cbn [p_area p]; rmm; ring).
  assert (Hmax : maxQI p 3 0 0 0 = 3) by (unfold maxQI; rewrite Hmin, Hifm, Hev; cbn [p_bias p]; rmm; ring).
  assert (Hraw : raw p 3 0 0 0 = 259200) by (unfold raw; rewrite Hev; cbn [p_dt p]; lra).
  assert (Hns : ns p 3 0 0 0 = 259200) by (unfold ns; rewrite Hraw; rmm; reflexivity).
  assert (Hlow : Rltb (p_bias p) (999 / 1000) = true) by (apply Rltb_true; cbn; lra).
  assert (Hm0 : mbal p 3 0 0 0 0 = -259200).
  { unfold mbal. rewrite Hlow, s_index_at0, Hns. cbn [p_bias p_dt p_dead p]. unfold Rdiv. ring. }
  assert (Hs3 : s_index p 3 = 129600) by (unfold p; rewrite s_index_m1 by lra; ring).
  assert (Hs2 : s_index p 2 = 86400) by (unfold p; rewrite s_index_m1 by lra; ring).
  assert (Hm3 : mbal p 3 0 0 0 3 = 129600).
  { unfold mbal. rewrite Hlow, Hs3, Hns. cbn [p_bias p_dt p]. field. }
  assert (Hm2 : mbal p 3 0 0 0 2 = 0).
  { unfold mbal. rewrite Hlow, Hs2, Hns. cbn [p_bias p_dt p]. field. }
  assert (Ho2 : outf p 3 0 0 0 2 = 2).
  { unfold outf. rewrite Hns, Hs2. cbn [p_dt p]. rmm. field. }
  split; [|split].
  - rewrite calc_outflow_path5; rewrite ?Hmin, ?Hmax, ?Hm0, ?Hm3, ?Hm2, ?Ho2, ?Hs2;
      unfold limit; try lra; try reflexivity.
    rewrite Rabs_R0. lra.
  - unfold berr. rewrite Hev. cbn [p_dt p]. ring.
  - rewrite Rpow_one by lra. ring.
Qed.

(** ------------------------------------------------------------------ *)
(** The kernel entry point is [sr_run] of the [sr_setup] parameters on the zipped inputs. *)
Lemma storage_routing_run_eq bias k x area dead dt s pin pout rest ins lats rain evp :
  storage_routing_run [bias; k; x; area; dead; dt] (s :: pin :: pout :: rest) [ins; lats; rain; evp] =
  match sr_run (sr_setup bias k x area dead dt) (sr_init s pin pout) (zip4 ins lats rain evp) with
  | (Some sT, outs) =>
      match all_some outs with
      | Some os => Some (os, st_storage sT :: st_inflow sT :: st_outflow sT :: rest)
      | None => None
      end
  | (None, _) => None
  end.
Proof. reflexivity. Qed.

Lemma zip4_lateral_nonneg ins lats rain evp :
  Forall (fun v => 0 <= v) lats -> Forall lateral_nonneg (zip4 ins lats rain evp).
Proof.
  intros H. revert ins rain evp. induction H as [|v lats Hv _ IH]; intros ins rain evp.
  - destruct ins; constructor.
  - destruct ins as [|a ins]; [constructor|]. destruct rain as [|c rain]; [constructor|].
    destruct evp as [|d evp]; [constructor|]. cbn [zip4]. constructor; [exact Hv|apply IH].
Qed.

(** the statement at the level of the kernel the wrapper calls: whenever the
    run returns (no panic), every one of its timesteps satisfies [step_ok] *)
Theorem sr_kernel_closed_partial bias k m area dead dt s pin pout rest ins lats rain evp os sts :
  sr_stable bias k m dead dt -> bias < 999 / 1000 ->
  0 <= s -> Forall (fun v => 0 <= v) lats ->
  storage_routing_run [bias; k; m; area; dead; dt] (s :: pin :: pout :: rest) [ins; lats; rain; evp] = Some (os, sts) ->
  trace_ok (sr_setup bias k m area dead dt) (sr_init s pin pout) (zip4 ins lats rain evp) os.
Proof.
  intros Hst Hb Hs Hl H. rewrite storage_routing_run_eq in H.
  destruct (sr_run (sr_setup bias k m area dead dt) (sr_init s pin pout) (zip4 ins lats rain evp)) as [[sT|] outs] eqn:Er;
    [|discriminate].
  destruct (all_some outs) as [os'|] eqn:Ea; [|discriminate]. injection H as <- _.
  eapply sr_balance_closed_partial; try eassumption.
  apply zip4_lateral_nonneg. exact Hl.
Qed.
