(** The storage-discharge relation of StorageRouting in "storage space":
    on the converged exits, with zero inflow bias and m <= 1,
      | S - (k Q^m + dead) |  <=  k (massBalanceLimit / dt)^m ,
    which is the tolerance the executable oracle of tools/c11.py uses.  It follows
    from [sr_constitutive_closed_partial] and the sub-additivity of x |-> x^m
    for 0 < m <= 1.  Over RArith; axioms: those of Coq.Reals only. *)
From Coq Require Import ZArith Reals Lra List Bool.
From OW Require Import Base.Arith Base.RInst Kernels.StorageRouting KernelProofs.StorageRouting.
Local Open Scope R_scope.

Lemma Rpower_ge_self t m : 0 < t <= 1 -> 0 < m <= 1 -> t <= Rpower t m.
Proof.
  intros [Ht0 Ht1] [Hm0 Hm1]. unfold Rpower.
  rewrite <- (exp_ln t Ht0) at 1.
  assert (Hl : ln t <= 0).
  { destruct Ht1 as [Hlt|Heq]; [|rewrite Heq, ln_1; lra].
    rewrite <- ln_1. apply Rlt_le, ln_increasing; lra. }
  assert (Hle : ln t <= m * ln t).
  { assert (0 <= (1 - m) * (- ln t)) by (apply Rmult_le_pos; lra). lra. }
  destruct Hle as [Hlt|Heq]; [apply Rlt_le, exp_increasing; exact Hlt|rewrite <- Heq; lra].
Qed.

Lemma Rpow_subadd a b m : 0 <= a -> 0 <= b -> 0 < m <= 1 -> Rpow (a + b) m <= Rpow a m + Rpow b m.
Proof.
  intros Ha Hb Hm.
  assert (Hm0 : m <> 0) by lra.
  destruct Ha as [Ha|<-].
  2:{ rewrite Rplus_0_l, Rpow_zero_base by exact Hm0. lra. }
  destruct Hb as [Hb|<-].
  2:{ rewrite Rplus_0_r, Rpow_zero_base by exact Hm0. lra. }
  rewrite !Rpow_pos_base by lra.
  set (s := a + b). assert (Hs : 0 < s) by (unfold s; lra).
  assert (Ea : a = a / s * s) by (field; lra).
  assert (Eb : b = b / s * s) by (field; lra).
  assert (Hta : 0 < a / s <= 1).
  { split; [apply Rdiv_lt_0_compat; assumption|].
    apply Rmult_le_reg_r with s; [exact Hs|]. rewrite <- Ea. unfold s. lra. }
  assert (Htb : 0 < b / s <= 1).
  { split; [apply Rdiv_lt_0_compat; assumption|].
    apply Rmult_le_reg_r with s; [exact Hs|]. rewrite <- Eb. unfold s. lra. }
  rewrite Ea at 1. rewrite Eb at 1.
  rewrite <- !Rpower_mult_distr by lra.
  pose proof (Rpower_ge_self _ m Hta Hm) as H1.
  pose proof (Rpower_ge_self _ m Htb Hm) as H2.
  assert (Hp : 0 < Rpower s m) by (unfold Rpower; apply exp_pos).
  assert (Hsum : a / s + b / s = 1) by (unfold s; field; lra).
  assert (1 * Rpower s m <= (Rpower (a / s) m + Rpower (b / s) m) * Rpower s m)
    by (apply Rmult_le_compat_r; lra).
  lra.
Qed.

Lemma Rpow_mono a b m : 0 <= a <= b -> 0 < m -> Rpow a m <= Rpow b m.
Proof.
  intros [Ha Hab] Hm. destruct Ha as [Ha|<-].
  - rewrite !Rpow_pos_base by lra. apply Rle_Rpower_l; lra.
  - rewrite Rpow_zero_base by lra. apply Rpow_nonneg.
Qed.

Lemma Rpow_diff a b m :
  0 <= a -> 0 <= b -> 0 < m <= 1 -> Rabs (Rpow a m - Rpow b m) <= Rpow (Rabs (a - b)) m.
Proof.
  intros Ha Hb Hm.
  destruct (Rle_dec b a) as [Hba|Hab].
  - rewrite (Rabs_right (a - b)) by lra.
    pose proof (Rpow_mono b a m (conj Hb Hba) (proj1 Hm)).
    rewrite Rabs_right by lra.
    assert (Hd : 0 <= a - b) by lra.
    pose proof (Rpow_subadd b (a - b) m Hb Hd Hm) as H1.
    replace (b + (a - b)) with a in H1 by ring. lra.
  - rewrite (Rabs_left (a - b)) by lra.
    assert (Hab' : 0 <= a <= b) by lra.
    pose proof (Rpow_mono a b m Hab' (proj1 Hm)).
    rewrite Rabs_left1 by lra.
    assert (Hd : 0 <= - (a - b)) by lra.
    pose proof (Rpow_subadd a (- (a - b)) m Ha Hd Hm) as H1.
    replace (a + - (a - b)) with b in H1 by ring. lra.
Qed.

(** converged exits (2, 5, 6), zero bias, positive outflow *)
Theorem sr_constitutive_sspace bias k m area dead dt i l pq S rate qi out sto path :
  sr_stable bias k m dead dt -> Rabs bias < 1 / 1000 ->
  0 <= S -> 0 <= l ->
  calc_outflow (sr_setup bias k m area dead dt) i l pq S rate = Some (qi, out, sto, path) ->
  0 < out -> (path = 2 \/ path = 5 \/ path = 6)%nat ->
  Rabs (sto - (k * Rpow out m + dead)) <= k * Rpow (limit / dt) m.
Proof.
  intros Hst Hb HS Hl H Hout Hp.
  pose proof Hst as (Hdt & Hk & Hm & _).
  destruct (sr_constitutive_closed_partial bias k m area dead dt i l pq S rate qi out sto path Hst Hb HS Hl H Hout)
    as [Hc _].
  destruct (Hc Hp) as (q & Hq & -> & Hd).
  replace (k * Rpow q m + dead - (k * Rpow out m + dead)) with (k * (Rpow q m - Rpow out m)) by ring.
  rewrite Rabs_mult, (Rabs_right k) by lra.
  apply Rmult_le_compat_l; [exact Hk|].
  eapply Rle_trans; [apply Rpow_diff; lra|].
  apply Rpow_mono; [|lra]. split; [apply Rabs_pos|].
  apply Rmult_le_reg_r with dt; [exact Hdt|].
  unfold Rdiv. rewrite Rmult_assoc, Rinv_l by lra. lra.
Qed.
