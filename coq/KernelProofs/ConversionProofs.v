(** C16 proofs for models/conversion: FixedPartition, VariablePartition,
    ApplyScalingFactor, DeliveryRatio, DepthToRate (RatingCurvePartition is in
    RatingPartitionProofs.v).  All statements are about whole runs over the real
    instance [RArith]. *)
From Coq Require Import ZArith List Reals Lra.
From OW Require Import Base.Arith Base.RInst Base.Mealy Kernels.C16Common Kernels.UnitConsts
  Kernels.Scale Kernels.DeliveryRatio Kernels.DepthToRate Kernels.FixedPartition Kernels.VarPartition
  KernelProofs.C16Lib.
Import ListNotations.
Local Open Scope R_scope.

(** ** FixedPartition *)
Lemma fixed_partition_run (fraction : R) (input st : list R) :
  fixed_partition_kernel [fraction] st [input] =
  Some ([map (fun x => x * fraction) input; map (fun x => x * (1 - fraction)) input], st).
Proof.
  unfold fixed_partition_kernel, fixed_partition_step. rewrite snd_run_loop_step, !map_map. reflexivity.
Qed.

Theorem fixed_partition_sum : forall (fraction : R) (input st : list R),
  exists o1 o2, fixed_partition_kernel [fraction] st [input] = Some ([o1; o2], st)
    /\ zipw Rplus o1 o2 = input
    /\ o1 = map (fun x => x * fraction) input.
Proof.
  intros. eexists; eexists; split; [apply fixed_partition_run|]. split; [|reflexivity].
  rewrite zipw_map_same. apply map_eq_id. intros; ring.
Qed.

(** ** VariablePartition *)
Lemma variable_partition_run (input fraction st : list R) :
  variable_partition_kernel [] st [input; fraction] =
  Some ([map (fun x => fst x * snd x) (combine input fraction);
         map (fun x => fst x * (1 - snd x)) (combine input fraction)], st).
Proof.
  unfold variable_partition_kernel, variable_partition_step. rewrite snd_run_loop_step, !map_map.
  do 3 f_equal; [|f_equal]; apply map_ext; intros [a b]; reflexivity.
Qed.

Theorem variable_partition_sum : forall (input fraction st : list R),
  length input = length fraction ->
  exists o1 o2, variable_partition_kernel [] st [input; fraction] = Some ([o1; o2], st)
    /\ zipw Rplus o1 o2 = input
    /\ o1 = zipw Rmult input fraction.
Proof.
  intros input fraction st Hl. eexists; eexists; split; [apply variable_partition_run|]. split; [|reflexivity].
  rewrite zipw_map_same.
  transitivity (map fst (combine input fraction)); [apply map_ext; intros; ring | now apply map_fst_combine].
Qed.

(** ** ApplyScalingFactor / DeliveryRatio : output = input * scale (also on the early-return path) *)
Lemma apply_scaling_linear (scale : R) (input : list R) :
  apply_scaling scale input = map (fun x => x * scale) input.
Proof.
  unfold apply_scaling. runfold. rcase_bool (Reqb scale 0).
  - subst scale. unfold untouched. apply map_ext. intros; runfold; ring.
  - unfold apply_scaling_step. rewrite snd_run_loop_step. reflexivity.
Qed.

Theorem scaling_linear : forall (scale : R) (input st : list R),
  apply_scaling_factor_kernel [scale] st [input] = Some ([map (fun x => x * scale) input], st).
Proof. intros. unfold apply_scaling_factor_kernel. now rewrite apply_scaling_linear. Qed.

Theorem delivery_ratio_linear : forall (fraction : R) (input st : list R),
  delivery_ratio_kernel [fraction] st [input] = Some ([map (fun x => x * fraction) input], st).
Proof. intros. unfold delivery_ratio_kernel. now rewrite apply_scaling_linear. Qed.

(** linearity proper: the map commutes with linear combinations of series *)
Theorem scaling_superposition : forall (scale a b : R) (xs ys : list R),
  apply_scaling scale (zipw (fun x y => a * x + b * y) xs ys) =
  zipw (fun x y => a * x + b * y) (apply_scaling scale xs) (apply_scaling scale ys).
Proof.
  intros. rewrite !apply_scaling_linear. unfold zipw. rewrite map_map.
  revert ys; induction xs as [|x xs IH]; intros [|y ys]; cbn; try reflexivity.
  f_equal; [ring|apply IH].
Qed.

(** ** DepthToRate : outflow = input * (mm->m) * area / DeltaT *)
Theorem depth_to_rate_factor : forall (deltaT area : R) (input st : list R),
  deltaT <> 0 ->
  depth_to_rate_kernel [deltaT; area] st [input] =
  Some ([map (fun x => x * (1 / 1000) * area / deltaT) input], st).
Proof.
  intros deltaT area input st Hd. unfold depth_to_rate_kernel, depth_to_rate. runfold.
  rcase_bool (Reqb area 0).
  - subst area. unfold untouched. do 3 f_equal. apply map_ext. intros; runfold; field; trivial.
  - unfold depth_to_rate_step. rewrite snd_run_loop_step. do 3 f_equal. apply map_ext. intros x.
    unfold depth_to_rate_row, depth_to_rate_conversion, u_MILLIMETRES_TO_METRES, of_qp; cbn [fst snd q_MILLIMETRES_TO_METRES].
    runfold. field; trivial.
Qed.

Example depth_to_rate_example : exists o,
  depth_to_rate_kernel [86400; 1000000] [] [[864 / 10]] = Some ([[o]], []) /\ o = 1.
Proof.
  eexists. split. { rewrite depth_to_rate_factor by lra. cbn [map]. reflexivity. } field.
Qed.
