(** Proofs about Kernels/SedimentTrapping.v (StorageParticulateTrapping) over the
    reals (C12).  The division by the working volume is guarded ([> 0]); when the
    reservoir is empty and releases nothing (working volume 0) the mass is kept.
    Hypotheses that remain: non-negative inputs, step length and initial store --
    they are needed because the model clamps the new store with math.Max(.,0),
    which would create mass from a negative store, and because a negative working
    volume has no meaning. *)
From Coq Require Import ZArith Reals Lra List.
From OW Require Import Base.Arith Base.RInst Base.Mealy KernelProofs.Budget
  Kernels.C12Common Kernels.SedimentTrapping.
Import ListNotations.
Local Open Scope R_scope.

Notation Rtrap_step := (@trap_step R RArith).
Notation trap_inR := (@trap_in R).
Notation trap_outR := (@trap_out R).
Notation trap_paramsR := (@trap_params R).

Definition trap_inflow (p : trap_paramsR) (x : trap_inR) : R := ti_inflowLoad x * tp_deltaT p.
(** what leaves: downstream (rate * dt) and the trapped mass (kg per step) *)
Definition trap_outflow (p : trap_paramsR) (x : trap_inR) (o : trap_outR) : R :=
  to_outflowLoad o * tp_deltaT p + to_trappedMass o.

(** the trapping percentage is always within [0,100], whatever the parameters *)
Lemma damTrappingPC_range (p : trap_paramsR) q : 0 <= @damTrappingPC R RArith p q <= 100.
Proof.
  unfold damTrappingPC, m_MinFloat64, m_MaxFloat64. runfold.
  destruct (andb _ _); [|lra].
  match goal with |- context [Rltb ?a 0] => set (pc := a) end.
  rcase_bool (Rltb pc 0).
  - rcase_bool (Rltb 0 (IZR 100)); lra.
  - rcase_bool (Rltb pc (IZR 100)); lra.
Qed.

Definition trap_in_ok (p : trap_paramsR) (x : trap_inR) : Prop :=
  0 <= ti_inflowLoad x /\ 0 <= ti_outflow x /\ 0 <= ti_storage x.

(** per-step balance and non-negativity, for non-negative inputs: BOTH branches,
    working volume > 0 (released by concentration) and = 0 (nothing released, mass kept) *)
Lemma trap_step_ok (p : trap_paramsR) s x :
  0 <= tp_deltaT p -> 0 <= s -> trap_in_ok p x ->
  (0 <= fst (Rtrap_step p s x) /\
   0 <= to_outflowLoad (snd (Rtrap_step p s x)) /\
   0 <= to_trappedMass (snd (Rtrap_step p s x)) <= trap_inflow p x) /\
  s + trap_inflow p x = fst (Rtrap_step p s x) + trap_outflow p x (snd (Rtrap_step p s x)).
Proof.
  intros Hdt Hs (H1 & H2 & H3).
  unfold trap_step, trap_inflow, trap_outflow in *. runfold.
  pose proof (damTrappingPC_range p (ti_inflow x)) as Hpc.
  set (pc := @damTrappingPC R RArith p (ti_inflow x)) in *.
  set (dt := tp_deltaT p) in *.
  set (inc := ti_inflowLoad x * dt).
  assert (Hinc : 0 <= inc) by (apply Rmult_le_pos; assumption).
  assert (Htr : 0 <= inc * pc / 100 <= inc).
  { split.
    - apply Rmult_le_pos; [apply Rmult_le_pos; lra | lra].
    - replace inc with (inc * 100 / 100) at 2 by field.
      apply Rmult_le_compat_r; [lra|]. apply Rmult_le_compat_l; lra. }
  set (tr := inc * pc / 100) in *.
  set (s1 := s + inc - tr).
  assert (Hs1 : 0 <= s1) by (unfold s1; lra).
  set (wv := ti_outflow x * dt + ti_storage x) in *.
  rcase_bool (Rltb 0 wv); cbn.
  - assert (Hcc : 0 <= s1 / wv) by (apply Rmult_le_pos; [assumption | left; apply Rinv_0_lt_compat; assumption]).
    assert (Hrest : s1 - ti_outflow x * (s1 / wv) * dt = s1 / wv * ti_storage x).
    { unfold wv. field. fold wv. lra. }
    assert (Hrest0 : 0 <= s1 / wv * ti_storage x) by (apply Rmult_le_pos; assumption).
    rewrite Hrest. rewrite Rmax_left by assumption.
    split; [repeat split; try lra; apply Rmult_le_pos; assumption|].
    unfold s1 in *. lra.
  - replace (s1 - 0 * dt) with s1 by lra. rewrite Rmax_left by assumption.
    split; [repeat split; lra|]. unfold s1. lra.
Qed.

(** the zero-volume branch explicitly: nothing is released and the (untrapped) mass stays *)
Lemma trap_step_empty_reservoir (p : trap_paramsR) s x :
  0 <= s -> 0 <= ti_inflowLoad x -> 0 <= tp_deltaT p -> trap_working_vol p x <= 0 ->
  to_outflowLoad (snd (Rtrap_step p s x)) = 0 /\
  fst (Rtrap_step p s x) = s + trap_inflow p x - to_trappedMass (snd (Rtrap_step p s x)).
Proof.
  intros Hs Hi Hdt Hw. unfold trap_step, trap_working_vol, trap_inflow in *. runfold.
  pose proof (damTrappingPC_range p (ti_inflow x)) as Hpc.
  set (pc := @damTrappingPC R RArith p (ti_inflow x)) in *.
  assert (E : Rltb 0 (ti_outflow x * tp_deltaT p + ti_storage x) = false) by (apply Rltb_false; lra).
  rewrite E. cbn. split; [reflexivity|].
  set (inc := ti_inflowLoad x * tp_deltaT p).
  assert (Hinc : 0 <= inc) by (apply Rmult_le_pos; assumption).
  assert (inc * pc / 100 <= inc).
  { replace inc with (inc * 100 / 100) at 2 by field.
    apply Rmult_le_compat_r; [lra|]. apply Rmult_le_compat_l; lra. }
  rewrite Rmax_left; lra.
Qed.

Theorem trap_run_budget (p : trap_paramsR) : 0 <= tp_deltaT p -> forall xs s,
  0 <= s -> Forall (trap_in_ok p) xs ->
  0 <= fst (run (Rtrap_step p) s xs) /\
  s + inflows (trap_inflow p) xs =
  fst (run (Rtrap_step p) s xs) + outflows (trap_outflow p) xs (snd (run (Rtrap_step p) s xs)).
Proof.
  intros Hdt.
  apply (run_budget_inv (Rtrap_step p) (fun s => s) (trap_inflow p) (trap_outflow p)
           (fun s => 0 <= s) (trap_in_ok p)).
  intros s x Hs Hx. destruct (trap_step_ok p s x Hdt Hs Hx) as [(A & _) B]. split; assumption.
Qed.

Theorem trap_run_nonneg (p : trap_paramsR) : 0 <= tp_deltaT p -> forall xs s,
  0 <= s -> Forall (trap_in_ok p) xs ->
  0 <= fst (run (Rtrap_step p) s xs) /\
  Forall (fun xo => 0 <= to_outflowLoad (snd xo) /\ 0 <= to_trappedMass (snd xo) <= trap_inflow p (fst xo))
         (combine xs (snd (run (Rtrap_step p) s xs))).
Proof.
  intros Hdt.
  apply (run_invariant (Rtrap_step p) (fun s => 0 <= s) (trap_in_ok p)
           (fun x o => 0 <= to_outflowLoad o /\ 0 <= to_trappedMass o <= trap_inflow p x)).
  intros s x Hs Hx. destruct (trap_step_ok p s x Hdt Hs Hx) as [(A & B & C) _]. auto.
Qed.

Lemma trap_kernel_unfold (dt cap len sub mult ldf ldp s : R) (a b c d : list R) :
  @storage_particulate_trapping_kernel R RArith [dt; cap; len; sub; mult; ldf; ldp] [s] [a; b; c; d] =
  let p := mk_trap_params dt cap len sub mult ldf ldp in
  let r := run (Rtrap_step p) s (trap_rows a b c d) in
  Some ([map to_trappedMass (snd r); map to_outflowLoad (snd r)], [fst r]).
Proof.
  unfold storage_particulate_trapping_kernel. destruct (run _ _ _); reflexivity.
Qed.

(** non-vacuity: a reservoir of length 0 traps nothing; 4 kg in 1 m3 stored + 1 m3 released: 2 kg leave, 2 stay *)
Example trap_example :
  Rtrap_step (mk_trap_params 1 0 0 112 800 1 (-1/5)) 3 (mk_trap_in 1 1 1 1) =
  (2, {| to_trappedMass := 0; to_outflowLoad := 2 |}).
Proof.
  unfold trap_step, damTrappingPC. runfold. cbn.
  assert (E1 : Rltb 0 1 = true) by (apply Rltb_true; lra).
  assert (E2 : Rltb 0 0 = false) by (apply Rltb_false; lra). rewrite E1, E2. cbn.
  assert (E3 : Rltb 0 (1 * 1 + 1) = true) by (apply Rltb_true; lra). rewrite E3.
  replace (3 + 1 * 1 - 1 * 1 * 0 / 100) with 4 by field.
  replace (4 - 1 * (4 / (1 * 1 + 1)) * 1) with 2 by field.
  rewrite Rmax_left by lra. f_equal. f_equal; field.
Qed.

(** the former NaN witness over the reals: empty reservoir, no outflow: 10 kg + 1 kg/s * 86400 s stay *)
Example trap_empty_example :
  Rtrap_step (mk_trap_params 86400 1000000 0 112 800 1 (1/2)) 10 (mk_trap_in 1 1 0 0) =
  (86410, {| to_trappedMass := 0; to_outflowLoad := 0 |}).
Proof.
  unfold trap_step, damTrappingPC. runfold. cbn.
  assert (E1 : Rltb 0 1 = true) by (apply Rltb_true; lra).
  assert (E2 : Rltb 0 0 = false) by (apply Rltb_false; lra). rewrite E1, E2. cbn.
  assert (E3 : Rltb 0 (0 * 86400 + 0) = false) by (apply Rltb_false; lra). rewrite E3.
  rewrite Rmax_left by lra. f_equal; [lra | f_equal; lra].
Qed.

Lemma trap_in_ok_iff (p : trap_paramsR) x :
  trap_in_ok p x <-> (0 <= ti_inflowLoad x /\ 0 <= ti_outflow x /\ 0 <= ti_storage x).
Proof. reflexivity. Qed.
