(** C06 / C14 for Muskingum and the constituent transport / trapping kernels
    (models/routing, models/storage), for ANY [Arith] instance unless said
    otherwise.  Each is an instance of [HotStart.kernel_of_machine].

    Full theorems ([hc_spec] = split_spec /\ causal_spec):
      Muskingum, LumpedConstituentRouting, ConstituentDecay, InstreamCoarseSediment,
      InstreamParticulateNutrient, StorageParticulateTrapping, StorageDissolvedDecay,
      InstreamFineSediment with bankFullFlow <= 1e-8.

    With a side condition:
      InstreamFineSediment (bankFullFlow > 1e-8): before its loop the kernel
        re-interprets a NEGATIVE channelStoreFine state as -(fraction of the
        maximum storage); a cut is exact when the channel store returned at the
        cut is not negative ([instream_fine_sediment_kernel_split_partial]).
        [fine_store_nonneg_R] shows that over the reals the store never goes
        negative when the maximum storage is >= 0 (all documented parameter
        ranges), so there the side condition always holds.
      StorageTrapAll: an empty series carries the stored mass unchanged (fix
        b73cc97), so every cut is covered, empty segments included; the stored
        mass is added to the first output as
        [inflowMass + storedMass], and the returned state is 0, so the split run
        computes [x + 0] where the whole run has [x]: equal when [x + 0 = x]
        (true in R; in binary64 false only for x = -0)
        ([storage_trap_all_kernel_split_partial], [storage_trap_all_kernel_split_R]).
      InstreamDissolvedNutrientDecay: an empty series returns at once (fix b73cc97);
        with decay OFF it is LumpedConstituentTransport, every cut
        ([..._nodecay_split_partial]); with decay ON
        the previous reach volume is a local that restarts from the segment's first
        volume: refuted in HotStartWitness.v.  Causality holds in both modes. *)
From Coq Require Import List Arith Lia Bool ZArith.
From OW Require Import Base.Arith Base.Mealy KernelProofs.HotStart.
From OW Require Import Kernels.C12Common Kernels.Muskingum Kernels.LumpedConstituent Kernels.Decay
  Kernels.InstreamFineSediment Kernels.InstreamCoarseSediment Kernels.InstreamParticulateNutrient
  Kernels.SedimentTrapping Kernels.TrapAll Kernels.DissolvedDecay Kernels.InstreamDissolvedNutrient.
Import ListNotations.

Ltac rows_map_tac :=
  constructor; intros; cbv zeta; unfold zeros; cbn [app_series firsts map];
  rewrite ?map_app, ?firstn_map_comm; reflexivity.

(** zip laws of a hand-written zip: destruct the block to its shape, push
    firstn/skipn through map and combine *)
Ltac zl_case i H unf :=
  repeat (destruct i as [|? i]; cbn in H |- *; try discriminate; try (left; reflexivity));
  try (injection H as <-; unf;
       repeat rewrite ?firstn_map_comm, ?skipn_map_comm, ?firstn_combine, ?skipn_combine; reflexivity).
Ltac zl_custom unf :=
  constructor;
  [ let i := fresh "ins" in let H := fresh "H" in intros i ? ? H; zl_case i H unf
  | let i := fresh "ins" in let H := fresh "H" in intros i ? ? H; zl_case i H unf
  | let i := fresh "ins" in let H := fresh "H" in intros i ? H; zl_case i H unf ].

Section S.
  Context {T : Type} {A : Arith T}.
  Local Open Scope ar_scope.

  (* ---------------------------------------------------------------- Muskingum *)
  Definition musk_unpack (st : list T) : option ((T * list T) * (T * T)) :=
    match st with
    | s :: pin :: pout :: rest => Some ((s, rest), (pin, pout))
    | _ => None
    end.
  Definition musk_pack (aux : T * list T) (st : T * T) : list T :=
    fst aux :: fst st :: snd st :: snd aux.

  Theorem muskingum_kernel_hc (p : list T) : hc_spec (muskingum_kernel p).
  Proof.
    destruct p as [|k [|x [|dt ?]]]; try exact hc_none.
    eapply hc_ext; [|apply (hc_machine_simple musk_unpack lzp2
        (fun _ => musk_step (musk_setup k x dt)) musk_pack (fun os : list T => [os]));
        [apply lzp2_laws| |]].
    - intros s ins. unfold muskingum_kernel, kernel_of_machine, musk_unpack, lzp2, musk_run.
      destruct s as [|s [|pin [|pout rest]]]; try reflexivity;
      destruct ins as [|a [|b ?]]; try reflexivity.
      destruct (run _ _ _) as [[pin' pout'] os]. reflexivity.
    - constructor; intros; reflexivity.
    - intros [s rest] [pin pout]. reflexivity.
  Qed.

  (* ---------------------------------------------------------------- one-state, exact-length state vectors *)
  Definition unpack1 (st : list T) : option (unit * T) :=
    match st with [m] => Some (tt, m) | _ => None end.
  Definition pack1 (_ : unit) (m : T) : list T := [m].
  Definition unpack2 (st : list T) : option (unit * (T * T)) :=
    match st with [a; b] => Some (tt, (a, b)) | _ => None end.
  Definition pack2 (_ : unit) (s : T * T) : list T := [fst s; snd s].

  Lemma unpack1_pack1 aux m : unpack1 (pack1 aux m) = Some (aux, m).
  Proof. destruct aux; reflexivity. Qed.
  Lemma unpack2_pack2 aux s : unpack2 (pack2 aux s) = Some (aux, s).
  Proof. destruct aux, s; reflexivity. Qed.

  (* ---------------------------------------------------------------- LumpedConstituentRouting *)
  Definition lumped_zip (ins : list (list T)) : option (list lumped_in) :=
    match ins with
    | [il; ll; o; s] => Some (lumped_rows il (Some ll) o s)
    | _ => None
    end.
  Lemma lumped_zip_laws : zip_laws lumped_zip.
  Proof. zl_custom ltac:(unfold lumped_rows, zip4, zip3). Qed.

  Theorem lumped_constituent_routing_kernel_hc (p : list T) : hc_spec (lumped_constituent_routing_kernel p).
  Proof.
    destruct p as [|x [|pointInput [|deltaT [|? ?]]]]; try exact hc_none.
    eapply hc_ext; [|apply (hc_machine_simple unpack1 lumped_zip
        (fun _ => lumped_step pointInput deltaT) pack1
        (fun os => [map lo_outflowLoad os; map lo_pointSourceLoad os]));
        [apply lumped_zip_laws| |apply unpack1_pack1]].
    - intros s ins. unfold lumped_constituent_routing_kernel, kernel_of_machine, unpack1, lumped_zip, lumped_transport.
      destruct s as [|m [|? ?]]; try reflexivity.
      destruct ins as [|a [|b [|c [|d [|? ?]]]]]; try reflexivity.
    - rows_map_tac.
  Qed.

  (* ---------------------------------------------------------------- ConstituentDecay *)
  Definition decay_zip (ins : list (list T)) : option (list decay_in) :=
    match ins with
    | [a; b; c; d; e] => Some (decay_rows a b c d e)
    | _ => None
    end.
  Lemma decay_zip_laws : zip_laws decay_zip.
  Proof. zl_custom ltac:(unfold decay_rows, zip5, zip4, zip3). Qed.

  Theorem constituent_decay_kernel_hc (p : list T) : hc_spec (constituent_decay_kernel p).
  Proof.
    destruct p as [|x [|halfLife [|deltaT [|? ?]]]]; try exact hc_none.
    eapply hc_ext; [|apply (hc_machine_simple unpack1 decay_zip
        (fun _ => decay_step halfLife deltaT) pack1
        (fun os => [map do_decayedLoad os; map do_outflowLoad os]));
        [apply decay_zip_laws| |apply unpack1_pack1]].
    - intros s ins. unfold constituent_decay_kernel, kernel_of_machine, unpack1, decay_zip.
      destruct s as [|m [|? ?]]; try reflexivity.
      destruct ins as [|a [|b [|c [|d [|e [|? ?]]]]]]; try reflexivity.
    - rows_map_tac.
  Qed.

  (* ---------------------------------------------------------------- InstreamCoarseSediment *)
  Theorem instream_coarse_sediment_kernel_hc (p : list T) : hc_spec (instream_coarse_sediment_kernel p).
  Proof.
    destruct p as [|deltaT [|? ?]]; try exact hc_none.
    eapply hc_ext; [|apply (hc_machine_simple unpack2 lz3
        (fun _ => coarse_step deltaT) pack2 (fun os : list T => [os]));
        [apply lz3_laws| |apply unpack2_pack2]].
    - intros s ins. unfold instream_coarse_sediment_kernel, kernel_of_machine, unpack2, lz3, zip3.
      destruct s as [|c [|m [|? ?]]]; try reflexivity.
      destruct ins as [|a [|b [|d [|? ?]]]]; try reflexivity.
      destruct (run _ _ _) as [[c' s'] os]. reflexivity.
    - constructor; intros; reflexivity.
  Qed.

  (* ---------------------------------------------------------------- InstreamParticulateNutrient *)
  Definition pn_zip (ins : list (list T)) : option (list pn_in) :=
    match ins with
    | [a; b; c; d; e; f; g; h] => Some (pn_rows a b c d e f g h)
    | _ => None
    end.
  Lemma pn_zip_laws : zip_laws pn_zip.
  Proof. zl_custom ltac:(unfold pn_rows, zip8, zip5, zip4, zip3). Qed.

  Theorem instream_particulate_nutrient_kernel_hc (p : list T) :
    hc_spec (instream_particulate_nutrient_kernel p).
  Proof.
    destruct p as [|pnc [|spf [|dt [|? ?]]]]; try exact hc_none.
    eapply hc_ext; [|apply (hc_machine_simple unpack2 pn_zip
        (fun _ => pn_step pnc spf dt) pack2
        (fun os => [map po_loadDeposited os; map po_loadFromStreambank os; map po_loadDownstream os;
                    map po_loadToFloodplain os]));
        [apply pn_zip_laws| |apply unpack2_pack2]].
    - intros s ins. unfold instream_particulate_nutrient_kernel, kernel_of_machine, unpack2, pn_zip.
      destruct s as [|i [|c [|? ?]]]; try reflexivity.
      destruct ins as [|a [|b [|c' [|d [|e [|f [|g [|h [|? ?]]]]]]]]]; try reflexivity.
      destruct (run _ _ _) as [[i' c''] os]. reflexivity.
    - rows_map_tac.
  Qed.

  (* ---------------------------------------------------------------- StorageParticulateTrapping *)
  Definition trap_zip (ins : list (list T)) : option (list trap_in) :=
    match ins with
    | [a; b; c; d] => Some (trap_rows a b c d)
    | _ => None
    end.
  Lemma trap_zip_laws : zip_laws trap_zip.
  Proof. zl_custom ltac:(unfold trap_rows, zip4, zip3). Qed.

  Theorem storage_particulate_trapping_kernel_hc (p : list T) :
    hc_spec (storage_particulate_trapping_kernel p).
  Proof.
    destruct p as [|dt [|cap [|len [|sub [|mult [|ldf [|ldp [|? ?]]]]]]]]; try exact hc_none.
    eapply hc_ext; [|apply (hc_machine_simple unpack1 trap_zip
        (fun _ => trap_step (mk_trap_params dt cap len sub mult ldf ldp)) pack1
        (fun os => [map to_trappedMass os; map to_outflowLoad os]));
        [apply trap_zip_laws| |apply unpack1_pack1]].
    - intros s ins. unfold storage_particulate_trapping_kernel, kernel_of_machine, unpack1, trap_zip.
      destruct s as [|m [|? ?]]; try reflexivity.
      destruct ins as [|a [|b [|c [|d [|? ?]]]]]; try reflexivity.
    - rows_map_tac.
  Qed.

  (* ---------------------------------------------------------------- StorageDissolvedDecay *)
  (** the second input (inflow) is not used by either branch *)
  Definition dd_nodecay_zip (ins : list (list T)) : option (list lumped_in) :=
    match ins with
    | [im; _; o; v] => Some (lumped_rows im None o v)
    | _ => None
    end.
  Lemma dd_nodecay_zip_laws : zip_laws dd_nodecay_zip.
  Proof. zl_custom ltac:(unfold lumped_rows, zeros, zip4, zip3). Qed.
  Definition dd_decay_zip (ins : list (list T)) : option (list (T * T * T)) :=
    match ins with
    | [im; _; o; v] => Some (zip3 im o v)
    | _ => None
    end.
  Lemma dd_decay_zip_laws : zip_laws dd_decay_zip.
  Proof. zl_custom ltac:(unfold zip3). Qed.

  Theorem storage_dissolved_decay_kernel_hc (p : list T) : hc_spec (storage_dissolved_decay_kernel p).
  Proof.
    destruct p as [|deltaT [|doDecay [|ari [|bff [|mfrt [|? ?]]]]]]; try exact hc_none.
    destruct (doDecay <? of_q 1 2) eqn:E.
    - eapply hc_ext; [|apply (hc_machine_simple unpack1 dd_nodecay_zip
          (fun _ => lumped_step zero deltaT) pack1
          (fun os => [zeros os; map lo_outflowLoad os]));
          [apply dd_nodecay_zip_laws| |apply unpack1_pack1]].
      + intros s ins. unfold storage_dissolved_decay_kernel, kernel_of_machine, unpack1, dd_nodecay_zip,
          dissolved_nodecay, lumped_transport.
        destruct s as [|m [|? ?]]; try reflexivity.
        destruct ins as [|a [|b [|c [|d [|? ?]]]]]; try reflexivity.
        rewrite E. reflexivity.
      + rows_map_tac.
    - eapply hc_ext; [|apply (hc_machine_simple unpack1 dd_decay_zip
          (fun _ => dissolved_decay_step deltaT bff mfrt) pack1
          (fun os => [map fst os; map snd os]));
          [apply dd_decay_zip_laws| |apply unpack1_pack1]].
      + intros s ins. unfold storage_dissolved_decay_kernel, kernel_of_machine, unpack1, dd_decay_zip.
        destruct s as [|m [|? ?]]; try reflexivity.
        destruct ins as [|a [|b [|c [|d [|? ?]]]]]; try reflexivity.
        rewrite E. reflexivity.
      + rows_map_tac.
  Qed.

  (* ---------------------------------------------------------------- InstreamFineSediment *)
  (** bankFullFlow <= 1e-8: LumpedConstituentTransport on upstream + (lateral +
      reach-local) mass; the channel store is handed back untouched *)
  Definition fine_zip (ins : list (list T)) : option (list fine_in) :=
    match ins with
    | [a; b; c; d; e] => Some (fine_rows a b c d e)
    | _ => None
    end.
  Lemma fine_zip_laws : zip_laws fine_zip.
  Proof. zl_custom ltac:(unfold fine_rows, zip5, zip4, zip3). Qed.

  Definition fine_low_unpack (st : list T) : option (T * T) :=
    match st with [c; m] => Some (c, m) | _ => None end.
  Definition fine_low_pack (c m : T) : list T := [c; m].

  Definition fine_unpack (p : fine_params) (st : list T) : option (unit * (T * T)) :=
    match st with [c; m] => Some (tt, (fine_init_store p c, m)) | _ => None end.

  Definition fine_outs (os : list fine_out) : list (list T) :=
    [map fo_loadDownstream os; map fo_loadToFloodplain os; map fo_loadToChannelDeposition os;
     map fo_floodplainDepositionFraction os; map fo_channelDepositionFraction os].
  Lemma fine_outs_laws : rows_laws fine_outs.
  Proof. unfold fine_outs. rows_map_tac. Qed.

  Definition fine_params_of (p : list T) : option fine_params :=
    match p with
    | [bff; vflood; fpa; lw; ll; ls; bh; pbh; sbd; mn; vs; vr; dt] =>
        Some (mk_fine_params bff vflood fpa lw ll ls bh pbh sbd mn vs vr dt)
    | _ => None
    end.

  (** the kernel as one of two machines *)
  Lemma instream_fine_sediment_kernel_eq (p : list T) :
    forall s ins, instream_fine_sediment_kernel p s ins =
    match fine_params_of p with
    | None => None
    | Some fp =>
        if fp_bankFullFlow fp <=? FS_BANKFULL_EPS then
          kernel_of_machine fine_low_unpack fine_zip
            (fun _ => fine_lowbank_step fp) (fun _ => true) fine_low_pack
            (fun os => Some [map lo_outflowLoad os; zeros os; zeros os; zeros os; zeros os]) s ins
        else
          kernel_of_machine (fine_unpack fp) fine_zip (fun _ => fine_step fp) (fun _ => true) pack2
            (fun os => Some (fine_outs os)) s ins
    end.
  Proof.
    intros s ins.
    destruct p as [|bff [|vflood [|fpa [|lw [|ll [|ls [|bh [|pbh [|sbd [|mn [|vs [|vr [|dt [|? ?]]]]]]]]]]]]]];
      try reflexivity.
    cbn [fine_params_of fp_bankFullFlow fp_durationInSeconds].
    unfold instream_fine_sediment_kernel, kernel_of_machine.
    destruct s as [|c [|m [|? ?]]]; try (destruct (_ <=? _); reflexivity).
    destruct ins as [|a [|b [|c' [|d [|e [|? ?]]]]]]; try (destruct (_ <=? _); reflexivity).
    destruct (bff <=? FS_BANKFULL_EPS).
    - unfold fine_lowbank, fine_low_unpack, fine_zip.
      match goal with |- context [run ?f ?s ?x] => destruct (run f s x) as [s' os] end. reflexivity.
    - unfold fine_unpack, fine_zip.
      match goal with |- context [run ?f ?s ?x] => destruct (run f s x) as [[c'' s'] os] end. reflexivity.
  Qed.

  Theorem instream_fine_sediment_kernel_causal (p : list T) : causal_spec (instream_fine_sediment_kernel p).
  Proof.
    eapply causal_spec_ext; [apply instream_fine_sediment_kernel_eq|].
    destruct (fine_params_of p) as [fp|]; [|apply causal_spec_none].
    destruct (_ <=? _).
    - apply kernel_of_machine_causal; [apply fine_zip_laws|apply rows_outs_laws; rows_map_tac].
    - apply kernel_of_machine_causal; [apply fine_zip_laws|apply rows_outs_laws, fine_outs_laws].
  Qed.

  Theorem instream_fine_sediment_lowbank_split (p : list T) fp :
    fine_params_of p = Some fp -> (fp_bankFullFlow fp <=? FS_BANKFULL_EPS) = true ->
    split_spec (instream_fine_sediment_kernel p).
  Proof.
    intros Ep Eb. eapply split_spec_ext; [apply instream_fine_sediment_kernel_eq|]. rewrite Ep, Eb.
    apply (hc_machine_simple fine_low_unpack fine_zip _ fine_low_pack
             (fun os => [map lo_outflowLoad os; zeros os; zeros os; zeros os; zeros os])).
    - apply fine_zip_laws.
    - rows_map_tac.
    - intros c m. reflexivity.
  Qed.

  (** the cut is exact whenever the channel store handed over at the cut is not
      negative (a negative value would be decoded as a fraction of the maximum
      storage by the next call) *)
  Theorem instream_fine_sediment_kernel_split_partial (p s0 : list T) ins n :
    (forall o1 c1 m1, instream_fine_sediment_kernel p s0 (firsts n ins) = Some (o1, [c1; m1]) ->
                      (c1 <? zero) = false) ->
    split_at (instream_fine_sediment_kernel p) s0 ins n.
  Proof.
    intros Hc.
    destruct (fine_params_of p) as [fp|] eqn:Ep.
    2:{ unfold split_at, split_then. rewrite !instream_fine_sediment_kernel_eq, Ep. reflexivity. }
    destruct (fp_bankFullFlow fp <=? FS_BANKFULL_EPS) eqn:Eb.
    { apply (instream_fine_sediment_lowbank_split p fp Ep Eb). }
    assert (E : forall s i, instream_fine_sediment_kernel p s i =
              kernel_of_machine (fine_unpack fp) fine_zip (fun _ => fine_step fp) (fun _ => true) pack2
                (fun os => Some (fine_outs os)) s i).
    { intros s i. rewrite instream_fine_sediment_kernel_eq, Ep, Eb. reflexivity. }
    apply (split_at_ext _ _ s0 ins n E).
    apply (kernel_of_machine_split_at (fine_unpack fp) fine_zip (fun _ => fine_step fp) (fun _ => true)
               pack2 (fun os => Some (fine_outs os)) fine_zip_laws (rows_outs_laws _ fine_outs_laws)
               ltac:(intros; discriminate) (fun _ a b => a = b)).
    - intros aux a b x ->. split; reflexivity.
    - intros aux a b ->. reflexivity.
    - intros aux a b ->. reflexivity.
    - intros aux st xs Eu Ez s1 _. exists s1. split; [|reflexivity].
      specialize (Hc (fine_outs (snd (run (fine_step fp) st (firstn n xs)))) (fst s1) (snd s1)).
      rewrite E in Hc. unfold kernel_of_machine in Hc. rewrite Eu, (zl_firsts _ fine_zip_laws ins n xs Ez) in Hc.
      subst s1. destruct (run (fine_step fp) st (firstn n xs)) as [[c1 m1] os]. cbn in Hc |- *.
      specialize (Hc eq_refl). destruct aux. unfold fine_unpack, pack2, fine_init_store. cbn. now rewrite Hc.
  Qed.

  (* ---------------------------------------------------------------- StorageTrapAll *)
  Definition trapall_zip (ins : list (list T)) : option (list T) :=
    match ins with [a; _; _; _] => Some a | _ => None end.
  Lemma trapall_zip_laws : zip_laws trapall_zip.
  Proof. zl_custom idtac. Qed.
  Definition trapall_unpack (st : list T) : option (unit * option T) :=
    match st with [m] => Some (tt, Some m) | _ => None end.

  Definition trapall_outs (os : list T) : list (list T) := [os; zeros os].
  Lemma trapall_outs_laws : rows_laws trapall_outs.
  Proof. unfold trapall_outs. rows_map_tac. Qed.

  Definition trapall_machine : kern T :=
    kernel_of_machine trapall_unpack trapall_zip (fun _ => trapall_step) (fun _ => true)
      (fun _ s => [trapall_pack s]) (fun os => Some (trapall_outs os)).

  (** since fix b73cc97 an empty series is accepted (state carried unchanged): no guard *)
  Lemma storage_trap_all_kernel_eq (p : list T) : forall s ins,
    storage_trap_all_kernel p s ins =
    match p with
    | [] => trapall_machine s ins
    | _ => None
    end.
  Proof.
    intros s ins. destruct p as [|? ?]; [|reflexivity].
    unfold storage_trap_all_kernel, trapall_machine, kernel_of_machine, trapall_unpack, trapall_zip.
    destruct s as [|m [|? ?]]; try (destruct ins as [|? ?]; reflexivity).
    destruct ins as [|a [|b [|c [|d [|? ?]]]]]; reflexivity.
  Qed.

  Theorem storage_trap_all_kernel_causal (p : list T) : causal_spec (storage_trap_all_kernel p).
  Proof.
    destruct p as [|? ?]; [|apply causal_spec_none].
    eapply causal_spec_ext; [intros s i; apply (storage_trap_all_kernel_eq [])|].
    apply kernel_of_machine_causal; [apply trapall_zip_laws|apply rows_outs_laws, trapall_outs_laws].
  Qed.

  (** loop states the later steps and the packing cannot tell apart when x + 0 = x:
      [None] (after a step; packs to 0) and [Some 0] (what unpacking that 0 gives) *)
  Definition trapall_sim (a b : option T) : Prop := a = b \/ (a = None /\ b = Some zero).

  (** every cut, including empty segments (n = 0, n >= length, empty series) *)
  Theorem storage_trap_all_kernel_split_partial (p s0 : list T) ins n :
    (forall x : T, x + zero = x) ->
    split_at (storage_trap_all_kernel p) s0 ins n.
  Proof.
    intros Hadd.
    destruct p as [|? ?]; [|reflexivity].
    assert (M : split_at trapall_machine s0 ins n).
    { apply (kernel_of_machine_split_at trapall_unpack trapall_zip (fun _ => trapall_step) (fun _ => true)
               (fun _ s => [trapall_pack s]) (fun os => Some (trapall_outs os)) trapall_zip_laws
               (rows_outs_laws _ trapall_outs_laws) ltac:(intros; discriminate) (fun _ => trapall_sim)).
      - intros aux u v x [->|[-> ->]]; [split; [left|]; reflexivity|].
        cbn. split; [left; reflexivity|]. now rewrite Hadd.
      - intros; reflexivity.
      - intros aux a b [->|[-> ->]]; reflexivity.
      - intros aux st xs Eu Ez s1 _. destruct aux.
        destruct s1 as [m|].
        + exists (Some m). split; [reflexivity|left; reflexivity].
        + exists (Some zero). split; [reflexivity|right; split; reflexivity]. }
    unfold split_at, split_then in *. rewrite !storage_trap_all_kernel_eq, M.
    destruct (trapall_machine s0 (firsts n ins)) as [[o1 s1]|]; [|reflexivity].
    now rewrite storage_trap_all_kernel_eq.
  Qed.

  (* ---------------------------------------------------------------- InstreamDissolvedNutrientDecay *)
  (** the fifth input (floodplainDepositionFraction) is not used *)
  Definition dn_low_zip (ins : list (list T)) : option (list lumped_in) :=
    match ins with
    | [up; lat; vol; outflow; _] => Some (lumped_rows up (Some lat) outflow vol)
    | _ => None
    end.
  Lemma dn_low_zip_laws : zip_laws dn_low_zip.
  Proof. zl_custom ltac:(unfold lumped_rows, zip4, zip3). Qed.

  Definition dn_nodecay_machine (pointSourceLoad dt : T) : kern T :=
    kernel_of_machine unpack1 dn_low_zip
      (fun _ => lumped_step (pointSourceLoad / DN_SECONDS_PER_YEAR) dt) (fun _ => true) pack1
      (fun os => Some [zeros os; map lo_outflowLoad os; zeros os; map lo_pointSourceLoad os]).

  Definition dn_params_of (p : list T) : option (T * T * dn_params) :=
    match p with
    | [doDecay; pointSourceLoad; lh; lw; ll; uv; dt] =>
        Some (doDecay, pointSourceLoad, mk_dn_params (pointSourceLoad / DN_SECONDS_PER_YEAR) lh lw ll uv dt)
    | _ => None
    end.

  (** since fix b73cc97 an empty series is accepted (state carried unchanged): no guard *)
  Lemma dn_kernel_nodecay_eq (p : list T) doDecay psl dp :
    dn_params_of p = Some (doDecay, psl, dp) -> (doDecay <? of_q 1 2) = true ->
    forall s ins, instream_dissolved_nutrient_decay_kernel p s ins =
                  dn_nodecay_machine psl (dn_durationInSeconds dp) s ins.
  Proof.
    intros Ep Ed s ins.
    destruct p as [|d0 [|psl0 [|lh [|lw [|ll [|uv [|dt [|? ?]]]]]]]]; try discriminate.
    cbn in Ep. injection Ep as <- <- <-. cbn [dn_durationInSeconds].
    unfold instream_dissolved_nutrient_decay_kernel, dn_nodecay_machine, kernel_of_machine, unpack1, dn_low_zip,
      lumped_transport.
    destruct s as [|m [|? ?]].
    - destruct ins as [|a [|b [|c [|d [|e [|? ?]]]]]]; reflexivity.
    - destruct ins as [|a [|b [|c [|d [|e [|? ?]]]]]]; try reflexivity.
      rewrite Ed. reflexivity.
    - destruct ins as [|a [|b [|c [|d [|e [|? ?]]]]]]; reflexivity.
  Qed.

  (** every cut, including empty segments *)
  Theorem instream_dissolved_nutrient_nodecay_split_partial (p s0 : list T) ins n doDecay psl dp :
    dn_params_of p = Some (doDecay, psl, dp) -> (doDecay <? of_q 1 2) = true ->
    split_at (instream_dissolved_nutrient_decay_kernel p) s0 ins n.
  Proof.
    intros Ep Ed.
    pose proof (dn_kernel_nodecay_eq p doDecay psl dp Ep Ed) as E.
    assert (M : split_spec (dn_nodecay_machine psl (dn_durationInSeconds dp))).
    { apply (hc_machine_simple unpack1 dn_low_zip _ pack1
               (fun os => [zeros os; map lo_outflowLoad os; zeros os; map lo_pointSourceLoad os])).
      - apply dn_low_zip_laws.
      - rows_map_tac.
      - apply unpack1_pack1. }
    specialize (M s0 ins n). unfold split_at, split_then in *. rewrite !E, M.
    destruct (dn_nodecay_machine psl (dn_durationInSeconds dp) s0 (firsts n ins)) as [[o1 s1]|]; [|reflexivity].
    now rewrite E.
  Qed.

  (** decay ON: the loop state is (storedMass, previous reach volume), and the
      previous volume starts from the FIRST reach volume of the call's own
      series: that is why a split run differs (refuted in HotStartWitness.v).
      Causality holds: *)
  Theorem instream_dissolved_nutrient_decay_kernel_causal (p : list T) :
    causal_spec (instream_dissolved_nutrient_decay_kernel p).
  Proof.
    destruct (dn_params_of p) as [[[doDecay psl] dp]|] eqn:Ep.
    2:{ intros s0 ins ins' t o sT o' sT' _ E1.
        destruct p as [|d0 [|psl0 [|lh [|lw [|ll [|uv [|dt [|? ?]]]]]]]]; try discriminate. }
    destruct (doDecay <? of_q 1 2) eqn:Ed.
    { eapply causal_spec_ext; [apply (dn_kernel_nodecay_eq p doDecay psl dp Ep Ed)|].
      apply kernel_of_machine_causal; [apply dn_low_zip_laws|apply rows_outs_laws; rows_map_tac]. }
    destruct p as [|d0 [|psl0 [|lh [|lw [|ll [|uv [|dt [|? ?]]]]]]]]; try discriminate.
    cbn in Ep. injection Ep as <- <- <-.
    intros s0 ins ins' t o sT o' sT' Hf E1 E2.
    unfold instream_dissolved_nutrient_decay_kernel in E1, E2.
    destruct s0 as [|m [|? ?]]; try discriminate.
    destruct ins as [|up [|lat [|vol [|outflow [|fpf [|? ?]]]]]]; try discriminate.
    destruct ins' as [|up' [|lat' [|vol' [|outflow' [|fpf' [|? ?]]]]]]; try discriminate.
    rewrite Ed in E1, E2.
    set (dp := mk_dn_params _ _ _ _ _ _) in *.
    destruct t as [|t].
    { destruct (run (dn_decay_step dp) _ _) as [[s' ?] os].
      destruct (run (dn_decay_step dp) _ _) as [[s'' ?] os'].
      injection E1 as <- _. injection E2 as <- _. reflexivity. }
    unfold firsts in Hf. cbn [map] in Hf.
    assert (H1 : firstn (S t) up = firstn (S t) up') by congruence.
    assert (H2 : firstn (S t) lat = firstn (S t) lat') by congruence.
    assert (H3 : firstn (S t) vol = firstn (S t) vol') by congruence.
    assert (H4 : firstn (S t) outflow = firstn (S t) outflow') by congruence.
    (* the first reach volume (the initial prevVolume) is part of the common prefix *)
    assert (Ev : match vol with [] => zero | v :: _ => v end = match vol' with [] => zero | v :: _ => v end).
    { destruct vol as [|v0 vol], vol' as [|v0' vol']; cbn in H3; try discriminate; [reflexivity|congruence]. }
    rewrite <- Ev in E2.
    set (v0 := match vol with [] => zero | v :: _ => v end) in *.
    assert (Hx : firstn (S t) (dn_rows up lat vol outflow) = firstn (S t) (dn_rows up' lat' vol' outflow')).
    { unfold dn_rows, zip4, zip3. rewrite !firstn_map_comm, !firstn_combine, H1, H2, H3, H4. reflexivity. }
    pose proof (run_causal (dn_decay_step dp) (m, v0) _ _ (S t) Hx) as Hc.
    destruct (run (dn_decay_step dp) (m, v0) (dn_rows up lat vol outflow)) as [[s' ?] os].
    destruct (run (dn_decay_step dp) (m, v0) (dn_rows up' lat' vol' outflow')) as [[s'' ?] os'].
    cbn [snd] in Hc. injection E1 as <- _. injection E2 as <- _.
    unfold zeros. cbn [firsts map]. rewrite !firstn_map_comm, Hc. reflexivity.
  Qed.
End S.
