(** C06: concrete refutations of exact hot-start continuity for the kernels
    whose Go code keeps something across time steps that is not a state.

    Each witness is a run of the FAITHFUL kernel at the binary64 instance
    [FArith stub_libm], evaluated by [vm_compute]; so each refutes the statement
    "for every [Arith] instance, [split_spec (kernel p)]", and is the very
    computation the Go code performs: none of the three runs below calls a
    libm function on an argument where the stub differs from the real function
    (Sacramento: no exp/pow/tanh is reached with zero stores and 10 mm of rain;
    InstreamDissolvedNutrientDecay: exp(-0) = 1 = stub; StorageRouting with
    RoutingPower = 1: math.Pow(q, 1) = q = stub).

      sacramento_kernel_split_refuted
          default parameters, empty stores, 10 mm of rain on day 1 only, cut
          after day 1: the impervious runoff 0.1 mm enters the unit-hydrograph
          buffer [qq]; the uninterrupted run releases 0.01 mm of it on day 2,
          the restarted run has an empty buffer and releases nothing.
      instream_dissolved_nutrient_decay_kernel_split_refuted
          doDecay = 1, a 1000 km reach: the travel time depends on the mean of
          the current and the PREVIOUS reach volume; a restarted run takes its
          own first volume as the previous one (66.44 vs 79.4 kg/s decayed).
      storage_routing_kernel_split_refuted
          linear reach (k = dt = 86400, m = 1, bias 0) under a constant inflow of
          10 m3/s for 40 days: near the steady state the uninterrupted run keeps
          accepting the carried index flow (|mass balance| < 1e-3 m3), the run
          restarted at day 35 solves the step afresh: outflow 9.9999999953
          instead of 10, final storage 863999.99960 instead of 863999.99920 m3
          (both within the solver's tolerance 1e-3 m3 of the exact 864000).
      storage_trap_all_kernel_split_float_refuted
          binary64 only: the restarted run adds the returned stored mass 0.0 to
          its first input, which turns an input of -0.0 into +0.0.  (Equal as
          real numbers: storage_trap_all_kernel_split_R.) *)
From Coq Require Import List ZArith Floats Bool.
From OW Require Import Base.Arith Base.FInst Base.Mealy KernelProofs.HotStart.
From OW Require Import Kernels.Sacramento Kernels.InstreamDissolvedNutrient Kernels.StorageRouting Kernels.TrapAll.
Import ListNotations.
Local Open Scope float_scope.

(** stand-in for libm; see the header for why it does not matter here *)
Definition stub_libm : LibM := {|
  l_exp := fun x => 1 + x; l_ln := fun x => x - 1; l_log10 := fun x => x - 1;
  l_tanh := fun x => x; l_cos := fun x => 1;
  l_pow := fun x y => if PrimFloat.eqb y 0 then 1 else x |}.
Definition SA : Arith float := FArith stub_libm.

Definition kres := option (list (list float) * list float).

(** t-th value of the i-th output series *)
Definition out_at (i t : nat) (r : kres) : float :=
  match r with Some (o, _) => nth t (nth i o []) nan | None => nan end.
Definition state_at (i : nat) (r : kres) : float :=
  match r with Some (_, s) => nth i s nan | None => nan end.

(* ---------------------------------------------------------------- Sacramento *)
Definition sac_witness_p : list float :=
  [0x1.47ae147ae147bp-7 (*0.01*); 0x1.999999999999ap-5 (*0.05*); 0x1.3333333333333p-2 (*0.3*); 50; 40; 130; 25; 60;
   0x1.eb851eb851eb8p-5 (*0.06*); 1; 40; 0; 0; 0x1.47ae147ae147bp-7 (*0.01*); 0; 0; 0x1.3333333333333p-2 (*0.3*);
   0x1.999999999999ap-1 (*0.8*); 0x1.999999999999ap-4 (*0.1*); 0x1.999999999999ap-5 (*0.05*);
   0x1.eb851eb851eb8p-6 (*0.03*); 0x1.47ae147ae147bp-6 (*0.02*)].
Definition sac_witness_ins : list (list float) := [[10; 0]; [0; 0]].

Theorem sacramento_kernel_split_refuted :
  exists (A : Arith float) p s0 ins n, ~ split_at (sacramento_kernel (A := A) p) s0 ins n.
Proof.
  exists SA, sac_witness_p, [0; 0; 0; 0; 0; 0], sac_witness_ins, 1%nat.
  unfold split_at. intros H.
  (* runoff of day 2: > 0 in the whole run, 0 after the restart *)
  apply (f_equal (fun r => PrimFloat.ltb 0 (out_at 1 1 r))) in H. vm_compute in H. discriminate.
Qed.

(* ---------------------------------------------------------------- InstreamDissolvedNutrientDecay *)
Definition dn_witness_p : list float := [1; 0; 10; 10; 1000000; 0; 86400].
Definition dn_witness_ins : list (list float) := [[1; 1]; [0; 0]; [1000000; 4000000]; [10; 10]; [0; 0]].

Theorem instream_dissolved_nutrient_decay_kernel_split_refuted :
  exists (A : Arith float) p s0 ins n,
    ~ split_at (instream_dissolved_nutrient_decay_kernel (A := A) p) s0 ins n.
Proof.
  exists SA, dn_witness_p, [100], dn_witness_ins, 1%nat.
  unfold split_at. intros H.
  (* decayedLoad of step 2: 66.44 in the whole run, 79.4 after the restart *)
  apply (f_equal (fun r => PrimFloat.ltb (out_at 0 1 r) 70)) in H. vm_compute in H. discriminate.
Qed.

(* ---------------------------------------------------------------- StorageRouting *)
Definition sr_witness_p : list float := [0; 86400; 1; 0; 0; 86400].
Definition sr_witness_ins : list (list float) := [repeat 10 40; repeat 0 40; repeat 0 40; repeat 0 40].

Theorem storage_routing_kernel_split_refuted :
  exists (A : Arith float) p s0 ins n, ~ split_at (storage_routing_kernel (A := A) p) s0 ins n.
Proof.
  exists SA, sr_witness_p, [0; 0; 0], sr_witness_ins, 35%nat.
  unfold split_at. intros H.
  (* final storage: 863999.99920 in the whole run, 863999.99960 after the restart *)
  apply (f_equal (fun r => PrimFloat.ltb (state_at 0 r) 0x1.a5dffffbe76c9p+19)) in H. vm_compute in H. discriminate.
Qed.

(** ... and the two answers are within the solver's tolerance of each other:
    storage within 1e-3 m3, outflow within 1e-3 m3 / dt *)
Example storage_routing_witness_within_tolerance :
  let w := storage_routing_kernel (A := SA) sr_witness_p [0; 0; 0] sr_witness_ins in
  let s := split_then (storage_routing_kernel (A := SA) sr_witness_p) [0; 0; 0] sr_witness_ins 35 in
  forallb (fun t => PrimFloat.ltb (PrimFloat.abs (out_at 1 t w - out_at 1 t s)) 0x1.0624dd2f1a9fcp-10 &&
                    PrimFloat.ltb (PrimFloat.abs (out_at 0 t w - out_at 0 t s) * 86400) 0x1.0624dd2f1a9fcp-10)
          (seq 0 40) = true.
Proof. vm_compute. reflexivity. Qed.

(* ---------------------------------------------------------------- StorageTrapAll, binary64 only *)
Theorem storage_trap_all_kernel_split_float_refuted :
  exists (A : Arith float) p s0 ins n, ~ split_at (storage_trap_all_kernel (A := A) p) s0 ins n.
Proof.
  exists SA, [], [5], [[1; -0]; [0; 0]; [0; 0]; [0; 0]], 1%nat.
  unfold split_at. intros H.
  (* second trapped mass: -0.0 in the whole run, (-0.0) + 0.0 = +0.0 after the restart *)
  apply (f_equal (fun r => PrimFloat.ltb (1 / out_at 0 1 r) 0)) in H. vm_compute in H. discriminate.
Qed.

(* ---------------------------------------------------------------- non-vacuity *)
From OW Require Import Kernels.Muskingum Kernels.Lag.

(** a Muskingum run that returns, cut at day 2 and at days 1,2,3: same outputs, same final states *)
Example muskingum_split_example :
  let K := muskingum_kernel (A := SA) [43200; 0x1.999999999999ap-3; 86400] in
  let ins := [[1; 2; 3; 4]; [0; 0; 1; 0]] in
  exists o s, K [0; 1; 2] ins = Some (o, s) /\ length (nth 0 o []) = 4%nat /\
              split_then K [0; 1; 2] ins 2 = Some (o, s) /\
              run_cuts K [1; 1; 1]%nat [0; 1; 2] ins = Some (o, s).
Proof. vm_compute. do 2 eexists. repeat split; reflexivity. Qed.

(** a Lag run (lag 2, series of 5) cut after 1 step: the buffer is carried *)
Example lag_split_example :
  let K := lag_kernel (A := SA) [2] in
  exists o s, K [7; 8] [[1; 2; 3; 4; 5]] = Some (o, s) /\ o = [[7; 8; 1; 2; 3]] /\ s = [4; 5] /\
              split_then K [7; 8] [[1; 2; 3; 4; 5]] 1 = Some (o, s).
Proof. vm_compute. do 2 eexists. repeat split; reflexivity. Qed.

(** causality is not vacuous: changing the input at step 3 changes output 3 and leaves outputs 1-2 alone *)
Example muskingum_causal_example :
  let K := muskingum_kernel (A := SA) [43200; 0x1.999999999999ap-3; 86400] in
  let r := K [0; 1; 2] [[1; 2; 3; 4]; [0; 0; 1; 0]] in
  let r' := K [0; 1; 2] [[1; 2; 9; 4]; [0; 0; 1; 0]] in
  PrimFloat.eqb (out_at 0 0 r) (out_at 0 0 r') && PrimFloat.eqb (out_at 0 1 r) (out_at 0 1 r') &&
  negb (PrimFloat.eqb (out_at 0 2 r) (out_at 0 2 r')) = true.
Proof. vm_compute. reflexivity. Qed.
