(** Proofs about Kernels/InstreamFineSediment.v over the reals (C12). *)
From Coq Require Import ZArith Reals Lra List.
From OW Require Import Base.Arith Base.RInst Base.Mealy KernelProofs.Budget
  Kernels.C12Common Kernels.LumpedConstituent KernelProofs.LumpedConstituent
  Kernels.InstreamFineSediment.
Import ListNotations.
Local Open Scope R_scope.

Notation Rfine_step := (@fine_step R RArith).
Notation fine_inR := (@fine_in R).
Notation fine_outR := (@fine_out R).
Notation fine_paramsR := (@fine_params R).

(** stock: fine-sediment channel store + in-stream stored mass *)
Definition fine_stock (s : R * R) : R := fst s + snd s.
Definition fine_inflow (p : fine_paramsR) (x : fine_inR) : R :=
  (fi_upstreamMass x + fi_lateralMass x + fi_reachLocalMass x) * fp_durationInSeconds p.
(** what leaves: downstream (rate * dt), floodplain deposit (kg), flushed (kg) *)
Definition fine_outflow (p : fine_paramsR) (x : fine_inR) (o : fine_outR) : R :=
  fo_loadDownstream o * fp_durationInSeconds p + fo_floodplainDeposit o + fo_flushed o.

(** ** per-step mass balance of the main loop: every branch, no hypotheses *)
Lemma fine_step_budget p s x :
  fine_stock s + fine_inflow p x =
  fine_stock (fst (Rfine_step p s x)) + fine_outflow p x (snd (Rfine_step p s x)).
Proof.
  destruct s as [c m].
  unfold fine_step, fine_stock, fine_inflow, fine_outflow. runfold.
  match goal with |- context [Rltb 0 ?tv] =>
    match tv with (fi_reachVolume x + _) => rcase_bool (Rltb 0 tv) end end; cbn.
  - field. lra.
  - lra.
Qed.

(** the same with the in-stream store alone: the reported net channel deposition
    (kg per step, negative = remobilisation) is a sink *)
Lemma fine_step_budget_instream p c m x :
  m + fine_inflow p x =
  snd (fst (Rfine_step p (c, m) x)) + fine_outflow p x (snd (Rfine_step p (c, m) x))
  + fo_loadToChannelDeposition (snd (Rfine_step p (c, m) x)).
Proof.
  unfold fine_step, fine_inflow, fine_outflow. runfold.
  match goal with |- context [Rltb 0 ?tv] =>
    match tv with (fi_reachVolume x + _) => rcase_bool (Rltb 0 tv) end end; cbn.
  - field. lra.
  - lra.
Qed.

(** reported deposition = change of the channel store; ghost fields *)
Lemma fine_step_store p c m x :
  fst (fst (Rfine_step p (c, m) x)) = c + fo_loadToChannelDeposition (snd (Rfine_step p (c, m) x)) /\
  fo_channelStoreBefore (snd (Rfine_step p (c, m) x)) = c /\
  fo_totalVolume (snd (Rfine_step p (c, m) x)) = fi_reachVolume x + fi_outflow x * fp_durationInSeconds p.
Proof.
  unfold fine_step. runfold.
  match goal with |- context [Rltb 0 ?tv] =>
    match tv with (fi_reachVolume x + _) => rcase_bool (Rltb 0 tv) end end; cbn; auto.
Qed.

Lemma fine_step_floodplain_rate p s x : fp_durationInSeconds p <> 0 ->
  fo_loadToFloodplain (snd (Rfine_step p s x)) * fp_durationInSeconds p =
  fo_floodplainDeposit (snd (Rfine_step p s x)).
Proof.
  intros Hdt. destruct s as [c m]. unfold fine_step. runfold.
  match goal with |- context [Rltb 0 ?tv] =>
    match tv with (fi_reachVolume x + _) => rcase_bool (Rltb 0 tv) end end; cbn; field; assumption.
Qed.

(** mass is discarded only when the total water volume is not positive (so, below MINIMUM_VOLUME) *)
Lemma fine_step_flush p s x :
  fo_flushed (snd (Rfine_step p s x)) <> 0 ->
  fo_totalVolume (snd (Rfine_step p s x)) <= 0 /\ fo_totalVolume (snd (Rfine_step p s x)) < 1 / 100.
Proof.
  destruct s as [c m]. unfold fine_step. runfold.
  match goal with |- context [Rltb 0 ?tv] =>
    match tv with (fi_reachVolume x + _) => rcase_bool (Rltb 0 tv) end end; cbn; intros H.
  - contradiction H; reflexivity.
  - lra.
Qed.

(** ** bounds of the two deposition functions *)
Lemma Rpow_nonneg x y : 0 <= Rpow x y.
Proof.
  unfold Rpow. destruct (Req_EM_T y 0); [lra|]. destruct (Req_EM_T x 0); [lra|].
  left. unfold Rpower. apply exp_pos.
Qed.
Lemma Rpow_pos x y : x <> 0 -> 0 < Rpow x y.
Proof.
  intros Hx. unfold Rpow. destruct (Req_EM_T y 0); [lra|]. destruct (Req_EM_T x 0); [contradiction|].
  unfold Rpower. apply exp_pos.
Qed.

Lemma fine_STC_nonneg q S w n v : 0 < v -> w <> 0 -> n <> 0 -> 0 <= @fine_STC R RArith q S w n v.
Proof.
  intros Hv Hw Hn. unfold fine_STC, FS_SECONDS_PER_DAY. runfold.
  apply Rmult_le_pos; [|lra].
  apply Rmult_le_pos.
  - apply Rmult_le_pos; [lra|]. apply Rmult_le_pos; apply Rpow_nonneg.
  - left. apply Rinv_0_lt_compat.
    apply Rmult_lt_0_compat; [apply Rmult_lt_0_compat; [assumption|]|]; apply Rpow_pos; assumption.
Qed.

(** floodplain deposit is between 0 and the mass present *)
Lemma floodplain_bounds q M bff v A :
  0 <= M -> 0 <= q -> 0 <= bff -> 0 <= v -> 0 <= A ->
  0 <= @floodPlainDepositionEmperical R RArith q M bff v A <= M.
Proof.
  intros HM Hq Hb Hv HA. unfold floodPlainDepositionEmperical. runfold.
  rcase_bool (Rleb q bff); cbn [orb]; [lra|].
  rcase_bool (Reqb bff 0); [lra|].
  assert (Hq0 : 0 < q) by lra.
  set (Qf := q - bff). assert (HQp : 0 < Qf) by (unfold Qf; lra).
  set (e := IZR (-1) * (v * A / Qf)).
  set (dep := M * (Qf / q) * (1 - exp e)).
  assert (Hdep : 0 <= dep <= M).
  { assert (He : e <= 0).
    { unfold e. assert (0 <= v * A / Qf).
      { apply Rmult_le_pos; [apply Rmult_le_pos; assumption | left; apply Rinv_0_lt_compat; assumption]. }
      lra. }
    assert (Hexp : 0 < exp e <= 1).
    { split; [apply exp_pos|]. rewrite <- exp_0. destruct He as [He|He]; [left; apply exp_increasing; exact He | rewrite He; lra]. }
    assert (Hffp : 0 <= Qf / q <= 1).
    { split; [apply Rmult_le_pos; [lra | left; apply Rinv_0_lt_compat; assumption]|].
      apply (Rmult_le_reg_r q); [assumption|]. unfold Rdiv. rewrite Rmult_assoc, Rinv_l by lra. unfold Qf. lra. }
    unfold dep. split.
    + apply Rmult_le_pos; [apply Rmult_le_pos; lra | lra].
    + assert (M * (Qf / q) <= M) by (rewrite <- (Rmult_1_r M) at 2; apply Rmult_le_compat_l; lra).
      assert (0 <= M * (Qf / q)) by (apply Rmult_le_pos; lra).
      rewrite <- (Rmult_1_r M) at 2.
      apply Rle_trans with (M * (Qf / q) * 1); [apply Rmult_le_compat_l; lra | lra]. }
  rcase_bool (Rltb M dep); lra.
Qed.

(** No division by zero is reached in the floodplain function: at or below bank-full
    (in particular at outflow = bankFullFlow, where the flood flow Qf is 0) it returns 0
    before dividing; above bank-full both divisors, Qf and the outflow, are positive. *)
Lemma floodplain_no_division_by_zero q M bff v A :
  (q <= bff -> @floodPlainDepositionEmperical R RArith q M bff v A = 0) /\
  (bff < q -> 0 <= bff -> 0 < q - bff /\ 0 < q).
Proof.
  split.
  - intros H. unfold floodPlainDepositionEmperical. runfold.
    assert (E : Rleb q bff = true) by (apply Rleb_true; exact H). rewrite E. reflexivity.
  - intros; lra.
Qed.

(** net channel deposition: never more than the mass present, and a
    remobilisation never more than the channel store *)
Lemma inChannel_bounds q TV M c w S n vs vr maxS :
  0 <= M -> 0 <= c -> 0 <= maxS -> 0 < vs -> 0 < vr -> w <> 0 -> n <> 0 ->
  - c <= @inChannelStorage R RArith q TV M c w S n vs vr maxS <= M.
Proof.
  intros HM Hc Hmax Hvs Hvr Hw Hn. unfold inChannelStorage. runfold.
  rcase_bool (Rleb TV 0); [lra|].
  pose proof (fine_STC_nonneg (q * 1) S w n vs Hvs Hw Hn) as HD.
  pose proof (fine_STC_nonneg (q * 1) S w n vr Hvr Hw Hn) as HB.
  set (D := @fine_STC R RArith (q * 1) S w n vs) in *.
  set (B := @fine_STC R RArith (q * 1) S w n vr) in *.
  unfold FS_KG_TO_TONNES, FS_TONNES_TO_KG. runfold.
  rcase_bool (Rltb D (1 * (M * (1 / 1000)))).
  - unfold Rmin. destruct (Rle_dec _ _); lra.
  - rcase_bool (Rltb (1 * (M * (1 / 1000))) B); [|lra].
    unfold Rmin. destruct (Rle_dec _ _); lra.
Qed.

(** ** parameters in range, non-negative inputs *)
Definition fine_params_ok (p : fine_paramsR) : Prop :=
  0 <= fp_bankFullFlow p /\ 0 <= fp_fineSedSettVelocityFlood p /\ 0 <= fp_floodPlainArea p /\
  0 < fp_linkWidth p /\ 0 <= fp_linkLength p /\ 0 < fp_manningsN p /\
  0 <= fp_bankHeight p /\ 0 <= fp_propBankHeightForFineDep p /\ 0 <= fp_sedBulkDensity p /\
  0 < fp_fineSedSettVelocity p /\ 0 < fp_fineSedReMobVelocity p /\ 0 <= fp_durationInSeconds p.

Definition fine_in_nonneg (x : fine_inR) : Prop :=
  0 <= fi_upstreamMass x /\ 0 <= fi_lateralMass x /\ 0 <= fi_reachLocalMass x /\
  0 <= fi_reachVolume x /\ 0 <= fi_outflow x.

Lemma fine_maxStorage_nonneg p : fine_params_ok p -> 0 <= @fine_maxStorage R RArith p.
Proof.
  intros (H1 & H2 & H3 & H4 & H5 & H6 & H7 & H8 & H9 & _).
  unfold fine_maxStorage, FS_TONNES_TO_KG. runfold.
  repeat apply Rmult_le_pos; lra.
Qed.

(** the negative "proportion of maxStorage" encoding of the initial store decodes to a non-negative mass *)
Lemma fine_init_store_nonneg p c : fine_params_ok p -> 0 <= @fine_init_store R RArith p c.
Proof.
  intros Hp. unfold fine_init_store. runfold.
  rcase_bool (Rltb c 0); [|lra].
  apply Rmult_le_pos; [apply Rabs_pos | apply fine_maxStorage_nonneg; assumption].
Qed.

(** non-negativity of both stores and of every load, and the remobilisation bound, for one step *)
Lemma fine_step_nonneg p s x :
  fine_params_ok p -> 0 <= fst s -> 0 <= snd s -> fine_in_nonneg x ->
  let r := Rfine_step p s x in
  0 <= fst (fst r) /\ 0 <= snd (fst r) /\
  0 <= fo_loadDownstream (snd r) /\ 0 <= fo_floodplainDeposit (snd r) /\ 0 <= fo_flushed (snd r) /\
  - fo_loadToChannelDeposition (snd r) <= fo_channelStoreBefore (snd r).
Proof.
  intros Hp Hc Hm (H1 & H2 & H3 & H4 & H5). destruct s as [c m]. cbn in Hc, Hm.
  pose proof (fine_maxStorage_nonneg p Hp) as Hmax.
  destruct Hp as (P1 & P2 & P3 & P4 & P5 & P6 & P7 & P8 & P9 & P10 & P11 & P12).
  cbn zeta. unfold fine_step. runfold.
  set (dt := fp_durationInSeconds p) in *.
  set (M0 := m + (fi_upstreamMass x + fi_lateralMass x + fi_reachLocalMass x) * dt).
  assert (HM0 : 0 <= M0).
  { unfold M0. assert (0 <= (fi_upstreamMass x + fi_lateralMass x + fi_reachLocalMass x) * dt) by (apply Rmult_le_pos; lra). lra. }
  pose proof (floodplain_bounds (fi_outflow x) M0 (fp_bankFullFlow p) (fp_fineSedSettVelocityFlood p)
                (fp_floodPlainArea p) HM0 H5 P1 P2 P3) as Hfp.
  set (fpd := @floodPlainDepositionEmperical R RArith (fi_outflow x) M0 (fp_bankFullFlow p)
                (fp_fineSedSettVelocityFlood p) (fp_floodPlainArea p)) in *.
  set (TV := fi_reachVolume x + fi_outflow x * dt).
  assert (HM1 : 0 <= M0 - fpd) by lra.
  assert (Hw : fp_linkWidth p <> 0) by lra. assert (Hn : fp_manningsN p <> 0) by lra.
  pose proof (inChannel_bounds (fi_outflow x) TV (M0 - fpd) c (fp_linkWidth p) (fp_linkSlope p) (fp_manningsN p)
                (fp_fineSedSettVelocity p) (fp_fineSedReMobVelocity p) (@fine_maxStorage R RArith p)
                HM1 Hc Hmax P10 P11 Hw Hn) as Hnet.
  set (net := @inChannelStorage R RArith (fi_outflow x) TV (M0 - fpd) c (fp_linkWidth p) (fp_linkSlope p)
                (fp_manningsN p) (fp_fineSedSettVelocity p) (fp_fineSedReMobVelocity p) (@fine_maxStorage R RArith p)) in *.
  rcase_bool (Rltb 0 TV); cbn.
  - assert (Hconc : 0 <= (M0 - fpd - net) / TV).
    { apply Rmult_le_pos; [lra | left; apply Rinv_0_lt_compat; assumption]. }
    repeat split; try lra; apply Rmult_le_pos; assumption.
  - repeat split; lra.
Qed.

(** ** whole runs *)
Theorem fine_run_budget p : forall xs s,
  fine_stock s + inflows (fine_inflow p) xs =
  fine_stock (fst (run (Rfine_step p) s xs)) +
  outflows (fine_outflow p) xs (snd (run (Rfine_step p) s xs)).
Proof.
  apply (run_budget (Rfine_step p) fine_stock (fine_inflow p) (fine_outflow p)).
  intros s x; apply fine_step_budget.
Qed.

Theorem fine_run_nonneg p : fine_params_ok p -> forall xs s,
  (0 <= fst s /\ 0 <= snd s) -> Forall fine_in_nonneg xs ->
  (0 <= fst (fst (run (Rfine_step p) s xs)) /\ 0 <= snd (fst (run (Rfine_step p) s xs))) /\
  Forall (fun xo => 0 <= fo_loadDownstream (snd xo) /\ 0 <= fo_floodplainDeposit (snd xo) /\
                    0 <= fo_flushed (snd xo) /\
                    - fo_loadToChannelDeposition (snd xo) <= fo_channelStoreBefore (snd xo))
         (combine xs (snd (run (Rfine_step p) s xs))).
Proof.
  intros Hp.
  apply (run_invariant (Rfine_step p) (fun s => 0 <= fst s /\ 0 <= snd s) fine_in_nonneg
           (fun _ o => 0 <= fo_loadDownstream o /\ 0 <= fo_floodplainDeposit o /\ 0 <= fo_flushed o /\
                       - fo_loadToChannelDeposition o <= fo_channelStoreBefore o)).
  intros s x [Hc Hm] Hx.
  destruct (fine_step_nonneg p s x Hp Hc Hm Hx) as (A & B & C & D & E & F). auto.
Qed.

Theorem fine_run_flush p : forall xs s,
  Forall (fun xo => fo_flushed (snd xo) <> 0 -> fo_totalVolume (snd xo) < 1 / 100)
         (combine xs (snd (run (Rfine_step p) s xs))).
Proof.
  intros xs s.
  apply (run_invariant (Rfine_step p) (fun _ => True) (fun _ => True)
           (fun _ o => fo_flushed o <> 0 -> fo_totalVolume o < 1 / 100)); auto.
  - intros s0 x _ _. split; [exact I|]. intros H. apply (fine_step_flush p s0 x H).
  - clear. induction xs; constructor; auto.
Qed.

(** the catalogue kernel on the main path *)
Lemma fine_kernel_unfold_main (bff vf fpa lw ll ls bh pbh sbd mn vs vr dt c m : R) (a b l v q : list R) :
  1 / 100000000 < bff ->
  @instream_fine_sediment_kernel R RArith [bff; vf; fpa; lw; ll; ls; bh; pbh; sbd; mn; vs; vr; dt] [c; m] [a; b; l; v; q] =
  let p := mk_fine_params bff vf fpa lw ll ls bh pbh sbd mn vs vr dt in
  let r := run (Rfine_step p) (@fine_init_store R RArith p c, m) (fine_rows a b l v q) in
  Some ([map fo_loadDownstream (snd r); map fo_loadToFloodplain (snd r); map fo_loadToChannelDeposition (snd r);
         map fo_floodplainDepositionFraction (snd r); map fo_channelDepositionFraction (snd r)],
        [fst (fst r); snd (fst r)]).
Proof.
  intros Hb. unfold instream_fine_sediment_kernel, FS_BANKFULL_EPS. runfold.
  assert (E : Rleb bff (1 / 100000000) = false) by (apply Rleb_false; exact Hb). rewrite E.
  destruct (run _ _ _) as [[c' m'] os]; reflexivity.
Qed.

(** ** the bankFullFlow <= 1e-8 path: lumped routing of upstream + lateral + reach-local mass *)
Notation Rfine_lowbank_step := (@fine_lowbank_step R RArith).

(** what leaves on this path: downstream (rate * dt) and the flush *)
Definition fine_lowbank_outflow (p : fine_paramsR) (x : fine_inR) (o : lumped_outR) : R :=
  lo_outflowLoad o * fp_durationInSeconds p + lo_flushed o.

(** per-step balance with the SAME inflow as the main path (upstream + lateral + reach-local) *)
Lemma fine_lowbank_step_budget p m x :
  m + fine_inflow p x =
  fst (Rfine_lowbank_step p m x) + fine_lowbank_outflow p x (snd (Rfine_lowbank_step p m x)).
Proof.
  unfold fine_lowbank_step, fine_lowbank_outflow, fine_inflow.
  pose proof (lumped_step_budget 0 (fp_durationInSeconds p) m (@fine_to_lumped R RArith x)) as H.
  unfold lumped_inflow, lumped_outflow, fine_to_lumped in H. runfold. cbn [li_inflowLoad li_lateralLoad] in H.
  unfold fine_to_lumped. runfold. lra.
Qed.

Lemma fine_lowbank_step_flush p m x :
  lo_flushed (snd (Rfine_lowbank_step p m x)) <> 0 ->
  fi_outflow x * fp_durationInSeconds p + fi_reachVolume x < 1 / 100.
Proof.
  intros H. apply (lumped_step_flush 0 (fp_durationInSeconds p) m (@fine_to_lumped R RArith x)) in H.
  exact H.
Qed.

Lemma fine_lowbank_step_nonneg p m x :
  0 <= fp_durationInSeconds p -> 0 <= m -> fine_in_nonneg x ->
  0 <= fst (Rfine_lowbank_step p m x) /\
  0 <= lo_outflowLoad (snd (Rfine_lowbank_step p m x)) /\ 0 <= lo_flushed (snd (Rfine_lowbank_step p m x)).
Proof.
  intros Hdt Hm (H1 & H2 & H3 & H4 & H5).
  unfold fine_lowbank_step.
  apply (lumped_step_nonneg 0 (fp_durationInSeconds p) m (@fine_to_lumped R RArith x)); try lra; try assumption.
  unfold lumped_in_nonneg, fine_to_lumped. runfold. cbn. repeat split; lra.
Qed.

Theorem fine_lowbank_run_budget p : forall xs m,
  m + inflows (fine_inflow p) xs =
  fst (run (Rfine_lowbank_step p) m xs) +
  outflows (fine_lowbank_outflow p) xs (snd (run (Rfine_lowbank_step p) m xs)).
Proof.
  apply (run_budget (Rfine_lowbank_step p) (fun m => m) (fine_inflow p) (fine_lowbank_outflow p)).
  intros m x; apply fine_lowbank_step_budget.
Qed.

Theorem fine_lowbank_run_nonneg p : 0 <= fp_durationInSeconds p -> forall xs m,
  0 <= m -> Forall fine_in_nonneg xs ->
  0 <= fst (run (Rfine_lowbank_step p) m xs) /\
  Forall (fun xo => 0 <= lo_outflowLoad (snd xo) /\ 0 <= lo_flushed (snd xo))
         (combine xs (snd (run (Rfine_lowbank_step p) m xs))).
Proof.
  intros Hdt.
  apply (run_invariant (Rfine_lowbank_step p) (fun m => 0 <= m) fine_in_nonneg
           (fun _ o => 0 <= lo_outflowLoad o /\ 0 <= lo_flushed o)).
  intros m x Hm Hx. destruct (fine_lowbank_step_nonneg p m x Hdt Hm Hx) as (A & B & C). auto.
Qed.

Theorem fine_lowbank_run_flush p : forall xs m,
  Forall (fun xo => lo_flushed (snd xo) <> 0 ->
                    fi_outflow (fst xo) * fp_durationInSeconds p + fi_reachVolume (fst xo) < 1 / 100)
         (combine xs (snd (run (Rfine_lowbank_step p) m xs))).
Proof.
  intros xs m.
  apply (run_invariant (Rfine_lowbank_step p) (fun _ => True) (fun _ => True)
           (fun x o => lo_flushed o <> 0 -> fi_outflow x * fp_durationInSeconds p + fi_reachVolume x < 1 / 100)); auto.
  - intros m0 x _ _. split; [exact I|]. apply fine_lowbank_step_flush.
  - clear. induction xs; constructor; auto.
Qed.

(** the catalogue kernel on that path: the channel store is passed through unchanged *)
Lemma fine_kernel_unfold_lowbank (bff vf fpa lw ll ls bh pbh sbd mn vs vr dt c m : R) (a b l v q : list R) :
  bff <= 1 / 100000000 ->
  @instream_fine_sediment_kernel R RArith [bff; vf; fpa; lw; ll; ls; bh; pbh; sbd; mn; vs; vr; dt] [c; m] [a; b; l; v; q] =
  let p := mk_fine_params bff vf fpa lw ll ls bh pbh sbd mn vs vr dt in
  let r := run (Rfine_lowbank_step p) m (fine_rows a b l v q) in
  Some ([map lo_outflowLoad (snd r); zeros (snd r); zeros (snd r); zeros (snd r); zeros (snd r)], [c; fst r]).
Proof.
  intros Hb. unfold instream_fine_sediment_kernel, FS_BANKFULL_EPS, fine_lowbank. runfold.
  assert (E : Rleb bff (1 / 100000000) = true) by (apply Rleb_true; exact Hb). rewrite E.
  destruct (run _ _ _) as [m' os]; reflexivity.
Qed.

(** the former witness of the lost reach-local mass (bank-full flow 0, 1 kg/s of reach-local
    sediment for one day, 1000 m3 stored, 1 m3/s out): the 86400 kg are now split by volume *)
Example fine_lowbank_keeps_reach_local :
  let p := mk_fine_params 0 0 0 10 1000 (1/1000) 2 (1/2) (3/2) (4/100) (1/1000) (1/1000) 86400 in
  let r := Rfine_lowbank_step p 0 (mk_fine_in 0 0 1 1000 1) in
  fst r + lo_outflowLoad (snd r) * 86400 = 86400 /\ lo_flushed (snd r) = 0 /\ 0 < fst r.
Proof.
  cbn zeta. unfold fine_lowbank_step, fine_to_lumped, lumped_step. runfold. cbn.
  assert (E : Rltb (1 * 86400 + 1000) (1 / 100) = false) by (apply Rltb_false; lra).
  rewrite E. cbn. repeat split; try lra; field_simplify; lra.
Qed.

(** ** non-vacuity of the main path *)
Lemma Rpow_1_l y : Rpow 1 y = 1.
Proof.
  unfold Rpow. destruct (Req_EM_T y 0); [reflexivity|]. destruct (Req_EM_T 1 0); [lra|].
  unfold Rpower. rewrite ln_1, Rmult_0_r. apply exp_0.
Qed.
Lemma Rpow_0_l y : y <> 0 -> Rpow 0 y = 0.
Proof.
  intros Hy. unfold Rpow. destruct (Req_EM_T y 0); [contradiction|]. destruct (Req_EM_T 0 0); [reflexivity|lra].
Qed.

(** unit geometry: capacity thresholds are 0 at zero flow and 8640 t/day at 1 m3/s *)
Lemma fine_STC_zero_flow S w n v : @fine_STC R RArith 0 S w n v = 0.
Proof.
  unfold fine_STC. runfold. rewrite Rpow_0_l by lra. unfold Rdiv. ring.
Qed.
Lemma fine_STC_unit : @fine_STC R RArith 1 1 1 1 1 = 8640.
Proof.
  unfold fine_STC, FS_SECONDS_PER_DAY. runfold. rewrite !Rpow_1_l. field.
Qed.

(** below bank-full there is no floodplain deposition *)
Lemma floodplain_zero_below_bankfull q M bff v A : q <= bff ->
  @floodPlainDepositionEmperical R RArith q M bff v A = 0.
Proof. intros H. apply (proj1 (floodplain_no_division_by_zero q M bff v A) H). Qed.

(** standing water (no transport capacity): everything deposits, as far as there is room *)
Lemma inChannel_standing_water TV M c w S n vs vr maxS :
  0 < TV -> 0 < M -> M <= maxS - c ->
  @inChannelStorage R RArith 0 TV M c w S n vs vr maxS = M.
Proof.
  intros HT HM Hroom. unfold inChannelStorage, FS_KG_TO_TONNES, FS_TONNES_TO_KG. runfold.
  replace (0 * 1) with 0 by lra. rewrite !fine_STC_zero_flow.
  assert (E1 : Rleb TV 0 = false) by (apply Rleb_false; lra). rewrite E1.
  assert (E2 : Rltb 0 (1 * (M * (1 / 1000))) = true) by (apply Rltb_true; lra). rewrite E2.
  rewrite Rmin_left; lra.
Qed.

(** clean water at 1 m3/s over unit geometry (capacity 8640 t/day) picks up the whole store *)
Lemma inChannel_clean_water TV c maxS :
  0 < TV -> 0 <= c <= 8640000 ->
  @inChannelStorage R RArith 1 TV 0 c 1 1 1 1 1 maxS = - c.
Proof.
  intros HT Hc. unfold inChannelStorage, FS_KG_TO_TONNES, FS_TONNES_TO_KG. runfold.
  replace (1 * 1) with 1 by lra. rewrite !fine_STC_unit.
  assert (E1 : Rleb TV 0 = false) by (apply Rleb_false; lra). rewrite E1.
  assert (E2 : Rltb 8640 (1 * (0 * (1 / 1000))) = false) by (apply Rltb_false; lra). rewrite E2.
  assert (E3 : Rltb (1 * (0 * (1 / 1000))) 8640 = true) by (apply Rltb_true; lra). rewrite E3.
  rewrite Rmin_right; lra.
Qed.

Definition fine_unit_params (bff : R) : fine_paramsR := mk_fine_params bff 0 0 1 1 1 1 1 1 1 1 1 1.

Ltac fine_proj :=
  cbn [fp_bankFullFlow fp_fineSedSettVelocityFlood fp_floodPlainArea fp_linkWidth fp_linkLength fp_linkSlope
       fp_bankHeight fp_propBankHeightForFineDep fp_sedBulkDensity fp_manningsN fp_fineSedSettVelocity
       fp_fineSedReMobVelocity fp_durationInSeconds fi_upstreamMass fi_lateralMass fi_reachLocalMass
       fi_reachVolume fi_outflow].

(** deposition branch: 5 kg arrive in standing water: all 5 kg are deposited *)
Example fine_deposition_example :
  let r := Rfine_step (fine_unit_params 1) (0, 0) (mk_fine_in 5 0 0 1 0) in
  fst r = (5, 0) /\ fo_loadToChannelDeposition (snd r) = 5 /\ fo_loadDownstream (snd r) = 0 /\
  fo_floodplainDeposit (snd r) = 0 /\ fo_flushed (snd r) = 0.
Proof.
  cbn zeta. unfold fine_step, fine_unit_params, fine_maxStorage, FS_TONNES_TO_KG. runfold. fine_proj.
  rewrite floodplain_zero_below_bankfull by lra.
  rewrite inChannel_standing_water by lra.
  assert (E : Rltb 0 (1 + 0 * 1) = true) by (apply Rltb_true; lra). rewrite E. cbn.
  repeat split; try lra. f_equal; field.
Qed.

(** remobilisation branch: clean water over a 5 kg channel store picks up the whole store (and
    not more): net deposition -5; half leaves downstream, half stays in the 1 m3 reach *)
Example fine_remobilisation_example :
  let r := Rfine_step (fine_unit_params 2) (5, 0) (mk_fine_in 0 0 0 1 1) in
  fst r = (0, 5 / 2) /\ fo_loadToChannelDeposition (snd r) = - 5 /\ fo_loadDownstream (snd r) = 5 / 2 /\
  fo_channelStoreBefore (snd r) = 5 /\ fo_flushed (snd r) = 0.
Proof.
  cbn zeta. unfold fine_step, fine_unit_params, fine_maxStorage, FS_TONNES_TO_KG. runfold. fine_proj.
  rewrite floodplain_zero_below_bankfull by lra.
  replace (0 + (0 + 0 + 0) * 1 - 0) with 0 by lra.
  rewrite inChannel_clean_water by lra.
  assert (E : Rltb 0 (1 + 1 * 1) = true) by (apply Rltb_true; lra). rewrite E. cbn.
  repeat split; try lra; try field. f_equal; field.
Qed.

(** no water at all: nothing goes downstream, nothing stays in the stream *)
Example fine_flush_needs_no_water p c m x :
  fi_reachVolume x + fi_outflow x * fp_durationInSeconds p <= 0 ->
  fo_loadDownstream (snd (Rfine_step p (c, m) x)) = 0 /\ snd (fst (Rfine_step p (c, m) x)) = 0.
Proof.
  intros H. unfold fine_step. runfold.
  match goal with |- context [Rltb 0 ?tv] =>
    match tv with (fi_reachVolume x + _) => rcase_bool (Rltb 0 tv) end end; cbn; [lra | auto].
Qed.
