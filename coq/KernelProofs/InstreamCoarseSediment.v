(** Proofs about Kernels/InstreamCoarseSediment.v over the reals (C12). *)
From Coq Require Import ZArith Reals Lra List.
From OW Require Import Base.Arith Base.RInst Base.Mealy KernelProofs.Budget
  Kernels.C12Common Kernels.InstreamCoarseSediment.
Import ListNotations.
Local Open Scope R_scope.

Notation Rcoarse_step := (@coarse_step R RArith).

(** stock: deposited channel store + in-stream stored mass *)
Definition coarse_stock (s : R * R) : R := fst s + snd s.
Definition coarse_inflow (dt : R) (x : R * R * R) : R :=
  let '(up, lat, loc) := x in (up + lat + loc) * dt.
Definition coarse_outflow (dt : R) (x : R * R * R) (o : R) : R := o * dt.

Lemma coarse_step_budget dt s x :
  coarse_stock s + coarse_inflow dt x =
  coarse_stock (fst (Rcoarse_step dt s x)) + coarse_outflow dt x (snd (Rcoarse_step dt s x)).
Proof.
  destruct s as [c m], x as [[up lat] loc].
  unfold coarse_step, coarse_stock, coarse_inflow, coarse_outflow. runfold. cbn. lra.
Qed.

(** everything is deposited: the deposit of the step is the growth of the channel store *)
Lemma coarse_step_deposit dt c m x :
  fst (fst (Rcoarse_step dt (c, m) x)) = c + (m + coarse_inflow dt x) /\
  snd (fst (Rcoarse_step dt (c, m) x)) = 0 /\ snd (Rcoarse_step dt (c, m) x) = 0.
Proof.
  destruct x as [[up lat] loc]. unfold coarse_step, coarse_inflow. runfold. cbn. auto.
Qed.

Definition coarse_in_nonneg (x : R * R * R) : Prop :=
  let '(up, lat, loc) := x in 0 <= up /\ 0 <= lat /\ 0 <= loc.

Lemma coarse_step_nonneg dt s x :
  0 <= dt -> 0 <= fst s -> 0 <= snd s -> coarse_in_nonneg x ->
  0 <= fst (fst (Rcoarse_step dt s x)) /\ 0 <= snd (fst (Rcoarse_step dt s x)) /\
  0 <= snd (Rcoarse_step dt s x).
Proof.
  destruct s as [c m], x as [[up lat] loc]. cbn. intros Hdt Hc Hm (H1 & H2 & H3).
  unfold coarse_step. runfold. cbn.
  assert (0 <= (up + lat + loc) * dt) by (apply Rmult_le_pos; lra). repeat split; lra.
Qed.

Theorem coarse_run_budget dt : forall xs s,
  coarse_stock s + inflows (coarse_inflow dt) xs =
  coarse_stock (fst (run (Rcoarse_step dt) s xs)) +
  outflows (coarse_outflow dt) xs (snd (run (Rcoarse_step dt) s xs)).
Proof.
  apply (run_budget (Rcoarse_step dt) coarse_stock (coarse_inflow dt) (coarse_outflow dt)).
  intros s x; apply coarse_step_budget.
Qed.

Theorem coarse_run_nonneg dt : 0 <= dt -> forall xs s,
  (0 <= fst s /\ 0 <= snd s) -> Forall coarse_in_nonneg xs ->
  (0 <= fst (fst (run (Rcoarse_step dt) s xs)) /\ 0 <= snd (fst (run (Rcoarse_step dt) s xs))) /\
  Forall (fun xo => 0 <= snd xo) (combine xs (snd (run (Rcoarse_step dt) s xs))).
Proof.
  intros Hdt.
  apply (run_invariant (Rcoarse_step dt) (fun s => 0 <= fst s /\ 0 <= snd s) coarse_in_nonneg
           (fun _ o => 0 <= o)).
  intros s x [Hc Hm] Hx. destruct (coarse_step_nonneg dt s x Hdt Hc Hm Hx) as (A & B & C). auto.
Qed.

Lemma coarse_kernel_unfold (dt c m : R) (a b d : list R) :
  @instream_coarse_sediment_kernel R RArith [dt] [c; m] [a; b; d] =
  let r := run (Rcoarse_step dt) (c, m) (zip3 a b d) in
  Some ([snd r], [fst (fst r); snd (fst r)]).
Proof.
  unfold instream_coarse_sediment_kernel. destruct (run _ _ _) as [[c' m'] os]; reflexivity.
Qed.

Example coarse_example : Rcoarse_step 2 (10, 1) (1, 2, 3) = ((23, 0), 0).
Proof. unfold coarse_step. runfold. cbn. f_equal. f_equal. lra. Qed.
