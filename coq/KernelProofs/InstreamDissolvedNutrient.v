(** Proofs about Kernels/InstreamDissolvedNutrient.v (decay disabled) over the reals
    (C12): the model is the lumped transport with point input pointSourceLoad per
    year converted to kg/s, so the lumped budget / flush / non-negativity theorems apply. *)
From Coq Require Import ZArith Reals Lra List.
From OW Require Import Base.Arith Base.RInst Base.Mealy KernelProofs.Budget
  Kernels.C12Common Kernels.LumpedConstituent KernelProofs.LumpedConstituent Kernels.InstreamDissolvedNutrient.
Import ListNotations.
Local Open Scope R_scope.

Lemma dn_kernel_nodecay_is_lumped (flag psl lh lw ll uv dt s : R) (up lat vol q fpf : list R) :
  flag < 1 / 2 ->
  @instream_dissolved_nutrient_decay_kernel R RArith [flag; psl; lh; lw; ll; uv; dt] [s] [up; lat; vol; q; fpf] =
  let r := run (Rlumped_step (psl / 31557600) dt) s (lumped_rows up (Some lat) q vol) in
  Some ([zeros (snd r); map lo_outflowLoad (snd r); zeros (snd r); map lo_pointSourceLoad (snd r)], [fst r]).
Proof.
  intros Hf. unfold instream_dissolved_nutrient_decay_kernel.
  unfold DN_SECONDS_PER_YEAR, lumped_transport. runfold.
  assert (E : Rltb flag (1 / 2) = true) by (apply Rltb_true; exact Hf). rewrite E.
  replace (psl / (31557600 / 1)) with (psl / 31557600) by (field).
  destruct (run _ _ _); reflexivity.
Qed.

(** the budget of that path, stated on the run the kernel performs *)
Theorem dn_nodecay_budget (psl dt s : R) (up lat vol q : list R) :
  let p := psl / 31557600 in
  let rows := @lumped_rows R RArith up (Some lat) q vol in
  s + inflows (lumped_inflow p dt) rows =
  fst (run (Rlumped_step p dt) s rows) + outflows (lumped_outflow dt) rows (snd (run (Rlumped_step p dt) s rows)).
Proof. cbn zeta. apply lumped_run_budget. Qed.

(** an empty series: no output, the stored mass is carried unchanged (fix b73cc97), decay on or off *)
Lemma dn_kernel_empty (flag psl lh lw ll uv dt s : R) :
  @instream_dissolved_nutrient_decay_kernel R RArith [flag; psl; lh; lw; ll; uv; dt] [s] [[]; []; []; []; []] =
  Some ([[]; []; []; []], [s]).
Proof.
  unfold instream_dissolved_nutrient_decay_kernel. destruct (flag <? of_q 1 2)%ar; reflexivity.
Qed.
