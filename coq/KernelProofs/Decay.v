(** Proofs about Kernels/Decay.v (ConstituentDecay) over the reals (C12). *)
From Coq Require Import ZArith Reals Lra List.
From OW Require Import Base.Arith Base.RInst Base.Mealy KernelProofs.Budget
  Kernels.C12Common Kernels.Decay.
Import ListNotations.
Local Open Scope R_scope.

Notation Rdecay_step := (@decay_step R RArith).
Notation decay_inR := (@decay_in R).
Notation decay_outR := (@decay_out R).

Definition decay_inflow (deltaT : R) (x : decay_inR) : R :=
  (di_inflowLoad x + di_lateralLoad x) * deltaT.
(** what leaves: downstream, decayed (kg this step), flushed *)
Definition decay_outflow (deltaT : R) (x : decay_inR) (o : decay_outR) : R :=
  do_outflowLoad o * deltaT + do_decayedAmount o + do_flushed o.

Lemma DECAY_MINIMUM_VOLUME_R : @DECAY_MINIMUM_VOLUME R RArith = 1 / 100.
Proof. reflexivity. Qed.

(** 2^(-dt/h) is in (0,1] for h > 0, dt >= 0 *)
Lemma decay_fraction_range h dt : 0 < h -> 0 <= dt ->
  0 < @decay_fraction R RArith h dt <= 1.
Proof.
  intros Hh Hdt. unfold decay_fraction. runfold. unfold Rpow.
  destruct (Req_EM_T (- dt / h) 0) as [E|E]; [lra|].
  destruct (Req_EM_T (IZR 2) 0) as [E2|E2]; [lra|].
  unfold Rpower. split; [apply exp_pos|].
  rewrite <- exp_0. left. apply exp_increasing.
  assert (Hy : - dt / h < 0).
  { assert (- dt / h <= 0).
    { unfold Rdiv. rewrite <- (Rmult_0_l (/ h)). apply Rmult_le_compat_r; [left; apply Rinv_0_lt_compat; lra | lra]. }
    lra. }
  assert (Hl : 0 < ln 2) by (pose proof ln_lt_2; lra).
  replace 0 with (0 * ln 2) by lra. apply Rmult_lt_compat_r; assumption.
Qed.

(** per-step mass balance, every branch, no hypotheses *)
Lemma decay_step_budget h dt s x :
  s + decay_inflow dt x =
  fst (Rdecay_step h dt s x) + decay_outflow dt x (snd (Rdecay_step h dt s x)).
Proof.
  unfold decay_step, decay_inflow, decay_outflow. runfold.
  rcase_bool (Rltb 0 h);
  (rcase_bool (Rltb (di_outflow x * dt + di_storage x) (@DECAY_MINIMUM_VOLUME R RArith)); cbn;
   [ lra | rewrite DECAY_MINIMUM_VOLUME_R in *; field; lra ]).
Qed.

(** the reported decayed load is the decayed amount as a rate *)
Lemma decay_step_decayedLoad h dt s x : dt <> 0 ->
  do_decayedLoad (snd (Rdecay_step h dt s x)) * dt = do_decayedAmount (snd (Rdecay_step h dt s x)).
Proof.
  intros Hdt. unfold decay_step. runfold.
  rcase_bool (Rltb 0 h);
  (rcase_bool (Rltb (di_outflow x * dt + di_storage x) (@DECAY_MINIMUM_VOLUME R RArith)); cbn;
   try lra; field; assumption).
Qed.

Lemma decay_step_flush h dt s x :
  do_flushed (snd (Rdecay_step h dt s x)) <> 0 -> decay_working_vol dt x < 1 / 100.
Proof.
  unfold decay_step, decay_working_vol. runfold.
  rcase_bool (Rltb 0 h);
  (rcase_bool (Rltb (di_outflow x * dt + di_storage x) (@DECAY_MINIMUM_VOLUME R RArith)); cbn; intros H;
   [ rewrite DECAY_MINIMUM_VOLUME_R in *; assumption | contradiction H; reflexivity ]).
Qed.

Definition decay_in_nonneg (x : decay_inR) : Prop :=
  0 <= di_inflowLoad x /\ 0 <= di_lateralLoad x /\ 0 <= di_outflow x /\ 0 <= di_storage x.

Lemma decay_tail_nonneg dt s1 x :
  0 <= dt -> 0 <= s1 -> decay_in_nonneg x ->
  let wm := s1 + di_inflowLoad x * dt + di_lateralLoad x * dt in
  let wv := di_outflow x * dt + di_storage x in
  1 / 100 <= wv ->
  0 <= wm /\ 0 <= wm / wv * di_outflow x /\ 0 <= wm - wm / wv * di_outflow x * dt.
Proof.
  intros Hdt Hs (H1 & H2 & H3 & H4) wm wv Hwv.
  assert (Hwm : 0 <= wm).
  { unfold wm. pose proof (Rmult_le_pos _ _ H1 Hdt). pose proof (Rmult_le_pos _ _ H2 Hdt). lra. }
  assert (Hc : 0 <= wm / wv) by (apply Rmult_le_pos; [assumption | left; apply Rinv_0_lt_compat; lra]).
  split; [assumption|]. split; [apply Rmult_le_pos; assumption|].
  replace (wm - wm / wv * di_outflow x * dt) with (wm / wv * di_storage x).
  - apply Rmult_le_pos; assumption.
  - unfold wv. field. fold wv. lra.
Qed.

Lemma decay_step_nonneg h dt s x :
  0 <= dt -> 0 <= s -> decay_in_nonneg x ->
  0 <= fst (Rdecay_step h dt s x) /\
  0 <= do_outflowLoad (snd (Rdecay_step h dt s x)) /\
  0 <= do_decayedAmount (snd (Rdecay_step h dt s x)) /\
  0 <= do_flushed (snd (Rdecay_step h dt s x)).
Proof.
  intros Hdt Hs Hx. unfold decay_step. runfold.
  rcase_bool (Rltb 0 h).
  - pose proof (decay_fraction_range h dt Hc Hdt) as Hf. unfold decay_fraction in Hf. runfold.
    rcase_bool (Rltb (di_outflow x * dt + di_storage x) (@DECAY_MINIMUM_VOLUME R RArith)); cbn;
      unfold decay_fraction; runfold; set (f := Rpow 2 (- dt / h)) in *;
      assert (Hs1 : 0 <= s * f) by (apply Rmult_le_pos; lra);
      assert (Hd : 0 <= (1 - f) * s) by (apply Rmult_le_pos; lra).
    + destruct Hx as (H1 & H2 & H3 & H4).
      pose proof (Rmult_le_pos _ _ H1 Hdt). pose proof (Rmult_le_pos _ _ H2 Hdt). repeat split; lra.
    + rewrite DECAY_MINIMUM_VOLUME_R in *.
      destruct (decay_tail_nonneg dt (s * f) x Hdt Hs1 Hx Hc0) as (A & B & C). repeat split; try lra; assumption.
  - rcase_bool (Rltb (di_outflow x * dt + di_storage x) (@DECAY_MINIMUM_VOLUME R RArith)); cbn.
    + destruct Hx as (H1 & H2 & H3 & H4).
      pose proof (Rmult_le_pos _ _ H1 Hdt). pose proof (Rmult_le_pos _ _ H2 Hdt). repeat split; lra.
    + rewrite DECAY_MINIMUM_VOLUME_R in *.
      destruct (decay_tail_nonneg dt s x Hdt Hs Hx Hc0) as (A & B & C). repeat split; try lra; assumption.
Qed.

Theorem decay_run_budget h dt : forall xs s,
  s + inflows (decay_inflow dt) xs =
  fst (run (Rdecay_step h dt) s xs) +
  outflows (decay_outflow dt) xs (snd (run (Rdecay_step h dt) s xs)).
Proof.
  apply (run_budget (Rdecay_step h dt) (fun s => s) (decay_inflow dt) (decay_outflow dt)).
  intros s x; apply decay_step_budget.
Qed.

Theorem decay_run_nonneg h dt : 0 <= dt -> forall xs s,
  0 <= s -> Forall decay_in_nonneg xs ->
  0 <= fst (run (Rdecay_step h dt) s xs) /\
  Forall (fun xo => 0 <= do_outflowLoad (snd xo) /\ 0 <= do_decayedAmount (snd xo) /\ 0 <= do_flushed (snd xo))
         (combine xs (snd (run (Rdecay_step h dt) s xs))).
Proof.
  intros Hdt.
  apply (run_invariant (Rdecay_step h dt) (fun s => 0 <= s) decay_in_nonneg
           (fun _ o => 0 <= do_outflowLoad o /\ 0 <= do_decayedAmount o /\ 0 <= do_flushed o)).
  intros s x Hs Hx. destruct (decay_step_nonneg h dt s x Hdt Hs Hx) as (A & B & C & D). auto.
Qed.

Theorem decay_run_flush h dt : forall xs s,
  Forall (fun xo => do_flushed (snd xo) <> 0 -> decay_working_vol dt (fst xo) < 1 / 100)
         (combine xs (snd (run (Rdecay_step h dt) s xs))).
Proof.
  intros xs s.
  apply (run_invariant (Rdecay_step h dt) (fun _ => True) (fun _ => True)
           (fun x o => do_flushed o <> 0 -> decay_working_vol dt x < 1 / 100)); auto.
  - intros s0 x _ _. split; [exact I|]. apply decay_step_flush.
  - clear. induction xs; constructor; auto.
Qed.

Lemma decay_kernel_unfold (w h dt s : R) (a b c d e : list R) :
  @constituent_decay_kernel R RArith [w; h; dt] [s] [a; b; c; d; e] =
  let r := run (Rdecay_step h dt) s (decay_rows a b c d e) in
  Some ([map do_decayedLoad (snd r); map do_outflowLoad (snd r)], [fst r]).
Proof.
  unfold constituent_decay_kernel. destruct (run _ _ _); reflexivity.
Qed.

(** non-vacuity: one half-life halves the store (8 kg -> 4 kg decayed, 4 kg left in 1 m3) *)
Example decay_halves :
  fst (Rdecay_step 1 1 8 (mk_decay_in 0 0 0 0 1)) = 4 /\
  do_decayedAmount (snd (Rdecay_step 1 1 8 (mk_decay_in 0 0 0 0 1))) = 4.
Proof.
  assert (F : @decay_fraction R RArith 1 1 = / 2).
  { unfold decay_fraction. runfold. unfold Rpow.
    destruct (Req_EM_T (- (1) / 1) 0) as [E|E]; [lra|].
    destruct (Req_EM_T (IZR 2) 0) as [E2|E2]; [lra|].
    replace (- (1) / 1) with (- (1)) by lra. rewrite Rpower_Ropp, Rpower_1; lra. }
  unfold decay_step. runfold.
  assert (E1 : Rltb 0 1 = true) by (apply Rltb_true; lra). rewrite E1.
  rewrite F. cbn.
  assert (E2 : Rltb (0 * 1 + 1) (1 / 100) = false) by (apply Rltb_false; lra). rewrite E2. cbn.
  split; field.
Qed.
