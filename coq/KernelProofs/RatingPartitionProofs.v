(** C16 proofs for RatingCurvePartition (models/conversion/rating_partition.go with
    util/fn.Piecewise): whenever the run returns (no Go panic) the two outputs sum to
    the input; for a strictly increasing table of >= 2 points every input within the
    end points is defined and the fraction lies between the neighbouring
    proportions; outside the end points the Go code panics ([None]). *)
From Coq Require Import ZArith List Reals Lra Lia Sorted Bool.
From OW Require Import Base.Arith Base.RInst Base.Mealy Kernels.C16Common Kernels.RatingPartition
  KernelProofs.C16Lib.
Import ListNotations.
Local Open Scope R_scope.

(** ** the time loop *)
Lemma rp_run_false xs ys (input : list R) :
  fst (run (rating_partition_step xs ys) false input) = false.
Proof.
  induction input as [|x r IH]; [reflexivity|].
  cbn. destruct (run (rating_partition_step xs ys) false r) as [s os]. cbn in *. exact IH.
Qed.

Lemma rp_run_true xs ys (input : list R) os :
  run (rating_partition_step xs ys) true input = (true, os) ->
  Forall2 (fun x o => rating_partition_row xs ys x = Some o) input os.
Proof.
  revert os; induction input as [|x r IH]; intros os H.
  - cbn in H. injection H as <-. constructor.
  - cbn in H. destruct (rating_partition_row xs ys x) as [o|] eqn:Er.
    + destruct (run (rating_partition_step xs ys) true r) as [s os'] eqn:Err.
      injection H as -> <-. constructor; [exact Er|]. now apply IH.
    + pose proof (rp_run_false xs ys r) as Hf.
      destruct (run (rating_partition_step xs ys) false r) as [s os']. cbn in Hf. subst s. discriminate.
Qed.

Lemma rp_run_all_defined xs ys (input : list R) os :
  Forall2 (fun x o => rating_partition_row xs ys x = Some o) input os ->
  run (rating_partition_step xs ys) true input = (true, os).
Proof.
  induction 1 as [|x o r os' Hx _ IH]; [reflexivity|].
  cbn. rewrite Hx, IH. reflexivity.
Qed.

(** ** one step: lossless split *)
Lemma rating_partition_row_sum xs ys (x a b : R) :
  rating_partition_row xs ys x = Some (a, b) -> a + b = x.
Proof.
  unfold rating_partition_row. destruct (rc_piecewise x xs ys) as [f|]; [|discriminate].
  runfold. cbn. intros H; injection H as <- <-. ring.
Qed.

Lemma rating_partition_row_frac xs ys (x a b : R) :
  rating_partition_row xs ys x = Some (a, b) ->
  exists f, rc_piecewise x xs ys = Some f /\ a = x * f /\ b = x * (1 - f).
Proof.
  unfold rating_partition_row. destruct (rc_piecewise x xs ys) as [f|]; [|discriminate].
  runfold. cbn. intros H; injection H as <- <-. now exists f.
Qed.

Theorem rating_partition_sum_run : forall xs ys (input o1 o2 : list R),
  rating_partition xs ys input = Some (o1, o2) -> zipw Rplus o1 o2 = input.
Proof.
  intros xs ys input o1 o2. unfold rating_partition.
  destruct (run (rating_partition_step xs ys) true input) as [ok os] eqn:Er.
  destruct ok; [|discriminate]. intros H; injection H as <- <-.
  apply rp_run_true in Er. rewrite zipw_map_same.
  induction Er as [|x [a b] r os' Hx _ IH]; [reflexivity|]. cbn. f_equal; [|exact IH].
  now apply rating_partition_row_sum in Hx.
Qed.

Theorem rating_curve_partition_sum : forall (params st st' input o1 o2 : list R),
  rating_curve_partition_kernel params st [input] = Some ([o1; o2], st') ->
  zipw Rplus o1 o2 = input.
Proof.
  intros params st st' input o1 o2. unfold rating_curve_partition_kernel.
  destruct (rating_table params) as [[xs ys]|]; [|discriminate].
  destruct (rating_partition xs ys input) as [[a b]|] eqn:E; [|discriminate].
  intros H; injection H as <- <- _. eapply rating_partition_sum_run; eauto.
Qed.

(** ** brackets on a strictly increasing table *)
Lemma last_nonempty_default {X : Type} (l : list X) (d d' : X) : l <> [] -> last l d = last l d'.
Proof.
  induction l as [|a l IH]; [contradiction|]. intros _.
  destruct l as [|b l]; [reflexivity|]. change (last (b :: l) d = last (b :: l) d'). apply IH. discriminate.
Qed.

Lemma rc_scan_inside : forall (rest : list (R * R)) (x px py : R),
  px < x -> x <= last (map fst rest) px -> Sorted Rlt (px :: map fst rest) ->
  exists x0 x1 y0 y1, rc_scan x px py rest = Some (x0, x1, y0, y1)
    /\ x0 <= x <= x1 /\ x0 < x1
    /\ (In (x1, y1) rest) /\ ((x0 = px /\ y0 = py) \/ In (x0, y0) rest).
Proof.
  induction rest as [|[cx cy] r IH]; intros x px py Hlt Hlast Hs.
  - cbn in Hlast. lra.
  - cbn [rc_scan]. unfold geb. runfold. rcase_bool (Rleb x cx).
    + exists px, cx, py, cy. split; [reflexivity|]. split; [lra|].
      split; [|split; [now left|left; split; reflexivity]].
      inversion Hs as [|? ? _ Hh]; subst. inversion Hh; subst. assumption.
    + assert (Hs' : Sorted Rlt (cx :: map fst r)).
      { cbn in Hs. inversion Hs; assumption. }
      assert (Hl' : x <= last (map fst r) cx).
      { cbn [map fst] in Hlast. destruct (map fst r) as [|r0 l] eqn:Em; [cbn in *; lra|].
        change (x <= last (r0 :: l) px) in Hlast. rewrite (last_nonempty_default _ cx px); [exact Hlast|discriminate]. }
      destruct (IH x cx cy Hc Hl' Hs') as (x0 & x1 & y0 & y1 & E & Hb & Hlt' & Hin & Hy).
      exists x0, x1, y0, y1. split; [exact E|]. split; [exact Hb|]. split; [exact Hlt'|].
      split; [right; exact Hin|].
      destruct Hy as [[-> ->]|Hy]; [right; left; reflexivity|right; right; exact Hy].
Qed.

Lemma combine_fst_map (xr yr : list R) : length xr = length yr -> map fst (combine xr yr) = xr.
Proof. apply map_fst_combine. Qed.

(** every query within the end points of a strictly increasing table of >= 2 points is
    defined, and the interpolated fraction lies between the two neighbouring proportions *)
Theorem rc_piecewise_inside : forall (x0 : R) (xr : list R) (y0 : R) (yr : list R) (x : R),
  xr <> [] -> length xr = length yr -> Sorted Rlt (x0 :: xr) ->
  x0 <= x <= last xr x0 ->
  exists ya yb f, rc_piecewise x (x0 :: xr) (y0 :: yr) = Some f
    /\ In ya (y0 :: yr) /\ In yb (y0 :: yr) /\ Rmin ya yb <= f <= Rmax ya yb.
Proof.
  intros x0 xr y0 yr x Hne Hlen Hs [Hlo Hhi].
  unfold rc_piecewise, rc_brackets. unfold gtb. runfold.
  assert (Hlast : last (x0 :: xr) x0 = last xr x0).
  { destruct xr; [contradiction|reflexivity]. }
  rewrite Hlast.
  rcase_bool (Rltb x x0); [lra|]. rcase_bool (Rltb (last xr x0) x); [lra|].
  assert (Hfrac : forall xa xb ya yb, xa <= x <= xb -> xa < xb ->
            Rmin ya yb <= ya + (x - xa) / (xb - xa) * (yb - ya) <= Rmax ya yb).
  { intros xa xb ya yb Hb Hl. set (t := (x - xa) / (xb - xa)).
    assert (Ht : 0 <= t <= 1).
    { unfold t. split.
      - apply Rmult_le_pos; [lra|]. left. apply Rinv_0_lt_compat. lra.
      - apply (Rmult_le_reg_r (xb - xa)); [lra|]. unfold Rdiv. rewrite Rmult_assoc, Rinv_l by lra. lra. }
    unfold Rmin, Rmax. destruct (Rle_dec ya yb); split; nra. }
  destruct xr as [|cx xr']; [contradiction|]. destruct yr as [|cy yr']; [discriminate|].
  cbn [combine rc_scan]. unfold geb. runfold.
  assert (Hx0cx : x0 < cx). { inversion Hs as [|? ? _ Hh]; subst. inversion Hh; subst. assumption. }
  rcase_bool (Rleb x cx).
  - exists y0, cy, (y0 + (x - x0) / (cx - x0) * (cy - y0)). split; [reflexivity|].
    split; [now left|]. split; [right; now left|]. apply Hfrac; lra.
  - assert (Hs' : Sorted Rlt (cx :: map fst (combine xr' yr'))).
    { rewrite combine_fst_map by (cbn in Hlen; lia). inversion Hs; assumption. }
    assert (Hl' : x <= last (map fst (combine xr' yr')) cx).
    { rewrite combine_fst_map by (cbn in Hlen; lia).
      destruct xr' as [|r xr'']; [cbn in Hhi |- *; lra|].
      change (x <= last (r :: xr'') x0) in Hhi.
      rewrite (last_nonempty_default _ cx x0); [exact Hhi|discriminate]. }
    destruct (rc_scan_inside (combine xr' yr') x cx cy Hc1 Hl' Hs') as (xa & xb & ya & yb & E & Hb & Hlt & Hin & Hy).
    rewrite E. exists ya, yb, (ya + (x - xa) / (xb - xa) * (yb - ya)). split; [reflexivity|].
    split; [|split; [|apply Hfrac; assumption]].
    + destruct Hy as [[_ ->]|Hy]; [right; now left|]. right; right. apply in_combine_r in Hy. exact Hy.
    + right; right. apply in_combine_r in Hin. exact Hin.
Qed.

(** outside the end points (and for tables of fewer than 2 points) Piecewise returns an
    error and ratingPartition panics *)
Theorem rc_piecewise_below : forall x0 xr y0 yr (x : R), x < x0 -> rc_piecewise x (x0 :: xr) (y0 :: yr) = None.
Proof. intros. unfold rc_piecewise, rc_brackets. runfold. rcase_bool (Rltb x x0); [reflexivity|lra]. Qed.

Theorem rc_piecewise_above : forall x0 xr y0 yr (x : R), last (x0 :: xr) x0 < x -> rc_piecewise x (x0 :: xr) (y0 :: yr) = None.
Proof.
  intros. unfold rc_piecewise, rc_brackets. unfold gtb. runfold. rcase_bool (Rltb x x0); [reflexivity|].
  rcase_bool (Rltb (last (x0 :: xr) x0) x); [reflexivity|lra].
Qed.

Theorem rc_piecewise_single_point : forall x0 y0 (x : R), rc_piecewise x [x0] [y0] = None.
Proof.
  intros. unfold rc_piecewise, rc_brackets. unfold gtb. runfold. cbn [last combine rc_scan].
  destruct (Rltb x x0); [reflexivity|]. destruct (Rltb x0 x); reflexivity.
Qed.

(** ** whole runs on a well-formed table *)
Theorem rating_partition_defined_inside : forall (x0 : R) (xr : list R) (y0 : R) (yr input : list R),
  xr <> [] -> length xr = length yr -> Sorted Rlt (x0 :: xr) ->
  Forall (fun x => x0 <= x <= last xr x0) input ->
  exists o1 o2, rating_partition (x0 :: xr) (y0 :: yr) input = Some (o1, o2)
    /\ zipw Rplus o1 o2 = input.
Proof.
  intros x0 xr y0 yr input Hne Hlen Hs Hall.
  assert (exists os, Forall2 (fun x o => rating_partition_row (x0 :: xr) (y0 :: yr) x = Some o) input os) as [os Hos].
  { induction Hall as [|x r Hx _ IH].
    - exists []. constructor.
    - destruct IH as [os IH].
      destruct (rc_piecewise_inside x0 xr y0 yr x Hne Hlen Hs Hx) as (ya & yb & f & E & _).
      exists ((x * f, x * (1 - f)) :: os). constructor; [|exact IH].
      unfold rating_partition_row. rewrite E. runfold. reflexivity. }
  pose proof (rp_run_all_defined _ _ _ _ Hos) as Hr.
  exists (map fst os), (map snd os).
  assert (E : rating_partition (x0 :: xr) (y0 :: yr) input = Some (map fst os, map snd os)).
  { unfold rating_partition. rewrite Hr. reflexivity. }
  split; [exact E|]. eapply rating_partition_sum_run; eauto.
Qed.

Theorem rating_partition_panics_outside : forall (x0 : R) (xr : list R) (y0 : R) (yr input : list R),
  Exists (fun x => x < x0 \/ last (x0 :: xr) x0 < x) input ->
  rating_partition (x0 :: xr) (y0 :: yr) input = None.
Proof.
  intros x0 xr y0 yr input Hex. unfold rating_partition.
  destruct (run (rating_partition_step (x0 :: xr) (y0 :: yr)) true input) as [ok os] eqn:Er.
  destruct ok; [|reflexivity]. exfalso. apply rp_run_true in Er.
  induction Er as [|x o r os' Hx _ IH]; inversion Hex; subst; [|now apply IH].
  unfold rating_partition_row in Hx.
  destruct H0 as [H0|H0]; [rewrite rc_piecewise_below in Hx by exact H0|rewrite rc_piecewise_above in Hx by exact H0];
    discriminate.
Qed.

(** ** column decoding (single cell) *)
Lemma Rtrunc_IZR (z : Z) : Rtrunc (IZR z) = z.
Proof.
  assert (Hip : forall k, Int_part (IZR k) = k).
  { intros k. unfold Int_part. rewrite <- (tech_up (IZR k) (k + 1)).
    - lia.
    - rewrite plus_IZR. lra.
    - rewrite plus_IZR. lra. }
  unfold Rtrunc. destruct (Rle_dec 0 (IZR z)); [apply Hip|].
  rewrite <- opp_IZR, Hip. lia.
Qed.

Lemma rating_table_wellformed (nPts : R) (xs ys : list R) :
  xs <> [] -> length xs = length ys -> truncZ nPts = Z.of_nat (length xs) ->
  rating_table (nPts :: xs ++ ys) = Some (xs, ys).
Proof.
  intros Hne Hl Ht. unfold rating_table. rewrite Ht.
  assert (0 < length xs)%nat by (destruct xs; [contradiction|cbn; lia]).
  destruct (Z.ltb_spec (Z.of_nat (length xs)) 0); [lia|].
  destruct (Z.eqb_spec (Z.of_nat (length xs)) 0); [lia|].
  rewrite app_length. destruct (Z.ltb_spec (Z.of_nat (length xs + length ys)) (2 * Z.of_nat (length xs))); [lia|].
  rewrite Nat2Z.id. rewrite firstn_app, Nat.sub_diag, firstn_all, firstn_O, app_nil_r.
  rewrite skipn_app, Nat.sub_diag, skipn_all, skipn_O. cbn [app].
  rewrite Hl, firstn_all. reflexivity.
Qed.

Theorem rating_curve_partition_defined : forall (nPts x0 : R) (xr : list R) (y0 : R) (yr input st : list R),
  xr <> [] -> length xr = length yr -> Sorted Rlt (x0 :: xr) ->
  truncZ nPts = Z.of_nat (S (length xr)) ->
  Forall (fun x => x0 <= x <= last xr x0) input ->
  exists o1 o2,
    rating_curve_partition_kernel (nPts :: (x0 :: xr) ++ (y0 :: yr)) st [input] = Some ([o1; o2], st)
    /\ zipw Rplus o1 o2 = input.
Proof.
  intros nPts x0 xr y0 yr input st Hne Hl Hs Ht Hall.
  destruct (rating_partition_defined_inside x0 xr y0 yr input Hne Hl Hs Hall) as (o1 & o2 & E & Hsum).
  exists o1, o2. split; [|exact Hsum].
  unfold rating_curve_partition_kernel.
  rewrite (rating_table_wellformed nPts (x0 :: xr) (y0 :: yr)); [|discriminate|cbn; lia|exact Ht].
  rewrite E. reflexivity.
Qed.

Example rating_curve_partition_example : exists o1 o2,
  rating_curve_partition_kernel [2; 0; 10; 2/10; 8/10] [] [[0; 5; 10]] = Some ([o1; o2], [])
  /\ zipw Rplus o1 o2 = [0; 5; 10].
Proof.
  apply (rating_curve_partition_defined 2 0 [10] (2/10) [8/10] [0; 5; 10] []).
  - discriminate.
  - reflexivity.
  - repeat constructor. lra.
  - apply (Rtrunc_IZR 2).
  - cbn. repeat constructor; lra.
Qed.

Example rating_curve_partition_outside_example :
  rating_curve_partition_kernel [2; 0; 10; 2/10; 8/10] [] [[11]] = None.
Proof.
  unfold rating_curve_partition_kernel.
  change [2; 0; 10; 2/10; 8/10] with (2 :: [0; 10] ++ [2/10; 8/10]).
  rewrite (rating_table_wellformed 2 [0; 10] [2/10; 8/10]); [|discriminate|reflexivity|apply (Rtrunc_IZR 2)].
  rewrite rating_partition_panics_outside; [reflexivity|]. constructor. right. cbn. lra.
Qed.
