(** C06, StorageRouting: what "equal within the solver's own mass-balance
    tolerance" means, over the reals.

    A call starts from the index-flow guess qi = 0, the uninterrupted run from
    the guess it carried.  [sr_cut_step_within_tol]: for the FIRST time step
    after a cut (same storage, same inputs, different guesses), if neither
    evaluation leaves the solver unconverged (exit path 7) and the
    storage-discharge relation S(q) is non-decreasing, then

        |storage - storage'|         < 2 * massBalanceLimit   (= 2e-3 m3)
        |outflow - outflow'| * dt    < 2 * massBalanceLimit

    because both accepted index flows satisfy |mass balance| < massBalanceLimit
    and the mass balance is increasing in the index flow at least as fast as
    S(q).  [s_index_mono_bias0]: S(q) = k q^m + dead is non-decreasing for zero
    (or snapped-to-zero) inflow bias, k >= 0, 0 < m <= 1.

    What is NOT proved: a bound over the steps after the first one (the two
    runs then continue from storages up to 2e-3 m3 apart; tools/c06.py tests
    2e-3 m3 per cut over the rest of a 40-step series on the implementation). *)
From Coq Require Import ZArith Reals Lra List Bool Lia.
From OW Require Import Base.Arith Base.RInst Base.Mealy Kernels.StorageRoutingRoot Kernels.StorageRouting
  KernelProofs.StorageRoutingRoot KernelProofs.StorageRouting KernelProofs.StorageRoutingBound
  KernelProofs.HotStart KernelProofs.HotStartRouting.
Import ListNotations.
Local Open Scope R_scope.

Section Tol.
  Variable p : @sr_params R.
  Variables i l S rate : R.
  Hypothesis Hdt : 0 < p_dt p.
  Hypothesis Hmono : forall a b, a <= b -> s_index p a <= s_index p b.

  (** two index flows that both balance within the limit give storages and outflow volumes within twice the limit *)
  Lemma two_balanced_flows q q' :
    p_bias p < 999 / 1000 ->
    Rabs (mbal p i l S rate q) < limit -> Rabs (mbal p i l S rate q') < limit ->
    Rabs (s_index p q - s_index p q') < 2 * limit /\
    Rabs (outf p i l S rate q - outf p i l S rate q') * p_dt p < 2 * limit.
  Proof.
    intros Hb H1 H2.
    assert (HS : Rabs (s_index p q - s_index p q') < 2 * limit).
    { unfold mbal in H1, H2.
      replace (Rltb (p_bias p) (999 / 1000)) with true in H1, H2 by (symmetry; apply Rltb_true; exact Hb).
      assert (Hc : 0 < p_dt p / (1 - p_bias p)) by (apply Rdiv_lt_0_compat; lra).
      apply Rabs_def2 in H1. apply Rabs_def2 in H2. apply Rabs_def1.
      - destruct (Rle_lt_dec q q') as [Hq|Hq].
        + pose proof (Hmono q q' Hq). lra.
        + pose proof (Hmono q' q (Rlt_le _ _ Hq)) as Hm.
          assert (0 <= (q - q') * (p_dt p / (1 - p_bias p))) by (apply Rmult_le_pos; lra).
          replace ((q - p_bias p * (i + l)) * p_dt p / (1 - p_bias p))
            with ((q' - p_bias p * (i + l)) * p_dt p / (1 - p_bias p) + (q - q') * (p_dt p / (1 - p_bias p))) in H1
            by (field; lra). lra.
      - destruct (Rle_lt_dec q q') as [Hq|Hq].
        + pose proof (Hmono q q' Hq) as Hm.
          assert (0 <= (q' - q) * (p_dt p / (1 - p_bias p))) by (apply Rmult_le_pos; lra).
          replace ((q' - p_bias p * (i + l)) * p_dt p / (1 - p_bias p))
            with ((q - p_bias p * (i + l)) * p_dt p / (1 - p_bias p) + (q' - q) * (p_dt p / (1 - p_bias p))) in H2
            by (field; lra). lra.
        + pose proof (Hmono q' q (Rlt_le _ _ Hq)). lra. }
    split; [exact HS|].
    rewrite <- (Rabs_right (p_dt p)) at 1 by lra. rewrite <- Rabs_mult, Rmult_minus_distr_r.
    rewrite !(outf_dt p i l S rate Hdt).
    eapply Rle_lt_trans; [|exact HS].
    unfold Rmax. repeat match goal with |- context [Rle_dec ?a ?b] => destruct (Rle_dec a b) end;
      unfold Rabs; repeat match goal with |- context [Rcase_abs ?a] => destruct (Rcase_abs a) end; lra.
  Qed.

  Theorem sr_cut_step_within_tol pq pq' qi out sto path qi' out' sto' path' :
    calc_outflow p i l pq S rate = Some (qi, out, sto, path) ->
    calc_outflow p i l pq' S rate = Some (qi', out', sto', path') ->
    path <> 7%nat -> path' <> 7%nat ->
    Rabs (sto - sto') < 2 * limit /\ Rabs (out - out') * p_dt p < 2 * limit.
  Proof.
    intros H H' N N'.
    assert (Hzero : Rabs (sto - sto) < 2 * limit /\ Rabs (out - out) * p_dt p < 2 * limit).
    { unfold limit. rewrite !Rminus_diag_eq, Rabs_R0 by reflexivity. lra. }
    (* the early exits do not look at the guess *)
    destruct (le_lt_dec path 4) as [L|L].
    { rewrite (sr_calc_outflow_early_exit_indep p i l pq S rate qi out sto path H L pq') in H'.
      injection H' as <- <- <- <-. exact Hzero. }
    destruct (le_lt_dec path' 4) as [L'|L'].
    { rewrite (sr_calc_outflow_early_exit_indep p i l pq' S rate qi' out' sto' path' H' L' pq) in H.
      injection H as <- <- <- <-. exact Hzero. }
    apply calc_outflow_inv in H. apply calc_outflow_inv in H'.
    assert (P : (path = 5 \/ path = 6)%nat).
    { destruct path as [|[|[|[|[|[|[|[|n]]]]]]]]; cbn in H; try contradiction; try lia. }
    assert (P' : (path' = 5 \/ path' = 6)%nat).
    { destruct path' as [|[|[|[|[|[|[|[|n]]]]]]]]; cbn in H'; try contradiction; try lia. }
    assert (F : mbal p i l S rate (minQI p i l) < - limit /\ Rabs (mbal p i l S rate qi) < limit /\
                out = outf p i l S rate qi /\ sto = s_index p qi).
    { destruct P as [-> | ->]; cbn in H; tauto. }
    assert (F' : Rabs (mbal p i l S rate qi') < limit /\ out' = outf p i l S rate qi' /\ sto' = s_index p qi').
    { destruct P' as [-> | ->]; cbn in H'; tauto. }
    destruct F as (Fm & Fa & -> & ->). destruct F' as (Fa' & -> & ->).
    assert (Hb : p_bias p < 999 / 1000).
    { destruct (Rlt_le_dec (p_bias p) (999 / 1000)) as [Hb|Hb]; [exact Hb|].
      rewrite (mbal_high_bias p i l S rate _ Hb) in Fm. unfold limit in Fm. lra. }
    apply two_balanced_flows; assumption.
  Qed.
End Tol.

(** zero (or snapped-to-zero) inflow bias: S(q) = k q^m + dead above 0, dead below *)
Lemma s_index_mono_bias0 k m area dead dt : 0 <= k -> 0 < m <= 1 ->
  forall a b, a <= b -> s_index (mkP 0 k m area dead dt 0 k 0) a <= s_index (mkP 0 k m area dead dt 0 k 0) b.
Proof.
  intros Hk Hm a b Hab.
  assert (E : forall q, s_index (mkP 0 k m area dead dt 0 k 0) q = k * Rpow (Rmax 0 q) m + dead).
  { intros q. destruct (Rle_lt_dec 0 q) as [Hq|Hq].
    - rewrite Rmax_right by lra. apply s_index_bias0; lra.
    - rewrite Rmax_left by lra. unfold s_index. cbn [p_dead]. runfold.
      replace (Rleb q 0) with true by (symmetry; apply Rleb_true; lra).
      rewrite Rpow_zero_base by lra. ring. }
  rewrite !E.
  assert (Rpow (Rmax 0 a) m <= Rpow (Rmax 0 b) m).
  { apply Rpow_mono; [|lra]. split; [apply Rmax_l|]. apply Rle_max_compat_l, Hab. }
  assert (k * Rpow (Rmax 0 a) m <= k * Rpow (Rmax 0 b) m) by (apply Rmult_le_compat_l; assumption).
  lra.
Qed.

(** the cut step of a zero-bias reach, as the kernel runs it *)
Theorem storage_routing_split_within_tol bias k m area dead dt (s1 : sr_state (T := R)) x s2 out sto path s2' out' sto' path' :
  Rabs bias < 1 / 1000 -> 0 <= k -> 0 < m <= 1 -> 0 < dt ->
  let p := sr_setup bias k m area dead dt in
  sr_step p s1 x = Some (s2, (out, sto, path)) ->
  sr_step p (sr_forget_qi s1) x = Some (s2', (out', sto', path')) ->
  path <> 7%nat -> path' <> 7%nat ->
  Rabs (sto - sto') < 2 * limit /\ Rabs (out - out') * dt < 2 * limit.
Proof.
  intros Hb Hk Hm Hdt p H H' N N'. subst p. rewrite (sr_setup_bias0 bias k m area dead dt Hb (proj2 Hm)) in H, H'.
  unfold sr_step in H, H'. destruct x as [[[i l] rn] ev0]. cbn [sr_forget_qi st_qi st_storage] in H'.
  destruct (calc_outflow _ i l (st_qi s1) _ _) as [[[[qi o] st] pa]|] eqn:E; [|discriminate].
  destruct (calc_outflow _ i l zero _ _) as [[[[qi' o'] st'] pa']|] eqn:E'; [|discriminate].
  injection H as _ <- <- <-. injection H' as _ <- <- <-.
  exact (sr_cut_step_within_tol (mkP 0 k m area dead dt 0 k 0) i l (st_storage s1) _ Hdt
           (s_index_mono_bias0 k m area dead dt Hk Hm) _ _ _ _ _ _ _ _ _ _ E E' N N').
Qed.
