(** Proofs about Kernels/DissolvedDecay.v (StorageDissolvedDecay, decay disabled)
    over the reals (C12): the model is the lumped transport with a nil lateral
    series, so every lumped theorem applies with lateral load 0. *)
From Coq Require Import ZArith Reals Lra List.
From OW Require Import Base.Arith Base.RInst Base.Mealy KernelProofs.Budget
  Kernels.C12Common Kernels.LumpedConstituent KernelProofs.LumpedConstituent Kernels.DissolvedDecay.
Import ListNotations.
Local Open Scope R_scope.

(** every row built from a nil lateral series has lateral load 0 *)
Lemma lumped_rows_lateral (a b c d : list R) x :
  In x (@lumped_rows R RArith a (Some b) c d) -> In (li_lateralLoad x) b.
Proof.
  unfold lumped_rows, zip4, zip3. intros H. apply in_map_iff in H.
  destruct H as [[[[p q] r] t] [E H]]. subst x. cbn.
  apply in_combine_l in H. apply in_combine_l in H. apply in_combine_r in H. exact H.
Qed.

Lemma lumped_rows_nil_lateral (a c d : list R) x :
  In x (@lumped_rows R RArith a None c d) -> li_lateralLoad x = 0.
Proof.
  intros H. change (@lumped_rows R RArith a None c d)
    with (@lumped_rows R RArith a (Some (@zeros R RArith R a)) c d) in H.
  apply lumped_rows_lateral in H. unfold zeros in H. apply in_map_iff in H.
  destruct H as [y [E _]]. symmetry; exact E.
Qed.

Definition dissolved_rows (a c d : list R) := @lumped_rows R RArith a None c d.

(** mass entering a step: inflowMass * deltaT only *)
Definition dissolved_inflow (dt : R) (x : lumped_inR) : R := li_inflowLoad x * dt.

Theorem dissolved_nodecay_budget dt (a c d : list R) s :
  let r := @dissolved_nodecay R RArith a c d s dt in
  s + inflows (dissolved_inflow dt) (dissolved_rows a c d) =
  fst r + outflows (lumped_outflow dt) (dissolved_rows a c d) (snd r).
Proof.
  cbn. unfold dissolved_nodecay, lumped_transport. runfold.
  rewrite <- (lumped_run_budget 0 dt). f_equal.
  unfold inflows. apply Rsum_map_ext. intros x Hx.
  unfold lumped_inflow, dissolved_inflow. rewrite (lumped_rows_nil_lateral a c d x Hx). lra.
Qed.

Theorem dissolved_nodecay_nonneg dt (a c d : list R) s :
  0 <= dt -> 0 <= s -> Forall (fun x => 0 <= x) a -> Forall (fun x => 0 <= x) c -> Forall (fun x => 0 <= x) d ->
  let r := @dissolved_nodecay R RArith a c d s dt in
  0 <= fst r /\
  Forall (fun xo => 0 <= lo_outflowLoad (snd xo) /\ 0 <= lo_flushed (snd xo))
         (combine (dissolved_rows a c d) (snd r)).
Proof.
  intros Hdt Hs Ha Hc Hd. cbn. unfold dissolved_nodecay, lumped_transport. runfold.
  apply lumped_run_nonneg; try lra; try assumption.
  apply Forall_forall. intros x Hx. unfold lumped_in_nonneg.
  rewrite (lumped_rows_nil_lateral a c d x Hx).
  unfold lumped_rows, zip4, zip3 in Hx. apply in_map_iff in Hx.
  destruct Hx as [[[[p q] r] t] [E H]]. subst x. cbn.
  rewrite Forall_forall in Ha, Hc, Hd.
  pose proof (in_combine_r _ _ _ _ H) as Ht.
  apply in_combine_l in H. pose proof (in_combine_r _ _ _ _ H) as Hr.
  apply in_combine_l in H. apply in_combine_l in H.
  repeat split; auto; lra.
Qed.

Theorem dissolved_nodecay_flush dt (a c d : list R) s :
  let r := @dissolved_nodecay R RArith a c d s dt in
  Forall (fun xo => lo_flushed (snd xo) <> 0 -> lumped_working_vol dt (fst xo) < 1 / 100)
         (combine (dissolved_rows a c d) (snd r)).
Proof. cbn. unfold dissolved_nodecay, lumped_transport. apply lumped_run_flush. Qed.

(** the catalogue kernel with doStorageDecay < 0.5 *)
Lemma dissolved_kernel_unfold (dt flag ari bff mfrt s : R) (a b c d : list R) :
  flag < 1 / 2 ->
  @storage_dissolved_decay_kernel R RArith [dt; flag; ari; bff; mfrt] [s] [a; b; c; d] =
  let r := @dissolved_nodecay R RArith a c d s dt in
  Some ([zeros (snd r); map lo_outflowLoad (snd r)], [fst r]).
Proof.
  intros Hf. unfold storage_dissolved_decay_kernel. runfold.
  assert (E : Rltb flag (1 / 2) = true) by (apply Rltb_true; exact Hf). rewrite E.
  destruct (dissolved_nodecay _ _ _ _ _); reflexivity.
Qed.

(** The pre-fix code dereferenced the nil lateral series on the first step: any
    non-empty run with decay disabled ended the process.  The model of the
    current code never fails on well-formed arguments. *)
Lemma dissolved_kernel_total (dt flag ari bff mfrt s : R) (a b c d : list R) :
  @storage_dissolved_decay_kernel R RArith [dt; flag; ari; bff; mfrt] [s] [a; b; c; d] <> None.
Proof.
  unfold storage_dissolved_decay_kernel.
  destruct (flag <? of_q 1 2)%ar.
  - destruct (dissolved_nodecay _ _ _ _ _); discriminate.
  - destruct (run _ _ _); discriminate.
Qed.

Example dissolved_example :
  @storage_dissolved_decay_kernel R RArith [1; 0; 0; 0; 0] [3] [[1]; [0]; [1]; [1]] = Some ([[0]; [2]], [2]).
Proof.
  rewrite dissolved_kernel_unfold by lra.
  unfold dissolved_nodecay, lumped_transport, lumped_rows, zip4, zip3, zeros. cbn [map combine run].
  runfold. rewrite lumped_noflush_example. reflexivity.
Qed.
