(** Binary64 statements for C12 that exact real arithmetic cannot show (division
    0/0, round-off) -- two regression witnesses of repaired defects (no NaN any
    more) and one remaining finding: the SAME kernel text instantiated at Coq's
    primitive floats ([FArith]) and evaluated by [vm_compute].  Where no libm
    function is reached the statement holds for every [LibM]; where exp/pow are
    reached, for [stubM], a libm of which only "f(NaN) = NaN" matters.
    The correspondence check reproduces each witness on the Go code
    (tools/c12.py, corpus cases). *)
From Coq Require Import ZArith Floats List Bool.
From OW Require Import Base.Arith Base.FInst Kernels.C12Common Kernels.LumpedConstituent Kernels.Decay
  Kernels.InstreamFineSediment Kernels.SedimentTrapping.
Import ListNotations.
Local Open Scope float_scope.

Definition all_nonneg (l : list float) : bool := forallb (fun v => PrimFloat.leb 0 v) l.

(** exp propagates NaN (and is 1 elsewhere), pow is 1: only the NaN behaviour is used *)
Definition stubM : LibM := {|
  l_exp := fun x => if f_is_nan x then x else 1;
  l_ln := fun x => x; l_log10 := fun x => x; l_tanh := fun x => x; l_cos := fun x => x;
  l_pow := fun _ _ => 1 |}.

(** StorageParticulateTrapping, empty reservoir without outflow (outflow = storage = 0), the
    input that made the store NaN before fix 7addb3e: nothing is released and the mass is kept
    (10 kg + 1 kg/s * 86400 s = 86410 kg), for every libm (reservoirLength = 0: pow not reached). *)
Theorem trapping_empty_reservoir_keeps_mass : forall l : LibM,
  @storage_particulate_trapping_kernel float (FArith l)
    [86400; 1000000; 0; 112; 800; 1; 0.5] [10] [[1]; [1]; [0]; [0]] = Some ([[0]; [0]], [86410]).
Proof. intros l. vm_compute. reflexivity. Qed.

(** InstreamFineSediment at outflow exactly equal to bankFullFlow with
    fineSedSettVelocityFlood * floodPlainArea = 0, the input that gave expTerm = -1*(0/0) = NaN
    before fix d80779f: no output and no state is NaN, and there is no floodplain deposit. *)
Theorem fine_at_bankfull_no_nan :
  exists outs c st,
    @instream_fine_sediment_kernel float (FArith stubM)
      [10; 0; 0; 5; 1000; 0.5; 2; 0.5; 1.5; 0.25; 0.125; 0.25; 86400] [0; 100]
      [[0.5]; [0]; [0]; [1000]; [10]] = Some (outs, [c; st]) /\
    forallb (forallb (fun v => negb (f_is_nan v))) outs = true /\
    f_is_nan c = false /\ f_is_nan st = false /\ nth 0 (nth 1 outs []) 1 = 0.
Proof.
  eexists _, _, _. repeat split; try (vm_compute; reflexivity).
Qed.

(** ConstituentDecay (half-life 0: no decay, pow not reached): 0.3 kg/s for one day
    through a reach with 3 m3/s outflow and no storage leaves a stored mass that is
    negative in binary64 (about -3.6e-12 kg) although it is 0 in exact arithmetic. *)
Theorem decay_roundoff_negative_refuted : forall l : LibM,
  exists params states inputs outs st,
    all_nonneg params = true /\ all_nonneg states = true /\ forallb all_nonneg inputs = true /\
    @constituent_decay_kernel float (FArith l) params states inputs = Some (outs, [st]) /\
    PrimFloat.ltb st 0 = true.
Proof.
  intros l.
  exists [0; 0; 86400], [0], [[3 / 10]; [0]; [3]; [3]; [0]].
  eexists _, _. repeat split; try (vm_compute; reflexivity).
Qed.
