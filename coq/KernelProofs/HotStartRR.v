(** C06 / C14 for the rainfall-runoff kernels GR4J, Simhyd, Surm, Sacramento.

    Simhyd, Surm: full theorems for ANY [Arith] instance.

    GR4J: the state vector carries the two unit-hydrograph lengths n1, n2 as
      floats; the kernel reads them back with int().  The cut is exact provided
      the int -> float -> int round trip of n1 and n2 is the identity
      ([gr4j_kernel_split_gen], any [Arith]); it is in R
      ([gr4j_kernel_split_R]: full) and in binary64 for |n| < 2^53 (checked for
      1..64 by [gr4j_float_roundtrip]; x4 <= 4 gives n1 <= 4, n2 <= 8).

    Sacramento: causal for any [Arith].  NOT hot-startable: the unit-hydrograph
      buffer [qq] is a local of the Go function, rebuilt as zeros by every call
      (refuted with a concrete run in HotStartWitness.v).  What does hold
      ([sacramento_kernel_split_partial], over R): when the unit hydrograph has a
      single non-zero ordinate (uh2 = uh3 = uh4 = uh5 = 0, uh1 <> 0) the buffer
      is multiplied by zero everywhere it is read, and the split run equals the
      whole run (1 + side <> 0 is needed to undo the side-flow scaling of the two
      lower-zone free-water states exactly; in floats that scaling costs
      round-off).  Missing for a full theorem: four state slots for qq[1..4]. *)
From Coq Require Import List Arith Lia Bool ZArith.
From OW Require Import Base.Arith Base.Mealy KernelProofs.HotStart.
From OW Require Import Kernels.Gr4j Kernels.Simhyd Kernels.Surm Kernels.Sacramento.
Import ListNotations.

Ltac rows_map_tac :=
  constructor; intros; cbv zeta; cbn [app_series firsts map];
  rewrite ?map_app, ?firstn_map_comm; reflexivity.

Section S.
  Context {T : Type} {A : Arith T}.
  Local Open Scope ar_scope.

  (* ---------------------------------------------------------------- Simhyd *)
  Definition simhyd_unpack (st : list T) : option (list T * simhyd_st) :=
    match st with
    | s0 :: g0 :: t0 :: rest => Some (rest, {| sh_sms := s0; sh_gw := g0; sh_total := t0 |})
    | _ => None
    end.
  Definition simhyd_pack (rest : list T) (st : simhyd_st) : list T :=
    sh_sms st :: sh_gw st :: sh_total st :: rest.
  Definition simhyd_outs (os : list simhyd_out) : list (list T) :=
    [map sh_runoff os; map sh_quickflow os; map sh_baseflow os; map sh_store os].

  Theorem simhyd_kernel_hc (p : list T) : hc_spec (simhyd_kernel p).
  Proof.
    destruct p as [|bc [|it [|ic [|ish [|ifc [|pf [|risc [|rc [|smsc [|? ?]]]]]]]]]]; try exact hc_none.
    set (par := {| sh_baseflowCoefficient := bc; sh_imperviousThreshold := it;
                   sh_infiltrationCoefficient := ic; sh_infiltrationShape := ish;
                   sh_interflowCoefficient := ifc; sh_perviousFraction := pf;
                   sh_risc := risc; sh_rechargeCoefficient := rc; sh_smsc := smsc |}).
    eapply hc_ext; [|apply (hc_machine_simple simhyd_unpack lz2 (fun _ => simhyd_step par) simhyd_pack simhyd_outs);
                     [apply lz2_laws| |]].
    - intros s ins. unfold simhyd_kernel, kernel_of_machine, simhyd_unpack, lz2, simhyd_run.
      destruct ins as [|a [|b [|? ?]]]; try (destruct s as [|? [|? [|? ?]]]; reflexivity).
    - unfold simhyd_outs. rows_map_tac.
    - intros rest [a b c]. reflexivity.
  Qed.

  (* ---------------------------------------------------------------- Surm *)
  Definition surm_unpack (st : list T) : option (list T * surm_st) :=
    match st with
    | s0 :: g0 :: t0 :: rest => Some (rest, {| su_sms := s0; su_gw := g0; su_total := t0 |})
    | _ => None
    end.
  Definition surm_pack (rest : list T) (st : surm_st) : list T :=
    su_sms st :: su_gw st :: su_total st :: rest.
  Definition surm_outs (os : list surm_out) : list (list T) :=
    [map su_runoff os; map su_quickflow os; map su_baseflow os; map su_store os].

  Theorem surm_kernel_hc (p : list T) : hc_spec (surm_kernel p).
  Proof.
    destruct p as [|bfac [|coeff [|dseep [|fcFrac [|fimp [|rfac [|smax [|sq [|thres [|? ?]]]]]]]]]]; try exact hc_none.
    set (par := {| su_bfac := bfac; su_coeff := coeff; su_dseep := dseep; su_fcFrac := fcFrac;
                   su_fimp := fimp; su_rfac := rfac; su_smax := smax; su_sq := sq; su_thres := thres |}).
    eapply hc_ext; [|apply (hc_machine_simple surm_unpack lz2 (fun _ => surm_step par) surm_pack surm_outs);
                     [apply lz2_laws| |]].
    - intros s ins. unfold surm_kernel, kernel_of_machine, surm_unpack, lz2, surm_run.
      destruct ins as [|a [|b [|? ?]]]; try (destruct s as [|? [|? [|? ?]]]; reflexivity).
    - unfold surm_outs. rows_map_tac.
    - intros rest [a b c]. reflexivity.
  Qed.

  (* ---------------------------------------------------------------- GR4J *)
  (** aux = (n1, n2, states beyond the two buffers) *)
  Definition gr4j_aux := (Z * Z * list T)%type.
  Definition gr4j_unpack (st : list T) : option (gr4j_aux * gr4j_st) :=
    match st with
    | s :: r :: fn1 :: fn2 :: rest =>
        let n1 := truncZ fn1 in
        let n2 := truncZ fn2 in
        if ((1 <=? n1) && (1 <=? n2) && (n1 + n2 <=? Z.of_nat (length rest)))%Z then
          let k1 := Z.to_nat n1 in
          let k2 := Z.to_nat n2 in
          Some ((n1, n2, skipn (k2 + k1) rest),
                {| g_s := s; g_r := r; g_q1 := firstn k2 rest; g_q9 := firstn k1 (skipn k2 rest) |})
        else None
    | _ => None
    end.
  Definition gr4j_pack (aux : gr4j_aux) (st : gr4j_st) : list T :=
    let '(n1, n2, tail) := aux in
    g_s st :: g_r st :: of_Z n1 :: of_Z n2 :: g_q1 st ++ g_q9 st ++ tail.
  Definition gr4j_mstep (x1 x2 x3 x4 : T) (aux : gr4j_aux) :=
    let '(n1, n2, _) := aux in gr4j_step (gr4j_mkpar x1 x2 x3 x4 (Z.to_nat n1) (Z.to_nat n2)).

  Definition gr4j_machine (x1 x2 x3 x4 : T) : kern T :=
    kernel_of_machine gr4j_unpack lz2 (gr4j_mstep x1 x2 x3 x4) (fun _ => true) gr4j_pack
      (fun qs : list T => Some [qs]).

  Lemma gr4j_kernel_eq (x1 x2 x3 x4 : T) : forall s ins,
    gr4j_kernel [x1; x2; x3; x4] s ins = gr4j_machine x1 x2 x3 x4 s ins.
  Proof.
    intros s ins. unfold gr4j_kernel, gr4j_machine, kernel_of_machine, gr4j_unpack, lz2, gr4j_run, gr4j_mstep.
    destruct ins as [|a [|b [|? ?]]];
      try (destruct s as [|? [|? [|? [|? ?]]]]; try reflexivity; cbv zeta; destruct (_ && _); reflexivity).
  Qed.

  Lemma uh_add_length c : forall (q uh : list T), length (uh_add c q uh) = Nat.min (length q) (length uh).
  Proof. induction q as [|a q IH]; intros [|u uh]; cbn; try reflexivity. now rewrite IH. Qed.
  Lemma uh_shift_length (q : list T) : 1 <= length q -> length (uh_shift q) = length q.
  Proof. destruct q; cbn; [lia|]. intros _. rewrite app_length. cbn. lia. Qed.
  Lemma uh_of_length (sh : nat -> T) n : length (uh_of sh n) = n.
  Proof. unfold uh_of. now rewrite map_length, seq_length. Qed.

  Lemma firstn_app_exact {X} k (a b : list X) : length a = k -> firstn k (a ++ b) = a.
  Proof. intros <-. now rewrite firstn_app, Nat.sub_diag, firstn_all, firstn_O, app_nil_r. Qed.
  Lemma skipn_app_exact {X} k (a b : list X) : length a = k -> skipn k (a ++ b) = b.
  Proof. intros <-. now rewrite skipn_app, Nat.sub_diag, skipn_all. Qed.

  Definition gr4j_inv (k1 k2 : nat) (st : gr4j_st (T := T)) : Prop :=
    length (g_q1 st) = k2 /\ length (g_q9 st) = k1.

  Lemma gr4j_step_inv x1 x2 x3 x4 k1 k2 st io : 1 <= k1 -> 1 <= k2 ->
    gr4j_inv k1 k2 st -> gr4j_inv k1 k2 (fst (gr4j_step (gr4j_mkpar x1 x2 x3 x4 k1 k2) st io)).
  Proof.
    intros H1 H2 [I1 I9]. unfold gr4j_step. destruct io as [rain pet].
    destruct (gr4j_production _ _ _ _) as [S2 Pr]. destruct (gr4j_routing _ _ _ _ _) as [R3 qtot].
    cbn [fst g_q1 g_q9 gr4j_mkpar g_uh1 g_uh2]. unfold gr4j_inv. cbn [g_q1 g_q9].
    unfold gr4j_uh1, gr4j_uh2.
    rewrite !uh_shift_length; rewrite !uh_add_length, !uh_of_length; lia.
  Qed.

  Lemma gr4j_run_inv x1 x2 x3 x4 k1 k2 xs : 1 <= k1 -> 1 <= k2 -> forall st,
    gr4j_inv k1 k2 st -> gr4j_inv k1 k2 (fst (run (gr4j_step (gr4j_mkpar x1 x2 x3 x4 k1 k2)) st xs)).
  Proof.
    intros H1 H2. induction xs as [|x r IH]; intros st I; cbn; [exact I|].
    pose proof (gr4j_step_inv x1 x2 x3 x4 k1 k2 st x H1 H2 I) as I1.
    destruct (gr4j_step _ st x) as [s1 o]. cbn in I1. specialize (IH s1 I1).
    destruct (run _ s1 r). exact IH.
  Qed.

  (** the cut is exact when n1, n2 survive the float round trip *)
  Theorem gr4j_kernel_split_gen (p s0 : list T) ins n :
    (forall s r fn1 fn2 rest, s0 = s :: r :: fn1 :: fn2 :: rest ->
       truncZ (of_Z (truncZ fn1)) = truncZ fn1 /\ truncZ (of_Z (truncZ fn2)) = truncZ fn2) ->
    split_at (gr4j_kernel p) s0 ins n.
  Proof.
    intros Hrt.
    destruct p as [|x1 [|x2 [|x3 [|x4 [|? ?]]]]]; try reflexivity.
    apply (split_at_ext _ _ s0 ins n (gr4j_kernel_eq x1 x2 x3 x4)).
    apply (kernel_of_machine_split_at gr4j_unpack lz2 (gr4j_mstep x1 x2 x3 x4) (fun _ => true) gr4j_pack
             (fun qs : list T => Some [qs]) lz2_laws
             (rows_outs_laws (fun qs : list T => [qs]) ltac:(constructor; intros; reflexivity))
             ltac:(intros; discriminate) (fun _ a b => a = b)).
    - intros aux a b x ->. split; reflexivity.
    - intros aux a b ->. reflexivity.
    - intros aux a b ->. reflexivity.
    - intros aux st xs Eu Ez s1 _. exists s1. split; [|reflexivity].
      unfold gr4j_unpack in Eu.
      destruct s0 as [|s [|r [|fn1 [|fn2 rest]]]]; try discriminate.
      destruct (Hrt s r fn1 fn2 rest eq_refl) as [R1 R2]. cbv zeta in Eu.
      destruct ((1 <=? truncZ fn1)%Z && (1 <=? truncZ fn2)%Z &&
                (truncZ fn1 + truncZ fn2 <=? Z.of_nat (length rest))%Z) eqn:Ec; [|discriminate].
      injection Eu as <- <-.
      apply andb_prop in Ec. destruct Ec as [Ec E3]. apply andb_prop in Ec. destruct Ec as [E1 E2].
      apply Z.leb_le in E1, E2, E3.
      set (n1 := truncZ fn1) in *. set (n2 := truncZ fn2) in *.
      set (k1 := Z.to_nat n1) in *. set (k2 := Z.to_nat n2) in *.
      assert (K1 : 1 <= k1) by (unfold k1; lia). assert (K2 : 1 <= k2) by (unfold k2; lia).
      assert (L : k2 + k1 <= length rest) by (unfold k1, k2; lia).
      assert (I0 : gr4j_inv k1 k2 {| g_s := s; g_r := r; g_q1 := firstn k2 rest;
                                     g_q9 := firstn k1 (skipn k2 rest) |}).
      { split; cbn; [rewrite firstn_length; lia|rewrite firstn_length, skipn_length; lia]. }
      pose proof (gr4j_run_inv x1 x2 x3 x4 k1 k2 (firstn n xs) K1 K2 _ I0) as I.
      subst s1. unfold gr4j_mstep. fold k1 k2.
      destruct (run _ _ (firstn n xs)) as [[s' r' q1 q9] os]. cbn [fst] in I |- *.
      destruct I as [I1 I9]. cbn in I1, I9.
      unfold gr4j_pack, gr4j_unpack. cbn [g_s g_r g_q1 g_q9]. cbv zeta.
      rewrite R1, R2. fold n1 n2 k1 k2.
      rewrite !app_length, I1, I9, skipn_length.
      replace ((1 <=? n1)%Z && (1 <=? n2)%Z && (n1 + n2 <=? Z.of_nat (k2 + (k1 + (length rest - (k2 + k1)))))%Z)
        with true by (symmetry; rewrite !andb_true_iff; repeat split; apply Z.leb_le; unfold k1, k2; lia).
      rewrite (firstn_app_exact k2 q1), (skipn_app_exact k2 q1), (firstn_app_exact k1 q9) by assumption.
      rewrite app_assoc, (skipn_app_exact (k2 + k1) (q1 ++ q9)) by (rewrite app_length; lia).
      reflexivity.
  Qed.

  Theorem gr4j_kernel_causal (p : list T) : causal_spec (gr4j_kernel p).
  Proof.
    destruct p as [|x1 [|x2 [|x3 [|x4 [|? ?]]]]]; try apply causal_spec_none.
    eapply causal_spec_ext; [apply gr4j_kernel_eq|].
    apply kernel_of_machine_causal; [apply lz2_laws|].
    apply (rows_outs_laws (fun qs : list T => [qs])). constructor; intros; reflexivity.
  Qed.

  (* ---------------------------------------------------------------- Sacramento *)
  Definition sac_par_of (ps : list T) : option sac_par :=
    match ps with
    | [p1; p2; p3; p4; p5; p6; p7; p8; p9; p10; p11; p12; p13; p14; p15; p16; p17; p18; p19; p20; p21; p22] =>
        Some {| lzpk := p1; lzsk := p2; uzk := p3; uztwm := p4; uzfwm := p5; lztwm := p6;
                lzfsm := p7; lzfpm := p8; pfree := p9; rexp := p10; zperc := p11;
                side := p12; ssout := p13; pctim := p14; adimp := p15; sarva := p16;
                rserv := p17; uh1 := p18; uh2 := p19; uh3 := p20; uh4 := p21; uh5 := p22 |}
    | _ => None
    end.
  Definition sac_unpack (p : sac_par) (st : list T) : option (list T * sac_st) :=
    match st with
    | s0 :: s1 :: s2 :: s3 :: s4 :: s5 :: rest => Some (rest, sac_init p s0 s1 s2 s3 s4 s5)
    | _ => None
    end.
  Definition sac_pack (rest : list T) (st : sac_st) : list T :=
    uztwc st :: uzfwc st :: lztwc st :: lzfpc st :: lzfsc st :: adimc st :: rest.
  Definition sac_outs (os : list sac_out) : list (list T) :=
    [map o_aet os; map o_runoff os; map o_imperv os; map o_surface os; map o_baseflow os].
  Lemma sac_outs_laws : rows_laws sac_outs.
  Proof. unfold sac_outs. rows_map_tac. Qed.

  Definition sac_machine (p : sac_par) : kern T :=
    kernel_of_machine (sac_unpack p) lz2 (fun _ => sac_step p) (fun _ => true) sac_pack
      (fun os => Some (sac_outs os)).

  Lemma sacramento_kernel_eq (ps : list T) : forall s ins,
    sacramento_kernel ps s ins =
    match sac_par_of ps with Some p => sac_machine p s ins | None => None end.
  Proof.
    intros s ins.
    destruct ps as [|p1 [|p2 [|p3 [|p4 [|p5 [|p6 [|p7 [|p8 [|p9 [|p10 [|p11 [|p12 [|p13 [|p14 [|p15 [|p16
                   [|p17 [|p18 [|p19 [|p20 [|p21 [|p22 [|? ?]]]]]]]]]]]]]]]]]]]]]]]; try reflexivity.
    cbn [sac_par_of]. unfold sacramento_kernel, sac_machine, kernel_of_machine, sac_unpack, lz2, sac_run.
    destruct ins as [|a [|b [|? ?]]]; try (destruct s as [|? [|? [|? [|? [|? [|? ?]]]]]]; reflexivity).
  Qed.

  Theorem sacramento_kernel_causal (ps : list T) : causal_spec (sacramento_kernel ps).
  Proof.
    eapply causal_spec_ext; [apply sacramento_kernel_eq|].
    destruct (sac_par_of ps) as [p|]; [|apply causal_spec_none].
    apply kernel_of_machine_causal; [apply lz2_laws|apply rows_outs_laws, sac_outs_laws].
  Qed.
End S.

(* ------------------------------------------------------------------ real-number instance *)
From Coq Require Import Reals Lra.
From OW Require Import Base.RInst KernelProofs.HotStartStateless.
Local Open Scope R_scope.

Theorem gr4j_kernel_split_R (p : list R) : split_spec (gr4j_kernel (A := RArith) p).
Proof.
  intros s0 ins n. apply gr4j_kernel_split_gen.
  intros s r fn1 fn2 rest _. cbn [truncZ of_Z RArith]. now rewrite !Rtrunc_IZR.
Qed.

(* ---------------------------------------------------------------- Sacramento over R *)
Section SacR.
  Variable p : sac_par (T := R).
  Hypothesis Huh : uh2 p = 0 /\ uh3 p = 0 /\ uh4 p = 0 /\ uh5 p = 0.
  Hypothesis Huh1 : uh1 p <> 0.
  Hypothesis Hside : 1 + side p <> 0.

  (** loop states equal in everything but the unit-hydrograph buffer *)
  Definition sac_sim (a b : sac_st (T := R)) : Prop :=
    uztwc a = uztwc b /\ uzfwc a = uzfwc b /\ lztwc a = lztwc b /\ lzfpc a = lzfpc b /\
    lzfsc a = lzfsc b /\ adimc a = adimc b /\ alzfsc a = alzfsc b /\ alzfpc a = alzfpc b.

  Lemma sac_land_sim a b io : sac_sim a b -> sac_land p a io = sac_land p b io.
  Proof.
    intros (H1 & H2 & H3 & H4 & H5 & H6 & H7 & H8). destruct a, b. cbn in *. subst. reflexivity.
  Qed.

  Lemma sac_dro_single : sac_dro p = [1; 0; 0; 0; 0].
  Proof.
    destruct Huh as (U2 & U3 & U4 & U5).
    unfold sac_dro, sac_uh_sum, sum_left. rewrite U2, U3, U4, U5. cbn [fold_left].
    runfold. replace (0 + uh1 p + 0 + 0 + 0 + 0) with (uh1 p) by ring.
    repeat f_equal; field; exact Huh1.
  Qed.

  Lemma fold_zero_weights : forall (l : list R) (zs : list R) acc, Forall (fun z => z = 0) zs ->
    fold_left Rplus (map (fun qd : R * R => fst qd * snd qd) (combine l zs)) acc = acc.
  Proof.
    induction l as [|q l IH]; intros [|z zs] acc H; cbn; try reflexivity.
    inversion H as [|? ? Hz Hr]; subst. rewrite IH by assumption. ring.
  Qed.

  (** with a single ordinate the routed surface flow is the current inflow,
      whatever the buffer holds *)
  Lemma sac_channel_sim qq0 qq0' evapt flosf roimp floin flobf :
    c_qf (sac_channel p qq0 evapt flosf roimp floin flobf) = c_qf (sac_channel p qq0' evapt flosf roimp floin flobf) /\
    c_bf (sac_channel p qq0 evapt flosf roimp floin flobf) = c_bf (sac_channel p qq0' evapt flosf roimp floin flobf) /\
    c_e4 (sac_channel p qq0 evapt flosf roimp floin flobf) = c_e4 (sac_channel p qq0' evapt flosf roimp floin flobf).
  Proof.
    assert (E : forall q0 x, fold_left add (map (fun qd : R * R => fst qd * snd qd)
                                             (combine (x :: tl q0) (sac_dro p))) zero = x).
    { intros q0 x. rewrite sac_dro_single. cbn [combine map fold_left]. runfold.
      rewrite fold_zero_weights by (repeat constructor). cbn [fst snd]. ring. }
    unfold sac_channel. cbv zeta. cbn [c_qf c_bf c_e4]. rewrite !E. repeat split; reflexivity.
  Qed.

  Lemma sac_step_sim a b io : sac_sim a b ->
    sac_sim (fst (sac_step p a io)) (fst (sac_step p b io)) /\ snd (sac_step p a io) = snd (sac_step p b io).
  Proof.
    intros H. unfold sac_step. rewrite (sac_land_sim a b io H). cbv zeta.
    set (l := sac_land p b io).
    destruct (sac_channel_sim (qq a) (qq b) (snd io) (i_flosf (l_v l)) (i_roimp (l_v l)) (i_floin (l_v l))
                (i_flobf (l_v l))) as (Q1 & Q2 & Q3).
    cbn [fst snd]. split.
    - unfold sac_sim. cbn. repeat split; reflexivity.
    - rewrite Q1, Q2, Q3. reflexivity.
  Qed.

  (** the two scaled lower-zone contents are consistent with the packed ones *)
  Definition sac_scaled (st : sac_st (T := R)) : Prop :=
    alzfsc st = lzfsc st * (1 + side p) /\ alzfpc st = lzfpc st * (1 + side p).

  Lemma sac_step_scaled st io : sac_scaled (fst (sac_step p st io)).
  Proof. unfold sac_step, sac_scaled. cbn. runfold. split; field; exact Hside. Qed.

  Lemma sac_run_scaled xs : forall st, sac_scaled st -> sac_scaled (fst (run (sac_step p) st xs)).
  Proof.
    induction xs as [|x r IH]; intros st H; [exact H|]. cbn [run].
    pose proof (sac_step_scaled st x) as H1. destruct (sac_step p st x) as [s1 o]. cbn [fst] in H1.
    specialize (IH s1 H1). destruct (run (sac_step p) s1 r). exact IH.
  Qed.

  Theorem sac_machine_split : split_spec (sac_machine p).
  Proof.
    apply (kernel_of_machine_split (sac_unpack p) lz2 (fun _ => sac_step p) (fun _ => true) sac_pack
             (fun os => Some (sac_outs os)) lz2_laws (rows_outs_laws _ sac_outs_laws)
             ltac:(intros; discriminate) (fun _ => sac_sim)) with (Inv := fun _ => sac_scaled).
    - intros aux a b x H. apply sac_step_sim, H.
    - intros; reflexivity.
    - intros aux a b (H1 & H2 & H3 & H4 & H5 & H6 & _). unfold sac_pack. now rewrite H1, H2, H3, H4, H5, H6.
    - intros s aux st H. unfold sac_unpack in H.
      destruct s as [|s0 [|s1 [|s2 [|s3 [|s4 [|s5 rest]]]]]]; try discriminate. injection H as <- <-.
      unfold sac_scaled, sac_init. cbn. runfold. split; reflexivity.
    - intros aux st x _. apply sac_step_scaled.
    - intros aux st [S1 S2] _. eexists. split; [reflexivity|].
      unfold sac_sim, sac_init. cbn. runfold. unfold sac_scaled in S1, S2. runfold.
      repeat split; try reflexivity; first [assumption | symmetry; assumption].
  Qed.
End SacR.

Theorem sacramento_kernel_split_partial (ps : list R) p :
  sac_par_of ps = Some p ->
  uh2 p = 0 /\ uh3 p = 0 /\ uh4 p = 0 /\ uh5 p = 0 -> uh1 p <> 0 -> 1 + side p <> 0 ->
  split_spec (sacramento_kernel (A := RArith) ps).
Proof.
  intros Ep Huh Huh1 Hside. eapply split_spec_ext; [apply sacramento_kernel_eq|]. rewrite Ep.
  apply sac_machine_split; assumption.
Qed.

(** binary64: the round trip of small buffer lengths, by computation *)
From Coq Require Import Floats.
From OW Require Import Base.FInst.
Example gr4j_float_roundtrip :
  forallb (fun z => Z.eqb (f_truncZ (f_of_Z z)) z) (map Z.of_nat (seq 1 64)) = true.
Proof. vm_compute. reflexivity. Qed.

