(** Proofs about the runoff-coefficient model (Kernels/Coeff.v) at the real
    instance (C10): runoff is coeff * rainfall pointwise, non-negative, and its
    cumulative sum never exceeds cumulative rainfall at any prefix. *)
From Coq Require Import Reals Lra Lia List Bool ZArith.
From OW Require Import Base.Arith Base.RInst Base.Mealy Kernels.Coeff KernelProofs.RRCommon.
Import ListNotations.
Local Open Scope R_scope.

Lemma coeff_run_map : forall (c : R) (rain : list R),
  coeff_run c rain = map (fun r => c * r) rain.
Proof.
  intros c rain. unfold coeff_run. generalize tt.
  induction rain as [|x r IH]; intros u; cbn; [reflexivity|].
  specialize (IH u). destruct (run (coeff_step c) u r) as [s2 os].
  cbn in *. now rewrite IH.
Qed.

Lemma coeff_prefix_le : forall (c : R) (rain : list R) (t : nat), 0 <= c <= 1 ->
  Forall (fun r => 0 <= r) rain ->
  rr_sum (firstn t (map (fun r => c * r) rain)) <= rr_sum (firstn t rain) /\
  0 <= rr_sum (firstn t (map (fun r => c * r) rain)).
Proof.
  intros c rain t Hc. revert t.
  induction rain as [|x r IH]; intros [|t] H; cbn; try lra.
  inversion H; subst. destruct (IH t H3) as [IH1 IH2].
  assert (0 <= c * x <= x) by nra. lra.
Qed.

Theorem coeff_c10 : forall c rain, 0 <= c <= 1 -> Forall (fun r => 0 <= r) rain ->
  length (coeff_run c rain) = length rain /\
  coeff_run c rain = map (fun r => c * r) rain /\
  Forall (fun q => 0 <= q) (coeff_run c rain) /\
  (forall t, rr_sum (firstn t (coeff_run c rain)) <= rr_sum (firstn t rain)).
Proof.
  intros c rain Hc Hrain. rewrite coeff_run_map.
  split; [apply map_length|]. split; [reflexivity|]. split.
  - induction Hrain; cbn; constructor; auto. apply Rmult_le_pos; lra.
  - intros t. exact (proj1 (coeff_prefix_le c rain t Hc Hrain)).
Qed.
