(** C16 proofs for the concentration-based generators and PassLoadIfFlow:
    EmcDwc, FixedConcentration, SednetDissolvedNutrientGeneration,
    SednetParticulateNutrientGeneration, PassLoadIfFlow.  Over [RArith]. *)
From Coq Require Import ZArith List Reals Lra.
From OW Require Import Base.Arith Base.RInst Base.Mealy Kernels.C16Common Kernels.UnitConsts
  Kernels.EmcDwc Kernels.FixedConcentration Kernels.PassLoadIfFlow Kernels.DissolvedNutrients
  Kernels.ParticulateNutrients KernelProofs.C16Lib.
Import ListNotations.
Local Open Scope R_scope.

(** load [kg/s] of a flow [m3/s] at a concentration [mg/L]: the mg/L -> kg/m3 factor is 1/1000 *)
Definition conc_load (conc flow : R) : R := flow * conc * (1 / 1000).

Lemma conc_load_linear_flow c a b x y : conc_load c (a * x + b * y) = a * conc_load c x + b * conc_load c y.
Proof. unfold conc_load; ring. Qed.
Lemma conc_load_linear_conc q a b c d : conc_load (a * c + b * d) q = a * conc_load c q + b * conc_load d q.
Proof. unfold conc_load; ring. Qed.
Lemma conc_load_zero c q : q = 0 \/ c = 0 -> conc_load c q = 0.
Proof. unfold conc_load; intros [->| ->]; ring. Qed.
Lemma conc_load_nonneg c q : 0 <= q -> 0 <= c -> 0 <= conc_load c q.
Proof. unfold conc_load; intros. apply Rmult_le_pos; [apply Rmult_le_pos; assumption|lra]. Qed.

(** linear in the flow series (superposition over whole runs) *)
Lemma conc_load_superposition c a b (xs ys : list R) :
  map (conc_load c) (zipw (fun x y => a * x + b * y) xs ys) =
  zipw (fun x y => a * x + b * y) (map (conc_load c) xs) (map (conc_load c) ys).
Proof.
  unfold zipw. rewrite map_map.
  revert ys; induction xs as [|x xs IH]; intros [|y ys]; cbn; try reflexivity.
  f_equal; [apply conc_load_linear_flow|apply IH].
Qed.

Lemma mgl_R : u_MG_PER_LITRE_TO_KG_PER_M3 (A := RArith) = 1 / 1000.
Proof. reflexivity. Qed.

(** ** EmcDwc *)
Lemma emc_dwc_run (emc dwc : R) (quickflow baseflow st : list R) :
  emc_dwc_kernel [emc; dwc] st [quickflow; baseflow] =
  Some ([map (fun x => conc_load emc (fst x)) (combine quickflow baseflow);
         map (fun x => conc_load dwc (snd x)) (combine quickflow baseflow);
         map (fun x => conc_load emc (fst x) + conc_load dwc (snd x)) (combine quickflow baseflow)], st).
Proof.
  unfold emc_dwc_kernel. runfold.
  destruct (Reqb emc 0 && Reqb dwc 0)%bool eqn:E.
  - apply andb_prop in E. destruct E as [E1 E2]. apply Reqb_true in E1, E2. subst.
    unfold untouched. do 3 f_equal; [|f_equal; [|f_equal]]; apply map_ext; intros [a b]; unfold conc_load; runfold; cbn [fst snd]; ring.
  - unfold emc_dwc_step. rewrite snd_run_loop_step, !map_map.
    do 3 f_equal; [|f_equal; [|f_equal]]; apply map_ext; intros [a b]; reflexivity.
Qed.

Theorem emc_dwc_total : forall (emc dwc : R) (quickflow baseflow st : list R),
  length quickflow = length baseflow ->
  exists quick slow total,
    emc_dwc_kernel [emc; dwc] st [quickflow; baseflow] = Some ([quick; slow; total], st)
    /\ total = zipw Rplus quick slow
    /\ quick = map (conc_load emc) quickflow
    /\ slow = map (conc_load dwc) baseflow.
Proof.
  intros emc dwc qf sf st Hl. do 3 eexists. split; [apply emc_dwc_run|]. split; [|split].
  - rewrite zipw_map_same. reflexivity.
  - rewrite <- (map_fst_combine qf sf Hl) at 2. now rewrite map_map.
  - rewrite <- (map_snd_combine qf sf Hl) at 2. now rewrite map_map.
Qed.

(** ** FixedConcentration *)
Theorem fixed_conc_linear : forall (conc : R) (flow st : list R),
  fixed_concentration_kernel [conc] st [flow] = Some ([map (conc_load conc) flow], st).
Proof.
  intros. unfold fixed_concentration_kernel. runfold. rcase_bool (Reqb conc 0).
  - subst. unfold untouched. do 3 f_equal. apply map_ext. intros; unfold conc_load; runfold; ring.
  - unfold fixed_concentration_step. rewrite snd_run_loop_step. reflexivity.
Qed.

(** ** SednetDissolvedNutrientGeneration : the same map, computed through L/day and mg *)
Lemma dissolved_nutrients_run (emc dwc : R) (quickflow slowflow st : list R) :
  dissolved_nutrients_kernel [emc; dwc] st [quickflow; slowflow] =
  Some ([map (fun x => conc_load emc (fst x)) (combine quickflow slowflow);
         map (fun x => conc_load dwc (snd x)) (combine quickflow slowflow);
         map (fun x => conc_load emc (fst x) + conc_load dwc (snd x)) (combine quickflow slowflow)], st).
Proof.
  unfold dissolved_nutrients_kernel, dissolved_nutrients_step. rewrite snd_run_loop_step, !map_map.
  do 3 f_equal; [|f_equal; [|f_equal]]; apply map_ext; intros [a b];
    unfold dissolved_nutrients_row, conc_load, u_CUMECS_TO_LITRES_PER_DAY, u_MILLIGRAM_TO_KG, u_SECONDS_PER_DAY, of_qp;
    cbn [fst snd q_CUMECS_TO_LITRES_PER_DAY q_MILLIGRAM_TO_KG q_SECONDS_PER_DAY]; runfold; field.
Qed.

Theorem dissolved_nutrients_total : forall (emc dwc : R) (quickflow slowflow st : list R),
  length quickflow = length slowflow ->
  exists quick slow total,
    dissolved_nutrients_kernel [emc; dwc] st [quickflow; slowflow] = Some ([quick; slow; total], st)
    /\ total = zipw Rplus quick slow
    /\ quick = map (conc_load emc) quickflow
    /\ slow = map (conc_load dwc) slowflow.
Proof.
  intros emc dwc qf sf st Hl. do 3 eexists. split; [apply dissolved_nutrients_run|]. split; [|split].
  - rewrite zipw_map_same. reflexivity.
  - rewrite <- (map_fst_combine qf sf Hl) at 2. now rewrite map_map.
  - rewrite <- (map_snd_combine qf sf Hl) at 2. now rewrite map_map.
Qed.

(** zero when the driver is zero, non-negative when the drivers are: for any series produced
    by [map (conc_load c)] *)
Theorem conc_load_series_zero_nonneg : forall (c : R) (flow : list R),
  Forall2 (fun q l => (q = 0 \/ c = 0 -> l = 0) /\ (0 <= q -> 0 <= c -> 0 <= l)) flow (map (conc_load c) flow).
Proof.
  intros. apply Forall2_map_r. intros q. split; [apply conc_load_zero|apply conc_load_nonneg].
Qed.

Example conc_load_example : conc_load 100 2 = 2 / 10 /\ 0 <= (2 : R) /\ 0 <= (100 : R).
Proof. unfold conc_load. lra. Qed.

(** ** PassLoadIfFlow : mask by flow > 1e-8, then scale *)
Definition pass_mask (k f l : R) : R := if Rlt_dec (1 / 100000000) f then l * k else 0.

Theorem pass_load_if_flow_spec : forall (k : R) (flow inputLoad st : list R),
  pass_load_if_flow_kernel [k] st [flow; inputLoad] = Some ([zipw (pass_mask k) flow inputLoad], st).
Proof.
  intros. unfold pass_load_if_flow_kernel. runfold. unfold zipw. rcase_bool (Reqb k 0).
  - subst. unfold untouched. do 3 f_equal. apply map_ext. intros [f l]. unfold pass_mask. runfold.
    destruct (Rlt_dec _ _); cbn [fst snd]; ring.
  - unfold pass_load_if_flow_step. rewrite snd_run_loop_step. do 3 f_equal. apply map_ext. intros [f l].
    unfold pass_load_if_flow_row, pass_mask, gtb, u_EFFECTIVELY_ZERO, of_qp. cbn [fst snd q_EFFECTIVELY_ZERO].
    runfold. unfold Rltb. destruct (Rlt_dec _ _); reflexivity.
Qed.

Lemma pass_mask_zero_flow k f l : f <= 0 -> pass_mask k f l = 0.
Proof. intros. unfold pass_mask. destruct (Rlt_dec _ _); [lra|reflexivity]. Qed.
Lemma pass_mask_pass k f l : 1 / 100000000 < f -> pass_mask k f l = l * k.
Proof. intros. unfold pass_mask. destruct (Rlt_dec _ _); [reflexivity|lra]. Qed.

Lemma pass_mask_spec : forall k f l : R,
  (f <= 0 -> pass_mask k f l = 0) /\ (1 / 100000000 < f -> pass_mask k f l = l * k).
Proof. intros k f l. exact (conj (pass_mask_zero_flow k f l) (pass_mask_pass k f l)). Qed.

Lemma conc_load_is_linear : forall c d q r a b : R,
  conc_load c (a * q + b * r) = a * conc_load c q + b * conc_load c r
  /\ conc_load (a * c + b * d) q = a * conc_load c q + b * conc_load d q
  /\ conc_load c q = q * c * (1 / 1000).
Proof.
  intros. exact (conj (conc_load_linear_flow c a b q r) (conj (conc_load_linear_conc q a b c d) eq_refl)).
Qed.

(** ** SednetParticulateNutrientGeneration *)
Section Particulate.
  Variable p : pn_params (T := R).

  Definition pn_hill_formula (fineSheet coarseSheet : R) : R :=
    (fineSheet + coarseSheet) * pn_nutSurfSoilConc p * pn_NER p * (pn_hillDeliveryRatio p * (1 / 100)).
  Definition pn_gully_formula (fineGully coarseGully : R) : R :=
    (fineGully + coarseGully) * pn_nutSubSoilConc p * pn_NER_gully p * (pn_gullyDeliveryRatio p * (1 / 100)).

  (** per step: totals, delivered = generated x concentration x enrichment x delivery ratio (%) *)
  Lemma particulate_nutrients_row_spec (fs cs fg cg sf : R) :
    let o := particulate_nutrients_row p (fs, cs, fg, cg, sf) in
    pn_total o = pn_quick o + pn_slow o
    /\ pn_quick o = pn_hillslope o + pn_gully o
    /\ pn_hillslope o = pn_hill_formula fs cs
    /\ pn_gully o = pn_gully_formula fg cg
    /\ pn_slow o = conc_load (pn_nutrientDWC p) sf.
  Proof.
    unfold particulate_nutrients_row, pn_hill_formula, pn_gully_formula, conc_load, gtb,
      u_PERCENT_TO_PROPORTION, u_MG_PER_LITRE_TO_KG_PER_M3, of_qp.
    cbn [fst snd q_PERCENT_TO_PROPORTION q_MG_PER_LITRE_TO_KG_PER_M3]. runfold.
    destruct (Rltb _ _); cbn; repeat split; reflexivity.
  Qed.

  Lemma particulate_nutrients_row_zero (fs cs fg cg sf : R) :
    let o := particulate_nutrients_row p (fs, cs, fg, cg, sf) in
    (fs + cs = 0 -> pn_hillslope o = 0) /\ (fg + cg = 0 -> pn_gully o = 0)
    /\ (fs + cs = 0 -> fg + cg = 0 -> pn_quick o = 0) /\ (sf = 0 -> pn_slow o = 0).
  Proof.
    destruct (particulate_nutrients_row_spec fs cs fg cg sf) as (Ht & Hq & Hh & Hg & Hs).
    cbv zeta. rewrite Hq, Hh, Hg, Hs. unfold pn_hill_formula, pn_gully_formula, conc_load.
    split; [intros H; rewrite H; ring|]. split; [intros H; rewrite H; ring|].
    split; [intros H H0; rewrite H, H0; ring|intros ->; ring].
  Qed.

  Lemma particulate_nutrients_row_nonneg (fs cs fg cg sf : R) :
    0 <= pn_nutSurfSoilConc p -> 0 <= pn_NER p -> 0 <= pn_hillDeliveryRatio p ->
    0 <= pn_nutSubSoilConc p -> 0 <= pn_NER_gully p -> 0 <= pn_gullyDeliveryRatio p ->
    0 <= pn_nutrientDWC p ->
    0 <= fs -> 0 <= cs -> 0 <= fg -> 0 <= cg -> 0 <= sf ->
    let o := particulate_nutrients_row p (fs, cs, fg, cg, sf) in
    0 <= pn_hillslope o /\ 0 <= pn_gully o /\ 0 <= pn_quick o /\ 0 <= pn_slow o /\ 0 <= pn_total o.
  Proof.
    intros. destruct (particulate_nutrients_row_spec fs cs fg cg sf) as (Ht & Hq & Hh & Hg & Hs).
    fold o in Ht, Hq, Hh, Hg, Hs.
    assert (0 <= pn_hillslope o).
    { rewrite Hh. unfold pn_hill_formula. repeat apply Rmult_le_pos; lra. }
    assert (0 <= pn_gully o).
    { rewrite Hg. unfold pn_gully_formula. repeat apply Rmult_le_pos; lra. }
    assert (0 <= pn_slow o).
    { rewrite Hs. apply conc_load_nonneg; assumption. }
    rewrite Ht, Hq. repeat split; lra.
  Qed.
End Particulate.

Lemma particulate_nutrients_run (area nsc hdr ner nssc nerg gdr dwc creams : R) (fs cs fg cg sf st : list R) :
  let p := {| pn_area := area; pn_nutSurfSoilConc := nsc; pn_hillDeliveryRatio := hdr; pn_NER := ner;
              pn_nutSubSoilConc := nssc; pn_NER_gully := nerg; pn_gullyDeliveryRatio := gdr;
              pn_nutrientDWC := dwc; pn_doCreams := creams |} in
  let os := map (particulate_nutrients_row p) (combine5 fs cs fg cg sf) in
  particulate_nutrients_kernel [area; nsc; hdr; ner; nssc; nerg; gdr; dwc; creams] st [fs; cs; fg; cg; sf] =
  Some ([map pn_quick os; map pn_slow os; map pn_total os; map pn_hillslope os; map pn_gully os], st).
Proof.
  cbv zeta. unfold particulate_nutrients_kernel, particulate_nutrients_step. rewrite snd_run_loop_step. reflexivity.
Qed.

Example particulate_nutrients_hyps_satisfiable :
  let p := {| pn_area := 1; pn_nutSurfSoilConc := 1/1000; pn_hillDeliveryRatio := 10; pn_NER := 2;
              pn_nutSubSoilConc := 1/1000; pn_NER_gully := 1; pn_gullyDeliveryRatio := 100;
              pn_nutrientDWC := 1; pn_doCreams := 0 |} in
  pn_hillslope (particulate_nutrients_row p (3, 2, 1, 1, 1)) = 1 / 1000.
Proof. cbv zeta. rewrite (proj1 (proj2 (proj2 (particulate_nutrients_row_spec _ 3 2 1 1 1)))). unfold pn_hill_formula. cbn. lra. Qed.
