(** Sacramento (C10), REPAIRED code: whole-step and whole-run water budget (hypotheses: sac_ok, the
    store invariant, non-negative forcing with pet <= uztwm + lztwm; see KernelProofs/SacramentoLand.v), obtained by combining the two land-phase budgets
    (pervious area, ADIMP area) with the channel-phase budget of KernelProofs/Sacramento.v. *)
From Coq Require Import Reals Lra Lia List Bool ZArith.
From OW Require Import Base.Arith Base.RInst Base.Mealy Kernels.Sacramento
  KernelProofs.RRCommon KernelProofs.Sacramento KernelProofs.SacramentoLand.
Import ListNotations.
Local Open Scope R_scope.

(** water held by the model, per unit catchment area: the five soil stores on the pervious
    fraction, the ADIMP store on its fraction, and the unit-hydrograph buffer *)
Definition sac_stock (p : sac_par (T:=R)) (st : sac_st (T:=R)) : R :=
  (1 - pctim p - adimp p) * (uztwc st + uzfwc st + lztwc st + alzfpc st + alzfsc st)
  + adimp p * adimc st + sac_uh_store p (qq st).

Lemma sac_uh_store_nonneg p q : sac_ok p = true -> qq_ok q -> 0 <= sac_uh_store p q.
Proof.
  intros Hok Hq. destruct (sac_uh_normalised p Hok) as [Hd [_ Hl]].
  destruct (qq_ok_inv q Hq) as (q0 & q1 & q2 & q3 & q4 & -> & H0 & H1 & H2 & H3 & H4).
  unfold sac_uh_store. cbv zeta.
  destruct (sac_dro p) as [|d0 [|d1 [|d2 [|d3 [|d4 [|]]]]]]; try discriminate.
  inversion Hd as [|? ? D0 Hd1]; subst. inversion Hd1 as [|? ? D1 Hd2]; subst.
  inversion Hd2 as [|? ? D2 Hd3]; subst. inversion Hd3 as [|? ? D3 Hd4]; subst.
  inversion Hd4 as [|? ? D4 _]; subst.
  cbn [nth]. cbv beta in *.
  repeat apply Rplus_le_le_0_compat; apply Rmult_le_pos; lra.
Qed.

Lemma sac_stock_nonneg p st : sac_ok p = true -> st_inv p st -> qq_ok (qq st) -> 0 <= sac_stock p st.
Proof.
  intros Hok I Hq. pose proof (sac_uh_store_nonneg p (qq st) Hok Hq).
  pose proof Hok as Hok'. sac_ok_split Hok'. destruct I. unfold sac_stock.
  assert (0 <= 1 - pctim p - adimp p) by lra.
  assert (0 <= (1 - pctim p - adimp p) * (uztwc st + uzfwc st + lztwc st + alzfpc st + alzfsc st))
    by (apply Rmult_le_pos; lra).
  assert (0 <= adimp p * adimc st) by (apply Rmult_le_pos; lra).
  lra.
Qed.

(** per-step budget: stores after + runoff + actual ET <= stores before + rain
    (the difference is the losses: side flow, ssout) *)
Theorem sac_step_budget : forall p st io, sac_ok p = true ->
  st_inv p st -> qq_ok (qq st) -> 0 <= fst io -> 0 <= snd io <= uztwm p + lztwm p ->
  sac_stock p (fst (sac_step p st io)) + (o_runoff (snd (sac_step p st io)) + o_aet (snd (sac_step p st io)))
    <= sac_stock p st + fst io.
Proof.
  intros p st io Hok I Hq Hp [He He'].
  destruct (sac_land_inv p st io Hok I Hp (conj He He')) as (I1 & U1 & E1 & E2 & E3 & E5 & Es & B1 & B2).
  destruct I1 as [F1 F2 F3 F4 F5 Fbf Fin Fsf Fro].
  pose proof (sac_channel_ok p (qq st) (snd io) (i_flosf (l_v (sac_land p st io)))
                (i_roimp (l_v (sac_land p st io))) (i_floin (l_v (sac_land p st io)))
                (i_flobf (l_v (sac_land p st io))) Hok Hq He Fsf Fro Fin Fbf) as C.
  cbv zeta in C. destruct C as (_ & C4 & _ & _ & CB).
  pose proof Hok as Hok'. sac_ok_split Hok'.
  unfold sac_stock, sac_step. cbn [fst snd uztwc uzfwc lztwc adimc alzfsc alzfpc qq o_runoff o_aet].
  set (l := sac_land p st io) in *. set (v := l_v l) in *.
  set (ch := sac_channel p (qq st) (snd io) (i_flosf v) (i_roimp v) (i_floin v) (i_flobf v)) in *.
  set (f := 1 - pctim p - adimp p) in *.
  assert (Hf : 0 <= f) by (unfold f; lra).
  unfold perv_sum in B1.
  (* the side loss only removes water *)
  assert (Hside : i_flobf v * f / (1 + side p) <= i_flobf v * f).
  { assert (0 <= i_flobf v * f) by (apply Rmult_le_pos; auto).
    apply Rmult_le_reg_r with (1 + side p); [lra|].
    unfold Rdiv. rewrite Rmult_assoc, Rinv_l by lra. nra. }
  (* f * (pervious budget) *)
  assert (B1f : f * (l_uztwc l + (i_uzfwc v + i_lztwc v + i_alzfpc v + i_alzfsc v + i_flobf v + i_floin v + i_flosf v)
                     + l_e1 l + l_e2 l + l_e3 l)
                = f * (uztwc st + uzfwc st + lztwc st + alzfpc st + alzfsc st + fst io)) by (rewrite B1; reflexivity).
  runfold. replace (1 - adimp p - pctim p) with f by (unfold f; ring).
  assert (HP1 : fst io * f + fst io * adimp p + fst io * pctim p = fst io) by (unfold f; ring).
  clear -B1f B2 CB Hside HP1.
  lra.
Qed.

Section Run.
  Variable p : sac_par (T:=R).
  Hypothesis Hok : sac_ok p = true.

  (** whole run and every prefix: cumulative runoff + actual ET never exceeds cumulative rain
      plus the water initially stored *)
  Theorem sacramento_budget : forall io st, st_inv p st -> qq_ok (qq st) -> io_nonneg io ->
    pet_bounded p io ->
    sac_stock p (fst (sac_run p st io))
      + rr_sum (map (fun o => o_runoff o + o_aet o) (snd (sac_run p st io)))
      <= sac_stock p st + rr_sum (map fst io).
  Proof.
    induction io as [|x r IH]; intros st I Hq Hio G.
    - cbn. lra.
    - inversion Hio as [|? ? [Hx1 Hx2] Hr]; subst. inversion G as [|? ? G1 G2]; subst.
      destruct (sac_step_inv p st x Hok I Hq Hx1 (conj Hx2 G1)) as (I1 & Q1 & _).
      pose proof (sac_step_budget p st x Hok I Hq Hx1 (conj Hx2 G1)) as B.
      specialize (IH (fst (sac_step p st x)) I1 Q1 Hr G2).
      unfold sac_run in *. cbn [run]. destruct (sac_step p st x) as [s1 o]. cbn [fst snd] in *.
      destruct (run (sac_step p) s1 r) as [s2 os]. cbn [fst snd map rr_sum] in *. lra.
  Qed.

  Theorem sacramento_cumulative : forall io st t, st_inv p st -> qq_ok (qq st) -> io_nonneg io ->
    pet_bounded p io ->
    rr_sum (firstn t (map (fun o => o_runoff o + o_aet o) (snd (sac_run p st io))))
      <= rr_sum (firstn t (map fst io)) + sac_stock p st.
  Proof.
    intros io st t I Hq Hio G.
    rewrite !firstn_map. unfold sac_run. rewrite <- run_firstn.
    pose proof (sacramento_budget (firstn t io) st I Hq (io_nonneg_firstn io t Hio)
                  (pet_bounded_firstn p io t G)) as B.
    destruct (sacramento_c10 p (firstn t io) st Hok I Hq (io_nonneg_firstn io t Hio)
                (pet_bounded_firstn p io t G)) as (I1 & Q1 & _).
    pose proof (sac_stock_nonneg p _ Hok I1 Q1). unfold sac_run in *. lra.
  Qed.
End Run.

(** from the model's own initial state the stock is zero *)
Lemma sac_stock_init0 p : sac_stock p (sac_init p 0 0 0 0 0 0) = 0.
Proof.
  unfold sac_stock, sac_init, sac_uh_store. runfold. cbn [uztwc uzfwc lztwc adimc alzfsc alzfpc qq nth]. ring.
Qed.

(** the store invariant, written out *)
Lemma st_inv_iff p st : st_inv p st <->
  (0 <= uztwc st <= uztwm p /\ 0 <= uzfwc st <= uzfwm p /\ 0 <= lztwc st <= lztwm p /\
   0 <= alzfpc st <= lzfpm p * (1 + side p) /\ 0 <= alzfsc st <= lzfsm p * (1 + side p) /\
   0 <= adimc st <= uztwc st + lztwm p).
Proof.
  split.
  - intros []. tauto.
  - intros (A & B & C & D & E & F). constructor; assumption.
Qed.

(** the reported lower-zone free-water states are the internal side-adjusted contents divided by
    1 + side, hence within [0, lzfpm] and [0, lzfsm] after every step *)
Lemma sac_reported_lz_bounds p st io : sac_ok p = true -> st_inv p (fst (sac_step p st io)) ->
  0 <= lzfpc (fst (sac_step p st io)) <= lzfpm p /\ 0 <= lzfsc (fst (sac_step p st io)) <= lzfsm p.
Proof.
  intros Hok I. pose proof Hok as Hok'. sac_ok_split Hok'. destruct I as [_ _ _ Ip Is _].
  unfold sac_step in *. cbn [fst lzfpc lzfsc alzfpc alzfsc] in *. runfold.
  set (a := i_alzfpc _) in *. set (b := i_alzfsc _) in *.
  assert (Hs : 0 < 1 + side p) by lra.
  assert (Hi : 0 < / (1 + side p)) by (apply Rinv_0_lt_compat; lra).
  assert (Ea : lzfpm p = lzfpm p * (1 + side p) / (1 + side p)) by (field; lra).
  assert (Eb : lzfsm p = lzfsm p * (1 + side p) / (1 + side p)) by (field; lra).
  repeat split.
  - unfold Rdiv. apply Rmult_le_pos; lra.
  - rewrite Ea. unfold Rdiv. apply Rmult_le_compat_r; lra.
  - unfold Rdiv. apply Rmult_le_pos; lra.
  - rewrite Eb. unfold Rdiv. apply Rmult_le_compat_r; lra.
Qed.
