(** GR4J unit hydrographs (C10, C15): the ordinates built by the code equal the
    differences of the published S-curves for every x4 > 0 with n1 = ceil(x4),
    n2 = ceil(2*x4) (in particular for every x4 in [0.5, 4]); they are
    non-negative and sum to one. *)
From Coq Require Import Reals Lra Lia List ZArith.
From OW Require Import Base.Arith Base.RInst Kernels.Gr4j Num.Gr4jSpec
  KernelProofs.RRCommon KernelProofs.Gr4jMath.
Import ListNotations.
Local Open Scope R_scope.

(** ** generic facts about [uh_of] *)
Lemma uh_of_S (sh : nat -> R) n : uh_of sh (S n) = uh_of sh n ++ [uh_ord sh n].
Proof. unfold uh_of. rewrite seq_S, map_app. reflexivity. Qed.

Lemma uh_of_length (sh : nat -> R) n : length (uh_of sh n) = n.
Proof. unfold uh_of. now rewrite map_length, seq_length. Qed.

Lemma uh_of_nth (sh : nat -> R) n i : (i < n)%nat -> nth i (uh_of sh n) 0 = uh_ord sh i.
Proof.
  intros H. unfold uh_of.
  rewrite (nth_indep _ 0 (uh_ord sh 0)) by (now rewrite map_length, seq_length).
  rewrite map_nth, seq_nth; auto.
Qed.

(** telescoping: the ordinates sum to the last S-curve value *)
Lemma uh_of_sum (sh : nat -> R) n : rr_sum (uh_of sh (S n)) = sh n.
Proof.
  induction n as [|n IH].
  - cbn. runfold. lra.
  - rewrite uh_of_S, rr_sum_app, IH. cbn. runfold. lra.
Qed.

Lemma uh_of_nonneg (sh : nat -> R) n :
  0 <= sh O -> (forall j, (S j < n)%nat -> sh j <= sh (S j)) ->
  Forall (fun u => 0 <= u) (uh_of sh n).
Proof.
  intros H0 Hm. induction n as [|n IH]; [constructor|].
  rewrite uh_of_S. apply Forall_app. split.
  - apply IH. intros j Hj. apply Hm. lia.
  - constructor; [|constructor]. destruct n as [|m]; cbn; runfold; auto.
    specialize (Hm m ltac:(lia)). lra.
Qed.

(** ** the published S-curves are monotone with values in [0,1] *)
Lemma SH1_range x4 t : 0 < x4 -> 0 <= SH1 x4 t <= 1.
Proof.
  intros Hx. unfold SH1. destruct (Rle_dec t 0); [lra|]. destruct (Rlt_dec t x4); [|lra].
  split; [apply pow52_nonneg|]. apply pow52_le_1.
  assert (0 < t / x4) by (apply Rdiv_lt_0_compat; lra).
  assert (t / x4 < 1) by (apply Rmult_lt_reg_r with x4; auto; unfold Rdiv; rewrite Rmult_assoc, Rinv_l; lra).
  lra.
Qed.

Lemma div_le_div x4 s t : 0 < x4 -> s <= t -> s / x4 <= t / x4.
Proof. intros. unfold Rdiv. apply Rmult_le_compat_r; auto. left. now apply Rinv_0_lt_compat. Qed.

Lemma SH1_mono x4 s t : 0 < x4 -> s <= t -> SH1 x4 s <= SH1 x4 t.
Proof.
  intros Hx Hst. pose proof (SH1_range x4 t Hx) as Ht. pose proof (SH1_range x4 s Hx) as Hs.
  unfold SH1 in *.
  destruct (Rle_dec s 0); [lra|]. destruct (Rle_dec t 0); [lra|].
  destruct (Rlt_dec s x4); destruct (Rlt_dec t x4); try lra.
  apply pow52_mono. split; [|apply div_le_div; auto].
  left. apply Rdiv_lt_0_compat; lra.
Qed.

Lemma frac_bounds x4 t : 0 < x4 -> 0 <= t <= x4 -> 0 <= t / x4 <= 1.
Proof.
  intros Hx Ht. split.
  - unfold Rdiv. apply Rmult_le_pos; [lra|]. left. now apply Rinv_0_lt_compat.
  - apply Rmult_le_reg_r with x4; auto. unfold Rdiv. rewrite Rmult_assoc, Rinv_l; lra.
Qed.

Lemma SH2_range x4 t : 0 < x4 -> 0 <= SH2 x4 t <= 1.
Proof.
  intros Hx. unfold SH2. destruct (Rle_dec t 0); [lra|]. destruct (Rle_dec t x4).
  - pose proof (frac_bounds x4 t Hx ltac:(lra)) as Hf.
    pose proof (pow52_nonneg (t / x4)). pose proof (pow52_le_1 (t / x4) Hf). lra.
  - destruct (Rlt_dec t (2 * x4)); [|lra].
    assert (Hf : 0 <= 2 - t / x4 <= 1).
    { pose proof (frac_bounds x4 (2 * x4 - t) Hx ltac:(lra)) as Hf.
      replace ((2 * x4 - t) / x4) with (2 - t / x4) in Hf by (field; lra). lra. }
    pose proof (pow52_nonneg (2 - t / x4)). pose proof (pow52_le_1 _ Hf). lra.
Qed.

Lemma SH2_mono x4 s t : 0 < x4 -> s <= t -> SH2 x4 s <= SH2 x4 t.
Proof.
  intros Hx Hst. pose proof (SH2_range x4 t Hx) as Ht. pose proof (SH2_range x4 s Hx) as Hs.
  unfold SH2 in *.
  destruct (Rle_dec s 0); [lra|]. destruct (Rle_dec t 0); [lra|].
  destruct (Rle_dec s x4) as [Hs4|Hs4]; destruct (Rle_dec t x4) as [Ht4|Ht4]; try lra.
  - (* both on the rising limb *)
    assert (pow52 (s / x4) <= pow52 (t / x4)); [|lra].
    apply pow52_mono. split; [|apply div_le_div; auto]. apply (frac_bounds x4 s Hx); lra.
  - (* s on the first limb, t beyond *)
    pose proof (frac_bounds x4 s Hx ltac:(lra)) as Hf.
    pose proof (pow52_le_1 (s / x4) Hf).
    destruct (Rlt_dec t (2 * x4)); [|lra].
    assert (Hg : 0 <= 2 - t / x4 <= 1).
    { pose proof (frac_bounds x4 (2 * x4 - t) Hx ltac:(lra)) as Hg.
      replace ((2 * x4 - t) / x4) with (2 - t / x4) in Hg by (field; lra). lra. }
    pose proof (pow52_le_1 _ Hg). lra.
  - (* both beyond x4 *)
    destruct (Rlt_dec s (2 * x4)); destruct (Rlt_dec t (2 * x4)); try lra.
    assert (pow52 (2 - t / x4) <= pow52 (2 - s / x4)); [|lra].
    apply pow52_mono. pose proof (div_le_div x4 s t Hx Hst). split; [|lra].
    pose proof (frac_bounds x4 (2 * x4 - t) Hx ltac:(lra)) as Hg.
    replace ((2 * x4 - t) / x4) with (2 - t / x4) in Hg by (field; lra). lra.
Qed.

(** published ordinates: non-negative, and zero beyond the time base *)
Lemma UH1_nonneg x4 j : 0 < x4 -> 0 <= UH1 x4 j.
Proof. intros. unfold UH1. pose proof (SH1_mono x4 (INR j - 1) (INR j) H). lra. Qed.
Lemma UH2_nonneg x4 j : 0 < x4 -> 0 <= UH2 x4 j.
Proof. intros. unfold UH2. pose proof (SH2_mono x4 (INR j - 1) (INR j) H). lra. Qed.

Lemma UH1_beyond x4 n j : 0 < x4 -> is_ceil x4 n -> (n < j)%nat -> UH1 x4 j = 0.
Proof.
  intros Hx [_ Hn] Hj. unfold UH1, SH1.
  assert (INR n + 1 <= INR j) by (rewrite <- S_INR; apply le_INR; lia).
  destruct (Rle_dec (INR j) 0); [lra|]. destruct (Rlt_dec (INR j) x4); [lra|].
  destruct (Rle_dec (INR j - 1) 0); [lra|]. destruct (Rlt_dec (INR j - 1) x4); lra.
Qed.
Lemma UH2_beyond x4 n j : 0 < x4 -> is_ceil (2 * x4) n -> (n < j)%nat -> UH2 x4 j = 0.
Proof.
  intros Hx [_ Hn] Hj. unfold UH2, SH2.
  assert (INR n + 1 <= INR j) by (rewrite <- S_INR; apply le_INR; lia).
  destruct (Rle_dec (INR j) 0); [lra|]. destruct (Rle_dec (INR j) x4); [lra|].
  destruct (Rlt_dec (INR j) (2 * x4)); [lra|].
  destruct (Rle_dec (INR j - 1) 0); [lra|]. destruct (Rle_dec (INR j - 1) x4); [lra|].
  destruct (Rlt_dec (INR j - 1) (2 * x4)); lra.
Qed.

(** ** the code's S-curve arrays are the published S-curves at t = 1, 2, ... *)
Lemma IZR_of_nat_succ i : IZR (Z.of_nat i + 1) = INR (S i).
Proof. rewrite plus_IZR, <- INR_IZR_INZ, S_INR. reflexivity. Qed.

Lemma is_ceil_pos x n : 0 < x -> is_ceil x n -> (1 <= n)%nat.
Proof.
  intros Hx [_ H]. destruct n; [|lia]. simpl in H. lra.
Qed.

Lemma sh1_is_SH1 x4 n1 i : 0 < x4 -> is_ceil x4 n1 -> (i < n1)%nat ->
  gr4j_sh1 x4 n1 i = SH1 x4 (INR (S i)).
Proof.
  intros Hx [Hlo Hhi] Hi. unfold gr4j_sh1, SH1.
  assert (Hpos : 0 < INR (S i)) by (apply lt_0_INR; lia).
  destruct (Rle_dec (INR (S i)) 0); [lra|].
  destruct (Nat.eqb (S i) n1) eqn:E.
  - apply Nat.eqb_eq in E. subst n1. destruct (Rlt_dec (INR (S i)) x4); [lra|]. reflexivity.
  - apply Nat.eqb_neq in E.
    assert (INR (S i) <= INR n1 - 1).
    { assert (S (S i) <= n1)%nat by lia. apply le_INR in H. rewrite (S_INR (S i)) in H. lra. }
    destruct (Rlt_dec (INR (S i)) x4); [|lra].
    runfold. unfold c52. runfold. rewrite IZR_of_nat_succ. apply Rpow_52.
    left. apply Rdiv_lt_0_compat; lra.
Qed.

Lemma sh2_is_SH2 x4 n2 i : 0 < x4 -> is_ceil (2 * x4) n2 -> (i < n2)%nat ->
  gr4j_sh2 x4 n2 i = SH2 x4 (INR (S i)).
Proof.
  intros Hx [Hlo Hhi] Hi. unfold gr4j_sh2, SH2.
  assert (Hpos : 0 < INR (S i)) by (apply lt_0_INR; lia).
  destruct (Rle_dec (INR (S i)) 0); [lra|].
  destruct (Nat.eqb (S i) n2) eqn:E.
  - apply Nat.eqb_eq in E. subst n2.
    destruct (Rle_dec (INR (S i)) x4); [lra|]. destruct (Rlt_dec (INR (S i)) (2 * x4)); [lra|]. reflexivity.
  - apply Nat.eqb_neq in E.
    assert (INR (S i) <= INR n2 - 1).
    { assert (S (S i) <= n2)%nat by lia. apply le_INR in H. rewrite (S_INR (S i)) in H. lra. }
    runfold. unfold c52. runfold. rewrite IZR_of_nat_succ.
    destruct (Rleb (INR (S i)) x4) eqn:Hc.
    + apply Rleb_true in Hc. destruct (Rle_dec (INR (S i)) x4); [|lra].
      rewrite Rpow_52 by (left; apply Rdiv_lt_0_compat; lra). lra.
    + apply Rleb_false in Hc. destruct (Rle_dec (INR (S i)) x4); [lra|].
      destruct (Rlt_dec (INR (S i)) (2 * x4)); [|lra].
      rewrite Rpow_52. { lra. }
      pose proof (frac_bounds x4 (2 * x4 - INR (S i)) Hx ltac:(lra)) as Hg.
      replace ((2 * x4 - INR (S i)) / x4) with (2 - INR (S i) / x4) in Hg by (field; lra). lra.
Qed.

Lemma SH1_at_0 x4 : SH1 x4 (INR 0) = 0.
Proof. unfold SH1. simpl. destruct (Rle_dec 0 0); lra. Qed.
Lemma SH2_at_0 x4 : SH2 x4 (INR 0) = 0.
Proof. unfold SH2. simpl. destruct (Rle_dec 0 0); lra. Qed.

(** ** C15 [core]: the code's ordinates are the differences of the published S-curves *)
Theorem gr4j_uh1_is_scurve_difference x4 n1 : 0 < x4 -> is_ceil x4 n1 ->
  gr4j_uh1 x4 n1 = map (fun i => UH1 x4 (S i)) (seq 0 n1).
Proof.
  intros Hx Hc. unfold gr4j_uh1, uh_of. apply map_ext_in. intros i Hi. apply in_seq in Hi.
  unfold UH1. replace (INR (S i) - 1) with (INR i) by (rewrite S_INR; lra).
  destruct i as [|j]; cbn [uh_ord]; runfold.
  - rewrite sh1_is_SH1, SH1_at_0 by (auto; lia). lra.
  - rewrite !sh1_is_SH1 by (auto; lia). reflexivity.
Qed.

Theorem gr4j_uh2_is_scurve_difference x4 n2 : 0 < x4 -> is_ceil (2 * x4) n2 ->
  gr4j_uh2 x4 n2 = map (fun i => UH2 x4 (S i)) (seq 0 n2).
Proof.
  intros Hx Hc. unfold gr4j_uh2, uh_of. apply map_ext_in. intros i Hi. apply in_seq in Hi.
  unfold UH2. replace (INR (S i) - 1) with (INR i) by (rewrite S_INR; lra).
  destruct i as [|j]; cbn [uh_ord]; runfold.
  - rewrite sh2_is_SH2, SH2_at_0 by (auto; lia). lra.
  - rewrite !sh2_is_SH2 by (auto; lia). reflexivity.
Qed.

Lemma uh1_nth x4 n1 i : 0 < x4 -> is_ceil x4 n1 -> nth i (gr4j_uh1 x4 n1) 0 = UH1 x4 (S i).
Proof.
  intros Hx Hc. rewrite gr4j_uh1_is_scurve_difference by auto.
  destruct (Nat.lt_ge_cases i n1) as [Hi|Hi].
  - rewrite (nth_indep _ 0 (UH1 x4 1)) by (now rewrite map_length, seq_length).
    change (UH1 x4 1) with ((fun i => UH1 x4 (S i)) O). rewrite map_nth, seq_nth; auto.
  - rewrite nth_overflow by (now rewrite map_length, seq_length).
    symmetry. apply (UH1_beyond x4 n1); auto. lia.
Qed.
Lemma uh2_nth x4 n2 i : 0 < x4 -> is_ceil (2 * x4) n2 -> nth i (gr4j_uh2 x4 n2) 0 = UH2 x4 (S i).
Proof.
  intros Hx Hc. rewrite gr4j_uh2_is_scurve_difference by auto.
  destruct (Nat.lt_ge_cases i n2) as [Hi|Hi].
  - rewrite (nth_indep _ 0 (UH2 x4 1)) by (now rewrite map_length, seq_length).
    change (UH2 x4 1) with ((fun i => UH2 x4 (S i)) O). rewrite map_nth, seq_nth; auto.
  - rewrite nth_overflow by (now rewrite map_length, seq_length).
    symmetry. apply (UH2_beyond x4 n2); auto. lia.
Qed.

(** ** C10 [core]: ordinates non-negative and summing to one *)
Theorem gr4j_uh1_sums_to_one x4 n1 : 0 < x4 -> is_ceil x4 n1 ->
  Forall (fun u => 0 <= u) (gr4j_uh1 x4 n1) /\ rr_sum (gr4j_uh1 x4 n1) = 1 /\
  length (gr4j_uh1 x4 n1) = n1.
Proof.
  intros Hx Hc. pose proof (is_ceil_pos x4 n1 Hx Hc) as Hn. repeat split.
  - rewrite gr4j_uh1_is_scurve_difference by auto. apply Forall_forall. intros u Hu.
    apply in_map_iff in Hu. destruct Hu as [i [<- _]]. apply UH1_nonneg; auto.
  - destruct n1 as [|m]; [lia|]. unfold gr4j_uh1. rewrite uh_of_sum.
    unfold gr4j_sh1. rewrite Nat.eqb_refl. reflexivity.
  - apply uh_of_length.
Qed.

Theorem gr4j_uh2_sums_to_one x4 n2 : 0 < x4 -> is_ceil (2 * x4) n2 ->
  Forall (fun u => 0 <= u) (gr4j_uh2 x4 n2) /\ rr_sum (gr4j_uh2 x4 n2) = 1 /\
  length (gr4j_uh2 x4 n2) = n2.
Proof.
  intros Hx Hc. pose proof (is_ceil_pos (2 * x4) n2 ltac:(lra) Hc) as Hn. repeat split.
  - rewrite gr4j_uh2_is_scurve_difference by auto. apply Forall_forall. intros u Hu.
    apply in_map_iff in Hu. destruct Hu as [i [<- _]]. apply UH2_nonneg; auto.
  - destruct n2 as [|m]; [lia|]. unfold gr4j_uh2. rewrite uh_of_sum.
    unfold gr4j_sh2. rewrite Nat.eqb_refl. reflexivity.
  - apply uh_of_length.
Qed.

(** every x4 in the documented range [0.5, 4] has UH lengths 1..4 and 1..8 *)
Lemma is_ceil_range x4 n1 n2 : 1 / 2 <= x4 <= 4 -> is_ceil x4 n1 -> is_ceil (2 * x4) n2 ->
  (1 <= n1 <= 4)%nat /\ (1 <= n2 <= 8)%nat.
Proof.
  intros Hx [H1 H2] [H3 H4].
  assert (A : forall n k, INR n - 1 < IZR (Z.of_nat k) -> (n <= k)%nat).
  { intros n k H. rewrite <- INR_IZR_INZ in H.
    assert (n < S k)%nat by (apply INR_lt; rewrite S_INR; lra). lia. }
  assert (n1 <= 4)%nat by (apply A; simpl; lra).
  assert (n2 <= 8)%nat by (apply A; simpl; lra).
  assert (1 <= n1)%nat by (apply (is_ceil_pos x4); [lra|split; auto]).
  assert (1 <= n2)%nat by (apply (is_ceil_pos (2 * x4)); [lra|split; auto]).
  lia.
Qed.
