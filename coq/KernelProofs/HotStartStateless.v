(** C06 / C14 for the kernels without a loop state (conversion, functions,
    generation, climate, dates, RunoffCoefficient): each is an instance of
    [HotStart.kernel_of_rows] (RatingCurvePartition: of [kernel_of_machine] with
    the "has not panicked" flag as state), for ANY [Arith] instance.

    [hc_spec K] = split_spec K /\ causal_spec K.

    Models that return early on a zero factor (ApplyScalingFactor, DeliveryRatio,
    DepthToRate, EmcDwc, FixedConcentration, PassLoadIfFlow) or never write an
    output (BaseflowFilter, StorageTrapAll.outflowMass, ...) leave the output
    series as allocated; the kernels model that as [untouched] = a series of
    [zero], which is exactly the hypothesis of C04 that outputs are
    zero-initialised ([zero_factor_leaves_outputs]).

    DateGenerator has NO state: the date is recomputed from the start-date
    parameters in every call, so it is causal but a split run restarts the
    calendar ([date_generator_kernel_split_refuted]; outside C06's quantifier,
    which ranges over stateful models). *)
From Coq Require Import List Arith Lia Bool ZArith.
From OW Require Import Base.Arith Base.Mealy KernelProofs.HotStart.
From OW Require Import Kernels.C16Common Kernels.Scale Kernels.DeliveryRatio Kernels.DepthToRate
  Kernels.FixedPartition Kernels.VarPartition Kernels.RatingPartition Kernels.Baseflow
  Kernels.ComputeProportion Kernels.Gate Kernels.Input Kernels.PartitionDemand Kernels.Sum
  Kernels.EmcDwc Kernels.FixedConcentration Kernels.PassLoadIfFlow Kernels.DissolvedNutrients
  Kernels.ParticulateNutrients Kernels.BankErosion Kernels.UsleFine Kernels.SednetGully
  Kernels.SednetGullyAlt Kernels.Coeff Num.Calendar Num.Climate.
Import ListNotations.

Lemma run_loop_step {I O} (f : I -> O) xs : run (loop_step f) tt xs = (tt, map f xs).
Proof. apply run_unit_state. Qed.

(** [rows_laws] of an output block built from [map]s over the rows *)
Ltac rows_tac :=
  constructor; intros; cbv zeta;
  repeat match goal with |- context [if ?b then _ else _] => destruct b end;
  unfold untouched; rewrite ?run_loop_step; cbn [snd fst app_series firsts map];
  rewrite ?map_app, ?firstn_map_comm; reflexivity.

(** kernel = kernel_of_rows ..., by cases on the number of input series *)
Ltac inst_tac :=
  let s := fresh "s" in let i := fresh "ins" in intros s i; cbn;
  repeat (destruct i as [|? i]; try reflexivity).

Section S.
  Context {T : Type} {A : Arith T}.
  Local Open Scope ar_scope.

  (** C04's hypothesis made explicit: on a zero factor the kernel's output is
      the untouched (zero-initialised) series, whatever the input *)
  Lemma zero_factor_leaves_outputs (scale : T) (input : list T) :
    (scale =? zero) = true -> apply_scaling scale input = map (fun _ => zero) input.
  Proof. intros H. unfold apply_scaling. rewrite H. reflexivity. Qed.
  Lemma zero_area_leaves_outputs (deltaT area : T) (input : list T) :
    (area =? zero) = true -> depth_to_rate deltaT area input = map (fun _ => zero) input.
  Proof. intros H. unfold depth_to_rate. rewrite H. reflexivity. Qed.

  Theorem apply_scaling_factor_kernel_hc (p : list T) : hc_spec (apply_scaling_factor_kernel p).
  Proof.
    destruct p as [|scale [|? ?]]; try exact hc_none.
    eapply hc_ext; [|apply (hc_rows lz1 (fun input => [apply_scaling scale input])); [apply lz1_laws|]].
    - inst_tac.
    - unfold apply_scaling, apply_scaling_step. rows_tac.
  Qed.

  Theorem delivery_ratio_kernel_hc (p : list T) : hc_spec (delivery_ratio_kernel p).
  Proof.
    destruct p as [|scale [|? ?]]; try exact hc_none.
    eapply hc_ext; [|apply (hc_rows lz1 (fun input => [apply_scaling scale input])); [apply lz1_laws|]].
    - inst_tac.
    - unfold apply_scaling, apply_scaling_step. rows_tac.
  Qed.

  Theorem depth_to_rate_kernel_hc (p : list T) : hc_spec (depth_to_rate_kernel p).
  Proof.
    destruct p as [|deltaT [|area [|? ?]]]; try exact hc_none.
    eapply hc_ext; [|apply (hc_rows lz1 (fun input => [depth_to_rate deltaT area input])); [apply lz1_laws|]].
    - inst_tac.
    - unfold depth_to_rate, depth_to_rate_step. rows_tac.
  Qed.

  Theorem fixed_partition_kernel_hc (p : list T) : hc_spec (fixed_partition_kernel p).
  Proof.
    destruct p as [|fraction [|? ?]]; try exact hc_none.
    eapply hc_ext; [|apply (hc_rows lz1 (fun input =>
        let os := snd (run (fixed_partition_step fraction) tt input) in [map fst os; map snd os]));
        [apply lz1_laws|]].
    - inst_tac.
    - unfold fixed_partition_step. rows_tac.
  Qed.

  Theorem variable_partition_kernel_hc (p : list T) : hc_spec (variable_partition_kernel p).
  Proof.
    destruct p as [|? ?]; try exact hc_none.
    eapply hc_ext; [|apply (hc_rows lz2 (fun rows =>
        let os := snd (run variable_partition_step tt rows) in [map fst os; map snd os]));
        [apply lz2_laws|]].
    - inst_tac.
    - unfold variable_partition_step. rows_tac.
  Qed.

  Theorem baseflow_filter_kernel_hc (p : list T) : hc_spec (baseflow_filter_kernel p).
  Proof.
    destruct p as [|? ?]; try exact hc_none.
    eapply hc_ext; [|apply (hc_rows lz1 (fun (sf : list T) => [untouched sf; untouched sf])); [apply lz1_laws|]].
    - inst_tac.
    - rows_tac.
  Qed.

  Theorem compute_proportion_kernel_hc (p : list T) : hc_spec (compute_proportion_kernel p).
  Proof.
    destruct p as [|r [|? ?]]; try exact hc_none.
    eapply hc_ext; [|apply (hc_rows lz2 (fun rows => [snd (run (compute_proportion_step r) tt rows)]));
        [apply lz2_laws|]].
    - inst_tac.
    - unfold compute_proportion_step. rows_tac.
  Qed.

  Theorem gate_kernel_hc (p : list T) : hc_spec (gate_kernel p).
  Proof.
    destruct p as [|? ?]; try exact hc_none.
    eapply hc_ext; [|apply (hc_rows lz2 (fun rows => [snd (run gate_step tt rows)])); [apply lz2_laws|]].
    - inst_tac.
    - unfold gate_step. rows_tac.
  Qed.

  Theorem input_kernel_hc (p : list T) : hc_spec (input_kernel p).
  Proof.
    destruct p as [|? ?]; try exact hc_none.
    eapply hc_ext; [|apply (hc_rows lz1 (fun (i : list T) => [i])); [apply lz1_laws|]].
    - inst_tac.
    - constructor; intros; reflexivity.
  Qed.

  Theorem partition_demand_kernel_hc (p : list T) : hc_spec (partition_demand_kernel p).
  Proof.
    destruct p as [|? ?]; try exact hc_none.
    eapply hc_ext; [|apply (hc_rows lz2 (fun rows =>
        let os := snd (run partition_demand_step tt rows) in [map fst os; map snd os]));
        [apply lz2_laws|]].
    - inst_tac.
    - unfold partition_demand_step. rows_tac.
  Qed.

  Theorem sum_kernel_hc (p : list T) : hc_spec (sum_kernel p).
  Proof.
    destruct p as [|? ?]; try exact hc_none.
    eapply hc_ext; [|apply (hc_rows lz2 (fun rows => [snd (run sum_step tt rows)])); [apply lz2_laws|]].
    - inst_tac.
    - unfold sum_step. rows_tac.
  Qed.

  Theorem emc_dwc_kernel_hc (p : list T) : hc_spec (emc_dwc_kernel p).
  Proof.
    destruct p as [|emc [|dwc [|? ?]]]; try exact hc_none.
    eapply hc_ext; [|apply (hc_rows lz2 (fun rows =>
        if (emc =? zero) && (dwc =? zero) then
          [untouched rows; untouched rows; untouched rows]
        else
          let os := snd (run (emc_dwc_step emc dwc) tt rows) in
          [map (fun o => fst (fst o)) os; map (fun o => snd (fst o)) os; map snd os])); [apply lz2_laws|]].
    - inst_tac. destruct (_ && _); reflexivity.
    - unfold emc_dwc_step. rows_tac.
  Qed.

  Theorem fixed_concentration_kernel_hc (p : list T) : hc_spec (fixed_concentration_kernel p).
  Proof.
    destruct p as [|conc [|? ?]]; try exact hc_none.
    eapply hc_ext; [|apply (hc_rows lz1 (fun flow =>
        if conc =? zero then [untouched flow]
        else [snd (run (fixed_concentration_step conc) tt flow)])); [apply lz1_laws|]].
    - inst_tac. destruct (_ =? _); reflexivity.
    - unfold fixed_concentration_step. rows_tac.
  Qed.

  Theorem pass_load_if_flow_kernel_hc (p : list T) : hc_spec (pass_load_if_flow_kernel p).
  Proof.
    destruct p as [|k [|? ?]]; try exact hc_none.
    eapply hc_ext; [|apply (hc_rows lz2 (fun rows =>
        if k =? zero then [untouched rows]
        else [snd (run (pass_load_if_flow_step k) tt rows)])); [apply lz2_laws|]].
    - inst_tac. destruct (_ =? _); reflexivity.
    - unfold pass_load_if_flow_step. rows_tac.
  Qed.

  Theorem dissolved_nutrients_kernel_hc (p : list T) : hc_spec (dissolved_nutrients_kernel p).
  Proof.
    destruct p as [|emc [|dwc [|? ?]]]; try exact hc_none.
    eapply hc_ext; [|apply (hc_rows lz2 (fun rows =>
        let os := snd (run (dissolved_nutrients_step emc dwc) tt rows) in
        [map (fun o => fst (fst o)) os; map (fun o => snd (fst o)) os; map snd os])); [apply lz2_laws|]].
    - inst_tac.
    - unfold dissolved_nutrients_step. rows_tac.
  Qed.

  Theorem particulate_nutrients_kernel_hc (p : list T) : hc_spec (particulate_nutrients_kernel p).
  Proof.
    destruct p as [|area [|nsc [|hdr [|ner [|nssc [|nerg [|gdr [|dwc [|creams [|? ?]]]]]]]]]]; try exact hc_none.
    eapply hc_ext; [|apply (hc_rows lz5 (fun rows =>
        let p := {| pn_area := area; pn_nutSurfSoilConc := nsc; pn_hillDeliveryRatio := hdr; pn_NER := ner;
                    pn_nutSubSoilConc := nssc; pn_NER_gully := nerg; pn_gullyDeliveryRatio := gdr;
                    pn_nutrientDWC := dwc; pn_doCreams := creams |} in
        let os := snd (run (particulate_nutrients_step p) tt rows) in
        [map pn_quick os; map pn_slow os; map pn_total os; map pn_hillslope os; map pn_gully os]));
        [apply lz5_laws|]].
    - inst_tac.
    - unfold particulate_nutrients_step. rows_tac.
  Qed.

  Theorem bank_erosion_kernel_hc (p : list T) : hc_spec (bank_erosion_kernel p).
  Proof.
    destruct p as [|rv [|mrv [|se [|coeff [|slope [|bff [|mgt [|dens [|height [|len [|power [|ltadf [|spf [|dur [|? ?]]]]]]]]]]]]]]];
      try exact hc_none.
    eapply hc_ext; [|apply (hc_rows lz2 (fun rows =>
        let p := {| be_riparianVegPercent := rv; be_maxRiparianVegEffectiveness := mrv; be_soilErodibility := se;
                    be_bankErosionCoeff := coeff; be_linkSlope := slope; be_bankFullFlow := bff;
                    be_bankMgtFactor := mgt; be_sedBulkDensity := dens; be_bankHeight := height;
                    be_linkLength := len; be_dailyFlowPowerFactor := power; be_longTermAvDailyFlow := ltadf;
                    be_soilPercentFine := spf; be_durationInSeconds := dur |} in
        let meanAnnual := mean_annual_bank_erosion p in
        let os := snd (run (bank_erosion_step p meanAnnual) tt rows) in
        [map fst os; map snd os])); [apply lz2_laws|]].
    - inst_tac.
    - unfold bank_erosion_step. rows_tac.
  Qed.

  Theorem usle_fine_kernel_hc (p : list T) : hc_spec (usle_fine_kernel p).
  Proof.
    destruct p as [|s [|pp [|rt [|alpha [|beta [|eta [|a1 [|a2 [|a3 [|dwc [|avK [|avLS [|avFines [|area [|maxConc [|hf [|hc [|ts [|? ?]]]]]]]]]]]]]]]]]]];
      try exact hc_none.
    eapply hc_ext; [|apply (hc_rows lz7 (fun rows =>
        let p := {| us_S := s; us_P := pp; us_rainThreshold := rt; us_alpha := alpha; us_beta := beta;
                    us_eta := eta; us_a1 := a1; us_a2 := a2; us_a3 := a3; us_dwc := dwc; us_avK := avK;
                    us_avLS := avLS; us_avFines := avFines; us_area := area; us_maxConc := maxConc;
                    us_hsdrFine := hf; us_hsdrCoarse := hc; us_timeStepInSeconds := ts |} in
        let os := snd (run (usle_step p) tt rows) in
        [map us_quickLoadFine os; map us_slowLoadFine os; map us_quickLoadCoarse os;
         map us_slowLoadCoarse os; map us_totalFineLoad os; map us_totalCoarseLoad os;
         map us_generatedLoadFine os; map us_generatedLoadCoarse os])); [apply lz7_laws|]].
    - inst_tac.
    - unfold usle_step. rows_tac.
  Qed.

  Theorem sednet_gully_generic_hc calc (p : list T) : hc_spec (sednet_gully_generic calc p).
  Proof.
    destruct p as [|yd [|ey [|area [|act [|supply [|pf [|mpf [|ltrf [|drpf [|sdrf [|sdrc [|ts [|? ?]]]]]]]]]]]]];
      try exact hc_none.
    eapply hc_ext; [|apply (hc_rows lz4 (fun rows =>
        let p := {| g_yearDisturbance := yd; g_gullyEndYear := ey; g_area := area;
                    g_averageGullyActivityFactor := act; g_annualAverageSedimentSupply := supply;
                    g_percentFine := pf; g_managementPracticeFactor := mpf; g_longtermRunoffFactor := ltrf;
                    g_dailyRunoffPowerFactor := drpf; g_sdrFine := sdrf; g_sdrCoarse := sdrc;
                    g_timestepInSeconds := ts |} in
        let os := snd (run (sednet_gully_step calc p) tt rows) in
        [map g_fineLoad os; map g_coarseLoad os; map g_generatedFine os; map g_generatedCoarse os]));
        [apply lz4_laws|]].
    - inst_tac.
    - unfold sednet_gully_step. rows_tac.
  Qed.

  Theorem dynamic_sednet_gully_kernel_hc (p : list T) : hc_spec (dynamic_sednet_gully_kernel p).
  Proof. apply sednet_gully_generic_hc. Qed.
  Theorem dynamic_sednet_gully_alt_kernel_hc (p : list T) : hc_spec (dynamic_sednet_gully_alt_kernel p).
  Proof. apply sednet_gully_generic_hc. Qed.

  Theorem runoff_coefficient_kernel_hc (p : list T) : hc_spec (runoff_coefficient_kernel p).
  Proof.
    destruct p as [|coeff [|? ?]]; try exact hc_none.
    eapply hc_ext; [|apply (hc_rows lz1 (fun rain => [coeff_run coeff rain])); [apply lz1_laws|]].
    - inst_tac.
    - unfold coeff_run, coeff_step.
      constructor; intros; rewrite !run_unit_state; cbn [snd app_series firsts map];
        rewrite ?map_app, ?firstn_map_comm; reflexivity.
  Qed.

  (* ---------------------------------------------------------------- ClimateVariables *)
  (** humidity must be at least as long as dry bulb (Go indexes it with the
      dry-bulb index): part of the zip *)
  Definition climate_zip (ins : list (list T)) : option (list (T * T)) :=
    match ins with
    | [d; h] => if Nat.leb (length d) (length h) then Some (combine d h) else None
    | _ => None
    end.

  Lemma climate_zip_laws : zip_laws climate_zip.
  Proof.
    constructor.
    - intros ins n xs H. destruct ins as [|d [|h [|? ?]]]; cbn in H |- *; try discriminate.
      destruct (Nat.leb (length d) (length h)) eqn:E; [|discriminate]. injection H as <-.
      apply Nat.leb_le in E. rewrite !firstn_length.
      replace (Nat.leb (Nat.min n (length d)) (Nat.min n (length h))) with true
        by (symmetry; apply Nat.leb_le; lia).
      now rewrite firstn_combine.
    - intros ins n xs H. destruct ins as [|d [|h [|? ?]]]; cbn in H |- *; try discriminate.
      destruct (Nat.leb (length d) (length h)) eqn:E; [|discriminate]. injection H as <-.
      apply Nat.leb_le in E. rewrite !skipn_length.
      replace (Nat.leb (length d - n) (length h - n)) with true by (symmetry; apply Nat.leb_le; lia).
      now rewrite skipn_combine.
    - intros ins n H. destruct ins as [|d [|h [|? ?]]]; cbn in H |- *; try (left; reflexivity).
      destruct (Nat.leb (length d) (length h)) eqn:E; [discriminate|]. apply Nat.leb_gt in E.
      rewrite !firstn_length, !skipn_length.
      destruct (Nat.le_gt_cases n (length h)) as [L|L].
      + right. replace (Nat.leb (length d - n) (length h - n)) with false; [reflexivity|].
        symmetry; apply Nat.leb_gt; lia.
      + left. replace (Nat.leb (Nat.min n (length d)) (Nat.min n (length h))) with false; [reflexivity|].
        symmetry; apply Nat.leb_gt; lia.
  Qed.

  Theorem climate_variables_kernel_hc (p : list T) : hc_spec (climate_variables_kernel p).
  Proof.
    destruct p as [|elevation [|? ?]]; try exact hc_none.
    eapply hc_ext; [|apply (hc_rows climate_zip (fun rows =>
        let pa := barometric_pressure elevation in
        let rows := map (fun th => climate_step pa (fst th) (snd th)) rows in
        [ map (fun o => let '(v,_,_,_) := o in v) rows;
          map (fun o => let '(_,d,_,_) := o in d) rows;
          map (fun o => let '(_,_,w,_) := o in w) rows;
          map (fun o => let '(_,_,_,x) := o in x) rows ])); [apply climate_zip_laws|]].
    - inst_tac. unfold kernel_of_rows, climate_zip. destruct (Nat.leb _ _); reflexivity.
    - constructor; intros; cbv zeta; cbn [app_series firsts map];
        rewrite ?map_app, ?firstn_map_comm; reflexivity.
  Qed.

  (* ---------------------------------------------------------------- RatingCurvePartition *)
  Definition rating_unpack (s : list T) : option (list T * bool) := Some (s, true).

  Theorem rating_curve_partition_kernel_hc (p : list T) : hc_spec (rating_curve_partition_kernel p).
  Proof.
    unfold rating_curve_partition_kernel.
    destruct (rating_table p) as [[xs ys]|]; [|exact hc_none].
    set (K := kernel_of_machine rating_unpack lz1 (fun _ : list T => rating_partition_step xs ys)
                (fun ok : bool => ok) (fun (aux : list T) (_ : bool) => aux) (proj_outs [fst; snd])).
    apply (hc_ext _ K).
    - intros s ins. unfold K, kernel_of_machine, rating_unpack, lz1, rating_partition.
      destruct ins as [|input [|? ?]]; try reflexivity.
      destruct (run (rating_partition_step xs ys) true input) as [ok os]. destruct ok; reflexivity.
    - split.
      + apply (kernel_of_machine_split_eq rating_unpack lz1 _ _ _ _ lz1_laws (proj_outs_laws _))
          with (Inv := fun _ _ => True); try (intros; exact I).
        * intros aux st x H. subst st. reflexivity.
        * intros aux st _ H. subst st. reflexivity.
      + apply kernel_of_machine_causal; [apply lz1_laws|apply proj_outs_laws].
  Qed.

  (* ---------------------------------------------------------------- DateGenerator *)
  Lemma date_generator_prefix : forall n s os, date_generator n s = Some os ->
    forall t, date_generator (Nat.min t n) s = Some (firstn t os).
  Proof.
    induction n as [|n IH]; intros s os H t.
    - cbn in H. injection H as <-. rewrite Nat.min_0_r. now destruct t.
    - cbn in H. destruct (date_step s) as [[s' o]|] eqn:Es; [|discriminate].
      destruct (date_generator n s') as [os'|] eqn:Eg; [|discriminate]. injection H as <-.
      destruct t as [|t]; [reflexivity|]. cbn [Nat.min date_generator firstn]. rewrite Es.
      now rewrite (IH s' os' Eg t).
  Qed.

  Theorem date_generator_kernel_causal (p : list T) : causal_spec (date_generator_kernel p).
  Proof.
    intros s0 ins ins' t o sT o' sT' Hf E1 E2. unfold date_generator_kernel in E1, E2.
    destruct p as [|sd [|sm [|sy [|? ?]]]]; try discriminate.
    destruct ins as [|tick [|? ?]]; try discriminate. destruct ins' as [|tick' [|? ?]]; try discriminate.
    set (s := {| dd := truncZ sd; dm := truncZ sm; dy := truncZ sy |}) in *.
    destruct (date_generator (length tick) s) as [os|] eqn:G; [|discriminate].
    destruct (date_generator (length tick') s) as [os'|] eqn:G'; [|discriminate].
    injection E1 as <- _. injection E2 as <- _.
    cbn in Hf. injection Hf as Hf. apply firstn_eq_length in Hf.
    pose proof (date_generator_prefix _ _ _ G t) as P. pose proof (date_generator_prefix _ _ _ G' t) as P'.
    rewrite Hf in P. rewrite P in P'. injection P' as P'.
    cbn [firsts map]. rewrite !firstn_map_comm, P'. reflexivity.
  Qed.
End S.

(** DateGenerator is not hot-startable: it has no state, every call starts at
    the start-date parameters again.  Two days from 31 Jan 2001 in one call are
    (31 Jan, 1 Feb); in two calls of one day each they are (31 Jan, 31 Jan).
    (Real-number instance; the witness only uses integers.) *)
From Coq Require Import Reals Lra.
From OW Require Import Base.RInst.

Lemma Rtrunc_IZR (z : Z) : Rtrunc (IZR z) = z.
Proof.
  unfold Rtrunc. destruct (Rle_dec 0 (IZR z)) as [H|H].
  - unfold Int_part. rewrite <- (tech_up (IZR z) (z + 1)%Z); [lia| |]; rewrite plus_IZR; lra.
  - replace (- IZR z)%R with (IZR (- z)) by (rewrite opp_IZR; reflexivity).
    unfold Int_part. rewrite <- (tech_up (IZR (- z)) (- z + 1)%Z); [lia| |]; rewrite plus_IZR; lra.
Qed.

Theorem date_generator_kernel_split_refuted :
  exists p s0 ins n, ~ split_at (date_generator_kernel (A := RArith) p) s0 ins n.
Proof.
  exists [31%R; 1%R; 2001%R], [], [[0%R; 0%R]], 1%nat.
  unfold split_at, split_then, date_generator_kernel.
  cbn [truncZ RArith]. rewrite !Rtrunc_IZR. cbn.
  intros H. injection H as H _. apply eq_IZR in H. discriminate.
Qed.
