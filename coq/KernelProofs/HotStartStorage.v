(** C06 / C14 for the Storage reservoir kernel (models/storage/storage.go),
    for ANY [Arith] instance.

    The only state that is read is currentVolume; level and area are
    recomputed from the volume at the end of every call (and a failure of that
    table lookup is a Go panic).

    [storage_kernel_causal]: full.
    [storage_kernel_split_partial]: if the first segment returns (no panic in
      its time steps NOR in the level / area lookup at the cut volume), the
      whole run equals the split run, outputs, final states and later panics
      included.  What is missing for the unconditional statement: that a panic
      of the level/area lookup at the cut volume implies a panic of the whole
      run (true for well-formed tables, where neither panics; not proved for
      arbitrary ones, e.g. a one-point table).
    With a configuration error (nLVA = 0 or no positive volume) the kernel
      returns without touching outputs and with states (0,0,0) in every call:
      whole and split runs agree trivially (covered by the theorem). *)
From Coq Require Import List Arith Lia Bool ZArith.
From OW Require Import Base.Arith Base.Mealy KernelProofs.HotStart Kernels.Storage.
Import ListNotations.

Section AllSomeSt.
  Context {T X : Type}.
  Variable F : list X -> list (list T).
  Hypothesis HF : rows_laws F.

  Lemma st_all_some_app : forall (a b : list (option X)),
    all_some (a ++ b) = match all_some a, all_some b with Some x, Some y => Some (x ++ y) | _, _ => None end.
  Proof.
    induction a as [|[x|] a IH]; intros b; cbn.
    - destruct (all_some b); reflexivity.
    - rewrite IH. destruct (all_some a), (all_some b); reflexivity.
    - reflexivity.
  Qed.
  Lemma st_all_some_firstn t : forall (os : list (option X)) l,
    all_some os = Some l -> all_some (firstn t os) = Some (firstn t l).
  Proof.
    induction t as [|t IH]; intros os l H; [reflexivity|].
    destruct os as [|[x|] os]; cbn in H |- *.
    - injection H as <-. reflexivity.
    - destruct (all_some os) as [l'|] eqn:E; [|discriminate]. injection H as <-.
      now rewrite (IH os l' E).
    - discriminate.
  Qed.
  Lemma st_all_some_outs_laws : outs_laws (fun os => option_map F (all_some os)).
  Proof.
    constructor.
    - intros a b. rewrite st_all_some_app. destruct (all_some a), (all_some b); cbn; try reflexivity.
      now rewrite (rl_app F HF).
    - intros t os o H. destruct (all_some os) as [l|] eqn:E; [|discriminate]. injection H as <-.
      rewrite (st_all_some_firstn t os l E). cbn. now rewrite (rl_firstn F HF).
  Qed.
End AllSomeSt.

Section S.
  Context {T : Type} {A : Arith T}.
  Local Open Scope ar_scope.

  Definition st_zip (ins : list (list T)) : option (list (tsin (T := T))) :=
    match ins with
    | [r; p; i; d; tv; tc] => Some (zip_inputs r p i d tv tc)
    | _ => None
    end.

  Lemma firstn_zip_inputs n : forall (r p i d tv tc : list T),
    firstn n (zip_inputs r p i d tv tc) =
    zip_inputs (firstn n r) (firstn n p) (firstn n i) (firstn n d) (firstn n tv) (firstn n tc).
  Proof.
    induction n as [|n IH]; intros r p i d tv tc; [reflexivity|].
    destruct r as [|? r]; [reflexivity|]. destruct p as [|? p]; [reflexivity|].
    destruct i as [|? i]; [reflexivity|]. destruct d as [|? d]; [reflexivity|].
    destruct tv as [|? tv]; [reflexivity|]. destruct tc as [|? tc]; [reflexivity|].
    cbn. now rewrite IH.
  Qed.
  Lemma zip_inputs_nil_any (r p i d tv tc : list T) :
    r = [] \/ p = [] \/ i = [] \/ d = [] \/ tv = [] \/ tc = [] -> zip_inputs r p i d tv tc = [].
  Proof.
    intros H. destruct r; [reflexivity|]. destruct p; [reflexivity|]. destruct i; [reflexivity|].
    destruct d; [reflexivity|]. destruct tv; [reflexivity|]. destruct tc; [reflexivity|].
    destruct H as [H|[H|[H|[H|[H|H]]]]]; discriminate.
  Qed.
  Ltac nil_disj := repeat match goal with |- _ \/ _ => first [left; reflexivity | right] end; reflexivity.
  Lemma skipn_zip_inputs n : forall (r p i d tv tc : list T),
    skipn n (zip_inputs r p i d tv tc) =
    zip_inputs (skipn n r) (skipn n p) (skipn n i) (skipn n d) (skipn n tv) (skipn n tc).
  Proof.
    induction n as [|n IH]; intros r p i d tv tc; [reflexivity|].
    destruct r as [|? r]; [reflexivity|].
    destruct p as [|? p]; [rewrite ?skipn_nil, !zip_inputs_nil_any by nil_disj; now rewrite ?skipn_nil|].
    destruct i as [|? i]; [rewrite ?skipn_nil, !zip_inputs_nil_any by nil_disj; now rewrite ?skipn_nil|].
    destruct d as [|? d]; [rewrite ?skipn_nil, !zip_inputs_nil_any by nil_disj; now rewrite ?skipn_nil|].
    destruct tv as [|? tv]; [rewrite ?skipn_nil, !zip_inputs_nil_any by nil_disj; now rewrite ?skipn_nil|].
    destruct tc as [|? tc]; [rewrite ?skipn_nil, !zip_inputs_nil_any by nil_disj; now rewrite ?skipn_nil|].
    cbn. apply IH.
  Qed.
  Lemma st_zip_laws : zip_laws st_zip.
  Proof.
    constructor; intros ins n; [intros xs H|intros xs H|intros H];
      destruct ins as [|a [|b [|c [|d [|e [|f [|? ?]]]]]]]; cbn in *; try discriminate; try (left; reflexivity);
      injection H as <-; rewrite ?firstn_zip_inputs, ?skipn_zip_inputs; reflexivity.
  Qed.

  Definition st_series (os : list (tsout (T := T))) : list (list T) :=
    [map r_volume os; map r_outflow os; map r_rainfallVolume os; map r_evaporationVolume os].
  Lemma st_series_laws : rows_laws st_series.
  Proof.
    unfold st_series. constructor; intros; cbn [app_series firsts map];
      rewrite ?map_app, ?firstn_map_comm; reflexivity.
  Qed.

  Definition st_unpack (s : list T) : option (unit * sstate (T := T)) :=
    match s with [v0; _; _] => Some (tt, SOk v0) | _ => None end.
  Definition get_or_zero (o : option T) : T := match o with Some x => x | None => zero end.
  Definition is_some {X} (o : option X) : bool := match o with Some _ => true | None => false end.

  (** "has not panicked, and the level / area lookup at this volume succeeds" *)
  Definition st_good (cv : curves) (s : sstate (T := T)) : bool :=
    match s with
    | SOk v => is_some (capped_piecewise cv v (t_levels (tb cv))) && is_some (capped_piecewise cv v (t_areas (tb cv)))
    | _ => false
    end.
  Definition st_pack (cv : curves) (_ : unit) (s : sstate (T := T)) : list T :=
    match s with
    | SOk v => [v; get_or_zero (capped_piecewise cv v (t_levels (tb cv)));
                get_or_zero (capped_piecewise cv v (t_areas (tb cv)))]
    | _ => []
    end.

  Definition st_machine (cv : curves) (deltaT : T) : kern T :=
    kernel_of_machine st_unpack st_zip (fun _ => storage_step cv deltaT) (st_good cv) (st_pack cv)
      (fun os => option_map st_series (all_some os)).

  (** configuration error: nothing is written, (0,0,0) is returned *)
  Definition st_cfg_unpack (s : list T) : option (unit * unit) :=
    match s with [_; _; _] => Some (tt, tt) | _ => None end.
  Definition st_cfg_machine : kern T :=
    kernel_of_machine st_cfg_unpack st_zip (fun _ (s : unit) (_ : tsin (T := T)) => (s, tt)) (fun _ => true)
      (fun _ _ => [zero; zero; zero])
      (fun os : list unit => Some [map (fun _ => zero) os; map (fun _ => zero) os;
                                   map (fun _ => zero) os; map (fun _ => zero) os]).

  Lemma repeat_map_const {X} (z : T) (l : list X) : repeat z (length l) = map (fun _ => z) l.
  Proof. induction l as [|x l IH]; cbn; [reflexivity|]. now rewrite IH. Qed.

  Lemma storage_kernel_eq (p : list T) : forall s ins,
    storage_kernel p s ins =
    match parse_params p with
    | None => None
    | Some (deltaT, tbl) =>
        match make_curves tbl with
        | None => None
        | Some cv =>
            match storage_configuration_error (nlva tbl) (t_volumes tbl) with
            | None => None
            | Some true => st_cfg_machine s ins
            | Some false => st_machine cv deltaT s ins
            end
        end
    end.
  Proof.
    intros s ins. unfold storage_kernel, storage_run.
    destruct (parse_params p) as [[deltaT tbl]|]; [|reflexivity].
    unfold st_cfg_machine, st_machine, kernel_of_machine, st_unpack, st_cfg_unpack, st_zip.
    destruct s as [|v0 [|l0 [|a0 [|? ?]]]];
      try (destruct (make_curves tbl); [destruct (storage_configuration_error _ _) as [[|]|]|]; reflexivity).
    destruct ins as [|a [|b [|c [|d [|e [|f [|? ?]]]]]]];
      try (destruct (make_curves tbl); [destruct (storage_configuration_error _ _) as [[|]|]|]; reflexivity).
    unfold storage_water_balance.
    destruct (make_curves tbl) as [cv|] eqn:Ec; [|reflexivity].
    destruct (storage_configuration_error _ _) as [[|]|]; [| |reflexivity].
    - rewrite run_unit_state. cbn. rewrite map_map, <- repeat_map_const. reflexivity.
    - assert (Etb : tb cv = tbl).
      { unfold make_curves in Ec. destruct (nth_error _ _); [|discriminate]. destruct (nth_error _ _); [|discriminate].
        destruct (nth_error _ _); [|discriminate]. destruct (Nat.eqb _ _); [discriminate|].
        injection Ec as <-. reflexivity. }
      destruct (run _ _ _) as [[v| |] os]; cbn [st_good st_pack]; try reflexivity.
      rewrite Etb.
      destruct (all_some os) as [l|]; cbn [option_map].
      + destruct (capped_piecewise cv v (t_levels tbl)) as [lv|];
          destruct (capped_piecewise cv v (t_areas tbl)) as [ar|]; reflexivity.
      + destruct (capped_piecewise cv v (t_levels tbl)) as [lv|];
          destruct (capped_piecewise cv v (t_areas tbl)) as [ar|]; reflexivity.
  Qed.

  Lemma st_cfg_machine_hc : hc_spec st_cfg_machine.
  Proof.
    apply (hc_machine_simple st_cfg_unpack st_zip _ _
             (fun os : list unit => [map (fun _ => zero) os; map (fun _ => zero) os;
                                     map (fun _ => zero) os; map (fun _ => zero) os])).
    - apply st_zip_laws.
    - constructor; intros; cbn [app_series firsts map]; rewrite ?map_app, ?firstn_map_comm; reflexivity.
    - intros [] []. reflexivity.
  Qed.

  Theorem storage_kernel_causal (p : list T) : causal_spec (storage_kernel p).
  Proof.
    eapply causal_spec_ext; [apply storage_kernel_eq|].
    destruct (parse_params p) as [[deltaT tbl]|]; [|apply causal_spec_none].
    destruct (make_curves tbl) as [cv|]; [|apply causal_spec_none].
    destruct (storage_configuration_error _ _) as [[|]|]; [| |apply causal_spec_none].
    - apply st_cfg_machine_hc.
    - apply kernel_of_machine_causal; [apply st_zip_laws|apply st_all_some_outs_laws, st_series_laws].
  Qed.

  Theorem storage_kernel_split_partial (p s0 : list T) ins n :
    storage_kernel p s0 (firsts n ins) <> None ->
    split_at (storage_kernel p) s0 ins n.
  Proof.
    intros Hne. apply (split_at_ext _ _ s0 ins n (storage_kernel_eq p)).
    rewrite storage_kernel_eq in Hne.
    destruct (parse_params p) as [[deltaT tbl]|]; [|reflexivity].
    destruct (make_curves tbl) as [cv|]; [|reflexivity].
    destruct (storage_configuration_error _ _) as [[|]|]; [| |reflexivity].
    - apply st_cfg_machine_hc.
    - apply kernel_of_machine_split_at_good; [apply st_zip_laws|apply st_all_some_outs_laws, st_series_laws| |exact Hne].
      intros [] [v| |] G; try discriminate. cbn [st_good] in G. apply andb_prop in G. destruct G as [G1 G2].
      reflexivity.
  Qed.
End S.
