From Coq Require Import ZArith Reals Lra Lia List Bool Sorted.
From OW Require Import Base.Arith Base.RInst Base.Mealy Kernels.Storage.
Import ListNotations.
Local Open Scope R_scope.

(** * Part 0: binary-fuel iteration is bounded iteration *)
Section IterFacts.
  Context {S R : Type} (f : S -> S + R).
  Lemma iter_nat_add a b s :
    iter_nat f (a + b) s = match iter_nat f a s with inl s' => iter_nat f b s' | inr r => inr r end.
  Proof.
    revert s; induction a as [|a IH]; intros s; cbn; [reflexivity|].
    destruct (f s) as [s'|r]; [apply IH|reflexivity].
  Qed.
  Lemma iter_pos_nat p s : iter_pos f p s = iter_nat f (Pos.to_nat p) s.
  Proof.
    revert s; induction p as [q IH|q IH|]; intros s.
    - rewrite Pos2Nat.inj_xI. cbn [iter_pos iter_nat]. destruct (f s) as [s1|r]; [|reflexivity].
      replace (2 * Pos.to_nat q)%nat with (Pos.to_nat q + Pos.to_nat q)%nat by lia.
      rewrite iter_nat_add, <- IH. destruct (iter_pos f q s1); [apply IH|reflexivity].
    - rewrite Pos2Nat.inj_xO. cbn [iter_pos].
      replace (2 * Pos.to_nat q)%nat with (Pos.to_nat q + Pos.to_nat q)%nat by lia.
      rewrite iter_nat_add, <- IH. destruct (iter_pos f q s); [apply IH|reflexivity].
    - rewrite Pos2Nat.inj_1. cbn. destruct (f s); reflexivity.
  Qed.

  (** invariants along a bounded iteration *)
  Lemma iter_nat_inv (P : S -> Prop) :
    (forall s s', P s -> f s = inl s' -> P s') ->
    forall n s0, P s0 ->
      (forall s', iter_nat f n s0 = inl s' -> P s') /\
      (forall r, iter_nat f n s0 = inr r -> exists s, P s /\ f s = inr r).
  Proof.
    intros Hstep n; induction n as [|n IH]; intros s0 H0; cbn.
    - split; [intros s' E; injection E as <-; exact H0 | intros r E; discriminate].
    - destruct (f s0) as [s1|r0] eqn:E0.
      + apply IH. eapply Hstep; eauto.
      + split; [intros s' E; discriminate|]. intros r E; injection E as <-. eauto.
  Qed.
End IterFacts.

(** * Part 1: the capped piecewise-linear table lookup over the reals *)

Lemma frac_bounds x xi xj : xi <= x <= xj -> xi < xj -> 0 <= (x - xi) / (xj - xi) <= 1.
Proof.
  intros [H1 H2] H3. split.
  - apply Rmult_le_pos; [lra | left; apply Rinv_0_lt_compat; lra].
  - apply Rmult_le_reg_r with (xj - xi); [lra|].
    unfold Rdiv. rewrite Rmult_assoc, Rinv_l by lra. lra.
Qed.

Lemma sorted_nth_lt xs : StronglySorted Rlt xs ->
  forall i j a b, (i < j)%nat -> nth_error xs i = Some a -> nth_error xs j = Some b -> a < b.
Proof.
  induction 1 as [|x xs Hs IH Hall]; intros i j a b Hij Ha Hb.
  - destruct i; discriminate.
  - destruct j as [|j]; [lia|]. cbn in Hb. destruct i as [|i]; cbn in Ha.
    + injection Ha as <-. rewrite Forall_forall in Hall. apply Hall. eapply nth_error_In; eauto.
    + apply (IH i j a b); [lia | exact Ha | exact Hb].
Qed.

Lemma brackets_loop_spec : forall r i x a b,
  st_brackets_loop x r i = Some (a, b) ->
  b = S a /\ (i <= a)%nat /\
  (exists v, nth_error r (a - i) = Some v /\ x <= v) /\
  (forall k w, (k < a - i)%nat -> nth_error r k = Some w -> w < x).
Proof.
  induction r as [|v r IH]; intros i x a b H; cbn in H; [discriminate|].
  unfold geb in H. runfold.
  destruct (Rleb x v) eqn:E.
  - injection H as <- <-. rewrite Nat.sub_diag. repeat split; [lia| |intros; lia].
    exists v; split; [reflexivity|]. now apply Rleb_true.
  - apply Rleb_false in E. apply IH in H. destruct H as (Hb & Hi & (w & Hw & Hxw) & Hlt).
    repeat split; [exact Hb | lia | |].
    + exists w. split; [|exact Hxw]. replace (a - i)%nat with (S (a - S i)) by lia. exact Hw.
    + intros k w' Hk Hn. destruct k as [|k]; cbn in Hn.
      * injection Hn as <-. exact E.
      * eapply Hlt; eauto. lia.
Qed.

Lemma brackets_loop_total : forall r i x,
  (exists v, In v r /\ x <= v) -> exists a, st_brackets_loop x r i = Some (a, S a).
Proof.
  induction r as [|v r IH]; intros i x (w & Hin & Hw); [destruct Hin|].
  cbn. unfold geb. runfold. destruct (Rleb x v) eqn:E; [eauto|].
  apply Rleb_false in E. destruct Hin as [->|Hin]; [lra|]. apply IH. eauto.
Qed.

Lemma last_In (l : list R) d : l <> [] -> In (last l d) l.
Proof.
  induction l as [|a l IH]; [congruence|]. intros _. destruct l as [|b l]; [left; reflexivity|].
  right. apply IH. congruence.
Qed.

Lemma last_nth_error (l : list R) d : l <> [] -> nth_error l (length l - 1) = Some (last l d).
Proof.
  induction l as [|a l IH]; [congruence|]. intros _. destruct l as [|b l]; [reflexivity|].
  cbn [length]. replace (S (S (length l)) - 1)%nat with (S (length (b :: l) - 1)) by (cbn; lia).
  cbn [nth_error]. rewrite IH by congruence. reflexivity.
Qed.

(** the interpolation segment is determined by the abscissae alone *)
Lemma st_piecewise_spec xs x :
  StronglySorted Rlt xs -> (2 <= length xs)%nat ->
  forall x0, nth_error xs 0 = Some x0 -> x0 <= x <= last xs 0 ->
  exists i xi xj, nth_error xs i = Some xi /\ nth_error xs (S i) = Some xj /\
    xi <= x <= xj /\ xi < xj /\
    forall ys, length ys = length xs ->
      exists yi yj, nth_error ys i = Some yi /\ nth_error ys (S i) = Some yj /\
        st_piecewise x xs ys = Some (yi + (x - xi) / (xj - xi) * (yj - yi)).
Proof.
  intros Hs Hlen x0 H0 [Hlo Hhi].
  destruct xs as [|x0' r]; [discriminate|]. cbn in H0. injection H0 as ->.
  destruct r as [|x1 r]; [cbn in Hlen; lia|].
  assert (Hlast : last (x0 :: x1 :: r) 0 = last (x1 :: r) 0) by reflexivity.
  destruct (brackets_loop_total (x1 :: r) 0 x) as [a Ha].
  { exists (last (x1 :: r) 0). split; [apply last_In; congruence | rewrite <- Hlast; exact Hhi]. }
  pose proof (brackets_loop_spec _ _ _ _ _ Ha) as (_ & _ & (v & Hv & Hxv) & Hlt).
  rewrite Nat.sub_0_r in Hv, Hlt.
  assert (Hxi : exists xi, nth_error (x0 :: x1 :: r) a = Some xi /\ xi <= x).
  { destruct a as [|a]; [exists x0; split; [reflexivity|exact Hlo]|].
    cbn [nth_error].
    destruct (nth_error (x1 :: r) a) as [w|] eqn:Ew.
    - exists w. split; [reflexivity|]. left. eapply Hlt; eauto.
    - apply nth_error_None in Ew. assert (nth_error (x1 :: r) (S a) <> None) by congruence.
      apply nth_error_Some in H. lia. }
  destruct Hxi as (xi & Hxi & Hxix).
  assert (Hxj : nth_error (x0 :: x1 :: r) (S a) = Some v) by exact Hv.
  assert (Hlt' : xi < v) by (eapply (sorted_nth_lt _ Hs a (S a)); eauto).
  exists a, xi, v. repeat split; try assumption.
  intros ys Hly.
  assert (Ha1 : (S a < length ys)%nat).
  { rewrite Hly. apply nth_error_Some. congruence. }
  destruct (nth_error ys a) as [yi|] eqn:Eyi; [|apply nth_error_None in Eyi; lia].
  destruct (nth_error ys (S a)) as [yj|] eqn:Eyj; [|apply nth_error_None in Eyj; lia].
  exists yi, yj. repeat split; try reflexivity.
  unfold st_piecewise. unfold gtb. runfold.
  rewrite (proj2 (Rltb_false x x0)) by exact Hlo.
  rewrite (proj2 (Rltb_false (last (x0 :: x1 :: r) x0) x)).
  2:{ replace (last (x0 :: x1 :: r) x0) with (last (x0 :: x1 :: r) 0); [exact Hhi|].
      clear. generalize (x1 :: r) as l. intros l. revert x0. induction l as [|b l IH]; intros x0; [reflexivity|].
      change (last (x0 :: b :: l) 0) with (last (b :: l) 0). change (last (x0 :: b :: l) x0) with (last (b :: l) x0).
      destruct l as [|c l]; [reflexivity|]. specialize (IH b).
      change (last (b :: c :: l) 0) with (last (c :: l) 0) in *. change (last (b :: c :: l) x0) with (last (c :: l) x0).
      change (last (b :: c :: l) b) with (last (c :: l) b) in IH.
      clear IH. revert c. induction l as [|d l IH2]; intros c; [reflexivity|].
      change (last (c :: d :: l) 0) with (last (d :: l) 0). change (last (c :: d :: l) x0) with (last (d :: l) x0). apply IH2. }
  rewrite Ha. rewrite Hxi, Hxj, Eyi, Eyj. reflexivity.
Qed.

(** ** well-formed curves: what [make_curves] produces from a monotone table with >= 2 points *)
Record wf_curves (cv : curves) : Prop := {
  wf_n : (2 <= nlva (tb cv))%nat;
  wf_len_levels : length (t_levels (tb cv)) = nlva (tb cv);
  wf_len_volumes : length (t_volumes (tb cv)) = nlva (tb cv);
  wf_len_areas : length (t_areas (tb cv)) = nlva (tb cv);
  wf_len_minRelease : length (t_minRelease (tb cv)) = nlva (tb cv);
  wf_len_maxRelease : length (t_maxRelease (tb cv)) = nlva (tb cv);
  wf_sorted : StronglySorted Rlt (t_volumes (tb cv));
  wf_vmin : nth_error (t_volumes (tb cv)) 0 = Some (volCurveMin cv);
  wf_vmax : nth_error (t_volumes (tb cv)) (nlva (tb cv) - 1) = Some (volCurveMax cv);
  wf_maxSpill : nth_error (t_minRelease (tb cv)) (nlva (tb cv) - 1) = Some (maxSpill cv)
}.

Lemma wf_vmax_last cv : wf_curves cv -> volCurveMax cv = last (t_volumes (tb cv)) 0.
Proof.
  intros W. pose proof (wf_vmax cv W) as H. rewrite <- (wf_len_volumes cv W) in H.
  rewrite (last_nth_error _ 0) in H; [congruence|].
  intros E. pose proof (wf_len_volumes cv W) as L. rewrite E in L. pose proof (wf_n cv W). cbn in L. lia.
Qed.

Lemma wf_vmin_lt_vmax cv : wf_curves cv -> volCurveMin cv < volCurveMax cv.
Proof.
  intros W. eapply (sorted_nth_lt _ (wf_sorted cv W) 0 (nlva (tb cv) - 1)).
  - pose proof (wf_n cv W). lia.
  - apply (wf_vmin cv W).
  - apply (wf_vmax cv W).
Qed.

(** The three cases of [cappedPiecewise]; which one applies, and the segment used,
    depend on the volume only, not on the ordinate table. *)
Definition cp_below (cv : curves) (vol : R) : Prop :=
  vol < volCurveMin cv /\
  forall ys, length ys = nlva (tb cv) ->
    exists y0, nth_error ys 0 = Some y0 /\ capped_piecewise cv vol ys = Some y0.
Definition cp_above (cv : curves) (vol : R) : Prop :=
  volCurveMax cv < vol /\
  forall ys, length ys = nlva (tb cv) ->
    exists yN, nth_error ys (nlva (tb cv) - 1) = Some yN /\ capped_piecewise cv vol ys = Some yN.
Definition cp_inside (cv : curves) (vol : R) : Prop :=
  volCurveMin cv <= vol <= volCurveMax cv /\
  exists i xi xj, nth_error (t_volumes (tb cv)) i = Some xi /\ nth_error (t_volumes (tb cv)) (S i) = Some xj /\
    xi <= vol <= xj /\ xi < xj /\
    forall ys, length ys = nlva (tb cv) ->
      exists yi yj, nth_error ys i = Some yi /\ nth_error ys (S i) = Some yj /\
        capped_piecewise cv vol ys = Some (yi + (vol - xi) / (xj - xi) * (yj - yi)).

Lemma capped_piecewise_cases cv vol : wf_curves cv ->
  cp_below cv vol \/ cp_above cv vol \/ cp_inside cv vol.
Proof.
  intros W. pose proof (wf_n cv W) as Hn.
  destruct (Rlt_dec vol (volCurveMin cv)) as [Hlo|Hlo].
  - left. split; [exact Hlo|]. intros ys Hl.
    destruct (nth_error ys 0) as [y0|] eqn:E; [|apply nth_error_None in E; lia].
    exists y0. split; [reflexivity|]. unfold capped_piecewise. runfold.
    rewrite (proj2 (Rltb_true _ _) Hlo). exact E.
  - destruct (Rlt_dec (volCurveMax cv) vol) as [Hhi|Hhi].
    + right; left. split; [exact Hhi|]. intros ys Hl.
      destruct (nth_error ys (nlva (tb cv) - 1)) as [yN|] eqn:E; [|apply nth_error_None in E; lia].
      exists yN. split; [reflexivity|]. unfold capped_piecewise, gtb. runfold.
      rewrite (proj2 (Rltb_false _ _)) by lra. rewrite (proj2 (Rltb_true _ _) Hhi). exact E.
    + right; right. split; [lra|].
      destruct (st_piecewise_spec (t_volumes (tb cv)) vol (wf_sorted cv W)) with (x0 := volCurveMin cv)
        as (i & xi & xj & Hi & Hj & Hb & Hlt & Hys).
      * rewrite (wf_len_volumes cv W). exact Hn.
      * apply (wf_vmin cv W).
      * rewrite <- (wf_vmax_last cv W). lra.
      * exists i, xi, xj. repeat split; try assumption; try (destruct Hb; assumption).
        intros ys Hl. destruct (Hys ys) as (yi & yj & Hyi & Hyj & Hp).
        { rewrite Hl. symmetry. apply (wf_len_volumes cv W). }
        exists yi, yj. repeat split; try assumption.
        unfold capped_piecewise, gtb. runfold.
        rewrite (proj2 (Rltb_false _ _)) by lra. rewrite (proj2 (Rltb_false _ _)) by lra. exact Hp.
Qed.

Lemma capped_piecewise_total cv vol ys : wf_curves cv -> length ys = nlva (tb cv) ->
  exists y, capped_piecewise cv vol ys = Some y.
Proof.
  intros W Hl. destruct (capped_piecewise_cases cv vol W) as [[_ H]|[[_ H]|[_ (i & xi & xj & _ & _ & _ & _ & H)]]].
  - destruct (H ys Hl) as (y & _ & E); eauto.
  - destruct (H ys Hl) as (y & _ & E); eauto.
  - destruct (H ys Hl) as (yi & yj & _ & _ & E); eauto.
Qed.

(** the looked-up value lies within the range of the table's ordinates *)
Lemma capped_piecewise_bounds cv vol ys y lo hi : wf_curves cv -> length ys = nlva (tb cv) ->
  capped_piecewise cv vol ys = Some y ->
  Forall (fun v => lo <= v <= hi) ys -> lo <= y <= hi.
Proof.
  intros W Hl E HF. rewrite Forall_forall in HF.
  destruct (capped_piecewise_cases cv vol W) as [[_ H]|[[_ H]|[_ (i & xi & xj & _ & _ & Hb & Hlt & H)]]].
  - destruct (H ys Hl) as (y0 & Hn & E'). rewrite E in E'; injection E' as ->.
    apply HF. eapply nth_error_In; eauto.
  - destruct (H ys Hl) as (y0 & Hn & E'). rewrite E in E'; injection E' as ->.
    apply HF. eapply nth_error_In; eauto.
  - destruct (H ys Hl) as (yi & yj & Hyi & Hyj & E'). rewrite E in E'; injection E' as ->.
    pose proof (frac_bounds vol xi xj Hb Hlt) as Hf.
    pose proof (HF yi (nth_error_In _ _ Hyi)). pose proof (HF yj (nth_error_In _ _ Hyj)).
    set (f := (vol - xi) / (xj - xi)) in *. split; nra.
Qed.

Lemma Forall2_nth_error {X Y} (P : X -> Y -> Prop) l l' :
  Forall2 P l l' -> forall i a b, nth_error l i = Some a -> nth_error l' i = Some b -> P a b.
Proof.
  induction 1 as [|x y l l' Hxy _ IH]; intros i a b Ha Hb; destruct i; cbn in *; try discriminate.
  - injection Ha as <-; injection Hb as <-; exact Hxy.
  - eapply IH; eauto.
Qed.

(** pointwise ordered ordinate tables give ordered look-ups (same volume) *)
Lemma capped_piecewise_mono cv vol ys ys' y y' : wf_curves cv ->
  length ys = nlva (tb cv) -> length ys' = nlva (tb cv) ->
  capped_piecewise cv vol ys = Some y -> capped_piecewise cv vol ys' = Some y' ->
  Forall2 Rle ys ys' -> y <= y'.
Proof.
  intros W Hl Hl' E E' HF.
  destruct (capped_piecewise_cases cv vol W) as [[_ H]|[[_ H]|[_ (i & xi & xj & _ & _ & Hb & Hlt & H)]]].
  - destruct (H ys Hl) as (a & Ha & Ea). destruct (H ys' Hl') as (b & Hb & Eb).
    rewrite E in Ea; injection Ea as ->. rewrite E' in Eb; injection Eb as ->.
    eapply (Forall2_nth_error _ _ _ HF); eauto.
  - destruct (H ys Hl) as (a & Ha & Ea). destruct (H ys' Hl') as (b & Hb & Eb).
    rewrite E in Ea; injection Ea as ->. rewrite E' in Eb; injection Eb as ->.
    eapply (Forall2_nth_error _ _ _ HF); eauto.
  - destruct (H ys Hl) as (a & a2 & Ha & Ha2 & Ea). destruct (H ys' Hl') as (b & b2 & Hb' & Hb2 & Eb).
    rewrite E in Ea; injection Ea as ->. rewrite E' in Eb; injection Eb as ->.
    pose proof (frac_bounds vol xi xj Hb Hlt) as Hf.
    pose proof (Forall2_nth_error _ _ _ HF _ _ _ Ha Hb'). pose proof (Forall2_nth_error _ _ _ HF _ _ _ Ha2 Hb2).
    set (f := (vol - xi) / (xj - xi)) in *. nra.
Qed.

(** "the level-volume-area table value at volume x": the end values outside the table,
    linear interpolation between the two bracketing rows inside it *)
Definition table_value (xs ys : list R) (x y : R) : Prop :=
  (x < hd 0 xs /\ y = hd 0 ys) \/
  (last xs 0 < x /\ y = last ys 0) \/
  (exists i xi xj yi yj,
      nth_error xs i = Some xi /\ nth_error xs (S i) = Some xj /\
      nth_error ys i = Some yi /\ nth_error ys (S i) = Some yj /\
      xi <= x <= xj /\ xi < xj /\ y = yi + (x - xi) / (xj - xi) * (yj - yi)).

Lemma nth_error_0_hd (l : list R) a : nth_error l 0 = Some a -> hd 0 l = a.
Proof. destruct l; cbn; congruence. Qed.

Lemma capped_piecewise_table_value cv vol ys y : wf_curves cv -> length ys = nlva (tb cv) ->
  capped_piecewise cv vol ys = Some y -> table_value (t_volumes (tb cv)) ys vol y.
Proof.
  intros W Hl E.
  destruct (capped_piecewise_cases cv vol W) as [[Hc H]|[[Hc H]|[_ (i & xi & xj & Hi & Hj & Hb & Hlt & H)]]].
  - left. destruct (H ys Hl) as (a & Ha & Ea). rewrite E in Ea; injection Ea as ->.
    rewrite (nth_error_0_hd _ _ (wf_vmin cv W)), (nth_error_0_hd _ _ Ha). auto.
  - right; left. destruct (H ys Hl) as (a & Ha & Ea). rewrite E in Ea; injection Ea as ->.
    rewrite <- (wf_vmax_last cv W). split; [exact Hc|].
    rewrite <- Hl in Ha. rewrite (last_nth_error _ 0) in Ha; [congruence|].
    intros E0. rewrite E0 in Hl. pose proof (wf_n cv W). cbn in Hl. lia.
  - right; right. destruct (H ys Hl) as (yi & yj & Hyi & Hyj & Ea). rewrite E in Ea; injection Ea as ->.
    exists i, xi, xj, yi, yj. repeat split; try assumption; destruct Hb; assumption.
Qed.

(** at a table row the value is that row's ordinate *)
Lemma table_value_at_node xs ys x y : StronglySorted Rlt xs -> length ys = length xs ->
  table_value xs ys x y ->
  forall k yk, nth_error xs k = Some x -> nth_error ys k = Some yk -> y = yk.
Proof.
  intros Hs Hl TV k yk Hk Hyk.
  assert (Hinj : forall a b, nth_error xs a = Some x -> nth_error xs b = Some x -> a = b).
  { intros a b Ha Hb. destruct (Nat.lt_trichotomy a b) as [L|[L|L]]; [|exact L|].
    - pose proof (sorted_nth_lt _ Hs a b x x L Ha Hb). lra.
    - pose proof (sorted_nth_lt _ Hs b a x x L Hb Ha). lra. }
  destruct TV as [[Hlt _]|[[Hlt _]|(i & xi & xj & yi & yj & Hi & Hj & Hyi & Hyj & Hb & Hlt & ->)]].
  - exfalso. destruct xs as [|x0 r]; [destruct k; discriminate|]. cbn in Hlt.
    destruct k as [|k]; cbn in Hk; [injection Hk as ->; lra|].
    pose proof (sorted_nth_lt _ Hs 0 (S k) x0 x ltac:(lia) eq_refl Hk). lra.
  - exfalso. assert (Hne : xs <> []) by (intros ->; destruct k; discriminate).
    pose proof (last_nth_error xs 0 Hne) as HL.
    destruct (Nat.eq_dec k (length xs - 1)) as [->|Hd]; [rewrite HL in Hk; injection Hk as Hk'; lra|].
    assert (k < length xs)%nat by (apply nth_error_Some; congruence).
    pose proof (sorted_nth_lt _ Hs k (length xs - 1) x (last xs 0) ltac:(lia) Hk HL). lra.
  - destruct (Req_dec x xi) as [->|Hne1].
    + rewrite (Hinj _ _ Hk Hi) in Hyk. rewrite Hyi in Hyk; injection Hyk as <-.
      replace (xi - xi) with 0 by ring. unfold Rdiv. ring.
    + destruct (Req_dec x xj) as [->|Hne2].
      * rewrite (Hinj _ _ Hk Hj) in Hyk. rewrite Hyj in Hyk; injection Hyk as <-.
        unfold Rdiv. rewrite Rinv_r by lra. ring.
      * exfalso. destruct (Nat.lt_trichotomy k i) as [L|[L|L]].
        -- pose proof (sorted_nth_lt _ Hs k i x xi L Hk Hi). lra.
        -- subst k. rewrite Hk in Hi. injection Hi as ->. lra.
        -- destruct (Nat.eq_dec k (S i)) as [->|Hd]; [rewrite Hk in Hj; injection Hj as ->; lra|].
           pose proof (sorted_nth_lt _ Hs (S i) k xj x ltac:(lia) Hj Hk). lra.
Qed.

(** * Part 2: the release rule, one trial, the trial loop *)

Lemma release_rate_spec cv d v r : release_rate cv d v = Some r ->
  exists mn, capped_piecewise cv v (t_minRelease (tb cv)) = Some mn /\
    ((d < mn /\ r = mn) \/
     (mn <= d /\ exists mx, capped_piecewise cv v (t_maxRelease (tb cv)) = Some mx /\
                  ((mx < d /\ r = mx) \/ (d <= mx /\ r = d)))).
Proof.
  unfold release_rate, gtb. runfold. intros H.
  destruct (capped_piecewise cv v (t_minRelease (tb cv))) as [mn|]; [|discriminate].
  exists mn. split; [reflexivity|].
  destruct (Rltb d mn) eqn:E1.
  - apply Rltb_true in E1. injection H as <-. left; auto.
  - apply Rltb_false in E1. right. split; [exact E1|].
    destruct (capped_piecewise cv v (t_maxRelease (tb cv))) as [mx|]; [|discriminate].
    exists mx. split; [reflexivity|].
    destruct (Rltb mx d) eqn:E2.
    + apply Rltb_true in E2. injection H as <-. left; auto.
    + apply Rltb_false in E2. injection H as <-. right; auto.
Qed.

(** the release lies between the two curves at that volume, and is the demand when the demand does *)
Lemma release_rate_between cv d v r mn mx : release_rate cv d v = Some r ->
  capped_piecewise cv v (t_minRelease (tb cv)) = Some mn ->
  capped_piecewise cv v (t_maxRelease (tb cv)) = Some mx ->
  mn <= mx -> mn <= r <= mx /\ (mn <= d <= mx -> r = d).
Proof.
  intros H Hmn Hmx Hle. apply release_rate_spec in H.
  destruct H as (mn' & E & H). rewrite Hmn in E; injection E as <-.
  destruct H as [[H1 ->]|(H1 & mx' & E & H)].
  - split; [lra|]. intros; lra.
  - rewrite Hmx in E; injection E as <-. destruct H as [[H2 ->]|[H2 ->]]; (split; [lra|intros; lra]).
Qed.

Lemma release_rate_total cv d v : wf_curves cv -> exists r, release_rate cv d v = Some r.
Proof.
  intros W. unfold release_rate.
  destruct (capped_piecewise_total cv v _ W (wf_len_minRelease cv W)) as [mn ->].
  destruct (capped_piecewise_total cv v _ W (wf_len_maxRelease cv W)) as [mx ->].
  destruct (d <? mn)%ar; [eauto|]. destruct (d >? mx)%ar; eauto.
Qed.

Lemma halve_ge h : 6 <= halve h.
Proof. unfold halve, half, MIN_TIMESTEP_SECONDS_NEGATIVE. runfold. apply Rmax_r. Qed.
Lemma halve_le h : halve h <= Rmax (h / 2) 6.
Proof. unfold halve, half, MIN_TIMESTEP_SECONDS_NEGATIVE. runfold. apply Req_le. f_equal. lra. Qed.
Lemma halve_halve_le h : halve (halve h) <= Rmax (h / 2) 6.
Proof.
  unfold halve, half, MIN_TIMESTEP_SECONDS_NEGATIVE. runfold.
  unfold Rmax. repeat destruct (Rle_dec _ _); lra.
Qed.

Lemma trial_accept cv p h vp ea ao aa : trial_step cv p h = TAccept vp ea ao aa ->
  vp = p_volume p + ((p_inflow p - p_estOutflow p) + p_net p * aa) * h /\
  release_rate cv (p_demand p) vp = Some ea /\
  ao = (ea + p_estOutflow p) / 2 /\
  0 <= p_volume p + ((p_inflow p - ao) + p_net p * aa) * h.
Proof.
  unfold trial_step, geb. runfold. intros H.
  destruct (Rltb _ 0); [destruct (Rleb h _); discriminate|].
  destruct (capped_piecewise cv _ (t_areas (tb cv))) as [avgArea|]; [|discriminate].
  destruct (release_rate cv (p_demand p) _) as [after|] eqn:ER; [|discriminate].
  destruct (Rleb 0 _) eqn:E0.
  - apply Rleb_true in E0.
    destruct (release_rates_close_enough _ _).
    + injection H as <- <- <- <-. repeat split; try assumption; try reflexivity.
    + destruct (Rleb h _); [|discriminate].
      injection H as <- <- <- <-. repeat split; try assumption; try reflexivity.
  - destruct (Rleb h _); discriminate.
Qed.

Lemma trial_retry cv p h h' : trial_step cv p h = TRetry h' ->
  6 < h /\ 6 <= h' <= Rmax (h / 2) 6.
Proof.
  unfold trial_step, geb, MIN_TIMESTEP_SECONDS_POSITIVE. runfold. intros H.
  destruct (Rltb _ 0).
  - destruct (Rleb h MIN_TIMESTEP_SECONDS_NEGATIVE) eqn:E; [discriminate|].
    apply Rleb_false in E. unfold MIN_TIMESTEP_SECONDS_NEGATIVE in E. runfold.
    injection H as <-. split; [lra|]. split; [apply halve_ge | apply halve_halve_le].
  - destruct (capped_piecewise cv _ (t_areas (tb cv))) as [avgArea|]; [|discriminate].
    destruct (release_rate cv (p_demand p) _) as [after|]; [|discriminate].
    destruct (Rleb 0 _).
    + destruct (release_rates_close_enough _ _); [discriminate|].
      destruct (Rleb h (IZR 60)) eqn:E; [discriminate|]. apply Rleb_false in E.
      injection H as <-. split; [lra|]. split; [apply halve_ge | apply halve_le].
    + destruct (Rleb h MIN_TIMESTEP_SECONDS_NEGATIVE) eqn:E; [discriminate|].
      apply Rleb_false in E. unfold MIN_TIMESTEP_SECONDS_NEGATIVE in E. runfold.
      injection H as <-. split; [lra|]. split; [apply halve_ge | apply halve_le].
Qed.

Lemma inner_accept : forall fuel cv p h0 h vp ea ao aa,
  inner_loop fuel cv p h0 = IAccept h vp ea ao aa ->
  trial_step cv p h = TAccept vp ea ao aa /\ (h = h0 \/ (6 <= h /\ h <= h0 /\ 6 < h0)).
Proof.
  induction fuel as [|f IH]; intros cv p h0 h vp ea ao aa H; cbn in H; [discriminate|].
  destruct (trial_step cv p h0) as [vp' ea' ao' aa'|h'|] eqn:E; [| |discriminate].
  - injection H as <- <- <- <- <-. split; [exact E|left; reflexivity].
  - apply trial_retry in E. destruct E as (H6 & Hlo & Hhi).
    assert (Hh' : h' <= h0) by (revert Hhi; unfold Rmax; destruct (Rle_dec _ _); lra).
    apply IH in H. destruct H as (HT & [->|(Ha & Hb & Hc)]); (split; [exact HT|right; lra]).
Qed.

(** the trial loop never runs out of fuel when the fuel covers the halvings down to 6 s *)
Lemma inner_no_fuel : forall f cv p h, h <= 6 * 2 ^ f -> inner_loop (S f) cv p h <> IFuel.
Proof.
  induction f as [|f IH]; intros cv p h Hh.
  - cbn. destruct (trial_step cv p h) as [? ? ? ?|h'|] eqn:E; try discriminate.
    apply trial_retry in E. cbn in Hh. lra.
  - cbn [inner_loop]. destruct (trial_step cv p h) as [? ? ? ?|h'|] eqn:E; try discriminate.
    apply trial_retry in E. destruct E as (H6 & Hlo & Hhi). apply IH.
    assert (1 <= 2 ^ f) by (apply pow_R1_Rle; lra).
    cbn [pow] in Hh. revert Hhi; unfold Rmax; destruct (Rle_dec _ _); lra.
Qed.

(** * Part 3: one accepted sub-step *)

Definition substep_ok (cv : curves) (c : tsctx) (ss : substep) : Prop :=
  release_rate cv (c_origDemand c) (ss_v0 ss) = Some (ss_est ss) /\
  release_rate cv (c_origDemand c) (ss_vp ss) = Some (ss_after ss) /\
  ss_out ss = (ss_after ss + ss_est ss) / 2 /\
  ss_vp ss = ss_v0 ss + ((c_inflow c - ss_est ss) + c_net c * ss_area ss) * ss_h ss /\
  ss_vmid ss = ss_v0 ss + ((c_inflow c + c_net c * ss_area ss) - ss_out ss) * ss_h ss /\
  0 <= ss_vmid ss /\
  ss_v1 ss = ss_vmid ss - ss_spill ss /\
  ((ss_vmid ss <= volCurveMax cv /\ ss_spill ss = 0) \/
   (volCurveMax cv < ss_vmid ss /\ 0 <= ss_spill ss <= ss_vmid ss - volCurveMax cv /\
    ss_spill ss <= Rmax (Rmax (Rmin (ss_vmid ss / volCurveMax cv) 2 * maxSpill cv - ss_out ss) 0 * ss_h ss) 0)).

Definition outer_link (cv : curves) (c : tsctx) (s s' : ostate) (ss : substep) : Prop :=
  0 < o_timeRemaining s /\
  o_trace s' = ss :: o_trace s /\
  ss_v0 ss = o_volume s /\ o_volume s' = ss_v1 ss /\
  o_timeRemaining s' = o_timeRemaining s - ss_h ss /\
  o_subtimestep s' = ss_h ss /\
  o_outflowVolume s' = o_outflowVolume s + ss_out ss * ss_h ss + ss_spill ss /\
  o_rainfallVol s' = o_rainfallVol s + c_rainfallPerSecond c * (1 / 1000) * ss_area ss * ss_h ss /\
  o_evaporationVol s' = o_evaporationVol s + c_petPerSecond c * (1 / 1000) * ss_area ss * ss_h ss /\
  substep_ok cv c ss /\
  (ss_h ss = Rmin (o_timeRemaining s) (o_subtimestep s * 2) \/
   (6 <= ss_h ss /\ ss_h ss <= Rmin (o_timeRemaining s) (o_subtimestep s * 2) /\
    6 < Rmin (o_timeRemaining s) (o_subtimestep s * 2))).

Lemma outer_step_inl fuel cv c s s' : outer_step fuel cv c s = inl s' ->
  exists ss, outer_link cv c s s' ss.
Proof.
  unfold outer_step, gtb. cbn [autoAdjustDemand andb]. runfold. intros H.
  destruct (Rltb 0 (o_timeRemaining s)) eqn:Etr; [apply Rltb_true in Etr|discriminate].
  destruct (release_rate cv (c_origDemand c) (o_volume s)) as [est|] eqn:Eest; [|discriminate].
  destruct (capped_piecewise cv (o_volume s) (t_areas (tb cv))) as [area|] eqn:Earea; [|discriminate].
  destruct (inner_loop _ _ _ _) as [h vp ea ao aa| |] eqn:Ein; [|discriminate|discriminate].
  apply inner_accept in Ein. destruct Ein as (HT & Hh). apply trial_accept in HT.
  cbn [p_volume p_inflow p_demand p_net p_estOutflow p_area] in HT.
  destruct HT as (Hvp & Hafter & Hao & Htv).
  destruct (Rltb _ 0) eqn:Eneg; [discriminate|]. apply Rltb_false in Eneg.
  destruct (Rltb (volCurveMax cv) _) eqn:Espill.
  - apply Rltb_true in Espill. injection H as <-.
    eexists. unfold outer_link. split; [exact Etr|]. split; [cbn; reflexivity|].
    unfold substep_ok. cbn. unfold MILLIMETRES_TO_METRES. runfold.
    repeat split; try reflexivity; try assumption; try lra.
    right. split; [exact Espill|]. split.
    + split; [apply Rmax_r|]. apply Rmax_lub; [apply Rmin_r|lra].
    + apply Rmax_lub; [|apply Rmax_r].
      eapply Rle_trans; [apply Rmin_l|]. apply Rmax_l.
  - apply Rltb_false in Espill. injection H as <-.
    eexists. unfold outer_link. split; [exact Etr|]. split; [cbn; reflexivity|].
    unfold substep_ok. cbn. unfold MILLIMETRES_TO_METRES. runfold.
    repeat split; try reflexivity; try assumption; try lra.
Qed.

(** * Part 4: one time step *)

Theorem substep_balance cv c ss : substep_ok cv c ss ->
  ss_v1 ss - ss_v0 ss = (c_inflow c - ss_out ss + c_net c * ss_area ss) * ss_h ss - ss_spill ss.
Proof. intros (_ & _ & _ & _ & Hm & _ & H1 & _). rewrite H1, Hm. ring. Qed.

Definition sumf {X} (f : X -> R) (l : list X) : R := fold_right (fun x a => f x + a) 0 l.
Lemma sumf_app {X} (f : X -> R) l l' : sumf f (l ++ l') = sumf f l + sumf f l'.
Proof. unfold sumf. induction l as [|a l IH]; simpl; [lra|]. rewrite IH. lra. Qed.
Lemma sumf_rev {X} (f : X -> R) l : sumf f (rev l) = sumf f l.
Proof. induction l as [|a l IH]; simpl; [reflexivity|]. rewrite sumf_app, IH. unfold sumf; simpl. lra. Qed.

(** consecutive sub-steps: each starts at the volume the previous one ended with *)
Fixpoint linked (V : R) (l : list substep) (vend : R) : Prop :=
  match l with
  | [] => vend = V
  | ss :: r => ss_v0 ss = V /\ linked (ss_v1 ss) r vend
  end.
Fixpoint linked_rev (V : R) (l : list substep) (vend : R) : Prop :=
  match l with
  | [] => vend = V
  | ss :: r => ss_v1 ss = vend /\ linked_rev V r (ss_v0 ss)
  end.
Lemma linked_snoc : forall l V ss vend, linked V l (ss_v0 ss) -> ss_v1 ss = vend -> linked V (l ++ [ss]) vend.
Proof.
  induction l as [|a l IH]; intros V ss vend H1 H2; cbn in *.
  - split; [exact H1|symmetry; exact H2].
  - destruct H1 as [Ha Hl]. split; [exact Ha|]. apply IH; assumption.
Qed.
Lemma linked_rev_linked : forall l V vend, linked_rev V l vend -> linked V (rev l) vend.
Proof.
  induction l as [|a l IH]; intros V vend H; cbn in *; [exact H|].
  destruct H as [H1 H2]. apply linked_snoc; [apply IH; exact H2|exact H1].
Qed.

Lemma outer_step_done fuel cv c s f : outer_step fuel cv c s = inr (ODone f) ->
  f = s /\ o_timeRemaining s <= 0.
Proof.
  unfold outer_step, gtb. runfold. intros H.
  destruct (Rltb 0 (o_timeRemaining s)) eqn:E.
  - exfalso.
    destruct (release_rate _ _ _); [|discriminate].
    destruct (capped_piecewise _ _ _); [|discriminate].
    destruct (inner_loop _ _ _ _); try discriminate.
    destruct (Rltb _ 0); [discriminate|].
    destruct (Rltb (volCurveMax cv) _); discriminate.
  - apply Rltb_false in E. injection H as <-. auto.
Qed.

(** induction principle for a completed time step: anything that holds initially and is
    preserved by every accepted sub-step holds of the final loop state; and the loop
    ends with no time remaining *)
Lemma ts_loop_done cv dt c V f : ts_loop cv dt c V = ODone f ->
  o_timeRemaining f <= 0 /\
  forall P : ostate -> Prop, P (ts_initial dt V) ->
    (forall s s' ss, P s -> outer_link cv c s s' ss -> P s') -> P f.
Proof.
  unfold ts_loop. rewrite iter_pos_nat. intros H.
  destruct (iter_nat _ _ _) as [s'|r] eqn:E; [discriminate|]. subst r.
  assert (G : forall P : ostate -> Prop, P (ts_initial dt V) ->
              (forall s s' ss, P s -> outer_link cv c s s' ss -> P s') ->
              exists s, P s /\ outer_step (inner_fuel dt) cv c s = inr (ODone f)).
  { intros P H0 Hstep.
    eapply (iter_nat_inv (outer_step (inner_fuel dt) cv c) P); [|exact H0|exact E].
    intros s s' Hs Hst. apply outer_step_inl in Hst. destruct Hst as [ss Hl]. eapply Hstep; eauto. }
  split.
  - destruct (G (fun _ => True) I) as (s & _ & Hs); [auto|]. apply outer_step_done in Hs. destruct Hs as [-> Hs]. exact Hs.
  - intros P H0 Hstep. destruct (G P H0 Hstep) as (s & Hp & Hs). apply outer_step_done in Hs. destruct Hs as [-> _]. exact Hp.
Qed.

Definition net_ok (c : tsctx) : Prop :=
  c_net c = (c_rainfallPerSecond c - c_petPerSecond c) * (1 / 1000).

Lemma ts_context_net cv dt x : net_ok (ts_context cv dt x).
Proof. unfold net_ok, ts_context, MILLIMETRES_TO_METRES. cbn. runfold. reflexivity. Qed.

(** the loop invariant of one time step *)
Definition ts_inv (cv : curves) (c : tsctx) (dt V : R) (s : ostate) : Prop :=
  o_volume s - V = c_inflow c * (dt - o_timeRemaining s)
                   + (o_rainfallVol s - o_evaporationVol s) - o_outflowVolume s /\
  0 <= o_timeRemaining s <= dt /\
  0 < o_subtimestep s <= dt /\
  (6 <= o_subtimestep s \/ o_timeRemaining s <= o_subtimestep s) /\
  Forall (substep_ok cv c) (o_trace s) /\
  Forall (fun ss => 0 < ss_h ss) (o_trace s) /\
  o_timeRemaining s = dt - sumf ss_h (o_trace s) /\
  o_outflowVolume s = sumf (fun ss => ss_out ss * ss_h ss + ss_spill ss) (o_trace s) /\
  linked_rev V (o_trace s) (o_volume s).

Lemma ts_inv_initial cv c dt V : 0 < dt -> ts_inv cv c dt V (ts_initial dt V).
Proof.
  intros Hdt. unfold ts_inv, ts_initial. cbn. runfold.
  repeat split; try lra; try constructor.
Qed.

Lemma link_h_bounds cv c s s' ss : outer_link cv c s s' ss -> 0 < o_subtimestep s ->
  0 < ss_h ss /\ ss_h ss <= o_timeRemaining s /\ ss_h ss <= o_subtimestep s * 2.
Proof.
  intros (Htr & _ & _ & _ & _ & _ & _ & _ & _ & _ & Hh) Hs.
  pose proof (Rmin_l (o_timeRemaining s) (o_subtimestep s * 2)).
  pose proof (Rmin_r (o_timeRemaining s) (o_subtimestep s * 2)).
  destruct Hh as [->|(H6 & Hle & _)].
  - repeat split; try assumption. apply Rmin_glb_lt; lra.
  - repeat split; lra.
Qed.

Lemma ts_inv_step cv c dt V s s' ss : net_ok c ->
  ts_inv cv c dt V s -> outer_link cv c s s' ss -> ts_inv cv c dt V s'.
Proof.
  intros Hnet (Hbal & Htr & Hsub & Hsix & Hok & Hpos & Hsum & Hout & Hlink) L.
  pose proof (link_h_bounds _ _ _ _ _ L (proj1 Hsub)) as (Hh0 & Hh1 & Hh2).
  destruct L as (Htr0 & Etrace & Ev0 & Ev1 & Etr & Esub & Eout & Erain & Eevap & Sok & Hh).
  pose proof (substep_balance _ _ _ Sok) as Hsb.
  unfold ts_inv. rewrite Etrace, Ev1, Etr, Esub, Eout, Erain, Eevap.
  split; [|split; [split|split; [split|split; [|split; [|split; [|split; [|split]]]]]]].
  - rewrite Ev0 in Hsb. unfold net_ok in Hnet. rewrite Hnet in Hsb.
    assert (E : ss_v1 ss - V = (ss_v1 ss - o_volume s) + (o_volume s - V)) by ring.
    rewrite E, Hsb, Hbal. ring.
  - lra.
  - lra.
  - exact Hh0.
  - destruct Hh as [->|(H6 & Hle & _)].
    + eapply Rle_trans; [apply Rmin_l|]. lra.
    + pose proof (Rmin_l (o_timeRemaining s) (o_subtimestep s * 2)). lra.
  - destruct Hh as [E|(H6 & _ & _)]; [|left; exact H6].
    destruct Hsix as [H6|Hle].
    + unfold Rmin in E. destruct (Rle_dec _ _); [right; lra|left; lra].
    + right. unfold Rmin in E. destruct (Rle_dec _ _); lra.
  - constructor; assumption.
  - constructor; assumption.
  - cbn. fold (sumf ss_h (o_trace s)). lra.
  - cbn. fold (sumf (fun ss => ss_out ss * ss_h ss + ss_spill ss) (o_trace s)). lra.
  - cbn. split; [reflexivity|]. rewrite Ev0. exact Hlink.
Qed.

Lemma ts_loop_inv cv dt c V f : 0 < dt -> net_ok c -> ts_loop cv dt c V = ODone f ->
  ts_inv cv c dt V f /\ o_timeRemaining f = 0.
Proof.
  intros Hdt Hnet H. apply ts_loop_done in H. destruct H as [Hle H].
  assert (Hi : ts_inv cv c dt V f).
  { apply H; [apply ts_inv_initial; exact Hdt|]. intros; eapply ts_inv_step; eauto. }
  split; [exact Hi|]. destruct Hi as (_ & Htr & _). lra.
Qed.

(** what [storage_step] returns when it does not fail *)
Lemma storage_step_ok cv dt V x V' o : storage_step cv dt (SOk V) x = (SOk V', Some o) ->
  exists f, ts_loop cv dt (ts_context cv dt x) V = ODone f /\
    V' = o_volume f /\ r_volume o = o_volume f /\
    r_outflow o = o_outflowVolume f / dt /\
    r_rainfallVolume o = o_rainfallVol f / dt /\
    r_evaporationVolume o = o_evaporationVol f / dt /\
    r_substeps o = rev (o_trace f).
Proof.
  unfold storage_step. destruct (ts_loop _ _ _ _) as [f| |]; intros H; try discriminate.
  injection H as <- <-. exists f. cbn. runfold. repeat split; reflexivity.
Qed.

(** ** the water balance of one time step, with the REPORTED quantities.
    Over the reals the accepted sub-steps add up to deltaT exactly ([timeRemaining] reaches 0);
    in binary64 this holds to round-off only. *)
Theorem storage_step_balance cv dt V x V' o : 0 < dt ->
  storage_step cv dt (SOk V) x = (SOk V', Some o) ->
  V' = r_volume o /\
  r_volume o - V = (i_inflow x - r_outflow o) * dt
                   + (r_rainfallVolume o - r_evaporationVolume o) * dt.
Proof.
  intros Hdt H. apply storage_step_ok in H.
  destruct H as (f & Hl & -> & Hv & Ho & Hr & He & _).
  apply ts_loop_inv in Hl; [|exact Hdt|apply ts_context_net].
  destruct Hl as ((Hbal & _) & Htr0). split; [symmetry; exact Hv|].
  rewrite Hv, Ho, Hr, He, Hbal, Htr0. cbn [ts_context c_inflow]. field. lra.
Qed.

(** ** the accepted sub-steps of a time step (ghost output) *)
Definition release_volume (o : tsout) : R := sumf (fun ss => ss_out ss * ss_h ss) (r_substeps o).
Definition spill_volume (o : tsout) : R := sumf ss_spill (r_substeps o).

Lemma sumf_plus {X} (f g : X -> R) l : sumf (fun x => f x + g x) l = sumf f l + sumf g l.
Proof. unfold sumf. induction l as [|a l IH]; simpl; [lra|]. rewrite IH. lra. Qed.

Lemma Forall_rev' {X} (P : X -> Prop) l : Forall P l -> Forall P (rev l).
Proof. intros H. apply Forall_forall. intros x Hx. rewrite Forall_forall in H. apply H. apply in_rev. exact Hx. Qed.

Theorem storage_step_trace cv dt V x V' o : 0 < dt ->
  storage_step cv dt (SOk V) x = (SOk V', Some o) ->
  let c := ts_context cv dt x in
  Forall (substep_ok cv c) (r_substeps o) /\
  Forall (fun ss => 0 < ss_h ss) (r_substeps o) /\
  sumf ss_h (r_substeps o) = dt /\
  r_outflow o * dt = release_volume o + spill_volume o /\
  linked V (r_substeps o) (r_volume o).
Proof.
  intros Hdt H c. apply storage_step_ok in H.
  destruct H as (f & Hl & -> & Hv & Ho & _ & _ & Hs).
  apply ts_loop_inv in Hl; [|exact Hdt|apply ts_context_net].
  destruct Hl as ((_ & _ & _ & _ & Hok & Hpos & Hsum & Hout & Hlink) & Htr0).
  unfold release_volume, spill_volume. rewrite Hs, Hv, Ho.
  repeat split.
  - apply Forall_rev'. exact Hok.
  - apply Forall_rev'. exact Hpos.
  - rewrite sumf_rev. lra.
  - rewrite !sumf_rev, Hout, sumf_plus. field. lra.
  - apply linked_rev_linked. exact Hlink.
Qed.

(** ** volume never negative (unless the step fails) *)
Theorem storage_step_volume_nonneg cv dt V x V' o : 0 < dt -> 0 <= volCurveMax cv -> 0 <= V ->
  storage_step cv dt (SOk V) x = (SOk V', Some o) ->
  0 <= r_volume o /\ Forall (fun ss => 0 <= ss_v0 ss /\ 0 <= ss_vmid ss /\ 0 <= ss_v1 ss) (r_substeps o).
Proof.
  intros Hdt Hvm HV H. apply storage_step_ok in H.
  destruct H as (f & Hl & -> & Hv & _ & _ & _ & Hs).
  apply ts_loop_done in Hl. destruct Hl as [_ Hl].
  rewrite Hv, Hs.
  assert (G : 0 <= o_volume f /\ Forall (fun ss => 0 <= ss_v0 ss /\ 0 <= ss_vmid ss /\ 0 <= ss_v1 ss) (o_trace f)).
  { apply Hl; [cbn; split; [exact HV|constructor]|].
    intros s s' ss [H0 HF] (_ & Etrace & Ev0 & Ev1 & _ & _ & _ & _ & _ & Sok & _).
    destruct Sok as (_ & _ & _ & _ & _ & Hmid & E1 & Hsp).
    assert (0 <= ss_v1 ss) by (destruct Hsp as [[_ Hz]|(Hgt & [Hs0 Hs1] & _)]; lra).
    rewrite Ev1, Etrace. split; [assumption|]. constructor; [|exact HF]. rewrite Ev0. auto. }
  destruct G as [G1 G2]. split; [exact G1|apply Forall_rev'; exact G2].
Qed.

(** ** spill only above the full-supply volume, never below it *)
Theorem substep_spill cv c ss : substep_ok cv c ss ->
  0 <= ss_spill ss /\
  (ss_spill ss <> 0 -> volCurveMax cv < ss_vmid ss /\ volCurveMax cv <= ss_v1 ss /\
                        ss_spill ss <= ss_vmid ss - volCurveMax cv).
Proof.
  intros (_ & _ & _ & _ & _ & _ & E1 & Hsp).
  destruct Hsp as [[_ Hz]|(Hgt & [Hs0 Hs1] & _)].
  - split; [lra|]. intros; lra.
  - split; [lra|]. intros _. repeat split; lra.
Qed.

(** ** release between the curves (at the volumes where the scheme evaluates them:
    the start volume and the predicted end volume of the sub-step) *)
Theorem substep_release cv c ss mn0 mx0 mn1 mx1 : substep_ok cv c ss ->
  capped_piecewise cv (ss_v0 ss) (t_minRelease (tb cv)) = Some mn0 ->
  capped_piecewise cv (ss_v0 ss) (t_maxRelease (tb cv)) = Some mx0 ->
  capped_piecewise cv (ss_vp ss) (t_minRelease (tb cv)) = Some mn1 ->
  capped_piecewise cv (ss_vp ss) (t_maxRelease (tb cv)) = Some mx1 ->
  mn0 <= mx0 -> mn1 <= mx1 ->
  Rmin mn0 mn1 <= ss_out ss <= Rmax mx0 mx1 /\
  (mn0 <= c_origDemand c <= mx0 -> mn1 <= c_origDemand c <= mx1 -> ss_out ss = c_origDemand c).
Proof.
  intros (He & Ha & Ho & _) A0 B0 A1 B1 L0 L1.
  destruct (release_rate_between _ _ _ _ _ _ He A0 B0 L0) as [R0 D0].
  destruct (release_rate_between _ _ _ _ _ _ Ha A1 B1 L1) as [R1 D1].
  rewrite Ho. split.
  - pose proof (Rmin_l mn0 mn1). pose proof (Rmin_r mn0 mn1).
    pose proof (Rmax_l mx0 mx1). pose proof (Rmax_r mx0 mx1). split; lra.
  - intros I0 I1. rewrite (D0 I0), (D1 I1). lra.
Qed.

(** curves ordered point by point: minRelease[i] <= maxRelease[i] *)
Definition curves_ordered (cv : curves) : Prop := Forall2 Rle (t_minRelease (tb cv)) (t_maxRelease (tb cv)).


Lemma capped_piecewise_lower cv vol ys y lo : wf_curves cv -> length ys = nlva (tb cv) ->
  capped_piecewise cv vol ys = Some y -> Forall (fun v => lo <= v) ys -> lo <= y.
Proof.
  intros W Hl E HF. rewrite Forall_forall in HF.
  destruct (capped_piecewise_cases cv vol W) as [[_ H]|[[_ H]|[_ (i & xi & xj & _ & _ & Hb & Hlt & H)]]].
  - destruct (H ys Hl) as (y0 & Hn & E'). rewrite E in E'; injection E' as ->.
    apply HF. eapply nth_error_In; eauto.
  - destruct (H ys Hl) as (y0 & Hn & E'). rewrite E in E'; injection E' as ->.
    apply HF. eapply nth_error_In; eauto.
  - destruct (H ys Hl) as (yi & yj & Hyi & Hyj & E'). rewrite E in E'; injection E' as ->.
    pose proof (frac_bounds vol xi xj Hb Hlt) as Hf.
    pose proof (HF yi (nth_error_In _ _ Hyi)). pose proof (HF yj (nth_error_In _ _ Hyj)).
    set (f := (vol - xi) / (xj - xi)) in *. nra.
Qed.

Lemma capped_piecewise_upper cv vol ys y hi : wf_curves cv -> length ys = nlva (tb cv) ->
  capped_piecewise cv vol ys = Some y -> Forall (fun v => v <= hi) ys -> y <= hi.
Proof.
  intros W Hl E HF. rewrite Forall_forall in HF.
  destruct (capped_piecewise_cases cv vol W) as [[_ H]|[[_ H]|[_ (i & xi & xj & _ & _ & Hb & Hlt & H)]]].
  - destruct (H ys Hl) as (y0 & Hn & E'). rewrite E in E'; injection E' as ->.
    apply HF. eapply nth_error_In; eauto.
  - destruct (H ys Hl) as (y0 & Hn & E'). rewrite E in E'; injection E' as ->.
    apply HF. eapply nth_error_In; eauto.
  - destruct (H ys Hl) as (yi & yj & Hyi & Hyj & E'). rewrite E in E'; injection E' as ->.
    pose proof (frac_bounds vol xi xj Hb Hlt) as Hf.
    pose proof (HF yi (nth_error_In _ _ Hyi)). pose proof (HF yj (nth_error_In _ _ Hyj)).
    set (f := (vol - xi) / (xj - xi)) in *. nra.
Qed.

Lemma sumf_weighted_bounds (l : list substep) lo hi :
  Forall (fun ss => 0 < ss_h ss /\ lo <= ss_out ss <= hi) l ->
  lo * sumf ss_h l <= sumf (fun ss => ss_out ss * ss_h ss) l <= hi * sumf ss_h l.
Proof.
  unfold sumf. induction 1 as [|ss l (Hh & Hlo & Hhi) _ IH]; simpl; [lra|].
  destruct IH. split; nra.
Qed.

Lemma sumf_weighted_const (l : list substep) d :
  Forall (fun ss => ss_out ss = d) l ->
  sumf (fun ss => ss_out ss * ss_h ss) l = d * sumf ss_h l.
Proof.
  unfold sumf. induction 1 as [|ss l Hd _ IH]; simpl; [lra|]. rewrite IH, Hd. ring.
Qed.

(** the two curve values at a volume, when the curves are ordered point by point *)
Lemma curves_at cv v : wf_curves cv -> curves_ordered cv ->
  exists mn mx, capped_piecewise cv v (t_minRelease (tb cv)) = Some mn /\
                capped_piecewise cv v (t_maxRelease (tb cv)) = Some mx /\ mn <= mx.
Proof.
  intros W O.
  destruct (capped_piecewise_total cv v _ W (wf_len_minRelease cv W)) as [mn Hmn].
  destruct (capped_piecewise_total cv v _ W (wf_len_maxRelease cv W)) as [mx Hmx].
  exists mn, mx. repeat split; try assumption.
  eapply (capped_piecewise_mono cv v _ _ mn mx W (wf_len_minRelease cv W) (wf_len_maxRelease cv W) Hmn Hmx). exact O.
Qed.

(** ** release of one time step between the curves over the volumes at which the scheme
    evaluates them (start volume and predicted end volume of every accepted sub-step) *)
Theorem storage_step_release_between cv dt V x V' o lo hi : 0 < dt ->
  wf_curves cv -> curves_ordered cv ->
  storage_step cv dt (SOk V) x = (SOk V', Some o) ->
  (forall ss v mn mx, In ss (r_substeps o) -> v = ss_v0 ss \/ v = ss_vp ss ->
     capped_piecewise cv v (t_minRelease (tb cv)) = Some mn ->
     capped_piecewise cv v (t_maxRelease (tb cv)) = Some mx -> lo <= mn /\ mx <= hi) ->
  lo * dt <= release_volume o <= hi * dt /\
  r_outflow o * dt = release_volume o + spill_volume o /\ 0 <= spill_volume o.
Proof.
  intros Hdt W O H Henv.
  destruct (storage_step_trace _ _ _ _ _ _ Hdt H) as (Hok & Hpos & Hsum & Hout & _).
  assert (Hsp : 0 <= spill_volume o).
  { unfold spill_volume, sumf. clear - Hok. induction Hok as [|ss l Hs _ IH]; simpl; [lra|].
    pose proof (proj1 (substep_spill _ _ _ Hs)). lra. }
  split; [|split; assumption].
  unfold release_volume. rewrite <- Hsum. apply sumf_weighted_bounds.
  rewrite Forall_forall in *. intros ss Hin. split; [apply Hpos; exact Hin|].
  destruct (curves_at cv (ss_v0 ss) W O) as (mn0 & mx0 & A0 & B0 & L0).
  destruct (curves_at cv (ss_vp ss) W O) as (mn1 & mx1 & A1 & B1 & L1).
  destruct (substep_release _ _ _ _ _ _ _ (Hok ss Hin) A0 B0 A1 B1 L0 L1) as [[R1 R2] _].
  destruct (Henv ss _ _ _ Hin (or_introl eq_refl) A0 B0).
  destruct (Henv ss _ _ _ Hin (or_intror eq_refl) A1 B1).
  split.
  - eapply Rle_trans; [|exact R1]. apply Rmin_glb; assumption.
  - eapply Rle_trans; [exact R2|]. apply Rmax_lub; assumption.
Qed.

(** global form: between the smallest minimum release and the largest maximum release of the table *)
Theorem storage_step_release_envelope cv dt V x V' o lo hi : 0 < dt ->
  wf_curves cv -> curves_ordered cv ->
  Forall (fun y => lo <= y) (t_minRelease (tb cv)) ->
  Forall (fun y => y <= hi) (t_maxRelease (tb cv)) ->
  storage_step cv dt (SOk V) x = (SOk V', Some o) ->
  lo * dt <= release_volume o <= hi * dt.
Proof.
  intros Hdt W O Flo Fhi H.
  apply (storage_step_release_between cv dt V x V' o lo hi Hdt W O H).
  intros ss v mn mx _ _ A B. split.
  - eapply capped_piecewise_lower; eauto using wf_len_minRelease.
  - eapply capped_piecewise_upper; eauto using wf_len_maxRelease.
Qed.

(** the release equals the demand when the demand lies between the curves at both
    evaluation volumes of every accepted sub-step; the reported outflow is then the
    demand plus the spill *)
Theorem storage_step_release_demand cv dt V x V' o : 0 < dt ->
  wf_curves cv -> curves_ordered cv ->
  storage_step cv dt (SOk V) x = (SOk V', Some o) ->
  (forall ss v mn mx, In ss (r_substeps o) -> v = ss_v0 ss \/ v = ss_vp ss ->
     capped_piecewise cv v (t_minRelease (tb cv)) = Some mn ->
     capped_piecewise cv v (t_maxRelease (tb cv)) = Some mx -> mn <= i_demand x <= mx) ->
  release_volume o = i_demand x * dt /\
  r_outflow o = i_demand x + spill_volume o / dt /\
  (spill_volume o = 0 -> r_outflow o = i_demand x).
Proof.
  intros Hdt W O H Henv.
  destruct (storage_step_trace _ _ _ _ _ _ Hdt H) as (Hok & Hpos & Hsum & Hout & _).
  assert (E : release_volume o = i_demand x * dt).
  { unfold release_volume. rewrite <- Hsum. apply sumf_weighted_const.
    rewrite Forall_forall in *. intros ss Hin.
    destruct (curves_at cv (ss_v0 ss) W O) as (mn0 & mx0 & A0 & B0 & L0).
    destruct (curves_at cv (ss_vp ss) W O) as (mn1 & mx1 & A1 & B1 & L1).
    destruct (substep_release _ _ _ _ _ _ _ (Hok ss Hin) A0 B0 A1 B1 L0 L1) as [_ D].
    apply D.
    - apply (Henv ss _ _ _ Hin (or_introl eq_refl) A0 B0).
    - apply (Henv ss _ _ _ Hin (or_intror eq_refl) A1 B1). }
  split; [exact E|].
  assert (E2 : r_outflow o = i_demand x + spill_volume o / dt).
  { rewrite E in Hout. apply Rmult_eq_reg_r with dt; [|lra]. rewrite Hout. field. lra. }
  split; [exact E2|]. intros Z. rewrite E2, Z. unfold Rdiv. ring.
Qed.

(** * Part 5: termination - the fuel computed from deltaT is never exhausted (over R) *)

Lemma Rtrunc_bounds dt : 0 <= dt -> IZR (Rtrunc dt) <= dt < IZR (Rtrunc dt) + 1.
Proof.
  intros H. unfold Rtrunc. destruct (Rle_dec 0 dt); [|contradiction].
  pose proof (base_Int_part dt) as [A B]. lra.
Qed.

Lemma Rtrunc_nonneg dt : 0 <= dt -> (0 <= Rtrunc dt)%Z.
Proof.
  intros H. pose proof (Rtrunc_bounds dt H) as [A B].
  assert (-1 < Rtrunc dt)%Z by (apply lt_IZR; lra). lia.
Qed.

Lemma log2_up_ge a : (0 < a)%Z -> (a <= 2 ^ Z.log2_up a)%Z.
Proof.
  intros H. destruct (Z.eq_dec a 1) as [->|Hne]; [cbn; lia|].
  apply (Z.log2_up_spec a). lia.
Qed.

Lemma inner_fuel_enough dt h : 0 <= dt -> h <= dt ->
  exists f, @inner_fuel R RArith dt = S f /\ h <= 6 * 2 ^ f.
Proof.
  intros Hdt Hh. unfold inner_fuel. cbn [truncZ RArith].
  set (a := (Rtrunc dt + 1)%Z).
  exists (S (Z.to_nat (Z.log2_up a))). split; [reflexivity|].
  pose proof (Rtrunc_bounds dt Hdt) as [A B]. pose proof (Rtrunc_nonneg dt Hdt) as N.
  assert (Ha : (0 < a)%Z) by (unfold a; lia).
  pose proof (log2_up_ge a Ha) as L.
  assert (E : 2 ^ Z.to_nat (Z.log2_up a) = IZR (2 ^ Z.log2_up a)).
  { rewrite pow_IZR. rewrite Z2Nat.id by apply Z.log2_up_nonneg. reflexivity. }
  apply IZR_le in L. unfold a in L at 1. rewrite plus_IZR in L.
  cbn [pow]. rewrite E. lra.
Qed.

Lemma outer_fuel_enough dt : 0 <= dt ->
  exists n, Pos.to_nat (@outer_fuel R RArith dt) = S n /\ dt <= 6 * INR n.
Proof.
  intros Hdt. unfold outer_fuel. cbn [truncZ RArith].
  pose proof (Rtrunc_bounds dt Hdt) as [A B]. pose proof (Rtrunc_nonneg dt Hdt) as N.
  set (z := Rtrunc dt) in *.
  assert (Q : (0 <= z / 6)%Z) by (apply Z.div_pos; lia).
  exists (Z.to_nat (z / 6 + 1)). split.
  - lia.
  - rewrite INR_IZR_INZ, Z2Nat.id by lia.
    pose proof (Z.mul_succ_div_gt z 6 ltac:(lia)) as G.
    assert (G' : (z + 1 <= 6 * (z / 6 + 1))%Z) by lia.
    apply IZR_le in G'. rewrite plus_IZR, mult_IZR, plus_IZR in G'. rewrite plus_IZR. lra.
Qed.

Lemma outer_progress cv c dt V s s' ss : ts_inv cv c dt V s -> outer_link cv c s s' ss ->
  o_timeRemaining s' = 0 \/ o_timeRemaining s' <= o_timeRemaining s - 6.
Proof.
  intros (_ & Htr & Hsub & Hsix & _) (Htr0 & _ & _ & _ & Etr & _ & _ & _ & _ & _ & Hh).
  rewrite Etr. destruct Hh as [E|(H6 & _ & _)]; [|right; lra].
  unfold Rmin in E. destruct (Rle_dec _ _) as [L|L]; [left; lra|].
  destruct Hsix as [H6|Hle]; [right; lra|lra].
Qed.

Lemma outer_step_fuel fuel cv c s : outer_step fuel cv c s = inr OFuel ->
  exists p, inner_loop fuel cv p (Rmin (o_timeRemaining s) (o_subtimestep s * 2)) = IFuel.
Proof.
  unfold outer_step, gtb. cbn [autoAdjustDemand andb]. runfold. intros H.
  destruct (Rltb 0 (o_timeRemaining s)); [|discriminate].
  destruct (release_rate _ _ _); [|discriminate].
  destruct (capped_piecewise _ _ _); [|discriminate].
  destruct (inner_loop _ _ _ _) eqn:E; try discriminate.
  - destruct (Rltb _ 0); [discriminate|]. destruct (Rltb (volCurveMax cv) _); discriminate.
  - eexists. exact E.
Qed.

Lemma outer_terminates cv c dt V : net_ok c ->
  forall n s, ts_inv cv c dt V s -> o_timeRemaining s <= 6 * INR n ->
  exists r, iter_nat (outer_step (inner_fuel dt) cv c) (S n) s = inr r.
Proof.
  intros Hnet. induction n as [|n IH]; intros s Hi Hn.
  - cbn [iter_nat]. destruct (outer_step _ cv c s) as [s'|r] eqn:E; [|eauto].
    apply outer_step_inl in E. destruct E as (ss & H0 & _). cbn in Hn. lra.
  - cbn [iter_nat]. destruct (outer_step _ cv c s) as [s'|r] eqn:E; [|eauto].
    apply outer_step_inl in E. destruct E as (ss & L).
    pose proof (ts_inv_step _ _ _ _ _ _ _ Hnet Hi L) as Hi'.
    apply IH; [exact Hi'|].
    rewrite S_INR in Hn. pose proof (pos_INR n).
    destruct (outer_progress _ _ _ _ _ _ _ Hi L); lra.
Qed.

(** the loop of one time step never reports fuel exhaustion *)
Theorem ts_loop_terminates cv dt x V : ts_loop cv dt (ts_context cv dt x) V <> OFuel.
Proof.
  set (c := ts_context cv dt x). unfold ts_loop. rewrite iter_pos_nat.
  destruct (Rlt_dec 0 dt) as [Hdt|Hdt].
  - destruct (outer_fuel_enough dt ltac:(lra)) as (n & -> & Hn).
    destruct (outer_terminates cv c dt V (ts_context_net cv dt x) n (ts_initial dt V)) as [r Hr].
    { apply ts_inv_initial; exact Hdt. }
    { cbn. exact Hn. }
    rewrite Hr. intros ->.
    destruct (iter_nat_inv (outer_step (inner_fuel dt) cv c) (ts_inv cv c dt V)) with (n := S n) (s0 := ts_initial dt V)
      as [_ G].
    { intros s s' Hs Hst. apply outer_step_inl in Hst. destruct Hst as [ss L].
      eapply ts_inv_step; eauto. apply ts_context_net. }
    { apply ts_inv_initial; exact Hdt. }
    destruct (G _ Hr) as (s & Hs & Hf). apply outer_step_fuel in Hf. destruct Hf as [p Hf].
    destruct Hs as (_ & Htr & _).
    destruct (inner_fuel_enough dt (Rmin (o_timeRemaining s) (o_subtimestep s * 2))) as (f & Ef & Hb).
    { lra. } { eapply Rle_trans; [apply Rmin_l|]. lra. }
    rewrite Ef in Hf. eapply inner_no_fuel; eauto.
  - (* deltaT <= 0: the loop body is never entered *)
    destruct (Pos2Nat.is_succ (outer_fuel dt)) as [n ->]. cbn [iter_nat].
    unfold outer_step at 1. unfold gtb. runfold. cbn [ts_initial o_timeRemaining].
    rewrite (proj2 (Rltb_false _ _)) by lra. discriminate.
Qed.

Theorem storage_step_terminates cv dt s x : fst (storage_step cv dt s x) = SFuel -> s = SFuel.
Proof.
  unfold storage_step. destruct s as [V| |]; cbn; try discriminate; [|reflexivity].
  pose proof (ts_loop_terminates cv dt x V) as H.
  destruct (ts_loop _ _ _ _); cbn; try discriminate. congruence.
Qed.

(** * Part 6: whole runs of storageWaterBalance *)

Lemma run_cons {S I O} (step : S -> I -> S * O) s x r :
  run step s (x :: r) = let (s1, o) := step s x in let (s2, os) := run step s1 r in (s2, o :: os).
Proof. reflexivity. Qed.

Lemma run_sticky_panic cv dt xs : fst (run (storage_step cv dt) SPanic xs) = SPanic.
Proof.
  induction xs as [|x r IH]; cbn; [reflexivity|].
  destruct (run (storage_step cv dt) SPanic r) as [s2 os]. cbn in *. exact IH.
Qed.
Lemma run_sticky_fuel cv dt xs : fst (run (storage_step cv dt) SFuel xs) = SFuel.
Proof.
  induction xs as [|x r IH]; cbn; [reflexivity|].
  destruct (run (storage_step cv dt) SFuel r) as [s2 os]. cbn in *. exact IH.
Qed.

(** a run that ends well is a chain of successful time steps *)
Inductive steps_chain (cv : curves) (dt : R) : R -> list tsin -> list tsout -> R -> Prop :=
| sc_nil V : steps_chain cv dt V [] [] V
| sc_cons V x xs o os v :
    storage_step cv dt (SOk V) x = (SOk (r_volume o), Some o) ->
    steps_chain cv dt (r_volume o) xs os v ->
    steps_chain cv dt V (x :: xs) (o :: os) v.

Lemma run_ok cv dt : forall xs V v outs,
  run (storage_step cv dt) (SOk V) xs = (SOk v, outs) ->
  exists os, all_some outs = Some os /\ steps_chain cv dt V xs os v.
Proof.
  induction xs as [|x r IH]; intros V v outs H.
  - cbn in H. injection H as <- <-. exists []. split; [reflexivity|constructor].
  - rewrite run_cons in H. destruct (storage_step cv dt (SOk V) x) as [s1 oo] eqn:E1.
    destruct (run (storage_step cv dt) s1 r) as [s2 os'] eqn:E2.
    injection H as -> <-.
    destruct s1 as [V1| |].
    + destruct (IH _ _ _ E2) as (os & Hall & Hch).
      assert (exists o, oo = Some o /\ V1 = r_volume o) as (o & -> & ->).
      { unfold storage_step in E1. destruct (ts_loop _ _ _ _); try discriminate.
        injection E1 as <- <-. eexists. split; reflexivity. }
      exists (o :: os). split; [cbn; rewrite Hall; reflexivity|]. econstructor; eauto.
    + pose proof (run_sticky_panic cv dt r) as S. rewrite E2 in S. discriminate.
    + pose proof (run_sticky_fuel cv dt r) as S. rewrite E2 in S. discriminate.
Qed.

(** the volume before time step t is the t-th element of (V0 :: reported volumes) *)
Lemma steps_chain_nth cv dt V xs os v : steps_chain cv dt V xs os v ->
  forall t x o, nth_error xs t = Some x -> nth_error os t = Some o ->
  exists Vp, nth_error (V :: map r_volume os) t = Some Vp /\
             storage_step cv dt (SOk Vp) x = (SOk (r_volume o), Some o).
Proof.
  induction 1 as [V|V x0 xs o0 os v Hs Hc IH]; intros t x o Hx Ho.
  - destruct t; discriminate.
  - destruct t as [|t]; cbn in Hx, Ho.
    + injection Hx as <-; injection Ho as <-. exists V. split; [reflexivity|exact Hs].
    + destruct (IH t x o Hx Ho) as (Vp & Hn & Hst). exists Vp. split; [exact Hn|exact Hst].
Qed.

Lemma last_indep (l : list R) d d' : l <> [] -> last l d = last l d'.
Proof.
  induction l as [|a l IH]; [congruence|]. intros _. destruct l as [|b l]; [reflexivity|].
  change (last (a :: b :: l) d) with (last (b :: l) d). change (last (a :: b :: l) d') with (last (b :: l) d').
  apply IH. congruence.
Qed.

Lemma steps_chain_final cv dt V xs os v : steps_chain cv dt V xs os v ->
  v = last (V :: map r_volume os) V /\ length os = length xs.
Proof.
  induction 1 as [V|V x0 xs o0 os v Hs Hc [IH1 IH2]]; [split; reflexivity|].
  split; [|cbn; lia]. rewrite IH1. cbn [map].
  change (last (V :: r_volume o0 :: map r_volume os) V) with (last (r_volume o0 :: map r_volume os) V).
  apply last_indep. congruence.
Qed.

(** ** well-formed tables: >= 2 rows, equal lengths, strictly increasing volumes *)
Record wf_tables (tbl : tables) : Prop := {
  wt_n : (2 <= nlva tbl)%nat;
  wt_levels : length (t_levels tbl) = nlva tbl;
  wt_volumes : length (t_volumes tbl) = nlva tbl;
  wt_areas : length (t_areas tbl) = nlva tbl;
  wt_minRelease : length (t_minRelease tbl) = nlva tbl;
  wt_maxRelease : length (t_maxRelease tbl) = nlva tbl;
  wt_sorted : StronglySorted Rlt (t_volumes tbl)
}.

Lemma make_curves_wf tbl cv : wf_tables tbl -> make_curves tbl = Some cv -> wf_curves cv /\ tb cv = tbl.
Proof.
  intros W. unfold make_curves.
  destruct (nth_error (t_volumes tbl) 0) as [v0|] eqn:E0; [|discriminate].
  destruct (nth_error (t_volumes tbl) (nlva tbl - 1)) as [vN|] eqn:EN; [|discriminate].
  destruct (nth_error (t_minRelease tbl) (nlva tbl - 1)) as [ms|] eqn:EM; [|discriminate].
  destruct (Nat.eqb (nlva tbl) 0); [discriminate|]. intros H; injection H as <-.
  split; [|reflexivity]. destruct W. constructor; cbn; assumption.
Qed.

Lemma make_curves_total tbl : wf_tables tbl -> exists cv, make_curves tbl = Some cv.
Proof.
  intros W. unfold make_curves. pose proof (wt_n tbl W).
  destruct (nth_error (t_volumes tbl) 0) eqn:E0;
    [|apply nth_error_None in E0; rewrite (wt_volumes tbl W) in E0; lia].
  destruct (nth_error (t_volumes tbl) (nlva tbl - 1)) eqn:EN;
    [|apply nth_error_None in EN; rewrite (wt_volumes tbl W) in EN; lia].
  destruct (nth_error (t_minRelease tbl) (nlva tbl - 1)) eqn:EM;
    [|apply nth_error_None in EM; rewrite (wt_minRelease tbl W) in EM; lia].
  destruct (Nat.eqb (nlva tbl) 0) eqn:En; [apply Nat.eqb_eq in En; lia|]. eauto.
Qed.

(** Maximum() of a strictly increasing table is its last row *)
Lemma fold_max_sorted : forall xs res, StronglySorted Rlt xs -> Forall (fun v => res <= v) xs ->
  fold_left (fun res v : R => if (v >? res)%ar then v else res) xs res = last xs res.
Proof.
  induction xs as [|a r IH]; intros res Hs Hf; [reflexivity|].
  inversion Hs as [|? ? Hs' Hall]; subst. inversion Hf as [|? ? Ha Hf']; subst.
  cbn [fold_left]. unfold gtb. runfold.
  assert (E : (if Rltb res a then a else res) = a).
  { destruct (Rltb res a) eqn:E; [reflexivity|]. apply Rltb_false in E. lra. }
  rewrite E. rewrite IH; [|exact Hs'|].
  - destruct r as [|b r']; [reflexivity|].
    change (last (a :: b :: r') res) with (last (b :: r') res). apply last_indep. congruence.
  - eapply Forall_impl; [|exact Hall]. cbn. intros; lra.
Qed.

Lemma config_ok_vmax cv : wf_curves cv ->
  storage_configuration_error (nlva (tb cv)) (t_volumes (tb cv)) = Some false -> 0 < volCurveMax cv.
Proof.
  intros W. unfold storage_configuration_error, maximum.
  destruct (Nat.eqb _ 0); [discriminate|].
  destruct (t_volumes (tb cv)) as [|x0 r] eqn:Ev.
  { discriminate. }
  rewrite fold_max_sorted.
  - runfold. destruct (Rleb _ 0) eqn:E; [discriminate|]. apply Rleb_false in E. intros _.
    rewrite (wf_vmax_last cv W), Ev. rewrite (last_indep _ 0 x0) by congruence. exact E.
  - rewrite <- Ev. apply (wf_sorted cv W).
  - pose proof (wf_sorted cv W) as Hs. rewrite Ev in Hs. inversion Hs as [|? ? _ Hall]; subst.
    constructor; [lra|]. eapply Forall_impl; [|exact Hall]. cbn; intros; lra.
Qed.

(** what a normal result of [storage_water_balance] means *)
Theorem storage_water_balance_ok tbl dt V0 xs os v l a : wf_tables tbl ->
  storage_water_balance tbl dt V0 xs = ROk os v l a ->
  exists cv, make_curves tbl = Some cv /\ wf_curves cv /\ tb cv = tbl /\ 0 < volCurveMax cv /\
    steps_chain cv dt V0 xs os v /\
    capped_piecewise cv v (t_levels tbl) = Some l /\
    capped_piecewise cv v (t_areas tbl) = Some a.
Proof.
  intros W. unfold storage_water_balance.
  destruct (make_curves tbl) as [cv|] eqn:Ec; [|discriminate].
  destruct (make_curves_wf _ _ W Ec) as [Wc Etb].
  destruct (storage_configuration_error _ _) as [[|]|] eqn:Ee; try discriminate.
  destruct (run _ _ _) as [s outs] eqn:Er. destruct s as [v'| |]; try discriminate.
  destruct (run_ok _ _ _ _ _ _ Er) as (os' & Hall & Hch). rewrite Hall.
  destruct (capped_piecewise cv v' (t_levels tbl)) as [l'|] eqn:El; [|discriminate].
  destruct (capped_piecewise cv v' (t_areas tbl)) as [a'|] eqn:Ea; [|discriminate].
  intros H; injection H as <- <- <- <-.
  exists cv. split; [reflexivity|]. split; [exact Wc|]. split; [exact Etb|].
  split; [|repeat split; assumption].
  apply config_ok_vmax; [exact Wc|]. rewrite Etb. exact Ee.
Qed.

(** ** C13 statements over whole runs *)

Theorem storage_timestep_balance tbl dt V0 xs os v l a : wf_tables tbl -> 0 < dt ->
  storage_water_balance tbl dt V0 xs = ROk os v l a ->
  forall t x o, nth_error xs t = Some x -> nth_error os t = Some o ->
  exists Vp, nth_error (V0 :: map r_volume os) t = Some Vp /\
    r_volume o - Vp = (i_inflow x - r_outflow o) * dt
                      + (r_rainfallVolume o - r_evaporationVolume o) * dt.
Proof.
  intros W Hdt H t x o Hx Ho.
  destruct (storage_water_balance_ok _ _ _ _ _ _ _ _ W H) as (cv & _ & _ & _ & _ & Hch & _).
  destruct (steps_chain_nth _ _ _ _ _ _ Hch t x o Hx Ho) as (Vp & Hn & Hst).
  exists Vp. split; [exact Hn|]. apply (storage_step_balance _ _ _ _ _ _ Hdt Hst).
Qed.

Lemma steps_chain_nonneg cv dt V xs os v : 0 < dt -> 0 <= volCurveMax cv ->
  steps_chain cv dt V xs os v -> 0 <= V ->
  Forall (fun o => 0 <= r_volume o) os /\ 0 <= v.
Proof.
  intros Hdt Hvm. induction 1 as [V|V x0 xs o0 os v Hs Hc IH]; intros HV.
  - split; [constructor|exact HV].
  - destruct (storage_step_volume_nonneg _ _ _ _ _ _ Hdt Hvm HV Hs) as [H0 _].
    destruct (IH H0) as [IH1 IH2]. split; [constructor; assumption|exact IH2].
Qed.

Theorem storage_volume_nonneg tbl dt V0 xs os v l a : wf_tables tbl -> 0 < dt -> 0 <= V0 ->
  storage_water_balance tbl dt V0 xs = ROk os v l a ->
  Forall (fun o => 0 <= r_volume o) os /\ 0 <= v.
Proof.
  intros W Hdt HV H.
  destruct (storage_water_balance_ok _ _ _ _ _ _ _ _ W H) as (cv & _ & _ & _ & Hvm & Hch & _).
  apply (steps_chain_nonneg cv dt V0 xs os v Hdt (Rlt_le _ _ Hvm) Hch HV).
Qed.

Theorem storage_final_level_area tbl dt V0 xs os v l a : wf_tables tbl ->
  storage_water_balance tbl dt V0 xs = ROk os v l a ->
  v = last (V0 :: map r_volume os) V0 /\
  table_value (t_volumes tbl) (t_levels tbl) v l /\
  table_value (t_volumes tbl) (t_areas tbl) v a.
Proof.
  intros W H.
  destruct (storage_water_balance_ok _ _ _ _ _ _ _ _ W H) as (cv & _ & Wc & Etb & _ & Hch & Hl & Ha).
  split; [apply (steps_chain_final _ _ _ _ _ _ Hch)|].
  rewrite <- Etb in *. split; eapply capped_piecewise_table_value; eauto using wf_len_levels, wf_len_areas.
Qed.

Theorem storage_terminates tbl dt V0 xs : storage_water_balance tbl dt V0 xs <> RFuel.
Proof.
  unfold storage_water_balance.
  destruct (make_curves tbl) as [cv|]; [|discriminate].
  destruct (storage_configuration_error _ _) as [[|]|]; try discriminate.
  destruct (run _ _ _) as [s outs] eqn:Er.
  destruct s as [v| |]; try discriminate.
  - destruct (all_some outs); [|discriminate].
    destruct (capped_piecewise _ _ _); [|discriminate]. destruct (capped_piecewise _ _ _); discriminate.
  - exfalso. revert V0 outs Er. induction xs as [|x r IH]; intros V0 outs Er; [cbn in Er; discriminate|].
    rewrite run_cons in Er. destruct (storage_step cv dt (SOk V0) x) as [s1 oo] eqn:E1.
    destruct (run (storage_step cv dt) s1 r) as [s2 os'] eqn:E2. injection Er as -> <-.
    destruct s1 as [V1| |].
    + eapply IH; eauto.
    + pose proof (run_sticky_panic cv dt r) as S. rewrite E2 in S. discriminate.
    + pose proof (storage_step_terminates cv dt (SOk V0) x) as T. rewrite E1 in T. cbn in T.
      specialize (T eq_refl). discriminate.
Qed.

(** every accepted sub-step of every time step: volume change, chaining, sub-steps fill deltaT *)
Theorem storage_substep_balance tbl dt V0 xs os v l a : wf_tables tbl -> 0 < dt ->
  storage_water_balance tbl dt V0 xs = ROk os v l a ->
  forall t x o, nth_error xs t = Some x -> nth_error os t = Some o ->
  let net := (i_rainfall x / dt - i_pet x / dt) * (1 / 1000) in
  (forall ss, In ss (r_substeps o) ->
     ss_v1 ss - ss_v0 ss = (i_inflow x - ss_out ss + net * ss_area ss) * ss_h ss - ss_spill ss /\
     0 < ss_h ss) /\
  sumf ss_h (r_substeps o) = dt /\
  exists Vp, nth_error (V0 :: map r_volume os) t = Some Vp /\ linked Vp (r_substeps o) (r_volume o).
Proof.
  intros W Hdt H t x o Hx Ho net.
  destruct (storage_water_balance_ok _ _ _ _ _ _ _ _ W H) as (cv & _ & _ & _ & _ & Hch & _).
  destruct (steps_chain_nth _ _ _ _ _ _ Hch t x o Hx Ho) as (Vp & Hn & Hst).
  destruct (storage_step_trace _ _ _ _ _ _ Hdt Hst) as (Hok & Hpos & Hsum & _ & Hlink).
  split; [|split; [exact Hsum|exists Vp; split; assumption]].
  intros ss Hin. rewrite Forall_forall in Hok, Hpos. split; [|apply Hpos; exact Hin].
  pose proof (substep_balance _ _ _ (Hok ss Hin)) as B.
  cbn [ts_context c_inflow c_net c_rainfallPerSecond c_petPerSecond] in B.
  unfold MILLIMETRES_TO_METRES in B. runfold. exact B.
Qed.

Theorem storage_release_between_curves tbl dt V0 xs os v l a : wf_tables tbl ->
  Forall2 Rle (t_minRelease tbl) (t_maxRelease tbl) -> 0 < dt ->
  storage_water_balance tbl dt V0 xs = ROk os v l a ->
  forall cv, make_curves tbl = Some cv ->
  forall t x o, nth_error xs t = Some x -> nth_error os t = Some o ->
  r_outflow o * dt = release_volume o + spill_volume o /\ 0 <= spill_volume o /\
  (forall lo hi,
     (forall ss v mn mx, In ss (r_substeps o) -> v = ss_v0 ss \/ v = ss_vp ss ->
        capped_piecewise cv v (t_minRelease tbl) = Some mn ->
        capped_piecewise cv v (t_maxRelease tbl) = Some mx -> lo <= mn /\ mx <= hi) ->
     lo * dt <= release_volume o <= hi * dt) /\
  ((forall ss v mn mx, In ss (r_substeps o) -> v = ss_v0 ss \/ v = ss_vp ss ->
        capped_piecewise cv v (t_minRelease tbl) = Some mn ->
        capped_piecewise cv v (t_maxRelease tbl) = Some mx -> mn <= i_demand x <= mx) ->
   release_volume o = i_demand x * dt /\ (spill_volume o = 0 -> r_outflow o = i_demand x)).
Proof.
  intros W O Hdt H cv Ecv t x o Hx Ho.
  destruct (storage_water_balance_ok _ _ _ _ _ _ _ _ W H) as (cv' & Ecv' & Wc & Etb & _ & Hch & _).
  rewrite Ecv in Ecv'. injection Ecv' as <-.
  destruct (steps_chain_nth _ _ _ _ _ _ Hch t x o Hx Ho) as (Vp & Hn & Hst).
  assert (Oc : curves_ordered cv) by (unfold curves_ordered; rewrite Etb; exact O).
  rewrite <- Etb.
  assert (triv : forall ss v mn mx, In ss (r_substeps o) -> v = ss_v0 ss \/ v = ss_vp ss ->
        capped_piecewise cv v (t_minRelease (tb cv)) = Some mn ->
        capped_piecewise cv v (t_maxRelease (tb cv)) = Some mx -> mn <= mn /\ mx <= mx) by (intros; lra).
  split; [|split; [|split]].
  - destruct (storage_step_trace _ _ _ _ _ _ Hdt Hst) as (_ & _ & _ & Hout & _). exact Hout.
  - destruct (storage_step_trace _ _ _ _ _ _ Hdt Hst) as (Hok & _ & _ & _ & _).
    unfold spill_volume, sumf. clear - Hok. induction Hok as [|ss l0 Hs _ IH]; simpl; [lra|].
    pose proof (proj1 (substep_spill _ _ _ Hs)). lra.
  - intros lo hi Henv.
    apply (storage_step_release_between cv dt Vp x _ o lo hi Hdt Wc Oc Hst Henv).
  - intros Henv.
    destruct (storage_step_release_demand cv dt Vp x _ o Hdt Wc Oc Hst Henv) as (E1 & _ & E3).
    split; assumption.
Qed.

Theorem storage_release_envelope tbl dt V0 xs os v l a lo hi : wf_tables tbl ->
  Forall2 Rle (t_minRelease tbl) (t_maxRelease tbl) -> 0 < dt ->
  Forall (fun y => lo <= y) (t_minRelease tbl) -> Forall (fun y => y <= hi) (t_maxRelease tbl) ->
  storage_water_balance tbl dt V0 xs = ROk os v l a ->
  forall t o, nth_error os t = Some o ->
  lo * dt <= release_volume o <= hi * dt /\
  r_outflow o * dt = release_volume o + spill_volume o.
Proof.
  intros W O Hdt Flo Fhi H t o Ho.
  destruct (storage_water_balance_ok _ _ _ _ _ _ _ _ W H) as (cv & Ecv & Wc & Etb & _ & Hch & _).
  assert (Hx : exists x, nth_error xs t = Some x).
  { destruct (steps_chain_final _ _ _ _ _ _ Hch) as [_ Hlen].
    destruct (nth_error xs t) eqn:E; [eauto|]. apply nth_error_None in E.
    assert (nth_error os t <> None) by congruence. apply nth_error_Some in H0. lia. }
  destruct Hx as [x Hx].
  destruct (steps_chain_nth _ _ _ _ _ _ Hch t x o Hx Ho) as (Vp & Hn & Hst).
  assert (Oc : curves_ordered cv) by (unfold curves_ordered; rewrite Etb; exact O).
  rewrite <- Etb in Flo, Fhi. split.
  - apply (storage_step_release_envelope cv dt Vp x _ o lo hi Hdt Wc Oc Flo Fhi Hst).
  - destruct (storage_step_trace _ _ _ _ _ _ Hdt Hst) as (_ & _ & _ & Hout & _). exact Hout.
Qed.

Theorem storage_spill_only_above_fsv tbl dt V0 xs os v l a : wf_tables tbl -> 0 < dt ->
  storage_water_balance tbl dt V0 xs = ROk os v l a ->
  forall cv, make_curves tbl = Some cv ->
  forall t o ss, nth_error os t = Some o -> In ss (r_substeps o) ->
  0 <= ss_spill ss /\
  (ss_spill ss <> 0 -> volCurveMax cv < ss_vmid ss /\ volCurveMax cv <= ss_v1 ss /\
                        ss_spill ss <= ss_vmid ss - volCurveMax cv) /\
  ss_v1 ss = ss_vmid ss - ss_spill ss.
Proof.
  intros W Hdt H cv Ecv t o ss Ho Hin.
  destruct (storage_water_balance_ok _ _ _ _ _ _ _ _ W H) as (cv' & Ecv' & Wc & Etb & _ & Hch & _).
  rewrite Ecv in Ecv'. injection Ecv' as <-.
  assert (Hx : exists x, nth_error xs t = Some x).
  { destruct (steps_chain_final _ _ _ _ _ _ Hch) as [_ Hlen].
    destruct (nth_error xs t) eqn:E; [eauto|]. apply nth_error_None in E.
    assert (nth_error os t <> None) by congruence. apply nth_error_Some in H0. lia. }
  destruct Hx as [x Hx].
  destruct (steps_chain_nth _ _ _ _ _ _ Hch t x o Hx Ho) as (Vp & Hn & Hst).
  destruct (storage_step_trace _ _ _ _ _ _ Hdt Hst) as (Hok & _).
  rewrite Forall_forall in Hok. pose proof (Hok ss Hin) as S.
  destruct (substep_spill _ _ _ S) as [A B]. split; [exact A|]. split; [exact B|].
  destruct S as (_ & _ & _ & _ & _ & _ & E1 & _). exact E1.
Qed.

(** the driver-facing kernel is the projection of the ghost result *)
Lemma storage_kernel_ok params states inputs os v l a :
  storage_run params states inputs = ROk os v l a ->
  storage_kernel params states inputs =
    Some ([map r_volume os; map r_outflow os; map r_rainfallVolume os; map r_evaporationVolume os], [v; l; a]).
Proof. unfold storage_kernel. intros ->. reflexivity. Qed.

(** * Part 7: a concrete run (non-vacuity) and the strict reading of "volumes traversed" *)

(** a 3-row table: nothing can be released below 500 m3, up to 8 m3/s at 600 m3 (full supply) *)
Definition ex_tbl : tables :=
  {| nlva := 3;
     t_levels := [0; 5; 6]; t_volumes := [0; 500; 600]; t_areas := [0; 0; 0];
     t_minRelease := [0; 0; 0]; t_maxRelease := [0; 0; 8] |}.
Definition ex_cv : curves := {| tb := ex_tbl; volCurveMin := 0; volCurveMax := 600; maxSpill := 0 |}.
(** one 60 s step from empty: 10 m3/s inflow, demand 100 m3/s, no rain, no PET *)
Definition ex_in : tsin :=
  {| i_rainfall := 0; i_pet := 0; i_inflow := 10; i_demand := 100;
     i_targetMinimumVolume := 0; i_targetMinimumCapacity := 0 |}.

Lemma ex_wf_tables : wf_tables ex_tbl.
Proof.
  constructor; cbn; try reflexivity; try lia.
  repeat constructor; lra.
Qed.

Lemma ex_make_curves : make_curves ex_tbl = Some ex_cv.
Proof. reflexivity. Qed.

Ltac rcond :=
  match goal with
  | |- context [Rltb ?a ?b] =>
      first [ rewrite (proj2 (Rltb_true a b)) by lra | rewrite (proj2 (Rltb_false a b)) by lra ]
  | |- context [Rleb ?a ?b] =>
      first [ rewrite (proj2 (Rleb_true a b)) by lra | rewrite (proj2 (Rleb_false a b)) by lra ]
  end.

(** look-ups used by the run (for any curves over the volumes 0, 500, 600) *)
Lemma gen_cp_low cv v ys y0 y1 y2 :
  t_volumes (tb cv) = [0; 500; 600] -> volCurveMin cv = 0 -> volCurveMax cv = 600 ->
  0 <= v <= 500 -> ys = [y0; y1; y2] ->
  capped_piecewise cv v ys = Some (y0 + (v - 0) / (500 - 0) * (y1 - y0)).
Proof.
  intros Ev E0 E1 Hv ->. unfold capped_piecewise, st_piecewise, gtb, geb. rewrite Ev, E0, E1. cbn. runfold.
  repeat rcond. reflexivity.
Qed.
Lemma ex_cp_low v ys y0 y1 y2 : 0 <= v <= 500 -> ys = [y0; y1; y2] ->
  capped_piecewise ex_cv v ys = Some (y0 + (v - 0) / (500 - 0) * (y1 - y0)).
Proof. apply gen_cp_low; reflexivity. Qed.
Lemma ex_cp_600 ys y0 y1 y2 : ys = [y0; y1; y2] ->
  capped_piecewise ex_cv 600 ys = Some (y1 + (600 - 500) / (600 - 500) * (y2 - y1)).
Proof.
  intros ->. unfold capped_piecewise, st_piecewise, gtb, geb. cbn. runfold.
  repeat rcond. reflexivity.
Qed.
Lemma ex_cp_low0 v ys y1 y2 : 0 <= v <= 500 -> ys = [0; y1; y2] -> y1 = 0 ->
  capped_piecewise ex_cv v ys = Some 0.
Proof.
  intros Hv -> ->. rewrite (ex_cp_low v _ 0 0 y2 Hv eq_refl). f_equal. unfold Rdiv. ring.
Qed.

Lemma ex_release_low v : 0 <= v <= 500 -> release_rate ex_cv 100 v = Some 0.
Proof.
  intros Hv. unfold release_rate, gtb. cbn [tb ex_cv t_minRelease t_maxRelease ex_tbl].
  rewrite (ex_cp_low0 v _ 0 0 Hv eq_refl eq_refl). runfold. rcond.
  rewrite (ex_cp_low0 v _ 0 8 Hv eq_refl eq_refl). rcond. reflexivity.
Qed.

Lemma ex_release_600 : release_rate ex_cv 100 600 = Some 8.
Proof.
  unfold release_rate, gtb. cbn [tb ex_cv t_minRelease t_maxRelease ex_tbl].
  rewrite (ex_cp_600 _ 0 0 0 eq_refl).
  replace (0 + (600 - 500) / (600 - 500) * (0 - 0)) with 0 by (unfold Rdiv; ring).
  runfold. rcond.
  rewrite (ex_cp_600 _ 0 0 8 eq_refl).
  replace (0 + (600 - 500) / (600 - 500) * (8 - 0)) with 8 by (field; lra).
  rcond. reflexivity.
Qed.

Definition ex_ctx : tsctx := ts_context ex_cv 60 ex_in.
Definition ex_pass : pass :=
  {| p_volume := 0; p_inflow := 10; p_demand := 100; p_net := c_net ex_ctx; p_estOutflow := 0; p_area := 0 |}.

Lemma ex_net : c_net ex_ctx = 0.
Proof. unfold ex_ctx, ts_context, MILLIMETRES_TO_METRES. cbn. runfold. unfold Rdiv. ring. Qed.

Lemma ex_trial : trial_step ex_cv ex_pass 60 = TAccept 600 8 4 0.
Proof.
  unfold trial_step, geb, ex_pass. cbn [p_volume p_inflow p_demand p_net p_estOutflow p_area].
  rewrite ex_net. runfold.
  replace (0 + (10 - 0 + 0 * 0) * 60) with 600 by ring.
  rcond.
  cbn [tb ex_cv t_areas ex_tbl].
  replace ((600 + 0) / 2) with 300 by lra.
  rewrite (ex_cp_low0 300 _ 0 0 ltac:(lra) eq_refl eq_refl).
  replace (0 + (10 - 0 + 0 * 0) * 60) with 600 by ring.
  rewrite ex_release_600.
  replace ((8 + 0) / 2) with 4 by lra.
  replace (0 + (10 - 4 + 0 * 0) * 60) with 360 by ring.
  rcond.
  unfold MIN_TIMESTEP_SECONDS_POSITIVE. runfold.
  destruct (release_rates_close_enough 0 4); [reflexivity|]. rcond. reflexivity.
Qed.

Definition ex_ss : substep :=
  {| ss_v0 := 0; ss_h := 60; ss_est := 0; ss_vp := 600; ss_after := 8; ss_out := 4; ss_area := 0;
     ss_vmid := 0 + (10 + c_net ex_ctx * 0 - 4) * 60; ss_spill := 0;
     ss_v1 := 0 + (10 + c_net ex_ctx * 0 - 4) * 60 |}.
Definition ex_s1 : ostate :=
  {| o_volume := 0 + (10 + c_net ex_ctx * 0 - 4) * 60;
     o_timeRemaining := 60 - 60; o_subtimestep := 60;
     o_outflowVolume := 0 + 4 * 60;
     o_rainfallVol := 0 + c_rainfallPerSecond ex_ctx * (1 / 1000) * 0 * 60;
     o_evaporationVol := 0 + c_petPerSecond ex_ctx * (1 / 1000) * 0 * 60;
     o_trace := [ex_ss] |}.

Lemma ex_outer1 f : outer_step (S f) ex_cv ex_ctx (ts_initial 60 0) = inl ex_s1.
Proof.
  unfold outer_step, gtb. cbn [autoAdjustDemand andb ts_initial o_timeRemaining o_volume o_subtimestep
                               o_outflowVolume o_rainfallVol o_evaporationVol o_trace].
  runfold. rcond.
  replace (Rmin 60 (60 * 2)) with 60 by (rewrite Rmin_left; lra).
  change (c_origDemand ex_ctx) with 100. change (c_inflow ex_ctx) with 10.
  rewrite (ex_release_low 0) by lra.
  cbn [tb ex_cv t_areas ex_tbl]. rewrite (ex_cp_low0 0 _ 0 0 ltac:(lra) eq_refl eq_refl).
  cbn [inner_loop]. fold ex_pass. rewrite ex_trial.
  unfold MILLIMETRES_TO_METRES. runfold. cbn [volCurveMax ex_cv].
  rewrite ex_net.
  rcond. rcond. unfold ex_s1, ex_ss. rewrite ex_net. reflexivity.
Qed.

Lemma ex_outer2 f : outer_step f ex_cv ex_ctx ex_s1 = inr (ODone ex_s1).
Proof.
  unfold outer_step, gtb. cbn [ex_s1 o_timeRemaining]. runfold. rcond. reflexivity.
Qed.

Lemma ex_ts_loop : ts_loop ex_cv 60 ex_ctx 0 = ODone ex_s1.
Proof.
  unfold ts_loop. rewrite iter_pos_nat.
  destruct (outer_fuel_enough 60 ltac:(lra)) as (n & -> & Hn).
  destruct n as [|m]; [cbn in Hn; lra|].
  cbn [iter_nat]. unfold inner_fuel. rewrite ex_outer1, ex_outer2. reflexivity.
Qed.

Definition ex_out : tsout :=
  {| r_volume := o_volume ex_s1; r_outflow := o_outflowVolume ex_s1 / 60;
     r_rainfallVolume := o_rainfallVol ex_s1 / 60; r_evaporationVolume := o_evaporationVol ex_s1 / 60;
     r_substeps := [ex_ss] |}.

Lemma ex_step : storage_step ex_cv 60 (SOk 0) ex_in = (SOk (r_volume ex_out), Some ex_out).
Proof. unfold storage_step. fold ex_ctx. rewrite ex_ts_loop. reflexivity. Qed.

Lemma ex_volume : r_volume ex_out = 360.
Proof. unfold ex_out, ex_s1. cbn [r_volume o_volume]. rewrite ex_net. ring. Qed.

Lemma ex_run : storage_water_balance ex_tbl 60 0 [ex_in] = ROk [ex_out] 360 (0 + (360 - 0) / (500 - 0) * (5 - 0)) 0.
Proof.
  unfold storage_water_balance. rewrite ex_make_curves.
  assert (E : storage_configuration_error (nlva ex_tbl) (t_volumes ex_tbl) = Some false).
  { unfold storage_configuration_error, maximum, gtb. cbn. runfold. repeat rcond. reflexivity. }
  rewrite E. rewrite run_cons. rewrite ex_step. cbn [run all_some]. rewrite ex_volume.
  cbn [t_levels t_areas ex_tbl].
  rewrite (ex_cp_low 360 _ 0 5 6 ltac:(lra) eq_refl).
  rewrite (ex_cp_low0 360 _ 0 0 ltac:(lra) eq_refl eq_refl). reflexivity.
Qed.

(** Non-vacuity of the C13 theorems: a well-formed table with ordered curves and a run that
    returns normally; its reported values. *)
Theorem storage_example_run :
  wf_tables ex_tbl /\ Forall2 Rle (t_minRelease ex_tbl) (t_maxRelease ex_tbl) /\
  make_curves ex_tbl = Some ex_cv /\
  storage_water_balance ex_tbl 60 0 [ex_in] = ROk [ex_out] 360 (0 + (360 - 0) / (500 - 0) * (5 - 0)) 0 /\
  r_volume ex_out = 360 /\ r_outflow ex_out = 4 /\ r_rainfallVolume ex_out = 0 /\ r_evaporationVolume ex_out = 0 /\
  release_volume ex_out = 4 * 60 /\ spill_volume ex_out = 0.
Proof.
  split; [exact ex_wf_tables|]. split; [cbn; repeat constructor; lra|].
  split; [exact ex_make_curves|]. split; [exact ex_run|]. split; [exact ex_volume|].
  unfold release_volume, spill_volume, sumf. cbn. repeat split; first [lra | field; lra].
Qed.

(** The strict reading of "between the curves over the volumes traversed" is FALSE of the
    scheme: the release rate is re-evaluated at the PREDICTED end volume (600 here), which
    the corrected step does not reach.  In this run the reservoir goes from 0 to 360 m3,
    the maximum-release curve is 0 at every volume in [0,360], yet 4 m3/s are released.
    (Only sub-steps accepted at <= 60 s without the closeness test can do this by more than
    the 1e-4 / 1e-5 tolerances.) *)
Theorem storage_release_within_end_volumes_refuted :
  exists tbl dt V0 x o v l a cv,
    wf_tables tbl /\ Forall2 Rle (t_minRelease tbl) (t_maxRelease tbl) /\ 0 < dt /\
    make_curves tbl = Some cv /\
    storage_water_balance tbl dt V0 [x] = ROk [o] v l a /\
    (forall u, V0 <= u <= r_volume o -> capped_piecewise cv u (t_maxRelease tbl) = Some 0) /\
    spill_volume o = 0 /\ r_outflow o = 4.
Proof.
  exists ex_tbl, 60, 0, ex_in, ex_out, 360, (0 + (360 - 0) / (500 - 0) * (5 - 0)), 0, ex_cv.
  destruct storage_example_run as (W & O & C & R & V & Q & _ & _ & _ & S).
  split; [exact W|]. split; [exact O|]. split; [lra|]. split; [exact C|]. split; [exact R|].
  split; [|split; assumption].
  intros u Hu. rewrite V in Hu. apply (ex_cp_low0 u _ 0 8); [lra|reflexivity|reflexivity].
Qed.

(** ** "the code panics rather than go negative": a dry reservoir whose table has a non-zero
    surface area at zero volume, any evaporation and no inflow.  The first trial volume is
    negative at the 6 s floor, so the Go code panics (the process dies). *)
Definition dry_tbl : tables :=
  {| nlva := 3;
     t_levels := [0; 5; 6]; t_volumes := [0; 500; 600]; t_areas := [10; 10; 10];
     t_minRelease := [0; 0; 0]; t_maxRelease := [0; 0; 8] |}.
Definition dry_cv : curves := {| tb := dry_tbl; volCurveMin := 0; volCurveMax := 600; maxSpill := 0 |}.
Definition dry_in : tsin :=
  {| i_rainfall := 0; i_pet := 6; i_inflow := 0; i_demand := 0;
     i_targetMinimumVolume := 0; i_targetMinimumCapacity := 0 |}.

Lemma dry_cp0 ys y1 y2 y0 : ys = [y0; y1; y2] -> capped_piecewise dry_cv 0 ys = Some y0.
Proof.
  intros ->. rewrite (gen_cp_low dry_cv 0 _ y0 y1 y2) by (try reflexivity; lra).
  f_equal. unfold Rdiv. ring.
Qed.

Theorem storage_dry_reservoir_panics :
  wf_tables dry_tbl /\ Forall2 Rle (t_minRelease dry_tbl) (t_maxRelease dry_tbl) /\
  storage_water_balance dry_tbl 6 0 [dry_in] = RPanic.
Proof.
  split; [constructor; cbn; try reflexivity; try lia; repeat constructor; lra|].
  split; [cbn; repeat constructor; lra|].
  unfold storage_water_balance. change (make_curves dry_tbl) with (Some dry_cv).
  assert (E : storage_configuration_error (nlva dry_tbl) (t_volumes dry_tbl) = Some false).
  { unfold storage_configuration_error, maximum, gtb. cbn. runfold. repeat rcond. reflexivity. }
  rewrite E, run_cons.
  assert (S : storage_step dry_cv 6 (SOk 0) dry_in = (SPanic, None)).
  { unfold storage_step, ts_loop. rewrite iter_pos_nat.
    destruct (Pos2Nat.is_succ (outer_fuel 6)) as [n ->]. cbn [iter_nat].
    assert (O1 : outer_step (inner_fuel 6) dry_cv (ts_context dry_cv 6 dry_in) (ts_initial 6 0) = inr OPanic).
    { unfold outer_step, gtb. cbn [autoAdjustDemand andb ts_initial o_timeRemaining o_volume o_subtimestep
                                   ts_context c_origDemand c_inflow c_net dry_in i_demand i_inflow i_rainfall i_pet].
      runfold. rcond.
      replace (Rmin 6 (6 * 2)) with 6 by (rewrite Rmin_left; lra).
      unfold release_rate, gtb. cbn [tb dry_cv t_minRelease t_maxRelease t_areas dry_tbl].
      rewrite (dry_cp0 _ 0 0 0 eq_refl). runfold. rcond.
      rewrite (dry_cp0 _ 0 8 0 eq_refl). rcond.
      rewrite (dry_cp0 _ 10 10 10 eq_refl).
      unfold inner_fuel. cbn [inner_loop]. unfold trial_step.
      cbn [p_volume p_inflow p_estOutflow p_net p_area]. unfold MILLIMETRES_TO_METRES, MIN_TIMESTEP_SECONDS_NEGATIVE.
      runfold. rcond. rcond. reflexivity. }
    rewrite O1. reflexivity. }
  rewrite S. cbn [run]. reflexivity.
Qed.
