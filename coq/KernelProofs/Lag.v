(** Proofs about Kernels/Lag.v (C11): the index loops of lag.go compute the
    delayed series and the new buffer, for ANY lag L >= 0 and ANY series
    length T (including T < L).  No axioms. *)
From Coq Require Import ZArith List Bool Arith Lia.
From OW Require Import Base.Arith Kernels.Lag.
Import ListNotations.

(** last [n] elements *)
Definition lastn {X : Type} (n : nat) (l : list X) : list X := skipn (length l - n) l.

Section ListFacts.
  Context {X : Type}.
  Implicit Types l a b src dst : list X.

  Lemma skipn_skipn' n m l : skipn n (skipn m l) = skipn (m + n) l.
  Proof.
    revert l; induction m as [|m IH]; intros l; cbn; [reflexivity|].
    destruct l as [|x r]; [now rewrite skipn_nil|]. apply IH.
  Qed.

  Lemma nth_error_skipn' n i l : nth_error (skipn n l) i = nth_error l (n + i).
  Proof.
    revert l; induction n as [|n IH]; intros l; cbn; [reflexivity|].
    destruct l as [|x r]; [now destruct i|]. apply IH.
  Qed.

  Lemma firstn_S_skipn n so src v :
    nth_error src so = Some v ->
    firstn (S n) (skipn so src) = v :: firstn n (skipn (S so) src).
  Proof.
    intros H. rewrite <- (firstn_skipn so src) in H.
    assert (Hl : so <= length src).
    { apply Nat.lt_le_incl. apply nth_error_Some. rewrite <- (firstn_skipn so src). rewrite H. discriminate. }
    rewrite nth_error_app2 in H by (rewrite firstn_length_le; lia).
    rewrite firstn_length_le, Nat.sub_diag in H by lia.
    destruct (skipn so src) as [|y r] eqn:E; cbn in H; [discriminate|]. injection H as ->.
    cbn [firstn]. f_equal. f_equal.
    change (S so) with (1 + so). rewrite Nat.add_comm, <- skipn_skipn', E. reflexivity.
  Qed.

  Lemma set_nth_spec l i v :
    i < length l -> set_nth l i v = Some (firstn i l ++ v :: skipn (S i) l).
  Proof.
    revert i; induction l as [|a r IH]; intros i H; cbn in H; [lia|].
    destruct i as [|i]; cbn; [reflexivity|].
    rewrite IH by lia. reflexivity.
  Qed.

  Lemma set_nth_none l i v : length l <= i -> set_nth l i v = None.
  Proof.
    revert i; induction l as [|a r IH]; intros i H; cbn; [reflexivity|].
    cbn in H. destruct i as [|i]; [lia|]. rewrite IH by lia. reflexivity.
  Qed.

  (** a loop that copies [n] consecutive elements of a separate source:
      for j < n : dst[d0 + j] = src[s0 + j], the loop index being i0 + j *)
  Lemma for_up_copy (sf df : nat -> nat) src :
    forall n i0 s0 d0 dst,
      (forall j, j < n -> sf (i0 + j) = s0 + j /\ df (i0 + j) = d0 + j) ->
      s0 + n <= length src -> d0 + n <= length dst ->
      for_up n i0 (fun i d => copy_elem src (sf i) d (df i)) dst
      = Some (firstn d0 dst ++ firstn n (skipn s0 src) ++ skipn (d0 + n) dst).
  Proof.
    induction n as [|n IH]; intros i0 s0 d0 dst Hf Hs Hd.
    - cbn. rewrite Nat.add_0_r, firstn_skipn. reflexivity.
    - cbn [for_up]. destruct (Hf 0) as [Hs0 Hd0]; [lia|]. rewrite !Nat.add_0_r in Hs0, Hd0.
      unfold copy_elem. rewrite Hs0, Hd0.
      destruct (nth_error src s0) as [v|] eqn:Ev.
      2:{ apply nth_error_None in Ev. lia. }
      rewrite set_nth_spec by lia.
      rewrite (IH (S i0) (S s0) (S d0)).
      + f_equal.
        assert (L1 : length (firstn d0 dst) = d0) by (apply firstn_length_le; lia).
        rewrite firstn_app, L1.
        rewrite (firstn_all2 (n := S d0)) by lia.
        replace (S d0 - d0) with 1 by lia. rewrite firstn_cons, firstn_O.
        rewrite skipn_app, L1.
        rewrite (skipn_all2 (n := S d0 + n)) by lia.
        replace (S d0 + n - d0) with (S n) by lia. rewrite skipn_cons, app_nil_l.
        rewrite skipn_skipn'.
        rewrite (firstn_S_skipn n s0 src v Ev).
        rewrite <- app_assoc. cbn [app].
        replace (S d0 + n) with (d0 + S n) by lia. reflexivity.
      + intros j Hj. destruct (Hf (S j)) as [A B]; [lia|].
        replace (S i0 + j) with (i0 + S j) by lia. rewrite A, B. lia.
      + lia.
      + rewrite app_length. cbn [length]. rewrite firstn_length_le, skipn_length by lia. lia.
  Qed.

  (** the in-place shift-left loop:  for j < n : a[j0 + j] = a[j0 + j + d]  (loop index d + j0 + j) *)
  Lemma for_up_shift d :
    forall n j0 a,
      j0 + n + d <= length a ->
      for_up n (d + j0) (fun i lg => copy_elem lg i lg (i - d)) a
      = Some (firstn j0 a ++ firstn n (skipn (j0 + d) a) ++ skipn (j0 + n) a).
  Proof.
    induction n as [|n IH]; intros j0 a H.
    - cbn. rewrite Nat.add_0_r, firstn_skipn. reflexivity.
    - cbn [for_up]. unfold copy_elem at 1.
      destruct (nth_error a (d + j0)) as [v|] eqn:Ev.
      2:{ apply nth_error_None in Ev. lia. }
      replace (d + j0 - d) with j0 by lia.
      rewrite set_nth_spec by lia.
      replace (S (d + j0)) with (d + S j0) by lia.
      rewrite IH.
      + f_equal.
        assert (L1 : length (firstn j0 a) = j0) by (apply firstn_length_le; lia).
        rewrite firstn_app, L1.
        rewrite (firstn_all2 (n := S j0)) by lia.
        replace (S j0 - j0) with 1 by lia. rewrite firstn_cons, firstn_O.
        rewrite !skipn_app, L1.
        rewrite (skipn_all2 (n := S j0 + d)) by lia.
        rewrite (skipn_all2 (n := S j0 + n)) by lia.
        replace (S j0 + d - j0) with (S d) by lia.
        replace (S j0 + n - j0) with (S n) by lia. rewrite !skipn_cons, !app_nil_l.
        rewrite !skipn_skipn'.
        replace (j0 + d) with (d + j0) by lia.
        rewrite (firstn_S_skipn n (d + j0) a v Ev).
        rewrite <- app_assoc. cbn [app].
        replace (S j0 + d) with (S (d + j0)) by lia.
        replace (S j0 + n) with (j0 + S n) by lia. reflexivity.
      + rewrite app_length. cbn [length]. rewrite firstn_length_le, skipn_length by lia. lia.
  Qed.
End ListFacts.

Section LagSpec.
  Context {T : Type} {A : Arith T}.

  (** The loops of [lag], for a state vector at least as long as the lag: the
      first L entries are the buffer, the rest is carried through untouched. *)
  Theorem lag_body_spec (L : nat) (inflow lagged : list T) :
    L <= length lagged ->
    let Tn := length inflow in
    let whole := firstn L lagged ++ inflow in
    lag_body L inflow lagged = Some (firstn Tn whole, lastn L whole ++ skipn L lagged).
  Proof.
    intros HL. cbv zeta. remember (length inflow) as Tn eqn:HT.
    unfold lag_body. rewrite <- HT.
    assert (Lb : length (firstn L lagged) = L) by (apply firstn_length_le; lia).
    assert (Lw : length (firstn L lagged ++ inflow) = L + Tn) by (rewrite app_length, Lb; lia).
    destruct (Nat.le_gt_cases L Tn) as [Hle|Hgt].
    - (* the series is at least as long as the lag *)
      rewrite (Nat.min_l L Tn) by lia.
      replace (Nat.ltb Tn L) with false by (symmetry; apply Nat.ltb_ge; lia).
      (* L1 *)
      rewrite (for_up_copy (fun i => i) (fun i => i) lagged L 0 0 0).
      2:{ intros j _. cbn. lia. }
      2:{ lia. }
      2:{ rewrite repeat_length. lia. }
      rewrite firstn_O, app_nil_l, Nat.add_0_l. change (skipn 0 lagged) with lagged.
      (* L2 *)
      rewrite (for_up_copy (fun i => i - L) (fun i => i) inflow (Tn - L) L 0 L).
      2:{ intros j _. lia. }
      2:{ lia. }
      2:{ rewrite app_length, Lb, skipn_length, repeat_length. lia. }
      change (skipn 0 inflow) with inflow.
      (* L5 *)
      rewrite (for_up_copy (fun i => Tn - L + i) (fun i => i) inflow L 0 (Tn - L) 0).
      2:{ intros j _. lia. }
      2:{ lia. }
      2:{ lia. }
      rewrite firstn_O, app_nil_l, Nat.add_0_l.
      f_equal. f_equal.
      + rewrite firstn_app, Lb, Nat.sub_diag, firstn_O, app_nil_r, firstn_firstn, Nat.min_id.
        rewrite skipn_app, Lb.
        rewrite (skipn_all2 (n := L + (Tn - L))) by lia.
        rewrite skipn_skipn'.
        rewrite (skipn_all2 (n := L + _)) by (rewrite repeat_length; lia).
        rewrite app_nil_l, app_nil_r.
        rewrite (firstn_app Tn), Lb.
        rewrite (@firstn_all2 _ (Tn) (firstn L lagged)) by lia. reflexivity.
      + f_equal. unfold lastn. rewrite Lw. replace (L + Tn - L) with Tn by lia.
        rewrite skipn_app, Lb.
        rewrite (@skipn_all2 _ (Tn) (firstn L lagged)) by lia. rewrite app_nil_l.
        apply firstn_all2. rewrite skipn_length. lia.
    - (* the lag is longer than the series *)
      rewrite (Nat.min_r L Tn) by lia.
      replace (Nat.ltb Tn L) with true by (symmetry; apply Nat.ltb_lt; lia).
      replace (Tn - L) with 0 by lia.
      (* L1 *)
      rewrite (for_up_copy (fun i => i) (fun i => i) lagged Tn 0 0 0).
      2:{ intros j _. cbn. lia. }
      2:{ lia. }
      2:{ rewrite repeat_length. lia. }
      rewrite firstn_O, app_nil_l, Nat.add_0_l. change (skipn 0 lagged) with lagged.
      (* L2: no iteration *)
      cbn [for_up].
      (* L3 *)
      pose proof (for_up_shift Tn (L - Tn) 0 lagged) as HS.
      rewrite (Nat.add_0_r Tn) in HS. rewrite HS by lia. clear HS.
      rewrite firstn_O, app_nil_l, !Nat.add_0_l.
      (* L4 *)
      rewrite (for_up_copy (fun i => i) (fun i => L - Tn + i) inflow Tn 0 0 (L - Tn)).
      2:{ intros j _. lia. }
      2:{ lia. }
      2:{ rewrite app_length, firstn_length_le, skipn_length by (rewrite skipn_length; lia). lia. }
      change (skipn 0 inflow) with inflow.
      f_equal. f_equal.
      + rewrite (@skipn_all2 _ Tn (repeat zero Tn)) by (rewrite repeat_length; lia).
        rewrite app_nil_r.
        rewrite (firstn_app Tn), Lb. replace (Tn - L) with 0 by lia.
        rewrite firstn_O, app_nil_r, firstn_firstn, (Nat.min_l Tn L) by lia. reflexivity.
      + assert (Lp : length (firstn (L - Tn) (skipn Tn lagged)) = L - Tn)
          by (apply firstn_length_le; rewrite skipn_length; lia).
        rewrite firstn_app, Lp, Nat.sub_diag, firstn_O, app_nil_r.
        rewrite firstn_firstn, Nat.min_id.
        rewrite (@firstn_all2 _ (Tn) (inflow)) by lia.
        rewrite skipn_app, Lp.
        rewrite (skipn_all2 (n := L - Tn + Tn)) by lia.
        rewrite skipn_skipn'.
        replace (L - Tn + (L - Tn + Tn - (L - Tn))) with L by lia. rewrite app_nil_l.
        unfold lastn. rewrite Lw. replace (L + Tn - L) with Tn by lia.
        rewrite skipn_app, Lb, skipn_firstn_comm.
        replace (Tn - L) with 0 by lia. change (skipn 0 inflow) with inflow.
        rewrite <- app_assoc. reflexivity.
  Qed.

  (** [lag_spec]: with a buffer of exactly L entries, the outflow is the first
      T entries of (buffer ++ inflow) and the new buffer its last L entries. *)
  Theorem lag_spec (L : nat) (inflow buffer : list T) :
    length buffer = L ->
    lag_body L inflow buffer
    = Some (firstn (length inflow) (buffer ++ inflow), lastn L (buffer ++ inflow)).
  Proof.
    intros H. rewrite lag_body_spec by lia.
    rewrite (@firstn_all2 _ L buffer), (@skipn_all2 _ L buffer), app_nil_r by lia. reflexivity.
  Qed.

  (** a state vector shorter than the lag always panics (index out of range) *)
  Lemma for_up_first_none {S : Type} n i (body : nat -> S -> option S) s :
    body i s = None -> for_up (Datatypes.S n) i body s = None.
  Proof. intros H. cbn. rewrite H. reflexivity. Qed.

  (** the function as called by the wrapper, for every time lag whose integer part is L >= 0 *)
  Theorem lag_fn_spec (timeLag : T) (L : nat) (inflow lagged : list T) :
    truncZ timeLag = Z.of_nat L -> L <= length lagged ->
    let whole := firstn L lagged ++ inflow in
    lag_fn timeLag inflow lagged = Some (firstn (length inflow) whole, lastn L whole ++ skipn L lagged).
  Proof.
    intros Ht HL whole. unfold lag_fn. rewrite Ht.
    destruct L as [|L'].
    - cbn [Z.of_nat Z.eqb]. unfold whole, lastn. cbn [firstn app skipn].
      rewrite firstn_all, Nat.sub_0_r, skipn_all. reflexivity.
    - replace (Z.eqb (Z.of_nat (S L')) 0) with false by (symmetry; apply Z.eqb_neq; lia).
      replace (Z.ltb (Z.of_nat (S L')) 0) with false by (symmetry; apply Z.ltb_ge; lia).
      rewrite Nat2Z.id. apply lag_body_spec. exact HL.
  Qed.

  (** cold start: the buffer made by initLag has exactly int(timeLag) zero entries, so the first
      L outflows are zero and the rest is the inflow delayed by L steps *)
  Theorem lag_cold_start (timeLag : T) (L : nat) (inflow : list T) :
    truncZ timeLag = Z.of_nat L ->
    exists buffer, lag_init timeLag = Some buffer /\ length buffer = L /\
      lag_fn timeLag inflow buffer
      = Some (firstn (length inflow) (repeat zero L ++ inflow), lastn L (repeat zero L ++ inflow)).
  Proof.
    intros Ht. exists (repeat zero L). unfold lag_init. rewrite Ht.
    replace (Z.ltb (Z.of_nat L) 0) with false by (symmetry; apply Z.ltb_ge; lia).
    rewrite Nat2Z.id. split; [reflexivity|]. split; [apply repeat_length|].
    rewrite (lag_fn_spec timeLag L inflow (repeat zero L) Ht) by (rewrite repeat_length; lia).
    rewrite (@firstn_all2 _ L (repeat zero L)), (@skipn_all2 _ L (repeat zero L)), app_nil_r
      by (rewrite repeat_length; lia).
    reflexivity.
  Qed.

  (** a negative lag is a Go panic *)
  Theorem lag_fn_negative (timeLag : T) inflow lagged :
    (truncZ timeLag < 0)%Z -> lag_fn timeLag inflow lagged = None.
  Proof.
    intros H. unfold lag_fn.
    replace (Z.eqb (truncZ timeLag) 0) with false by (symmetry; apply Z.eqb_neq; lia).
    replace (Z.ltb (truncZ timeLag) 0) with true by (symmetry; apply Z.ltb_lt; lia). reflexivity.
  Qed.

  (** Hot start: routing xs and then ys with the carried buffer is routing xs ++ ys. *)
  Theorem lag_compose (L : nat) (xs ys buffer : list T) :
    length buffer = L ->
    exists o1 b1 o2 b2,
      lag_body L xs buffer = Some (o1, b1) /\ lag_body L ys b1 = Some (o2, b2) /\
      lag_body L (xs ++ ys) buffer = Some (o1 ++ o2, b2).
  Proof.
    intros H.
    assert (Hb1 : length (lastn L (buffer ++ xs)) = L).
    { unfold lastn. rewrite skipn_length, app_length. lia. }
    exists (firstn (length xs) (buffer ++ xs)), (lastn L (buffer ++ xs)),
           (firstn (length ys) (lastn L (buffer ++ xs) ++ ys)), (lastn L (lastn L (buffer ++ xs) ++ ys)).
    split; [apply lag_spec; exact H|]. split; [apply lag_spec; exact Hb1|].
    rewrite lag_spec by exact H. f_equal.
    assert (E : buffer ++ xs = firstn (length xs) (buffer ++ xs) ++ lastn L (buffer ++ xs)).
    { unfold lastn. rewrite app_length, H. replace (L + length xs - L) with (length xs) by lia.
      symmetry. apply firstn_skipn. }
    assert (Lf : length (firstn (length xs) (buffer ++ xs)) = length xs).
    { apply firstn_length_le. rewrite app_length. lia. }
    f_equal.
    - rewrite app_assoc, E, <- app_assoc.
      rewrite app_length, firstn_app, Lf.
      rewrite (@firstn_all2 _ (length xs + length ys) (firstn (length xs) (buffer ++ xs))) by lia.
      replace (length xs + length ys - length xs) with (length ys) by lia.
      rewrite <- E. reflexivity.
    - remember (lastn L (buffer ++ xs)) as b1 eqn:Eb.
      unfold lastn. rewrite !app_length, Hb1, H.
      replace (L + (length xs + length ys) - L) with (length xs + length ys) by lia.
      replace (L + length ys - L) with (length ys) by lia.
      rewrite app_assoc, E, <- app_assoc, skipn_app, Lf.
      rewrite (@skipn_all2 _ (length xs + length ys) (firstn (length xs) (buffer ++ xs))) by lia.
      replace (length xs + length ys - length xs) with (length ys) by lia.
      rewrite app_nil_l. reflexivity.
  Qed.
End LagSpec.
