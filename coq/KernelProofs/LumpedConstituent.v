(** Proofs about Kernels/LumpedConstituent.v over the reals (C12). *)
From Coq Require Import ZArith Reals Lra List.
From OW Require Import Base.Arith Base.RInst Base.Mealy KernelProofs.Budget
  Kernels.C12Common Kernels.LumpedConstituent.
Import ListNotations.
Local Open Scope R_scope.

Notation Rlumped_step := (@lumped_step R RArith).
Notation lumped_inR := (@lumped_in R).
Notation lumped_outR := (@lumped_out R).

(** mass entering in one step (kg) and mass leaving (downstream + flushed) *)
Definition lumped_inflow (pointInput deltaT : R) (x : lumped_inR) : R :=
  (li_inflowLoad x + li_lateralLoad x + pointInput) * deltaT.
Definition lumped_outflow (deltaT : R) (x : lumped_inR) (o : lumped_outR) : R :=
  lo_outflowLoad o * deltaT + lo_flushed o.

Lemma MINIMUM_VOLUME_R : @MINIMUM_VOLUME R RArith = 1 / 100.
Proof. reflexivity. Qed.

(** per-step mass balance, every branch, no hypotheses *)
Lemma lumped_step_budget p dt s x :
  s + lumped_inflow p dt x =
  fst (Rlumped_step p dt s x) + lumped_outflow dt x (snd (Rlumped_step p dt s x)).
Proof.
  unfold lumped_step, lumped_inflow, lumped_outflow. runfold.
  rcase_bool (Rltb (li_outflow x * dt + li_storage x) (@MINIMUM_VOLUME R RArith)); cbn.
  - lra.
  - rewrite MINIMUM_VOLUME_R in Hc. field. lra.
Qed.

(** the only loss is the flush, and it happens only below the minimum volume *)
Lemma lumped_step_flush p dt s x :
  lo_flushed (snd (Rlumped_step p dt s x)) <> 0 ->
  lumped_working_vol dt x < 1 / 100.
Proof.
  unfold lumped_step, lumped_working_vol. runfold.
  rcase_bool (Rltb (li_outflow x * dt + li_storage x) (@MINIMUM_VOLUME R RArith)); cbn; intros H.
  - rewrite MINIMUM_VOLUME_R in Hc. exact Hc.
  - contradiction H; reflexivity.
Qed.

Definition lumped_in_nonneg (x : lumped_inR) : Prop :=
  0 <= li_inflowLoad x /\ 0 <= li_lateralLoad x /\ 0 <= li_outflow x /\ 0 <= li_storage x.

Lemma lumped_step_nonneg p dt s x :
  0 <= p -> 0 <= dt -> 0 <= s -> lumped_in_nonneg x ->
  0 <= fst (Rlumped_step p dt s x) /\
  0 <= lo_outflowLoad (snd (Rlumped_step p dt s x)) /\
  0 <= lo_flushed (snd (Rlumped_step p dt s x)).
Proof.
  intros Hp Hdt Hs (H1 & H2 & H3 & H4).
  unfold lumped_step. runfold.
  assert (Hm : 0 <= s + (li_inflowLoad x + li_lateralLoad x + p) * dt).
  { apply Rplus_le_le_0_compat; [assumption|]. apply Rmult_le_pos; lra. }
  rcase_bool (Rltb (li_outflow x * dt + li_storage x) (@MINIMUM_VOLUME R RArith)); cbn.
  - lra.
  - rewrite MINIMUM_VOLUME_R in Hc.
    assert (Hc' : 0 <= (s + (li_inflowLoad x + li_lateralLoad x + p) * dt) / (li_outflow x * dt + li_storage x)).
    { apply Rmult_le_pos; [assumption|]. left; apply Rinv_0_lt_compat; lra. }
    repeat split; try lra; apply Rmult_le_pos; assumption.
Qed.

(** whole runs, any series length *)
Theorem lumped_run_budget p dt : forall xs s,
  s + inflows (lumped_inflow p dt) xs =
  fst (run (Rlumped_step p dt) s xs) +
  outflows (lumped_outflow dt) xs (snd (run (Rlumped_step p dt) s xs)).
Proof.
  apply (run_budget (Rlumped_step p dt) (fun s => s) (lumped_inflow p dt) (lumped_outflow dt)).
  intros s x; apply lumped_step_budget.
Qed.

Theorem lumped_run_nonneg p dt : 0 <= p -> 0 <= dt -> forall xs s,
  0 <= s -> Forall lumped_in_nonneg xs ->
  0 <= fst (run (Rlumped_step p dt) s xs) /\
  Forall (fun xo => 0 <= lo_outflowLoad (snd xo) /\ 0 <= lo_flushed (snd xo))
         (combine xs (snd (run (Rlumped_step p dt) s xs))).
Proof.
  intros Hp Hdt.
  apply (run_invariant (Rlumped_step p dt) (fun s => 0 <= s) lumped_in_nonneg
           (fun _ o => 0 <= lo_outflowLoad o /\ 0 <= lo_flushed o)).
  intros s x Hs Hx. destruct (lumped_step_nonneg p dt s x Hp Hdt Hs Hx) as (A & B & C). auto.
Qed.

Theorem lumped_run_flush p dt : forall xs s,
  Forall (fun xo => lo_flushed (snd xo) <> 0 -> lumped_working_vol dt (fst xo) < 1 / 100)
         (combine xs (snd (run (Rlumped_step p dt) s xs))).
Proof.
  intros xs s.
  apply (run_invariant (Rlumped_step p dt) (fun _ => True) (fun _ => True)
           (fun x o => lo_flushed o <> 0 -> lumped_working_vol dt x < 1 / 100)); auto.
  - intros s0 x _ _. split; [exact I|]. apply lumped_step_flush.
  - clear. induction xs; constructor; auto.
Qed.

(** the catalogue kernel is exactly this run on the rows of its four input series *)
Lemma lumped_kernel_unfold (w p dt s : R) (a b c d : list R) :
  @lumped_constituent_routing_kernel R RArith [w; p; dt] [s] [a; b; c; d] =
  let r := run (Rlumped_step p dt) s (lumped_rows a (Some b) c d) in
  Some ([map lo_outflowLoad (snd r); map lo_pointSourceLoad (snd r)], [fst r]).
Proof.
  unfold lumped_constituent_routing_kernel, lumped_transport.
  destruct (run _ _ _); reflexivity.
Qed.

(** non-vacuity: a step that flushes 3 kg, and one that does not *)
Example lumped_flush_example :
  Rlumped_step 0 1 3 (mk_lumped_in 0 0 0 0) =
  (0, {| lo_outflowLoad := 0; lo_pointSourceLoad := 0; lo_flushed := 3 |}).
Proof.
  unfold lumped_step. runfold. cbn.
  assert (E : Rltb (0 * 1 + 0) (1 / 100) = true) by (apply Rltb_true; lra).
  rewrite E. f_equal. f_equal. lra.
Qed.

(** ... and a step that conserves: 3 kg stored + 1 kg/s for 1 s into 1 m3 stored + 1 m3/s out *)
Example lumped_noflush_example :
  Rlumped_step 0 1 3 (mk_lumped_in 1 0 1 1) =
  (2, {| lo_outflowLoad := 2; lo_pointSourceLoad := 0; lo_flushed := 0 |}).
Proof.
  unfold lumped_step. runfold. cbn.
  assert (E : Rltb (1 * 1 + 1) (1 / 100) = false) by (apply Rltb_false; lra).
  rewrite E. f_equal; [|f_equal]; field.
Qed.
