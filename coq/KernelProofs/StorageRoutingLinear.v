(** StorageRouting with a LINEAR storage law (RoutingPower = 1, or snapped to 1):
    the mass-balance residual is affine in the index flow on the solver's
    bracket, so FindRoot's first secant trial is the exact root and the solver
    never leaves on exit 7.  For these parameters the closed water-balance
    statement holds with NO assumption about the solver.  Over RArith. *)
From Coq Require Import ZArith Reals Lra List Bool Lia.
From OW Require Import Base.Arith Base.RInst Base.Mealy Kernels.StorageRoutingRoot Kernels.StorageRouting.
From OW Require Import KernelProofs.StorageRoutingRoot KernelProofs.StorageRouting.
Import ListNotations.
Local Open Scope R_scope.

Section Linear.
  Variables bias k area dead dt : R.
  Let p : @sr_params R := mkP bias k 1 area dead dt 0 k 0.
  Variables i l pq S rate : R.
  Hypothesis Hdt : 0 < dt.
  Hypothesis Hb0 : 0 <= bias.
  Hypothesis Hb1 : bias < 999 / 1000.
  Hypothesis Hi : 0 <= i.
  Hypothesis Hl : 0 <= l.

  Lemma s_index_linear q : 0 <= q -> s_index p q = k * q + dead.
  Proof.
    intros [Hq|<-].
    - unfold p. apply s_index_m1. exact Hq.
    - rewrite s_index_at0. cbn. ring.
  Qed.

  Lemma minQI_nonneg : 0 <= minQI p i l.
  Proof. unfold minQI. cbn [p_bias p]. apply Rmult_le_pos; lra. Qed.

  Lemma mbal_affine q :
    minQI p i l <= q ->
    mbal p i l S rate q =
    (dt / (1 - bias) + k) * q + (- minQI p i l * dt / (1 - bias) + dead - ns p i l S rate).
  Proof.
    intros Hq. pose proof minQI_nonneg.
    rewrite mbal_low_bias by (cbn; exact Hb1).
    rewrite s_index_linear by lra. cbn [p_dt p_bias p]. field. lra.
  Qed.

  (** the FindRoot call made by calcOutflow on exits 6/7 *)
  Lemma calc_outflow_root qi out sto path :
    calc_outflow p i l pq S rate = Some (qi, out, sto, path) ->
    (path = 6 \/ path = 7)%nat ->
    exists df,
      sr_find_root (fun q => match run_routing p i l (ifm p i S) S rate q with
                             | Some (d, _, _) => Some d | None => None end)
                   (Some (slope_of_mass_balance p)) limit convergenceLimit
                   (minQI p i l) (minQI p i l) (maxQI p i l S rate) maxIterations = Some (qi, df).
  Proof.
    intros H Hp. unfold calc_outflow in H. cbv zeta in H.
    change (amax zero S / p_dt p + i)%ar with (ifm p i S) in H.
    rewrite !run_routing_R in H.
    change (amin (ifm p i S) (p_area p * rate))%ar with (ev p i S rate) in H.
    change (p_bias p * (i + l))%ar with (minQI p i l) in H.
    change (minQI p i l + (one - p_bias p) * amax zero (ifm p i S - ev p i S rate + l))%ar with (maxQI p i l S rate) in H.
    change (is_nan (p_bias p) || is_nan i || is_nan l) with false in H. cbv iota in H.
    change massBalanceLimit with limit in H.
    repeat match type of H with
           | (if ?c then Some _ else _) = Some _ =>
               destruct c; [injection H as _ _ _ Hpath; destruct Hp as [Hp|Hp]; rewrite Hp in Hpath; discriminate|]
           end.
    destruct (sr_find_root _ _ _ _ _ _ _ _) as [[qf df]|] eqn:EF; [|discriminate].
    exists df. rewrite run_routing_R in H.
    change (is_nan df) with false in H. cbv iota in H.
    injection H as Hq _ _ _. rewrite Hq. reflexivity.
  Qed.

  (** a linear storage law never ends on exit 7 *)
  Theorem sr_linear_no_exit7 qi out sto path :
    calc_outflow p i l pq S rate = Some (qi, out, sto, path) -> path <> 7%nat.
  Proof.
    intros H ->.
    destruct (calc_outflow_root _ _ _ _ H (or_intror eq_refl)) as [df EF].
    apply calc_outflow_inv in H. cbn in H. destruct H as (H1 & H2 & H3 & H4 & H5 & _).
    pose proof minQI_nonneg as Hmin.
    eapply (sr_find_root_affine _ _ limit convergenceLimit (minQI p i l) (maxQI p i l S rate)
              (dt / (1 - bias) + k)
              (- minQI p i l * dt / (1 - bias) + dead - ns p i l S rate)) in EF.
    - destruct EF as (Hin & Hd & Habs).
      rewrite <- mbal_affine in Hd by lra. rewrite Hd in Habs. lra.
    - intros q Hq. rewrite run_routing_R. f_equal. apply mbal_affine. lra.
    - rewrite <- mbal_affine by lra. unfold limit in *. lra.
    - rewrite <- mbal_affine by lra. unfold limit in *. lra.
    - exact H2.
    - unfold limit. lra.
    - lra.
    - unfold maxIterations. lia.
  Qed.
End Linear.

(** which user parameters give the linear shape after [sr_setup] *)
Definition sr_linear_params (bias m : R) : Prop :=
  (Rabs bias < 1 / 1000 /\ m = 1) \/ (1 / 1000 <= Rabs bias /\ Rabs (m - 1) < 1 / 1000).

Lemma sr_setup_linear bias k m area dead dt :
  sr_linear_params bias m ->
  sr_setup bias k m area dead dt
  = mkP (if Rltb (Rabs bias) (1 / 1000) then 0 else bias) k 1 area dead dt 0 k 0.
Proof.
  intros [[Hb ->]|[Hb Hm]]; unfold sr_setup; runfold.
  - replace (Rltb (Rabs bias) (1 / 1000)) with true by (symmetry; apply Rltb_true; exact Hb).
    unfold gtb. runfold.
    replace (Rltb 1 1) with false by (symmetry; apply Rltb_false; lra). reflexivity.
  - replace (Rltb (Rabs bias) (1 / 1000)) with false by (symmetry; apply Rltb_false; exact Hb).
    replace (Rltb (Rabs (m - 1)) (1 / 1000)) with true by (symmetry; apply Rltb_true; exact Hm). reflexivity.
Qed.

Definition inflows_nonneg (x : @sr_input R) : Prop := let '(i, l, _, _) := x in 0 <= i /\ 0 <= l.

Lemma inflows_nonneg_lateral xs : Forall inflows_nonneg xs -> Forall lateral_nonneg xs.
Proof.
  intros H. induction H as [|[[[i l] r] e] xs [Hi Hl] _ IH]; constructor; [exact Hl|exact IH].
Qed.

Lemma trace_no_exit7 bias k area dead dt :
  0 < dt -> 0 <= bias -> bias < 999 / 1000 ->
  forall xs s os,
    trace_ok (mkP bias k 1 area dead dt 0 k 0) s xs os -> Forall inflows_nonneg xs ->
    Forall (fun o : sr_output => snd o <> 7%nat) os.
Proof.
  intros Hdt Hb0 Hb1 xs s os Ht. induction Ht as [|s x r s' o os Hstep _ _ _ IH]; intros Hx; [constructor|].
  inversion Hx as [|x' r' Hx1 Hx2]; subst. constructor; [|apply IH; exact Hx2].
  destruct x as [[[i l] rain] evp]. destruct Hx1 as [Hi Hl]. unfold sr_step in Hstep.
  revert Hstep.
  match goal with
  | |- context [calc_outflow ?a ?b ?c ?d ?e ?f] =>
      destruct (calc_outflow a b c d e f) as [[[[qi out] sto] path]|] eqn:E; [|intros HH; discriminate HH]
  end.
  intros Hstep. injection Hstep as _ <-. cbn [snd].
  eapply sr_linear_no_exit7; [ | | | | exact E]; assumption.
Qed.

(** Closed statement for the linear storage law: every timestep of every run
    satisfies [step_ok] and none ends on exit 7, so the water-balance error of
    EVERY step is in [0, massBalanceLimit) and is 0 whenever outflow > 0 --
    no assumption about the solver. *)
Theorem sr_balance_closed_linear bias k m area dead dt s pin pout rest ins lats rain evp os sts :
  sr_stable bias k m dead dt -> bias < 999 / 1000 -> sr_linear_params bias m ->
  0 <= s -> Forall (fun v => 0 <= v) ins -> Forall (fun v => 0 <= v) lats ->
  storage_routing_run [bias; k; m; area; dead; dt] (s :: pin :: pout :: rest) [ins; lats; rain; evp] = Some (os, sts) ->
  trace_ok (sr_setup bias k m area dead dt) (sr_init s pin pout) (zip4 ins lats rain evp) os /\
  Forall (fun o : sr_output => snd o <> 7%nat) os.
Proof.
  intros Hst Hb Hlin Hs Hin Hlat H.
  pose proof (sr_kernel_closed_partial _ _ _ _ _ _ _ _ _ _ _ _ _ _ _ _ Hst Hb Hs Hlat H) as Ht.
  split; [exact Ht|].
  pose proof Hst as (Hdt & _ & _ & _ & Hb0 & _).
  rewrite (sr_setup_linear _ _ _ _ _ _ Hlin) in Ht.
  eapply trace_no_exit7; try exact Ht; try exact Hdt.
  - destruct (Rltb (Rabs bias) (1 / 1000)); lra.
  - destruct (Rltb (Rabs bias) (1 / 1000)); lra.
  - clear -Hin Hlat. revert lats rain evp Hlat.
    induction Hin as [|a ins Ha _ IH]; intros lats rain evp Hlat; [constructor|].
    destruct lats as [|b lats]; [constructor|]. destruct rain as [|c rain]; [constructor|].
    destruct evp as [|d evp]; [constructor|]. inversion Hlat; subst.
    cbn [zip4]. constructor; [split; assumption|apply IH; assumption].
Qed.
