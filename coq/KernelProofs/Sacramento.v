(** Proofs about the Sacramento model (Kernels/Sacramento.v), C10 -- version for the REPAIRED code
    (hooks/fix-sacramento-guards.diff: ratio >= 0, fracp <= 1, adimc capped at uztwm+lztwm; and
    hooks/fix-sacramento-e5-nonneg.diff: the ADIMP evaporation e5 clamped at 0).

    Proved for all p satisfying [sac_ok] and all inputs:
      - [sac_uh_normalised]      the unit hydrograph is non-negative, has 5 ordinates and sums to 1
      - [sac_channel_ok]         channel phase: outputs non-negative, baseflow <= runoff, UH buffer stays
                                 non-negative, and a water budget of the channel (no water created)
      - [sac_components_add_up]  runoff = surface + baseflow (unconditional)
      - [sac_step_flows_ok], [sac_step_aet_nonneg], [sacramento_c10_partial]: step-level statements
        conditional on land-phase quantities being non-negative (discharged in SacramentoLand.v)
    Regression on the witnesses that broke the unrepaired code ([sac_adimc_bound_fixed],
    [sac_adimc_negative_fixed], [sac_adimc_ratio_negative_fixed], [sac_lzfsc_negative_fixed],
    [sac_aet_negative_fixed]). *)
From Coq Require Import Reals Lra Lia List Bool ZArith.
From OW Require Import Base.Arith Base.RInst Base.Mealy Kernels.Sacramento KernelProofs.RRCommon.
Import ListNotations.
Local Open Scope R_scope.

Definition sac_ok (p : sac_par (T:=R)) : bool :=
  Rleb 0 (lzpk p) && Rleb (lzpk p) 1 && Rleb 0 (lzsk p) && Rleb (lzsk p) 1 && Rleb 0 (uzk p) && Rleb (uzk p) 1 &&
  Rleb 1 (uztwm p) && Rleb 1 (uzfwm p) && Rleb 1 (lztwm p) && Rleb 1 (lzfsm p) && Rleb 1 (lzfpm p) &&
  Rleb 0 (pfree p) && Rleb (pfree p) 1 && Rleb 0 (rexp p) && Rleb 0 (zperc p) && Rleb 0 (side p) && Rleb 0 (ssout p) &&
  Rleb 0 (pctim p) && Rleb 0 (adimp p) && Rleb (pctim p + adimp p) 1 && Rleb 0 (sarva p) && Rleb (sarva p) 1 &&
  Rleb 0 (rserv p) && Rleb (rserv p) 1 &&
  Rleb 0 (uh1 p) && Rleb 0 (uh2 p) && Rleb 0 (uh3 p) && Rleb 0 (uh4 p) && Rleb 0 (uh5 p) &&
  Rltb 0 (uh1 p + uh2 p + uh3 p + uh4 p + uh5 p).

Ltac sac_ok_split H :=
  unfold sac_ok in H;
  repeat (let H' := fresh "Hok" in apply andb_prop in H; destruct H as [H H']; 
          first [apply Rleb_true in H' | apply Rltb_true in H']);
  first [apply Rleb_true in H | apply Rltb_true in H].

Ltac rb_true := first [apply Rleb_true | apply Rltb_true]; lra.

Ltac sac_ok_solve :=
  unfold sac_ok; cbn [lzpk lzsk uzk uztwm uzfwm lztwm lzfsm lzfpm pfree rexp zperc side ssout pctim adimp sarva rserv uh1 uh2 uh3 uh4 uh5];
  repeat (apply andb_true_intro; split); rb_true.

Definition sac_defaults : sac_par (T:=R) :=
  {| lzpk := 1/100; lzsk := 5/100; uzk := 3/10; uztwm := 50; uzfwm := 40; lztwm := 130; lzfsm := 25;
     lzfpm := 60; pfree := 6/100; rexp := 1; zperc := 40; side := 0; ssout := 0; pctim := 1/100;
     adimp := 0; sarva := 0; rserv := 3/10; uh1 := 8/10; uh2 := 1/10; uh3 := 5/100; uh4 := 3/100; uh5 := 2/100 |}.

Example sac_ok_satisfiable : exists p, sac_ok p = true.
Proof. exists sac_defaults. unfold sac_defaults. sac_ok_solve. Qed.

Theorem sac_uh_normalised : forall p, sac_ok p = true ->
  Forall (fun d => 0 <= d) (sac_dro p) /\ rr_sum (sac_dro p) = 1 /\ length (sac_dro p) = 5%nat.
Proof.
  intros p H. sac_ok_split H.
  unfold sac_dro, sac_uh_sum, sum_left. cbn [fold_left]. runfold.
  set (s := 0 + uh1 p + uh2 p + uh3 p + uh4 p + uh5 p).
  assert (Hs : 0 < s) by (unfold s; lra).
  assert (Hd : forall x, 0 <= x -> 0 <= x / s).
  { intros x Hx. unfold Rdiv. apply Rmult_le_pos; [lra|]. left. now apply Rinv_0_lt_compat. }
  split; [|split].
  - repeat (apply Forall_cons; [apply Hd; assumption|]). apply Forall_nil.
  - cbn [rr_sum]. unfold s. field. fold s. lra.
  - reflexivity.
Qed.

(** * 2. channel phase *)
Definition qq_ok (q : list R) : Prop := length q = 5%nat /\ Forall (fun x => 0 <= x) q.

(** water still held in the unit-hydrograph buffer: cell j (j = 1..4; cell 0 is
    overwritten by the next inflow) will be released with the weights dro_j .. dro_4 *)
Definition sac_uh_store (p : sac_par (T:=R)) (q : list R) : R :=
  let d := sac_dro p in
  nth 1 q 0 * (nth 1 d 0 + nth 2 d 0 + nth 3 d 0 + nth 4 d 0) +
  nth 2 q 0 * (nth 2 d 0 + nth 3 d 0 + nth 4 d 0) +
  nth 3 q 0 * (nth 3 d 0 + nth 4 d 0) +
  nth 4 q 0 * nth 4 d 0.

Lemma qq_ok_inv q : qq_ok q -> exists q0 q1 q2 q3 q4, q = [q0; q1; q2; q3; q4] /\
  0 <= q0 /\ 0 <= q1 /\ 0 <= q2 /\ 0 <= q3 /\ 0 <= q4.
Proof.
  intros [Hl Hf].
  destruct q as [|q0 [|q1 [|q2 [|q3 [|q4 [|]]]]]]; try discriminate.
  exists q0, q1, q2, q3, q4. split; [reflexivity|].
  inversion Hf as [|? ? H0 Hf1]; subst. inversion Hf1 as [|? ? H1 Hf2]; subst.
  inversion Hf2 as [|? ? H2 Hf3]; subst. inversion Hf3 as [|? ? H3 Hf4]; subst.
  inversion Hf4 as [|? ? H4 Hf5]; subst. tauto.
Qed.

Lemma Rdiv_pos_pos a b : 0 <= a -> 0 < b -> 0 <= a / b.
Proof. intros. unfold Rdiv. apply Rmult_le_pos; [lra|]. left. now apply Rinv_0_lt_compat. Qed.

Theorem sac_channel_ok : forall p q evapt flosf roimp floin flobf, sac_ok p = true -> qq_ok q ->
  0 <= evapt -> 0 <= flosf -> 0 <= roimp -> 0 <= floin -> 0 <= flobf ->
  let ch := sac_channel p q evapt flosf roimp floin flobf in
  qq_ok (c_qq ch) /\ 0 <= c_e4 ch /\ 0 <= c_bf ch <= c_qf ch /\ 0 <= c_qf ch /\
  (* channel budget: released flow + channel evaporation + water kept in the UH buffer never exceed
     the water held before + the inflow of this step (equality up to the ssout loss) *)
  c_qf ch + c_e4 ch + sac_uh_store p (c_qq ch)
    <= sac_uh_store p q + ((flosf + floin) * (1 - pctim p - adimp p) + roimp)
       + flobf * (1 - pctim p - adimp p) / (1 + side p).
Proof.
  intros p q evapt flosf roimp floin flobf H Hq He Hsf Hri Hin Hbf.
  destruct (sac_uh_normalised p H) as [Hd [Hsum _]].
  sac_ok_split H.
  destruct (qq_ok_inv q Hq) as (q0 & q1 & q2 & q3 & q4 & -> & Hq0 & Hq1 & Hq2 & Hq3 & Hq4).
  unfold sac_uh_store. revert Hd Hsum. unfold sac_dro. 
  set (d0 := div (uh1 p) _). set (d1 := div (uh2 p) _). set (d2 := div (uh3 p) _).
  set (d3 := div (uh4 p) _). set (d4 := div (uh5 p) _). intros Hd Hsum.
  cbn [rr_sum] in Hsum.
  inversion Hd as [|? ? D0 Hd1]; subst. inversion Hd1 as [|? ? D1 Hd2]; subst.
  inversion Hd2 as [|? ? D2 Hd3]; subst. inversion Hd3 as [|? ? D3 Hd4]; subst.
  inversion Hd4 as [|? ? D4 Hd5]; subst. clear Hd Hd1 Hd2 Hd3 Hd4 Hd5.
  unfold sac_channel, sac_dro. fold d0 d1 d2 d3 d4.
  cbn [tl combine map fst snd fold_left nth firstn c_qq c_qf c_bf c_e4]. runfold.
  set (k := 1 - pctim p - adimp p). assert (Hk : 0 <= k) by (unfold k; lra).
  set (x := flosf * k + roimp + floin * k).
  assert (Hx : 0 <= x) by (unfold x; pose proof (Rmult_le_pos _ _ Hsf Hk); pose proof (Rmult_le_pos _ _ Hin Hk); lra).
  set (flwsf := 0 + x * d0 + q1 * d1 + q2 * d2 + q3 * d3 + q4 * d4).
  assert (Hws : 0 <= flwsf).
  { unfold flwsf. pose proof (Rmult_le_pos _ _ Hx D0). pose proof (Rmult_le_pos _ _ Hq1 D1).
    pose proof (Rmult_le_pos _ _ Hq2 D2). pose proof (Rmult_le_pos _ _ Hq3 D3).
    pose proof (Rmult_le_pos _ _ Hq4 D4). lra. }
  set (fb0 := flobf * k / (1 + side p)).
  assert (Hfb0 : 0 <= fb0) by (unfold fb0; apply Rdiv_pos_pos; [apply Rmult_le_pos; lra | lra]).
  set (flwbf := if Rltb fb0 0 then 0 else fb0).
  assert (Hwb : flwbf = fb0).
  { unfold flwbf. rcase_bool (Rltb fb0 0); lra. }
  set (qf0 := flwbf + flwsf). assert (Hqf0 : 0 <= qf0) by (unfold qf0; lra).
  set (frac := if Rltb 0 qf0 then flwbf / qf0 else 0).
  assert (Hfr : 0 <= frac <= 1).
  { unfold frac. rcase_bool (Rltb 0 qf0); [|lra]. split.
    - apply Rdiv_pos_pos; lra.
    - apply Rmult_le_reg_r with qf0; [lra|]. unfold Rdiv. rewrite Rmult_assoc, Rinv_l by lra.
      unfold qf0 in *. lra. }
  set (qf1 := Rmax 0 (qf0 - ssout p)).
  assert (Hqf1 : 0 <= qf1 <= qf0).
  { unfold qf1. split; [apply Rmax_l|]. apply Rmax_lub; lra. }
  set (e4 := Rmin (evapt * sarva p) qf1).
  assert (He4 : 0 <= e4 <= qf1).
  { unfold e4. split; [apply Rmin_glb; [apply Rmult_le_pos; lra | lra] | apply Rmin_r]. }
  assert (G1 : length [x; x; q1; q2; q3] = 5%nat) by reflexivity.
  assert (G2 : Forall (fun x => 0 <= x) [x; x; q1; q2; q3]).
  { repeat (apply Forall_cons; [assumption|]). apply Forall_nil. }
  assert (G3 : 0 <= frac * (qf1 - e4)) by (apply Rmult_le_pos; lra).
  assert (G4 : frac * (qf1 - e4) <= qf1 - e4).
  { assert (frac * (qf1 - e4) <= 1 * (qf1 - e4)) by (apply Rmult_le_compat_r; lra). lra. }
  assert (E : x * (d1 + d2 + d3 + d4) = x - x * d0) by (replace (d1 + d2 + d3 + d4) with (1 - d0) by lra; ring).
  assert (E2 : x * (d1 + d2 + d3 + d4) + q1 * (d2 + d3 + d4) + q2 * (d3 + d4) + q3 * d4 + flwsf
               = q1 * (d1 + d2 + d3 + d4) + q2 * (d2 + d3 + d4) + q3 * (d3 + d4) + q4 * d4 + x).
  { rewrite E. unfold flwsf. ring. }
  replace ((flosf + floin) * k + roimp) with x by (unfold x; ring).
  fold fb0. unfold qq_ok.
  refine (conj (conj G1 G2) (conj _ (conj (conj G3 G4) (conj _ _)))); unfold qf0 in *; lra.
Qed.

(** * 3. step level *)
Theorem sac_components_add_up : forall p st io,
  o_runoff (snd (sac_step p st io)) = o_surface (snd (sac_step p st io)) + o_baseflow (snd (sac_step p st io)).
Proof. intros. unfold sac_step. cbn [snd o_runoff o_surface o_baseflow]. runfold. ring. Qed.

Theorem sacramento_c10_partial : forall p st io, sac_ok p = true -> qq_ok (qq st) -> 0 <= fst io -> 0 <= snd io ->
  let l := sac_land p st io in
  0 <= i_flosf (l_v l) -> 0 <= i_roimp (l_v l) -> 0 <= i_floin (l_v l) -> 0 <= i_flobf (l_v l) ->
  0 <= l_e1 l -> 0 <= l_e2 l -> 0 <= l_e3 l -> 0 <= l_e5 l ->
  let o := snd (sac_step p st io) in
  o_runoff o = o_surface o + o_baseflow o /\ 0 <= o_baseflow o <= o_runoff o /\ 0 <= o_surface o /\
  0 <= o_runoff o /\ 0 <= o_imperv o /\ 0 <= o_aet o /\ qq_ok (qq (fst (sac_step p st io))).
Proof.
  intros p st io H Hq Hr He l Hsf Hri Hin Hbf H1 H2 H3 H5 o.
  pose proof (sac_channel_ok p (qq st) (snd io) _ _ _ _ H Hq He Hsf Hri Hin Hbf) as Hc.
  cbv zeta in Hc. destruct Hc as (Cq & Ce4 & Cbf & Cqf & _).
  sac_ok_split H.
  unfold o, sac_step. fold l.
  cbn [fst snd o_runoff o_surface o_baseflow o_imperv o_aet qq]. runfold.
  assert (Ha : 0 <= l_e1 l * (1 - adimp p - pctim p) + l_e2 l * (1 - adimp p - pctim p) +
                    l_e3 l * (1 - adimp p - pctim p) + c_e4 (sac_channel p (qq st) (snd io) (i_flosf (l_v l)) (i_roimp (l_v l)) (i_floin (l_v l)) (i_flobf (l_v l))) + l_e5 l * adimp p).
  { pose proof (Rmult_le_pos _ _ H1 (ltac:(lra) : 0 <= 1 - adimp p - pctim p)).
    pose proof (Rmult_le_pos _ _ H2 (ltac:(lra) : 0 <= 1 - adimp p - pctim p)).
    pose proof (Rmult_le_pos _ _ H3 (ltac:(lra) : 0 <= 1 - adimp p - pctim p)).
    pose proof (Rmult_le_pos _ _ H5 Hok10). lra. }
  refine (conj _ (conj _ (conj _ (conj Cqf (conj Hri (conj Ha Cq)))))); lra.
Qed.


(** the flow conjuncts need only the four accumulated flows to be non-negative ... *)
Theorem sac_step_flows_ok : forall p st io, sac_ok p = true -> qq_ok (qq st) -> 0 <= snd io ->
  let l := sac_land p st io in
  0 <= i_flosf (l_v l) -> 0 <= i_roimp (l_v l) -> 0 <= i_floin (l_v l) -> 0 <= i_flobf (l_v l) ->
  let o := snd (sac_step p st io) in
  o_runoff o = o_surface o + o_baseflow o /\ 0 <= o_baseflow o <= o_runoff o /\ 0 <= o_surface o /\
  0 <= o_runoff o /\ 0 <= o_imperv o /\ qq_ok (qq (fst (sac_step p st io))).
Proof.
  intros p st io H Hq He l Hsf Hri Hin Hbf o.
  pose proof (sac_channel_ok p (qq st) (snd io) _ _ _ _ H Hq He Hsf Hri Hin Hbf) as Hc.
  cbv zeta in Hc. destruct Hc as (Cq & Ce4 & Cbf & Cqf & _).
  unfold o, sac_step. fold l.
  cbn [fst snd o_runoff o_surface o_baseflow o_imperv o_aet qq]. runfold.
  refine (conj _ (conj _ (conj _ (conj Cqf (conj Hri Cq))))); lra.
Qed.

(** ... and the actual ET additionally the four evaporation components *)
Theorem sac_step_aet_nonneg : forall p st io, sac_ok p = true -> qq_ok (qq st) -> 0 <= snd io ->
  let l := sac_land p st io in
  0 <= i_flosf (l_v l) -> 0 <= i_roimp (l_v l) -> 0 <= i_floin (l_v l) -> 0 <= i_flobf (l_v l) ->
  0 <= l_e1 l -> 0 <= l_e2 l -> 0 <= l_e3 l -> 0 <= l_e5 l ->
  0 <= o_aet (snd (sac_step p st io)).
Proof.
  intros p st io H Hq He l Hsf Hri Hin Hbf H1 H2 H3 H5.
  pose proof (sac_channel_ok p (qq st) (snd io) _ _ _ _ H Hq He Hsf Hri Hin Hbf) as Hc.
  cbv zeta in Hc. destruct Hc as (_ & Ce4 & _).
  sac_ok_split H.
  unfold sac_step. fold l. cbn [snd o_aet]. runfold.
  pose proof (Rmult_le_pos _ _ H1 (ltac:(lra) : 0 <= 1 - adimp p - pctim p)).
  pose proof (Rmult_le_pos _ _ H2 (ltac:(lra) : 0 <= 1 - adimp p - pctim p)).
  pose proof (Rmult_le_pos _ _ H3 (ltac:(lra) : 0 <= 1 - adimp p - pctim p)).
  pose proof (Rmult_le_pos _ _ H5 Hok10). fold l in Ce4. lra.
Qed.

Lemma Rpow_0 x : Rpow x 0 = 1.
Proof. unfold Rpow. destruct (Req_EM_T 0 0); [reflexivity|contradiction]. Qed.

Ltac sac_proj :=
  cbn [lzpk lzsk uzk uztwm uzfwm lztwm lzfsm lzfpm pfree rexp zperc side ssout pctim adimp sarva rserv
       uh1 uh2 uh3 uh4 uh5
       uztwc uzfwc lztwc lzfpc lzfsc adimc alzfsc alzfpc qq
       i_adimc i_alzfpc i_alzfsc i_flobf i_uzfwc i_floin i_lztwc i_flosf i_roimp
       c_pinc c_dinc c_duz c_dlzp c_dlzs l_v l_uztwc l_e1 l_e2 l_e3 l_e5
       pr_v0 pr_uztwc pr_pav pr_e1 pr_e2 pr_e3 pr_e5 fst snd].

Ltac sac_proj_in H :=
  cbn [i_adimc i_alzfpc i_alzfsc i_flobf i_uzfwc i_floin i_lztwc i_flosf i_roimp] in H.

(** decide one boolean test / min whose operands are closed enough for [lra]; the [match] backtracks
    over the occurrences until it finds one that can be decided *)
Ltac eval1 :=
  match goal with
  | |- context [Rltb ?a ?b] =>
      first [ replace (Rltb a b) with true by (symmetry; apply Rltb_true; lra)
            | replace (Rltb a b) with false by (symmetry; apply Rltb_false; lra) ]
  | |- context [Rleb ?a ?b] =>
      first [ replace (Rleb a b) with true by (symmetry; apply Rleb_true; lra)
            | replace (Rleb a b) with false by (symmetry; apply Rleb_false; lra) ]
  | |- context [Rmin ?a ?b] =>
      first [ rewrite (Rmin_left a b) by lra | rewrite (Rmin_right a b) by lra ]
  | |- context [Rpow ?a 0] => rewrite (Rpow_0 a)
  | |- context [(1 =? 1)%Z] => change (1 =? 1)%Z with true
  | |- context [(2 =? 1)%Z] => change (2 =? 1)%Z with false
  | |- context [(3 =? 1)%Z] => change (3 =? 1)%Z with false
  end; cbv beta iota; cbn [andb].

Definition sac_wit_b : sac_par (T:=R) :=
  {| lzpk := 1; lzsk := 0; uzk := 3/10; uztwm := 50; uzfwm := 40; lztwm := 130; lzfsm := 1;
     lzfpm := 99; pfree := 1; rexp := 0; zperc := 0; side := 0; ssout := 0; pctim := 1/100;
     adimp := 0; sarva := 0; rserv := 3/10; uh1 := 8/10; uh2 := 1/10; uh3 := 5/100; uh4 := 3/100; uh5 := 2/100 |}.

Lemma sac_inner_ext a1 a2 a3 a4 a5 a6 a7 a8 a9 b1 b2 b3 b4 b5 b6 b7 b8 b9 :
  a1 = b1 -> a2 = b2 -> a3 = b3 -> a4 = b4 -> a5 = b5 -> a6 = b6 -> a7 = b7 -> a8 = b8 -> a9 = b9 ->
  {| i_adimc := a1; i_alzfpc := a2; i_alzfsc := a3; i_flobf := a4; i_uzfwc := a5; i_floin := a6;
     i_lztwc := a7; i_flosf := a8; i_roimp := a9 |} =
  {| i_adimc := b1; i_alzfpc := b2; i_alzfsc := b3; i_flobf := b4; i_uzfwc := b5; i_floin := b6;
     i_lztwc := b7; i_flosf := b8; i_roimp := (b9 : R) |}.
Proof. intros; subst; reflexivity. Qed.

Definition sac_wit_b_c : sac_pass_c (T:=R) :=
  {| c_pinc := 0; c_dinc := 1; c_duz := 3/10; c_dlzp := 1; c_dlzs := 0 |}.
Definition sac_wit_b_v : sac_inner (T:=R) :=
  {| i_adimc := 50; i_alzfpc := 0; i_alzfsc := 9/10; i_flobf := 0; i_uzfwc := 4; i_floin := 0;
     i_lztwc := 0; i_flosf := 0; i_roimp := 0 |}.

(** [int(math.Floor(x))] at a concrete x *)
Lemma Int_part_between x k : IZR k <= x < IZR k + 1 -> Int_part x = k.
Proof.
  intros [H1 H2]. unfold Int_part.
  assert (E : (k + 1)%Z = up x) by (apply up_tech; [assumption | rewrite plus_IZR; simpl; lra]).
  rewrite <- E. lia.
Qed.

Lemma Rtrunc_Rfloor_between : forall x k, IZR k <= x < IZR k + 1 -> (0 <= k)%Z -> Rtrunc (Rfloor x) = k.
Proof.
  intros x k H Hk. unfold Rfloor. rewrite (Int_part_between x k H).
  unfold Rtrunc. destruct (Rle_dec 0 (IZR k)) as [_|n].
  - apply Int_part_between. lra.
  - exfalso. apply n. apply IZR_le in Hk. exact Hk.
Qed.

Lemma sac_ninc_eval x k : IZR k - 1 <= x < IZR k -> (1 <= k)%Z -> Z.add (Rtrunc (Rfloor x)) 1 = k.
Proof.
  intros H Hk. rewrite (Rtrunc_Rfloor_between x (k - 1)); [lia | rewrite minus_IZR; simpl; lra | lia].
Qed.

Lemma iter_1 {X} (f : X -> X) x : Nat.iter (Z.to_nat 1) f x = f x.
Proof. reflexivity. Qed.
Lemma iter_2 {X} (f : X -> X) x : Nat.iter (Z.to_nat 2) f x = f (f x).
Proof. reflexivity. Qed.

Ltac eval_ninc :=
  match goal with
  | |- context [Z.add (Rtrunc (Rfloor ?x)) 1] =>
      first [ rewrite (sac_ninc_eval x 1) by (try lra; lia)
            | rewrite (sac_ninc_eval x 2) by (try lra; lia)
            | rewrite (sac_ninc_eval x 3) by (try lra; lia) ]
  end.

(** the six state fields read by the next land phase *)
Definition st6 (st : sac_st (T:=R)) (a b c d e f : R) : Prop :=
  uztwc st = a /\ uzfwc st = b /\ lztwc st = c /\ adimc st = d /\ alzfsc st = e /\ alzfpc st = f.

Ltac st6_subst st H :=
  destruct st; unfold st6 in H; cbn [uztwc uzfwc lztwc adimc alzfsc alzfpc] in H;
  destruct H as (? & ? & ? & ? & ? & ?); subst.

Lemma st6_step p st io u v : l_uztwc (sac_land p st io) = u -> l_v (sac_land p st io) = v ->
  st6 (fst (sac_step p st io)) u (i_uzfwc v) (i_lztwc v) (i_adimc v) (i_alzfsc v) (i_alzfpc v).
Proof.
  intros H1 H2. unfold st6, sac_step. cbn [fst uztwc uzfwc lztwc adimc alzfsc alzfpc].
  rewrite H1, H2. repeat split.
Qed.

Lemma run_fst_cons {S I O} (step : S -> I -> S * O) s x r :
  fst (run step s (x :: r)) = fst (run step (fst (step s x)) r).
Proof. cbn [run]. destruct (step s x) as [s1 o]. cbn [fst]. destruct (run step s1 r). reflexivity. Qed.

(** evaluation of the land phase down to the call of [sac_pass] *)
Ltac eval_pre :=
  match goal with
  | |- context [sac_pre ?p ?st ?io] =>
      let E := fresh "E" in
      eassert (E : sac_pre p st io = _)
        by (unfold sac_pre, sac_init; sac_proj; runfold; repeat eval1; reflexivity);
      rewrite E; clear E
  end.
Ltac eval_land :=
  unfold sac_land; eval_pre; unfold sac_loop, pdn20, pdnor, half_pdnor; sac_proj; runfold;
  repeat (progress (repeat eval1; sac_proj)).
(** evaluation of [sac_pass] down to the iterated [sac_inc] *)
Ltac eval_pass :=
  unfold sac_pass; sac_proj; runfold; cbn [truncZ afloor RArith]; repeat first [eval_ninc | eval1];
  rewrite ?iter_1, ?iter_2.
Ltac eval_inc :=
  unfold sac_inc; sac_proj; runfold; repeat eval1; sac_proj; apply sac_inner_ext; lra.

Definition sac_wit_a : sac_par (T:=R) :=
  {| lzpk := 1/100; lzsk := 5/100; uzk := 3/10; uztwm := 50; uzfwm := 40; lztwm := 1; lzfsm := 25;
     lzfpm := 60; pfree := 6/100; rexp := 1; zperc := 40; side := 0; ssout := 0; pctim := 1/100;
     adimp := 0; sarva := 0; rserv := 3/10; uh1 := 8/10; uh2 := 1/10; uh3 := 5/100; uh4 := 3/100; uh5 := 2/100 |}.

Definition mk_inner (a1 a2 a3 a4 a5 a6 a7 a8 a9 : R) : sac_inner (T:=R) :=
  {| i_adimc := a1; i_alzfpc := a2; i_alzfsc := a3; i_flobf := a4; i_uzfwc := a5; i_floin := a6;
     i_lztwc := a7; i_flosf := a8; i_roimp := a9 |}.

(** ** the witnesses that broke the unrepaired code, on the repaired code *)
Lemma sac_wit_a_land1 :
  l_uztwc (sac_land sac_wit_a (sac_init sac_wit_a 0 0 0 0 0 0) (54, 0)) = 50 /\
  l_v (sac_land sac_wit_a (sac_init sac_wit_a 0 0 0 0 0 0) (54, 0)) =
  sac_pass sac_wit_a 50 1 4 (mk_inner 50 0 0 0 0 0 0 0 (27/50)).
Proof.
  unfold sac_wit_a. eval_land. split; [lra|].
  unfold mk_inner. f_equal; try lra. apply sac_inner_ext; lra.
Qed.

Lemma sac_wit_a_pass1 :
  sac_pass sac_wit_a 50 1 4 (mk_inner 50 0 0 0 0 0 0 0 (27/50)) = mk_inner 51 0 0 0 4 0 0 0 (27/50).
Proof. unfold sac_wit_a, mk_inner. eval_pass. eval_inc. Qed.

(** defaults with lztwm = 1 mm, one 54 mm day from the empty state: the additional-impervious store
    now stops at its capacity uztwm + lztwm = 51 (it was 54) *)
Theorem sac_adimc_bound_fixed :
  adimc (fst (sac_run sac_wit_a (sac_init sac_wit_a 0 0 0 0 0 0) [(54, 0)])) = uztwm sac_wit_a + lztwm sac_wit_a.
Proof.
  unfold sac_run. rewrite run_fst_cons. cbn [run fst].
  destruct sac_wit_a_land1 as [E1 E2]. rewrite sac_wit_a_pass1 in E2.
  destruct (st6_step _ _ _ _ _ E1 E2) as (_ & _ & _ & E & _).
  rewrite E. unfold sac_wit_a, mk_inner; sac_proj. lra.
Qed.

Definition sac_wit_n : sac_par (T:=R) :=
  {| lzpk := 0; lzsk := 0; uzk := 1; uztwm := 50; uzfwm := 40; lztwm := 1; lzfsm := 25;
     lzfpm := 60; pfree := 6/100; rexp := 1; zperc := 40; side := 0; ssout := 0; pctim := 1/100;
     adimp := 0; sarva := 0; rserv := 3/10; uh1 := 8/10; uh2 := 1/10; uh3 := 5/100; uh4 := 3/100; uh5 := 2/100 |}.

Lemma sac_wit_n_land1 :
  l_uztwc (sac_land sac_wit_n (sac_init sac_wit_n 0 0 0 0 0 0) (54, 0)) = 50 /\
  l_v (sac_land sac_wit_n (sac_init sac_wit_n 0 0 0 0 0 0) (54, 0)) =
  sac_pass sac_wit_n 50 1 4 (mk_inner 50 0 0 0 0 0 0 0 (27/50)).
Proof.
  unfold sac_wit_n. eval_land. split; [lra|].
  unfold mk_inner. f_equal; try lra. apply sac_inner_ext; lra.
Qed.

Lemma sac_wit_n_pass1 :
  sac_pass sac_wit_n 50 1 4 (mk_inner 50 0 0 0 0 0 0 0 (27/50)) = mk_inner 51 0 0 0 4 0 0 0 (27/50).
Proof. unfold sac_wit_n, mk_inner. eval_pass. eval_inc. Qed.

Lemma sac_wit_n_land2 st : st6 st 50 4 0 51 0 0 ->
  l_uztwc (sac_land sac_wit_n st (4, 0)) = 50 /\
  l_v (sac_land sac_wit_n st (4, 0)) = sac_pass sac_wit_n 50 1 4 (mk_inner 51 0 0 0 4 0 0 0 (1/25)).
Proof.
  intros H. st6_subst st H.
  unfold sac_wit_n. eval_land. split; [lra|].
  unfold mk_inner. f_equal; try lra. apply sac_inner_ext; lra.
Qed.

Lemma sac_wit_n_inc21 c : c_pinc c = 2 -> c_dinc c = 1/2 -> c_duz c = 1 ->
  sac_inc sac_wit_n 50 c (mk_inner 51 0 0 0 4 0 0 0 (1/25)) = mk_inner 51 0 0 0 2 4 0 0 (1/25).
Proof.
  intros H1 H2 H3. destruct c as [cp cd cu cl cs]; cbn [c_pinc c_dinc c_duz] in *; subst.
  unfold sac_wit_n, mk_inner. eval_inc.
Qed.

Lemma sac_wit_n_inc22 c : c_pinc c = 2 -> c_dinc c = 1/2 -> c_duz c = 1 ->
  sac_inc sac_wit_n 50 c (mk_inner 51 0 0 0 2 4 0 0 (1/25)) = mk_inner 51 0 0 0 2 6 0 0 (1/25).
Proof.
  intros H1 H2 H3. destruct c as [cp cd cu cl cs]; cbn [c_pinc c_dinc c_duz] in *; subst.
  unfold sac_wit_n, mk_inner. eval_inc.
Qed.

Lemma sac_wit_n_pass2 :
  sac_pass sac_wit_n 50 1 4 (mk_inner 51 0 0 0 4 0 0 0 (1/25)) = mk_inner 51 0 0 0 2 6 0 0 (1/25).
Proof.
  unfold sac_wit_n at 1. unfold mk_inner at 1. eval_pass.
  fold sac_wit_n.
  rewrite sac_wit_n_inc21 by (cbn [c_pinc c_dinc c_duz]; lra).
  rewrite sac_wit_n_inc22 by (cbn [c_pinc c_dinc c_duz]; lra).
  reflexivity.
Qed.

(** 54 mm then 4 mm of rain from the empty state (lztwm = 1, lzpk = lzsk = 0, uzk = 1): the store
    stays at its capacity 51 (it was -1326) *)
Theorem sac_adimc_negative_fixed :
  adimc (fst (sac_run sac_wit_n (sac_init sac_wit_n 0 0 0 0 0 0) [(54, 0); (4, 0)])) = 51.
Proof.
  unfold sac_run. rewrite !run_fst_cons. cbn [run fst].
  destruct sac_wit_n_land1 as [E1 E2]. rewrite sac_wit_n_pass1 in E2.
  pose proof (st6_step _ _ _ _ _ E1 E2) as S1. unfold mk_inner in S1; sac_proj_in S1.
  destruct (sac_wit_n_land2 _ S1) as [F1 F2]. rewrite sac_wit_n_pass2 in F2.
  destruct (st6_step _ _ _ _ _ F1 F2) as (_ & _ & _ & E & _).
  rewrite E. unfold mk_inner; sac_proj. reflexivity.
Qed.

Definition sac_wit_r : sac_par (T:=R) :=
  {| lzpk := 0; lzsk := 0; uzk := 1; uztwm := 125; uzfwm := 75; lztwm := 10; lzfsm := 25;
     lzfpm := 25; pfree := 6/100; rexp := 0; zperc := 40; side := 0; ssout := 0; pctim := 1/100;
     adimp := 3/10; sarva := 0; rserv := 3/10; uh1 := 8/10; uh2 := 1/10; uh3 := 5/100; uh4 := 3/100; uh5 := 2/100 |}.

Lemma sac_wit_r_land :
  l_uztwc (sac_land sac_wit_r (sac_init sac_wit_r 100 0 0 0 0 10) (29, 0)) = 125 /\
  l_v (sac_land sac_wit_r (sac_init sac_wit_r 100 0 0 0 0 10) (29, 0)) =
  sac_pass sac_wit_r 125 1 4 (mk_inner 35 0 0 0 0 0 0 0 (29/100)).
Proof.
  unfold sac_wit_r. eval_land. split; [lra|].
  unfold mk_inner. f_equal; try lra. apply sac_inner_ext; lra.
Qed.

Lemma sac_wit_r_pass :
  sac_pass sac_wit_r 125 1 4 (mk_inner 35 0 0 0 0 0 0 0 (29/100)) = mk_inner 39 0 0 0 4 0 0 0 (29/100).
Proof. unfold sac_wit_r, mk_inner. eval_pass. eval_inc. Qed.

(** lztwm = 10, state (100,0,0,0,0,10) with adimc < uztwc - lztwm, 29 mm of rain: ratio is clamped at 0,
    adimc = 35 + 4 = 39 (it was -285) and the impervious runoff is 0.29 mm (it was 97.49) *)
Theorem sac_adimc_ratio_negative_fixed :
  adimc (fst (sac_run sac_wit_r (sac_init sac_wit_r 100 0 0 0 0 10) [(29, 0)])) = 39 /\
  map o_imperv (snd (sac_run sac_wit_r (sac_init sac_wit_r 100 0 0 0 0 10) [(29, 0)])) = [29/100].
Proof.
  destruct sac_wit_r_land as [E1 E2]. rewrite sac_wit_r_pass in E2.
  split.
  - unfold sac_run. rewrite run_fst_cons. cbn [run fst].
    destruct (st6_step _ _ _ _ _ E1 E2) as (_ & _ & _ & E & _).
    rewrite E. unfold mk_inner; sac_proj. reflexivity.
  - unfold sac_run. cbn [run]. 
    destruct (sac_step sac_wit_r (sac_init sac_wit_r 100 0 0 0 0 10) (29, 0)) as [s1 o] eqn:Es.
    cbn [snd map]. f_equal.
    assert (Eo : o = snd (sac_step sac_wit_r (sac_init sac_wit_r 100 0 0 0 0 10) (29, 0))) by (rewrite Es; reflexivity).
    rewrite Eo. unfold sac_step. cbn [snd o_imperv]. rewrite E2. unfold mk_inner; sac_proj. reflexivity.
Qed.

Lemma sac_wit_b_eval :
  sac_inc sac_wit_b 50 sac_wit_b_c sac_wit_b_v =
  {| i_adimc := 50; i_alzfpc := 4; i_alzfsc := 9/10; i_flobf := 0; i_uzfwc := 0; i_floin := 0;
     i_lztwc := 0; i_flosf := 0; i_roimp := 0 |}.
Proof.
  unfold sac_inc, sac_wit_b, sac_wit_b_c, sac_wit_b_v. sac_proj. runfold.
  repeat eval1. sac_proj. apply sac_inner_ext; lra.
Qed.

Lemma sac_wit_b_land :
  l_v (sac_land sac_wit_b (sac_init sac_wit_b 50 4 0 0 (9/10) 50) (0, 0)) =
  sac_pass sac_wit_b 50 1 0 sac_wit_b_v.
Proof.
  unfold sac_wit_b. eval_land.
  unfold sac_wit_b_v. f_equal; try lra. apply sac_inner_ext; lra.
Qed.

Lemma sac_wit_b_pass :
  sac_pass sac_wit_b 50 1 0 sac_wit_b_v = sac_inc sac_wit_b 50 sac_wit_b_c sac_wit_b_v.
Proof.
  unfold sac_wit_b at 1. unfold sac_wit_b_v at 1. eval_pass. fold sac_wit_b sac_wit_b_v.
  f_equal. unfold sac_wit_b_c. f_equal; lra.
Qed.

(** lzfsm = 1, lzfpm = 99, state (50, 4, 0, 0, 0.9, 50), one dry day: fracp = 1.8 is clamped at 1, all
    4 mm of percolation go to the primary store and LwrSupplFreeWater stays 0.9 (it was -2.3) *)
Theorem sac_lzfsc_negative_fixed :
  lzfsc (fst (sac_run sac_wit_b (sac_init sac_wit_b 50 4 0 0 (9/10) 50) [(0, 0)])) = 9/10 /\
  lzfpc (fst (sac_run sac_wit_b (sac_init sac_wit_b 50 4 0 0 (9/10) 50) [(0, 0)])) = 4.
Proof.
  unfold sac_run. rewrite run_fst_cons. cbn [run fst].
  unfold sac_step. cbn [fst lzfsc lzfpc]. rewrite sac_wit_b_land, sac_wit_b_pass, sac_wit_b_eval.
  unfold sac_wit_b; sac_proj; runfold. split; field.
Qed.

(** ** the witness for a negative actual ET (guards patch alone), on the code with the e5 clamp:
    uztwm = uzfwm = lztwm = 10, adimp = 1/2, state (0, 10, 0, 0, 0, 0), no rain, PET 4 mm:
    the transfer gives uztwc = 5, e5a = 4 * (0 - 0 - 5) / 20 = -1 is clamped to 0, actualET = 0. *)
Definition sac_wit_e : sac_par (T:=R) :=
  {| lzpk := 1/100; lzsk := 5/100; uzk := 3/10; uztwm := 10; uzfwm := 10; lztwm := 10; lzfsm := 25;
     lzfpm := 60; pfree := 6/100; rexp := 1; zperc := 40; side := 0; ssout := 0; pctim := 1/100;
     adimp := 1/2; sarva := 0; rserv := 3/10; uh1 := 8/10; uh2 := 1/10; uh3 := 5/100; uh4 := 3/100; uh5 := 2/100 |}.

Lemma sac_wit_e_pre : let pre := sac_pre sac_wit_e (sac_init sac_wit_e 0 10 0 0 0 0) (0, 4) in
  pr_e1 pre = 0 /\ pr_e2 pre = 0 /\ pr_e3 pre = 0 /\ pr_e5 pre = 0.
Proof.
  cbv zeta. unfold sac_wit_e. eval_pre. sac_proj. repeat split; lra.
Qed.

Lemma sac_channel_e4_0 p q evapt a b c d : sarva p = 0 -> c_e4 (sac_channel p q evapt a b c d) = 0.
Proof.
  intros H. unfold sac_channel. cbn [c_e4]. runfold. rewrite H, Rmult_0_r.
  apply Rmin_left. apply Rmax_l.
Qed.

Theorem sac_aet_negative_fixed :
  o_aet (snd (sac_step sac_wit_e (sac_init sac_wit_e 0 10 0 0 0 0) (0, 4))) = 0.
Proof.
  destruct sac_wit_e_pre as (E1 & E2 & E3 & E5).
  unfold sac_step. cbn [snd o_aet fst]. rewrite sac_channel_e4_0 by reflexivity.
  unfold sac_land. cbn [l_e1 l_e2 l_e3 l_e5]. rewrite E1, E2, E3, E5.
  unfold sac_wit_e; sac_proj; runfold. lra.
Qed.
