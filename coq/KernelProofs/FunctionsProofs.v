(** C16 proofs for models/functions: Input, Sum, Gate, PartitionDemand,
    ComputeProportion, BaseflowFilter.  Whole runs over [RArith]. *)
From Coq Require Import ZArith List Reals Lra.
From OW Require Import Base.Arith Base.RInst Base.Mealy Kernels.C16Common
  Kernels.Input Kernels.Sum Kernels.Gate Kernels.PartitionDemand Kernels.ComputeProportion Kernels.Baseflow
  KernelProofs.C16Lib.
Import ListNotations.
Local Open Scope R_scope.

(** ** Input : identity *)
Theorem input_id : forall (input st : list R), input_kernel [] st [input] = Some ([input], st).
Proof. reflexivity. Qed.

(** ** Sum *)
Theorem sum_is_sum : forall (i1 i2 st : list R),
  sum_kernel [] st [i1; i2] = Some ([zipw Rplus i1 i2], st).
Proof.
  intros. unfold sum_kernel, sum_step. rewrite snd_run_loop_step. unfold zipw.
  do 3 f_equal. apply map_ext. intros [a b]. reflexivity.
Qed.

(** ** Gate : mask by trigger > 0 *)
Definition gate_mask (t i : R) : R := if Rlt_dec 0 t then i else 0.

Theorem gate_is_mask : forall (trigger incoming st : list R),
  gate_kernel [] st [trigger; incoming] = Some ([zipw gate_mask trigger incoming], st).
Proof.
  intros. unfold gate_kernel, gate_step. rewrite snd_run_loop_step. unfold zipw.
  do 3 f_equal. apply map_ext. intros [t i]. unfold gate_row, gate_mask, gtb. runfold. unfold Rltb.
  cbn [fst snd]. destruct (Rlt_dec 0 t); reflexivity.
Qed.

Lemma gate_mask_spec (t i : R) : (0 < t -> gate_mask t i = i) /\ (t <= 0 -> gate_mask t i = 0).
Proof. unfold gate_mask. destruct (Rlt_dec 0 t); split; intros; try reflexivity; lra. Qed.

(** ** PartitionDemand *)
Lemma partition_demand_run (input demand st : list R) :
  partition_demand_kernel [] st [input; demand] =
  Some ([map (fun x => Rmax (fst x - Rmin (snd x) (fst x)) 0) (combine input demand);
         map (fun x => Rmin (snd x) (fst x)) (combine input demand)], st).
Proof.
  unfold partition_demand_kernel, partition_demand_step. rewrite snd_run_loop_step, !map_map.
  do 3 f_equal; [|f_equal]; apply map_ext; intros [a b]; reflexivity.
Qed.

(** for ALL inputs and demands (zero, negative, demand above availability):
    outflow + extraction = input, extraction <= demand, extraction <= input, outflow >= 0 *)
Theorem partition_demand_sum : forall (input demand st : list R),
  length input = length demand ->
  exists outflow extraction,
    partition_demand_kernel [] st [input; demand] = Some ([outflow; extraction], st)
    /\ zipw Rplus outflow extraction = input
    /\ Forall2 Rle extraction demand
    /\ Forall2 Rle extraction input
    /\ Forall (fun o => 0 <= o) outflow.
Proof.
  intros input demand st Hl. eexists; eexists; split; [apply partition_demand_run|].
  split; [|split; [|split]].
  - rewrite zipw_map_same. transitivity (map fst (combine input demand)); [|now apply map_fst_combine].
    apply map_ext. intros [a b]. cbn [fst snd]. unfold Rmax, Rmin.
    destruct (Rle_dec b a); destruct (Rle_dec _ 0); lra.
  - rewrite <- (map_snd_combine input demand Hl) at 2. apply Forall2_map_map. intros [a b]. apply Rmin_l.
  - rewrite <- (map_fst_combine input demand Hl) at 2. apply Forall2_map_map. intros [a b]. apply Rmin_r.
  - apply Forall_map_all. intros x. apply Rmax_r.
Qed.

(** extraction is exactly min(demand, input): all of the demand when available *)
Theorem partition_demand_extraction : forall (input demand st : list R),
  exists outflow, partition_demand_kernel [] st [input; demand] = Some ([outflow; zipw Rmin demand input], st).
Proof.
  intros. eexists. rewrite partition_demand_run. unfold zipw. do 3 f_equal. f_equal.
  revert demand; induction input as [|a input IH]; intros [|b demand]; cbn; try reflexivity.
  f_equal. apply IH.
Qed.

Example partition_demand_negative_demand :
  partition_demand_kernel [] [] [[5; 3; 0]; [-2; 7; 1]] = Some ([[7; 0; 0]; [-2; 3; 0]], []).
Proof.
  rewrite partition_demand_run. cbn [map combine fst snd]. unfold Rmin, Rmax.
  repeat match goal with |- context [Rle_dec ?a ?b] => destruct (Rle_dec a b); try lra end.
  repeat f_equal; lra.
Qed.

(** ** ComputeProportion *)
Theorem compute_proportion_spec : forall (r : R) (numerator denominator st : list R),
  compute_proportion_kernel [r] st [numerator; denominator] =
  Some ([zipw (fun n d => if Req_EM_T d 0 then r else n / d) numerator denominator], st).
Proof.
  intros. unfold compute_proportion_kernel, compute_proportion_step. rewrite snd_run_loop_step. unfold zipw.
  do 3 f_equal. apply map_ext. intros [n d]. unfold compute_proportion_row. runfold. unfold Reqb. cbn [fst snd].
  destruct (Req_EM_T d 0); reflexivity.
Qed.

(** ** BaseflowFilter : the Go loop body is empty, both outputs stay zero (no partition is
    claimed for it; recorded so that the model says what the code does) *)
Theorem baseflow_filter_outputs_untouched : forall (streamflow st : list R),
  baseflow_filter_kernel [] st [streamflow] = Some ([map (fun _ => 0) streamflow; map (fun _ => 0) streamflow], st).
Proof. reflexivity. Qed.
