(** The only fact about FindRoot that the StorageRouting theorems use: whatever
    it returns lies inside the bracket it was given (for ANY objective function,
    any derivative, any tolerances, any iteration limit).  Over RArith. *)
From Coq Require Import ZArith Reals Lra List Bool Lia.
From OW Require Import Base.Arith Base.RInst Kernels.StorageRoutingRoot.
Import ListNotations.
Local Open Scope R_scope.

Section Range.
  Variable f : R -> option R.
  Variable fdx : option (R -> R).
  Variables tol conv : R.
  Variables a b : R.

  (** bracket invariant of the inner loop *)
  Definition tinv (t : fr_t) : Prop :=
    a <= tminx t /\ tminx t <= tmaxx t /\ tmaxx t <= b /\ tmind t <= 0 /\ 0 <= tmaxd t.

  (** bracket invariant of the outer loop *)
  Definition sinv (s : fr_s) : Prop :=
    a <= smin s /\ smin s <= smax s /\ smax s <= b /\ smind s <= 0 /\ 0 <= smaxd s /\
    a <= sx s <= b.

  Lemma try_one_inv x trial deg t :
    tinv t -> a <= trial <= b ->
    match fr_try_one f tol conv x trial deg t with
    | TryPanic => True
    | TryEarly x' _ => a <= x' <= b
    | TryNext t' => tinv t'
    end.
  Proof.
    intros (H1 & H2 & H3 & H4 & H5) Ht. unfold fr_try_one.
    destruct (f trial) as [td|]; [|exact I].
    runfold.
    destruct (Rltb (Rabs td) tol); [exact Ht|].
    destruct deg; [unfold tinv; cbn; lra|].
    rcase_bool (Rltb td 0).
    - destruct (Rltb (tminx t) trial && Rleb trial (tmaxx t)) eqn:E.
      + apply andb_prop in E. destruct E as [E1 E2].
        apply Rltb_true in E1. apply Rleb_true in E2. unfold tinv; cbn. lra.
      + unfold tinv; cbn. lra.
    - destruct (Rltb trial (tmaxx t) && Rleb (tminx t) trial) eqn:E.
      + apply andb_prop in E. destruct E as [E1 E2].
        apply Rltb_true in E1. apply Rleb_true in E2. unfold tinv; cbn. lra.
      + unfold tinv; cbn. lra.
  Qed.

  Lemma try_all_inv x ts : forall t,
    tinv t -> Forall (fun p => a <= fst p <= b) ts ->
    match fr_try_all f tol conv x ts t with
    | TryPanic => True
    | TryEarly x' _ => a <= x' <= b
    | TryNext t' => tinv t'
    end.
  Proof.
    induction ts as [|[tr deg] r IH]; intros t Ht Hts; [exact Ht|].
    cbn [fr_try_all]. inversion Hts as [|p q Hp Hr]; subst. cbn [fst] in Hp.
    pose proof (try_one_inv x tr deg t Ht Hp) as H1.
    destruct (fr_try_one f tol conv x tr deg t) as [|x' d'|t']; [exact I|exact H1|].
    apply IH; assumption.
  Qed.

  Lemma trials_in_bracket s :
    sinv s -> Forall (fun p => a <= fst p <= b) (fr_trials fdx s).
  Proof.
    intros (H1 & H2 & H3 & H4 & H5 & H6). unfold fr_trials. runfold.
    set (halving := smax s - (smax s - smin s) * fr_half).
    set (secant := smax s - (smax s - smin s) * smaxd s / (smaxd s - smind s)).
    assert (Hh : a <= halving <= b).
    { unfold halving, fr_half. runfold. lra. }
    assert (Hs : a <= secant <= b).
    { unfold secant.
      destruct (Req_dec (smaxd s - smind s) 0) as [E|E].
      - assert (smaxd s = 0) by lra. rewrite H. unfold Rdiv. rewrite Rmult_0_r, Rmult_0_l. lra.
      - assert (Hd : 0 < smaxd s - smind s) by lra.
        assert (Hr : 0 <= smaxd s / (smaxd s - smind s) <= 1).
        { split.
          - apply Rmult_le_pos; [lra|]. apply Rlt_le, Rinv_0_lt_compat; exact Hd.
          - apply Rmult_le_reg_r with (smaxd s - smind s); [exact Hd|].
            unfold Rdiv. rewrite Rmult_assoc, Rinv_l by lra. lra. }
        replace ((smax s - smin s) * smaxd s / (smaxd s - smind s))
          with ((smax s - smin s) * (smaxd s / (smaxd s - smind s))) by (unfold Rdiv; ring).
        set (r := smaxd s / (smaxd s - smind s)) in *.
        assert (0 <= (smax s - smin s) * r) by (apply Rmult_le_pos; lra).
        assert ((smax s - smin s) * r <= (smax s - smin s) * 1) by (apply Rmult_le_compat_l; lra).
        lra. }
    assert (Hb : Forall (fun p : R * bool => a <= fst p <= b)
                   [(halving, false); (secant, Reqb (smaxd s - smind s) 0)]).
    { constructor; [cbn [fst]; lra|]. constructor; [cbn [fst]; lra|]. constructor. }
    destruct fdx as [g|]; [|exact Hb].
    destruct (negb (Reqb (g (sx s)) 0)); [|exact Hb].
    destruct (Rltb (smin s) (sx s - sd s / g (sx s)) && Rltb (sx s - sd s / g (sx s)) (smax s)) eqn:E; [|exact Hb].
    apply andb_prop in E. destruct E as [E1 E2].
    apply Rltb_true in E1. apply Rltb_true in E2.
    apply Forall_app. split; [exact Hb|]. constructor; [cbn [fst]; lra|constructor].
  Qed.

  Lemma iter_inv s :
    sinv s ->
    match fr_iter f fdx tol conv s with
    | FrPanic => True
    | FrDone x _ => a <= x <= b
    | FrCont s' => sinv s'
    end.
  Proof.
    intros Hs. pose proof Hs as (H1 & H2 & H3 & H4 & H5 & H6). unfold fr_iter.
    assert (Ht : tinv (mkFT (smin s) (smind s) (smax s) (smaxd s) O)) by (unfold tinv; cbn; lra).
    pose proof (try_all_inv (sx s) (fr_trials fdx s) _ Ht (trials_in_bracket s Hs)) as H.
    destruct (fr_try_all f tol conv (sx s) (fr_trials fdx s) (mkFT (smin s) (smind s) (smax s) (smaxd s) O))
      as [|x' d'|t']; [exact I|exact H|].
    destruct H as (T1 & T2 & T3 & T4 & T5).
    destruct ((aabs (tmind t') <=? tmaxd t')%ar);
      destruct (Nat.eqb (thit t') (length (fr_trials fdx s))); unfold sinv; cbn; lra.
  Qed.

  Lemma loop_inv n : forall s x d,
    sinv s -> fr_loop f fdx tol conv n s = Some (x, d) -> a <= x <= b.
  Proof.
    induction n as [|n IH]; intros s x d Hs H.
    - cbn in H. injection H as <- _. apply Hs.
    - cbn [fr_loop] in H. pose proof (iter_inv s Hs) as Hi.
      destruct (fr_iter f fdx tol conv s) as [|x' d'|s']; [discriminate| |].
      + injection H as <- _. exact Hi.
      + eapply IH; eassumption.
  Qed.

  (** FindRoot never leaves the bracket [a, b] it was given. *)
  Theorem sr_find_root_in_bracket x0 n x d :
    a <= b -> a <= x0 <= b ->
    sr_find_root f fdx tol conv x0 a b n = Some (x, d) -> a <= x <= b.
  Proof.
    intros Hab Hx0. unfold sr_find_root.
    destruct (f x0) as [d0|]; [|discriminate].
    destruct (f b) as [maxd|]; [|discriminate].
    destruct (f a) as [mind|]; [|discriminate].
    destruct (gtb mind zero || (maxd <? zero)%ar) eqn:E; [discriminate|].
    apply orb_false_elim in E. destruct E as [E1 E2]. unfold gtb in E1. runfold.
    apply Rltb_false in E1. apply Rltb_false in E2.
    apply loop_inv. unfold sinv; cbn. lra.
  Qed.
End Range.

(** On an objective that is affine on the bracket, with a sign change and a
    positive tolerance, FindRoot returns a point whose residual is below the
    tolerance: the secant trial of the first iteration is the exact root (the
    halving trial may be accepted before it). *)
Section Affine.
  Variable f : R -> option R.
  Variable fdx : option (R -> R).
  Variables tol conv : R.
  Variables a b A B : R.
  Hypothesis Hf : forall q, a <= q <= b -> f q = Some (A * q + B).
  Hypothesis Hlo : A * a + B < 0.
  Hypothesis Hhi : 0 < A * b + B.
  Hypothesis Hab : a < b.
  Hypothesis Htol : 0 < tol.

  Theorem sr_find_root_affine x0 n x d :
    a <= x0 <= b -> (0 < n)%nat ->
    sr_find_root f fdx tol conv x0 a b n = Some (x, d) ->
    a <= x <= b /\ d = A * x + B /\ Rabs d < tol.
  Proof.
    intros Hx0 Hn H.
    assert (Hin : a <= x <= b) by (eapply sr_find_root_in_bracket; [| |exact H]; lra).
    split; [exact Hin|].
    unfold sr_find_root in H.
    rewrite (Hf x0 Hx0), (Hf b), (Hf a) in H by lra.
    unfold gtb in H. runfold.
    replace (Rltb 0 (A * a + B)) with false in H by (symmetry; apply Rltb_false; lra).
    replace (Rltb (A * b + B) 0) with false in H by (symmetry; apply Rltb_false; lra).
    cbn [orb] in H.
    destruct n as [|n]; [lia|]. cbn [fr_loop] in H.
    set (s0 := mkFS x0 (A * x0 + B) a (A * a + B) b (A * b + B)) in H.
    assert (HA : A * (b - a) > 0) by lra.
    assert (HApos : 0 < A).
    { destruct (Rlt_dec 0 A) as [Hp|Hnp]; [exact Hp|exfalso].
      assert (0 <= (- A) * (b - a)) by (apply Rmult_le_pos; lra). lra. }
    assert (HAne : A <> 0) by lra.
    set (hv := b - (b - a) * fr_half).
    set (sc := b - (b - a) * (A * b + B) / (A * b + B - (A * a + B))).
    assert (Hsc : sc = - B / A).
    { unfold sc. field. split; [exact HAne|]. lra. }
    assert (Hscin : a <= sc <= b).
    { rewrite Hsc. split.
      - apply Rmult_le_reg_r with A; [exact HApos|]. unfold Rdiv. rewrite Rmult_assoc, Rinv_l by lra. lra.
      - apply Rmult_le_reg_r with A; [exact HApos|]. unfold Rdiv. rewrite Rmult_assoc, Rinv_l by lra. lra. }
    assert (Hhvin : a <= hv <= b) by (unfold hv, fr_half; runfold; lra).
    assert (Hfsc : f sc = Some 0).
    { rewrite (Hf sc Hscin). f_equal. rewrite Hsc. field. exact HAne. }
    (* the trial list starts with the halving point and the (non-degenerate) secant point *)
    assert (Htr : exists rest, fr_trials fdx s0 = (hv, false) :: (sc, false) :: rest).
    { unfold fr_trials. cbn [smax smin smaxd smind sx sd s0]. runfold. fold hv. fold sc.
      replace (Reqb (A * b + B - (A * a + B)) 0) with false by (symmetry; apply Reqb_false; lra).
      destruct fdx as [g|]; [|exists []; reflexivity].
      repeat match goal with |- context [if ?c then _ else _] => destruct c end;
        cbn [app]; eexists; reflexivity. }
    destruct Htr as [rest Htr].
    unfold fr_iter in H. rewrite Htr in H. cbn [fr_try_all] in H.
    assert (Hnext : forall t, fr_try_one f tol conv (sx s0) sc false t = TryEarly sc 0).
    { intros t. unfold fr_try_one. rewrite Hfsc. runfold. rewrite Rabs_R0.
      replace (Rltb 0 tol) with true by (symmetry; apply Rltb_true; exact Htol). reflexivity. }
    match type of H with
    | context [fr_try_one f tol conv (sx s0) hv false ?t0] =>
        destruct (fr_try_one f tol conv (sx s0) hv false t0) as [|xe de|t1] eqn:E1
    end.
    - discriminate.
    - injection H as <- <-. unfold fr_try_one in E1. rewrite (Hf hv Hhvin) in E1. runfold.
      destruct (Rltb (Rabs (A * hv + B)) tol) eqn:Eh.
      + injection E1 as <- <-. apply Rltb_true in Eh. split; [reflexivity|exact Eh].
      + exfalso.
        repeat match type of E1 with context [if ?c then _ else _] => destruct c end; discriminate.
    - rewrite Hnext in H. injection H as <- <-. split; [rewrite Hsc; field; exact HAne|].
      rewrite Rabs_R0. exact Htol.
  Qed.
End Affine.
