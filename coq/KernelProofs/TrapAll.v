(** Proofs about Kernels/TrapAll.v (StorageTrapAll) over the reals (C12).

    The numbers balance only when the trapped output is read in the units of the
    input (kg/s): [stored + sum inflowMass = sum trappedMass].  The output is
    declared in kg and the model has no time step, so the mass budget
    [stored + sum inflowMass*dt = sum trappedMass + stored'] fails for every
    step length other than 1 s: [trap_all_budget_refuted]. *)
From Coq Require Import ZArith Reals Lra List.
From OW Require Import Base.Arith Base.RInst Base.Mealy KernelProofs.Budget
  Kernels.C12Common Kernels.TrapAll.
Import ListNotations.
Local Open Scope R_scope.

Notation Rtrapall_step := (@trapall_step R RArith).

Definition trapall_stock (s : option R) : R := match s with Some m => m | None => 0 end.

Lemma trapall_step_rate_identity s x :
  trapall_stock s + x = trapall_stock (fst (Rtrapall_step s x)) + snd (Rtrapall_step s x).
Proof. destruct s; cbn; runfold; lra. Qed.

(** in the units of the input: stored + sum of inflowMass = sum of trappedMass (+ 0 left) *)
Theorem trapall_run_rate_identity : forall xs s,
  trapall_stock s + inflows (fun x => x) xs =
  trapall_stock (fst (run Rtrapall_step s xs)) +
  outflows (fun _ o => o) xs (snd (run Rtrapall_step s xs)).
Proof.
  apply (run_budget Rtrapall_step trapall_stock (fun x => x) (fun _ o => o)).
  intros s x; apply trapall_step_rate_identity.
Qed.

Lemma trapall_final_state xs s : xs <> [] -> fst (run Rtrapall_step s xs) = None.
Proof.
  destruct xs as [|x r]; [congruence|]. intros _. cbn.
  destruct (Rtrapall_step s x) as [s1 o] eqn:E.
  assert (s1 = None) by (destruct s; cbn in E; congruence). subst s1.
  clear E. revert o. induction r as [|y r IH]; intros o; cbn; [reflexivity|].
  specialize (IH y). destruct (run Rtrapall_step None r) as [s2 os] eqn:E2. cbn in *. assumption.
Qed.

Lemma trapall_nonneg : forall xs s,
  0 <= trapall_stock s -> Forall (fun x => 0 <= x) xs ->
  Forall (fun o => 0 <= o) (snd (run Rtrapall_step s xs)).
Proof.
  induction xs as [|x r IH]; intros s Hs Hx; cbn; [constructor|].
  inversion Hx; subst.
  destruct (Rtrapall_step s x) as [s1 o] eqn:E.
  specialize (IH s1). destruct (run Rtrapall_step s1 r) as [s2 os]. cbn in *.
  constructor.
  - destruct s; cbn in E; runfold; injection E as <- <-; cbn in Hs; lra.
  - apply IH; [|assumption]. destruct s; cbn in E; injection E as <- <-; cbn; lra.
Qed.

(** The mass budget with a step of dt seconds:
      stored + sum (inflowMass * dt) = stored' + sum trappedMass (kg as declared) + sum outflowMass*dt
    is violated for every dt <> 1, by one step with 1 kg/s entering an empty store. *)
Theorem trap_all_budget_refuted : forall dt, dt <> 1 ->
  exists (m0 : R) (xs : list R), 0 <= m0 /\ Forall (fun x => 0 <= x) xs /\
    exists outs st,
      @storage_trap_all_kernel R RArith [] [m0] [xs; xs; xs; xs] = Some (outs, [st]) /\
      m0 + Rsum (map (fun x => x * dt) xs) <>
      st + Rsum (nth 0 outs []) + Rsum (map (fun o => o * dt) (nth 1 outs [])).
Proof.
  intros dt Hdt. exists 0, [1]. split; [lra|]. split; [repeat constructor; lra|].
  eexists _, _. split; [reflexivity|]. cbn. runfold. lra.
Qed.

Lemma trapall_kernel_unfold (m0 : R) (xs b c d : list R) :
  @storage_trap_all_kernel R RArith [] [m0] [xs; b; c; d] =
  let rr := run Rtrapall_step (Some m0) xs in
  Some ([snd rr; zeros (snd rr)], [@trapall_pack R RArith (fst rr)]).
Proof.
  unfold storage_trap_all_kernel. destruct (run _ _ _); reflexivity.
Qed.

(** the packed state is the stock of the machine state: the kernel's final state is
    what the rate identity calls the stock left *)
Lemma trapall_pack_is_stock s : @trapall_pack R RArith s = trapall_stock s.
Proof. destruct s; reflexivity. Qed.

(** an empty series: no output, the stored mass is carried unchanged (fix b73cc97) *)
Lemma trapall_kernel_empty (m0 : R) (b c d : list R) :
  @storage_trap_all_kernel R RArith [] [m0] [[]; b; c; d] = Some ([[]; []], [m0]).
Proof. reflexivity. Qed.

(** after a non-empty run nothing is left in store *)
Lemma trapall_kernel_nonempty_state (m0 x : R) (r b c d : list R) :
  exists outs, @storage_trap_all_kernel R RArith [] [m0] [x :: r; b; c; d] = Some (outs, [0]).
Proof.
  rewrite trapall_kernel_unfold. cbv zeta. rewrite trapall_final_state by discriminate.
  eexists; reflexivity.
Qed.

Example trapall_example :
  @storage_trap_all_kernel R RArith [] [5] [[1; 2]; [0; 0]; [0; 0]; [0; 0]] = Some ([[1 + 5; 2]; [0; 0]], [0]).
Proof. reflexivity. Qed.
