(** Proofs about the SURM model (Kernels/Surm.v) at the real instance (C10):
    state invariant, non-negative outputs, per-step exact water budget with the
    losses (ET, deep seepage, impervious-area threshold loss) made explicit,
    whole-run and every-prefix cumulative forms, and a witness that the
    parameter bound smax >= 10 cannot be dropped. *)
From Coq Require Import Reals Lra Lia List Bool ZArith.
From OW Require Import Base.Arith Base.RInst Base.Mealy Kernels.Surm KernelProofs.RRCommon.
Import ListNotations.
Local Open Scope R_scope.

Definition surm_ok (p : surm_par (T:=R)) : bool :=
  Rleb 0 (su_bfac p) && Rleb (su_bfac p) 1 && Rleb 0 (su_coeff p) &&
  Rleb 0 (su_dseep p) && Rleb (su_dseep p) 1 && Rleb 0 (su_fcFrac p) && Rleb (su_fcFrac p) 1 &&
  Rleb 0 (su_fimp p) && Rleb (su_fimp p) 1 && Rleb 0 (su_rfac p) && Rleb (su_rfac p) 1 &&
  Rleb 10 (su_smax p) && Rleb 0 (su_thres p).
(* sq is unconstrained *)

Definition surm_inv (p : surm_par (T:=R)) (st : surm_st (T:=R)) : Prop :=
  0 <= su_sms st <= su_smax p /\ 0 <= su_gw st.

Definition surm_stock (p : surm_par (T:=R)) (st : surm_st (T:=R)) : R :=
  (1 - su_fimp p) * (su_sms st + su_gw st).

Definition surm_out_ok (o : surm_out (T:=R)) : Prop :=
  0 <= su_runoff o /\ 0 <= su_quickflow o /\ 0 <= su_baseflow o /\ 0 <= su_store o /\
  su_runoff o = su_quickflow o + su_baseflow o.

(** the parameter ranges as real inequalities *)
Lemma surm_ok_spec p : surm_ok p = true ->
  0 <= su_bfac p <= 1 /\ 0 <= su_coeff p /\ 0 <= su_dseep p <= 1 /\
  0 <= su_fcFrac p <= 1 /\ 0 <= su_fimp p <= 1 /\ 0 <= su_rfac p <= 1 /\
  10 <= su_smax p /\ 0 <= su_thres p.
Proof.
  unfold surm_ok. intros H.
  repeat (apply andb_prop in H; let H2 := fresh "H" in destruct H as [H H2]).
  repeat match goal with
         | X : Rleb _ _ = true |- _ => apply Rleb_true in X
         end.
  repeat split; assumption.
Qed.

(** Everything about one step at once.  The loss term is
    [fimp * (rain - imperviousRunoff) + fperv * (et + seep)]. *)
Lemma surm_step_facts : forall p st io, surm_ok p = true -> surm_inv p st ->
  0 <= fst io -> 0 <= snd io ->
  surm_inv p (fst (surm_step p st io)) /\
  surm_out_ok (snd (surm_step p st io)) /\
  su_total (fst (surm_step p st io)) =
    su_sms (fst (surm_step p st io)) + su_gw (fst (surm_step p st io)) /\
  su_store (snd (surm_step p st io)) = su_total (fst (surm_step p st io)) /\
  exists loss, 0 <= loss /\
    fst io + surm_stock p st =
    su_runoff (snd (surm_step p st io)) + loss + surm_stock p (fst (surm_step p st io)).
Proof.
  intros p st [rain pet] Hok [[Hs0 Hs1] Hg] Hr Hp. cbn [fst snd] in Hr, Hp.
  destruct (surm_ok_spec p Hok) as
    ([Hbc0 Hbc1] & Hco & [Hds0 Hds1] & [Hfc0 Hfc1] & [Hfi0 Hfi1] & [Hrf0 Hrf1] & Hsmax & Hth).
  unfold surm_step, surm_inv, surm_out_ok, surm_stock, gtb.
  cbn [zero one add sub mul div neg ltb amin amax aexp of_Z RArith fst snd
       su_sms su_gw su_total su_runoff su_quickflow su_baseflow su_store].
  set (smax := su_smax p) in *. set (fimp := su_fimp p) in *.
  set (fperv := 1 - fimp).
  assert (Hfperv : 0 <= fperv <= 1) by (unfold fperv; lra).
  set (fc := su_fcFrac p * smax).
  assert (Hfc : 0 <= fc) by (unfold fc; apply Rmult_le_pos; lra).
  set (impR := Rmax (rain - su_thres p) 0).
  assert (HimpR : 0 <= impR <= rain).
  { unfold impR. split; [apply Rmax_r | apply Rmax_lub; lra]. }
  set (maxInf := su_coeff p * exp (- su_sq p * su_sms st / smax)).
  assert (HmaxInf : 0 <= maxInf).
  { unfold maxInf. apply Rmult_le_pos; [lra | left; apply exp_pos]. }
  set (inf := Rmin maxInf rain).
  assert (Hinf : 0 <= inf <= rain).
  { unfold inf. split; [apply Rmin_glb; lra | apply Rmin_r]. }
  set (sms1 := su_sms st + inf).
  set (M := Rmax (sms1 - smax) 0).
  set (sms2 := if Rltb smax sms1 then smax else sms1).
  assert (Hsms2 : 0 <= sms2 <= smax /\ sms2 = sms1 - M /\ 0 <= M).
  { unfold sms2, M. destruct (Rltb smax sms1) eqn:Hc.
    - apply Rltb_true in Hc. rewrite Rmax_left by lra. lra.
    - apply Rltb_false in Hc. rewrite Rmax_right by lra. unfold sms1 in *. lra. }
  destruct Hsms2 as ([Hs20 Hs21] & Hs2eq & HM).
  set (et := Rmax (Rmin (10 * sms2 / smax) pet) 0).
  assert (Het : 0 <= et <= sms2).
  { assert (Hfrac : 10 * sms2 / smax <= sms2).
    { assert (Hi : 0 < / smax) by (apply Rinv_0_lt_compat; lra).
      assert (Hone : smax * / smax = 1) by (field; lra).
      unfold Rdiv. nra. }
    unfold et. split; [apply Rmax_r |].
    apply Rmax_lub; [| lra]. eapply Rle_trans; [apply Rmin_l | exact Hfrac]. }
  set (sms3 := sms2 - et).
  set (X := Rmax (sms3 - fc) 0).
  assert (HX : 0 <= X <= sms3).
  { unfold X. split; [apply Rmax_r | apply Rmax_lub; unfold sms3; lra]. }
  set (rech := su_rfac p * X).
  assert (Hrech : 0 <= rech <= sms3) by (unfold rech; nra).
  set (gw1 := su_gw st + rech).
  set (seep := su_dseep p * gw1).
  assert (Hseep : 0 <= seep <= gw1) by (unfold seep, gw1 in *; nra).
  set (gw2 := Rmax (gw1 - seep) 0).
  assert (Hgw2 : gw2 = gw1 - seep) by (unfold gw2; apply Rmax_left; lra).
  set (bf0 := su_bfac p * gw2).
  assert (Hbf0 : 0 <= bf0 <= gw2) by (unfold bf0; rewrite Hgw2; nra).
  set (gw3 := Rmax (gw2 - bf0) 0).
  assert (Hgw3 : gw3 = gw2 - bf0) by (unfold gw3; apply Rmax_left; lra).
  assert (H1 : 0 <= impR * fimp) by (apply Rmult_le_pos; lra).
  assert (H2 : 0 <= fperv * (rain - inf)) by (apply Rmult_le_pos; lra).
  assert (H3 : 0 <= M * fperv) by (apply Rmult_le_pos; lra).
  assert (H4 : 0 <= bf0 * fperv) by (apply Rmult_le_pos; lra).
  split; [| split; [| split; [| split]]].
  - unfold sms3 in *. lra.
  - repeat split; unfold sms3 in *; lra.
  - reflexivity.
  - reflexivity.
  - exists (fimp * (rain - impR) + fperv * (et + seep)). split.
    + assert (0 <= fimp * (rain - impR)) by (apply Rmult_le_pos; lra).
      assert (0 <= fperv * (et + seep)) by (apply Rmult_le_pos; lra).
      lra.
    + rewrite Hgw3, Hgw2. unfold gw1, sms3. rewrite Hs2eq. unfold sms1, fperv. ring.
Qed.

Theorem surm_step_budget : forall p st io, surm_ok p = true -> surm_inv p st ->
  0 <= fst io -> 0 <= snd io ->
  exists loss, 0 <= loss /\   (* ET + deep seepage + impervious-area threshold loss *)
    fst io + surm_stock p st =
    su_runoff (snd (surm_step p st io)) + loss + surm_stock p (fst (surm_step p st io)).
Proof.
  intros p st io Hok Hinv Hr Hp.
  exact (proj2 (proj2 (proj2 (proj2 (surm_step_facts p st io Hok Hinv Hr Hp))))).
Qed.

(** su_total of the new state, and the reported store, equal sms' + gw' *)
Lemma surm_total_store : forall p st io,
  su_total (fst (surm_step p st io)) =
    su_sms (fst (surm_step p st io)) + su_gw (fst (surm_step p st io)) /\
  su_store (snd (surm_step p st io)) = su_total (fst (surm_step p st io)).
Proof. intros p st [rain pet]. split; reflexivity. Qed.

Lemma surm_step_inv : forall p st io, surm_ok p = true -> surm_inv p st ->
  0 <= fst io /\ 0 <= snd io -> surm_inv p (fst (surm_step p st io)).
Proof. intros p st io Hok Hinv [Hr Hp]. exact (proj1 (surm_step_facts p st io Hok Hinv Hr Hp)). Qed.

Lemma surm_step_le : forall p st io, surm_ok p = true -> surm_inv p st ->
  0 <= fst io /\ 0 <= snd io ->
  surm_stock p (fst (surm_step p st io)) + su_runoff (snd (surm_step p st io))
  <= surm_stock p st + fst io.
Proof.
  intros p st io Hok Hinv [Hr Hp].
  destruct (surm_step_budget p st io Hok Hinv Hr Hp) as (loss & Hl & Heq). lra.
Qed.

Lemma surm_stock_nonneg : forall p st, surm_ok p = true -> surm_inv p st -> 0 <= surm_stock p st.
Proof.
  intros p st Hok [[Hs0 Hs1] Hg].
  destruct (surm_ok_spec p Hok) as (_ & _ & _ & _ & [_ Hfi1] & _).
  unfold surm_stock. apply Rmult_le_pos; lra.
Qed.

Theorem surm_c10 : forall p st io, surm_ok p = true -> surm_inv p st -> io_nonneg io ->
  surm_inv p (fst (surm_run p st io)) /\
  Forall surm_out_ok (snd (surm_run p st io)) /\
  rr_sum (map su_runoff (snd (surm_run p st io))) + surm_stock p (fst (surm_run p st io))
    <= rr_sum (map fst io) + surm_stock p st /\
  (forall t, rr_sum (firstn t (map su_runoff (snd (surm_run p st io))))
             <= rr_sum (firstn t (map fst io)) + surm_stock p st).
Proof.
  intros p st io Hok Hinv Hio. unfold surm_run, io_nonneg in *.
  pose proof (run_inv_forall (surm_step p) (surm_inv p)
                (fun x : R * R => 0 <= fst x /\ 0 <= snd x) surm_out_ok) as HA.
  destruct (HA (fun s x Hs Hx =>
                  conj (surm_step_inv p s x Hok Hs Hx)
                       (proj1 (proj2 (surm_step_facts p s x Hok Hs (proj1 Hx) (proj2 Hx)))))
               io st Hinv Hio) as [Hfin Hall].
  split; [exact Hfin|]. split; [exact Hall|]. split.
  - pose proof (run_budget_le (surm_step p) (surm_inv p)
                  (fun x : R * R => 0 <= fst x /\ 0 <= snd x)
                  (surm_stock p) fst su_runoff
                  (fun s x Hs Hx => surm_step_inv p s x Hok Hs Hx)
                  (fun s x Hs Hx => surm_step_le p s x Hok Hs Hx)
                  io st Hinv Hio) as HB.
    lra.
  - intros t.
    exact (run_cumulative_le (surm_step p) (surm_inv p)
             (fun x : R * R => 0 <= fst x /\ 0 <= snd x)
             (surm_stock p) fst su_runoff
             (fun s Hs => surm_stock_nonneg p s Hok Hs)
             (fun s x Hs Hx => surm_step_inv p s x Hok Hs Hx)
             (fun s x Hs Hx => surm_step_le p s x Hok Hs Hx)
             io st t Hinv Hio).
Qed.

Example surm_ok_satisfiable : exists p, surm_ok p = true.
Proof.
  exists {| su_bfac := 1/10; su_coeff := 100; su_dseep := 1/100; su_fcFrac := 1/2;
            su_fimp := 1/10; su_rfac := 1/5; su_smax := 200; su_sq := 2; su_thres := 1 |}.
  unfold surm_ok. cbn [su_bfac su_coeff su_dseep su_fcFrac su_fimp su_rfac su_smax su_thres].
  repeat (apply andb_true_intro; split); apply Rleb_true; lra.
Qed.

(* the bound smax >= 10 is needed: with smax < 10 the ET term min(10*S/smax, pet) can exceed S,
   and the soil moisture store goes negative (smax = 5, S = 5, no rain, pet = 10: S' = -5) *)
Theorem surm_smax_bound_needed : exists p st io,
  0 <= su_bfac p <= 1 /\ 0 <= su_coeff p /\ 0 <= su_dseep p <= 1 /\ 0 <= su_fcFrac p <= 1 /\
  0 <= su_fimp p <= 1 /\ 0 <= su_rfac p <= 1 /\ 0 < su_smax p < 10 /\ 0 <= su_thres p /\
  surm_inv p st /\ 0 <= fst io /\ 0 <= snd io /\ su_sms (fst (surm_step p st io)) < 0.
Proof.
  exists {| su_bfac := 0; su_coeff := 0; su_dseep := 0; su_fcFrac := 0;
            su_fimp := 0; su_rfac := 0; su_smax := 5; su_sq := 0; su_thres := 0 |}.
  exists {| su_sms := 5; su_gw := 0; su_total := 5 |}.
  exists (0, 10).
  unfold surm_inv, surm_step, gtb.
  cbn [zero one add sub mul div neg ltb amin amax aexp of_Z RArith fst snd
       su_bfac su_coeff su_dseep su_fcFrac su_fimp su_rfac su_smax su_sq su_thres
       su_sms su_gw su_total].
  repeat (split; [lra|]).
  rewrite !Rmult_0_l. rewrite (Rmin_left 0 0) by lra. rewrite Rplus_0_r.
  assert (Hc : Rltb 5 5 = false) by (apply Rltb_false; lra).
  rewrite Hc.
  replace (10 * 5 / 5) with 10 by field.
  rewrite (Rmin_left 10 10) by lra. rewrite (Rmax_left 10 0) by lra.
  lra.
Qed.
