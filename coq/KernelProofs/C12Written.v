(** The write footprint of Kernels/C12Written.v agrees with the kernels: wherever
    the footprint says "not (always) written" (0), the kernel's output element is
    the 0.0 of a zero-initialised output array -- i.e. the kernels model exactly
    the contract "outputs arrive zeroed" on those elements and nothing else.
    (For the decay-enabled InstreamDissolvedNutrientDecay loop, which is outside
    C12, the footprint is only a lower bound and no such statement is made.) *)
From Coq Require Import ZArith Reals Lra List.
From OW Require Import Base.Arith Base.RInst Base.Mealy KernelProofs.Budget.
From OW Require Import Kernels.C12Common Kernels.LumpedConstituent Kernels.Decay Kernels.InstreamFineSediment
  Kernels.InstreamCoarseSediment Kernels.InstreamParticulateNutrient Kernels.SedimentTrapping
  Kernels.TrapAll Kernels.DissolvedDecay Kernels.InstreamDissolvedNutrient Kernels.C12Written.
From OW Require Import KernelProofs.LumpedConstituent KernelProofs.Decay KernelProofs.InstreamFineSediment
  KernelProofs.InstreamCoarseSediment KernelProofs.InstreamParticulateNutrient KernelProofs.SedimentTrapping
  KernelProofs.TrapAll KernelProofs.DissolvedDecay KernelProofs.InstreamDissolvedNutrient.
Import ListNotations.
Local Open Scope R_scope.

(** [respects mask outs]: same shape, and an element whose footprint is 0 has value 0 *)
Definition respects (mask outs : list (list R)) : Prop :=
  Forall2 (Forall2 (fun m v => m = 0 -> v = 0)) mask outs.

Lemma F2_ones {X Y : Type} (xs : list X) (os : list Y) (f : Y -> R) :
  length os = length xs -> Forall2 (fun m v => m = 0 -> v = 0) (@ones R RArith X xs) (map f os).
Proof.
  revert os; induction xs as [|x xs IH]; intros [|o os] H; cbn in *; try discriminate; constructor.
  - runfold. intros; lra.
  - apply IH. congruence.
Qed.
Lemma F2_zeros {X Y : Type} (xs : list X) (os : list Y) :
  length os = length xs -> Forall2 (fun m v => m = 0 -> v = 0) (@zeros R RArith X xs) (@zeros R RArith Y os).
Proof.
  revert os; induction xs as [|x xs IH]; intros [|o os] H; cbn in *; try discriminate; constructor.
  - reflexivity.
  - apply IH. congruence.
Qed.
Lemma F2_ones_id {X : Type} (xs : list X) (os : list R) :
  length os = length xs -> Forall2 (fun m v => m = 0 -> v = 0) (@ones R RArith X xs) os.
Proof. intros H. rewrite <- (map_id os). apply F2_ones. exact H. Qed.

Ltac shape := repeat (first [apply F2_ones | apply F2_zeros | apply F2_ones_id]; try apply run_length).

Theorem lumped_footprint (w p dt s : R) (a b c d : list R) outs st mask st' :
  @lumped_constituent_routing_kernel R RArith [w; p; dt] [s] [a; b; c; d] = Some (outs, st) ->
  @lumped_constituent_routing_written R RArith [w; p; dt] [s] [a; b; c; d] = Some (mask, st') ->
  respects mask outs.
Proof.
  rewrite lumped_kernel_unfold. cbv zeta. intros H1 H2. injection H1 as <- _. injection H2 as <- _.
  repeat constructor; shape.
Qed.

(** ConstituentDecay: without a positive half-life the decayed load is never written, and is 0 in the model *)
Lemma decay_step_unwritten h dt s x : ~ 0 < h -> do_decayedLoad (snd (@decay_step R RArith h dt s x)) = 0.
Proof.
  intros Hh. unfold decay_step. runfold.
  rcase_bool (Rltb 0 h); [contradiction|].
  rcase_bool (Rltb (di_outflow x * dt + di_storage x) (@DECAY_MINIMUM_VOLUME R RArith)); reflexivity.
Qed.
Lemma decay_run_unwritten h dt : ~ 0 < h -> forall xs s,
  map do_decayedLoad (snd (run (@decay_step R RArith h dt) s xs)) = @zeros R RArith _ xs.
Proof.
  intros Hh xs; induction xs as [|x r IH]; intros s; cbn; [reflexivity|].
  pose proof (decay_step_unwritten h dt s x Hh) as E.
  destruct (decay_step h dt s x) as [s1 o]. specialize (IH s1).
  destruct (run (decay_step h dt) s1 r) as [s2 os]. cbn in *. now rewrite E, IH.
Qed.

Theorem decay_footprint (w h dt s : R) (a b c d e : list R) outs st mask st' :
  @constituent_decay_kernel R RArith [w; h; dt] [s] [a; b; c; d; e] = Some (outs, st) ->
  @constituent_decay_written R RArith [w; h; dt] [s] [a; b; c; d; e] = Some (mask, st') ->
  respects mask outs.
Proof.
  rewrite decay_kernel_unfold. cbv zeta. intros H1 H2. injection H1 as <- _.
  unfold constituent_decay_written in H2. runfold. injection H2 as <- _.
  repeat constructor; [|shape].
  rcase_bool (Rltb 0 h); [shape|].
  rewrite decay_run_unwritten by lra.
  clear. induction (decay_rows a b c d e); cbn; constructor; auto.
Qed.

Theorem fine_footprint (bff vf fpa lw ll ls bh pbh sbd mn vs vr dt c m : R) (a b l v q : list R) outs st mask st' :
  @instream_fine_sediment_kernel R RArith [bff; vf; fpa; lw; ll; ls; bh; pbh; sbd; mn; vs; vr; dt] [c; m] [a; b; l; v; q] = Some (outs, st) ->
  @instream_fine_sediment_written R RArith [bff; vf; fpa; lw; ll; ls; bh; pbh; sbd; mn; vs; vr; dt] [c; m] [a; b; l; v; q] = Some (mask, st') ->
  respects mask outs.
Proof.
  unfold instream_fine_sediment_written, FS_BANKFULL_EPS. runfold.
  destruct (Rle_dec bff (1 / 100000000)) as [Hb|Hb].
  - rewrite fine_kernel_unfold_lowbank by exact Hb. cbv zeta.
    assert (E : Rleb bff (1 / 100000000) = true) by (apply Rleb_true; exact Hb). rewrite E.
    intros H1 H2. injection H1 as <- _. injection H2 as <- _. repeat constructor; shape.
  - rewrite fine_kernel_unfold_main by lra. cbv zeta.
    assert (E : Rleb bff (1 / 100000000) = false) by (apply Rleb_false; lra). rewrite E.
    intros H1 H2. injection H1 as <- _. injection H2 as <- _. repeat constructor; shape.
Qed.

Theorem coarse_footprint (dt c m : R) (a b d : list R) outs st mask st' :
  @instream_coarse_sediment_kernel R RArith [dt] [c; m] [a; b; d] = Some (outs, st) ->
  @instream_coarse_sediment_written R RArith [dt] [c; m] [a; b; d] = Some (mask, st') ->
  respects mask outs.
Proof.
  rewrite coarse_kernel_unfold. cbv zeta. intros H1 H2. injection H1 as <- _. injection H2 as <- _.
  repeat constructor; shape.
Qed.

(** InstreamParticulateNutrient: on a flushed step loadDeposited is not written, and is 0 in the model *)
Lemma pn_step_unwritten pnc spf dt s x :
  @pn_deposited_written R RArith dt x = 0 -> po_loadDeposited (snd (@pn_step R RArith pnc spf dt s x)) = 0.
Proof.
  destruct s as [i c]. unfold pn_deposited_written, pn_step, pn_working_vol. runfold.
  destruct (Rleb 0 (pi_channelDepositionFraction x));
  destruct (Rltb (pi_outflow x * dt + pi_reachVolume x) (@MINIMUM_VOLUME R RArith)); cbn; intros; try reflexivity; lra.
Qed.
Lemma pn_run_unwritten pnc spf dt : forall xs s,
  Forall2 (fun m v => m = 0 -> v = 0) (map (@pn_deposited_written R RArith dt) xs)
          (map po_loadDeposited (snd (run (@pn_step R RArith pnc spf dt) s xs))).
Proof.
  induction xs as [|x r IH]; intros s; cbn; [constructor|].
  pose proof (pn_step_unwritten pnc spf dt s x) as E.
  destruct (pn_step pnc spf dt s x) as [s1 o]. specialize (IH s1).
  destruct (run (pn_step pnc spf dt) s1 r) as [s2 os]. cbn in *. constructor; assumption.
Qed.

Theorem particulate_footprint (pnc spf dt i c : R) (a b c0 d e f g h : list R) outs st mask st' :
  @instream_particulate_nutrient_kernel R RArith [pnc; spf; dt] [i; c] [a; b; c0; d; e; f; g; h] = Some (outs, st) ->
  @instream_particulate_nutrient_written R RArith [pnc; spf; dt] [i; c] [a; b; c0; d; e; f; g; h] = Some (mask, st') ->
  respects mask outs.
Proof.
  rewrite pn_kernel_unfold. cbv zeta. intros H1 H2. injection H1 as <- _. injection H2 as <- _.
  repeat constructor; [apply pn_run_unwritten| | |]; shape.
Qed.

Theorem trapping_footprint (dt cap len sub mult ldf ldp s : R) (a b c d : list R) outs st mask st' :
  @storage_particulate_trapping_kernel R RArith [dt; cap; len; sub; mult; ldf; ldp] [s] [a; b; c; d] = Some (outs, st) ->
  @storage_particulate_trapping_written R RArith [dt; cap; len; sub; mult; ldf; ldp] [s] [a; b; c; d] = Some (mask, st') ->
  respects mask outs.
Proof.
  rewrite trap_kernel_unfold. cbv zeta. intros H1 H2. injection H1 as <- _. injection H2 as <- _.
  repeat constructor; shape.
Qed.

Theorem trapall_footprint (m0 : R) (xs b c d : list R) outs st mask st' :
  @storage_trap_all_kernel R RArith [] [m0] [xs; b; c; d] = Some (outs, st) ->
  @storage_trap_all_written R RArith [] [m0] [xs; b; c; d] = Some (mask, st') ->
  respects mask outs.
Proof.
  rewrite trapall_kernel_unfold. cbv zeta. intros H1 H2. injection H1 as <- _. injection H2 as <- _.
  repeat constructor; shape.
Qed.

(** StorageDissolvedDecay, decay disabled (the model of C12) *)
Theorem dissolved_nodecay_footprint (dt flag ari bff mfrt s : R) (a b c d : list R) outs st mask st' :
  flag < 1 / 2 ->
  @storage_dissolved_decay_kernel R RArith [dt; flag; ari; bff; mfrt] [s] [a; b; c; d] = Some (outs, st) ->
  @storage_dissolved_decay_written R RArith [dt; flag; ari; bff; mfrt] [s] [a; b; c; d] = Some (mask, st') ->
  respects mask outs.
Proof.
  intros Hf. rewrite dissolved_kernel_unfold by exact Hf. cbv zeta.
  unfold storage_dissolved_decay_written. runfold.
  assert (E : Rltb flag (1 / 2) = true) by (apply Rltb_true; exact Hf). rewrite E.
  intros H1 H2. injection H1 as <- _. injection H2 as <- _.
  unfold dissolved_nodecay, lumped_transport. repeat constructor; shape.
Qed.

(** InstreamDissolvedNutrientDecay, decay disabled *)
Theorem dissolved_nutrient_nodecay_footprint (flag psl lh lw ll uv dt s : R) (up lat vol q fpf : list R) outs st mask st' :
  flag < 1 / 2 ->
  @instream_dissolved_nutrient_decay_kernel R RArith [flag; psl; lh; lw; ll; uv; dt] [s] [up; lat; vol; q; fpf] = Some (outs, st) ->
  @instream_dissolved_nutrient_decay_written R RArith [flag; psl; lh; lw; ll; uv; dt] [s] [up; lat; vol; q; fpf] = Some (mask, st') ->
  respects mask outs.
Proof.
  intros Hf. rewrite dn_kernel_nodecay_is_lumped by exact Hf. cbv zeta.
  unfold instream_dissolved_nutrient_decay_written. runfold.
  assert (E : Rltb flag (1 / 2) = true) by (apply Rltb_true; exact Hf). rewrite E.
  intros H1 H2. injection H1 as <- _. injection H2 as <- _.
  repeat constructor; shape.
Qed.
