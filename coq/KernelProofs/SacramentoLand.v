(** Land phase of the Sacramento model (Kernels/Sacramento.v, REPAIRED code: ratio >= 0, fracp <= 1,
    adimc capped at uztwm+lztwm, and the ADIMP evaporation e5 clamped at 0): store invariant and water
    budgets.  Remaining hypothesis besides sac_ok / the invariant of the initial state / non-negative
    forcing: the forcing bound  pet <= uztwm + lztwm  ([pet_bounded]; needed for the upper bound
    adimc - uztwc <= lztwm after the ADIMP evaporation).
    Main results: [sac_inc_inv] (one iteration), [sac_pass_inv], [sac_loop_inv], [sac_pre_inv],
    [sac_land_inv] (invariant + pervious and ADIMP water budgets of the land phase), [sac_step_inv],
    [sacramento_c10] (run level). *)
From Coq Require Import Reals Lra Lia List Bool ZArith Psatz.
From OW Require Import Base.Arith Base.RInst Base.Mealy Kernels.Sacramento KernelProofs.RRCommon KernelProofs.Sacramento.
Import ListNotations.
Local Open Scope R_scope.

(** * Decomposition of one loop iteration [sac_inc] into blocks *)
Definition sMs (p : sac_par (T:=R)) : R := lzfsm p * (1 + side p).
Definition sMp (p : sac_par (T:=R)) : R := lzfpm p * (1 + side p).

Definition blk_perc (p : sac_par (T:=R)) (dinc u t P1 S1 : R) : R * R :=
  let pbase := sMs p * lzsk p + sMp p * lzpk p in
  let lzair := lztwm p - t + sMs p - S1 + sMp p - P1 in
  if Rltb 0 lzair then
    let perc0 := (pbase * dinc * u) / uzfwm p in
    let perc1 := Rmin lzair (Rmin u (perc0 * (1 + (zperc p *
                   Rpow (1 - (P1 + S1 + t) / (sMp p + sMs p + lztwm p)) (rexp p))))) in
    (perc1, u - perc1)
  else (0, u).

Definition blk_split (p : sac_par (T:=R)) (t perc P1 S1 : R) : R * R :=
  let perctw0 := Rmin (perc * (1 - pfree p)) (lztwm p - t) in
  let percfw0 := perc - perctw0 in
  let lzair2 := sMs p - S1 + sMp p - P1 in
  if Rltb lzair2 percfw0 then (perctw0 + percfw0 - lzair2, lzair2) else (perctw0, percfw0).

Definition blk_fw (p : sac_par (T:=R)) (percfw P1 S1 : R) : R * R :=
  if Rltb 0 percfw then
    let hpl := sMp p / (sMp p + sMs p) in
    let ratlp := 1 - P1 / sMp p in
    let ratls := 1 - S1 / sMs p in
    let fracp0 := hpl * (ratlp + ratlp) / (ratlp + ratls) in
    let fracp := if Rltb 1 fracp0 then 1 else fracp0 in
    let percs0 := Rmin (sMs p - S1) (percfw * (1 - fracp)) in
    let a := S1 + percs0 in
    let '(percs, b) := if Rltb (sMs p) a then (percs0 - a + sMs p, sMs p) else (percs0, a) in
    let pa := P1 + percfw - percs in
    if Rltb (sMp p) pa then (b + pa - sMp p, sMp p) else (b, pa)
  else (S1, P1).

Definition blk_upper (p : sac_par (T:=R)) (c : sac_pass_c (T:=R)) (v : sac_inner (T:=R)) (P1 S1 : R)
  : R * R * R * R * R :=
  if Rltb 0 (i_uzfwc v) then
    let '(perc, uzfwc1) := blk_perc p (c_dinc c) (i_uzfwc v) (i_lztwc v) P1 S1 in
    let del := c_duz c * uzfwc1 in
    let '(perctw, percfw) := blk_split p (i_lztwc v) perc P1 S1 in
    let '(alzfsc2, alzfpc2) := blk_fw p percfw P1 S1 in
    (uzfwc1 - del, i_floin v + del, i_lztwc v + perctw, alzfsc2, alzfpc2)
  else (i_uzfwc v, i_floin v, i_lztwc v, S1, P1).

Definition blk_fill (p : sac_par (T:=R)) (pinc addro flosf u3 : R) : R * R * R :=
  if Rltb 0 pinc then
    if Rleb (pinc - uzfwm p + u3) 0 then (u3 + pinc, flosf, addro)
    else (uzfwm p, flosf + (pinc - uzfwm p + u3), addro + (pinc - uzfwm p + u3) * (1 - addro / pinc))
  else (u3, flosf, addro).

(** cap of the additional impervious store at uztwm + lztwm *)
Definition blk_cap (p : sac_par (T:=R)) (adimc_a addro4 : R) : R * R :=
  if Rltb (uztwm p + lztwm p) adimc_a
  then (addro4 + adimc_a - (uztwm p + lztwm p), uztwm p + lztwm p)
  else (addro4, adimc_a).

Definition blk_drain (x k : R) : R * R := if Rltb 0 x then (x, x * k) else (0, 0).

Lemma sac_inc_blocks p uztwc_ c v :
  sac_inc p uztwc_ c v =
  let pinc := c_pinc c in
  let ratio0 := (i_adimc v - uztwc_) / lztwm p in
  let ratio := if Rltb ratio0 0 then 0 else ratio0 in
  let addro := pinc * ratio * ratio in
  let '(P0, bf1) := blk_drain (i_alzfpc v) (c_dlzp c) in
  let '(S0, bf2) := blk_drain (i_alzfsc v) (c_dlzs c) in
  let '(u3, floin3, t3, S3, P3) := blk_upper p c v (P0 - bf1) (S0 - bf2) in
  let '(u4, flosf4, addro4) := blk_fill p pinc addro (i_flosf v) u3 in
  let '(addro5, adimc_b) := blk_cap p (i_adimc v + pinc - addro4) addro4 in
  {| i_adimc := adimc_b;
     i_alzfpc := P3; i_alzfsc := S3; i_flobf := i_flobf v + bf1 + bf2; i_uzfwc := u4;
     i_floin := floin3; i_lztwc := t3; i_flosf := flosf4;
     i_roimp := i_roimp v + addro5 * adimp p |}.
Proof. reflexivity. Qed.

(** * Block specifications *)
Lemma Rpow_nonneg x y : 0 <= Rpow x y.
Proof.
  unfold Rpow. destruct (Req_EM_T y 0); [lra|]. destruct (Req_EM_T x 0); [lra|].
  unfold Rpower. left. apply exp_pos.
Qed.

Lemma div_unit n d : 0 <= n <= d -> 0 < d -> 0 <= n / d <= 1.
Proof.
  intros [H1 H2] Hd. split.
  - apply Rdiv_pos_pos; assumption.
  - apply Rmult_le_reg_r with d; [assumption|]. unfold Rdiv. rewrite Rmult_assoc, Rinv_l by lra. lra.
Qed.

(** facts about p that follow from [sac_ok] *)
Record par_facts (p : sac_par (T:=R)) : Prop := {
  pf_Ms : 1 <= sMs p; pf_Mp : 1 <= sMp p; pf_Tm : 1 <= lztwm p; pf_Um : 1 <= uzfwm p;
  pf_lzsk : 0 <= lzsk p <= 1; pf_lzpk : 0 <= lzpk p <= 1; pf_pfree : 0 <= pfree p <= 1;
  pf_zperc : 0 <= zperc p; pf_adimp : 0 <= adimp p; pf_side : 0 <= side p }.

Lemma sac_ok_facts p : sac_ok p = true -> par_facts p.
Proof.
  intros H. sac_ok_split H. unfold sMs, sMp.
  constructor; unfold sMs, sMp; repeat split; try lra; nra.
Qed.

Lemma blk_drain_spec x k : 0 <= x -> blk_drain x k = (x, x * k).
Proof.
  intros Hx. unfold blk_drain. rcase_bool (Rltb 0 x); [reflexivity|].
  assert (x = 0) by lra. subst. f_equal. ring.
Qed.

Lemma blk_perc_spec p dinc u t P1 S1 perc u1 : par_facts p -> 0 <= dinc -> 0 <= u ->
  0 <= lztwm p - t + sMs p - S1 + sMp p - P1 ->
  blk_perc p dinc u t P1 S1 = (perc, u1) ->
  0 <= perc <= u /\ perc <= lztwm p - t + sMs p - S1 + sMp p - P1 /\ u1 = u - perc.
Proof.
  intros F Hd Hu Ha. destruct F. unfold blk_perc.
  set (lzair := lztwm p - t + sMs p - S1 + sMp p - P1) in *.
  rcase_bool (Rltb 0 lzair); intros E; injection E as <- <-; [|lra].
  set (x := _ * (1 + _)).
  assert (Hx : 0 <= x).
  { unfold x. apply Rmult_le_pos.
    - apply Rdiv_pos_pos; [|lra]. apply Rmult_le_pos; [apply Rmult_le_pos|]; try lra.
      assert (0 <= sMs p * lzsk p) by (apply Rmult_le_pos; lra).
      assert (0 <= sMp p * lzpk p) by (apply Rmult_le_pos; lra). lra.
    - pose proof (Rpow_nonneg (1 - (P1 + S1 + t) / (sMp p + sMs p + lztwm p)) (rexp p)) as Hp.
      pose proof (Rmult_le_pos _ _ pf_zperc0 Hp). lra. }
  assert (0 <= Rmin u x) by (apply Rmin_glb; lra).
  assert (Rmin u x <= u) by apply Rmin_l.
  assert (0 <= Rmin lzair (Rmin u x)) by (apply Rmin_glb; lra).
  pose proof (Rmin_l lzair (Rmin u x)). pose proof (Rmin_r lzair (Rmin u x)).
  repeat split; lra.
Qed.

Lemma blk_split_spec p t perc P1 S1 perctw percfw : par_facts p ->
  0 <= t <= lztwm p -> 0 <= sMs p - S1 + sMp p - P1 ->
  0 <= perc <= lztwm p - t + sMs p - S1 + sMp p - P1 ->
  blk_split p t perc P1 S1 = (perctw, percfw) ->
  perctw + percfw = perc /\ 0 <= percfw <= sMs p - S1 + sMp p - P1 /\ 0 <= perctw <= lztwm p - t.
Proof.
  intros F Ht Ha Hp. destruct F. unfold blk_split.
  set (tw0 := Rmin (perc * (1 - pfree p)) (lztwm p - t)).
  assert (H0 : 0 <= tw0) by (apply Rmin_glb; [apply Rmult_le_pos; lra | lra]).
  assert (H1 : tw0 <= perc).
  { eapply Rle_trans; [apply Rmin_l|]. assert (perc * pfree p >= 0) by nra. lra. }
  assert (H2 : tw0 <= lztwm p - t) by apply Rmin_r.
  rcase_bool (Rltb (sMs p - S1 + sMp p - P1) (perc - tw0)); intros E; injection E as <- <-;
    repeat split; lra.
Qed.

Lemma blk_fw_spec p percfw P1 S1 S2 P2 : par_facts p ->
  0 <= P1 <= sMp p -> 0 <= S1 <= sMs p -> 0 <= percfw <= sMs p - S1 + sMp p - P1 ->
  blk_fw p percfw P1 S1 = (S2, P2) ->
  S2 + P2 = S1 + P1 + percfw /\ 0 <= S2 <= sMs p /\ 0 <= P2 <= sMp p.
Proof.
  intros F HP HS Hf. destruct F. unfold blk_fw.
  rcase_bool (Rltb 0 percfw); [|intros E; injection E as <- <-; repeat split; lra].
  set (hpl := sMp p / (sMp p + sMs p)) in *.
  set (ratlp := 1 - P1 / sMp p) in *. set (ratls := 1 - S1 / sMs p) in *.
  assert (Hlp : 0 <= ratlp <= 1).
  { pose proof (div_unit P1 (sMp p) HP ltac:(lra)). unfold ratlp. lra. }
  assert (Hls : 0 <= ratls <= 1).
  { pose proof (div_unit S1 (sMs p) HS ltac:(lra)). unfold ratls. lra. }
  assert (Hhpl : 0 <= hpl) by (unfold hpl; apply Rdiv_pos_pos; lra).
  assert (Hsum : 0 < ratlp + ratls).
  { destruct (Rle_lt_dec (ratlp + ratls) 0) as [Hz|]; [|assumption]. exfalso.
    assert (ratlp = 0) by lra. assert (ratls = 0) by lra.
    assert (P1 = sMp p).
    { unfold ratlp in *. assert (E : P1 / sMp p = 1) by lra.
      apply (f_equal (fun z => z * sMp p)) in E. unfold Rdiv in E. rewrite Rmult_assoc, Rinv_l in E by lra. lra. }
    assert (S1 = sMs p).
    { unfold ratls in *. assert (E : S1 / sMs p = 1) by lra.
      apply (f_equal (fun z => z * sMs p)) in E. unfold Rdiv in E. rewrite Rmult_assoc, Rinv_l in E by lra. lra. }
    lra. }
  set (fr0 := hpl * (ratlp + ratlp) / (ratlp + ratls)).
  assert (Hfr0 : 0 <= fr0) by (unfold fr0; apply Rdiv_pos_pos; [apply Rmult_le_pos; lra | assumption]).
  set (fr := if Rltb 1 fr0 then 1 else fr0).
  assert (Hfr : 0 <= fr <= 1) by (unfold fr; rcase_bool (Rltb 1 fr0); lra).
  set (s0 := Rmin (sMs p - S1) (percfw * (1 - fr))).
  assert (Hs0 : 0 <= s0) by (apply Rmin_glb; [lra | apply Rmult_le_pos; lra]).
  assert (Hs1 : s0 <= sMs p - S1) by apply Rmin_l.
  assert (Hs2 : s0 <= percfw).
  { eapply Rle_trans; [apply Rmin_r|]. assert (0 <= percfw * fr) by (apply Rmult_le_pos; lra). lra. }
  rcase_bool (Rltb (sMs p) (S1 + s0)); [lra|].
  rcase_bool (Rltb (sMp p) (P1 + percfw - s0)); intros E; injection E as <- <-; repeat split; lra.
Qed.

Lemma blk_fill_spec p pinc addro flosf u3 u4 flosf4 addro4 : par_facts p ->
  0 <= pinc -> 0 <= addro <= pinc -> 0 <= u3 <= uzfwm p ->
  blk_fill p pinc addro flosf u3 = (u4, flosf4, addro4) ->
  0 <= u4 <= uzfwm p /\ flosf <= flosf4 /\ u4 + flosf4 = u3 + flosf + pinc /\ addro <= addro4 <= pinc.
Proof.
  intros F Hp Ha Hu. destruct F. unfold blk_fill.
  rcase_bool (Rltb 0 pinc); [|intros E; injection E as <- <- <-; repeat split; lra].
  rcase_bool (Rleb (pinc - uzfwm p + u3) 0); intros E; injection E as <- <- <-; [repeat split; lra|].
  set (pav := pinc - uzfwm p + u3) in *.
  pose proof (div_unit addro pinc Ha Hc) as Hq. set (q := addro / pinc) in *.
  assert (Eq : addro = q * pinc) by (unfold q; field; lra).
  assert (0 <= pav * (1 - q)) by (apply Rmult_le_pos; lra).
  assert (pav * (1 - q) <= pinc * (1 - q)) by (apply Rmult_le_compat_r; unfold pav; lra).
  repeat split; try lra. unfold pav. lra.
Qed.

Lemma blk_upper_spec p c v P1 S1 u3 fi3 t3 S3 P3 : par_facts p ->
  0 <= c_dinc c -> 0 <= c_duz c <= 1 ->
  0 <= i_uzfwc v <= uzfwm p -> 0 <= i_lztwc v <= lztwm p -> 0 <= P1 <= sMp p -> 0 <= S1 <= sMs p ->
  blk_upper p c v P1 S1 = (u3, fi3, t3, S3, P3) ->
  0 <= u3 <= i_uzfwc v /\ i_floin v <= fi3 /\ 0 <= t3 <= lztwm p /\ 0 <= S3 <= sMs p /\ 0 <= P3 <= sMp p /\
  u3 + fi3 + t3 + S3 + P3 = i_uzfwc v + i_floin v + i_lztwc v + S1 + P1.
Proof.
  intros F Hd Hz Hu Ht HP HS. unfold blk_upper.
  rcase_bool (Rltb 0 (i_uzfwc v)); [|intros E; injection E as <- <- <- <- <-; repeat split; lra].
  destruct (blk_perc p (c_dinc c) (i_uzfwc v) (i_lztwc v) P1 S1) as [perc u1] eqn:E1.
  apply blk_perc_spec in E1; [|assumption|assumption|lra|lra]. destruct E1 as (Hp1 & Hp2 & ->).
  destruct (blk_split p (i_lztwc v) perc P1 S1) as [perctw percfw] eqn:E2.
  apply blk_split_spec in E2; [|assumption|assumption|lra|lra]. destruct E2 as (Hs1 & Hs2 & Hs3).
  destruct (blk_fw p percfw P1 S1) as [S2 P2] eqn:E3.
  apply blk_fw_spec in E3; [|assumption|assumption|assumption|assumption].
  destruct E3 as (Hf1 & Hf2 & Hf3).
  intros E; injection E as <- <- <- <- <-.
  assert (0 <= c_duz c * (i_uzfwc v - perc)) by (apply Rmult_le_pos; lra).
  assert (c_duz c * (i_uzfwc v - perc) <= 1 * (i_uzfwc v - perc)) by (apply Rmult_le_compat_r; lra).
  repeat split; lra.
Qed.

Lemma blk_cap_spec p a ad4 ad5 b : blk_cap p a ad4 = (ad5, b) ->
  b + ad5 = a + ad4 /\ b <= uztwm p + lztwm p /\ b <= a /\ ad4 <= ad5 /\
  (a <= uztwm p + lztwm p -> b = a) /\ (uztwm p + lztwm p < a -> b = uztwm p + lztwm p).
Proof.
  unfold blk_cap. rcase_bool (Rltb (uztwm p + lztwm p) a); intros E; injection E as <- <-;
    repeat split; lra.
Qed.

(** * (A) one loop iteration: store invariant and water budgets *)
Record inc_inv (p : sac_par (T:=R)) (uztwc_ : R) (v : sac_inner (T:=R)) : Prop := {
  ii_uzfwc : 0 <= i_uzfwc v <= uzfwm p;
  ii_lztwc : 0 <= i_lztwc v <= lztwm p;
  ii_alzfpc : 0 <= i_alzfpc v <= lzfpm p * (1 + side p);
  ii_alzfsc : 0 <= i_alzfsc v <= lzfsm p * (1 + side p);
  ii_adimc : 0 <= i_adimc v <= uztwc_ + lztwm p;          (* ratio <= 1 *)
  ii_flobf : 0 <= i_flobf v; ii_floin : 0 <= i_floin v; ii_flosf : 0 <= i_flosf v;
  ii_roimp : 0 <= i_roimp v }.

(** rain enters the loop only when the upper tension store is full *)
Definition loop_u_ok (p : sac_par (T:=R)) (uztwc_ pav : R) : Prop :=
  uztwc_ <= uztwm p /\ (0 < pav -> uztwc_ = uztwm p).

Definition pass_c_ok (p : sac_par (T:=R)) (uztwc_ : R) (c : sac_pass_c (T:=R)) : Prop :=
  0 <= c_pinc c /\ loop_u_ok p uztwc_ (c_pinc c) /\ 0 < c_dinc c <= 1 /\ 0 <= c_duz c <= 1 /\
  0 <= c_dlzp c <= 1 /\ 0 <= c_dlzs c <= 1.

Definition inc_budgets (p : sac_par (T:=R)) (c : sac_pass_c (T:=R)) (v v' : sac_inner (T:=R)) : Prop :=
  (* pervious-area budget of the iteration *)
  i_uzfwc v' + i_lztwc v' + i_alzfpc v' + i_alzfsc v' + i_flobf v' + i_floin v' + i_flosf v'
    = i_uzfwc v + i_lztwc v + i_alzfpc v + i_alzfsc v + i_flobf v + i_floin v + i_flosf v + c_pinc c /\
  (* ADIMP-area budget *)
  adimp p * i_adimc v' + i_roimp v' = adimp p * i_adimc v + i_roimp v + adimp p * c_pinc c.

Theorem sac_inc_inv_full : forall p uztwc_ c v, sac_ok p = true ->
  pass_c_ok p uztwc_ c -> inc_inv p uztwc_ v ->
  inc_inv p uztwc_ (sac_inc p uztwc_ c v) /\ inc_budgets p c v (sac_inc p uztwc_ c v) /\
  (* flows only accumulate *)
  i_flobf v <= i_flobf (sac_inc p uztwc_ c v) /\ i_floin v <= i_floin (sac_inc p uztwc_ c v) /\
  i_flosf v <= i_flosf (sac_inc p uztwc_ c v) /\ i_roimp v <= i_roimp (sac_inc p uztwc_ c v) /\
  i_adimc v <= i_adimc (sac_inc p uztwc_ c v).
Proof.
  intros p uz c v Hok (Hc1 & [Hu1 Hu2] & Hc3 & Hc4 & Hc5 & Hc6) I.
  pose proof (sac_ok_facts p Hok) as F. pose proof F as F'. destruct F'. destruct I.
  fold (sMp p) in *. fold (sMs p) in *.
  rewrite sac_inc_blocks. cbv zeta.
  rewrite (blk_drain_spec (i_alzfpc v) (c_dlzp c)) by lra.
  rewrite (blk_drain_spec (i_alzfsc v) (c_dlzs c)) by lra.
  set (P1 := i_alzfpc v - i_alzfpc v * c_dlzp c) in *.
  set (S1 := i_alzfsc v - i_alzfsc v * c_dlzs c) in *.
  assert (HP1 : 0 <= P1 <= sMp p).
  { unfold P1. assert (0 <= i_alzfpc v * c_dlzp c) by (apply Rmult_le_pos; lra).
    assert (i_alzfpc v * c_dlzp c <= i_alzfpc v * 1) by (apply Rmult_le_compat_l; lra). lra. }
  assert (HS1 : 0 <= S1 <= sMs p).
  { unfold S1. assert (0 <= i_alzfsc v * c_dlzs c) by (apply Rmult_le_pos; lra).
    assert (i_alzfsc v * c_dlzs c <= i_alzfsc v * 1) by (apply Rmult_le_compat_l; lra). lra. }
  assert (Hb1 : 0 <= i_alzfpc v * c_dlzp c) by (apply Rmult_le_pos; lra).
  assert (Hb2 : 0 <= i_alzfsc v * c_dlzs c) by (apply Rmult_le_pos; lra).
  destruct (blk_upper p c v P1 S1) as [[[[u3 fi3] t3] S3] P3] eqn:E1.
  apply blk_upper_spec in E1; try assumption; try lra.
  destruct E1 as (Hu3 & Hfi & Ht3 & HS3 & HP3 & Hbud).
  (* the clamped ADIMP ratio is in [0,1] *)
  set (r0 := (i_adimc v - uz) / lztwm p).
  assert (Hr0 : r0 <= 1).
  { unfold r0. apply Rmult_le_reg_r with (lztwm p); [lra|].
    unfold Rdiv. rewrite Rmult_assoc, Rinv_l by lra. lra. }
  set (r := if Rltb r0 0 then 0 else r0).
  assert (Hr : 0 <= r <= 1) by (unfold r; rcase_bool (Rltb r0 0); lra).
  assert (Hrr : 0 <= r * r <= 1) by nra.
  set (addro := c_pinc c * r * r).
  assert (Hadd : 0 <= addro <= c_pinc c).
  { unfold addro. rewrite Rmult_assoc. split; [apply Rmult_le_pos; lra|].
    assert (c_pinc c * (r * r) <= c_pinc c * 1) by (apply Rmult_le_compat_l; lra). lra. }
  destruct (blk_fill p (c_pinc c) addro (i_flosf v) u3) as [[u4 fs4] ad4] eqn:E2.
  apply blk_fill_spec in E2; try assumption; try lra.
  destruct E2 as (Hu4 & Hfs & Hbud2 & Had4).
  destruct (blk_cap p (i_adimc v + c_pinc c - ad4) ad4) as [ad5 b] eqn:E3.
  apply blk_cap_spec in E3. destruct E3 as (K1 & K2 & K3 & K4 & K5 & K6).
  assert (Hro : 0 <= ad5 * adimp p) by (apply Rmult_le_pos; lra).
  (* the new content: >= the old one, and <= uztwc_ + lztwm *)
  assert (Hlo : i_adimc v <= b).
  { destruct (Rle_dec (i_adimc v + c_pinc c - ad4) (uztwm p + lztwm p)) as [Hle|Hgt].
    - rewrite (K5 Hle). lra.
    - rewrite K6 by lra. lra. }
  assert (Hhi : b <= uz + lztwm p).
  { destruct (Rlt_dec 0 (c_pinc c)) as [Hp|Hp].
    - rewrite (Hu2 Hp). exact K2.
    - assert (c_pinc c = 0) by lra. assert (ad4 = 0) by lra. lra. }
  split; [|split].
  - constructor; cbn [i_adimc i_alzfpc i_alzfsc i_flobf i_uzfwc i_floin i_lztwc i_flosf i_roimp];
      fold (sMp p); fold (sMs p); lra.
  - unfold inc_budgets. cbn [i_adimc i_alzfpc i_alzfsc i_flobf i_uzfwc i_floin i_lztwc i_flosf i_roimp].
    split; [unfold P1, S1 in Hbud; lra | replace b with (i_adimc v + c_pinc c - ad5) by lra; ring].
  - cbn [i_adimc i_alzfpc i_alzfsc i_flobf i_uzfwc i_floin i_lztwc i_flosf i_roimp].
    repeat split; lra.
Qed.

Theorem sac_inc_inv : forall p uztwc_ c v, sac_ok p = true ->
  pass_c_ok p uztwc_ c -> inc_inv p uztwc_ v ->
  let v' := sac_inc p uztwc_ c v in
  inc_inv p uztwc_ v' /\
  i_uzfwc v' + i_lztwc v' + i_alzfpc v' + i_alzfsc v' + i_flobf v' + i_floin v' + i_flosf v'
    = i_uzfwc v + i_lztwc v + i_alzfpc v + i_alzfsc v + i_flobf v + i_floin v + i_flosf v + c_pinc c /\
  adimp p * i_adimc v' + i_roimp v' = adimp p * i_adimc v + i_roimp v + adimp p * c_pinc c.
Proof.
  intros p uz c v Hok Hc I v'.
  destruct (sac_inc_inv_full p uz c v Hok Hc I) as (H1 & [H2 H3] & _).
  exact (conj H1 (conj H2 H3)).
Qed.

(** * (B) one pass of the loop: [sac_pass] *)
Lemma Rpow_unit b e : 0 < b <= 1 -> 0 <= e -> 0 <= Rpow b e <= 1.
Proof.
  intros Hb He. unfold Rpow. destruct (Req_EM_T e 0); [lra|]. destruct (Req_EM_T b 0); [lra|].
  unfold Rpower. split; [left; apply exp_pos|].
  assert (Hl : ln b <= 0).
  { destruct (Req_dec b 1) as [->|]; [rewrite ln_1; lra|]. rewrite <- ln_1. left. apply ln_increasing; lra. }
  assert (Hx : e * ln b <= 0) by nra.
  destruct Hx as [Hx|Hx]; [|rewrite Hx, exp_0; lra].
  left. rewrite <- exp_0. now apply exp_increasing.
Qed.

Lemma one_minus_pow_unit k d : 0 <= k <= 1 -> 0 <= d ->
  0 <= (if Rltb k 1 then 1 - Rpow (1 - k) d else 1) <= 1.
Proof.
  intros Hk Hd. rcase_bool (Rltb k 1); [|lra].
  pose proof (Rpow_unit (1 - k) d ltac:(lra) Hd). lra.
Qed.

(** [int(math.Floor(x))] for any x >= 0 *)
Lemma Rtrunc_Rfloor_nonneg x : 0 <= x ->
  exists k, (0 <= k)%Z /\ Rtrunc (Rfloor x) = k /\ IZR k <= x < IZR k + 1.
Proof.
  intros Hx. exists (Int_part x). destruct (base_Int_part x) as [H1 H2].
  assert (Hb : IZR (Int_part x) <= x < IZR (Int_part x) + 1) by lra.
  assert (Hk : (0 <= Int_part x)%Z).
  { destruct (Z_lt_le_dec (Int_part x) 0) as [Hn|]; [|assumption]. exfalso.
    assert (Int_part x + 1 <= 0)%Z by lia. apply IZR_le in H. rewrite plus_IZR in H. simpl in H. lra. }
  repeat split; try assumption; try lra. apply Rtrunc_Rfloor_between; assumption.
Qed.

Definition perv_sum (v : sac_inner (T:=R)) : R :=
  i_uzfwc v + i_lztwc v + i_alzfpc v + i_alzfsc v + i_flobf v + i_floin v + i_flosf v.

Lemma sac_iter_inv p uztwc_ c n v : sac_ok p = true ->
  pass_c_ok p uztwc_ c -> inc_inv p uztwc_ v ->
  inc_inv p uztwc_ (Nat.iter n (sac_inc p uztwc_ c) v) /\
  perv_sum (Nat.iter n (sac_inc p uztwc_ c) v) = perv_sum v + INR n * c_pinc c /\
  adimp p * i_adimc (Nat.iter n (sac_inc p uztwc_ c) v) + i_roimp (Nat.iter n (sac_inc p uztwc_ c) v)
    = adimp p * i_adimc v + i_roimp v + adimp p * (INR n * c_pinc c).
Proof.
  intros Hok Hc I. induction n as [|n IH].
  - cbn [Nat.iter nat_rect]. simpl INR. split; [exact I | split; lra].
  - change (Nat.iter (S n) (sac_inc p uztwc_ c) v)
      with (sac_inc p uztwc_ c (Nat.iter n (sac_inc p uztwc_ c) v)).
    destruct IH as (I1 & B1 & B2).
    destruct (sac_inc_inv p uztwc_ c _ Hok Hc I1) as (I2 & C1 & C2).
    rewrite S_INR. unfold perv_sum in *. split; [exact I2 | split; lra].
Qed.

Theorem sac_pass_inv : forall p uztwc_ adj pav v, sac_ok p = true ->
  0 < adj <= 1 -> 0 <= pav -> loop_u_ok p uztwc_ pav -> inc_inv p uztwc_ v ->
  let v' := sac_pass p uztwc_ adj pav v in
  inc_inv p uztwc_ v' /\ perv_sum v' = perv_sum v + pav /\
  adimp p * i_adimc v' + i_roimp v' = adimp p * i_adimc v + i_roimp v + adimp p * pav.
Proof.
  intros p uz adj pav v Hok Ha Hp [Hu1 Hu2] I v'. subst v'.
  pose proof Hok as Hok'. sac_ok_split Hok'.
  unfold sac_pass. runfold. cbn [truncZ afloor RArith].
  set (x := (i_uzfwc v * adj + pav) * (1 / 5)).
  assert (Hx : 0 <= x).
  { unfold x. destruct I. assert (0 <= i_uzfwc v * adj) by (apply Rmult_le_pos; lra). lra. }
  destruct (Rtrunc_Rfloor_nonneg x Hx) as (k & Hk & -> & Hk1 & Hk2).
  set (ninc := (k + 1)%Z).
  assert (Hn : IZR ninc = IZR k + 1) by (unfold ninc; rewrite plus_IZR; simpl; lra).
  assert (Hn1 : 1 <= IZR ninc) by (apply IZR_le in Hk; simpl in Hk; lra).
  set (d0 := 1 / IZR ninc).
  assert (Hd0 : 0 < d0 <= 1).
  { unfold d0. split; [apply Rdiv_lt_0_compat; lra|].
    apply Rmult_le_reg_r with (IZR ninc); [lra|]. unfold Rdiv. rewrite Rmult_assoc, Rinv_l by lra. lra. }
  assert (Ed0 : IZR ninc * d0 = 1) by (unfold d0; field; lra).
  assert (Hdinc : 0 < d0 * adj <= 1) by nra.
  assert (Hpinc : 0 <= pav * d0) by (apply Rmult_le_pos; lra).
  assert (Hpinc2 : 0 < pav * d0 -> uz = uztwm p).
  { intros Hpos. apply Hu2. destruct (Rle_lt_dec pav 0) as [Hz|]; [|assumption].
    assert (pav = 0) by lra. subst pav. lra. }
  match goal with |- context [if ?b then _ else _] => set (cond := b) end.
  match goal with |- context [if cond then ?a else ?b] =>
    assert (Htr : exists duz dlzp dlzs, (if cond then a else b) = (duz, dlzp, dlzs) /\
                   0 <= duz <= 1 /\ 0 <= dlzp <= 1 /\ 0 <= dlzs <= 1) end.
  { destruct cond.
    - do 3 eexists. split; [reflexivity|]. repeat split; lra.
    - do 3 eexists. split; [reflexivity|].
      pose proof (one_minus_pow_unit (uzk p) (d0 * adj) ltac:(lra) ltac:(lra)).
      pose proof (one_minus_pow_unit (lzpk p) (d0 * adj) ltac:(lra) ltac:(lra)).
      pose proof (one_minus_pow_unit (lzsk p) (d0 * adj) ltac:(lra) ltac:(lra)).
      repeat split; lra. }
  destruct Htr as (duz & dlzp & dlzs & -> & Hz1 & Hz2 & Hz3).
  set (c := {| c_pinc := pav * d0; c_dinc := d0 * adj; c_duz := duz; c_dlzp := dlzp; c_dlzs := dlzs |}).
  assert (Hc : pass_c_ok p uz c).
  { unfold pass_c_ok, loop_u_ok, c. cbn [c_pinc c_dinc c_duz c_dlzp c_dlzs].
    repeat split; try lra; try exact Hpinc2. }
  destruct (sac_iter_inv p uz c (Z.to_nat ninc) v Hok Hc I) as (I1 & B1 & B2).
  assert (En : INR (Z.to_nat ninc) * c_pinc c = pav).
  { rewrite INR_IZR_INZ, Z2Nat.id by (unfold ninc; lia). unfold c; cbn [c_pinc].
    rewrite (Rmult_comm pav), <- Rmult_assoc, Ed0. ring. }
  rewrite En in B1, B2. exact (conj I1 (conj B1 B2)).
Qed.

(** * (C1) the loop [sac_loop]: one or two passes *)
Theorem sac_loop_inv : forall p uztwc_ pav v, sac_ok p = true ->
  0 <= pav -> loop_u_ok p uztwc_ pav -> inc_inv p uztwc_ v ->
  let v' := sac_loop p uztwc_ pav v in
  inc_inv p uztwc_ v' /\ perv_sum v' = perv_sum v + pav /\
  adimp p * i_adimc v' + i_roimp v' = adimp p * i_adimc v + i_roimp v + adimp p * pav.
Proof.
  intros p uz pav v Hok Hp Hu I v'. subst v'.
  unfold sac_loop, pdn20, pdnor, half_pdnor. runfold.
  rcase_bool (Rleb pav (508 / 100)).
  - change (2 =? 1)%Z with false. cbv iota.
    apply (sac_pass_inv p uz 1 pav v Hok); [lra | assumption | assumption | assumption].
  - set (adj := if Rltb pav (254 / 10) then 1 / 2 * sqrt (pav / (254 / 10)) else 1 - 127 / 10 / pav).
    assert (Ha : 0 < adj < 1).
    { unfold adj. rcase_bool (Rltb pav (254 / 10)).
      - assert (H0 : 0 < pav / (254 / 10)) by (apply Rdiv_lt_0_compat; lra).
        assert (H1 : pav / (254 / 10) <= 1) by (apply Rmult_le_reg_r with (254 / 10); [lra|]; unfold Rdiv at 1; rewrite Rmult_assoc, Rinv_l by lra; lra).
        pose proof (sqrt_lt_R0 _ H0). pose proof (sqrt_le_1_alt _ _ H1) as H2. rewrite sqrt_1 in H2. lra.
      - assert (H0 : 0 < 127 / 10 / pav) by (apply Rdiv_lt_0_compat; lra).
        assert (H1 : 127 / 10 / pav <= 1 / 2).
        { apply Rmult_le_reg_r with pav; [lra|]. unfold Rdiv at 1. rewrite Rmult_assoc, Rinv_l by lra. lra. }
        lra. }
    change (1 =? 1)%Z with true. cbv iota.
    destruct (sac_pass_inv p uz adj pav v Hok ltac:(lra) Hp Hu I) as (I1 & B1 & B2).
    assert (Hu0 : loop_u_ok p uz 0) by (destruct Hu; split; [assumption | intros; lra]).
    destruct (sac_pass_inv p uz (1 - adj) 0 _ Hok ltac:(lra) ltac:(lra) Hu0 I1) as (I2 & C1 & C2).
    split; [exact I2 | split; lra].
Qed.

(** * (C2) the land phase before the loop: [sac_pre] *)
Definition pre_evap (p : sac_par (T:=R)) (st : sac_st (T:=R)) (evapt : R) : R * R * R * R :=
  let e1a := if Rltb 0 (uztwm p) then evapt * uztwc st / uztwm p else 0 in
  if Rltb (uztwc st) e1a then
    (uztwc st, Rmin (evapt - uztwc st) (uzfwc st), 0, uzfwc st - Rmin (evapt - uztwc st) (uzfwc st))
  else (e1a, 0, uztwc st - e1a, uzfwc st).

Definition pre_transfer (p : sac_par (T:=R)) (uztwc1 uzfwc1 : R) : R * R :=
  let a1 := if Rltb 0 (uztwm p) then uztwc1 / uztwm p else 1 in
  let b1 := if Rltb 0 (uzfwm p) then uzfwc1 / uzfwm p else 1 in
  if Rltb a1 b1 then
    (uztwm p * ((uztwc1 + uzfwc1) / (uztwm p + uzfwm p)), uzfwm p * ((uztwc1 + uzfwc1) / (uztwm p + uzfwm p)))
  else (uztwc1, uzfwc1).

Definition pre_e35 (p : sac_par (T:=R)) (st : sac_st (T:=R)) (evapt e1 e2 uztwc2 : R) : R * R :=
  if Rltb 0 (uztwm p + lztwm p) then
    (Rmin ((evapt - e1 - e2) * lztwc st / (uztwm p + lztwm p)) (lztwc st),
     let e5a := Rmin (e1 + (evapt - e1 - e2) * (adimc st - e1 - uztwc2) / (uztwm p + lztwm p)) (adimc st) in
     if Rltb e5a 0 then 0 else e5a)
  else (0, 0).

Definition pre_resupply (p : sac_par (T:=R)) (st : sac_st (T:=R)) (lztwc1 : R) : R * R * R :=
  let saved := rserv p * (lzfpm p + lzfsm p) in
  let a2 := if Rltb 0 (lztwm p) then lztwc1 / lztwm p else 1 in
  let b2 := if Rltb 0 (sMp p + sMs p - saved + lztwm p)
            then (alzfpc st + alzfsc st - saved + lztwc1) / (sMp p + sMs p - saved + lztwm p)
            else 1 in
  if Rltb a2 b2 then
    if Rltb (alzfsc st - (b2 - a2) * lztwm p) 0
    then (lztwc1 + (b2 - a2) * lztwm p, 0, alzfpc st + (alzfsc st - (b2 - a2) * lztwm p))
    else (lztwc1 + (b2 - a2) * lztwm p, alzfsc st - (b2 - a2) * lztwm p, alzfpc st)
  else (lztwc1, alzfsc st, alzfpc st).

Definition pre_fill (p : sac_par (T:=R)) (pliq adimc1 uztwc2 : R) : R * R * R :=
  if Rltb (pliq + uztwc2 - uztwm p) 0 then (adimc1 + pliq, uztwc2 + pliq, 0)
  else (adimc1 + uztwm p - uztwc2, uztwm p, pliq + uztwc2 - uztwm p).

Lemma sac_pre_blocks p st pliq evapt :
  sac_pre p st (pliq, evapt) =
  let '(e1, e2, uztwc1, uzfwc1) := pre_evap p st evapt in
  let '(uztwc2, uzfwc2) := pre_transfer p uztwc1 uzfwc1 in
  let '(e3, e5) := pre_e35 p st evapt e1 e2 uztwc2 in
  let '(lztwc2, alzfsc2, alzfpc2) := pre_resupply p st (lztwc st - e3) in
  let '(adimc2, uztwc3, pav) := pre_fill p pliq (adimc st - e5) uztwc2 in
  {| pr_v0 := {| i_adimc := adimc2; i_alzfpc := alzfpc2; i_alzfsc := alzfsc2; i_flobf := 0;
                 i_uzfwc := uzfwc2; i_floin := 0; i_lztwc := lztwc2; i_flosf := 0;
                 i_roimp := pliq * pctim p |};
     pr_uztwc := uztwc3; pr_pav := pav; pr_e1 := e1; pr_e2 := e2; pr_e3 := e3; pr_e5 := e5 |}.
Proof. reflexivity. Qed.

(** the store invariant of the state between time steps (the fields read by the land phase) *)
Record st_inv (p : sac_par (T:=R)) (st : sac_st (T:=R)) : Prop := {
  si_uztwc : 0 <= uztwc st <= uztwm p;
  si_uzfwc : 0 <= uzfwc st <= uzfwm p;
  si_lztwc : 0 <= lztwc st <= lztwm p;
  si_alzfpc : 0 <= alzfpc st <= lzfpm p * (1 + side p);
  si_alzfsc : 0 <= alzfsc st <= lzfsm p * (1 + side p);
  si_adimc : 0 <= adimc st <= uztwc st + lztwm p }.

Lemma pre_evap_spec p st evapt e1 e2 u1 f1 : 1 <= uztwm p -> st_inv p st -> 0 <= evapt ->
  pre_evap p st evapt = (e1, e2, u1, f1) ->
  0 <= e1 /\ 0 <= e2 /\ e1 + e2 <= evapt /\ u1 = uztwc st - e1 /\ f1 = uzfwc st - e2 /\
  0 <= u1 <= uztwm p /\ 0 <= f1 <= uzfwm p.
Proof.
  intros Hm I He. destruct I. unfold pre_evap.
  replace (Rltb 0 (uztwm p)) with true by (symmetry; apply Rltb_true; lra).
  set (e1a := evapt * uztwc st / uztwm p).
  assert (Ha : 0 <= e1a <= evapt).
  { unfold e1a. pose proof (div_unit (uztwc st) (uztwm p) si_uztwc0 ltac:(lra)) as Hq.
    replace (evapt * uztwc st / uztwm p) with (evapt * (uztwc st / uztwm p)) by (field; lra).
    split; [apply Rmult_le_pos; lra|].
    assert (evapt * (uztwc st / uztwm p) <= evapt * 1) by (apply Rmult_le_compat_l; lra). lra. }
  rcase_bool (Rltb (uztwc st) e1a); intros E; injection E as <- <- <- <-.
  - pose proof (Rmin_l (evapt - uztwc st) (uzfwc st)). pose proof (Rmin_r (evapt - uztwc st) (uzfwc st)).
    assert (0 <= Rmin (evapt - uztwc st) (uzfwc st)) by (apply Rmin_glb; lra).
    repeat split; lra.
  - repeat split; lra.
Qed.

Lemma pre_transfer_spec p u1 f1 u2 f2 : 1 <= uztwm p -> 1 <= uzfwm p ->
  0 <= u1 <= uztwm p -> 0 <= f1 <= uzfwm p -> pre_transfer p u1 f1 = (u2, f2) ->
  u2 + f2 = u1 + f1 /\ 0 <= u2 <= uztwm p /\ 0 <= f2 <= uzfwm p /\ u1 <= u2.
Proof.
  intros Hm1 Hm2 Hu Hf. unfold pre_transfer.
  replace (Rltb 0 (uztwm p)) with true by (symmetry; apply Rltb_true; lra).
  replace (Rltb 0 (uzfwm p)) with true by (symmetry; apply Rltb_true; lra).
  rcase_bool (Rltb (u1 / uztwm p) (f1 / uzfwm p)); intros E; injection E as <- <-; [|repeat split; lra].
  assert (Hx : u1 * uzfwm p < f1 * uztwm p).
  { apply (Rmult_lt_compat_r (uztwm p * uzfwm p)) in Hc; [|nra].
    replace (u1 / uztwm p * (uztwm p * uzfwm p)) with (u1 * uzfwm p) in Hc by (field; lra).
    replace (f1 / uzfwm p * (uztwm p * uzfwm p)) with (f1 * uztwm p) in Hc by (field; lra). exact Hc. }
  pose proof (div_unit (u1 + f1) (uztwm p + uzfwm p) ltac:(lra) ltac:(lra)) as Ha.
  set (a := (u1 + f1) / (uztwm p + uzfwm p)) in *.
  assert (Ea : a * (uztwm p + uzfwm p) = u1 + f1) by (unfold a; field; lra).
  assert (0 <= uztwm p * a) by (apply Rmult_le_pos; lra).
  assert (0 <= uzfwm p * a) by (apply Rmult_le_pos; lra).
  assert (uztwm p * a <= uztwm p * 1) by (apply Rmult_le_compat_l; lra).
  assert (uzfwm p * a <= uzfwm p * 1) by (apply Rmult_le_compat_l; lra).
  assert (u1 <= uztwm p * a).
  { apply Rmult_le_reg_r with (uztwm p + uzfwm p); [lra|].
    replace (uztwm p * a * (uztwm p + uzfwm p)) with (uztwm p * (u1 + f1)) by (rewrite <- Ea; ring). nra. }
  repeat split; lra.
Qed.

Lemma pre_e35_spec p st evapt e1 e2 u2 e3 e5 : 1 <= uztwm p -> 1 <= lztwm p ->
  0 <= lztwc st <= lztwm p -> 0 <= u2 -> 0 <= adimc st ->
  0 <= evapt - e1 - e2 <= uztwm p + lztwm p -> 0 <= e1 -> adimc st - e1 - u2 <= lztwm p ->
  pre_e35 p st evapt e1 e2 u2 = (e3, e5) ->
  0 <= e3 <= lztwc st /\ e3 <= evapt - e1 - e2 /\ 0 <= e5 <= adimc st /\
  adimc st - e5 - u2 <= lztwm p.
Proof.
  intros Hm1 Hm2 Hl Hu Had HR He1 Hd. unfold pre_e35.
  replace (Rltb 0 (uztwm p + lztwm p)) with true by (symmetry; apply Rltb_true; lra).
  intros E; injection E as <- <-.
  set (W := uztwm p + lztwm p) in *. set (Rr := evapt - e1 - e2) in *.
  pose proof (div_unit Rr W HR ltac:(unfold W; lra)) as Hq. set (q := Rr / W) in *.
  replace (Rr * lztwc st / W) with (q * lztwc st) by (unfold q; field; unfold W; lra).
  replace (Rr * (adimc st - e1 - u2) / W) with (q * (adimc st - e1 - u2)) by (unfold q; field; unfold W; lra).
  set (dd := adimc st - e1 - u2) in *.
  assert (H1 : 0 <= q * lztwc st) by (apply Rmult_le_pos; lra).
  assert (H2 : q * lztwc st <= 1 * lztwc st) by (apply Rmult_le_compat_r; lra).
  assert (H5 : q * lztwc st <= Rr).
  { assert (q * lztwc st <= q * W) by (apply Rmult_le_compat_l; unfold W; lra).
    assert (q * W = Rr) by (unfold q; field; unfold W; lra). lra. }
  rewrite (Rmin_left (q * lztwc st)) by lra.
  (* dd * (1 - q) <= lztwm whatever the sign of dd *)
  assert (H6 : dd - q * dd <= lztwm p).
  { destruct (Rle_dec 0 dd) as [Hp|Hn].
    - assert (0 <= q * dd) by (apply Rmult_le_pos; lra). lra.
    - assert (0 <= (1 - q) * (- dd)) by (apply Rmult_le_pos; lra). nra. }
  pose proof (Rmin_l (e1 + q * dd) (adimc st)) as M1. pose proof (Rmin_r (e1 + q * dd) (adimc st)) as M2.
  set (e5a := Rmin (e1 + q * dd) (adimc st)) in *.
  rcase_bool (Rltb e5a 0).
  - (* clamped: then e1 + q*dd < 0, hence dd < 0 and adimc - u2 = dd + e1 < dd*(1-q) <= 0 *)
    assert (HF : e1 + q * dd < 0).
    { unfold e5a in Hc. destruct (Rle_dec (e1 + q * dd) (adimc st)) as [Hle|Hgt].
      - rewrite Rmin_left in Hc by lra. exact Hc.
      - rewrite Rmin_right in Hc by lra. lra. }
    assert (Hdd : dd < 0).
    { destruct (Rle_dec 0 dd) as [Hp|Hn]; [|lra]. assert (0 <= q * dd) by (apply Rmult_le_pos; lra). lra. }
    assert (0 <= (1 - q) * (- dd)) by (apply Rmult_le_pos; lra).
    unfold dd in *. repeat split; try lra; nra.
  - repeat split; try lra.
    destruct (Rle_dec (e1 + q * dd) (adimc st)) as [Hle|Hgt].
    + unfold e5a. rewrite Rmin_left by lra. unfold dd in *. lra.
    + unfold e5a. rewrite Rmin_right by lra. lra.
Qed.

Lemma pre_resupply_spec p st l1 l2 S2 P2 : par_facts p -> 0 <= rserv p <= 1 -> 1 <= lzfpm p -> 1 <= lzfsm p ->
  st_inv p st -> 0 <= l1 <= lztwm p -> pre_resupply p st l1 = (l2, S2, P2) ->
  l2 + S2 + P2 = l1 + alzfsc st + alzfpc st /\ 0 <= l2 <= lztwm p /\
  0 <= S2 <= sMs p /\ 0 <= P2 <= sMp p.
Proof.
  intros F Hr Hp1 Hs1 I Hl. destruct F. destruct I. fold (sMp p) in *. fold (sMs p) in *.
  unfold pre_resupply. set (saved := rserv p * (lzfpm p + lzfsm p)).
  assert (Hsv : 0 <= saved <= sMp p + sMs p).
  { unfold saved. split; [apply Rmult_le_pos; lra|].
    assert (rserv p * (lzfpm p + lzfsm p) <= 1 * (lzfpm p + lzfsm p)) by (apply Rmult_le_compat_r; lra).
    unfold sMp, sMs. nra. }
  set (D := sMp p + sMs p - saved + lztwm p).
  assert (HD : lztwm p <= D) by (unfold D; lra).
  replace (Rltb 0 (lztwm p)) with true by (symmetry; apply Rltb_true; lra).
  replace (Rltb 0 D) with true by (symmetry; apply Rltb_true; lra).
  set (N := alzfpc st + alzfsc st - saved + l1).
  set (a2 := l1 / lztwm p). set (b2 := N / D).
  assert (Ea : a2 * lztwm p = l1) by (unfold a2; field; lra).
  assert (Eb : b2 * D = N) by (unfold b2; field; lra).
  assert (Ha : 0 <= a2) by (unfold a2; apply Rdiv_pos_pos; lra).
  rcase_bool (Rltb a2 b2); [|intros E; injection E as <- <- <-; repeat split; lra].
  assert (Hb1 : b2 <= 1).
  { apply Rmult_le_reg_r with D; [lra|]. rewrite Eb. unfold N, D. lra. }
  replace ((b2 - a2) * lztwm p) with (b2 * lztwm p - l1) by (rewrite <- Ea; ring).
  assert (H1 : 0 <= b2 * lztwm p) by (apply Rmult_le_pos; lra).
  assert (H2 : b2 * lztwm p <= 1 * lztwm p) by (apply Rmult_le_compat_r; lra).
  assert (H3 : l1 < b2 * lztwm p) by (rewrite <- Ea; apply Rmult_lt_compat_r; lra).
  assert (H4 : 0 <= b2 * (D - lztwm p)) by (apply Rmult_le_pos; lra).
  assert (H5 : alzfpc st + alzfsc st + l1 - b2 * lztwm p = b2 * (D - lztwm p) + saved).
  { replace (b2 * (D - lztwm p)) with (b2 * D - b2 * lztwm p) by ring. rewrite Eb. unfold N. ring. }
  rcase_bool (Rltb (alzfsc st - (b2 * lztwm p - l1)) 0); intros E; injection E as <- <- <-;
    repeat split; lra.
Qed.

Lemma pre_fill_spec p pliq a1 u2 a2 u3 pav : 0 <= pliq -> 0 <= u2 <= uztwm p ->
  pre_fill p pliq a1 u2 = (a2, u3, pav) ->
  0 <= pav /\ 0 <= u3 <= uztwm p /\ a2 - u3 = a1 - u2 /\ u3 + pav = u2 + pliq /\ a2 + pav = a1 + pliq.
Proof.
  intros Hp Hu. unfold pre_fill.
  rcase_bool (Rltb (pliq + u2 - uztwm p) 0); intros E; injection E as <- <- <-; repeat split; lra.
Qed.

Theorem sac_pre_inv : forall p st pliq evapt, sac_ok p = true -> st_inv p st ->
  0 <= pliq -> 0 <= evapt <= uztwm p + lztwm p ->
  let pre := sac_pre p st (pliq, evapt) in
  inc_inv p (pr_uztwc pre) (pr_v0 pre) /\ 0 <= pr_pav pre /\ 0 <= pr_uztwc pre /\
  loop_u_ok p (pr_uztwc pre) (pr_pav pre) /\
  0 <= pr_e1 pre /\ 0 <= pr_e2 pre /\ 0 <= pr_e3 pre /\ 0 <= pr_e5 pre /\
  pr_e1 pre + pr_e2 pre + pr_e3 pre <= evapt /\
  (* pervious-area budget *)
  pr_uztwc pre + perv_sum (pr_v0 pre) + pr_pav pre + pr_e1 pre + pr_e2 pre + pr_e3 pre
    = uztwc st + uzfwc st + lztwc st + alzfpc st + alzfsc st + pliq /\
  (* ADIMP-area budget *)
  i_adimc (pr_v0 pre) + pr_pav pre + pr_e5 pre = adimc st + pliq /\
  i_roimp (pr_v0 pre) = pliq * pctim p /\
  i_flobf (pr_v0 pre) = 0 /\ i_floin (pr_v0 pre) = 0 /\ i_flosf (pr_v0 pre) = 0.
Proof.
  intros p st pliq evapt Hok I Hp He pre. subst pre.
  pose proof (sac_ok_facts p Hok) as F. pose proof Hok as Hok'. sac_ok_split Hok'.
  pose proof F as F'. destruct F'. pose proof I as I'. destruct I'.
  rewrite sac_pre_blocks.
  destruct (pre_evap p st evapt) as [[[e1 e2] u1] f1] eqn:E1.
  apply pre_evap_spec in E1; try assumption; try lra.
  destruct E1 as (A1 & A2 & A3 & -> & -> & A4 & A5).
  destruct (pre_transfer p (uztwc st - e1) (uzfwc st - e2)) as [u2 f2] eqn:E2.
  apply pre_transfer_spec in E2; try assumption.
  destruct E2 as (T1 & T2 & T3 & T4).
  destruct (pre_e35 p st evapt e1 e2 u2) as [e3 e5] eqn:E3.
  apply pre_e35_spec in E3; try assumption; try lra.
  destruct E3 as (V1 & V2 & V3 & V4).
  destruct (pre_resupply p st (lztwc st - e3)) as [[l2 S2] P2] eqn:E4.
  apply pre_resupply_spec in E4; try assumption; try lra.
  destruct E4 as (R1 & R2 & R3 & R4).
  destruct (pre_fill p pliq (adimc st - e5) u2) as [[a2 u3] pav] eqn:E5.
  pose proof E5 as E5'. apply pre_fill_spec in E5; try assumption.
  destruct E5 as (L1 & L2 & L3 & L4 & L5).
  assert (L6 : 0 < pav -> u3 = uztwm p).
  { unfold pre_fill in E5'. revert E5'.
    rcase_bool (Rltb (pliq + u2 - uztwm p) 0); intros E; injection E as <- <- <-; intros; lra. }
  cbn [pr_v0 pr_uztwc pr_pav pr_e1 pr_e2 pr_e3 pr_e5 i_adimc i_roimp i_flobf i_floin i_flosf].
  assert (0 <= pliq * pctim p) by (apply Rmult_le_pos; lra).
  split.
  { constructor; cbn [i_adimc i_alzfpc i_alzfsc i_flobf i_uzfwc i_floin i_lztwc i_flosf i_roimp];
      fold (sMp p); fold (sMs p); lra. }
  unfold perv_sum, loop_u_ok.
  cbn [i_adimc i_alzfpc i_alzfsc i_flobf i_uzfwc i_floin i_lztwc i_flosf i_roimp].
  repeat split; try lra; assumption.
Qed.

(** * (C3) the whole land phase and the step: invariant, budgets, and the C10 statements *)
Theorem sac_land_inv : forall p st io, sac_ok p = true ->
  st_inv p st -> 0 <= fst io -> 0 <= snd io <= uztwm p + lztwm p ->
  let l := sac_land p st io in
  inc_inv p (l_uztwc l) (l_v l) /\ 0 <= l_uztwc l <= uztwm p /\
  0 <= l_e1 l /\ 0 <= l_e2 l /\ 0 <= l_e3 l /\ 0 <= l_e5 l /\
  l_e1 l + l_e2 l + l_e3 l <= snd io /\
  (* pervious-area budget: stores after + flows + evaporation = stores before + rain *)
  l_uztwc l + perv_sum (l_v l) + l_e1 l + l_e2 l + l_e3 l
    = uztwc st + uzfwc st + lztwc st + alzfpc st + alzfsc st + fst io /\
  (* ADIMP-area budget *)
  adimp p * (i_adimc (l_v l) + l_e5 l) + i_roimp (l_v l)
    = adimp p * (adimc st + fst io) + fst io * pctim p.
Proof.
  intros p st [pliq evapt] Hok I Hp He l. subst l. cbn [fst snd] in *.
  destruct (sac_pre_inv p st pliq evapt Hok I Hp He)
    as (I0 & P0 & U0 & U1 & E1 & E2 & E3 & E5 & Es & B1 & B2 & B3 & _).
  unfold sac_land. cbn [l_v l_uztwc l_e1 l_e2 l_e3 l_e5].
  set (pre := sac_pre p st (pliq, evapt)) in *.
  destruct (sac_loop_inv p (pr_uztwc pre) (pr_pav pre) (pr_v0 pre) Hok P0 U1 I0) as (I1 & C1 & C2).
  destruct U1 as [U1 _].
  split; [exact I1|]. repeat split; try lra; try assumption. nra.
Qed.

Lemma st_inv_init0 p : sac_ok p = true -> st_inv p (sac_init p 0 0 0 0 0 0).
Proof.
  intros Hok. sac_ok_split Hok. unfold sac_init. runfold.
  constructor; cbn [uztwc uzfwc lztwc adimc alzfsc alzfpc]; nra.
Qed.

(** the C10 output claims for one step: the flow part ... *)
Definition sac_flow_ok (o : sac_out (T:=R)) : Prop :=
  o_runoff o = o_surface o + o_baseflow o /\ 0 <= o_baseflow o <= o_runoff o /\ 0 <= o_surface o /\
  0 <= o_runoff o /\ 0 <= o_imperv o.
(** ... and all of them *)
Definition sac_out_ok (o : sac_out (T:=R)) : Prop := sac_flow_ok o /\ 0 <= o_aet o.

Theorem sac_step_inv : forall p st io, sac_ok p = true ->
  st_inv p st -> qq_ok (qq st) -> 0 <= fst io -> 0 <= snd io <= uztwm p + lztwm p ->
  st_inv p (fst (sac_step p st io)) /\ qq_ok (qq (fst (sac_step p st io))) /\
  sac_out_ok (snd (sac_step p st io)).
Proof.
  intros p st io Hok I Hq Hp He.
  destruct (sac_land_inv p st io Hok I Hp He) as (I1 & U1 & E1 & E2 & E3 & E5 & _).
  pose proof I1 as I1'. destruct I1'.
  pose proof (sac_step_flows_ok p st io Hok Hq (proj1 He)) as C. cbv zeta in C.
  specialize (C ii_flosf0 ii_roimp0 ii_floin0 ii_flobf0).
  destruct C as (C1 & C2 & C3 & C4 & C5 & C7).
  split; [|split; [exact C7 | split; [unfold sac_flow_ok; tauto|]]].
  - unfold sac_step. cbn [fst]. constructor; cbn [uztwc uzfwc lztwc adimc alzfsc alzfpc]; assumption.
  - apply (sac_step_aet_nonneg p st io Hok Hq (proj1 He)); auto.
Qed.

(** forcing: the PET of a day does not exceed the total tension-water capacity *)
Definition pet_bounded (p : sac_par (T:=R)) (io : list (R * R)) : Prop :=
  Forall (fun x => snd x <= uztwm p + lztwm p) io.

Lemma pet_bounded_firstn p io t : pet_bounded p io -> pet_bounded p (firstn t io).
Proof.
  unfold pet_bounded. revert t; induction io; intros [|t] H; cbn; auto.
  inversion H; subst. constructor; auto.
Qed.

(** run level *)
Theorem sacramento_c10 : forall p io st, sac_ok p = true ->
  st_inv p st -> qq_ok (qq st) -> io_nonneg io -> pet_bounded p io ->
  st_inv p (fst (sac_run p st io)) /\ qq_ok (qq (fst (sac_run p st io))) /\
  Forall sac_out_ok (snd (sac_run p st io)).
Proof.
  intros p io. induction io as [|x r IH]; intros st Hok I Hq Hio Hpet.
  - cbn. auto.
  - inversion Hio as [|? ? [Hx1 Hx2] Hr]; subst. inversion Hpet as [|? ? Hb Hpr]; subst.
    destruct (sac_step_inv p st x Hok I Hq Hx1 (conj Hx2 Hb)) as (I1 & Q1 & O1).
    specialize (IH (fst (sac_step p st x)) Hok I1 Q1 Hr Hpr).
    unfold sac_run in *. cbn [run]. destruct (sac_step p st x) as [s1 o]. cbn [fst snd] in *.
    destruct (run (sac_step p) s1 r) as [s2 os]. cbn [fst snd] in *.
    destruct IH as (J1 & J2 & J3). split; [exact J1 | split; [exact J2 | constructor; assumption]].
Qed.

(** non-vacuity: the hypotheses are satisfiable (documented defaults, empty initial state, one day
    with 10 mm rain and 3 mm PET) *)
Example sac_hyps_satisfiable : exists p io, sac_ok p = true /\
  st_inv p (sac_init p 0 0 0 0 0 0) /\ qq_ok (qq (sac_init p 0 0 0 0 0 0)) /\ io_nonneg io /\
  pet_bounded p io /\ io <> [].
Proof.
  assert (Hok : sac_ok sac_defaults = true) by (unfold sac_defaults; sac_ok_solve).
  exists sac_defaults, [(10, 3)]. split; [exact Hok|].
  split; [apply st_inv_init0; exact Hok|].
  split. { unfold sac_init, qq_ok. cbn [qq]. runfold. split; [reflexivity|]. repeat constructor; lra. }
  split; [repeat constructor; cbn; lra|].
  split. { repeat constructor. unfold sac_defaults. cbn [snd uztwm lztwm]. lra. }
  discriminate.
Qed.
